(* C05 — first-byte sniff of the server (pkg/util/net/tls.go: CheckAndEnableTLSServerConnWithTimeout)
   and the client's head-byte hook (pkg/util/net/dial.go: DialHookCustomTLSHeadByte).
   Model only: no proofs here. *)
From FRP Require Export Model.Bytes.
Open Scope Z_scope.

Module Sniff.

(* var FRPTLSHeadByte = 0x17 ; the literal 0x16 in the second case (TLS handshake record type) *)
Definition frp_tls_head_byte : Z := 23.
Definition tls_handshake_byte : Z := 22.

(* what the function hands to the caller *)
Inductive out :=
| TlsCustom   (* case 1: out = tls.Server(c, cfg): the head byte is consumed, isTLS, custom *)
| TlsStd      (* case 2: out = tls.Server(sc, cfg): the shared conn replays the byte, isTLS *)
| Plain       (* default, !tlsOnly: out = sc (byte replayed) *)
| Reject      (* default, tlsOnly: error "non-TLS connection received on a TlsOnly server" *)
| ReadErr.    (* r.Read failed (EOF / deadline) before one byte arrived *)

(* the switch of the function, in the order of the code, parametrised by the head byte
   constant so that the translated value (gen/GenWire.v) can be plugged in *)
Definition sniff_with (head : Z) (tls_only : bool) (b : byte) : out :=
  if Z_of_byte b =? head then TlsCustom
  else if Z_of_byte b =? tls_handshake_byte then TlsStd
  else if tls_only then Reject
  else Plain.

Definition sniff (tls_only : bool) (b : byte) : out := sniff_with frp_tls_head_byte tls_only b.

(* on a byte stream: what the next layer (tls.Server or the protocol reader) is given *)
Definition sniff_stream (tls_only : bool) (input : bytes) : out * bytes :=
  match input with
  | [] => (ReadErr, [])
  | b :: rest =>
      match sniff tls_only b with
      | TlsCustom => (TlsCustom, rest)
      | TlsStd => (TlsStd, input)
      | Plain => (Plain, input)
      | Reject => (Reject, [])
      | ReadErr => (ReadErr, [])
      end
  end.

Definition is_tls (o : out) : bool := match o with TlsCustom | TlsStd => true | _ => false end.
Definition is_custom (o : out) : bool := match o with TlsCustom => true | _ => false end.
Definition is_err (o : out) : bool := match o with Reject | ReadErr => true | _ => false end.

(* DialHookCustomTLSHeadByte(enableTLS, disableCustomTLSHeadByte): bytes written before TLS starts *)
Definition client_head (enable_tls disable_custom : bool) : bytes :=
  if enable_tls && negb disable_custom then [byte_of_Z frp_tls_head_byte] else [].

(* the muxer predicate of the "frp tls listener" (server/service.go) *)
Definition tls_listener_match (b : byte) : bool :=
  (Z_of_byte b =? frp_tls_head_byte) || (Z_of_byte b =? tls_handshake_byte).

Definition all_bytes : list byte := map byte_of_Z (map Z.of_nat (seq 0 256)).

End Sniff.
