package main

import (
	"fmt"
	"sync"
	"time"

	v1 "github.com/fatedier/frp/pkg/config/v1"
	"verifharness/hx"
)

type srvCert struct {
	name          string
	cert, key, ca string
	issuer        string   // "self" | "ca" | "other"
	names         []string // identities the certificate carries
}

type cliCert struct {
	name          string
	cert, key, ca string
	issuer        string // "" | "ca" | "other"
	serverName    string // TLS.ServerName ("" = falls back to the server address)
}

// runCerts: certificate matrix.  Every server identity / client-certificate requirement against
// every client certificate / verification setting, with a real frpc; observed: does a session come up
// (a proxy reaches "running", i.e. Login and NewProxy were interpreted and answered).
func runCerts(cfg *hx.RunCfg) error {
	hx.Quiet()
	pki, err := NewPKI()
	if err != nil {
		return err
	}
	defer pki.Close()
	cf := &hx.CaseFile{Imports: caseImports, Typ: "case", Tail: caseTail +
		"Definition NREFUSED := Eval vm_compute in count_if (fun c => match c with CCert _ _ _ _ _ _ _ false => true | _ => false end) cases.\nPrint NREFUSED.\n" +
		"Definition NACCEPTED := Eval vm_compute in count_if (fun c => match c with CCert _ _ _ _ _ _ _ true => true | _ => false end) cases.\nPrint NACCEPTED.\n" +
		"Definition NQUICREFUSEDNOCERT := Eval vm_compute in count_if (fun c => match c with CCert 3 true _ _ _ _ _ false => true | _ => false end) cases.\nPrint NQUICREFUSEDNOCERT.\n" +
		"Definition NQUICACCEPTED := Eval vm_compute in count_if (fun c => match c with CCert 3 _ _ _ _ _ _ true => true | _ => false end) cases.\nPrint NQUICACCEPTED.\n" +
		"Definition NKCPREFUSED := Eval vm_compute in count_if (fun c => match c with CCert 1 _ _ _ _ _ _ false => true | _ => false end) cases.\nPrint NKCPREFUSED.\n" +
		"Definition NWSREFUSED := Eval vm_compute in count_if (fun c => match c with CCert 2 _ _ _ _ _ _ false => true | _ => false end) cases.\nPrint NWSREFUSED.\n"}
	good := []string{goodServerName, addrServer, addrRelay}
	servers := []srvCert{
		{"self-signed", "", "", "", "self", nil},
		{"ca-cert", pki.ServerCert, pki.ServerKey, "", "ca", good},
		{"ca-cert+client-ca", pki.ServerCert, pki.ServerKey, pki.CA, "ca", good},
		{"ca-cert-other-name", pki.OtherServerCert, pki.OtherServerKey, "", "ca", []string{"other.verif.test"}},
		{"other-ca-cert", pki.RogueServerCert, pki.RogueServerKey, "", "other", good},
		{"self-signed+client-ca", "", "", pki.CA, "self", nil},
	}
	clients := []cliCert{
		{"no-verify,no-cert", "", "", "", "", ""},
		{"verify+name,no-cert", "", "", pki.CA, "", goodServerName},
		{"no-verify,ca-cert", pki.ClientCert, pki.ClientKey, "", "ca", ""},
		{"no-verify,other-ca-cert", pki.RogueClientCert, pki.RogueClientKey, "", "other", ""},
		{"verify+name,ca-cert", pki.ClientCert, pki.ClientKey, pki.CA, "ca", goodServerName},
		{"verify,addr-as-name,ca-cert", pki.ClientCert, pki.ClientKey, pki.CA, "ca", ""},
		{"verify+wrong-name,ca-cert", pki.ClientCert, pki.ClientKey, pki.CA, "ca", "wrong.verif.test"},
		{"verify+name,other-ca-cert", pki.RogueClientCert, pki.RogueClientKey, pki.CA, "other", goodServerName},
	}
	implFail := []map[string]string{}
	dist := map[string]int{}
	var samples []string
	transports := []string{"tcp", "kcp", "websocket", "quic"}
	for _, sc := range servers {
		sc := sc
		kcpPort, quicPort := hx.FreeUDPPort(addrServer), 0
		for quicPort == 0 || quicPort == kcpPort {
			quicPort = hx.FreeUDPPort(addrServer)
		}
		s, err := hx.StartServer(addrServer, func(c *v1.ServerConfig) {
			c.Transport.TLS.CertFile, c.Transport.TLS.KeyFile, c.Transport.TLS.TrustedCaFile = sc.cert, sc.key, sc.ca
			c.KCPBindPort, c.QUICBindPort = kcpPort, quicPort
		})
		if err != nil {
			return fmt.Errorf("start frps (%s): %v", sc.name, err)
		}
		if (sc.ca != "") != s.Cfg.Transport.TLS.Force {
			implFail = append(implFail, map[string]string{"key": "ca-does-not-force", "what": "a server with a trusted CA does not force TLS after Complete()", "case": sc.name})
		}
		echo, _ := hx.StartEcho(addrBackend, "")
		type out struct {
			i  int
			up bool
		}
		results := make([]bool, len(clients)*len(transports))
		var wg sync.WaitGroup
		for ti, tr := range transports {
			for i, cc := range clients {
				i, cc, ti, tr := i, cc, ti, tr
				wg.Add(1)
				go func() {
					defer wg.Done()
					p := &v1.TCPProxyConfig{}
					p.Name, p.Type = fmt.Sprintf("cm%d_%d", ti, i), "tcp"
					p.LocalIP, p.LocalPort, p.RemotePort = addrBackend, echo.Port(), 0
					c, err := s.StartClient([]v1.ProxyConfigurer{p}, nil, func(k *v1.ClientCommonConfig) {
						t := true
						k.Transport.TLS.Enable = &t
						k.Transport.Protocol = tr
						switch tr {
						case "kcp":
							k.ServerPort = kcpPort
						case "quic":
							k.ServerPort = quicPort
						}
						k.Transport.TLS.CertFile, k.Transport.TLS.KeyFile = cc.cert, cc.key
						k.Transport.TLS.TrustedCaFile, k.Transport.TLS.ServerName = cc.ca, cc.serverName
					})
					if err != nil {
						return
					}
					results[ti*len(clients)+i] = c.WaitProxyRunning(p.Name, 2500*time.Millisecond)
					c.Close()
				}()
			}
		}
		wg.Wait()
		echo.Close()
		s.Close()
		for ti, tr := range transports {
			for i, cc := range clients {
				up := results[ti*len(clients)+i]
				expName := cc.serverName
				if expName == "" {
					expName = addrServer
				}
				nameOK := false
				for _, n := range sc.names {
					if n == expName {
						nameOK = true
					}
				}
				serverCA := sc.ca != ""
				cs := fmt.Sprintf("CCert %d %s %s %s %s %s %s %s", ti, hx.Bool(serverCA), hx.Bool(cc.issuer == "ca"), hx.Bool(cc.cert != ""),
					hx.Bool(cc.ca != ""), hx.Bool(nameOK), hx.Bool(sc.issuer == "ca"), hx.Bool(up))
				cf.Cases = append(cf.Cases, cs)
				dist[fmt.Sprintf("%s up=%v", tr, up)]++
				if len(samples) < 4 && i == 1 && ti == 3 {
					samples = append(samples, fmt.Sprintf("%s: server %s x client %s => session %v", tr, sc.name, cc.name, up))
				}
				// property monitor on the Go side
				if up && serverCA && cc.issuer != "ca" {
					implFail = append(implFail, map[string]string{"key": "session-without-acceptable-client-cert:" + tr,
						"what": "a server given a trusted CA let a session come up over " + tr + " for a client without a certificate of that CA (Login and NewProxy were interpreted and answered)",
						"case": "transport " + tr + ", server " + sc.name + " x client " + cc.name})
				}
				if up && cc.ca != "" && !(nameOK && sc.issuer == "ca") {
					implFail = append(implFail, map[string]string{"key": "client-accepted-wrong-server-identity:" + tr,
						"what": "a client given a trusted CA and server name went on over " + tr + " with a server presenting another identity",
						"case": "transport " + tr + ", server " + sc.name + " x client " + cc.name})
				}
			}
		}
	}
	if err := cf.Write(cfg.Out); err != nil {
		return err
	}
	cfg.St["cases"] = len(cf.Cases)
	cfg.St["distinct_nontrivial"] = len(cf.Cases)
	cfg.St["samples"] = samples
	cfg.St["distribution"] = dist
	cfg.St["impl_failures"] = implFail
	return nil
}
