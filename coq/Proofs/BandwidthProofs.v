(* C01: the configured bandwidth quantity and the limiter made from it. *)
From FRP Require Import Model.Bandwidth Model.Bucket Proofs.BucketProofs.
From Coq Require Import Lia.
Open Scope Z_scope.

Lemma pow10_pos k : 0 < 10 ^ Z.of_nat k.
Proof. apply Z.pow_pos_nonneg; lia. Qed.

(* the byte count is the configured decimal quantity times the unit, rounded down: never above the configured
   limit, less than one byte per second below it *)
Theorem bw_bytes_floor : forall ip fp k base, 0 <= ip -> 0 <= fp -> 0 < base ->
  10 ^ Z.of_nat k * bw_bytes ip fp k base <= (ip * 10 ^ Z.of_nat k + fp) * base /\
  (ip * 10 ^ Z.of_nat k + fp) * base < 10 ^ Z.of_nat k * (bw_bytes ip fp k base + 1).
Proof.
  intros ip fp k base Hi Hf Hb. unfold bw_bytes. pose proof (pow10_pos k) as Hp.
  set (P := 10 ^ Z.of_nat k) in *. set (N := (ip * P + fp) * base).
  pose proof (Z.mul_div_le N P Hp). pose proof (Z.mul_succ_div_gt N P Hp). lia.
Qed.

(* every configured quantity worth at least one byte per second - fractions below 1 of the unit included
   ("0.5MB", "0.001KB" is below) - yields a positive byte count, hence a limiter on the side the mode names,
   with rate = burst = that byte count *)
Theorem bw_fraction_gets_limiter : forall ip fp k base, 0 <= ip -> 0 <= fp -> 0 < base ->
  10 ^ Z.of_nat k <= (ip * 10 ^ Z.of_nat k + fp) * base ->
  1 <= bw_bytes ip fp k base /\
  bw_limiter true (bw_bytes ip fp k base) = Some (bw_bytes ip fp k base, bw_bytes ip fp k base) /\
  bw_limiter false (bw_bytes ip fp k base) = None.
Proof.
  intros ip fp k base Hi Hf Hb H. pose proof (pow10_pos k) as Hp.
  assert (H1 : 1 <= bw_bytes ip fp k base).
  { unfold bw_bytes. apply Z.div_le_lower_bound; lia. }
  split; [exact H1|]. unfold bw_limiter.
  assert (E : (0 <? bw_bytes ip fp k base) = true) by (apply Z.ltb_lt; lia). rewrite E. cbn.
  split; reflexivity.
Qed.

(* the rate bound over the limit AS CONFIGURED: with the limiter made from the configured quantity (b bytes:
   rate = burst = b), the bytes let through in any window [T, T + D] are at most b + b * D (+ ns truncation) *)
Theorem bw_configured_rate_bound : forall b st reqs outs T D, 0 < b -> 0 <= D ->
  bw_limiter true b = Some (b, b) /\
  (reqs_ok b st reqs -> bk_run b b st reqs = Some outs ->
   BK_G * sumn (filter (in_window T D) outs) <= BK_G * b + b * D + b).
Proof.
  intros b st reqs outs T D Hb HD. split.
  - unfold bw_limiter. assert (E : (0 <? b) = true) by (apply Z.ltb_lt; lia). rewrite E. reflexivity.
  - intros Hok Hrun. apply (bucket_bound_interval b b Hb st reqs outs T D); try lia; assumption.
Qed.
