package main

// Parts of driver httpauth that exercise the client plugins http_proxy, socks5 and static_file, created through the
// real constructors (plugin.Create) and fed with loopback connections, exactly as frpc hands work connections to them.

import (
	"bufio"
	"context"
	"encoding/binary"
	"fmt"
	"io"
	"net"
	"net/http"
	"os"
	"path/filepath"
	"strings"
	"time"

	v1 "github.com/fatedier/frp/pkg/config/v1"
	plugin "github.com/fatedier/frp/pkg/plugin/client"

	"verifharness/hx"
)

func init() {
	extraParts = append(extraParts, (*run).httpProxyPart, (*run).socks5Part, (*run).staticFilePart)
}

var pluginCfgs = [][2]string{{"alice", "apw"}, {"", ""}, {"", "apw"}, {"alice", ""}}

// servePlugin accepts loopback connections and hands each to the plugin.
func servePlugin(p plugin.Plugin, ip string) (net.Listener, error) {
	ln, err := net.Listen("tcp", ip+":0")
	if err != nil {
		return nil, err
	}
	go func() {
		for {
			c, err := ln.Accept()
			if err != nil {
				return
			}
			go p.Handle(context.Background(), &plugin.ConnectionInfo{Conn: c, UnderlyingConn: c})
		}
	}()
	return ln, nil
}

// target: the "protected backend" of a forward proxy — a loopback HTTP server that records who reached it.
func startTarget(arr *arrivals) (*http.Server, string, error) {
	ln, err := net.Listen("tcp", "127.0.7.241:0")
	if err != nil {
		return nil, "", err
	}
	srv := &http.Server{Handler: http.HandlerFunc(func(w http.ResponseWriter, req *http.Request) {
		arr.add(req.Header.Get("X-Case"), 1)
		w.WriteHeader(200)
	})}
	go func() { _ = srv.Serve(ln) }()
	return srv, ln.Addr().String(), nil
}

func tunnelGet(c net.Conn, br *bufio.Reader, id string) int {
	_, _ = fmt.Fprintf(c, "GET /t HTTP/1.1\r\nHost: t\r\nX-Case: %s\r\nConnection: close\r\n\r\n", id)
	resp, err := http.ReadResponse(br, &http.Request{Method: "GET"})
	if err != nil {
		return 0
	}
	return resp.StatusCode
}

func (r *run) httpProxyPart(grid []credKind) error {
	arr := newArrivals()
	tsrv, taddr, err := startTarget(arr)
	if err != nil {
		return err
	}
	defer tsrv.Close()
	for ci, c := range pluginCfgs {
		p, err := plugin.Create(v1.PluginHTTPProxy, plugin.PluginContext{Name: "c07"}, &v1.HTTPProxyPluginOptions{HTTPUser: c[0], HTTPPassword: c[1]})
		if err != nil {
			return err
		}
		ln, err := servePlugin(p, "127.0.7.240")
		if err != nil {
			return err
		}
		type item struct {
			rq     areq
			how    int // 0 first request, one write | 1 after an unauthenticated GET on the same connection | 2 first segment of 4 bytes
			id     string
			status int
			err    string
		}
		var items []*item
		n := 0
		for _, form := range []string{"FAbsolute", "FConnect"} {
			for _, pa := range grid {
				for _, a := range []string{"", basic(c[0], c[1]), basic("alice", "WRONG")} {
					n++
					rq := mkReq(form, "PH11", target{host: taddr, path: "/x"}, a, pa.raw, n%3)
					items = append(items, &item{rq: rq, id: fmt.Sprintf("p%d-%d", ci, n)})
				}
				// the same request reaching the plugin's http.Server instead of the CONNECT sniffing of Handle
				n++
				items = append(items, &item{rq: mkReq(form, "PH11", target{host: taddr, path: "/x"}, "", pa.raw, n%3), how: 1, id: fmt.Sprintf("p%d-%d", ci, n)})
				if form == "FConnect" {
					n++
					items = append(items, &item{rq: mkReq(form, "PH11", target{host: taddr, path: "/x"}, "", pa.raw, n%3), how: 2, id: fmt.Sprintf("p%d-%d", ci, n)})
				}
			}
		}
		parallel(len(items), 24, func(i int) {
			it := items[i]
			cn, err := net.DialTimeout("tcp", ln.Addr().String(), 3*time.Second)
			if err != nil {
				it.err = err.Error()
				return
			}
			defer cn.Close()
			_ = cn.SetDeadline(time.Now().Add(8 * time.Second))
			br := bufio.NewReader(cn)
			if it.how == 1 {
				_, _ = fmt.Fprintf(cn, "GET http://%s/x HTTP/1.1\r\nHost: %s\r\nX-Case: %s-pre\r\n\r\n", taddr, taddr, it.id)
				resp, err := http.ReadResponse(br, &http.Request{Method: "GET"})
				if err != nil {
					it.err = "first request of the connection: " + err.Error()
					return
				}
				_, _ = io.Copy(io.Discard, resp.Body)
				resp.Body.Close()
			}
			text := it.rq.wire(it.id)
			if it.rq.form == "FConnect" {
				text = strings.Replace(text, "Connection: close\r\n", "", 1)
			}
			if it.how == 2 {
				_, _ = io.WriteString(cn, text[:4])
				time.Sleep(40 * time.Millisecond)
				_, _ = io.WriteString(cn, text[4:])
			} else {
				_, _ = io.WriteString(cn, text)
			}
			resp, err := http.ReadResponse(br, &http.Request{Method: it.rq.method})
			if err != nil {
				it.status = 0
				return
			}
			it.status = resp.StatusCode
			if it.rq.form == "FConnect" {
				if resp.StatusCode == 200 {
					tunnelGet(cn, br, it.id)
				}
			} else {
				_, _ = io.Copy(io.Discard, resp.Body)
				resp.Body.Close()
			}
		})
		csym := fmt.Sprintf("(mk_cfg %s %s)", r.sym.b(c[0]), r.sym.b(c[1]))
		for _, it := range items {
			if it.err != "" {
				r.errs++
				r.fail("zz-driver-io:http_proxy", "the driver could not complete a request against the http_proxy plugin: "+it.err, it.rq.String())
				continue
			}
			reached := len(arr.get(it.id)) > 0
			if reached && (c[0] != "" || c[1] != "") {
				_, rest, _ := strings.Cut(it.rq.pauth, " ")
				u, pw, ok := parseBasicRef("Basic " + rest)
				if !ok || u != c[0] || pw != c[1] {
					r.fail(fmt.Sprintf("backend-reached-without-credentials:http_proxy:%s:how%d", it.rq.form, it.how),
						fmt.Sprintf("http_proxy plugin configured with %q:%q relayed a request with Proxy-Authorization user=%q password=%q (parsed=%v); how=%d (0 first request, 1 after an unauthenticated GET on the same connection, 2 request line split after 4 bytes)", c[0], c[1], u, pw, ok, it.how), it.rq.String())
				}
			}
			r.addCase(fmt.Sprintf("CHp %d %s %s %d %s", it.how, csym, it.rq.coq(r.sym), it.status, hx.Bool(reached)), it.rq.pauth != "",
				"http_proxy:"+it.rq.form, fmt.Sprintf("http_proxy:status-%d", it.status), fmt.Sprintf("http_proxy:how-%d", it.how))
		}
		_ = ln.Close()
		_ = p.Close()
	}
	return nil
}

// ---- socks5 ----

type s5item struct {
	methods []byte
	ver     byte
	u, p    string
	id      string
	cls     int
	reached bool
	err     string
}

func s5Do(addr, taddr string, it *s5item) {
	c, err := net.DialTimeout("tcp", addr, 3*time.Second)
	if err != nil {
		it.err = err.Error()
		return
	}
	defer c.Close()
	_ = c.SetDeadline(time.Now().Add(8 * time.Second))
	hello := append([]byte{5, byte(len(it.methods))}, it.methods...)
	if _, err := c.Write(hello); err != nil {
		it.err = err.Error()
		return
	}
	rep := make([]byte, 2)
	if _, err := io.ReadFull(c, rep); err != nil {
		it.cls = 1
		return
	}
	switch rep[1] {
	case 0xFF:
		it.cls = 0
		return
	case 2:
		msg := []byte{it.ver, byte(len(it.u))}
		msg = append(msg, it.u...)
		msg = append(msg, byte(len(it.p)))
		msg = append(msg, it.p...)
		_, _ = c.Write(msg)
		if _, err := io.ReadFull(c, rep); err != nil {
			it.cls = 1
			return
		}
		if rep[1] != 0 {
			it.cls = 2
			return
		}
		it.cls = 4
	case 0:
		it.cls = 3
	default:
		it.err = fmt.Sprintf("unexpected method reply %v", rep)
		return
	}
	// request phase: CONNECT to the target, then one HTTP request through the tunnel
	host, port, _ := net.SplitHostPort(taddr)
	ip := net.ParseIP(host).To4()
	var pn int
	fmt.Sscan(port, &pn)
	req := []byte{5, 1, 0, 1}
	req = append(req, ip...)
	req = binary.BigEndian.AppendUint16(req, uint16(pn))
	_, _ = c.Write(req)
	ans := make([]byte, 10)
	if _, err := io.ReadFull(c, ans); err != nil || ans[1] != 0 {
		return
	}
	tunnelGet(c, bufio.NewReader(c), it.id)
}

func (r *run) socks5Part(_ []credKind) error {
	arr := newArrivals()
	tsrv, taddr, err := startTarget(arr)
	if err != nil {
		return err
	}
	defer tsrv.Close()
	ups := [][2]string{{"alice", "apw"}, {"alice", "WRONG"}, {"mallory", "apw"}, {"", "apw"}, {"alice", ""}, {"", ""}, {"alice", "ap"}, {"alice", "apwx"}, {"bob", "bpw"}}
	methodSets := [][]byte{{0}, {2}, {0, 2}, {2, 0}, {1}, {}}
	for ci, c := range pluginCfgs {
		p, err := plugin.Create(v1.PluginSocks5, plugin.PluginContext{Name: "c07"}, &v1.Socks5PluginOptions{Username: c[0], Password: c[1]})
		if err != nil {
			return err
		}
		ln, err := servePlugin(p, "127.0.7.242")
		if err != nil {
			return err
		}
		var items []*s5item
		n := 0
		for _, ms := range methodSets {
			for _, up := range ups {
				for _, ver := range []byte{1, 2} {
					if ver == 2 && up[1] != "apw" {
						continue
					}
					n++
					items = append(items, &s5item{methods: ms, ver: ver, u: up[0], p: up[1], id: fmt.Sprintf("s%d-%d", ci, n)})
				}
			}
		}
		parallel(len(items), 16, func(i int) { s5Do(ln.Addr().String(), taddr, items[i]) })
		csym := fmt.Sprintf("(mk_cfg %s %s)", r.sym.b(c[0]), r.sym.b(c[1]))
		for _, it := range items {
			desc := fmt.Sprintf("socks5 methods=%v subnegotiation ver=%d user=%q pass=%q", it.methods, it.ver, it.u, it.p)
			if it.err != "" {
				r.errs++
				r.fail("zz-driver-io:socks5", "the driver could not complete a socks5 negotiation: "+it.err, desc)
				continue
			}
			it.reached = len(arr.get(it.id)) > 0
			if it.reached && (c[0] != "" || c[1] != "") && (it.u != c[0] || it.p != c[1]) {
				r.fail("backend-reached-without-credentials:socks5",
					fmt.Sprintf("socks5 plugin configured with %q:%q relayed a connection authenticated as %q:%q", c[0], c[1], it.u, it.p), desc)
			}
			ms := make([]string, len(it.methods))
			for i, m := range it.methods {
				ms[i] = fmt.Sprint(m)
			}
			r.addCase(fmt.Sprintf("CS5 %s %s %d %s %s %d %s", csym, hx.List(ms), it.ver, r.sym.b(it.u), r.sym.b(it.p), it.cls, hx.Bool(it.reached)),
				true, fmt.Sprintf("socks5:cls-%d", it.cls))
		}
		_ = ln.Close()
		_ = p.Close()
	}
	return nil
}

// ---- static_file ----

func (r *run) staticFilePart(grid []credKind) error {
	dir, err := os.MkdirTemp("", "c07static")
	if err != nil {
		return err
	}
	defer os.RemoveAll(dir)
	const secret = "c07-secret-file-content"
	if err := os.WriteFile(filepath.Join(dir, "hello.txt"), []byte(secret), 0o644); err != nil {
		return err
	}
	for ci, c := range pluginCfgs {
		p, err := plugin.Create(v1.PluginStaticFile, plugin.PluginContext{Name: "c07"},
			&v1.StaticFilePluginOptions{LocalPath: dir, StripPrefix: "static", HTTPUser: c[0], HTTPPassword: c[1]})
		if err != nil {
			return err
		}
		ln, err := servePlugin(p, "127.0.7.243")
		if err != nil {
			return err
		}
		type item struct {
			rq     areq
			id     string
			status int
			served bool
			err    string
		}
		var items []*item
		n := 0
		for _, pm := range [][2]string{{"GET", "/static/hello.txt"}, {"POST", "/static/hello.txt"}, {"GET", "/elsewhere"}} {
			for _, a := range grid {
				n++
				items = append(items, &item{rq: areq{form: "FOrigin", proto: "PH11", method: pm[0], hdrHost: "files.test", path: pm[1], auth: a.raw,
					pauth: basic(c[0], c[1]), casing: n % 3}, id: fmt.Sprintf("f%d-%d", ci, n)})
			}
		}
		parallel(len(items), 24, func(i int) {
			it := items[i]
			c, err := net.DialTimeout("tcp", ln.Addr().String(), 3*time.Second)
			if err != nil {
				it.err = err.Error()
				return
			}
			defer c.Close()
			_ = c.SetDeadline(time.Now().Add(8 * time.Second))
			_, _ = io.WriteString(c, it.rq.wire(it.id))
			resp, err := http.ReadResponse(bufio.NewReader(c), &http.Request{Method: it.rq.method})
			if err != nil {
				it.err = err.Error()
				return
			}
			body, _ := io.ReadAll(resp.Body)
			it.status = resp.StatusCode
			it.served = strings.Contains(string(body), secret)
		})
		csym := fmt.Sprintf("(mk_cfg %s %s)", r.sym.b(c[0]), r.sym.b(c[1]))
		for _, it := range items {
			if it.err != "" {
				r.errs++
				r.fail("zz-driver-io:static_file", "the driver could not complete a request against the static_file plugin: "+it.err, it.rq.String())
				continue
			}
			if it.served && (c[0] != "" || c[1] != "") {
				u, pw, ok := parseBasicRef(it.rq.auth)
				if !ok || u != c[0] || pw != c[1] {
					r.fail("file-served-without-credentials:static_file",
						fmt.Sprintf("static_file plugin configured with %q:%q served the file to Authorization user=%q password=%q (parsed=%v)", c[0], c[1], u, pw, ok), it.rq.String())
				}
			}
			r.addCase(fmt.Sprintf("CSf \"/static/\" %s %s %d %s", csym, it.rq.coq(r.sym), it.status, hx.Bool(it.served)), it.rq.auth != "",
				"static_file:"+it.rq.method, fmt.Sprintf("static_file:status-%d", it.status))
		}
		_ = ln.Close()
		_ = p.Close()
	}
	return nil
}
