(* C18 — a templated document renders to exactly the document with the environment values and
   the enumerated port pairs written out *)
From FRP Require Import Model.Template Proofs.LiteralsProofs.
From Coq Require Import Lia.
Open Scope Z_scope.

(* the specification side: ranges as lists of items, not as text *)
Inductive sseg :=
| SText (t : bytes)
| SEnv (name : bytes)
| SPairs (xs ys : list range_item) (body : list pair_seg)
| SRange (xs : list range_item) (pre post : bytes).

Definition sseg_tpl (s : sseg) : tseg :=
  match s with
  | SText t => TText t
  | SEnv n => TEnv n
  | SPairs xs ys body => TPairs (render_items xs) (render_items ys) body
  | SRange xs pre post => TRange (render_items xs) pre post
  end.

Definition items_ok (xs : list range_item) : Prop := xs <> [] /\ Forall range_item_wf xs.

Definition sseg_wf (s : sseg) : Prop :=
  match s with
  | SPairs xs ys _ =>
      items_ok xs /\ items_ok ys /\
      length (flat_map item_numbers xs) = length (flat_map item_numbers ys)
  | SRange xs _ _ => items_ok xs
  | _ => True
  end.

(* the written-out text *)
Definition written_out (envs : list (bytes * bytes)) (s : sseg) : bytes :=
  match s with
  | SText t => t
  | SEnv n => tpl_env envs n
  | SPairs xs ys body =>
      List.concat (map (tpl_pair body) (combine (flat_map item_numbers xs) (flat_map item_numbers ys)))
  | SRange xs pre post =>
      List.concat (map (fun n => pre ++ lit_itoa n ++ post) (flat_map item_numbers xs))
  end.

Lemma tpl_seg_written_out envs s : sseg_wf s -> tpl_seg envs (sseg_tpl s) = TOk (written_out envs s).
Proof.
  destruct s as [t|n|xs ys body|xs pre post]; cbn [sseg_wf sseg_tpl tpl_seg written_out]; try reflexivity.
  - intros ([Hx1 Hx2] & [Hy1 Hy2] & Hl). unfold number_range_pairs.
    rewrite (range_numbers_expand xs Hx1 Hx2), (range_numbers_expand ys Hy1 Hy2), Hl, Nat.eqb_refl. reflexivity.
  - intros [Hx1 Hx2]. now rewrite (range_numbers_expand xs Hx1 Hx2).
Qed.

Theorem template_written_out envs ss :
  Forall sseg_wf ss ->
  tpl_render envs (map sseg_tpl ss) = TOk (List.concat (map (written_out envs) ss)).
Proof.
  induction 1 as [|s r Hs Hr IH]; [reflexivity|].
  cbn [map tpl_render List.concat]. now rewrite (tpl_seg_written_out envs s Hs), IH.
Qed.

(* ---- the environment map ---- *)
Lemma env_split_first_eq k v :
  Forall (fun b => Byte.eqb b tpl_eq = false) k -> env_split (k ++ tpl_eq :: v) = Some (k, v).
Proof.
  induction 1 as [|b r Hb Hr IH]; cbn [app env_split].
  - reflexivity.
  - now rewrite Hb, IH.
Qed.

Lemma bytes_eqb_refl' a : bytes_eqb a a = true.
Proof. induction a as [|x a IH]; [reflexivity|]. cbn. rewrite IH. destruct x; reflexivity. Qed.

(* whatever else the environment holds, the variable set last to K=V is looked up as V — every '='
   of the value included — and a template action {{ .Envs.K }} renders exactly V *)
Theorem env_value_rendered rest k v :
  Forall (fun b => Byte.eqb b tpl_eq = false) k ->
  tpl_env (env_build (rest ++ [k ++ tpl_eq :: v])) k = v /\
  tpl_render (env_build (rest ++ [k ++ tpl_eq :: v])) [TEnv k] = TOk (v ++ []).
Proof.
  intros Hk. unfold env_build. rewrite fold_left_app. cbn [fold_left].
  rewrite (env_split_first_eq k v Hk). cbn [tpl_render tpl_seg tpl_env]. now rewrite bytes_eqb_refl'.
Qed.
