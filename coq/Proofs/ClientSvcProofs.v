(* C19 — the reload theorem for all pairs of old/new sets (empty ones included), proxies and visitors,
   in every session state *)
From Coq Require Import List ZArith Bool Lia.
From FRP Require Import Model.Wrapper Model.Reconcile Model.ClientSvc
  Proofs.ReconcileProofs Proofs.ReconcileInv Proofs.VisitorMgrProofs.
Import ListNotations.
Open Scope Z_scope.

Definition sv_ctl_wf (c : sv_control) : Prop := pm_wf (sc_pm c) /\ vm_wf (sc_vm c).

Lemma pm_update_table : forall t s cfgs, pm_wf s ->
  let s' := fst (fst (pm_update t s cfgs)) in
  pm_wf s' /\ forall n, option_map pe_cfg (rc_get (pm_map s') n) = rc_first cfgs n.
Proof.
  intros t s cfgs Hwf. pose proof (pm_update_converges t s cfgs Hwf) as H.
  destruct (pm_update t s cfgs) as [[s' outs] evs]. simpl.
  destruct H as (H1 & H2 & H3 & _). split; auto.
  intros n. destruct (rc_get (pm_map s') n) as [e|] eqn:E; simpl.
  - symmetry. apply H3. exact E.
  - symmetry. apply H2. exact E.
Qed.

Lemma vm_update_table : forall s cfgs ok, vm_wf s ->
  let s' := fst (vm_update s cfgs ok) in
  vm_wf s' /\ (forall n, rc_get (vm_cfgs s') n = rc_first cfgs n) /\
  (forall n, rc_first cfgs n = None -> rc_get (vm_vis s') n = None).
Proof.
  intros s cfgs ok Hwf. destruct (vm_update_converges s cfgs ok Hwf) as (H1 & H2 & _ & _ & _ & H6).
  cbv zeta in *. auto.
Qed.

Lemma sv_ctl_reload_tables : forall t c p v ok, sv_ctl_wf c ->
  sv_ctl_wf (sv_ctl_reload t c p v ok) /\ sv_tables_are (sv_ctl_reload t c p v ok) p v.
Proof.
  intros t c p v ok [Hp Hv]. unfold sv_ctl_reload.
  destruct (vm_update_table (sc_vm c) v ok Hv) as (V1 & V2 & V3).
  destruct (pm_update_table t (sc_pm c) p Hp) as (P1 & P2).
  destruct (vm_update (sc_vm c) v ok) as [vm' ev]. destruct (pm_update t (sc_pm c) p) as [[pm' outs] evs].
  simpl in *. split; [split; auto|]. unfold sv_tables_are. simpl. auto.
Qed.

Lemma sv_ctl_run_tables : forall t c p v ok, sv_ctl_wf c ->
  sv_ctl_wf (sv_ctl_run t c p v ok) /\ sv_tables_are (sv_ctl_run t c p v ok) p v.
Proof.
  intros t c p v ok [Hp Hv]. unfold sv_ctl_run.
  destruct (vm_update_table (sc_vm c) v ok Hv) as (V1 & V2 & V3).
  destruct (pm_update_table t (sc_pm c) p Hp) as (P1 & P2).
  destruct (pm_update t (sc_pm c) p) as [[pm' outs] evs]. destruct (vm_update (sc_vm c) v ok) as [vm' ev].
  simpl in *. split; [split; auto|]. unfold sv_tables_are. simpl. auto.
Qed.

Lemma sv_ctl_close_wf : forall t c, sv_ctl_wf c -> sv_ctl_wf (sv_ctl_close t c).
Proof.
  intros t c [Hp Hv]. split; simpl; auto. apply (proj1 (pm_step_inv t (sc_pm c) PMClose Hp)).
Qed.

(* the invariant: whatever Control the service holds is well-formed, and a LIVE one holds exactly the
   currently configured sets *)
Definition sv_inv (s : sv_state) : Prop :=
  match sv_ctl s with
  | SvNone => True
  | SvLive c => sv_ctl_wf c /\ sv_tables_are c (sv_pcfgs s) (sv_vcfgs s)
  | SvDead c => sv_ctl_wf c
  end.

Lemma sv_step_inv : forall t s o, sv_inv s -> sv_inv (sv_step t s o).
Proof.
  intros t s o H. unfold sv_inv in *. destruct o as [p v ok| |ok]; simpl.
  - destruct (sv_ctl s) as [|c|c]; auto.
    + destruct H as [Hw _]. apply sv_ctl_reload_tables. exact Hw.
    + apply (proj1 (sv_ctl_reload_tables t c p v ok H)).
  - destruct (sv_ctl s) as [|c|c]; auto. destruct H as [Hw _]. apply sv_ctl_close_wf. exact Hw.
  - apply sv_ctl_run_tables. split; [apply pm_wf_init|apply vm_wf_init].
Qed.

Theorem sv_history_inv : forall t ops s, sv_inv s -> sv_inv (sv_run t s ops).
Proof.
  intros t ops. induction ops as [|o r IH]; intros s H; simpl; auto. apply IH. apply sv_step_inv. exact H.
Qed.

Lemma sv_inv_init : forall p v, sv_inv (sv_init p v).
Proof. intros; exact I. Qed.

(* the configured sets are always those of the last reload (or the initial ones) *)
Fixpoint sv_last_cfgs (p v : list rc_cfg) (ops : list sv_op) : list rc_cfg * list rc_cfg :=
  match ops with
  | [] => (p, v)
  | SVReload p' v' _ :: r => sv_last_cfgs p' v' r
  | _ :: r => sv_last_cfgs p v r
  end.

Lemma sv_cfgs_last : forall t ops s,
  (sv_pcfgs (sv_run t s ops), sv_vcfgs (sv_run t s ops)) = sv_last_cfgs (sv_pcfgs s) (sv_vcfgs s) ops.
Proof.
  intros t ops. induction ops as [|o r IH]; intros s; simpl; auto.
  rewrite IH. destruct o; reflexivity.
Qed.
