#!/usr/bin/env python3
"""Assembles DESIGN.md from design/_head.md, design/_section4.md (or an automatic digest), the
findings file, the hooks present in /repo, design/_tail_static.md and the latest selftest log."""
import glob, json, os, re, subprocess, sys
V = os.path.dirname(os.path.dirname(os.path.abspath(__file__)))
sys.path.insert(0, os.path.join(V, "lib"))
from props import MANIFESTS  # noqa: E402

out = [open(os.path.join(V, "design/_head.md")).read()]
props = [json.loads(l) for l in open(os.path.join(V, "properties.jsonl"))]

# ---- section 4 ----
out.append("\n## 4. Per-property digests\n")
out.append("Each digest: what is modelled (with the Go code it mirrors), the theorems of `coq/Properties/Cxx.v`, the tie to the "
           "source, what is only observed. Full notes: `design/Cxx.md`.\n")
s4 = os.path.join(V, "design/_section4.md")
digests = {}
if os.path.exists(s4):
    for m in re.finditer(r"^### (C\d\d)[^\n]*\n(.*?)(?=^### C\d\d|\Z)", open(s4).read(), re.S | re.M):
        digests[m.group(1)] = m.group(0).rstrip() + "\n"
for p in props:
    pid = p["id"]
    if pid in digests:
        out.append("\n" + digests[pid])
        continue
    out.append("\n### %s — %s\n" % (pid, p["title"]))
    mf = MANIFESTS.get(pid)
    if mf:
        out.append("\n%s\n\n*Assumed / trusted:* %s\n" % (mf["text"], mf["note"]))
    pf = os.path.join(V, "coq/Properties/%s.v" % pid)
    if os.path.exists(pf):
        th = re.findall(r"^\s*Theorem\s+([A-Za-z0-9_']+)", open(pf).read(), re.M)
        out.append("\n*Theorems (%d):* %s.\n" % (len(th), ", ".join("`%s`" % t for t in th)))
    if os.path.exists(os.path.join(V, "design/%s.md" % pid)):
        out.append("\nDetails: `design/%s.md`.\n" % pid)

# ---- section 5 ----
out.append("\n\n## 5. Genuine defects found, repaired or recorded\n")
out.append("Every entry was demonstrated against the real code of the pinned commit (a replay in the named property's driver, or a "
           "throw-away Go test kept under `harness/snippets/`), is a deviation from the property text as worded, and was either "
           "repaired by one minimal `fix:` commit in `/repo` (the pinned suite still passes; the reverse patch is in `regress/` and must "
           "be caught by the checks listed in `regress/MAP.json`) or recorded with a stable key. None is a false alarm that was "
           "silenced; false alarms met while building (generator artefacts, port collisions between concurrent runs, timing "
           "attribution under load) were corrected in the machinery and are described in the `design/Cxx.md` of the property concerned.\n\n")
fixed, found = [], []
for l in open(os.path.join(V, "KNOWN_FINDINGS.txt")):
    m = re.match(r"fixed:\s+property=(\S+)\s+(\S+)\s+(.*)", l.strip())
    if m:
        fixed.append(m.groups())
    m = re.match(r"finding:\s+property=(\S+)\s+key=(\S+)\s+(.*)", l.strip())
    if m:
        found.append(m.groups())
out.append("**Repaired (%d `fix:` commits):**\n\n| property | commit | what failed |\n|---|---|---|\n" % len(fixed))
for pid, h, what in fixed:
    out.append("| %s | `%s` | %s |\n" % (pid, h, what.replace("|", "/")))
out.append("\n**Recorded, not repaired (%d):** the repair would not be a minimal patch (or is a transport limitation); the check prints "
           "`KNOWN-FINDING` for exactly this key and still reports any other violation.\n\n| property | key | what fails |\n|---|---|---|\n" % len(found))
for pid, k, what in found:
    out.append("| %s | `%s` | %s |\n" % (pid, k, what.replace("|", "/")))

# ---- section 6 ----
out.append("\n\n## 6. Hooks in /repo (guard: build tag `verif`)\n")
out.append("All hook commits are add-only (subject prefix `verif-hook:`, listed in `MANIFEST.json` hooks.source_commits). "
           "`pkg/util/verifhook`: `At(point, key)` calls a controller installed by the harness and is an empty function without the tag. "
           "Gate lines (single added lines at the boundaries of model steps) and accessor files (new `*_verif.go` files, `//go:build verif`):\n\n")
try:
    g = subprocess.run("cd /repo && grep -rn 'verifhook.At(' --include=*.go . | grep -v pkg/util/verifhook", shell=True, stdout=subprocess.PIPE).stdout.decode()
    out.append("| gate | place |\n|---|---|\n")
    for l in sorted(g.strip().split("\n")):
        m = re.match(r"\./([^:]+):(\d+):\s*verifhook\.At\(\"([^\"]+)\"", l)
        if m:
            out.append("| `%s` | `%s:%s` |\n" % (m.group(3), m.group(1), m.group(2)))
    f = subprocess.run("cd /repo && git ls-files | grep '_verif\\.go$'", shell=True, stdout=subprocess.PIPE).stdout.decode().split()
    out.append("\nAccessor files: " + ", ".join("`%s`" % x for x in f) + ".\n")
except Exception as e:
    out.append("(could not list hooks: %s)\n" % e)
out.append("\nWith the tag off nothing changes; `baseline_off_cmd` is the pinned suite command.\n\n")

tail = open(os.path.join(V, "design/_tail_static.md")).read()
sec7, sec9 = tail.split("\n## 9.")
out.append(sec7)

# ---- section 8 ----
out.append("\n\n## 8. Validating the machinery itself: which check catches which change\n")
out.append("Three kinds of recorded changes are run through `bin/mutcheck` (a scratch worktree of /repo with the change applied + a scratch "
           "copy of /verif; `bin/selftest` runs them all, one property's runs one after the other): (i) `seeded/<id>/` — changes written by "
           "independent engineers (fresh sub-agents) who were given ONLY the property text and a scratch worktree, asked for a change that "
           "breaks the property while compiling and passing the existing tests and needing something specific to manifest, each with a "
           "demonstration; each was confirmed by the lead in a fresh worktree (`bin/seedconfirm`: patch applies, builds, unit tests pass, "
           "demo passes without and fails with the change) before being kept; (ii) `regress/` — the reverse patch of every fix commit; "
           "(iii) `seeded-self/Cxx/` — the builders' own mutants (`m*`) and harmless rewrites (`h*`, must stay quiet).\n\n")
seeds = []
for mp in sorted(glob.glob(os.path.join(V, "seeded/*/meta.json"))):
    m = json.load(open(mp))
    seeds.append((os.path.basename(os.path.dirname(mp)), m.get("checks", [m.get("property")]), m.get("needs", "")))
res = {}
first = {}
logs = sorted(glob.glob(os.path.join(V, "design/selftest_*.log")))
for lg in logs:
    for l in open(lg):
        m = re.match(r"(\S+)\s+(C\d\d)\s+(\S+)", l)
        if m and not l.startswith(" "):
            first.setdefault((m.group(3), m.group(2)), m.group(1))
            res[(m.group(3), m.group(2))] = m.group(1)
out.append("**Independently seeded changes (%d):**\n\n| id | what it needs to manifest | check → result |\n|---|---|---|\n" % len(seeds))
for sid, checks, needs in seeds:
    def show(c, sid=sid):
        k = ("seeded/%s/patch.diff" % sid, c)
        a, b = first.get(k), res.get(k, "not run")
        return "%s: %s" % (c, b if a in (None, b) else "%s → %s" % (a, b))
    r = ", ".join(show(c) for c in checks)
    out.append("| `%s` | %s | %s |\n" % (sid, needs.replace("|", "/")[:420], r))
mp = json.load(open(os.path.join(V, "regress/MAP.json")))
out.append("\n**Reverse patches of the fix commits (%d):**\n\n| patch | check → result |\n|---|---|\n" % len(mp))
for f, ids in sorted(mp.items()):
    r = ", ".join("%s: %s" % (c, res.get(("regress/%s" % f, c), "not run")) for c in ids)
    out.append("| `%s` | %s |\n" % (f[:70], r))
agg = {}
for (f, c), st in res.items():
    if f.startswith("seeded-self/"):
        agg.setdefault(c, {}).setdefault(st, 0)
        agg[c][st] += 1
out.append("\n**Builders' own mutants and harmless rewrites (per property; names and one-line descriptions in `design/Cxx.md`):**\n\n| property | results |\n|---|---|\n")
for c in sorted(agg):
    out.append("| %s | %s |\n" % (c, ", ".join("%s × %d" % kv for kv in sorted(agg[c].items()))))
out.append("\n`caught` = the check exits 1 with a VIOLATION line and a concrete replay; `caught(no-input)` = a proof obligation broke and the "
           "search found no failing input (reported with `no-failing-input-found`); `quiet(ok)` = harmless rewrite, no alarm. "
           "`MISSED → caught` = missed when the change was first run against the checks, caught after the check was strengthened (the logs are "
           "read in order, the last run of each pair is shown). Source: `design/selftest_*.log` (output of `bin/selftest`).\n")
out.append("\n\n## 9." + sec9)
open(os.path.join(V, "DESIGN.md"), "w").write("".join(out))
print("DESIGN.md written: %d lines" % "".join(out).count("\n"))
