(* C19 — server/proxy/http.go: HTTPProxy.Run / Close as far as "closed at the server" and
   "registered again" need it: which routes of the vhost http router a proxy occupies and releases.
   Model only.  Prefix hr_.

   Go                                                  model
   --------------------------------------------------  --------------------------------------------
   vhost router keyed by (domain, location, httpUser)  hr_table: list of routes (domain, location)
   locations; empty list -> [""]                       hr_locs
   loop over customDomains x locations, then           hr_expand (custom domains first, then the
     subdomain.subDomainHost x locations                 subdomain's host)
   Register(routeConfig): conflict if present          hr_register
   closeFuncs = append(closeFuncs, func(){ UnRegister(  the closure remembers a route: with the per-iteration
     tmpRouteConfig) })  with tmpRouteConfig :=           copy (per_iter = true) its own one; a closure over
     routeConfig inside the loop body                     the loop-carried variable would see the LAST route
                                                          of its block when Close runs (per_iter = false)
   Run error -> deferred pxy.Close()                   hr_run rolls back what it registered
   Close: run every close function                     hr_close

   That every close function of today's source captures a variable declared inside the innermost loop
   body is read by the translator unit c19routes (gen/GenC19Routes.v). *)
From Coq Require Import List ZArith Bool.
Import ListNotations.
Open Scope Z_scope.

Definition hr_route : Type := Z * Z.
Definition hr_table := list hr_route.
Definition hr_route_eqb (a b : hr_route) : bool := (fst a =? fst b) && (snd a =? snd b).
Definition hr_mem (r : hr_route) (t : hr_table) : bool := existsb (hr_route_eqb r) t.

Record hr_cfg := { hr_custom : list Z; hr_sub : option Z; hr_locations : list Z }.

Definition hr_locs (c : hr_cfg) : list Z := match hr_locations c with [] => [0] | l => l end.

(* the two blocks of Run, in order *)
Definition hr_blocks (c : hr_cfg) : list (list hr_route) :=
  map (fun d => map (fun l => (d, l)) (hr_locs c)) (hr_custom c) ++
  match hr_sub c with Some d => [map (fun l => (d, l)) (hr_locs c)] | None => [] end.

Definition hr_expand (c : hr_cfg) : list hr_route := concat (hr_blocks c).

(* what the close function created in an iteration will unregister *)
Definition hr_captured_block (per_iter : bool) (b : list hr_route) : list hr_route :=
  if per_iter then b else map (fun _ => last b (0, 0)) b.
Definition hr_captured (per_iter : bool) (c : hr_cfg) : list hr_route :=
  concat (map (hr_captured_block per_iter) (hr_blocks c)).

Definition hr_remove (r : hr_route) (t : hr_table) : hr_table := filter (fun x => negb (hr_route_eqb x r)) t.
Definition hr_close_list (t : hr_table) (captured : list hr_route) : hr_table :=
  fold_left (fun acc r => hr_remove r acc) captured t.

(* Register every route in order; on a conflict run the close functions created so far *)
Fixpoint hr_register_all (t : hr_table) (rs cap done : list hr_route) : option hr_table * hr_table :=
  match rs, cap with
  | r :: rs', c :: cap' =>
      if hr_mem r t then (None, hr_close_list t done)
      else hr_register_all (r :: t) rs' cap' (done ++ [c])
  | _, _ => (Some t, t)
  end.

(* Run: Some table on success; on "router config conflict" None and the rolled-back table *)
Definition hr_run (per_iter : bool) (t : hr_table) (c : hr_cfg) : option hr_table * hr_table :=
  hr_register_all t (hr_expand c) (hr_captured per_iter c) [].

Definition hr_close (per_iter : bool) (t : hr_table) (c : hr_cfg) : hr_table :=
  hr_close_list t (hr_captured per_iter c).
