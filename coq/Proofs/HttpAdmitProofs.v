(* C02 — proofs about Model/HttpAdmit.v *)
From FRP Require Import Model.HttpAdmit Proofs.HttpRewriteProofs.
Open Scope Z_scope.

Lemma ht_get_conn_uncapped : forall s, fst (ht_get_conn 0 s) <> HtQueued.
Proof. intros s. unfold ht_get_conn. destruct (0 <? ht_idle s); simpl; discriminate. Qed.

(* without a cap no request of any history over any number of routes ever waits inside the transport *)
Theorem ht_never_queued : forall ops st, ~ In HtQueued (ht_run 0 st ops).
Proof.
  induction ops as [|op ops IH]; intros st; simpl; [tauto|].
  destruct op as [k|k keep]; simpl.
  - pose proof (ht_get_conn_uncapped (ht_find k st)) as H.
    destruct (ht_get_conn 0 (ht_find k st)) as [a s]. simpl in *.
    intros [Ha|Hin]; [congruence|]. exact (IH _ Hin).
  - apply IH.
Qed.

Lemma ht_lookup_reviewed : forall fs,
  forallb (fun f => ht_str_mem (fst f) ht_reviewed_fields) fs = true ->
  ht_lookup "MaxConnsPerHost" fs = None.
Proof.
  induction fs as [|[n v] fs IH]; simpl; intro H; [reflexivity|].
  apply andb_true_iff in H. destruct H as [H1 H2].
  destruct (String.eqb n "MaxConnsPerHost") eqn:E; [|exact (IH H2)].
  apply String.eqb_eq in E. subst n. vm_compute in H1. discriminate.
Qed.

Theorem ht_literal_ok_sound : forall nlits fs assigned,
  ht_literal_ok nlits fs assigned = true ->
  ht_max_conns fs = Some 0 /\ forall ops st, ~ In HtQueued (ht_run 0 st ops).
Proof.
  intros nlits fs assigned H. unfold ht_literal_ok in H.
  apply andb_true_iff in H. destruct H as [H _]. apply andb_true_iff in H. destruct H as [_ H].
  split; [|exact ht_never_queued].
  unfold ht_max_conns. rewrite (ht_lookup_reviewed fs H). reflexivity.
Qed.

(* the cap does matter: with 5 connections per key, the sixth concurrent exchange of a route waits,
   while another route is served *)
Definition ht_six (k : bytes) : list ht_op := repeat (HtRequest k) 6.
Theorem ht_cap5_queues : forall k k', k <> k' ->
  ht_run 5 [] (ht_six k ++ [HtRequest k']) = [HtDial; HtDial; HtDial; HtDial; HtDial; HtQueued; HtDial].
Proof.
  intros k k' Hne.
  pose proof (hr_bytes_eqb_neq k k' Hne) as Hn.
  pose proof (hr_bytes_eqb_refl k) as Hr.
  unfold ht_six. cbn -[bytes_eqb]. unfold ht_get_conn. cbn -[bytes_eqb].
  repeat (rewrite ?Hr, ?Hn; cbn -[bytes_eqb]). reflexivity.
Qed.

(* ---------------------------------------------------------------------------------------- *)
(* recycling of pooled compression resources *)
Theorem rc_sites_safe_sound : forall sites,
  rc_sites_safe sites = true ->
  sites <> [] /\
  forall file fn evs p, In (file, fn, evs) sites -> In p (rc_paths evs) -> rc_path_safe p false false = true.
Proof.
  intros sites H. destruct sites as [|s0 sites]; [discriminate|]. split; [discriminate|].
  intros file fn evs p Hin Hp. unfold rc_sites_safe in H.
  rewrite forallb_forall in H. specialize (H _ Hin). simpl in H.
  unfold rc_site_safe in H. rewrite forallb_forall in H. exact (H _ Hp).
Qed.

(* the shape with a deferred recycle next to an asynchronous hand-off is refused: on the path through the
   plugin the function returns, the deferred call fires, the stream is still being served *)
Example rc_defer_with_async_unsafe :
  rc_site_safe [RcIf [RcAcquire; RcDefer] false; RcIf [RcAsync] true; RcIf [RcClose] true; RcJoin] = false /\
  In [RcAcquire; RcDefer; RcAsync] (rc_paths [RcIf [RcAcquire; RcDefer] false; RcIf [RcAsync] true; RcIf [RcClose] true; RcJoin]).
Proof. split; vm_compute; tauto. Qed.

(* ---------------------------------------------------------------------------------------- *)
(* deadlines of a routed connection *)
Lemma mx_deliver_unarmed : forall timeout chunks, mx_deliver false timeout chunks = List.concat (map snd chunks).
Proof. induction chunks as [|[a d] r IH]; simpl; [reflexivity|]. rewrite IH. reflexivity. Qed.

Lemma mx_reads_unarmed : forall timeout ages, mx_reads false timeout ages = Z.of_nat (length ages).
Proof.
  induction ages as [|a r IH]; [reflexivity|].
  change (mx_reads false timeout (a :: r)) with (1 + mx_reads false timeout r). rewrite IH.
  change (length (a :: r)) with (S (length r)). rewrite Nat2Z.inj_succ. apply Z.add_1_l.
Qed.

(* a response (or any stream towards the user) of any duration, and requests at any age, pass a connection
   that was handed over with both deadlines cleared *)
Theorem mx_clean_transparent : forall ops,
  mx_handoff_clean ops = true ->
  (forall timeout chunks, mx_deliver_after ops timeout chunks = Some (List.concat (map snd chunks))) /\
  (forall timeout ages, mx_reads_after ops timeout ages = Some (Z.of_nat (length ages))).
Proof.
  intros ops H. unfold mx_handoff_clean in H. unfold mx_deliver_after, mx_reads_after.
  destruct (mx_at_handoff ops (false, false)) as [[rd wr]|]; [|discriminate].
  destruct rd; [discriminate|]. destruct wr; [discriminate|].
  split; intros; [rewrite mx_deliver_unarmed|rewrite mx_reads_unarmed]; reflexivity.
Qed.

(* clearing only the read deadline is refused, and a chunk written after the timeout is lost *)
Example mx_read_only_clear_cuts :
  mx_handoff_clean [MxArm MxBoth; MxClear MxRead; MxHandoff] = false /\
  mx_deliver_after [MxArm MxBoth; MxClear MxRead; MxHandoff] 30000 [(10, [x61]); (31000, [x62])] = Some [x61].
Proof. split; reflexivity. Qed.

(* ---------------------------------------------------------------------------------------- *)
(* request heads admitted by the vhost HTTP server *)
Lemma hsv_lookup_reviewed : forall fs,
  forallb (fun f => ht_str_mem (fst f) hsv_reviewed_fields) fs = true ->
  ht_lookup "MaxHeaderBytes" fs = None.
Proof.
  induction fs as [|[n v] fs IH]; simpl; intro H; [reflexivity|].
  apply andb_true_iff in H. destruct H as [H1 H2].
  destruct (String.eqb n "MaxHeaderBytes") eqn:E; [|exact (IH H2)].
  apply String.eqb_eq in E. subst n. vm_compute in H1. discriminate.
Qed.

Theorem hsv_literal_ok_sound : forall nlits fs,
  hsv_literal_ok nlits fs = true ->
  forall head_bytes, head_bytes <= 1048576 + 4096 -> hsv_head_admitted fs head_bytes = Some true.
Proof.
  intros nlits fs H hb Hle. unfold hsv_literal_ok in H. apply andb_true_iff in H. destruct H as [_ H].
  unfold hsv_head_admitted, hsv_max_header_bytes. rewrite (hsv_lookup_reviewed fs H).
  f_equal. apply Z.leb_le. exact Hle.
Qed.
