(* C10 — proofs about Model/ConnWrap.v (close-propagation of the connection wrappers). *)
From Coq Require Import List ZArith Bool Lia.
From FRP Require Import Model.ConnWrap.
Import ListNotations.
Open Scope Z_scope.

Definition cw_f (s : cwshape) (st : cwst) : option cwst :=
  cw_close (cw_fuel (cw_heap s)) (cw_heap s) (cw_top s) st.

(* a guarded stack: the first Close reaches the transport exactly once and sets a flag that makes every
   later Close a no-op *)
Lemma cw_guarded_first : forall s, cw_guarded s = true ->
  exists st1, cw_f s cw_init = Some st1 /\ cw_base_closes st1 = 1 /\ cw_f s st1 = Some st1.
Proof.
  intros s H.
  destruct s as [| | | | |e c l|e c l|e c l]; try discriminate H;
    try (destruct e, c, l; try discriminate H);
    (eexists; split; [vm_compute; reflexivity|split; vm_compute; reflexivity]).
Qed.

(* an unguarded stack forwards every Close to the transport *)
Lemma cw_unguarded_step : forall s st, cw_guarded s = false ->
  cw_f s st = Some {| cw_flags := cw_flags st; cw_closes := 0%nat :: cw_closes st; cw_calls := cw_calls st |}.
Proof.
  intros s st H.
  destruct s as [| | | | |e c l|e c l|e c l]; try discriminate H;
    try (destruct e, c, l; try discriminate H); reflexivity.
Qed.

Lemma cw_close_n_fix : forall s st k, cw_f s st = Some st -> cw_close_n k (cw_heap s) (cw_top s) st = Some st.
Proof.
  intros s st k H. induction k as [|k IH]; [reflexivity|].
  cbn [cw_close_n]. unfold cw_f in H. rewrite H. exact IH.
Qed.

Lemma cw_close_n_unguarded : forall s k st, cw_guarded s = false ->
  exists st', cw_close_n k (cw_heap s) (cw_top s) st = Some st' /\
              cw_base_closes st' = Z.of_nat k + cw_base_closes st.
Proof.
  intros s k. induction k as [|k IH]; intros st H.
  - exists st. split; [reflexivity|]. change (Z.of_nat 0) with 0. lia.
  - cbn [cw_close_n]. pose proof (cw_unguarded_step s st H) as E. unfold cw_f in E. rewrite E.
    destruct (IH {| cw_flags := cw_flags st; cw_closes := 0%nat :: cw_closes st; cw_calls := cw_calls st |} H) as [st' [R C]].
    exists st'. split; [exact R|]. rewrite C. unfold cw_base_closes. cbn [cw_closes]. change (count_nat 0%nat (0%nat :: cw_closes st)) with (1 + count_nat 0%nat (cw_closes st)). rewrite Nat2Z.inj_succ. lia.
Qed.

(* every shape, every number of Close calls: the model's count is the specification *)
Theorem cw_observe_spec : forall s k, cw_observe s k = Some (cw_spec s k).
Proof.
  intros s k. unfold cw_observe, cw_spec.
  destruct k as [|k]; [reflexivity|]. cbn [Nat.eqb].
  destruct (cw_guarded s) eqn:G.
  - destruct (cw_guarded_first s G) as [st1 [F [C I]]].
    cbn [cw_close_n]. unfold cw_f in F. rewrite F.
    rewrite (cw_close_n_fix s st1 k I). rewrite C. reflexivity.
  - destruct (cw_close_n_unguarded s (S k) cw_init G) as [st' [R C]].
    rewrite R. rewrite C. change (cw_base_closes cw_init) with 0. rewrite Z.add_0_r. reflexivity.
Qed.

Corollary cw_exactly_once : forall s k, cw_guarded s = true -> (k <> 0)%nat -> cw_observe s k = Some 1.
Proof.
  intros s k G K. rewrite cw_observe_spec. unfold cw_spec. rewrite G.
  destruct k; [congruence|reflexivity].
Qed.

Corollary cw_at_least_once : forall s k, (k <> 0)%nat -> exists m, cw_observe s k = Some m /\ 1 <= m.
Proof.
  intros s k K. exists (cw_spec s k). split; [apply cw_observe_spec|].
  unfold cw_spec. destruct k; [congruence|]. cbn [Nat.eqb]. destruct (cw_guarded s); lia.
Qed.

(* the callback (closeFn of CloseNotifyConn, statsFunc of StatsConn) runs exactly once *)
Theorem cw_callback_once : forall k, (k <> 0)%nat ->
  forall s, s = ShCloseNotify \/ s = ShStats ->
  exists st, cw_close_n k (cw_heap s) (cw_top s) cw_init = Some st /\ cw_calls st = [1%nat].
Proof.
  intros k K s [->| ->]; (destruct k; [congruence|]);
    (eexists; split; [cbn [cw_close_n]; change (cw_close _ _ _ cw_init) with (Some {| cw_flags := [1%nat]; cw_closes := [0%nat]; cw_calls := [1%nat] |});
                      apply (cw_close_n_fix _ {| cw_flags := [1%nat]; cw_closes := [0%nat]; cw_calls := [1%nat] |} k); reflexivity|reflexivity]).
Qed.

(* what the two repairs changed: the former shapes never reach the transport *)
Theorem cw_old_closenotify_never_closes : forall k,
  exists st, cw_close_n k cw_old_closenotify 1%nat cw_init = Some st /\ cw_base_closes st = 0.
Proof.
  intros k. destruct k as [|k]; [exists cw_init; split; reflexivity|].
  exists {| cw_flags := [1%nat]; cw_closes := []; cw_calls := [1%nat] |}. split; [|reflexivity].
  cbn [cw_close_n]. change (cw_close _ _ _ cw_init) with (Some {| cw_flags := [1%nat]; cw_closes := []; cw_calls := [1%nat] |}).
  induction k as [|k IH]; [reflexivity|]. cbn [cw_close_n].
  change (cw_close _ _ _ {| cw_flags := [1%nat]; cw_closes := []; cw_calls := [1%nat] |}) with (Some {| cw_flags := [1%nat]; cw_closes := []; cw_calls := [1%nat] |}).
  exact IH.
Qed.

Theorem cw_old_limiter_never_closes :
  let h := cw_old_limiter [CwBase; CwPass 0%nat] in
  forall k, exists st, cw_close_n k h 2%nat cw_init = Some st /\ cw_base_closes st = 0.
Proof.
  intros h k. destruct k as [|k]; [exists cw_init; split; reflexivity|].
  exists {| cw_flags := [2%nat]; cw_closes := []; cw_calls := [] |}. split; [|reflexivity].
  cbn [cw_close_n]. change (cw_close _ _ _ cw_init) with (Some {| cw_flags := [2%nat]; cw_closes := []; cw_calls := [] |}).
  induction k as [|k IH]; [reflexivity|]. cbn [cw_close_n].
  change (cw_close _ _ _ {| cw_flags := [2%nat]; cw_closes := []; cw_calls := [] |}) with (Some {| cw_flags := [2%nat]; cw_closes := []; cw_calls := [] |}).
  exact IH.
Qed.
