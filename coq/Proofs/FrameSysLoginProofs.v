(* C17: dispatching an authenticated Login never takes the server down, for every integer a peer can
   put into pool_count — proved over the clamp translated from server/control.go today (gen/GenAlloc.v),
   using C16's lemma chan_cap_nonneg (Proofs/AllocProofs.v). *)
From FRP Require Import Model.FrameSysLogin Proofs.FrameSysProofs Proofs.AllocProofs.
Open Scope Z_scope.

Lemma fs_login_oracle_accepts pool maxp rid :
  0 <= maxp -> fs_login_oracle pool maxp rid = HAccept rid.
Proof. intros _. unfold fs_login_oracle. now rewrite (chan_cap_nonneg pool maxp). Qed.

Theorem fs_accepted_login_survives reg tl tw tv force need wsp st ev st' out pool maxp rid :
  0 <= maxp -> fe_handler ev = fs_login_oracle pool maxp rid ->
  fs_first_step reg tl tw tv force need wsp st ev = Some (st', out) ->
  fo_close out <> ServerDown /\ (forall r, In r (map fst st) -> In r (map fst st')).
Proof.
  intros Hm Hh Hs. rewrite (fs_login_oracle_accepts pool maxp rid Hm) in Hh.
  destruct (fs_first_step_state reg tl tw tv force need wsp st ev st' out Hs)
    as [[-> Hn]|[(rid' & _ & -> & _ & Hk)|(Hc & _)]].
  - auto.
  - split; [congruence|]. intros r Hr. now apply fs_ins_keeps_ids.
  - congruence.
Qed.
