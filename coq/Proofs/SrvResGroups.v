(* C10 — the load-balancing group paths of Model/SrvRes.v (tcp / http / tcpmux groups): join, refused join,
   leave, last leave, re-join.  Statements are about ANY state whose two port managers satisfy the
   partition invariant PInv (proved below for every history, grouped requests included). *)
From Coq Require Import Lia ZifyBool ZifyNat.
From FRP Require Import Model.SrvRes Proofs.PortsProofs Proofs.SrvResBase Proofs.SrvResProofs Proofs.SrvResThms.
Open Scope Z_scope.

Local Notation rget_ := (al_get slot_eqb).
Local Notation rdel_ := (al_del slot_eqb).

Lemma grp_get_set_eq : forall id g l, grp_get id (grp_set id g l) = Some g.
Proof. intros. apply (al_get_set_eq gid_eqb_spec). Qed.
Lemma grp_get_set_neq : forall id id' g l, id' <> id -> grp_get id' (grp_set id g l) = grp_get id' l.
Proof. intros. apply (al_get_set_neq gid_eqb_spec). assumption. Qed.
Lemma grp_get_del_eq : forall id l, grp_get id (grp_del id l) = None.
Proof. intros. apply (al_get_del_eq gid_eqb_spec). Qed.
Lemma grp_get_del_neq : forall id id' l, id' <> id -> grp_get id' (grp_del id l) = grp_get id' l.
Proof. intros. apply (al_get_del_neq gid_eqb_spec). assumption. Qed.

(* the groups that hold something: lookups of non-empty groups *)
Definition live_group (s : sr) (id : gid) : option grp :=
  match grp_get id (sr_grp s) with
  | Some g => match g_mem g with [] => None | _ => Some g end
  | None => None
  end.

Definition rest_same (s s' : sr) : Prop :=
  sr_udp s' = sr_udp s /\ sr_squat s' = sr_squat s /\ sr_names s' = sr_names s /\ sr_sess s' = sr_sess s.

(* ---------- a refused join ---------- *)
(* whatever the reason (port refused / unavailable, listen failed after the acquisition, route conflict,
   different port, wrong key, other parameters, repeated member): no keyed table entry, no used port, no
   live group and no member list changes; only an EMPTY group object may appear in the controller table
   (F-C10c), and the tcp manager may differ in free-table order / reserved-port memory *)
Definition refused_post (A : list Z) (s : sr) (j : gjoin) (s' : sr) : Prop :=
  sr_res s' = sr_res s /\ pm_eqv (sr_tcp s) (sr_tcp s') /\ PInv A (sr_tcp s') /\ rest_same s s' /\
  (forall id, live_group s' id = live_group s id) /\
  (forall id, id <> j_gid j -> grp_get id (sr_grp s') = grp_get id (sr_grp s)) /\
  (grp_get (j_gid j) (sr_grp s') = grp_get (j_gid j) (sr_grp s) \/
   (grp_get (j_gid j) (sr_grp s) = None /\ grp_get (j_gid j) (sr_grp s') = Some (g_shell (fst (j_gid j))))).

Lemma refused_post_refl : forall A s j, PInv A (sr_tcp s) -> refused_post A s j s.
Proof. intros. unfold refused_post, rest_same. csplit; auto. apply pm_eqv_refl. Qed.

Theorem refused_join_changes_nothing : forall A s j s' e,
  PInv A (sr_tcp s) -> ~ In 0 A -> grp_join s j = Some (s', inr e) -> refused_post A s j s'.
Proof.
  intros A s j s' e HI H0 H. unfold grp_join in H.
  pose proof (refused_post_refl A s j HI) as KEEP.
  destruct (grp_get (j_gid j) (sr_grp s)) as [g|] eqn:GG.
  - (* the group object exists *)
    destruct (g_mem g) as [|m0 mr] eqn:GM.
    + destruct (fst (j_gid j)) eqn:K.
      * destruct (acquire_listen 0 s (j_name j) (j_port j) (j_choice j) (j_lok j) (OGrp (j_gid j))) as [[s2 [rp|e2]]|] eqn:AL; try discriminate.
        injection H as <- _.
        destruct (acquire_listen_spec A 0 s _ _ _ _ _ _ _ (or_introl eq_refl) HI H0 AL) as [[S1 [S2 [S3 S4]]] [P1 [P2 [ER EQ]]]].
        unfold get_pm in *. cbn in P1, P2, EQ.
        unfold refused_post, rest_same, live_group. rewrite S2. csplit; auto.
      * destruct (res_add (j_slot j) (OGrp (j_gid j)) s) eqn:RA; [discriminate|]. injection H as <- _. exact KEEP.
      * destruct (res_add (j_slot j) (OGrp (j_gid j)) s) eqn:RA; [discriminate|]. injection H as <- _. exact KEEP.
    + destruct (fst (j_gid j)).
      * destruct (negb (g_port g =? j_port j)); [injection H as <- _; exact KEEP|].
        destruct (negb (String.eqb (g_key g) (j_key j))); [injection H as <- _; exact KEEP|discriminate].
      * destruct (negb (slot_eqb (g_slot g) (j_slot j))); [injection H as <- _; exact KEEP|].
        destruct (negb (String.eqb (g_key g) (j_key j))); [injection H as <- _; exact KEEP|].
        destruct (str_mem (j_name j) (m0 :: mr)); [injection H as <- _; exact KEEP|discriminate].
      * destruct (negb (slot_eqb (g_slot g) (j_slot j) && String.eqb (g_cred g) (j_cred j))); [injection H as <- _; exact KEEP|].
        destruct (negb (String.eqb (g_key g) (j_key j))); [injection H as <- _; exact KEEP|discriminate].
  - (* no group object: an empty one is created first *)
    set (id := j_gid j) in *.
    set (s1 := set_grp (grp_set id (g_shell (fst id)) (sr_grp s)) s) in *.
    assert (SH : g_mem (g_shell (fst id)) = []) by reflexivity. rewrite SH in H.
    assert (LV : forall s2, sr_grp s2 = sr_grp s1 -> forall id0, live_group s2 id0 = live_group s id0).
    { intros s2 E id0. unfold live_group. rewrite E. unfold s1. unsr.
      destruct (gid_eqb_spec id0 id) as [->|N].
      - rewrite grp_get_set_eq, GG. reflexivity.
      - rewrite grp_get_set_neq by assumption. reflexivity. }
    assert (OT : forall s2, sr_grp s2 = sr_grp s1 -> forall id0, id0 <> id -> grp_get id0 (sr_grp s2) = grp_get id0 (sr_grp s)).
    { intros s2 E id0 N. rewrite E. unfold s1. unsr. apply grp_get_set_neq. assumption. }
    assert (SHL : forall s2, sr_grp s2 = sr_grp s1 -> grp_get id (sr_grp s2) = Some (g_shell (fst id))).
    { intros s2 E. rewrite E. unfold s1. unsr. apply grp_get_set_eq. }
    unfold refused_post. fold id. rewrite GG.
    destruct (fst id) eqn:K.
    + destruct (acquire_listen 0 s1 (j_name j) (j_port j) (j_choice j) (j_lok j) (OGrp id)) as [[s2 [rp|e2]]|] eqn:AL; try discriminate.
      injection H as <- _.
      assert (HI1 : PInv A (get_pm 0 s1)) by (unfold get_pm, s1; cbn; assumption).
      destruct (acquire_listen_spec A 0 s1 _ _ _ _ _ _ _ (or_introl eq_refl) HI1 H0 AL) as [[S1 [S2 [S3 S4]]] [P1 [P2 [ER EQ]]]].
      unfold get_pm in *. cbn in P1, P2, EQ. unfold rest_same.
      csplit; auto; try (right; split; [reflexivity|]; rewrite <- K; apply SHL; assumption).
    + destruct (res_add (j_slot j) (OGrp id) s1) eqn:RA; [discriminate|]. injection H as <- _.
      unfold rest_same. csplit; auto; try reflexivity; try apply pm_eqv_refl; try (right; split; [reflexivity|]; rewrite <- K; apply SHL; reflexivity).
    + destruct (res_add (j_slot j) (OGrp id) s1) eqn:RA; [discriminate|]. injection H as <- _.
      unfold rest_same. csplit; auto; try reflexivity; try apply pm_eqv_refl; try (right; split; [reflexivity|]; rewrite <- K; apply SHL; reflexivity).
Qed.

(* ---------- leave ---------- *)
Lemma str_rem1_snoc : forall n m, str_mem n m = false -> str_rem1 n (m ++ [n]) = m.
Proof.
  induction m as [|x r IH]; simpl; intros H; [rewrite String.eqb_refl; reflexivity|].
  destruct (String.eqb_spec n x) as [->|N]; [discriminate|]. simpl in H. f_equal. auto.
Qed.

Lemma g_with_mem_id : forall g m, g_mem g = m -> g_with_mem g m = g.
Proof. intros [] m <-. reflexivity. Qed.

Lemma g_with_mem_twice : forall g m m', g_with_mem (g_with_mem g m) m' = g_with_mem g m'.
Proof. reflexivity. Qed.

(* the last member leaves: the group is gone, its shared resource (socket + port, or route) is released,
   nothing else is touched *)
Theorem last_leave_releases : forall A s id n g,
  PInv A (sr_tcp s) -> PInv A (sr_udp s) ->
  grp_get id (sr_grp s) = Some g -> str_rem1 n (g_mem g) = [] ->
  let s' := grp_leave s id n in
  grp_get id (sr_grp s') = None /\ rget_ (g_slot g) (sr_res s') = None /\
  (forall p, g_slot g = SSock 0 p -> uget p (pm_used (sr_tcp s')) = None /\ In p (pm_free (sr_tcp s')) \/ uget p (pm_used (sr_tcp s)) = None) /\
  (forall k, k <> g_slot g -> rget_ k (sr_res s') = rget_ k (sr_res s)) /\
  (forall id0, id0 <> id -> grp_get id0 (sr_grp s') = grp_get id0 (sr_grp s)) /\
  sr_names s' = sr_names s /\ sr_sess s' = sr_sess s /\ PInv A (sr_tcp s') /\ PInv A (sr_udp s').
Proof.
  intros A s id n g Pt Pu GG RM. cbn zeta. unfold grp_leave. rewrite GG, RM.
  destruct (g_slot g) as [proto p|k r|m|m] eqn:SL.
  - unfold close_release, res_rm, set_pm, get_pm. destruct (Z.eqb_spec proto 0) as [->|NP]; unsr.
    + csplit; auto.
      * apply grp_get_del_eq.
      * apply (al_get_del_eq slot_eqb_spec).
      * intros p0 E. injection E as <-. unfold pm_release. destruct (uget p (pm_used (sr_tcp s))) eqn:U; [|auto].
        left. cbn [pm_used pm_free]. split; [apply uget_udel_eq|apply zadd_In; auto].
      * intros k N. apply (al_get_del_neq slot_eqb_spec). assumption.
      * intros id0 N. apply grp_get_del_neq. assumption.
      * apply pinv_release. assumption.
    + csplit; auto.
      * apply grp_get_del_eq.
      * apply (al_get_del_eq slot_eqb_spec).
      * intros p0 E. injection E as E1 E2. congruence.
      * intros k N. apply (al_get_del_neq slot_eqb_spec). assumption.
      * intros id0 N. apply grp_get_del_neq. assumption.
      * apply pinv_release. assumption.
  - unsr. csplit; auto; try discriminate.
    + apply grp_get_del_eq.
    + apply (al_get_del_eq slot_eqb_spec).
    + intros k0 N. apply (al_get_del_neq slot_eqb_spec). assumption.
    + intros id0 N. apply grp_get_del_neq. assumption.
  - unsr. csplit; auto; try discriminate.
    + apply grp_get_del_eq.
    + apply (al_get_del_eq slot_eqb_spec).
    + intros k0 N. apply (al_get_del_neq slot_eqb_spec). assumption.
    + intros id0 N. apply grp_get_del_neq. assumption.
  - unsr. csplit; auto; try discriminate.
    + apply grp_get_del_eq.
    + apply (al_get_del_eq slot_eqb_spec).
    + intros k0 N. apply (al_get_del_neq slot_eqb_spec). assumption.
    + intros id0 N. apply grp_get_del_neq. assumption.
Qed.

(* a member leaves a group that keeps other members: only the member list changes *)
Theorem leave_keeps_the_group_for_the_others : forall s id n g m r,
  grp_get id (sr_grp s) = Some g -> str_rem1 n (g_mem g) = m :: r ->
  let s' := grp_leave s id n in
  grp_get id (sr_grp s') = Some (g_with_mem g (m :: r)) /\ sr_res s' = sr_res s /\ sr_tcp s' = sr_tcp s /\ sr_udp s' = sr_udp s /\
  sr_names s' = sr_names s /\ sr_sess s' = sr_sess s /\
  (forall id0, id0 <> id -> grp_get id0 (sr_grp s') = grp_get id0 (sr_grp s)).
Proof.
  intros s id n g m r GG RM. cbn zeta. unfold grp_leave. rewrite GG, RM. unsr. csplit; auto.
  - apply grp_get_set_eq.
  - intros id0 N. apply grp_get_set_neq. assumption.
Qed.

(* ---------- a successful join, characterised ---------- *)
Definition others_same (id : gid) (s s1 : sr) : Prop :=
  forall id0, id0 <> id -> grp_get id0 (sr_grp s1) = grp_get id0 (sr_grp s).

Inductive join_shape (A : list Z) (s : sr) (j : gjoin) (s1 : sr) (rp : Z) : Prop :=
| JFirst (k : slot) (g1 : grp) :
    live_group s (j_gid j) = None ->
    rget_ k (sr_res s) = None -> sr_res s1 = (k, OGrp (j_gid j)) :: sr_res s ->
    grp_get (j_gid j) (sr_grp s1) = Some g1 -> g_mem g1 = [j_name j] -> g_slot g1 = k ->
    (match fst (j_gid j) with
     | GTcp => k = SSock 0 rp /\ sr_tcp s1 = pm_take (sr_tcp s) (j_name j) rp /\ In rp (pm_free (sr_tcp s)) /\
               j_lok j = true /\ (j_port j <> 0 -> rp = j_port j)
     | _ => k = j_slot j /\ sr_tcp s1 = sr_tcp s
     end) ->
    rest_same s s1 -> others_same (j_gid j) s s1 -> join_shape A s j s1 rp
| JLater (g : grp) :
    live_group s (j_gid j) = Some g -> sr_res s1 = sr_res s -> sr_tcp s1 = sr_tcp s ->
    grp_get (j_gid j) (sr_grp s1) = Some (g_with_mem g (g_mem g ++ [j_name j])) ->
    rest_same s s1 -> others_same (j_gid j) s s1 -> join_shape A s j s1 rp.

Lemma grp_join_ok_spec : forall A s j s1 rp,
  PInv A (sr_tcp s) -> ~ In 0 A -> grp_join s j = Some (s1, inl rp) -> join_shape A s j s1 rp.
Proof.
  intros A s j s1 rp HI H0 H. unfold grp_join in H.
  set (id := j_gid j) in *.
  (* the state in which the first member acquires: s, or s with the empty object *)
  assert (FIRST : forall s0, sr_res s0 = sr_res s -> sr_tcp s0 = sr_tcp s -> rest_same s s0 -> sr_squat s0 = sr_squat s ->
            others_same id s s0 -> live_group s id = None ->
            match fst id with
            | GTcp =>
                match acquire_listen 0 s0 (j_name j) (j_port j) (j_choice j) (j_lok j) (OGrp id) with
                | None => None
                | Some (s2, inr e) => Some (s2, inr e)
                | Some (s2, inl rp) =>
                    Some (set_grp (grp_set id {| g_key := j_key j; g_slot := SSock 0 rp; g_port := j_port j; g_real := rp;
                                                 g_cred := ""; g_mem := [j_name j] |} (sr_grp s2)) s2, inl rp)
                end
            | _ =>
                match res_add (j_slot j) (OGrp id) s0 with
                | None => Some (s0, inr EConflict)
                | Some s2 =>
                    Some (set_grp (grp_set id {| g_key := j_key j; g_slot := j_slot j; g_port := 0; g_real := 0;
                                                 g_cred := j_cred j; g_mem := [j_name j] |} (sr_grp s2)) s2, inl 0)
                end
            end = Some (s1, inl rp) -> join_shape A s j s1 rp).
  { intros s0 ER ET [R1 [R2 [R3 R4]]] EQ OS LG X.
    destruct (fst id) eqn:K.
    - destruct (acquire_listen 0 s0 (j_name j) (j_port j) (j_choice j) (j_lok j) (OGrp id)) as [[s2 [rp'|e2]]|] eqn:AL; try discriminate.
      injection X as <- <-.
      assert (HI0 : PInv A (get_pm 0 s0)) by (unfold get_pm; cbn; rewrite ET; assumption).
      destruct (acquire_listen_spec A 0 s0 _ _ _ _ _ _ _ (or_introl eq_refl) HI0 H0 AL) as [[S1 [S2 [S3 S4]]] [P1 [P2 [Q1 [Q2 [Q3 [Q4 [Q5 [Q6 Q7]]]]]]]]].
      unfold get_pm in *. cbn in P1, P2, Q3, Q4.
      eapply (JFirst A s j _ rp' (SSock 0 rp')); unsr; fold id.
      + assumption.
      + rewrite <- ER. assumption.
      + rewrite Q2, ER. reflexivity.
      + apply grp_get_set_eq.
      + reflexivity.
      + reflexivity.
      + rewrite K. csplit; auto; try congruence.
      + unfold rest_same. unsr. csplit; congruence.
      + intros id0 N. unsr. rewrite grp_get_set_neq by assumption. rewrite S2. apply OS. assumption.
    - unfold res_add in X. destruct (res_get (j_slot j) (sr_res s0)) eqn:RG; [discriminate|]. injection X as <- <-.
      eapply (JFirst A s j _ 0 (j_slot j)); unsr; fold id.
      + assumption.
      + rewrite <- ER. assumption.
      + rewrite ER. reflexivity.
      + apply grp_get_set_eq.
      + reflexivity.
      + reflexivity.
      + rewrite K. auto.
      + unfold rest_same. unsr. csplit; congruence.
      + intros id0 N. unsr. rewrite grp_get_set_neq by assumption. apply OS. assumption.
    - unfold res_add in X. destruct (res_get (j_slot j) (sr_res s0)) eqn:RG; [discriminate|]. injection X as <- <-.
      eapply (JFirst A s j _ 0 (j_slot j)); unsr; fold id.
      + assumption.
      + rewrite <- ER. assumption.
      + rewrite ER. reflexivity.
      + apply grp_get_set_eq.
      + reflexivity.
      + reflexivity.
      + rewrite K. auto.
      + unfold rest_same. unsr. csplit; congruence.
      + intros id0 N. unsr. rewrite grp_get_set_neq by assumption. apply OS. assumption. }
  destruct (grp_get id (sr_grp s)) as [g|] eqn:GG.
  - destruct (g_mem g) as [|m0 mr] eqn:GM.
    + apply (FIRST s); auto.
      * unfold rest_same. auto.
      * intros id0 N. reflexivity.
      * unfold live_group. rewrite GG, GM. reflexivity.
    + assert (LG : live_group s id = Some g) by (unfold live_group; rewrite GG, GM; reflexivity).
      assert (LATER : forall rp0, Some (set_grp (grp_set id (g_with_mem g ((m0 :: mr) ++ [j_name j])) (sr_grp s)) s, @inl Z rerr rp0) = Some (s1, inl rp) ->
                join_shape A s j s1 rp).
      { intros rp0 X. injection X as <- <-. apply (JLater A s j _ rp0 g); unsr; fold id; auto.
        - rewrite GM. apply grp_get_set_eq.
        - unfold rest_same. unsr. auto.
        - intros id0 N. unsr. apply grp_get_set_neq. assumption. }
      destruct (fst id).
      * destruct (negb (g_port g =? j_port j)); [discriminate|].
        destruct (negb (String.eqb (g_key g) (j_key j))); [discriminate|]. eapply LATER. exact H.
      * destruct (negb (slot_eqb (g_slot g) (j_slot j))); [discriminate|].
        destruct (negb (String.eqb (g_key g) (j_key j))); [discriminate|].
        destruct (str_mem (j_name j) (m0 :: mr)); [discriminate|]. eapply LATER. exact H.
      * destruct (negb (slot_eqb (g_slot g) (j_slot j) && String.eqb (g_cred g) (j_cred j))); [discriminate|].
        destruct (negb (String.eqb (g_key g) (j_key j))); [discriminate|]. eapply LATER. exact H.
  - assert (SH : g_mem (g_shell (fst id)) = []) by reflexivity. rewrite SH in H.
    apply (FIRST (set_grp (grp_set id (g_shell (fst id)) (sr_grp s)) s)); auto.
    + unfold rest_same. unsr. auto.
    + intros id0 N. unsr. apply grp_get_set_neq. assumption.
    + unfold live_group. rewrite GG. reflexivity.
Qed.

(* ---------- join, then leave: nothing remains ---------- *)
Definition grp_eqv (s s2 : sr) : Prop :=
  sr_res s2 = sr_res s /\ pm_eqv (sr_tcp s) (sr_tcp s2) /\ rest_same s s2 /\ (forall id, live_group s2 id = live_group s id).

(* the shared resource of an http / tcpmux group is a route (what HTTPProxy.Run / httpConnectRun pass) *)
Definition slot_ok (j : gjoin) : Prop :=
  match fst (j_gid j) with GTcp => True | _ => exists k r, j_slot j = SRoute k r end.

Theorem join_then_leave_restores : forall A s j s1 rp,
  PInv A (sr_tcp s) -> ~ In 0 A -> slot_ok j -> grp_join s j = Some (s1, inl rp) ->
  (forall g, live_group s (j_gid j) = Some g -> str_mem (j_name j) (g_mem g) = false) ->
  grp_eqv s (grp_leave s1 (j_gid j) (j_name j)).
Proof.
  intros A s j s1 rp HI H0 SK H NM.
  destruct (grp_join_ok_spec A s j s1 rp HI H0 H) as [k g1 LG RK ER GG GM GS KD [R1 [R2 [R3 R4]]] OS|g LG ER ET GG [R1 [R2 [R3 R4]]] OS].
  - (* first member: it is also the last one out *)
    unfold grp_leave. rewrite GG, GM. cbn [str_rem1]. rewrite String.eqb_refl. rewrite GS.
    assert (LV : forall s2, (forall id0, id0 <> j_gid j -> grp_get id0 (sr_grp s2) = grp_get id0 (sr_grp s1)) ->
                 grp_get (j_gid j) (sr_grp s2) = None -> forall id0, live_group s2 id0 = live_group s id0).
    { intros s2 O N id0. unfold live_group. destruct (gid_eqb_spec id0 (j_gid j)) as [->|D].
      - rewrite N. unfold live_group in LG. symmetry. exact LG.
      - rewrite (O id0 D), (OS id0 D). reflexivity. }
    assert (ROUTE : forall kk rr, k = SRoute kk rr -> sr_tcp s1 = sr_tcp s ->
              grp_eqv s (set_grp (grp_del (j_gid j) (sr_grp (res_rm k s1))) (res_rm k s1))).
    { intros kk rr -> ET. unfold grp_eqv, rest_same, res_rm. unsr. csplit; auto.
      - rewrite ER. unfold res_del. cbn [al_del]. rewrite slot_eqb_refl. apply (al_del_absent slot_eqb_spec). assumption.
      - rewrite ET. apply pm_eqv_refl.
      - apply LV; unfold res_rm; unsr; [intros id0 D; apply grp_get_del_neq; assumption|apply grp_get_del_eq]. }
    unfold slot_ok in SK. destruct (fst (j_gid j)) eqn:K.
    + destruct KD as [-> [ET [IF [LK PP]]]].
      unfold close_release, res_rm, set_pm, get_pm. cbn [Z.eqb]. unsr. unfold grp_eqv, rest_same. unsr. csplit; auto.
      * rewrite ER. simpl. rewrite !Z.eqb_refl. simpl. apply (al_del_absent slot_eqb_spec). assumption.
      * rewrite ET. apply (take_release_eqv A); assumption.
      * apply LV; unsr; [intros id0 D; apply grp_get_del_neq; assumption|apply grp_get_del_eq].
    + destruct KD as [-> ET]. destruct SK as [kk [rr SL]]. rewrite SL in *. apply (ROUTE kk rr); auto.
    + destruct KD as [-> ET]. destruct SK as [kk [rr SL]]. rewrite SL in *. apply (ROUTE kk rr); auto.
  - (* later member *)
    assert (GMne : g_mem g <> []) by (unfold live_group in LG; destruct (grp_get (j_gid j) (sr_grp s)) as [g0|]; [|discriminate];
                                       destruct (g_mem g0) eqn:E; [discriminate|]; injection LG as <-; rewrite E; discriminate).
    unfold grp_leave. rewrite GG. cbn [g_mem g_with_mem]. rewrite str_rem1_snoc by (apply NM; assumption).
    destruct (g_mem g) as [|m0 mr] eqn:GM; [congruence|].
    rewrite g_with_mem_twice. rewrite (g_with_mem_id g (m0 :: mr) GM).
    unfold grp_eqv, rest_same. unsr. csplit; auto.
    + rewrite ET. apply pm_eqv_refl.
    + intros id0. unfold live_group. unsr. destruct (gid_eqb_spec id0 (j_gid j)) as [->|D].
      * rewrite grp_get_set_eq. unfold live_group in LG.
        destruct (grp_get (j_gid j) (sr_grp s)) as [g0|]; [|discriminate].
        destruct (g_mem g0) eqn:E; [discriminate|]. injection LG as ->. rewrite GM. reflexivity.
      * rewrite grp_get_set_neq by assumption. rewrite (OS id0 D). reflexivity.
Qed.

(* ---------- joining again after the leave succeeds ---------- *)
Definition first_branch (s0 : sr) (j : gjoin) : option (sr * (Z + rerr)) :=
  let id := j_gid j in
  match fst id with
  | GTcp =>
      match acquire_listen 0 s0 (j_name j) (j_port j) (j_choice j) (j_lok j) (OGrp id) with
      | None => None
      | Some (s2, inr e) => Some (s2, inr e)
      | Some (s2, inl rp) =>
          Some (set_grp (grp_set id {| g_key := j_key j; g_slot := SSock 0 rp; g_port := j_port j; g_real := rp;
                                       g_cred := ""; g_mem := [j_name j] |} (sr_grp s2)) s2, inl rp)
      end
  | _ =>
      match res_add (j_slot j) (OGrp id) s0 with
      | None => Some (s0, inr EConflict)
      | Some s2 =>
          Some (set_grp (grp_set id {| g_key := j_key j; g_slot := j_slot j; g_port := 0; g_real := 0;
                                       g_cred := j_cred j; g_mem := [j_name j] |} (sr_grp s2)) s2, inl 0)
      end
  end.

Definition later_ok (g : grp) (j : gjoin) : bool :=
  match fst (j_gid j) with
  | GTcp => (g_port g =? j_port j) && String.eqb (g_key g) (j_key j)
  | GHttp => slot_eqb (g_slot g) (j_slot j) && String.eqb (g_key g) (j_key j) && negb (str_mem (j_name j) (g_mem g))
  | GMux => slot_eqb (g_slot g) (j_slot j) && String.eqb (g_cred g) (j_cred j) && String.eqb (g_key g) (j_key j)
  end.

Lemma grp_join_not_live : forall s j, live_group s (j_gid j) = None ->
  exists s0, sr_res s0 = sr_res s /\ sr_tcp s0 = sr_tcp s /\ sr_squat s0 = sr_squat s /\ grp_join s j = first_branch s0 j.
Proof.
  intros s j LG. unfold live_group in LG. unfold grp_join.
  destruct (grp_get (j_gid j) (sr_grp s)) as [g|] eqn:GG.
  - destruct (g_mem g) eqn:GM; [|discriminate]. exists s. csplit; auto.
  - exists (set_grp (grp_set (j_gid j) (g_shell (fst (j_gid j))) (sr_grp s)) s). unsr. csplit; auto.
Qed.

Lemma grp_join_live : forall s j g, live_group s (j_gid j) = Some g ->
  (exists s1 rp, grp_join s j = Some (s1, inl rp)) <-> later_ok g j = true.
Proof.
  intros s j g LG. unfold live_group in LG. unfold grp_join, later_ok.
  destruct (grp_get (j_gid j) (sr_grp s)) as [g0|] eqn:GG; [|discriminate].
  destruct (g_mem g0) as [|m0 mr] eqn:GM; [discriminate|]. injection LG as ->. rewrite GM.
  destruct (fst (j_gid j)).
  - destruct (g_port g =? j_port j); cbn [negb andb]; [|split; [intros [? [? X]]; discriminate|discriminate]].
    destruct (String.eqb (g_key g) (j_key j)); cbn [negb]; [split; eauto|split; [intros [? [? X]]; discriminate|discriminate]].
  - destruct (slot_eqb (g_slot g) (j_slot j)); cbn [negb andb]; [|split; [intros [? [? X]]; discriminate|discriminate]].
    destruct (String.eqb (g_key g) (j_key j)); cbn [negb andb]; [|split; [intros [? [? X]]; discriminate|discriminate]].
    destruct (str_mem (j_name j) (m0 :: mr)); cbn [negb]; [split; [intros [? [? X]]; discriminate|discriminate]|split; eauto].
  - destruct (slot_eqb (g_slot g) (j_slot j) && String.eqb (g_cred g) (j_cred j)); cbn [negb andb]; [|split; [intros [? [? X]]; discriminate|discriminate]].
    destruct (String.eqb (g_key g) (j_key j)); cbn [negb]; [split; eauto|split; [intros [? [? X]]; discriminate|discriminate]].
Qed.

Lemma first_branch_same : forall a b j sa rp,
  sr_res a = sr_res b -> sr_squat a = sr_squat b -> pm_eqv (sr_tcp a) (sr_tcp b) ->
  (fst (j_gid j) = GTcp -> j_port j <> 0) ->
  first_branch a j = Some (sa, inl rp) -> exists sb rp', first_branch b j = Some (sb, inl rp').
Proof.
  intros a b j sa rp ER EQ ET NP H. unfold first_branch in *.
  destruct (fst (j_gid j)) eqn:K.
  - destruct (acquire_listen 0 a (j_name j) (j_port j) (j_choice j) (j_lok j) (OGrp (j_gid j))) as [[s2 [rp0|e]]|] eqn:AL; try discriminate.
    assert (LK : j_lok j = true).
    { unfold acquire_listen in AL. destruct (pm_acquire _ _ _ _ _) as [[m' [p|e]]|]; try discriminate.
      destruct (j_lok j); [reflexivity|discriminate]. }
    rewrite LK in *.
    destruct (acquire_listen_same 0 a b _ _ _ _ _ _ (or_introl eq_refl) (NP eq_refl) ER EQ ET AL) as [sb E]. rewrite E. eauto.
  - unfold res_add in *. rewrite <- ER. destruct (res_get (j_slot j) (sr_res a)); [discriminate|eauto].
  - unfold res_add in *. rewrite <- ER. destruct (res_get (j_slot j) (sr_res a)); [discriminate|eauto].
Qed.

Theorem join_again_succeeds : forall s s2 j s1 rp,
  grp_eqv s s2 -> (fst (j_gid j) = GTcp -> j_port j <> 0) ->
  grp_join s j = Some (s1, inl rp) -> exists s3 rp', grp_join s2 j = Some (s3, inl rp').
Proof.
  intros s s2 j s1 rp [ER [ET [[R1 [R2 [R3 R4]]] LV]]] NP H.
  destruct (live_group s (j_gid j)) as [g|] eqn:LG.
  - assert (LG2 : live_group s2 (j_gid j) = Some g) by (rewrite LV; assumption).
    apply (grp_join_live s2 j g LG2). apply (grp_join_live s j g LG). eauto.
  - assert (LG2 : live_group s2 (j_gid j) = None) by (rewrite LV; assumption).
    destruct (grp_join_not_live s j LG) as [a [A1 [A2 [A3 A4]]]].
    destruct (grp_join_not_live s2 j LG2) as [b [B1 [B2 [B3 B4]]]].
    rewrite A4 in H. rewrite B4. apply (first_branch_same a b j s1 rp); try assumption; try congruence; try (rewrite A2, B2; assumption).
Qed.

(* register in a group, stop, register again: the three statements chained *)
Theorem grouped_rejoin_after_leave : forall A s j s1 rp,
  PInv A (sr_tcp s) -> ~ In 0 A -> slot_ok j -> (fst (j_gid j) = GTcp -> j_port j <> 0) ->
  (forall g, live_group s (j_gid j) = Some g -> str_mem (j_name j) (g_mem g) = false) ->
  grp_join s j = Some (s1, inl rp) ->
  exists s3 rp', grp_join (grp_leave s1 (j_gid j) (j_name j)) j = Some (s3, inl rp').
Proof.
  intros A s j s1 rp HI H0 SK NP NM H.
  eapply join_again_succeeds; [|exact NP|exact H]. eapply join_then_leave_restores; eauto.
Qed.

(* a refused join, then any join that would have succeeded before still succeeds *)
Theorem join_after_refused_join : forall A s j s' e j' s1 rp,
  PInv A (sr_tcp s) -> ~ In 0 A -> grp_join s j = Some (s', inr e) ->
  (fst (j_gid j') = GTcp -> j_port j' <> 0) ->
  grp_join s j' = Some (s1, inl rp) -> exists s3 rp', grp_join s' j' = Some (s3, inl rp').
Proof.
  intros A s j s' e j' s1 rp HI H0 H NP H'.
  destruct (refused_join_changes_nothing A s j s' e HI H0 H) as [ER [ET [_ [RS [LV _]]]]].
  eapply join_again_succeeds; [|exact NP|exact H']. unfold grp_eqv. csplit; auto.
Qed.

(* ---------- the partition invariant of both port managers holds on EVERY history, groups included ---------- *)
Definition PI2 (A : list Z) (s : sr) : Prop := PInv A (sr_tcp s) /\ PInv A (sr_udp s).

Lemma pi2_close_release : forall A proto p s, PI2 A s -> PI2 A (close_release proto p s).
Proof.
  intros A proto p s [Pt Pu]. unfold PI2, close_release, res_rm, set_pm, get_pm.
  destruct (proto =? 0); unsr; split; auto; apply pinv_release; assumption.
Qed.

Lemma pi2_grp_leave : forall A s id n, PI2 A s -> PI2 A (grp_leave s id n).
Proof.
  intros A s id n H. unfold grp_leave. destruct (grp_get id (sr_grp s)) as [g|]; [|assumption].
  destruct (str_rem1 n (g_mem g)); [|exact H].
  destruct (g_slot g); unfold PI2 in *; unsr; try assumption.
  apply (pi2_close_release A proto port s H).
Qed.

Lemma pi2_acquire_listen : forall A proto s n port ch lok o s1 r, (proto = 0 \/ proto = 1) -> ~ In 0 A ->
  PI2 A s -> acquire_listen proto s n port ch lok o = Some (s1, r) -> PI2 A s1.
Proof.
  intros A proto s n port ch lok o s1 r Hp H0 [Pt Pu] H.
  assert (HI : PInv A (get_pm proto s)) by (destruct Hp as [-> | ->]; unfold get_pm; cbn; assumption).
  destruct (acquire_listen_spec A proto s _ _ _ _ _ _ _ Hp HI H0 H) as [_ [P1 [P2 _]]].
  destruct Hp as [-> | ->]; unfold get_pm in *; cbn in P1, P2; split; auto; rewrite P2; assumption.
Qed.

Lemma pi2_grp_join : forall A s j s1 r, ~ In 0 A -> PI2 A s -> grp_join s j = Some (s1, r) -> PI2 A s1.
Proof.
  intros A s j s1 r H0 HP H. destruct r as [rp|e].
  - destruct HP as [Pt Pu]. destruct (grp_join_ok_spec A s j s1 rp Pt H0 H) as [k g1 _ _ _ _ _ _ KD [R1 _] _|g _ _ ET _ [R1 _] _].
    + split; [|rewrite R1; assumption]. destruct (fst (j_gid j)).
      * destruct KD as [_ [E [I _]]]. rewrite E. apply pinv_take; [assumption|]. apply (pinv_free_allowed A (sr_tcp s)); assumption.
      * destruct KD as [_ E]. rewrite E. assumption.
      * destruct KD as [_ E]. rewrite E. assumption.
    + split; [rewrite ET|rewrite R1]; assumption.
  - destruct HP as [Pt Pu]. destruct (refused_join_changes_nothing A s j s1 e Pt H0 H) as [_ [_ [P [[R1 _] _]]]].
    split; [assumption|rewrite R1; assumption].
Qed.

Lemma pi2_same : forall A a b, sr_tcp a = sr_tcp b -> sr_udp a = sr_udp b -> PI2 A b -> PI2 A a.
Proof. intros A a b E1 E2 [P1 P2]. split; [rewrite E1|rewrite E2]; assumption. Qed.

Lemma pi2_route_release : forall A t g n k s, PI2 A s -> PI2 A (route_release t g n k s).
Proof.
  intros A t g n k s H. unfold route_release. destruct (String.eqb g ""); [|apply pi2_grp_leave; assumption].
  apply (pi2_same A _ s); auto.
Qed.

Lemma pi2_fold_release : forall A t g n l s, PI2 A s -> PI2 A (fold_left (fun acc k => route_release t g n k acc) l s).
Proof. induction l as [|k l IH]; intros s H; simpl; [assumption|]. apply IH. apply pi2_route_release. assumption. Qed.

Lemma pi2_routes_run : forall A t q ks done s s1 r, ~ In 0 A -> PI2 A s -> routes_run t q ks done s = (s1, r) -> PI2 A s1.
Proof.
  intros A t q ks. induction ks as [|rk ks IH]; intros done s s1 r H0 HP H.
  - simpl in H. injection H as <- _. assumption.
  - cbn [routes_run] in H.
    set (k := SRoute (rkind_of t) rk) in *.
    destruct (String.eqb (q_group q) "").
    + unfold res_add in H. destruct (res_get k (sr_res s)).
      * injection H as <- _. apply pi2_fold_release. assumption.
      * eapply IH; [assumption| |exact H]. apply (pi2_same A _ s); auto.
    + match type of H with context [grp_join s ?jj] => set (j := jj) in * end.
      destruct (grp_join s j) as [[s' [rp|e]]|] eqn:GJ.
      * eapply IH; [assumption| |exact H]. eapply pi2_grp_join; eauto.
      * injection H as <- _. apply pi2_fold_release. eapply pi2_grp_join; eauto.
      * injection H as <- _. apply pi2_fold_release. assumption.
Qed.

Lemma pi2_px_run : forall A s q s1 r, ~ In 0 A -> PI2 A s -> px_run s q = Some (s1, r) -> PI2 A s1.
Proof.
  intros A s q s1 r H0 HP H. unfold px_run in H. destruct (q_type q).
  - destruct (String.eqb (q_group q) "").
    + destruct (acquire_listen 0 s _ _ _ _ _) as [[s' [rp|e]]|] eqn:AL; try discriminate; injection H as <- _;
        eapply (pi2_acquire_listen A 0); eauto.
    + match type of H with context [grp_join s ?jj] => set (j := jj) in * end.
      destruct (grp_join s j) as [[s' [rp|e]]|] eqn:GJ; try discriminate; injection H as <- _; eapply pi2_grp_join; eauto.
  - destruct (acquire_listen 1 s _ _ _ _ _) as [[s' [rp|e]]|] eqn:AL; try discriminate; injection H as <- _;
      eapply (pi2_acquire_listen A 1); eauto.
  - destruct (routes_run THttp q (http_rkeys q) [] s) as [s' [d|e]] eqn:RR; injection H as <- _; eapply pi2_routes_run; eauto.
  - match type of H with context [routes_run THttps ?q' _ _ _] => set (qq := q') in * end.
    destruct (routes_run THttps qq (https_rkeys q) [] s) as [s' [d|e]] eqn:RR; injection H as <- _; eapply pi2_routes_run; eauto.
  - destruct (routes_run TTcpmux q (mux_rkeys q) [] s) as [s' [d|e]] eqn:RR; injection H as <- _; eapply pi2_routes_run; eauto.
  - unfold res_add in H. destruct (res_get _ _); injection H as <- _; [assumption|apply (pi2_same A _ s); auto].
  - unfold res_add in H. destruct (res_get _ _); injection H as <- _; [assumption|apply (pi2_same A _ s); auto].
  - unfold res_add in H. destruct (res_get _ _); injection H as <- _; [assumption|apply (pi2_same A _ s); auto].
Qed.

Lemma pi2_px_close : forall A s o, PI2 A s -> PI2 A (px_close s o).
Proof.
  intros A s o H. unfold px_close. destruct (po_type o).
  - destruct (String.eqb (po_group o) ""); [apply pi2_close_release|apply pi2_grp_leave]; assumption.
  - apply pi2_close_release; assumption.
  - apply pi2_fold_release; assumption.
  - apply pi2_fold_release; assumption.
  - apply pi2_fold_release; assumption.
  - apply (pi2_same A _ s); auto.
  - apply (pi2_same A _ s); auto.
  - apply (pi2_same A _ s); auto.
Qed.

Lemma pi2_close_all : forall A l s, PI2 A s -> PI2 A (close_all s l).
Proof.
  induction l as [|[n o] t IH]; intros s H; simpl; [assumption|]. apply IH.
  apply (pi2_same A _ (px_close s o)); auto. apply pi2_px_close. assumption.
Qed.

Lemma pi2_step : forall A maxp maxpool s o s' out, ~ In 0 A -> PI2 A s -> sr_step maxp maxpool s o = Some (s', out) -> PI2 A s'.
Proof.
  intros A maxp maxpool s o s' out H0 HP H. destruct o as [c pool|c q|c n|c why|c|proto port|proto port]; cbn [sr_step] in H.
  - destruct (ss_get c (sr_sess s)); [discriminate|]. injection H as <- _. apply (pi2_same A _ s); auto.
  - destruct (y_register maxp s c q) as [[s1 r]|] eqn:R; [|discriminate]. injection H as <- _.
    unfold y_register in R. destruct (ss_get c (sr_sess s)) as [ct|]; [|discriminate].
    destruct ((0 <? maxp) && _); [injection R as <- _; assumption|].
    destruct (nm_get (q_name q) (sr_names s)); [injection R as <- _; apply (pi2_same A _ s); auto|].
    destruct (px_run s q) as [[s2 [o|e]]|] eqn:PR; [| |discriminate].
    + pose proof (pi2_px_run A s q s2 _ H0 HP PR) as P2.
      destruct (q_addok q); injection R as <- _.
      * apply (pi2_same A _ s2); auto.
      * apply (pi2_same A _ (px_close s2 o)); auto. apply pi2_px_close. assumption.
    + pose proof (pi2_px_run A s q s2 _ H0 HP PR) as P2. injection R as <- _. apply (pi2_same A _ s2); auto.
  - destruct (y_close maxp s c n) as [s1|] eqn:R; [|discriminate]. injection H as <- _.
    unfold y_close in R. destruct (ss_get c (sr_sess s)) as [ct|]; [|discriminate].
    destruct (nm_get n (ss_pxys ct)) as [o|]; injection R as <-; [|assumption].
    apply (pi2_same A _ (px_close s o)); auto. apply pi2_px_close. assumption.
  - destruct (y_end s c) as [[s1 k]|] eqn:R; [|discriminate]. injection H as <- _.
    unfold y_end in R. destruct (ss_get c (sr_sess s)) as [ct|]; [|discriminate]. injection R as <- _.
    apply (pi2_same A _ (close_all s (ss_pxys ct))); auto. apply pi2_close_all. assumption.
  - destruct (ss_get c (sr_sess s)) as [ct|]; [|discriminate].
    destruct (ss_pool ct <? ss_cap ct); injection H as <- _; [apply (pi2_same A _ s); auto|assumption].
  - destruct ((1 <=? port) && sr_probe s proto port); [|discriminate]. injection H as <- _. apply (pi2_same A _ s); auto.
  - injection H as <- _. apply (pi2_same A _ s); auto.
Qed.

(* every history, grouped requests included, every oracle value *)
Theorem ports_partition_on_every_history : forall ranges maxp maxpool ops s,
  sr_run maxp maxpool ops (sr_new ranges) = Some s -> PI2 (pm_allowed ranges) s.
Proof.
  intros ranges maxp maxpool ops.
  assert (X : forall ops s0 s1, PI2 (pm_allowed ranges) s0 -> sr_run maxp maxpool ops s0 = Some s1 -> PI2 (pm_allowed ranges) s1).
  { clear. induction ops as [|o t IH]; intros s0 s1 P H; simpl in H; [injection H as <-; assumption|].
    destruct (sr_step maxp maxpool s0 o) as [[s' out]|] eqn:E; [|discriminate].
    eapply IH; [|exact H]. eapply pi2_step; eauto. apply allowed_no0. }
  intros s H. apply (X ops (sr_new ranges)); [split; apply pinv_new|assumption].
Qed.

(* ---------- the same at the level of Proxy.Run / Proxy.Close for a grouped tcp proxy ---------- *)
Definition tcp_join_of (q : req) : gjoin :=
  {| j_gid := (GTcp, q_group q); j_name := q_name q; j_key := q_gkey q; j_slot := SSock 0 0;
     j_port := q_port q; j_cred := ""; j_choice := q_choice q; j_lok := q_lok q |}.

Theorem grouped_tcp_run_close_run : forall A s q s1 o,
  PInv A (sr_tcp s) -> ~ In 0 A -> q_type q = TTcp -> q_group q <> ""%string -> q_port q <> 0 ->
  (forall g, live_group s (GTcp, q_group q) = Some g -> str_mem (q_name q) (g_mem g) = false) ->
  px_run s q = Some (s1, inl o) ->
  grp_eqv s (px_close s1 o) /\ exists s3 o', px_run (px_close s1 o) q = Some (s3, inl o').
Proof.
  intros A s q s1 o HI H0 T G NP NM H. unfold px_run in H. rewrite T in H.
  destruct (String.eqb_spec (q_group q) "") as [E|_]; [contradiction|].
  change (grp_join s _) with (grp_join s (tcp_join_of q)) in H.
  destruct (grp_join s (tcp_join_of q)) as [[s' [rp|e]]|] eqn:GJ; try discriminate. injection H as <- <-.
  assert (PC : px_close s' (mk_obj q rp [SSock 0 rp] 1) = grp_leave s' (GTcp, q_group q) (q_name q)).
  { unfold px_close, mk_obj. cbn. rewrite T. destruct (String.eqb_spec (q_group q) ""); [contradiction|reflexivity]. }
  rewrite PC.
  assert (RS : grp_eqv s (grp_leave s' (GTcp, q_group q) (q_name q))).
  { apply (join_then_leave_restores A s (tcp_join_of q) s' rp); auto. exact I. }
  split; [exact RS|].
  destruct (join_again_succeeds s _ (tcp_join_of q) s' rp RS (fun _ => NP) GJ) as [s3 [rp' GJ']].
  unfold px_run. rewrite T. destruct (String.eqb_spec (q_group q) ""); [contradiction|].
  change (grp_join ?x _) with (grp_join x (tcp_join_of q)). rewrite GJ'. eauto.
Qed.
