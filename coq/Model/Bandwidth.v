(* C01: the bandwidth limit AS CONFIGURED: string -> BandwidthQuantity -> limiter.  Model only: no proofs here.
   pkg/config/types/types.go UnmarshalString:  s = TrimSpace(s); "" -> 0 bytes; suffix MB / KB selects base
   (1048576 / 1024), otherwise error "unit not support"; f = ParseFloat(prefix); bytes = int64(f * float64(base)).
   client/proxy NewProxy and server/proxy NewProxy: a limiter rate.NewLimiter(bytes, bytes) exists iff bytes > 0 and
   bandwidthLimitMode names that side (frps re-parses the same string from the NewProxy message).
   ParseFloat is modelled for plain decimals  d+ | d+.d* | .d+  of at most 12 digits ([BwOutside] otherwise: signs,
   exponents, hex floats, inf/nan, more digits).  Both bases are powers of two, so f * float64(base) is an exact
   rescaling of the double nearest to the decimal and int64() truncates it: floor(decimal * base) for these inputs. *)
From FRP Require Export Model.Bytes.
Open Scope Z_scope.

Inductive bw_res := BwOk (bytes : Z) | BwErr | BwOutside.

Definition is_space (b : byte) : bool :=
  let n := Z_of_byte b in (n =? 32) || (n =? 9) || (n =? 10) || (n =? 13) || (n =? 11) || (n =? 12).
Fixpoint trim_front (s : bytes) : bytes :=
  match s with b :: r => if is_space b then trim_front r else s | [] => [] end.
Definition trim_space (s : bytes) : bytes := rev (trim_front (rev (trim_front s))).

Definition digit_val (b : byte) : option Z :=
  let n := Z_of_byte b in if (48 <=? n) && (n <=? 57) then Some (n - 48) else None.

(* value and number of the digits of an all-digit string *)
Fixpoint digits_val (acc : Z) (k : nat) (l : bytes) : option (Z * nat) :=
  match l with
  | [] => Some (acc, k)
  | b :: r => match digit_val b with Some d => digits_val (acc * 10 + d) (S k) r | None => None end
  end.

Fixpoint split_dot (l : bytes) : bytes * option bytes :=
  match l with
  | [] => ([], None)
  | b :: r => if Z_of_byte b =? 46 then ([], Some r)
              else let '(a, rest) := split_dot r in (b :: a, rest)
  end.

(* integer part, fraction digits as a number, number of fraction digits *)
Definition parse_decimal (l : bytes) : option (Z * Z * nat) :=
  let '(ip, fr) := split_dot l in
  match digits_val 0 0 ip, (match fr with Some f => digits_val 0 0 f | None => Some (0, O) end) with
  | Some (i, ki), Some (f, kf) =>
      if ((ki + kf)%nat =? 0)%nat then None                (* "" and "." are not numbers *)
      else if (12 <? ki + kf)%nat then None
      else Some (i, f, kf)
  | _, _ => None
  end.

Definition bw_bytes (ip fp : Z) (k : nat) (base : Z) : Z := (ip * 10 ^ Z.of_nat k + fp) * base / 10 ^ Z.of_nat k.

Definition BW_MB : Z := 1048576.
Definition BW_KB : Z := 1024.

Definition strip_suffix2 (s : bytes) : option (bytes * byte * byte) :=
  match rev s with
  | b2 :: b1 :: r => Some (rev r, b1, b2)
  | _ => None
  end.

Definition bw_parse (s0 : bytes) : bw_res :=
  let s := trim_space s0 in
  match s with
  | [] => BwOk 0
  | _ =>
      match strip_suffix2 s with
      | Some (num, u1, u2) =>
          if (Z_of_byte u2 =? 66) && ((Z_of_byte u1 =? 77) || (Z_of_byte u1 =? 75)) then
            let base := if Z_of_byte u1 =? 77 then BW_MB else BW_KB in
            match parse_decimal num with
            | Some (ip, fp, k) => BwOk (bw_bytes ip fp k base)
            | None => BwOutside
            end
          else BwErr
      | None => BwErr
      end
  end.

(* NewProxy on the side named by bandwidthLimitMode: (rate, burst) of the limiter, if any *)
Definition bw_limiter (mode_names_this_side : bool) (bytes : Z) : option (Z * Z) :=
  if (0 <? bytes) && mode_names_this_side then Some (bytes, bytes) else None.

(* reflective tie to the source: the scaling expression, the unit constants, the two limiter constructors *)
Definition bw_suffix (suf s : string) : bool :=
  let n := String.length s in let m := String.length suf in
  (m <=? n)%nat && String.eqb (substring (n - m) m s) suf.
Definition bw_prefix (p s : string) : bool := String.eqb (substring 0 (String.length p) s) p.

Definition ctor_ok (side_const : string) (x : string * string * string * string) : bool :=
  let '(_, guard, a0, a1) := x in
  (* a1 = "int(" ++ Q ++ ")" where Q is the configured quantity's byte count *)
  let q := substring 4 (String.length a1 - 5) a1 in
  bw_prefix "int(" a1 && bw_suffix ".Transport.BandwidthLimit.Bytes()" q &&
  String.eqb a0 ("rate.Limit(float64(" ++ q ++ "))") &&
  bw_prefix (q ++ " > 0 && ") guard && bw_suffix (".Transport.BandwidthLimitMode == types." ++ side_const) guard.

Definition bw_table_ok (expr : string) (units : list (string * Z)) (ctors : list (string * string * string * string)) : bool :=
  String.eqb expr "int64($multi:f * float64($multi:base))" &&
  match units with
  | [(m, mv); (k, kv)] => String.eqb m "MB" && (mv =? BW_MB) && String.eqb k "KB" && (kv =? BW_KB)
  | _ => false
  end &&
  match ctors with
  | [c; s] => String.eqb (fst (fst (fst c))) "client/proxy/proxy.go" && ctor_ok "BandwidthLimitModeClient" c &&
              String.eqb (fst (fst (fst s))) "server/proxy/proxy.go" && ctor_ok "BandwidthLimitModeServer" s
  | _ => false
  end.
