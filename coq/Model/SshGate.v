(* C04 — the ssh tunnel gateway as a way to obtain a session: admission decision of pkg/ssh/gateway.go
   (NewGateway: NoClientAuth, PublicKeyCallback) + pkg/ssh/server.go (TunnelServer.Run: ClientSpec of the virtual
   client), composed with the connection handler of Model/Auth.v through the internal listener.
   Model only: no proofs here.  Names carry the tag sg_.

   golang.org/x/crypto/ssh's server-side user authentication is third-party code; what is modelled of it:
   method "none" succeeds iff ServerConfig.NoClientAuth (Permissions stay nil); method "publickey" succeeds iff the
   client proves possession of the key AND PublicKeyCallback returns nil error (its Permissions are kept); no other
   method has a callback here.  The client's attempts are tried in order until one succeeds (the MaxAuthTries bound is
   not modelled: the model admits at least what the library admits). *)
From FRP Require Export Model.Auth.
Open Scope Z_scope.

(* sshTunnelGateway.authorizedKeysFile: not configured | configured but unreadable | entries (key blob, user) *)
Inductive sg_keys := SgNoFile | SgUnreadable | SgFile (entries : list (bytes * bytes)).

Inductive sg_attempt :=
| SgNone
| SgPublicKey (key : bytes) (possession : bool)   (* possession: the signature over the session id verifies *)
| SgOtherMethod.

(* sshConfig.NoClientAuth = cfg.AuthorizedKeysFile == "" *)
Definition sg_no_client_auth (k : sg_keys) : bool := match k with SgNoFile => true | _ => false end.

Fixpoint sg_lookup (key : bytes) (l : list (bytes * bytes)) : option bytes :=
  match l with
  | [] => None
  | (k, u) :: r => if bytes_eqb k key then Some u else sg_lookup key r
  end.

(* PublicKeyCallback: loadAuthorizedKeysFromFile(cfg.AuthorizedKeysFile) (error -> "internal error"; the empty path
   cannot be read), then authorizedKeysMap[string(key.Marshal())] (absent -> "unknown public key"), else
   Permissions{Extensions{"user": user}} *)
Definition sg_callback (k : sg_keys) (key : bytes) : option bytes :=
  match k with
  | SgFile l => sg_lookup key l
  | SgNoFile | SgUnreadable => None
  end.

(* result of the ssh user authentication: None = handshake refused; Some None = authenticated, Permissions nil;
   Some (Some user) = authenticated by PublicKeyCallback *)
Fixpoint sg_auth (k : sg_keys) (attempts : list sg_attempt) : option (option bytes) :=
  match attempts with
  | [] => None
  | SgNone :: r => if sg_no_client_auth k then Some None else sg_auth k r
  | SgPublicKey key poss :: r =>
      match sg_callback k key with
      | Some u => if poss then Some (Some u) else sg_auth k r
      | None => sg_auth k r
      end
  | SgOtherMethod :: r => sg_auth k r
  end.

(* TunnelServer.Run: `AlwaysAuthPass: !s.sc.NoClientAuth` — a property of the gateway's configuration,
   not of the individual connection *)
Definition sg_always_pass (k : sg_keys) : bool := negb (sg_no_client_auth k).

Section SshGate.
  Variable H : bytes -> Z -> bytes.
  Variable oidc : bytes -> Z -> option bytes.
  Variable c : au_cfg.

  (* the Login the virtual client sends: key from the --token of the ssh command line (token auth setter),
     user from the authorised key's entry if any, ClientSpec as set by TunnelServer.Run *)
  Definition sg_login (k : sg_keys) (perm : option bytes) (cmd_token cmd_user : bytes) (ts pool : Z) : au_login :=
    {| al_rid := []; al_key := au_key H cmd_token ts; al_ts := ts;
       al_user := match perm with Some ((_ :: _) as u) => u | _ => cmd_user end;
       al_pool := pool;
       al_spec := {| asp_type := hx "7373682d74756e6e656c" (* "ssh-tunnel" *); asp_always_pass := sg_always_pass k |} |}.

  Inductive sg_out := SgRefusedAtSsh | SgForwarded (o : au_out).

  (* one ssh connection to the gateway that gets as far as starting its virtual client *)
  (* lplug: outcome of the Login plugin chain for this login — handleConnection consults it for logins arriving on the
     internal listener exactly as for network logins, always-pass flag or not *)
  Definition sg_step (k : sg_keys) (s : au_state) (conn now : Z) (gen : bytes) (attempts : list sg_attempt)
    (cmd_token cmd_user : bytes) (ts pool : Z) (lplug : au_lplug) : au_state * sg_out :=
    match sg_auth k attempts with
    | None => (s, SgRefusedAtSsh)
    | Some perm =>
        let '(s', o) := au_step H oidc c s (AuEFirst true conn now gen (AuFLogin (sg_login k perm cmd_token cmd_user ts pool) lplug)) in
        (s', SgForwarded o)
    end.

  (* "the key is authorised by the configured file": a publickey attempt with proof of possession whose key the file lists *)
  Definition sg_key_authorised (k : sg_keys) (attempts : list sg_attempt) : Prop :=
    exists l key u, k = SgFile l /\ In (SgPublicKey key true) attempts /\ sg_lookup key l = Some u.
End SshGate.
