package main

// Legacy ini, COMMON sections: every key of frpc.ini / frps.ini [common] (pinned table legacy_table.go) is
// written with two distinct non-default values in an ini file and the same setting in a TOML file; both
// go through the real loaders (config.LoadClientConfig / LoadServerConfig); the v1 structures must agree
// on that setting, the setting must have the value written, and every OTHER setting must be what the ini
// file without the key gives (documented dependent defaults apart).

import (
	"fmt"
	"os"
	"path/filepath"
	"reflect"
	"strconv"
	"strings"

	"github.com/fatedier/frp/pkg/config"
	"github.com/fatedier/frp/pkg/config/types"
	v1 "github.com/fatedier/frp/pkg/config/v1"
)

// follow a dotted configuration-file key through the json tags of the real structs
func fieldByKey(v reflect.Value, key []string) (reflect.Value, bool) {
	if len(key) == 0 {
		return v, true
	}
	for v.Kind() == reflect.Ptr {
		if v.IsNil() {
			return reflect.Value{}, false
		}
		v = v.Elem()
	}
	if v.Kind() != reflect.Struct {
		return reflect.Value{}, false
	}
	t := v.Type()
	for i := 0; i < t.NumField(); i++ {
		f := t.Field(i)
		name := strings.Split(f.Tag.Get("json"), ",")[0]
		if f.Anonymous && name == "" {
			if r, ok := fieldByKey(v.Field(i), key); ok {
				return r, true
			}
			continue
		}
		if name == key[0] {
			return fieldByKey(v.Field(i), key[1:])
		}
	}
	return reflect.Value{}, false
}

// string values per ini key where an arbitrary string would be odd (still not validated by the loaders)
var legacyStringValues = map[string][2]string{
	"protocol": {"kcp", "quic"}, "log_level": {"debug", "warn"}, "authentication_method": {"oidc", "token"},
	"server_addr": {"1.2.3.4", "frps.example.com"}, "bind_addr": {"127.0.0.1", "10.1.2.3"}, "proxy_bind_addr": {"127.0.0.1", "10.1.2.3"},
	"dashboard_addr": {"127.0.0.2", "10.1.2.4"}, "admin_addr": {"127.0.0.2", "10.1.2.4"}, "log_file": {"/tmp/c18-a.log", "/tmp/c18-b.log"},
	"http_proxy": {"http://u:p@proxy:8080", "socks5://1.2.3.4:1080"}, "subdomain_host": {"frps.com", "example.org"},
}

// settings whose default depends on another setting (documented): not part of "every other setting unaffected"
var legacyDependents = map[string][]string{
	"client/tcp_mux":             {"transport.heartbeatInterval", "transport.heartbeatTimeout"},
	"server/tcp_mux":             {"transport.heartbeatTimeout"},
	"server/tls_trusted_ca_file": {"transport.tls.force"},
	"server/bind_addr":           {"proxyBindAddr"},
	"client/start":               {},
}

// keys the driver does not write (the reflective table still covers them)
var legacySkipped = map[string]string{
	"client/includes": "loads further files from the file system",
}

// guarded settings that are honoured only together with their guard: none (server/pprof_enable was one until
// the repair e9a3b1f); a guarded setting that is ignored without its guard is an alarm
var legacyNeedsGuard = map[string]bool{}

type legacyLoader func(path string) (any, error)

func loadClientCommon(path string) (any, error) {
	c, _, _, _, err := config.LoadClientConfig(path, true)
	return c, err
}
func loadServerCommon(path string) (any, error) {
	c, _, err := config.LoadServerConfig(path, true)
	return c, err
}

func tomlAssign(key string, val string) string {
	parts := strings.Split(key, ".")
	return strings.Join(parts, ".") + " = " + val + "\n"
}

func (d *drv) runLegacyCommon(g *gen, dir string) map[string]any {
	st := map[string]int{}
	needGuard := map[string]bool{}
	load := map[string]legacyLoader{"client": loadClientCommon, "server": loadServerCommon}
	write := func(name, text string) string {
		p := filepath.Join(dir, name)
		_ = os.WriteFile(p, []byte(text), 0o644)
		return p
	}
	iniHead := map[string]string{"client": "[common]\n", "server": "[common]\n"}
	tomlHead := map[string]string{"client": "# c18\n", "server": "# c18\n"}

	for _, e := range legacyKeys {
		id := e.section + "/" + e.ini
		if _, skip := legacySkipped[id]; skip {
			st["skipped"]++
			continue
		}
		if e.form == "elem" {
			continue // the plugin entry is written once, below
		}
		// kind of the target
		var proto any = &v1.ClientCommonConfig{}
		if e.section == "server" {
			proto = &v1.ServerConfig{}
		}
		keyPath := strings.Split(e.key, ".")
		var kind reflect.Kind
		var ftype reflect.Type
		{
			// allocate pointers on the way so that the type can be read
			v := reflect.ValueOf(proto).Elem()
			if e.guard == "dashboard_tls_mode" || e.form == "newif" {
				proto.(*v1.ServerConfig).WebServer.TLS = &v1.TLSConfig{}
			}
			f, ok := fieldByKey(v, keyPath)
			if !ok {
				d.fail("legacy-key-unresolved:"+id, "the pinned table names a configuration-file key the v1 struct does not have: "+e.key, id)
				continue
			}
			kind, ftype = f.Kind(), f.Type()
		}
		type pair struct{ ini, toml string }
		var vals []pair
		iniKey := e.ini
		switch {
		case e.form == "portsparse":
			iniKey = "allow_ports"
			vals = []pair{
				{"2000-3000,3001,4000-5000", "allowPorts = [{start = 2000, end = 3000}, {single = 3001}, {start = 4000, end = 5000}]\n"},
				{"20000-20010, 20020", "allowPorts = [{start = 20000, end = 20010}, {single = 20020}]\n"},
			}
		case strings.HasPrefix(e.form, "appendif:"):
			scope := map[string]string{"appendif:AuthScopeHeartBeats": "HeartBeats", "appendif:AuthScopeNewWorkConns": "NewWorkConns"}[e.form]
			vals = []pair{{"true", "auth.additionalScopes = [\"" + scope + "\"]\n"}, {"false", ""}}
		case e.form == "newif":
			vals = []pair{{"true", "[webServer.tls]\n"}, {"false", ""}}
		case e.ini == "-:Metas":
			iniKey = "meta_k1"
			vals = []pair{{"v-one", "metadatas.k1 = \"v-one\"\n"}, {"v-two", "metadatas.k1 = \"v-two\"\n"}}
		case e.ini == "-:OidcAdditionalEndpointParams":
			iniKey = "oidc_additional_aud2"
			vals = []pair{{"v-one", "auth.oidc.additionalEndpointParams.aud2 = \"v-one\"\n"}, {"v-two", "auth.oidc.additionalEndpointParams.aud2 = \"v-two\"\n"}}
		case kind == reflect.String:
			sv, ok := legacyStringValues[e.ini]
			if !ok {
				sv = [2]string{"v-one", "v-two"}
			}
			vals = []pair{{sv[0], tomlAssign(e.key, strconv.Quote(sv[0]))}, {sv[1], tomlAssign(e.key, strconv.Quote(sv[1]))}}
		case kind == reflect.Int || kind == reflect.Int64:
			vals = []pair{{"11", tomlAssign(e.key, "11")}, {"2200", tomlAssign(e.key, "2200")}}
		case kind == reflect.Bool || (kind == reflect.Ptr && ftype.Elem().Kind() == reflect.Bool):
			vals = []pair{{"true", tomlAssign(e.key, "true")}, {"false", tomlAssign(e.key, "false")}}
		case kind == reflect.Slice && ftype.Elem().Kind() == reflect.String:
			vals = []pair{{"a,b", tomlAssign(e.key, `["a", "b"]`)}, {"c", tomlAssign(e.key, `["c"]`)}}
		default:
			d.fail("legacy-key-kind:"+id, "the driver has no values for a setting of this kind: "+ftype.String(), id)
			continue
		}
		guardIni, guardToml := "", ""
		if e.guard != "" && e.form != "newif" && !strings.HasPrefix(e.form, "appendif:") {
			guardIni = e.guard + " = true\n"
			guardToml = "[webServer.tls]\n"
			if strings.HasPrefix(e.key, "webServer.tls.") {
				guardToml = ""
			}
		}
		base, err := load[e.section](write("base.ini", iniHead[e.section]+guardIni))
		if err != nil {
			d.fail("legacy-load:"+id, "baseline ini rejected: "+err.Error(), iniHead[e.section]+guardIni)
			continue
		}
		var seen []string
		for _, pv := range vals {
			iniText := iniHead[e.section] + guardIni + iniKey + " = " + pv.ini + "\n"
			// TOML: dotted top-level keys first, tables last
			tomlText := tomlHead[e.section]
			if strings.HasPrefix(pv.toml, "[") {
				tomlText += pv.toml
			} else {
				tomlText += pv.toml + guardToml
			}
			a, err1 := load[e.section](write("k.ini", iniText))
			b, err2 := load[e.section](write("k.toml", tomlText))
			if err1 != nil || err2 != nil {
				d.fail("legacy-load:"+id, fmt.Sprintf("ini / toml form rejected: %v / %v", err1, err2), iniText+"--- toml ---\n"+tomlText)
				continue
			}
			st["loads"]++
			fa, okA := fieldByKey(reflect.ValueOf(a), keyPath)
			fb, okB := fieldByKey(reflect.ValueOf(b), keyPath)
			da, db := "<absent>", "<absent>"
			if okA {
				da = coqOf(addr(fa))
			}
			if okB {
				db = coqOf(addr(fb))
			}
			seen = append(seen, da)
			if da != db {
				d.fail("legacy-ini-vs-toml:"+id,
					"the legacy ini key "+iniKey+" and the configuration-file key "+e.key+" given the same value do not yield the same setting",
					fmt.Sprintf("ini:\n%s-> %s = %s\ntoml:\n%s-> %s = %s", iniText, e.key, da, tomlText, e.key, db))
			}
			// every other setting: as in the ini file without the key
			blank := func(x any) string {
				cp := reflect.New(reflect.TypeOf(x).Elem())
				cp.Elem().Set(reflect.ValueOf(x).Elem())
				for _, k := range append([]string{e.key}, legacyDependents[id]...) {
					kp := strings.Split(k, ".")
					if e.form == "newif" || e.guard == "dashboard_tls_mode" {
						kp = []string{"webServer", "tls"}
						if k != e.key {
							kp = strings.Split(k, ".")
						}
					}
					if f, ok := fieldByKey(cp.Elem(), kp); ok && f.CanSet() {
						f.Set(reflect.Zero(f.Type()))
					}
				}
				return coqOfAny(cp.Interface())
			}
			if x, y := blank(a), blank(base); x != y && e.guard != "dashboard_tls_mode" && e.form != "newif" {
				d.fail("legacy-key-affects-other-setting:"+id, "giving the legacy ini key "+iniKey+" changes a setting other than "+e.key+" ("+firstLineDiff(y, x)+")", iniText)
			}
		}
		if len(seen) == 2 && seen[0] == seen[1] {
			d.fail("legacy-key-ignored:"+id, "two different values of the legacy ini key "+iniKey+" yield the same "+e.key+" = "+seen[0], id)
		}
		st["keys_"+e.section]++
		// a guarded setting given WITHOUT its guard
		if guardIni != "" && (kind == reflect.Bool) {
			a, err1 := load[e.section](write("k.ini", iniHead[e.section]+iniKey+" = true\n"))
			b, err2 := load[e.section](write("k.toml", tomlHead[e.section]+tomlAssign(e.key, "true")))
			if err1 == nil && err2 == nil {
				fa, _ := fieldByKey(reflect.ValueOf(a), keyPath)
				fb, _ := fieldByKey(reflect.ValueOf(b), keyPath)
				if coqOf(addr(fa)) != coqOf(addr(fb)) {
					needGuard[id] = true
					if !legacyNeedsGuard[id] {
						d.fail("legacy-key-needs-guard:"+id, "the legacy ini key "+iniKey+" is only honoured together with "+e.guard, id)
					}
				}
			}
		}
	}
	// one plugin section <-> one httpPlugins entry
	{
		iniText := iniHead["server"] + "\n[plugin.user-manager]\naddr = 127.0.0.1:9000\npath = /handler\nops = Login,NewProxy\ntlsVerify = true\n"
		tomlText := tomlHead["server"] + "\n[[httpPlugins]]\nname = \"user-manager\"\naddr = \"127.0.0.1:9000\"\npath = \"/handler\"\nops = [\"Login\", \"NewProxy\"]\ntlsVerify = true\n"
		a, err1 := loadServerCommon(write("k.ini", iniText))
		b, err2 := loadServerCommon(write("k.toml", tomlText))
		if err1 != nil || err2 != nil {
			d.fail("legacy-load:server/plugin", fmt.Sprintf("ini / toml form rejected: %v / %v", err1, err2), iniText)
		} else {
			pa, pb := a.(*v1.ServerConfig).HTTPPlugins, b.(*v1.ServerConfig).HTTPPlugins
			if coqOfAny(&pa) != coqOfAny(&pb) || len(pa) != 1 {
				d.fail("legacy-ini-vs-toml:server/plugin", "a [plugin.x] section and the same [[httpPlugins]] entry do not yield the same setting",
					iniText+"-> "+coqOfAny(&pa)+"\n"+tomlText+"-> "+coqOfAny(&pb))
			}
			st["keys_server"]++
		}
	}
	_ = types.MB
	_ = g
	out := map[string]any{"guarded_keys_ignored_without_guard": needGuard}
	for k, v := range st {
		out[k] = v
	}
	return out
}
