package main

// A scripted server plugin (frp's HTTP plugin protocol) registered for the Login and NewWorkConn operations: per
// request it answers "unchange", rewrites fields of the content, or rejects.  It also records the content it was asked
// about (the Login a virtual client of the ssh gateway really sent: key, timestamp, pool count).

import (
	"bytes"
	"encoding/json"
	"net"
	"net/http"
	"sync"
)

type plugBehaviour struct {
	kind string // same | rewrite | reject
	key  string // NewWorkConn / Login: new privilege_key (rewrite; setKey)
	ts   int64
	// Login only
	setKey  bool
	setUser bool
	user    string
}

type seenLogin struct {
	Key   string
	TS    int64
	Pool  int64
	User  string
	RunID string
	Pass  bool
	Type  string
}

type plugStub struct {
	addr      string
	ln        net.Listener
	srv       *http.Server
	mu        sync.Mutex
	next      plugBehaviour // NewWorkConn
	nextLogin plugBehaviour
	calls     int
	logins    []seenLogin
}

func (p *plugStub) set(b plugBehaviour) {
	p.mu.Lock()
	p.next = b
	p.mu.Unlock()
}

func (p *plugStub) setLogin(b plugBehaviour) {
	p.mu.Lock()
	p.nextLogin = b
	p.mu.Unlock()
}

func (p *plugStub) lastLogin() (seenLogin, bool) {
	p.mu.Lock()
	defer p.mu.Unlock()
	if len(p.logins) == 0 {
		return seenLogin{}, false
	}
	return p.logins[len(p.logins)-1], true
}

func (p *plugStub) loginCalls() int {
	p.mu.Lock()
	defer p.mu.Unlock()
	return len(p.logins)
}

func (p *plugStub) close() { p.srv.Close() }

func num(v any) int64 {
	if n, ok := v.(json.Number); ok {
		i, _ := n.Int64()
		return i
	}
	return 0
}

func str(v any) string {
	s, _ := v.(string)
	return s
}

func newPlugStub(addr string) (*plugStub, error) {
	ln, err := net.Listen("tcp", net.JoinHostPort(addr, "0"))
	if err != nil {
		return nil, err
	}
	p := &plugStub{ln: ln, addr: ln.Addr().String(), next: plugBehaviour{kind: "same"}, nextLogin: plugBehaviour{kind: "same"}}
	mux := http.NewServeMux()
	mux.HandleFunc("/handler", func(rw http.ResponseWriter, r *http.Request) {
		var buf bytes.Buffer
		_, _ = buf.ReadFrom(r.Body)
		dec := json.NewDecoder(bytes.NewReader(buf.Bytes()))
		dec.UseNumber()
		var req struct {
			Op      string         `json:"op"`
			Content map[string]any `json:"content"`
		}
		_ = dec.Decode(&req)
		if req.Content == nil {
			req.Content = map[string]any{}
		}
		p.mu.Lock()
		b := p.next
		if req.Op == "Login" {
			b = p.nextLogin
			sl := seenLogin{Key: str(req.Content["privilege_key"]), TS: num(req.Content["timestamp"]), Pool: num(req.Content["pool_count"]),
				User: str(req.Content["user"]), RunID: str(req.Content["run_id"])}
			if cs, ok := req.Content["client_spec"].(map[string]any); ok {
				sl.Pass, _ = cs["always_auth_pass"].(bool)
				sl.Type = str(cs["type"])
			}
			p.logins = append(p.logins, sl)
		}
		p.calls++
		p.mu.Unlock()
		rw.Header().Set("Content-Type", "application/json")
		switch b.kind {
		case "reject":
			_ = json.NewEncoder(rw).Encode(map[string]any{"reject": true, "reject_reason": "revoked by the c04 plugin stub"})
		case "rewrite":
			c := req.Content
			if req.Op == "Login" {
				if b.setKey {
					c["privilege_key"], c["timestamp"] = b.key, b.ts
				}
				if b.setUser {
					c["user"] = b.user
				}
			} else {
				if _, ok := c["user"]; !ok {
					c["user"] = map[string]any{}
				}
				c["privilege_key"], c["timestamp"] = b.key, b.ts
			}
			_ = json.NewEncoder(rw).Encode(map[string]any{"reject": false, "unchange": false, "content": c})
		default:
			_ = json.NewEncoder(rw).Encode(map[string]any{"reject": false, "unchange": true})
		}
	})
	p.srv = &http.Server{Handler: mux}
	go p.srv.Serve(ln)
	return p, nil
}
