(* C01: streams as chunk lists, layers as pairs of transformers.  Model only: no proofs here.

   A stream is a [list (list byte)]: the sequence of Write calls (resp. of arriving segments).
   A layer is what one wrapper does to the WHOLE history of one direction:
     lw  the sequence of Write calls it issues on the layer below, given the sequence of Write
         calls made on it ([None] = the wrapper does not return normally);
     lr  the bytes readable above, given all bytes that have arrived from below so far.
   A stack is a list of layers in WRAPPING order: the head is next to the wire, the last element
   is the outermost wrapper (the value io.Copy reads from / writes to). *)
From FRP Require Export Model.Bytes.

Definition chunks := list bytes.

Definition st_flat (c : chunks) : bytes := List.concat c.

Definition st_prefix (p s : bytes) : Prop := exists r, s = p ++ r.

Record st_layer := { lw : chunks -> option chunks; lr : bytes -> bytes }.

(* writes enter at the top (the last layer) and reach the wire through the head *)
Fixpoint st_write (st : list st_layer) (cs : chunks) : option chunks :=
  match st with
  | [] => Some cs
  | l :: up => match st_write up cs with Some x => lw l x | None => None end
  end.

(* arriving bytes enter at the head and are read at the top *)
Fixpoint st_read (st : list st_layer) (w : bytes) : bytes :=
  match st with
  | [] => w
  | l :: up => st_read up (lr l w)
  end.

(* an abstract streaming codec (cipher with a fixed key, compressor): the lower-level writes it
   produces for a history of writes, and the plaintext it can deliver for the wire bytes so far *)
Record codec := { c_enc : chunks -> chunks; c_dec : bytes -> bytes }.

(* the two laws the property needs, stated explicitly:
   round trip on complete delivery, and stream compatibility (decoding a prefix of the wire bytes
   yields a prefix of the plaintext: the decoder never takes back or alters what it delivered) *)
Definition codec_lawful (c : codec) : Prop :=
  (forall cs, c_dec c (st_flat (c_enc c cs)) = st_flat cs) /\
  (forall w w', st_prefix w w' -> st_prefix (c_dec c w) (c_dec c w')).

Definition codec_layer (c : codec) : st_layer :=
  {| lw := fun cs => Some (c_enc c cs); lr := c_dec c |}.

(* a concrete lawful codec, to show the hypotheses are satisfiable and to run the model:
   position-dependent XOR stream "cipher" (no header) and an identity "compressor" that emits
   one lower write per upper write *)
Fixpoint xor_stream (k : Z) (pos : Z) (s : bytes) : bytes :=
  match s with
  | [] => []
  | b :: r => byte_of_Z (Z.lxor (Z_of_byte b) ((k + pos) mod 256)) :: xor_stream k (pos + 1) r
  end.
Definition toy_cipher (k : Z) : codec :=
  {| c_enc := fun cs => [xor_stream k 0 (st_flat cs)]; c_dec := xor_stream k 0 |}.
Definition toy_comp : codec := {| c_enc := fun cs => cs; c_dec := fun w => w |}.
