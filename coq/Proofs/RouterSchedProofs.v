(* C06 — (1) the walk read from the source, when it has the modelled shape, IS the modelled walk;
   (2) concurrent Routers.Add / Del whose existence check and insertion form one lock section are
   linearizable under every schedule: the table and every answer are those of the calls executed one
   after the other in the order in which they finished. *)
From FRP Require Import Model.Router Model.RouteSpec Model.RouterSched
  Proofs.RouterProofs Proofs.RouteSpecProofs Proofs.RouteClauses.
From Coq Require Import Lia.
Open Scope Z_scope.

(* ---------- (1) source walk ---------- *)
Lemma rs_walk_g_3 {P} (s : rstate P) labels p u : rt_walk_g 3 s labels p u = rt_walk s labels p u.
Proof.
  induction labels as [|l rest IH]; [reflexivity|].
  cbn [rt_walk_g rt_walk]. destruct (Z.of_nat (length (l :: rest)) <? 3); [reflexivity|].
  destruct (rt_find_router s (rt_join (rt_star :: rest)) p u); [reflexivity|exact IH].
Qed.

Lemma rs_walk_src_std_sound {P} w : rt_walk_src_std w = true ->
  forall (s : rstate P) d p u, rt_get_vhost_g w s d p u = rt_get_vhost s d p u.
Proof.
  unfold rt_walk_src_std. intro H.
  apply andb_true_iff in H as [H _]. apply andb_true_iff in H as [H _]. apply andb_true_iff in H as [H1 H2].
  apply Z.eqb_eq in H2. intros s d p u. unfold rt_get_vhost_g, rt_get_vhost. rewrite H2.
  destruct (ws_split w); try discriminate. cbn [rt_split_by]. rewrite rs_walk_g_3. reflexivity.
Qed.

Lemma rs_sites_sound {A} (f : A -> bool) sites name w :
  forallb (fun nw : string * A => f (snd nw)) sites = true -> rt_site_lookup name sites = Some w -> f w = true.
Proof.
  induction sites as [|[n a] r IH]; simpl; [discriminate|].
  intro H. apply andb_true_iff in H as [H1 H2]. destruct (String.eqb n name).
  - intro E; inversion E; subst. exact H1.
  - apply IH; exact H2.
Qed.

(* most specific matching route, for every history and every host, for the walk of a source site *)
Theorem rs_source_walk_refines {P} sites :
  forallb (fun nw : string * rt_walk_src => rt_walk_src_std (snd nw)) sites = true ->
  forall name w, rt_site_lookup name sites = Some w ->
  forall (hist : list (rt_op P)) host path user,
    rt_get_vhost_g w (rt_run hist) host path user = rs_best_match (rt_abs (rt_run hist)) host path user.
Proof.
  intros H name w L hist host path user.
  rewrite (rs_walk_src_std_sound w (rs_sites_sound _ _ _ _ H L)). apply rq_get_vhost_refines_best_match.
Qed.

(* ---------- (2) schedules ---------- *)
Section Sched.
  Context {P : Type}.
  Notation rstate := (rstate P).
  Notation thread := (ra_thread P).
  Notation cfg := (ra_cfg P).

  Lemma rs_add_split (s : rstate) d l u p :
    rt_add s d l u p = if rt_exist s (lower d) l u then None else Some (ra_insert_raw s d l u p).
  Proof. reflexivity. Qed.

  Lemma rs_replay_app (s : rstate) l1 : forall l2,
    ra_replay s (l1 ++ l2) = match ra_replay s l1 with Some s' => ra_replay s' l2 | None => None end.
  Proof.
    revert s. induction l1 as [|e l1 IH]; intros s l2; [reflexivity|].
    cbn [app ra_replay]. destruct (ev_op e) as [d l u p|d l u].
    - destruct (rt_add s d l u p); destruct (ev_ok e); auto.
    - destruct (ev_ok e); auto.
  Qed.

  Lemma rs_sec_eqb_eq a : forall b, ra_sec_eqb a b = true -> a = b.
  Proof.
    induction a as [|x a IH]; intros [|y b]; simpl; try discriminate; [reflexivity|].
    intro H. apply andb_true_iff in H as [H1 H2]. rewrite (IH _ H2).
    destruct x, y; simpl in H1; try discriminate; reflexivity.
  Qed.

  Lemma rs_add_atomic_eq p : ra_add_atomic p = true -> p = ra_add_prog_std.
  Proof. destruct p as [|sec [|? ?]]; simpl; try discriminate. intro H. rewrite (rs_sec_eqb_eq _ _ H). reflexivity. Qed.
  Lemma rs_del_atomic_eq p : ra_del_atomic p = true -> p = ra_del_prog_std.
  Proof. destruct p as [|sec [|? ?]]; simpl; try discriminate. intro H. rewrite (rs_sec_eqb_eq _ _ H). reflexivity. Qed.

  (* a thread of the atomic programs: finished, or its single section still to run *)
  Definition rs_th_ok (t : thread) : Prop :=
    (th_todo t = [] /\ th_res t <> None) \/
    (th_res t = None /\
     match th_op t with
     | RAdd _ _ _ _ => th_todo t = ra_add_prog_std
     | RDel _ _ _ => th_todo t = ra_del_prog_std
     end).

  Lemma rs_set_nth_ok n t ths : rs_th_ok t -> Forall rs_th_ok ths -> Forall rs_th_ok (ra_set_nth n t ths).
  Proof.
    intros Ht H. revert n. induction H as [|x l Hx Hl IH]; intros [|n]; simpl; try constructor; auto.
  Qed.

  Lemma rs_nth_ok n (ths : list thread) t : Forall rs_th_ok ths -> nth_error ths n = Some t -> rs_th_ok t.
  Proof. intros H E. rewrite Forall_forall in H. apply H. eapply nth_error_In; eauto. Qed.

  Lemma rs_step_inv (s0 : rstate) (c : cfg) tid :
    Forall rs_th_ok (cf_ths c) -> ra_replay s0 (cf_log c) = Some (cf_tab c) ->
    Forall rs_th_ok (cf_ths (ra_step c tid)) /\ ra_replay s0 (cf_log (ra_step c tid)) = Some (cf_tab (ra_step c tid)).
  Proof.
    intros Hok Hrep. unfold ra_step.
    destruct (nth_error (cf_ths c) tid) as [t|] eqn:E; [|auto].
    pose proof (rs_nth_ok _ _ _ Hok E) as Ht.
    destruct (th_res t) eqn:R; [auto|].
    destruct Ht as [[_ Hn]|[_ Hp]]; [congruence|].
    assert (Hdone : forall b, rs_th_ok (mkTh (th_op t) [] (Some b))) by (intro b; left; split; [reflexivity|discriminate]).
    destruct (th_op t) as [d l u p|d l u] eqn:O; rewrite Hp; cbn [ra_add_prog_std ra_del_prog_std ra_exec].
    - destruct (rt_exist (cf_tab c) (lower d) l u) eqn:X; cbn [cf_ths cf_log cf_tab].
      + split; [apply rs_set_nth_ok; auto|]. rewrite rs_replay_app, Hrep. cbn [ra_replay ev_op ev_ok].
        rewrite rs_add_split, X. reflexivity.
      + split; [apply rs_set_nth_ok; auto|]. rewrite rs_replay_app, Hrep. cbn [ra_replay ev_op ev_ok].
        rewrite rs_add_split, X. reflexivity.
    - cbn [cf_ths cf_log cf_tab]. split; [apply rs_set_nth_ok; auto|].
      rewrite rs_replay_app, Hrep. reflexivity.
  Qed.

  Lemma rs_run_inv (s0 : rstate) sched : forall c : cfg,
    Forall rs_th_ok (cf_ths c) -> ra_replay s0 (cf_log c) = Some (cf_tab c) ->
    ra_replay s0 (cf_log (ra_run sched c)) = Some (cf_tab (ra_run sched c)).
  Proof.
    unfold ra_run. induction sched as [|tid sched IH]; intros c H1 H2; [exact H2|].
    simpl. destruct (rs_step_inv s0 c tid H1 H2) as [A B]. apply IH; assumption.
  Qed.

  (* linearizability under every schedule *)
  Theorem rs_atomic_linearizable addp delp : ra_add_atomic addp = true -> ra_del_atomic delp = true ->
    forall (s : rstate) (ops : list (rt_op P)) (sched : list nat),
      let c := ra_run sched (ra_init addp delp s ops) in
      ra_replay s (cf_log c) = Some (cf_tab c).
  Proof.
    intros Ha Hd s ops sched. apply rs_add_atomic_eq in Ha. apply rs_del_atomic_eq in Hd. subst.
    apply rs_run_inv; [|reflexivity].
    unfold ra_init. cbn [cf_ths]. apply Forall_forall. intros t Ht. apply in_map_iff in Ht as [o [<- _]].
    right. destruct o; simpl; auto.
  Qed.

  (* what a successful replay means, call by call *)
  Lemma rs_replay_wf (log : list (ra_event P)) : forall s s', rp_wf s -> ra_replay s log = Some s' -> rp_wf s'.
  Proof.
    induction log as [|e log IH]; intros s s' Hwf H; [inversion H; subst; exact Hwf|].
    cbn [ra_replay] in H. destruct (ev_op e) as [d l u p|d l u].
    - destruct (rt_add s d l u p) as [s1|] eqn:A; destruct (ev_ok e); try discriminate.
      + apply (IH s1); [apply (rp_add_ok _ _ _ _ _ _ Hwf A)|exact H].
      + apply (IH s); assumption.
    - destruct (ev_ok e); [|discriminate]. apply (IH (rt_del s d l u)); [apply rp_del_ok; exact Hwf|exact H].
  Qed.

  (* a registration is refused exactly when its triple is registered at the moment it takes effect *)
  Lemma rs_replay_refused_iff_duplicate (l1 : list (ra_event P)) e l2 s s1 s' d l u p :
    rp_wf s -> ra_replay s (l1 ++ e :: l2) = Some s' -> ra_replay s l1 = Some s1 -> ev_op e = RAdd d l u p ->
    (ev_ok e = false <-> exists r, In r (rt_abs s1) /\ rt_dom r = lower d /\ rt_loc r = l /\ rt_user r = u).
  Proof.
    intros Hwf H H1 Ho. rewrite rs_replay_app, H1 in H. cbn [ra_replay] in H. rewrite Ho in H.
    pose proof (rs_replay_wf _ _ _ Hwf H1) as Hwf1.
    pose proof (rp_add_none s1 d l u p Hwf1) as Hn.
    assert (Habs : (exists r, rp_in r s1 /\ rt_dom r = lower d /\ rt_loc r = l /\ rt_user r = u) <->
                   (exists r, In r (rt_abs s1) /\ rt_dom r = lower d /\ rt_loc r = l /\ rt_user r = u)).
    { split; intros [r [A B]]; exists r; (split; [apply (rp_in_abs s1 r Hwf1); exact A|exact B]). }
    rewrite <- Habs, <- Hn.
    destruct (rt_add s1 d l u p); destruct (ev_ok e); try discriminate; split; intro; try reflexivity; discriminate.
  Qed.
End Sched.

(* ---------- the regression witness: check and insertion in two lock sections ---------- *)
Definition rs_split_prog : ra_prog := [[RaCheck]; [RaInsert]].
Definition rs_split_ops : list (rt_op Z) :=
  [RAdd (hx "682e74657374") [] [] 1; RAdd (hx "682e74657374") [] [] 2].

(* both goroutines pass the check before either inserts: both registrations are accepted, the table
   holds the triple twice, no sequential order explains the answers, and one Del removes both *)
Theorem rs_check_then_insert_not_linearizable :
  let c := ra_run [0; 1; 0; 1]%nat (ra_init rs_split_prog ra_del_prog_std rt_empty rs_split_ops) in
  map (@ev_ok Z) (cf_log c) = [true; true] /\
  length (rt_abs (cf_tab c)) = 2%nat /\
  ra_replay rt_empty (cf_log c) = None /\
  rt_abs (rt_del (cf_tab c) (hx "682e74657374") [] []) = [].
Proof. vm_compute. repeat split. Qed.

(* ---------- Muxer.handle delivers only to the routed listener ---------- *)
Lemma rs_mx_deliver_routed {P} (same : P -> P -> bool) (s s' : rstate P) h p u x :
  mx_deliver same false s s' h p u = Some x ->
  exists r, rt_get_vhost s h p u = Some r /\ x = rt_pay r.
Proof.
  unfold mx_deliver. destruct (rt_get_vhost s h p u) as [r|]; [|discriminate].
  destruct (existsb _ (rt_abs s')); [|discriminate]. intro H; inversion H; subst. eauto.
Qed.

Theorem rs_mx_delivers_best_match {P} (same : P -> P -> bool) toks : mx_relookup toks = false ->
  forall (hist : list (rt_op P)) (s' : rstate P) h p u x,
  mx_deliver same (mx_relookup toks) (rt_run hist) s' h p u = Some x ->
  exists r, rs_best_match (rt_abs (rt_run hist)) h p u = Some r /\ x = rt_pay r.
Proof.
  intros Ht hist s' h p u x H. rewrite Ht in H. apply rs_mx_deliver_routed in H as [r [G ->]].
  exists r. split; [|reflexivity]. rewrite <- rq_get_vhost_refines_best_match. exact G.
Qed.

(* regression witness: with a second look-up a connection routed to (and checked against) one
   listener is handed to the listener of another route *)
Theorem rs_mx_relookup_hands_to_other_route :
  let s := rt_run [RAdd (hx "612e6578616d706c652e636f6d") [] [] 1; RAdd (hx "2a2e6578616d706c652e636f6d") [] [] 2] in
  let s' := rt_del s (hx "612e6578616d706c652e636f6d") [] [] in
  mx_deliver Z.eqb true s s' (hx "612e6578616d706c652e636f6d") [] [] = Some 2 /\
  mx_deliver Z.eqb false s s' (hx "612e6578616d706c652e636f6d") [] [] = None.
Proof. vm_compute. split; reflexivity. Qed.

(* ---------- a refused HTTPSProxy.Run leaves every other proxy's routes alone ---------- *)
Section PxRun.
  Context {P : Type}.
  Variable pay : P.
  Notation rstate := (rstate P).

  Definition rs_own (tracked : list bytes) (r : route P) : Prop :=
    exists d, In d tracked /\ r = mkRoute (lower d) [] [] pay.

  Lemma rs_fold_del (tracked : list bytes) : forall s : rstate, rp_wf s ->
    let s' := fold_left (fun (t : rstate) x => rt_del t x [] []) tracked s in
    rp_wf s' /\
    forall r, rp_in r s' <->
      (rp_in r s /\ ~ exists d, In d tracked /\ rt_dom r = lower d /\ rt_loc r = [] /\ rt_user r = []).
  Proof.
    induction tracked as [|d tr IH]; intros s Hwf; simpl.
    - split; [exact Hwf|]. intro r. split; [intro H; split; [exact H|intros [d [[] _]]]|tauto].
    - destruct (rp_del_ok s d [] [] Hwf) as [Hwf1 Hin1].
      destruct (IH _ Hwf1) as [Hwf2 Hin2]. split; [exact Hwf2|].
      intro r. rewrite Hin2, Hin1. split.
      + intros [[A B] C]. split; [exact A|]. intros [d0 [[<-|Hd] E]]; [apply B; exact E|apply C; eauto].
      + intros [A B]. split; [split; [exact A|]|].
        * intro E. apply B. exists d. split; [left; reflexivity|exact E].
        * intros [d0 [Hd E]]. apply B. exists d0. split; [right; exact Hd|exact E].
  Qed.

  Lemma rs_px_run_refused_inv (s0 : rstate) doms : forall (s : rstate) tracked s',
    rp_wf s ->
    (forall r, rp_in r s <-> (rp_in r s0 \/ rs_own tracked r)) ->
    (forall d, In d tracked -> ~ exists r, rp_in r s0 /\ rt_dom r = lower d /\ rt_loc r = [] /\ rt_user r = []) ->
    px_run false s doms pay tracked = (s', false) ->
    rp_wf s' /\ forall r, rp_in r s' <-> rp_in r s0.
  Proof.
    induction doms as [|d doms IH]; intros s tracked s' Hwf Hs Hfresh Hrun; simpl in Hrun; [discriminate|].
    destruct (rt_add s d [] [] pay) as [s1|] eqn:A.
    - destruct (rp_add_ok _ _ _ _ _ _ Hwf A) as [Hwf1 Hin1].
      apply (IH s1 (d :: tracked) s' Hwf1); [| |exact Hrun].
      + intro r. rewrite Hin1, Hs. unfold rs_own. split.
        * intros [->|[H|[d0 [Hd ->]]]]; [right; exists d; split; [left; reflexivity|reflexivity]|left; exact H|].
          right. exists d0. split; [right; exact Hd|reflexivity].
        * intros [H|[d0 [[<-|Hd] ->]]]; [right; left; exact H|left; reflexivity|right; right; exists d0; auto].
      + intros d0 [<-|Hd]; [|apply Hfresh; exact Hd].
        intros [r [Hr E]]. assert (N : rt_add s d [] [] pay = None); [|congruence].
        apply (rp_add_none s d [] [] pay Hwf). exists r. split; [apply Hs; left; exact Hr|exact E].
    - inversion Hrun; subst s'; clear Hrun.
      destruct (rs_fold_del tracked s Hwf) as [Hwf' Hin']. split; [exact Hwf'|].
      intro r. rewrite Hin', Hs. split.
      + intros [[H|[d0 [Hd ->]]] N]; [exact H|]. exfalso. apply N. exists d0. simpl. auto.
      + intro H. split; [left; exact H|]. intros [d0 [Hd E]]. apply (Hfresh d0 Hd). exists r. auto.
  Qed.

  (* a refused Run (some custom domain is owned by another proxy) leaves the route set exactly as it
     was: the owner keeps its route, and nothing of the refused proxy stays behind *)
  Theorem rs_px_run_refused_unchanged toks : px_track_first toks = false ->
    forall (hist : list (rt_op P)) doms s',
    px_run (px_track_first toks) (rt_run hist) doms pay [] = (s', false) ->
    rp_wf s' /\ forall r, In r (rt_abs s') <-> In r (rt_abs (rt_run hist)).
  Proof.
    intros Ht hist doms s' H. rewrite Ht in H.
    destruct (rs_px_run_refused_inv (rt_run hist) doms (rt_run hist) [] s' (rp_run_wf hist)) as [Hwf' Hin']; [| |exact H|].
    - intro r. split; [intro X; left; exact X|intros [X|[d [[] _]]]; exact X].
    - intros d [].
    - split; [exact Hwf'|]. intro r. rewrite (rp_in_abs s' r Hwf'), (rp_in_abs _ r (rp_run_wf hist)). apply Hin'.
  Qed.
End PxRun.

(* regression witness: tracking the refused listener before looking at the error deletes the owner's route *)
Theorem rs_px_track_first_deletes_owner_route :
  let s := rt_run [RAdd (hx "612e6578616d706c652e636f6d") [] [] 1] in
  rt_abs (fst (px_run true s [hx "412e6578616d706c652e636f6d"] 2 [])) = [] /\
  rt_abs (fst (px_run false s [hx "412e6578616d706c652e636f6d"] 2 [])) = rt_abs s.
Proof. vm_compute. split; reflexivity. Qed.
