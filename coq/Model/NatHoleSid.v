(* C20: the datagram codec of the NatHoleSid detect messages (pkg/nathole/utils.go EncodeMessage / DecodeMessageInto):
   frame the message (msg.WriteMsg), then golib crypto.Encode with the key -- for EVERY key, the empty one (xtcp without
   secretKey, which is legal) included: there is no branch on the key.  crypto and framing are oracles with their round-trip
   laws.  Model only: no proofs here. *)
From FRP Require Export Model.Bytes.

Section SidCodec.
  Variable M : Type.                                   (* NatHoleSid *)
  Variable frame : M -> bytes.                         (* msg.WriteMsg *)
  Variable unframe : bytes -> option M.                (* msg.ReadMsgInto *)
  Variable enc dec : bytes -> bytes -> option bytes.   (* crypto.Encode / crypto.Decode: key, data *)

  Definition sid_encode (key : bytes) (m : M) : option bytes := enc key (frame m).
  Definition sid_decode (key : bytes) (d : bytes) : option M :=
    match dec key d with Some b => unframe b | None => None end.
End SidCodec.
