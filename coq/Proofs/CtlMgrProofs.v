(* Proofs about Model/CtlMgr.v: inductive invariants over every action list. *)
From Coq Require Import List NArith ZArith Bool Lia.
From FRP Require Import Model.CtlMgr.
Import ListNotations.
Import CM.
Open Scope N_scope.

(* ---------- association lists ---------- *)
Section AL.
  Context {V : Type}.
  Implicit Types m : list (N * V).

  Lemma alookup_aremove : forall m k k',
    alookup k (aremove k' m) = if N.eqb k k' then None else alookup k m.
  Proof.
    induction m as [|[a v] m IH]; intros k k'; simpl.
    - destruct (N.eqb k k'); reflexivity.
    - destruct (N.eqb_spec k' a).
      + subst. rewrite IH. destruct (N.eqb_spec k a); reflexivity.
      + simpl. rewrite IH. destruct (N.eqb_spec k a); subst.
        * destruct (N.eqb_spec a k'); [congruence|reflexivity].
        * reflexivity.
  Qed.

  Lemma alookup_aset : forall m k k' v,
    alookup k (aset k' v m) = if N.eqb k k' then Some v else alookup k m.
  Proof.
    intros. unfold aset. simpl. destruct (N.eqb_spec k k'); [reflexivity|].
    rewrite alookup_aremove. destruct (N.eqb_spec k k'); [contradiction|reflexivity].
  Qed.

  Lemma alookup_in : forall m k v, alookup k m = Some v -> In (k, v) m.
  Proof.
    induction m as [|[a w] m IH]; simpl; intros k v H; [discriminate|].
    destruct (N.eqb_spec k a) as [->|]; [inversion H; auto|auto].
  Qed.
End AL.

Arguments aset : simpl never.

(* ---------- reachability ---------- *)
Definition reachable (st : state) : Prop := exists m acts, st = run acts (init_with m).

Lemma run_app : forall a b st, run (a ++ b) st = run b (run a st).
Proof. intros. unfold run. apply fold_left_app. Qed.

Lemma reachable_ind' : forall (P : state -> Prop) m,
  P (init_with m) ->
  (forall st a st' o, P st -> step st a = Some (st', o) -> P st') ->
  forall acts, P (run acts (init_with m)).
Proof.
  intros P m H0 HS acts.
  assert (G : forall acts st, P st -> P (run acts st)).
  { induction acts0 as [|a r IH]; intros st Hst; simpl; [exact Hst|].
    apply IH. unfold next. destruct (step st a) as [[st' o]|] eqn:E; [eapply HS; eauto|exact Hst]. }
  apply G, H0.
Qed.

(* ---------- views of a session on the name table ---------- *)
(* the (name, proxy) pairs the session has put into pxyManager and not yet taken out *)
Definition reg_view (x : session) : list (N * N) :=
  match s_spc x with
  | SStore name pid => (name, pid) :: s_proxies x
  | SCDel name pid => (name, pid) :: s_proxies x
  | TLoop todo => todo
  | TDel name pid todo => (name, pid) :: todo
  | TFinished => []
  | _ => s_proxies x
  end.

(* the proxy the session has Run but not yet put into / rolled back from the table *)
Definition inflight (x : session) : option (N * N) :=
  match s_spc x with
  | SAddP name pid => Some (name, pid)
  | SRollback name pid => Some (name, pid)
  | _ => None
  end.

Definition owned_by (st : state) (s n p : N) : Prop :=
  exists pr, alookup p (proxies st) = Some pr /\ p_owner pr = s /\ p_name pr = n.

Record invA (st : state) : Prop := {
  A_sid : forall s x, alookup s (sessions st) = Some x -> s < next_sid st;
  A_pid : forall p pr, alookup p (proxies st) = Some pr -> p < next_pid st;
  A_none : forall s x, alookup s (sessions st) = Some x -> s_lpc x <> LEnd -> s_spc x = SNone;
  A_view : forall s x n p, alookup s (sessions st) = Some x -> alookup n (reg_view x) = Some p ->
             alookup n (pxys st) = Some p /\ owned_by st s n p;
  A_infl : forall s x n p, alookup s (sessions st) = Some x -> inflight x = Some (n, p) -> owned_by st s n p;
  A_tdel : forall s x n p todo, alookup s (sessions st) = Some x -> s_spc x = TDel n p todo -> alookup n todo = None;
  A_table : forall n p, alookup n (pxys st) = Some p ->
             exists pr x, alookup p (proxies st) = Some pr /\ alookup (p_owner pr) (sessions st) = Some x /\
                          alookup n (reg_view x) = Some p
}.

Ltac lk :=
  repeat match goal with
  | H : context [alookup _ (aset _ _ _)] |- _ => rewrite alookup_aset in H
  | |- context [alookup _ (aset _ _ _)] => rewrite alookup_aset
  | H : context [alookup _ (aremove _ _)] |- _ => rewrite alookup_aremove in H
  | |- context [alookup _ (aremove _ _)] => rewrite alookup_aremove
  end.

Ltac lkH H := rewrite ?alookup_aset, ?alookup_aremove in H.

Ltac useOB OB H :=
  let pr := fresh "pr" in let Hp := fresh "Hp" in let Ho := fresh "Ho" in let Hn := fresh "Hn" in
  destruct (OB _ _ _ H) as (pr & Hp & Ho & Hn); exists pr; lkH Hp; lk;
  repeat match goal with |- context [N.eqb ?a ?b] => destruct (N.eqb_spec a b) end; auto; try congruence.

Ltac eqd :=
  repeat match goal with
  | H : context [N.eqb ?a ?b] |- _ => destruct (N.eqb_spec a b); subst
  | |- context [N.eqb ?a ?b] => destruct (N.eqb_spec a b); subst
  end.

Ltac inv1 H := inversion H; subst; clear H.

Lemma qb_eq : forall st x np, exists v, quota_back st x np = with_ports x v.
Proof.
  intros. unfold quota_back. destruct (0 <? maxports st)%Z; [eexists; reflexivity|].
  exists (s_ports x). destruct x; reflexivity.
Qed.

Ltac qb := repeat match goal with
  | |- context [quota_back ?a ?b ?c] => let v := fresh "v" in let E := fresh "E" in destruct (qb_eq a b c) as [v E]; rewrite E; clear E
  end.

(* destructs a successful step into its elementary cases *)
Ltac step_cases H :=
  match type of H with
  | step _ ?a = Some _ =>
      destruct a as [rid oracle|s0 rq|s0|[s0|s0|s0] pick]; simpl in H;
      [ inv1 H
      | destruct (alookup s0 (sessions _)) as [x|] eqn:Hx; [|discriminate];
        unfold step_req in H; destruct (s_spc x) eqn:Hpc; try discriminate;
        destruct (s_closed x) eqn:Hcl; try discriminate;
        destruct rq as [name att np cfgok runok|name];
        [ destruct cfgok; [destruct (0 <? maxports _)%Z eqn:Hmax; [destruct (maxports _ <? s_ports x + pt_ports np)%Z eqn:Hq|]|]; inv1 H
        | destruct (alookup name (s_proxies x)) as [pid|] eqn:Hown; inv1 H ]
      | destruct (alookup s0 (sessions _)) as [x|] eqn:Hx; [|discriminate];
        unfold step_eof in H; destruct (s_spc x) eqn:Hpc; try discriminate; inv1 H
      | destruct (alookup s0 (sessions _)) as [x|] eqn:Hx; [|discriminate];
        unfold step_login in H; destruct (s_lpc x) as [|old| |] eqn:Hpc; try discriminate;
        [ destruct (alookup (s_rid x) (ctls _)) as [o'|] eqn:Hst;
          [ destruct (alookup o' (sessions _)) as [y|] eqn:Hy; [|discriminate]; inv1 H | inv1 H ]
        | destruct (alookup old (sessions _)) as [y|] eqn:Hy; [|discriminate];
          destruct (s_done y) eqn:Hdone; [|discriminate]; inv1 H
        | inv1 H ]
      | destruct (alookup s0 (sessions _)) as [x|] eqn:Hx; [|discriminate];
        unfold step_sess in H; destruct (s_spc x) as [| |name att np runok|name att np runok|name pid|name pid|name pid|name pid| |todo|name pid todo|] eqn:Hpc;
        try discriminate;
        [ destruct (s_closed x) eqn:Hcl; [|discriminate]; inv1 H
        | destruct (alookup name (pxys _)) as [q|] eqn:Hex; inv1 H
        | destruct (andb runok _) eqn:Hrun; inv1 H
        | destruct (alookup name (pxys _)) as [q|] eqn:Hex; inv1 H
        | inv1 H
        | inv1 H
        | inv1 H
        | inv1 H
        | destruct todo as [|[tn tp] todo'];
          [ inv1 H | destruct (alookup pick _) as [pid|] eqn:Hpick; [|discriminate]; inv1 H ]
        | inv1 H ]
      | destruct (alookup s0 (sessions _)) as [x|] eqn:Hx; [|discriminate];
        unfold step_late in H; destruct (s_dpc x) eqn:Hpc; try discriminate;
        [ destruct (s_done x) eqn:Hdone; [|discriminate]; inv1 H
        | inv1 H ] ]
  end.

(* ---------- group A: the name table ---------- *)
Lemma invA_init : forall m, invA (init_with m).
Proof. constructor; simpl; intros; discriminate. Qed.

(* only sessions / pxys / proxies / next_pid / next_sid matter *)
Lemma invA_same : forall st st',
  sessions st' = sessions st -> pxys st' = pxys st -> proxies st' = proxies st ->
  next_pid st' = next_pid st -> next_sid st <= next_sid st' ->
  invA st -> invA st'.
Proof.
  intros st st' Hs Hp Hq Hn Hm [I1 I2 I0 I3 I4 I5 I6].
  constructor; unfold owned_by in *; rewrite ?Hs, ?Hp, ?Hq, ?Hn; intros; eauto.
  specialize (I1 _ _ H). lia.
Qed.

(* pxy.Close() of any proxy keeps the invariant *)
Lemma invA_close : forall st pid, invA st -> invA (close_proxy st pid).
Proof.
  intros st pid [I1 I2 I0 I3 I4 I5 I6]. unfold close_proxy.
  destruct (alookup pid (proxies st)) as [q|] eqn:Hq; [|constructor; assumption].
  eapply invA_same with (st := set_proxies st (aset pid (p_close q) (proxies st))); try reflexivity; try (simpl; lia).
  assert (OB : forall s n p, owned_by st s n p -> owned_by (set_proxies st (aset pid (p_close q) (proxies st))) s n p).
  { intros s n p (pr & Hp & Ho & Hn). unfold owned_by; simpl. lk.
    destruct (N.eqb_spec p pid); subst; [exists (p_close q); replace pr with q in * by congruence; auto|exists pr; auto]. }
  constructor; simpl; intros; eauto.
  - lk. eqd; eauto.
  - destruct (I3 _ _ _ _ H H0); auto.
  - destruct (I6 _ _ H) as (pr & y & Hp & Hy & Hr). lk.
    destruct (N.eqb_spec p pid); subst; [exists (p_close q), y; replace pr with q in * by congruence; auto|exists pr, y; auto].
Qed.

(* a session changes without changing its views *)
Lemma invA_upd : forall st s x x',
  invA st -> alookup s (sessions st) = Some x ->
  (forall n, alookup n (reg_view x') = alookup n (reg_view x)) ->
  (inflight x' = inflight x \/ inflight x' = None) ->
  (forall n p todo, s_spc x' = TDel n p todo -> s_spc x = TDel n p todo \/ alookup n todo = None) ->
  (s_lpc x' <> LEnd -> s_spc x' = SNone) ->
  invA (put st s x').
Proof.
  intros st s x x' [I1 I2 I0 I3 I4 I5 I6] Hx Hv Hi Ht Hl.
  constructor; unfold owned_by in *; simpl; intros.
  - lk. eqd; eauto.
  - eauto.
  - lk. eqd; [inv1 H|]; eauto.
  - lk. eqd; [inv1 H; rewrite Hv in H0|]; eauto.
  - lk. eqd; [inv1 H; destruct Hi as [Hi|Hi]; rewrite Hi in H0; [|discriminate]|]; eauto.
  - lk. eqd; [inv1 H; destruct (Ht _ _ _ H0)|]; eauto.
  - destruct (I6 _ _ H) as (pr & y & Hp & Hy & Hr). exists pr.
    destruct (N.eq_dec (p_owner pr) s) as [E|E].
    + exists x'. lk. rewrite E, N.eqb_refl. rewrite Hv. rewrite E in Hy. split; [auto|split; congruence].
    + exists y. lk. destruct (N.eqb_spec (p_owner pr) s); [contradiction|auto].
Qed.

Lemma sessions_close : forall st pid, sessions (close_proxy st pid) = sessions st.
Proof. intros. unfold close_proxy. destruct (alookup pid (proxies st)); reflexivity. Qed.
Lemma pxys_close : forall st pid, pxys (close_proxy st pid) = pxys st.
Proof. intros. unfold close_proxy. destruct (alookup pid (proxies st)); reflexivity. Qed.

(* NewControl: a session that is in no table yet *)
Lemma invA_new : forall st r, invA st ->
  invA (set_next_sid (put st (next_sid st) (new_session r)) (next_sid st + 1)).
Proof.
  intros st r I. pose proof I as [I1 I2 I0 I3 I4 I5 I6].
  assert (F : alookup (next_sid st) (sessions st) = None).
  { destruct (alookup (next_sid st) (sessions st)) eqn:E; [|reflexivity]. apply I1 in E. lia. }
  constructor; unfold owned_by in *; simpl; intros.
  - lk. eqd; [lia|]. apply I1 in H. lia.
  - eauto.
  - lk. eqd; [inv1 H; reflexivity|eauto].
  - lk. eqd; [inv1 H; discriminate|eauto].
  - lk. eqd; [inv1 H; discriminate|eauto].
  - lk. eqd; [inv1 H; discriminate|eauto].
  - destruct (I6 _ _ H) as (pr & y & Hp & Hy & Hr). exists pr, y. lk.
    destruct (N.eqb_spec (p_owner pr) (next_sid st)) as [E|E]; [rewrite E in Hy; congruence|auto].
Qed.

Lemma owned_by_fun : forall st s s' n n' p, owned_by st s n p -> owned_by st s' n' p -> s = s' /\ n = n'.
Proof. intros st s s' n n' p (pr & H1 & H2 & H3) (pr' & H1' & H2' & H3'). split; congruence. Qed.

(* pxyManager.Del(name) of an entry of the session's own view *)
Lemma invA_unreg : forall st s x x' name pid,
  invA st -> alookup s (sessions st) = Some x ->
  alookup name (reg_view x) = Some pid ->
  (forall n, alookup n (reg_view x') = if N.eqb n name then None else alookup n (reg_view x)) ->
  (inflight x' = inflight x \/ inflight x' = None) ->
  (forall n p todo, s_spc x' = TDel n p todo -> s_spc x = TDel n p todo \/ alookup n todo = None) ->
  (s_lpc x' <> LEnd -> s_spc x' = SNone) ->
  invA (set_pxys (put st s x') (aremove name (pxys st))).
Proof.
  intros st s x x' name pid I Hx Hown Hv Hi Ht Hl. pose proof I as [I1 I2 I0 I3 I4 I5 I6].
  destruct (I3 _ _ _ _ Hx Hown) as [Hreg Hob].
  constructor; simpl; intros.
  - lk. eqd; eauto.
  - eauto.
  - lk. eqd; [inv1 H|]; eauto.
  - lk. destruct (N.eqb_spec s0 s); subst.
    + inv1 H. rewrite Hv in H0. destruct (N.eqb_spec n name); [discriminate|].
      destruct (I3 _ _ _ _ Hx H0). auto.
    + destruct (I3 _ _ _ _ H H0) as [Hr Ho]. destruct (N.eqb_spec n name); subst.
      * exfalso. assert (p = pid) by congruence. subst. destruct (owned_by_fun _ _ _ _ _ _ Ho Hob). contradiction.
      * auto.
  - lk. destruct (N.eqb_spec s0 s); subst; [inv1 H; destruct Hi as [Hi|Hi]; rewrite Hi in H0; [|discriminate]|]; eauto.
  - lk. destruct (N.eqb_spec s0 s); subst; [inv1 H; destruct (Ht _ _ _ H0)|]; eauto.
  - lk. destruct (N.eqb_spec n name); [discriminate|].
    destruct (I6 _ _ H) as (pr & y & Hp & Hy & Hr). exists pr.
    destruct (N.eq_dec (p_owner pr) s) as [E|E].
    + exists x'. lk. rewrite E, N.eqb_refl. rewrite Hv. rewrite E in Hy.
      destruct (N.eqb_spec n name); [contradiction|]. split; [auto|split; congruence].
    + exists y. lk. destruct (N.eqb_spec (p_owner pr) s); [contradiction|auto].
Qed.

Ltac none_tac I Hx Hpc :=
  let Hn0 := fresh "Hn0" in let Hne := fresh "Hne" in
  pose proof (A_none _ I _ _ Hx) as Hn0; simpl; intros Hne;
  first [ exfalso; apply Hne; reflexivity
        | exact (Hn0 Hne)
        | apply Hn0; rewrite Hpc; discriminate
        | specialize (Hn0 Hne); rewrite Hpc in Hn0; discriminate ].

Ltac upd_tac I Hx Hpc :=
  eapply invA_upd; [exact I|exact Hx| | | |];
  [ intros; unfold reg_view; simpl; rewrite ?Hpc; try reflexivity
  | unfold inflight; simpl; rewrite ?Hpc; auto
  | simpl; rewrite ?Hpc; intros; try discriminate; auto
  | none_tac I Hx Hpc ].

Lemma invA_step : forall st a st' o, invA st -> step st a = Some (st', o) -> invA st'.
Proof.
  intros st a st' o I H. step_cases H; qb; try assumption;
    try (upd_tac I Hx Hpc; fail).
  - (* ALogin *) apply invA_new; exact I.
  - (* CloseProxy of an own name: pxy.Close() *)
    pose proof (invA_close _ pid I) as I'. rewrite <- (sessions_close st pid) in Hx.
    eapply invA_upd; [exact I'|exact Hx| | | |].
    + intros n. unfold reg_view; simpl; rewrite Hpc. simpl. destruct (N.eqb_spec n name); subst; auto.
    + unfold inflight; simpl; rewrite Hpc; auto.
    + simpl; intros; discriminate.
    + none_tac I' Hx Hpc.
  - (* Add replacing an old session *)
    eapply invA_same with (st := put (put st o' (with_closed (with_runid y None) true)) s0
                                     (with_seq (with_lpc x (LWait o')) (addctr st)));
      try reflexivity; try (simpl; lia).
    assert (I' : invA (put st o' (with_closed (with_runid y None) true))).
    { eapply invA_upd; [exact I|exact Hy| | | |]; simpl; auto. exact (A_none _ I _ _ Hy). }
    destruct (alookup s0 (sessions (put st o' (with_closed (with_runid y None) true)))) as [x2|] eqn:Hx2.
    + simpl in Hx2. lk. destruct (N.eqb_spec s0 o'); subst.
      * inv1 Hx2. replace y with x in * by congruence.
        eapply invA_upd; [exact I'|simpl; lk; rewrite N.eqb_refl; reflexivity| | | |]; simpl; auto.
        intros _. apply (A_none _ I _ _ Hx). rewrite Hpc. discriminate.
      * eapply invA_upd; [exact I'|simpl; lk; destruct (N.eqb_spec s0 o'); [contradiction|exact Hx]| | | |]; simpl; auto.
        intros _. apply (A_none _ I _ _ Hx). rewrite Hpc. discriminate.
    + simpl in Hx2. lk. destruct (N.eqb_spec s0 o'); [discriminate|congruence].
  - (* Add without predecessor *)
    eapply invA_same with (st := put st s0 (with_seq (with_lpc x LStart) (addctr st)));
      try reflexivity; try (simpl; lia).
    upd_tac I Hx Hpc.
  - (* Start *)
    assert (Hs : s_spc x = SNone) by (apply (A_none _ I _ _ Hx); rewrite Hpc; discriminate).
    eapply invA_upd; [exact I|exact Hx| | | |].
    + intros. unfold reg_view. simpl. rewrite Hs. reflexivity.
    + unfold inflight. simpl. rewrite Hs. auto.
    + simpl. intros. discriminate.
    + simpl. intros Hne. exfalso. apply Hne. reflexivity.
  - (* Run: a new proxy object *)
    pose proof I as [I1 I2 I0 I3 I4 I5 I6].
    assert (F : alookup (next_pid st) (proxies st) = None).
    { destruct (alookup (next_pid st) (proxies st)) eqn:E; [|reflexivity]. apply I2 in E. lia. }
    assert (OB : forall s n p, owned_by st s n p ->
       exists pr, alookup p (aset (next_pid st) (mkP s0 name att (pt_ports np) (pt_vis np) PRunning) (proxies st)) = Some pr /\ p_owner pr = s /\ p_name pr = n).
    { intros s n p (pr & Hp & Ho & Hn). exists pr. lk. destruct (N.eqb_spec p (next_pid st)); [subst; congruence|auto]. }
    constructor; unfold owned_by; simpl; intros.
    + lk. eqd; eauto.
    + lk. eqd; [lia|]. apply I2 in H. lia.
    + lk. eqd; [inv1 H; simpl in *|]; eauto.
      pose proof (I0 _ _ Hx H0) as E. rewrite Hpc in E. discriminate.
    + lkH H. destruct (N.eqb_spec s s0); subst.
      * inv1 H. unfold reg_view in H0; simpl in H0.
        assert (H1 : alookup n (reg_view x) = Some p) by (unfold reg_view; rewrite Hpc; exact H0).
        destruct (I3 _ _ _ _ Hx H1) as [? H2]. split; [auto|useOB OB H2].
      * destruct (I3 _ _ _ _ H H0) as [? H2]. split; [auto|useOB OB H2].
    + lkH H. destruct (N.eqb_spec s s0); subst.
      * inv1 H. unfold inflight in H0; simpl in H0. inv1 H0.
        exists (mkP s0 n att (pt_ports np) (pt_vis np) PRunning). lk. rewrite N.eqb_refl. auto.
      * pose proof (I4 _ _ _ _ H H0) as H2. useOB OB H2.
    + lk. destruct (N.eqb_spec s s0); subst; [inv1 H; simpl in H0; discriminate|eauto].
    + destruct (I6 _ _ H) as (pr & y & Hp & Hy & Hr). exists pr. lk.
      destruct (N.eqb_spec p (next_pid st)); [subst; congruence|].
      destruct (N.eqb_spec (p_owner pr) s0) as [E|E].
      * eexists. split; [exact Hp|split; [reflexivity|]]. unfold reg_view; simpl.
        rewrite E in Hy. replace y with x in * by congruence. unfold reg_view in Hr. rewrite Hpc in Hr. exact Hr.
      * exists y. auto.
  - (* pxyManager.Add succeeds *)
    pose proof I as [I1 I2 I0 I3 I4 I5 I6].
    assert (Hob : owned_by st s0 name pid) by (apply (I4 _ _ _ _ Hx); unfold inflight; rewrite Hpc; reflexivity).
    constructor; simpl; intros.
    + lkH H. eqd; eauto.
    + eauto.
    + lkH H. eqd; [inv1 H; simpl in *|]; eauto.
      pose proof (I0 _ _ Hx H0) as E. rewrite Hpc in E. discriminate.
    + lkH H. destruct (N.eqb_spec s s0); subst.
      * inv1 H. unfold reg_view in H0; simpl in H0. lk. destruct (N.eqb_spec n name); subst.
        -- inv1 H0. split; auto.
        -- assert (H1 : alookup n (reg_view x) = Some p) by (unfold reg_view; rewrite Hpc; exact H0).
           destruct (I3 _ _ _ _ Hx H1). split; auto.
      * destruct (I3 _ _ _ _ H H0) as [Hr Ho]. lk. destruct (N.eqb_spec n name); subst; [congruence|auto].
    + lkH H. destruct (N.eqb_spec s s0); subst; [inv1 H; unfold inflight in H0; simpl in H0; discriminate|].
      exact (I4 _ _ _ _ H H0).
    + lkH H. destruct (N.eqb_spec s s0); subst; [inv1 H; simpl in H0; discriminate|eauto].
    + lkH H. destruct (N.eqb_spec n name); subst.
      * inv1 H. destruct Hob as (pr & Hp & Ho & Hn). exists pr. eexists. split; [exact Hp|].
        lk. rewrite Ho, N.eqb_refl. split; [reflexivity|]. unfold reg_view; simpl. rewrite N.eqb_refl. reflexivity.
      * destruct (I6 _ _ H) as (pr & y & Hp & Hy & Hr). exists pr. lk.
        destruct (N.eqb_spec (p_owner pr) s0) as [E|E].
        -- eexists. split; [exact Hp|split; [reflexivity|]]. unfold reg_view; simpl.
           destruct (N.eqb_spec n name); [contradiction|].
           rewrite E in Hy. replace y with x in * by congruence. unfold reg_view in Hr. rewrite Hpc in Hr. exact Hr.
        -- exists y. auto.
  - (* rollback *)
    pose proof (invA_close _ pid I) as I'. rewrite <- (sessions_close st pid) in Hx.
    upd_tac I' Hx Hpc.
  - (* store into ctl.proxies *)
    eapply invA_upd; [exact I|exact Hx| | | |].
    + intros n. unfold reg_view; simpl; rewrite Hpc. simpl. lk. destruct (N.eqb_spec n name); reflexivity.
    + unfold inflight; simpl; rewrite Hpc; auto.
    + simpl; intros; discriminate.
    + none_tac I Hx Hpc.
  - (* CloseProxy: pxyManager.Del + delete *)
    eapply invA_unreg with (pid := pid); [exact I|exact Hx| | | | |].
    + unfold reg_view; rewrite Hpc; simpl; rewrite N.eqb_refl; reflexivity.
    + intros n. unfold reg_view; simpl; rewrite Hpc. simpl. lk. destruct (N.eqb_spec n name); reflexivity.
    + unfold inflight; simpl; rewrite Hpc; auto.
    + simpl; intros; discriminate.
    + none_tac I Hx Hpc.
  - (* teardown: pxy.Close() of the picked entry *)
    pose proof (invA_close _ pid I) as I'. rewrite <- (sessions_close st pid) in Hx.
    change (if pick =? tn then aremove pick todo' else (tn, tp) :: aremove pick todo')
      with (aremove pick ((tn, tp) :: todo')).
    remember ((tn, tp) :: todo') as td eqn:Etd.
    eapply invA_upd; [exact I'|exact Hx| | | |].
    + intros n. unfold reg_view; simpl; rewrite Hpc. simpl. lk.
      destruct (N.eqb_spec n pick) as [En|En]; [rewrite En; symmetry; exact Hpick|reflexivity].
    + unfold inflight; simpl; rewrite Hpc; auto.
    + simpl; intros n p td0 E. inv1 E. right. lk. rewrite N.eqb_refl. reflexivity.
    + none_tac I' Hx Hpc.
  - (* teardown: pxyManager.Del *)
    eapply invA_unreg with (pid := pid); [exact I|exact Hx| | | | |].
    + unfold reg_view; rewrite Hpc; simpl; rewrite N.eqb_refl; reflexivity.
    + intros n. unfold reg_view; simpl; rewrite Hpc. simpl.
      destruct (N.eqb_spec n name); subst; [exact (A_tdel _ I _ _ _ _ _ Hx Hpc)|reflexivity].
    + unfold inflight; simpl; rewrite Hpc; auto.
    + simpl; intros; discriminate.
    + none_tac I Hx Hpc.
  - (* late Del *)
    eapply invA_same with (st := put st s0 (with_dpc x DEnd)); try reflexivity; try (simpl; lia).
    upd_tac I Hx Hpc.
Qed.

Theorem invA_reachable : forall m acts, invA (run acts (init_with m)).
Proof. intro m. apply reachable_ind'; [exact (invA_init m)|]. intros; eapply invA_step; eauto. Qed.

(* ---------- group B: the run-id table and the replacement chain ---------- *)
Definition added (x : session) : Prop := s_lpc x <> LAdd.
Definition post (x : session) : Prop := s_lpc x = LStart \/ s_lpc x = LEnd.
Definition pc_ok (x : session) : Prop :=
  (s_spc x <> SNone -> s_lpc x = LEnd) /\ (s_done x = true -> s_spc x = TFinished) /\
  (s_dpc x = DDel -> s_done x = true).

Record invB (st : state) : Prop := {
  B_sid : forall s x, alookup s (sessions st) = Some x -> s < next_sid st;
  B_seq : forall s x, alookup s (sessions st) = Some x -> added x -> s_seq x < addctr st;
  B_inj : forall s x t y, alookup s (sessions st) = Some x -> alookup t (sessions st) = Some y ->
            added x -> added y -> s_seq x = s_seq y -> s = t;
  B_pc : forall s x, alookup s (sessions st) = Some x -> pc_ok x;
  B_new : forall r n, alookup r (ctls st) = Some n ->
            exists x, alookup n (sessions st) = Some x /\ added x /\ s_rid x = r /\
              forall t y, alookup t (sessions st) = Some y -> added y -> s_rid y = r -> s_seq y <= s_seq x;
  B_live : forall s x, alookup s (sessions st) = Some x -> added x -> s_done x = false ->
            exists m y, alookup (s_rid x) (ctls st) = Some m /\ alookup m (sessions st) = Some y /\ s_seq x <= s_seq y;
  B_wait : forall n x o, alookup n (sessions st) = Some x -> s_lpc x = LWait o ->
            exists y, alookup o (sessions st) = Some y /\ added y /\ s_rid y = s_rid x /\ s_seq y < s_seq x /\
              forall t z, alookup t (sessions st) = Some z -> added z -> s_rid z = s_rid x ->
                          s_seq z < s_seq x -> s_seq z <= s_seq y;
  B_post : forall n x, alookup n (sessions st) = Some x -> post x ->
            forall t z, alookup t (sessions st) = Some z -> added z -> s_rid z = s_rid x ->
                        s_seq z < s_seq x -> s_done z = true
}.

Lemma invB_init : forall m, invB (init_with m).
Proof. constructor; simpl; intros; discriminate. Qed.

Lemma invB_upd : forall st s x x',
  invB st -> alookup s (sessions st) = Some x ->
  s_rid x' = s_rid x -> s_seq x' = s_seq x -> (added x' <-> added x) ->
  (s_done x = true -> s_done x' = true) ->
  (forall o, s_lpc x' = LWait o -> s_lpc x = LWait o) -> (post x' -> post x) -> pc_ok x' ->
  invB (put st s x').
Proof.
  intros st s x x' [J1 J2 J3 J4 J5 J6 J7 J8] Hx Hr Hq Ha Hd Hw Hp Hk.
  assert (LK : forall t z, alookup t (sessions (put st s x')) = Some z ->
     exists z0, alookup t (sessions st) = Some z0 /\ s_rid z = s_rid z0 /\ s_seq z = s_seq z0 /\ (added z <-> added z0) /\
       (s_done z0 = true -> s_done z = true) /\ (forall o, s_lpc z = LWait o -> s_lpc z0 = LWait o) /\ (post z -> post z0)).
  { simpl. intros t z H. lkH H. destruct (N.eqb_spec t s); subst.
    - inv1 H. exists x. tauto.
    - exists z. tauto. }
  assert (KL : forall t z0, alookup t (sessions st) = Some z0 ->
     exists z, alookup t (sessions (put st s x')) = Some z /\ s_rid z = s_rid z0 /\ s_seq z = s_seq z0 /\ (added z <-> added z0) /\
       (s_done z0 = true -> s_done z = true)).
  { simpl. intros t z0 H. destruct (N.eq_dec t s); subst.
    - exists x'. lk. rewrite N.eqb_refl. replace z0 with x by congruence. tauto.
    - exists z0. lk. destruct (N.eqb_spec t s); [contradiction|]. tauto. }
  constructor; intros.
  - destruct (LK _ _ H) as (z0 & H0 & _). eauto.
  - destruct (LK _ _ H) as (z0 & Hz & _ & E & A & _). simpl. rewrite E. apply (J2 _ _ Hz). tauto.
  - destruct (LK _ _ H) as (z0 & Hz & _ & E & A & _). destruct (LK _ _ H0) as (z1 & Hz1 & _ & E1 & A1 & _).
    eapply J3; eauto; try tauto. congruence.
  - simpl in H. lkH H. destruct (N.eqb_spec s0 s); subst; [inv1 H; exact Hk|eauto].
  - simpl in H. destruct (J5 _ _ H) as (z0 & Hz & Az & Rz & Mz).
    destruct (KL _ _ Hz) as (z & Hz' & R' & E' & A' & _). exists z. repeat split; try tauto; try congruence.
    intros t y Hy Ay Ry. destruct (LK _ _ Hy) as (y0 & Hy0 & R0 & E0 & A0 & _).
    rewrite E', E0. apply (Mz _ _ Hy0); [tauto|congruence].
  - destruct (LK _ _ H) as (z0 & Hz & R0 & E0 & A0 & D0 & _).
    assert (Dz : s_done z0 = false) by (destruct (s_done z0); [rewrite D0 in H1; [discriminate|reflexivity]|reflexivity]).
    destruct (J6 _ _ Hz (proj1 A0 H0) Dz) as (m & y & Hc & Hy & Le).
    destruct (KL _ _ Hy) as (y' & Hy' & _ & E' & _). exists m, y'. simpl. rewrite R0. repeat split; auto. lia.
  - destruct (LK _ _ H) as (z0 & Hz & R0 & E0 & A0 & D0 & W0 & _).
    destruct (J7 _ _ _ Hz (W0 _ H0)) as (y & Hy & Ay & Ry & Ly & My).
    destruct (KL _ _ Hy) as (y' & Hy' & R' & E' & A' & _). exists y'. repeat split; try tauto; try congruence; try lia.
    intros t z Ht Az Rz Lz. destruct (LK _ _ Ht) as (z1 & Hz1 & R1 & E1 & A1 & _).
    rewrite E1, E'. apply (My _ _ Hz1); [tauto|congruence|lia].
  - destruct (LK _ _ H) as (z0 & Hz & R0 & E0 & A0 & D0 & W0 & P0).
    destruct (LK _ _ H1) as (z1 & Hz1 & R1 & E1 & A1 & D1 & _).
    apply D1. eapply (J8 _ _ Hz (P0 H0) _ _ Hz1); [tauto|congruence|lia].
Qed.

Ltac psimpl := cbn [sessions ctls pxys proxies next_sid next_pid addctr maxports put set_sessions set_ctls set_pxys set_proxies set_next_sid set_next_pid set_addctr vlis set_vlis] in *.

Lemma invB_same : forall st st',
  sessions st' = sessions st -> ctls st' = ctls st -> addctr st' = addctr st -> next_sid st <= next_sid st' ->
  invB st -> invB st'.
Proof.
  intros st st' Hs Hc Ha Hn [J1 J2 J3 J4 J5 J6 J7 J8].
  constructor; rewrite ?Hs, ?Hc, ?Ha; intros; eauto.
  specialize (J1 _ _ H). lia.
Qed.

(* ControlManager.Add, the part that stores the new session (Replaced is a plain update) *)
Lemma invB_add : forall st n x lp,
  invB st -> alookup n (sessions st) = Some x -> s_lpc x = LAdd ->
  match alookup (s_rid x) (ctls st) with Some o => lp = LWait o | None => lp = LStart end ->
  invB (set_addctr (set_ctls (put st n (with_seq (with_lpc x lp) (addctr st))) (aset (s_rid x) n (ctls st))) (addctr st + 1)).
Proof.
  intros st n x lp J Hx Hpc Hlp. pose proof J as [J1 J2 J3 J4 J5 J6 J7 J8].
  assert (NA : ~ added x) by (unfold added; rewrite Hpc; tauto).
  assert (NE : forall t y, alookup t (sessions st) = Some y -> added y -> t <> n) by (intros t y Hy Ay E; subst; congruence).
  set (x' := with_seq (with_lpc x lp) (addctr st)).
  assert (AX : added x') by (unfold added, x'; simpl; destruct (alookup (s_rid x) (ctls st)); subst lp; discriminate).
  constructor; psimpl; intros.
  - lkH H. destruct (N.eqb_spec s n); subst; eauto.
  - lkH H. destruct (N.eqb_spec s n); subst; [inv1 H; simpl; lia|]. specialize (J2 _ _ H H0). lia.
  - lkH H. lkH H0. destruct (N.eqb_spec s n); destruct (N.eqb_spec t n); subst; auto.
    + inv1 H. specialize (J2 _ _ H0 H2). simpl in H3. lia.
    + inv1 H0. specialize (J2 _ _ H H1). simpl in H3. lia.
    + eauto.
  - lkH H. destruct (N.eqb_spec s n); subst; [|eauto]. inv1 H.
    destruct (J4 _ _ Hx) as (K1 & K2 & K3). unfold pc_ok, x'; simpl. repeat split; auto.
    intros Hs. specialize (K1 Hs). congruence.
  - lkH H. destruct (N.eqb_spec r (s_rid x)); subst.
    + assert (n0 = n) by congruence; subst n0; clear H. exists x'. lk. rewrite N.eqb_refl. repeat split; auto.
      intros t y Hy Ay Ry. lkH Hy. destruct (N.eqb_spec t n); subst; [inv1 Hy; lia|].
      specialize (J2 _ _ Hy Ay). simpl. lia.
    + destruct (J5 _ _ H) as (x0 & Hn & Ax & Rx & Mx). exists x0. lk.
      destruct (N.eqb_spec n0 n); [exfalso; eapply NE; eauto|]. repeat split; auto.
      intros t y Hy Ay Ry. lkH Hy. destruct (N.eqb_spec t n); subst; [inv1 Hy; simpl in Ry; congruence|eauto].
  - lkH H. destruct (N.eqb_spec s n); subst.
    + inv1 H. exists n, x'. simpl. lk. rewrite !N.eqb_refl. repeat split; auto. lia.
    + destruct (J6 _ _ H H0 H1) as (m & y & Hc & Hy & Le). lk.
      destruct (N.eqb_spec (s_rid x0) (s_rid x)).
      * exists n, x'. lk. rewrite N.eqb_refl. repeat split; auto. specialize (J2 _ _ H H0). simpl. lia.
      * destruct (N.eq_dec m n); subst.
        -- exists n, x'. lk. rewrite N.eqb_refl. repeat split; auto. specialize (J2 _ _ H H0). simpl. lia.
        -- exists m, y. lk. destruct (N.eqb_spec m n); [contradiction|]. auto.
  - lkH H. destruct (N.eqb_spec n0 n); subst.
    + inv1 H. simpl in H0. subst lp. destruct (alookup (s_rid x) (ctls st)) as [o'|] eqn:Hc; [|discriminate].
      assert (o' = o) by congruence; subst o'; clear Hlp. destruct (J5 _ _ Hc) as (y & Hy & Ay & Ry & My). exists y. lk.
      destruct (N.eqb_spec o n); [exfalso; eapply NE; eauto|]. simpl. repeat split; auto.
      * exact (J2 _ _ Hy Ay).
      * intros t z Hz Az Rz Lz. lkH Hz. destruct (N.eqb_spec t n); subst; [inv1 Hz; simpl in Lz; lia|eauto].
    + destruct (J7 _ _ _ H H0) as (y & Hy & Ay & Ry & Ly & My). exists y. lk.
      destruct (N.eqb_spec o n); [exfalso; eapply NE; eauto|]. repeat split; auto.
      intros t z Hz Az Rz Lz. lkH Hz. destruct (N.eqb_spec t n); subst; [|eauto].
      inv1 Hz. simpl in Lz. assert (added x0) by (unfold added; rewrite H0; discriminate).
      specialize (J2 _ _ H H1). lia.
  - lkH H. lkH H1. destruct (N.eqb_spec n0 n); destruct (N.eqb_spec t n); subst.
    + inv1 H. inv1 H1. lia.
    + inv1 H. simpl in *. destruct (s_done z) eqn:Dz; [reflexivity|].
      destruct (J6 _ _ H1 H2 Dz) as (m & y & Hc & _). rewrite H3 in Hc. rewrite Hc in Hlp. subst lp.
      destruct H0; discriminate.
    + inv1 H1. simpl in H4. assert (added x0) by (unfold added; destruct H0 as [E|E]; rewrite E; discriminate).
      specialize (J2 _ _ H H1). lia.
    + eauto.
Qed.

(* ControlManager.Del of the stored session once it is done *)
Lemma invB_del : forall st r n x,
  invB st -> alookup r (ctls st) = Some n -> alookup n (sessions st) = Some x -> s_done x = true ->
  invB (set_ctls st (aremove r (ctls st))).
Proof.
  intros st r n x J Hc Hx Hd. pose proof J as [J1 J2 J3 J4 J5 J6 J7 J8].
  destruct (J5 _ _ Hc) as (x0 & Hx0 & Ax & Rx & Mx). replace x0 with x in * by congruence.
  destruct (J4 _ _ Hx) as (K1 & K2 & K3).
  assert (Px : post x). { right. apply K1. rewrite (K2 Hd). discriminate. }
  constructor; psimpl; intros; eauto.
  - lkH H. destruct (N.eqb_spec r0 r); [discriminate|]. eauto.
  - destruct (J6 _ _ H H0 H1) as (m & y & Hm & Hy & Le). lk.
    destruct (N.eqb_spec (s_rid x1) r) as [E|E]; [|eauto].
    exfalso. rewrite E in Hm. assert (m = n) by congruence. subst m. replace y with x in * by congruence.
    destruct (N.eq_dec (s_seq x1) (s_seq x)) as [Q|Q].
    + assert (s = n) by (eapply J3; eauto). subst. congruence.
    + assert (D : s_done x1 = true) by (apply (J8 _ _ Hx Px _ _ H); auto; [congruence|lia]). congruence.
Qed.

Ltac pc_tac K Hpc :=
  unfold pc_ok in *; destruct K as (K1 & K2 & K3); simpl; rewrite ?Hpc in *;
  repeat split; intros; simpl in *; try reflexivity; try discriminate;
  try (apply K1; congruence);
  try (match goal with D : s_done _ = true |- _ => specialize (K2 D); congruence end);
  try (apply K3; assumption); auto.

Ltac updB J Hx Hpc :=
  let K := fresh "K" in
  pose proof (B_pc _ J _ _ Hx) as K;
  eapply invB_upd; [exact J|exact Hx|reflexivity|reflexivity|unfold added; simpl; try rewrite Hpc; tauto
                   |simpl; auto|simpl; try rewrite Hpc; auto|unfold post; simpl; try rewrite Hpc; auto|pc_tac K Hpc].

Lemma invB_step : forall st a st' o, invB st -> step st a = Some (st', o) -> invB st'.
Proof.
  intros st a st' o J H. step_cases H; qb; try assumption;
    try (updB J Hx Hpc; fail);
    try (rewrite <- (sessions_close st pid) in Hx;
         assert (J' : invB (close_proxy st pid)) by
           (eapply invB_same; [apply sessions_close| | | |exact J];
            unfold close_proxy; destruct (alookup pid (proxies st)); simpl; try reflexivity; lia);
         updB J' Hx Hpc; fail).
  - (* ALogin *)
    pose proof J as [J1 J2 J3 J4 J5 J6 J7 J8].
    assert (F : alookup (next_sid st) (sessions st) = None).
    { destruct (alookup (next_sid st) (sessions st)) eqn:E; [|reflexivity]. apply J1 in E. lia. }
    assert (NA : ~ added (new_session (match rid with Some r => r | None => oracle end))) by (unfold added; simpl; tauto).
    constructor; psimpl; intros.
    + lkH H. eqd; [lia|]. apply J1 in H. lia.
    + lkH H. eqd; [inv1 H; contradiction|eauto].
    + lkH H. lkH H0. eqd; try (inv1 H; contradiction); try (inv1 H0; contradiction); eauto.
    + lkH H. eqd; [inv1 H; unfold pc_ok; simpl; repeat split; intros; try discriminate; congruence|eauto].
    + destruct (J5 _ _ H) as (x & Hn & Ax & Rx & Mx). exists x. lk.
      destruct (N.eqb_spec n (next_sid st)); [subst; congruence|]. repeat split; auto.
      intros t y Hy. lkH Hy. eqd; [inv1 Hy; contradiction|eauto].
    + lkH H. eqd; [inv1 H; contradiction|].
      destruct (J6 _ _ H H0 H1) as (m & y & Hc & Hy & Le). exists m, y. lk.
      destruct (N.eqb_spec m (next_sid st)); [subst; congruence|auto].
    + lkH H. eqd; [inv1 H; discriminate|].
      destruct (J7 _ _ _ H H0) as (y & Hy & Ay & Ry & Ly & My). exists y. lk.
      destruct (N.eqb_spec o (next_sid st)); [subst; congruence|]. repeat split; auto.
      intros t z Hz. lkH Hz. eqd; [inv1 Hz; contradiction|eauto].
    + lkH H. lkH H1. eqd; try (inv1 H1; contradiction).
      * inv1 H. destruct H0; discriminate.
      * exact (J8 _ _ H H0 _ _ H1 H2 H3 H4).
  - (* Add replacing an old session: Replaced(old) is a plain update, then the store *)
    destruct (B_new _ J _ _ Hst) as (y0 & Hy0 & Ay0 & _). replace y0 with y in * by congruence.
    assert (Ne : s0 <> o') by (intros E; subst; replace y with x in * by congruence; unfold added in Ay0; congruence).
    assert (J' : invB (put st o' (with_closed (with_runid y None) true))).
    { pose proof (B_pc _ J _ _ Hy) as K.
      eapply invB_upd; [exact J|exact Hy|reflexivity|reflexivity|unfold added; simpl; tauto|simpl; auto|simpl; auto|unfold post; simpl; auto|exact K]. }
    assert (Hx' : alookup s0 (sessions (put st o' (with_closed (with_runid y None) true))) = Some x).
    { simpl. lk. destruct (N.eqb_spec s0 o'); [contradiction|exact Hx]. }
    pose proof (invB_add _ _ _ (LWait o') J' Hx' Hpc) as G. simpl in G. rewrite Hst in G. exact (G eq_refl).
  - (* Add without predecessor *)
    pose proof (invB_add _ _ _ LStart J Hx Hpc) as G. rewrite Hst in G. exact (G eq_refl).
  - (* WaitClosed(old) returns *)
    pose proof J as [J1 J2 J3 J4 J5 J6 J7 J8].
    destruct (J7 _ _ _ Hx Hpc) as (y0 & Hy0 & Ay & Ry & Ly & My). replace y0 with y in * by congruence.
    destruct (J4 _ _ Hy) as (K1 & K2 & K3).
    assert (Py : post y). { right. apply K1. rewrite (K2 Hdone). discriminate. }
    assert (Ne : s0 <> old) by (intros E; subst; replace y with x in * by congruence; lia).
    pose proof (B_pc _ J _ _ Hx) as K.
    assert (G : invB (put st s0 (with_lpc x LEnd)) -> True) by auto. clear G.
    constructor; psimpl; intros.
    + lkH H. destruct (N.eqb_spec s s0); subst; eauto.
    + lkH H. destruct (N.eqb_spec s s0); subst; [inv1 H; simpl; apply (J2 _ _ Hx); unfold added; rewrite Hpc; discriminate|eauto].
    + lkH H. lkH H0. destruct (N.eqb_spec s s0); destruct (N.eqb_spec t s0); subst; auto.
      * inv1 H. simpl in H3. eapply J3; eauto. unfold added; rewrite Hpc; discriminate.
      * inv1 H0. simpl in H3. eapply J3; eauto. unfold added; rewrite Hpc; discriminate.
      * eauto.
    + lkH H. destruct (N.eqb_spec s s0); subst; [|eauto]. inv1 H.
      destruct K as (Ka & Kb & Kc). unfold pc_ok; simpl. repeat split; auto.
      intros Hs. specialize (Ka Hs). congruence.
    + destruct (J5 _ _ H) as (x1 & Hn & Ax & Rx & Mx).
      destruct (N.eq_dec n s0); subst.
      * replace x1 with x in * by congruence. exists (with_lpc x LStart). lk. rewrite N.eqb_refl. simpl.
        repeat split; auto; [unfold added; simpl; discriminate|].
        intros t y1 Hy1 A1 R1. lkH Hy1. destruct (N.eqb_spec t s0); subst; [inv1 Hy1; simpl; lia|eauto].
      * exists x1. lk. destruct (N.eqb_spec n s0); [contradiction|]. repeat split; auto.
        intros t y1 Hy1 A1 R1. lkH Hy1. destruct (N.eqb_spec t s0); subst; [|eauto].
        inv1 Hy1. simpl in *. apply (Mx _ _ Hx); auto. unfold added; rewrite Hpc; discriminate.
    + lkH H. destruct (N.eqb_spec s s0); subst.
      * inv1 H. simpl in *. assert (Ax : added x) by (unfold added; rewrite Hpc; discriminate).
        destruct (J6 _ _ Hx Ax H1) as (m & y1 & Hc & Hy1 & Le). exists m.
        destruct (N.eq_dec m s0); subst.
        -- exists (with_lpc x LStart). lk. rewrite N.eqb_refl. simpl. repeat split; auto; lia.
        -- exists y1. lk. destruct (N.eqb_spec m s0); [contradiction|auto].
      * destruct (J6 _ _ H H0 H1) as (m & y1 & Hc & Hy1 & Le). exists m.
        destruct (N.eq_dec m s0); subst.
        -- exists (with_lpc x LStart). lk. rewrite N.eqb_refl. simpl. replace y1 with x in * by congruence. repeat split; auto; lia.
        -- exists y1. lk. destruct (N.eqb_spec m s0); [contradiction|auto].
    + lkH H. destruct (N.eqb_spec n s0); subst; [inv1 H; simpl in H0; discriminate|].
      destruct (J7 _ _ _ H H0) as (y1 & Hy1 & A1 & R1 & L1 & M1).
      destruct (N.eq_dec o s0); subst.
      * replace y1 with x in * by congruence. exists (with_lpc x LStart). lk. rewrite N.eqb_refl. simpl.
        repeat split; auto; [unfold added; simpl; discriminate|].
        intros t z Hz Az Rz Lz. lkH Hz. destruct (N.eqb_spec t s0); subst; [inv1 Hz; simpl; lia|eauto].
      * exists y1. lk. destruct (N.eqb_spec o s0); [contradiction|]. repeat split; auto.
        intros t z Hz Az Rz Lz. lkH Hz. destruct (N.eqb_spec t s0); subst; [|eauto].
        inv1 Hz. simpl in *. apply (M1 _ _ Hx); auto. unfold added; rewrite Hpc; discriminate.
    + assert (TZ : exists z0, alookup t (sessions st) = Some z0 /\ added z0 /\ s_rid z0 = s_rid z /\ s_seq z0 = s_seq z /\ s_done z0 = s_done z).
      { lkH H1. destruct (N.eqb_spec t s0); subst; [inv1 H1; exists x; simpl; repeat split; auto; unfold added; rewrite Hpc; discriminate|exists z; auto]. }
      destruct TZ as (z0 & Hz0 & Az0 & Rz0 & Sz0 & Dz0). rewrite <- Dz0.
      lkH H. destruct (N.eqb_spec n s0); subst.
      * inv1 H. simpl in *.
        assert (Le : s_seq z0 <= s_seq y) by (apply (My _ _ Hz0); auto; lia).
        destruct (N.eq_dec (s_seq z0) (s_seq y)) as [E|E].
        -- assert (t = old) by (eapply J3; eauto). subst. replace z0 with y in * by congruence. exact Hdone.
        -- apply (J8 _ _ Hy Py _ _ Hz0); auto; [congruence|lia].
      * apply (J8 _ _ H H0 _ _ Hz0); auto; [congruence|lia].
  - (* Start *)
    pose proof (B_pc _ J _ _ Hx) as (K1 & K2 & K3).
    assert (Hs : s_spc x = SNone) by (destruct (s_spc x) eqn:E; auto; assert (s_lpc x = LEnd) by (apply K1; discriminate); congruence).
    eapply invB_upd; [exact J|exact Hx|reflexivity|reflexivity|unfold added; simpl; rewrite Hpc; split; intros; discriminate
                     |simpl; auto|simpl; intros; discriminate|unfold post; simpl; rewrite Hpc; auto|].
    unfold pc_ok; simpl. repeat split; auto; intros; try discriminate.
    specialize (K2 H). congruence.
  - eapply invB_same with (st := put st s0 (with_spc x (SAddP name (next_pid st)))); try reflexivity; try (simpl; lia).
    updB J Hx Hpc.
  - eapply invB_same with (st := put st s0 (with_spc x (SStore name pid))); try reflexivity; try (simpl; lia).
    updB J Hx Hpc.
  - eapply invB_same with (st := put st s0 (with_spc (with_proxies x (aremove name (s_proxies x))) SIdle)); try reflexivity; try (simpl; lia).
    updB J Hx Hpc.
  - eapply invB_same with (st := put st s0 (with_spc x (TLoop todo))); try reflexivity; try (simpl; lia).
    updB J Hx Hpc.
  - (* late Del *)
    assert (J' : invB (put st s0 (with_dpc x DEnd))) by (updB J Hx Hpc).
    pose proof (B_pc _ J _ _ Hx) as (K1 & K2 & K3).
    destruct (alookup (s_rid x) (ctls st)) as [c|] eqn:Hc.
    + destruct (N.eqb_spec c s0); subst.
      * apply (invB_del (put st s0 (with_dpc x DEnd)) (s_rid x) s0 (with_dpc x DEnd)); simpl; lk; rewrite ?N.eqb_refl; auto.
      * eapply invB_same with (st := put st s0 (with_dpc x DEnd)); try reflexivity; try (simpl; lia). exact J'.
    + eapply invB_same with (st := put st s0 (with_dpc x DEnd)); try reflexivity; try (simpl; lia). exact J'.
Qed.

Theorem invB_reachable : forall m acts, invB (run acts (init_with m)).
Proof. intro m. apply reachable_ind'; [exact (invB_init m)|]. intros; eapply invB_step; eauto. Qed.

(* ---------- group R: a running proxy is in its owner's view or in flight ---------- *)
Definition live_view (x : session) : list (N * N) :=
  match s_spc x with
  | SStore name pid => (name, pid) :: s_proxies x
  | SCDel name pid => aremove name (s_proxies x)
  | TLoop todo => todo
  | TDel _ _ todo => todo
  | TFinished => []
  | _ => s_proxies x
  end.

Definition hold (x : session) (n p : N) : Prop :=
  alookup n (live_view x) = Some p \/ inflight x = Some (n, p).

Definition invR (st : state) : Prop :=
  forall p pr, alookup p (proxies st) = Some pr -> p_status pr = PRunning ->
    exists x, alookup (p_owner pr) (sessions st) = Some x /\ hold x (p_name pr) p.

Lemma invR_master : forall st st' s x x' (drop : option N),
  invR st -> alookup s (sessions st) = Some x ->
  (forall t, alookup t (sessions st') = if N.eqb t s then Some x' else alookup t (sessions st)) ->
  (forall p pr', alookup p (proxies st') = Some pr' -> p_status pr' = PRunning ->
     Some p <> drop /\ exists pr, alookup p (proxies st) = Some pr /\ p_status pr = PRunning /\
       p_owner pr' = p_owner pr /\ p_name pr' = p_name pr) ->
  (forall n p, hold x n p -> Some p <> drop -> hold x' n p) ->
  invR st'.
Proof.
  intros st st' s x x' drop IR Hx Hs Hp Hh p pr' Hp' Hr'.
  destruct (Hp _ _ Hp' Hr') as (Nd & pr & Hp0 & Hr0 & Eo & En).
  destruct (IR _ _ Hp0 Hr0) as (y & Hy & Hy2). rewrite Eo, En. rewrite Hs.
  destruct (N.eqb_spec (p_owner pr) s) as [E|E].
  - exists x'. split; [reflexivity|]. rewrite E in Hy. replace y with x in * by congruence. auto.
  - exists y. auto.
Qed.

Lemma close_running : forall st pid p pr',
  alookup p (proxies (close_proxy st pid)) = Some pr' -> p_status pr' = PRunning ->
  Some p <> Some pid /\ exists pr, alookup p (proxies st) = Some pr /\ p_status pr = PRunning /\
    p_owner pr' = p_owner pr /\ p_name pr' = p_name pr.
Proof.
  intros st pid p pr' H Hr. unfold close_proxy in H. destruct (alookup pid (proxies st)) as [q|] eqn:Hq.
  - simpl in H. lkH H. destruct (N.eqb_spec p pid); subst.
    + inv1 H. simpl in Hr. discriminate.
    + split; [congruence|]. exists pr'. auto.
  - split; [intros E; inv1 E; congruence|]. exists pr'. auto.
Qed.

Lemma same_running : forall st p pr',
  alookup p (proxies st) = Some pr' -> p_status pr' = PRunning ->
  Some p <> (None : option N) /\ exists pr, alookup p (proxies st) = Some pr /\ p_status pr = PRunning /\
    p_owner pr' = p_owner pr /\ p_name pr' = p_name pr.
Proof. intros. split; [discriminate|]. exists pr'. auto. Qed.

Ltac sess_shape := intros t; cbn [sessions ctls pxys proxies vlis put set_sessions set_ctls set_pxys set_proxies set_next_sid set_next_pid set_addctr set_vlis]; rewrite ?sessions_close; rewrite ?alookup_aset; reflexivity.

Lemma invR_step : forall st a st' o, invA st -> invR st -> step st a = Some (st', o) -> invR st'.
Proof.
  intros st a st' o I IR H. step_cases H; qb; try assumption;
    try (eapply (invR_master _ _ _ _ _ None IR Hx);
         [ sess_shape
         | simpl; intros; apply same_running; assumption
         | unfold hold, live_view, inflight; simpl; rewrite ?Hpc; intros n0 p0 Hh _; exact Hh ]; fail).
  - (* ALogin *)
    intros p pr Hp Hr. simpl in Hp. destruct (IR _ _ Hp Hr) as (y & Hy & Hh). exists y. split; [|exact Hh].
    cbn [sessions put set_sessions set_next_sid]. lk.
    destruct (N.eqb_spec (p_owner pr) (next_sid st)) as [E|E]; [|exact Hy].
    pose proof (A_sid _ I _ _ Hy). lia.
  - (* CloseProxy of an own name *)
    eapply (invR_master _ _ _ _ _ (Some pid) IR Hx); [sess_shape|simpl; intros; eapply close_running; eauto|].
    unfold hold, live_view, inflight; simpl; rewrite ?Hpc. intros n0 p0 [Hh|Hh] Hd; [|discriminate]. left.
    lk. destruct (N.eqb_spec n0 name); [subst; congruence|exact Hh].
  - (* Add replacing an old session *)
    assert (IR1 : invR (put st o' (with_closed (with_runid y None) true))).
    { eapply (invR_master _ _ _ _ _ None IR Hy); [sess_shape|simpl; intros; apply same_running; assumption|].
      unfold hold, live_view, inflight; simpl. intros n0 p0 Hh _; exact Hh. }
    destruct (N.eq_dec s0 o') as [E|E].
    + subst. replace y with x in * by congruence.
      eapply (invR_master _ _ o' _ _ None IR1); [simpl; lk; rewrite N.eqb_refl; reflexivity| |simpl; intros; apply same_running; assumption|].
      * intros t. cbn [sessions ctls pxys proxies put set_sessions set_ctls set_addctr]. rewrite !alookup_aset.
        destruct (N.eqb_spec t o'); reflexivity.
      * unfold hold, live_view, inflight; simpl. intros n0 p0 Hh _; exact Hh.
    + eapply (invR_master _ _ s0 x _ None IR1); [simpl; lk; destruct (N.eqb_spec s0 o'); [contradiction|exact Hx]| |simpl; intros; apply same_running; assumption|].
      * intros t. cbn [sessions ctls pxys proxies put set_sessions set_ctls set_addctr]. rewrite !alookup_aset. reflexivity.
      * unfold hold, live_view, inflight; simpl. intros n0 p0 Hh _; exact Hh.
  - (* Start *)
    assert (Hs : s_spc x = SNone) by (apply (A_none _ I _ _ Hx); rewrite Hpc; discriminate).
    eapply (invR_master _ _ _ _ _ None IR Hx); [sess_shape|simpl; intros; apply same_running; assumption|].
    unfold hold, live_view, inflight; simpl; rewrite Hs. intros n0 p0 Hh _; exact Hh.
  - (* Run: the new proxy is in flight *)
    intros p pr Hp Hr. cbn [proxies sessions put set_sessions set_proxies set_next_pid] in *. lkH Hp.
    destruct (N.eqb_spec p (next_pid st)).
    + subst. inv1 Hp. simpl. eexists. lk. rewrite N.eqb_refl. split; [reflexivity|].
      right. unfold inflight; simpl. reflexivity.
    + destruct (IR _ _ Hp Hr) as (y & Hy & Hh). lk. destruct (N.eqb_spec (p_owner pr) s0) as [E|E].
      * eexists. split; [reflexivity|]. rewrite E in Hy. replace y with x in * by congruence.
        unfold hold, live_view, inflight in *; simpl. rewrite Hpc in Hh. destruct Hh as [Hh|Hh]; [left; exact Hh|discriminate].
      * exists y. auto.
  - (* pxyManager.Add succeeds: from in flight into the view *)
    assert (Hfree : alookup name (s_proxies x) = None).
    { destruct (alookup name (s_proxies x)) as [q|] eqn:E; [|reflexivity].
      assert (Hv : alookup name (reg_view x) = Some q) by (unfold reg_view; rewrite Hpc; exact E).
      destruct (A_view _ I _ _ _ _ Hx Hv). congruence. }
    eapply (invR_master _ _ _ _ _ None IR Hx); [sess_shape|simpl; intros; apply same_running; assumption|].
    unfold hold, live_view, inflight; simpl; rewrite ?Hpc. intros n0 p0 [Hh|Hh] _; left; simpl.
    + destruct (N.eqb_spec n0 name); [subst; congruence|exact Hh].
    + inv1 Hh. rewrite N.eqb_refl. reflexivity.
  - (* rollback *)
    eapply (invR_master _ _ _ _ _ (Some pid) IR Hx); [sess_shape|simpl; intros; eapply close_running; eauto|].
    unfold hold, live_view, inflight; simpl; rewrite ?Hpc. intros n0 p0 [Hh|Hh] Hd; [left; exact Hh|]. inv1 Hh. congruence.
  - (* store *)
    eapply (invR_master _ _ _ _ _ None IR Hx); [sess_shape|simpl; intros; apply same_running; assumption|].
    unfold hold, live_view, inflight; simpl; rewrite ?Hpc. intros n0 p0 [Hh|Hh] _; [|discriminate]. left.
    simpl in Hh. lk. destruct (N.eqb_spec n0 name); exact Hh.
  - (* teardown picks an entry *)
    change (if pick =? tn then aremove pick todo' else (tn, tp) :: aremove pick todo')
      with (aremove pick ((tn, tp) :: todo')).
    remember ((tn, tp) :: todo') as td eqn:Etd.
    eapply (invR_master _ _ _ _ _ (Some pid) IR Hx); [sess_shape|simpl; intros; eapply close_running; eauto|].
    unfold hold, live_view, inflight; simpl; rewrite ?Hpc. intros n0 p0 [Hh|Hh] Hd; [|discriminate]. left.
    lk. destruct (N.eqb_spec n0 pick); [subst n0; congruence|exact Hh].
Qed.

Lemma invR_init : forall m, invR (init_with m).
Proof. intros m p pr H. discriminate. Qed.

Theorem invAR_reachable : forall m acts, invA (run acts (init_with m)) /\ invR (run acts (init_with m)).
Proof.
  intro m. apply (reachable_ind' (fun st => invA st /\ invR st)); [split; [apply invA_init|apply invR_init]|].
  intros st a st' o [I IR] H. split; [eapply invA_step; eauto|eapply invR_step; eauto].
Qed.

Lemma proxies_close_other : forall st pid p, p <> pid ->
  alookup p (proxies (close_proxy st pid)) = alookup p (proxies st).
Proof.
  intros. unfold close_proxy. destruct (alookup pid (proxies st)); [|reflexivity].
  simpl. lk. destruct (N.eqb_spec p pid); [contradiction|reflexivity].
Qed.

(* ---------- group F: the proxy in flight is not (yet) in its session's table ---------- *)
Definition invF (st : state) : Prop :=
  forall s x n p n', alookup s (sessions st) = Some x -> inflight x = Some (n, p) ->
    alookup n' (s_proxies x) = Some p -> False.

Lemma invF_upd : forall st st' s x x',
  invF st -> alookup s (sessions st) = Some x ->
  (forall t, alookup t (sessions st') = if N.eqb t s then Some x' else alookup t (sessions st)) ->
  (forall n p, inflight x' = Some (n, p) -> inflight x = Some (n, p) /\ s_proxies x' = s_proxies x) ->
  invF st'.
Proof.
  intros st st' s x x' F Hx Hs Hi t y n p n' Hy Hf Hv. rewrite Hs in Hy. destruct (N.eqb_spec t s).
  - subst. inv1 Hy. destruct (Hi _ _ Hf) as [A B]. rewrite B in Hv. eapply F; eauto.
  - eapply F; eauto.
Qed.

Lemma invF_step : forall st a st' o, invA st -> invF st -> step st a = Some (st', o) -> invF st'.
Proof.
  intros st a st' o I F H. step_cases H; qb; try assumption;
    try (eapply (invF_upd _ _ _ _ _ F Hx);
         [ sess_shape
         | unfold inflight; simpl; rewrite ?Hpc; intros n0 p0 Hh; first [discriminate | split; [exact Hh|reflexivity]] ]; fail).
  - (* ALogin *)
    intros t y n p n' Hy Hf Hv. cbn [sessions put set_sessions set_next_sid] in Hy. lkH Hy.
    destruct (N.eqb_spec t (next_sid st)); [inv1 Hy; discriminate|eapply F; eauto].
  - (* Add replacing an old session *)
    assert (F1 : invF (put st o' (with_closed (with_runid y None) true))).
    { eapply (invF_upd _ _ _ _ _ F Hy); [sess_shape|]. unfold inflight; simpl. intros n0 p0 Hh; split; [exact Hh|reflexivity]. }
    destruct (N.eq_dec s0 o') as [E|E].
    + subst. replace y with x in * by congruence.
      eapply (invF_upd _ _ o' _ (with_seq (with_lpc x (LWait o')) (addctr st)) F1); [simpl; lk; rewrite N.eqb_refl; reflexivity| |].
      * intros t. cbn [sessions ctls pxys proxies put set_sessions set_ctls set_addctr]. rewrite !alookup_aset.
        destruct (N.eqb_spec t o'); reflexivity.
      * unfold inflight; simpl. intros n0 p0 Hh; split; [exact Hh|reflexivity].
    + eapply (invF_upd _ _ s0 x (with_seq (with_lpc x (LWait o')) (addctr st)) F1); [simpl; lk; destruct (N.eqb_spec s0 o'); [contradiction|exact Hx]| |].
      * intros t. cbn [sessions ctls pxys proxies put set_sessions set_ctls set_addctr]. rewrite !alookup_aset. reflexivity.
      * unfold inflight; simpl. intros n0 p0 Hh; split; [exact Hh|reflexivity].
  - (* Run: the fresh proxy is in nobody's table *)
    intros t y n p n' Hy Hf Hv. cbn [sessions put set_sessions set_proxies set_next_pid set_vlis] in Hy. lkH Hy.
    destruct (N.eqb_spec t s0); [|eapply F; eauto].
    subst. inv1 Hy. unfold inflight in Hf; simpl in Hf. inv1 Hf. simpl in Hv.
    assert (Hr : alookup n' (reg_view x) = Some (next_pid st)) by (unfold reg_view; rewrite Hpc; exact Hv).
    destruct (A_view _ I _ _ _ _ Hx Hr) as [_ (pr & Hp & _)]. pose proof (A_pid _ I _ _ Hp). lia.
Qed.

(* ---------- group W: what a session holds is running (converse of R) ---------- *)
Definition invW (st : state) : Prop :=
  forall s x n p, alookup s (sessions st) = Some x -> hold x n p ->
    exists pr, alookup p (proxies st) = Some pr /\ p_status pr = PRunning /\ p_owner pr = s /\ p_name pr = n.

Lemma invW_master : forall st st' s x x' (drop : option N),
  invW st -> alookup s (sessions st) = Some x ->
  (forall t, alookup t (sessions st') = if N.eqb t s then Some x' else alookup t (sessions st)) ->
  (forall p pr, alookup p (proxies st) = Some pr -> Some p <> drop -> alookup p (proxies st') = Some pr) ->
  (forall n p, hold x' n p -> hold x n p /\ Some p <> drop) ->
  (forall d pr, drop = Some d -> alookup d (proxies st) = Some pr -> p_owner pr = s) ->
  invW st'.
Proof.
  intros st st' s x x' drop W Hx Hs Hp Hh Hd t y n p Hy Hyh. rewrite Hs in Hy.
  destruct (N.eqb_spec t s).
  - subst. inv1 Hy. destruct (Hh _ _ Hyh) as [H1 H2]. destruct (W _ _ _ _ Hx H1) as (pr & A & B & C & D).
    exists pr. split; [apply Hp; auto|auto].
  - destruct (W _ _ _ _ Hy Hyh) as (pr & A & B & C & D). exists pr. split; [|auto].
    apply Hp; auto. intros E. destruct drop as [d|]; [|discriminate]. inv1 E.
    pose proof (Hd _ _ eq_refl A). congruence.
Qed.

Lemma proxies_close_eq : forall st pid q, alookup pid (proxies st) = Some q ->
  proxies (close_proxy st pid) = aset pid (p_close q) (proxies st).
Proof. intros. unfold close_proxy. rewrite H. reflexivity. Qed.

Lemma close_keeps_others : forall st pid p pr,
  alookup p (proxies st) = Some pr -> Some p <> Some pid -> alookup p (proxies (close_proxy st pid)) = Some pr.
Proof. intros. rewrite proxies_close_other; [auto|congruence]. Qed.

Lemma invW_step : forall st a st' o, invA st -> invF st -> invW st -> step st a = Some (st', o) -> invW st'.
Proof.
  intros st a st' o I IF W H. step_cases H; qb; try assumption;
    try (eapply (invW_master _ _ _ _ _ None W Hx);
         [ sess_shape
         | simpl; intros; assumption
         | unfold hold, live_view, inflight; simpl; rewrite ?Hpc; intros n0 p0 Hh; split; [exact Hh|discriminate]
         | intros; discriminate ]; fail).
  - (* ALogin *)
    intros t y n p Hy Hh. cbn [sessions proxies put set_sessions set_next_sid] in *. lkH Hy.
    destruct (N.eqb_spec t (next_sid st)); [inv1 Hy; unfold hold, live_view, inflight in Hh; simpl in Hh; destruct Hh; discriminate|eauto].
  - (* CloseProxy of an own name *)
    eapply (invW_master _ _ _ _ _ (Some pid) W Hx); [sess_shape|simpl; intros; apply close_keeps_others; auto| |].
    + unfold hold, live_view, inflight; simpl; rewrite ?Hpc. intros n0 p0 [Hh|Hh]; [|discriminate].
      lkH Hh. destruct (N.eqb_spec n0 name); [discriminate|]. split; [left; exact Hh|].
      intros E. inv1 E.
      assert (H1 : hold x name pid) by (left; unfold live_view; rewrite Hpc; exact Hown).
      assert (H2 : hold x n0 pid) by (left; unfold live_view; rewrite Hpc; exact Hh).
      destruct (W _ _ _ _ Hx H1) as (pr & A & _ & _ & D). destruct (W _ _ _ _ Hx H2) as (pr' & A' & _ & _ & D'). congruence.
    + intros d pr E Hd. inv1 E.
      assert (H1 : hold x name d) by (left; unfold live_view; rewrite Hpc; exact Hown).
      destruct (W _ _ _ _ Hx H1) as (pr' & A & _ & C & _). congruence.
  - (* Add replacing an old session *)
    assert (W1 : invW (put st o' (with_closed (with_runid y None) true))).
    { eapply (invW_master _ _ _ _ _ None W Hy); [sess_shape|simpl; intros; assumption| |intros; discriminate].
      unfold hold, live_view, inflight; simpl. intros n0 p0 Hh; split; [exact Hh|discriminate]. }
    destruct (N.eq_dec s0 o') as [E|E].
    + subst. replace y with x in * by congruence.
      eapply (invW_master _ _ o' _ (with_seq (with_lpc x (LWait o')) (addctr st)) None W1); [simpl; lk; rewrite N.eqb_refl; reflexivity| |simpl; intros; assumption| |intros; discriminate].
      * intros t. cbn [sessions ctls pxys proxies put set_sessions set_ctls set_addctr]. rewrite !alookup_aset.
        destruct (N.eqb_spec t o'); reflexivity.
      * unfold hold, live_view, inflight; simpl. intros n0 p0 Hh; split; [exact Hh|discriminate].
    + eapply (invW_master _ _ s0 x (with_seq (with_lpc x (LWait o')) (addctr st)) None W1); [simpl; lk; destruct (N.eqb_spec s0 o'); [contradiction|exact Hx]| |simpl; intros; assumption| |intros; discriminate].
      * intros t. cbn [sessions ctls pxys proxies put set_sessions set_ctls set_addctr]. rewrite !alookup_aset. reflexivity.
      * unfold hold, live_view, inflight; simpl. intros n0 p0 Hh; split; [exact Hh|discriminate].
  - (* Start *)
    assert (Hs : s_spc x = SNone) by (apply (A_none _ I _ _ Hx); rewrite Hpc; discriminate).
    eapply (invW_master _ _ _ _ _ None W Hx); [sess_shape|simpl; intros; assumption| |intros; discriminate].
    unfold hold, live_view, inflight; simpl; rewrite Hs. intros n0 p0 Hh; split; [exact Hh|discriminate].
  - (* Run: the new proxy is running and in flight *)
    assert (F : alookup (next_pid st) (proxies st) = None).
    { destruct (alookup (next_pid st) (proxies st)) eqn:E; [|reflexivity]. apply (A_pid _ I) in E. lia. }
    intros t y n p Hy Hh. cbn [proxies sessions put set_sessions set_proxies set_next_pid set_vlis] in *. lkH Hy.
    destruct (N.eqb_spec t s0).
    + subst. inv1 Hy. unfold hold, live_view, inflight in Hh; simpl in Hh. destruct Hh as [Hh|Hh].
      * assert (H1 : hold x n p) by (left; unfold live_view; rewrite Hpc; exact Hh).
        destruct (W _ _ _ _ Hx H1) as (pr & A & B). exists pr. split; [|exact B]. lk.
        destruct (N.eqb_spec p (next_pid st)); [subst; congruence|exact A].
      * inv1 Hh. eexists. lk. rewrite N.eqb_refl. split; [reflexivity|]. simpl. auto.
    + destruct (W _ _ _ _ Hy Hh) as (pr & A & B). exists pr. split; [|exact B]. lk.
      destruct (N.eqb_spec p (next_pid st)); [subst; congruence|exact A].
  - (* pxyManager.Add succeeds *)
    eapply (invW_master _ _ _ _ _ None W Hx); [sess_shape|simpl; intros; assumption| |intros; discriminate].
    unfold hold, live_view, inflight; simpl; rewrite ?Hpc. intros n0 p0 [Hh|Hh]; [|discriminate]. split; [|discriminate].
    simpl in Hh. destruct (N.eqb_spec n0 name); [inv1 Hh; right; reflexivity|left; exact Hh].
  - (* rollback *)
    eapply (invW_master _ _ _ _ _ (Some pid) W Hx); [sess_shape|simpl; intros; apply close_keeps_others; auto| |].
    + unfold hold, live_view, inflight; simpl; rewrite ?Hpc. intros n0 p0 [Hh|Hh]; [|discriminate].
      split; [left; exact Hh|]. intros E. inv1 E.
      eapply (IF _ _ name pid n0 Hx); [unfold inflight; rewrite Hpc; reflexivity|exact Hh].
    + intros d pr E Hd. inv1 E.
      assert (H1 : hold x name d) by (right; unfold inflight; rewrite Hpc; reflexivity).
      destruct (W _ _ _ _ Hx H1) as (pr' & A & _ & C & _). congruence.
  - (* store *)
    eapply (invW_master _ _ _ _ _ None W Hx); [sess_shape|simpl; intros; assumption| |intros; discriminate].
    unfold hold, live_view, inflight; simpl; rewrite ?Hpc. intros n0 p0 [Hh|Hh]; [|discriminate]. split; [|discriminate]. left.
    lkH Hh. simpl. destruct (N.eqb_spec n0 name); exact Hh.
  - (* teardown picks an entry *)
    change (if pick =? tn then aremove pick todo' else (tn, tp) :: aremove pick todo')
      with (aremove pick ((tn, tp) :: todo')).
    remember ((tn, tp) :: todo') as td eqn:Etd.
    eapply (invW_master _ _ _ _ _ (Some pid) W Hx); [sess_shape|simpl; intros; apply close_keeps_others; auto| |].
    + unfold hold, live_view, inflight; simpl; rewrite ?Hpc. intros n0 p0 [Hh|Hh]; [|discriminate].
      lkH Hh. destruct (N.eqb_spec n0 pick); [discriminate|]. split; [left; exact Hh|].
      intros E. inv1 E.
      assert (H1 : hold x pick pid) by (left; unfold live_view; rewrite Hpc; exact Hpick).
      assert (H2 : hold x n0 pid) by (left; unfold live_view; rewrite Hpc; exact Hh).
      destruct (W _ _ _ _ Hx H1) as (pr & A & _ & _ & D). destruct (W _ _ _ _ Hx H2) as (pr' & A' & _ & _ & D'). congruence.
    + intros d pr E Hd. inv1 E.
      assert (H1 : hold x pick d) by (left; unfold live_view; rewrite Hpc; exact Hpick).
      destruct (W _ _ _ _ Hx H1) as (pr' & A & _ & C & _). congruence.
Qed.

(* ---------- group V: the visitor listener table = the running visitor-type proxies ---------- *)
Record invV (st : state) : Prop := {
  V_lis : forall n p, alookup n (vlis st) = Some p ->
            exists pr, alookup p (proxies st) = Some pr /\ p_vis pr = true /\ p_name pr = n /\ p_status pr = PRunning;
  V_run : forall p pr, alookup p (proxies st) = Some pr -> p_vis pr = true -> p_status pr = PRunning ->
            alookup (p_name pr) (vlis st) = Some p
}.

Lemma invV_same : forall st st', proxies st' = proxies st -> vlis st' = vlis st -> invV st -> invV st'.
Proof. intros st st' Hp Hv [V1 V2]. constructor; rewrite Hp, Hv; auto. Qed.

(* pxy.Close() of a proxy that is running: only its own listener goes *)
Lemma invV_close : forall st pid q, invV st -> alookup pid (proxies st) = Some q -> p_status q = PRunning ->
  invV (close_proxy st pid).
Proof.
  intros st pid q [V1 V2] Hq Hr. unfold close_proxy. rewrite Hq. constructor; cbn [proxies vlis set_vlis set_proxies]; intros.
  - assert (Hn : alookup n (vlis st) = Some p /\ (p_vis q = true -> n <> p_name q)).
    { destruct (p_vis q); [lkH H; destruct (N.eqb_spec n (p_name q)); [discriminate|auto]|split; [exact H|discriminate]]. }
    destruct Hn as [Hn Hne]. destruct (V1 _ _ Hn) as (pr & A & B & C & D). exists pr. lk.
    destruct (N.eqb_spec p pid); [|auto]. subst. replace pr with q in * by congruence. exfalso. apply (Hne B). auto.
  - lkH H. destruct (N.eqb_spec p pid); [subst; inv1 H; simpl in *; discriminate|].
    pose proof (V2 _ _ H H0 H1) as Hl. destruct (p_vis q) eqn:Eq; [|exact Hl]. lk.
    destruct (N.eqb_spec (p_name pr) (p_name q)) as [E|E]; [|exact Hl].
    exfalso. pose proof (V2 _ _ Hq Eq Hr) as Hl2. rewrite <- E in Hl2. congruence.
Qed.

Lemma invV_step : forall st a st' o, invA st -> invW st -> invV st -> step st a = Some (st', o) -> invV st'.
Proof.
  intros st a st' o I W V H. step_cases H; qb; try assumption;
    try (eapply invV_same; [| |exact V]; reflexivity).
  - (* CloseProxy of an own name *)
    assert (H1 : hold x name pid) by (left; unfold live_view; rewrite Hpc; exact Hown).
    destruct (W _ _ _ _ Hx H1) as (pr & A & B & _).
    eapply invV_same with (st := close_proxy st pid); [reflexivity|reflexivity|]. eapply invV_close; eauto.
  - (* Run *)
    destruct V as [V1 V2].
    assert (F : alookup (next_pid st) (proxies st) = None).
    { destruct (alookup (next_pid st) (proxies st)) eqn:E; [|reflexivity]. apply (A_pid _ I) in E. lia. }
    apply andb_true_iff in Hrun. destruct Hrun as [_ Hl].
    constructor; cbn [proxies vlis put set_sessions set_proxies set_next_pid set_vlis]; intros.
    + destruct (pt_vis np) eqn:Ev.
      * lkH H. destruct (N.eqb_spec n name).
        -- subst. inv1 H. eexists. lk. rewrite N.eqb_refl. split; [reflexivity|]. simpl. auto.
        -- destruct (V1 _ _ H) as (pr & A & B). exists pr. lk.
           destruct (N.eqb_spec p (next_pid st)); [subst; congruence|auto].
      * destruct (V1 _ _ H) as (pr & A & B). exists pr. lk.
        destruct (N.eqb_spec p (next_pid st)); [subst; congruence|auto].
    + lkH H. destruct (N.eqb_spec p (next_pid st)).
      * subst. inv1 H. simpl in *. rewrite H0. lk. rewrite N.eqb_refl. reflexivity.
      * pose proof (V2 _ _ H H0 H1) as Hv. destruct (pt_vis np) eqn:Ev; [|exact Hv]. lk.
        destruct (N.eqb_spec (p_name pr) name) as [E|E]; [|exact Hv].
        rewrite E in Hv. rewrite Hv in Hl. discriminate.
  - (* rollback *)
    assert (H1 : hold x name pid) by (right; unfold inflight; rewrite Hpc; reflexivity).
    destruct (W _ _ _ _ Hx H1) as (pr & A & B & _).
    eapply invV_same with (st := close_proxy st pid); [reflexivity|reflexivity|]. eapply invV_close; eauto.
  - (* teardown picks an entry *)
    assert (H1 : hold x pick pid) by (left; unfold live_view; rewrite Hpc; exact Hpick).
    destruct (W _ _ _ _ Hx H1) as (pr & A & B & _).
    eapply invV_same with (st := close_proxy st pid); [reflexivity|reflexivity|]. eapply invV_close; eauto.
Qed.

Lemma invF_init : forall m, invF (init_with m).
Proof. intros m s x n p n' H. discriminate. Qed.
Lemma invW_init : forall m, invW (init_with m).
Proof. intros m s x n p H. discriminate. Qed.
Lemma invV_init : forall m, invV (init_with m).
Proof. intros m. constructor; simpl; intros; discriminate. Qed.

Theorem invAFWV_reachable : forall m acts,
  let st := run acts (init_with m) in invA st /\ invF st /\ invW st /\ invV st.
Proof.
  intro m. apply (reachable_ind' (fun st => invA st /\ invF st /\ invW st /\ invV st));
    [split; [apply invA_init|split; [apply invF_init|split; [apply invW_init|apply invV_init]]]|].
  intros st a st' o (I & F & W & V) H. split; [|split; [|split]];
    [eapply invA_step|eapply invF_step|eapply invW_step|eapply invV_step]; eauto.
Qed.

(* ---------- non-interference: a step of another session never changes my entries ---------- *)
Definition actor (a : action) : option N :=
  match a with
  | AReq s _ => Some s
  | AEof s => Some s
  | AStep (TSess s) _ => Some s
  | _ => None
  end.

(* session s keeps its view, and every entry of its view keeps its name-table slot and its proxy *)
Definition keeps (st st' : state) (s : N) : Prop :=
  forall x, alookup s (sessions st) = Some x ->
    exists x', alookup s (sessions st') = Some x' /\
      (forall n, alookup n (reg_view x') = alookup n (reg_view x)) /\
      (forall n p, alookup n (reg_view x) = Some p ->
         alookup n (pxys st') = alookup n (pxys st) /\ alookup p (proxies st') = alookup p (proxies st)).

Lemma keeps_refl : forall st s, keeps st st s.
Proof. intros st s x Hx. exists x. auto. Qed.

Lemma keeps_trans : forall a b c s, keeps a b s -> keeps b c s -> keeps a c s.
Proof.
  intros a b c s H1 H2 x Hx. destruct (H1 _ Hx) as (x1 & Hx1 & V1 & E1).
  destruct (H2 _ Hx1) as (x2 & Hx2 & V2 & E2). exists x2. split; [auto|]. split.
  - intros n. rewrite V2. apply V1.
  - intros n p Hn. destruct (E1 _ _ Hn) as [A B]. rewrite <- (V1 n) in Hn. destruct (E2 _ _ Hn) as [C D].
    split; congruence.
Qed.

(* another session s0 is updated; the tables change only outside the entries of s *)
Lemma keeps_other : forall st st' s s0 x0',
  s <> s0 ->
  (forall t, alookup t (sessions st') = if N.eqb t s0 then Some x0' else alookup t (sessions st)) ->
  (forall x n p, alookup s (sessions st) = Some x -> alookup n (reg_view x) = Some p ->
     alookup n (pxys st') = alookup n (pxys st) /\ alookup p (proxies st') = alookup p (proxies st)) ->
  keeps st st' s.
Proof.
  intros st st' s s0 x0' Hne Hs Ht x Hx. exists x. rewrite Hs.
  destruct (N.eqb_spec s s0); [contradiction|]. repeat split; eauto; apply (Ht _ _ _ Hx H).
Qed.

(* some session (possibly s itself) is updated without changing its view; tables unchanged *)
Lemma keeps_view : forall st st' s s0 x0 x0',
  alookup s0 (sessions st) = Some x0 ->
  (forall t, alookup t (sessions st') = if N.eqb t s0 then Some x0' else alookup t (sessions st)) ->
  (forall n, alookup n (reg_view x0') = alookup n (reg_view x0)) ->
  pxys st' = pxys st -> proxies st' = proxies st ->
  keeps st st' s.
Proof.
  intros st st' s s0 x0 x0' Hx0 Hs Hv Hp Hq x Hx. rewrite Hs, Hp, Hq.
  destruct (N.eqb_spec s s0).
  - subst. replace x0 with x in * by congruence. exists x0'. auto.
  - exists x. auto.
Qed.


Lemma other_owner : forall st s s0 x n p n0 pid,
  invA st -> alookup s (sessions st) = Some x -> alookup n (reg_view x) = Some p ->
  owned_by st s0 n0 pid -> s <> s0 -> p <> pid.
Proof.
  intros st s s0 x n p n0 pid I Hx Hv Ho Hne E. subst.
  destruct (A_view _ I _ _ _ _ Hx Hv) as [_ O1]. destruct (owned_by_fun _ _ _ _ _ _ O1 Ho). contradiction.
Qed.

Lemma other_name : forall st s s0 x x0 n p name pid,
  invA st -> alookup s (sessions st) = Some x -> alookup n (reg_view x) = Some p ->
  alookup s0 (sessions st) = Some x0 -> alookup name (reg_view x0) = Some pid -> s <> s0 -> n <> name.
Proof.
  intros st s s0 x x0 n p name pid I Hx Hv Hx0 Hv0 Hne E. subst.
  destruct (A_view _ I _ _ _ _ Hx Hv) as [R1 O1]. destruct (A_view _ I _ _ _ _ Hx0 Hv0) as [R2 O2].
  assert (p = pid) by congruence. subst. destruct (owned_by_fun _ _ _ _ _ _ O1 O2). contradiction.
Qed.

Lemma foreign_step_keeps : forall st a st' o s,
  invA st -> step st a = Some (st', o) -> actor a <> Some s -> keeps st st' s.
Proof.
  intros st a st' o s I H Hact. step_cases H; qb; try apply keeps_refl;
    try (assert (Hne : s <> s0) by (intros E; apply Hact; simpl; congruence)).
  all: try (eapply keeps_other; [exact Hne|sess_shape|intros; cbn [pxys proxies put set_sessions set_ctls set_pxys set_proxies set_next_sid set_next_pid set_addctr]; split; reflexivity]; fail).
  all: try (eapply keeps_view; [exact Hx|sess_shape|intros; unfold reg_view; simpl; reflexivity|reflexivity|reflexivity]; fail).
  - (* ALogin *)
    intros x Hx. exists x. cbn [sessions pxys proxies put set_sessions set_next_sid]. lk.
    destruct (N.eqb_spec s (next_sid st)) as [E|E]; [pose proof (A_sid _ I _ _ Hx); lia|auto].
  - (* CloseProxy of s0's own name *)
    assert (Ho : owned_by st s0 name pid).
    { apply (A_view _ I _ _ _ _ Hx). unfold reg_view. rewrite Hpc. exact Hown. }
    eapply keeps_other; [exact Hne|sess_shape|].
    intros x1 n p Hx1 Hv. cbn [pxys proxies put set_sessions]. rewrite pxys_close. split; [reflexivity|].
    apply proxies_close_other. eapply other_owner; eauto.
  - (* Add replacing an old session *)
    eapply keeps_trans with (b := put st o' (with_closed (with_runid y None) true)).
    + eapply keeps_view; [exact Hy|sess_shape|intros; unfold reg_view; simpl; reflexivity|reflexivity|reflexivity].
    + destruct (N.eq_dec s0 o') as [E|E].
      * subst. replace y with x in * by congruence.
        eapply keeps_view with (s0 := o') (x0' := with_seq (with_lpc x (LWait o')) (addctr st)); [simpl; lk; rewrite N.eqb_refl; reflexivity| |intros; unfold reg_view; simpl; reflexivity|reflexivity|reflexivity].
        intros t. cbn [sessions put set_sessions set_ctls set_addctr]. rewrite !alookup_aset. destruct (N.eqb_spec t o'); reflexivity.
      * eapply keeps_view with (s0 := s0) (x0 := x) (x0' := with_seq (with_lpc x (LWait o')) (addctr st)); [simpl; lk; destruct (N.eqb_spec s0 o'); [contradiction|exact Hx]| |intros; unfold reg_view; simpl; reflexivity|reflexivity|reflexivity].
        intros t. cbn [sessions put set_sessions set_ctls set_addctr]. rewrite !alookup_aset. reflexivity.
  - (* Start *)
    assert (Hs : s_spc x = SNone) by (apply (A_none _ I _ _ Hx); rewrite Hpc; discriminate).
    eapply keeps_view; [exact Hx|sess_shape|intros; unfold reg_view; simpl; rewrite Hs; reflexivity|reflexivity|reflexivity].
  - (* Run *)
    eapply keeps_other; [exact Hne|sess_shape|].
    intros x1 n p Hx1 Hv. cbn [pxys proxies put set_sessions set_proxies set_next_pid]. split; [reflexivity|].
    lk. destruct (N.eqb_spec p (next_pid st)) as [E|E]; [|reflexivity].
    destruct (A_view _ I _ _ _ _ Hx1 Hv) as [_ (pr & Hp & _)]. pose proof (A_pid _ I _ _ Hp). lia.
  - (* pxyManager.Add succeeds *)
    eapply keeps_other; [exact Hne|sess_shape|].
    intros x1 n p Hx1 Hv. cbn [pxys proxies put set_sessions set_pxys]. split; [|reflexivity].
    lk. destruct (N.eqb_spec n name) as [E|E]; [|reflexivity].
    destruct (A_view _ I _ _ _ _ Hx1 Hv) as [R _]. subst. congruence.
  - (* rollback *)
    assert (Ho : owned_by st s0 name pid).
    { apply (A_infl _ I _ _ _ _ Hx). unfold inflight. rewrite Hpc. reflexivity. }
    eapply keeps_other; [exact Hne|sess_shape|].
    intros x1 n p Hx1 Hv. cbn [pxys proxies put set_sessions]. rewrite pxys_close. split; [reflexivity|].
    apply proxies_close_other. eapply other_owner; eauto.
  - (* CloseProxy: pxyManager.Del *)
    eapply keeps_other; [exact Hne|sess_shape|].
    intros x1 n p Hx1 Hv. cbn [pxys proxies put set_sessions set_pxys]. split; [|reflexivity].
    lk. destruct (N.eqb_spec n name) as [E|E]; [|reflexivity]. exfalso.
    eapply (other_name st s s0 x1 x n p name pid); eauto.
    unfold reg_view. rewrite Hpc. simpl. rewrite N.eqb_refl. reflexivity.
  - (* teardown picks an entry *)
    assert (Ho : owned_by st s0 pick pid).
    { apply (A_view _ I _ _ _ _ Hx). unfold reg_view. rewrite Hpc. exact Hpick. }
    eapply keeps_other; [exact Hne|sess_shape|].
    intros x1 n p Hx1 Hv. cbn [pxys proxies put set_sessions]. rewrite pxys_close. split; [reflexivity|].
    apply proxies_close_other. eapply other_owner; eauto.
  - (* teardown: pxyManager.Del *)
    eapply keeps_other; [exact Hne|sess_shape|].
    intros x1 n p Hx1 Hv. cbn [pxys proxies put set_sessions set_pxys]. split; [|reflexivity].
    lk. destruct (N.eqb_spec n name) as [E|E]; [|reflexivity]. exfalso.
    eapply (other_name st s s0 x1 x n p name pid); eauto.
    unfold reg_view. rewrite Hpc. simpl. rewrite N.eqb_refl. reflexivity.
Qed.

(* ---------- the property statements ---------- *)
Definition started (x : session) : Prop := s_lpc x = LEnd.
(* z was stored under the run id of x before x was *)
Definition earlier (z x : session) : Prop := added z /\ s_rid z = s_rid x /\ s_seq z < s_seq x.
(* the session holds nothing: empty view, and no entry of the name table belongs to it *)
Definition footprint_empty (st : state) (t : N) (z : session) : Prop :=
  reg_view z = [] /\ inflight z = None /\ s_spc z = TFinished /\
  (forall n p pr, alookup n (pxys st) = Some p -> alookup p (proxies st) = Some pr -> p_owner pr <> t) /\
  (forall p pr, alookup p (proxies st) = Some pr -> p_owner pr = t -> p_status pr = PClosed).

Theorem name_unique : forall cfg acts s t x y n p q,
  let st := run acts (init_with cfg) in
  alookup s (sessions st) = Some x -> alookup t (sessions st) = Some y ->
  alookup n (reg_view x) = Some p -> alookup n (reg_view y) = Some q ->
  s = t /\ p = q.
Proof.
  intros cfg acts s t x y n p q st Hx Hy Hp Hq. pose proof (invA_reachable cfg acts) as I. fold st in I.
  destruct (A_view _ I _ _ _ _ Hx Hp) as [R1 O1]. destruct (A_view _ I _ _ _ _ Hy Hq) as [R2 O2].
  assert (p = q) by congruence. subst q. destruct (owned_by_fun _ _ _ _ _ _ O1 O2). auto.
Qed.

Theorem table_entry_has_one_holder : forall cfg acts n p,
  let st := run acts (init_with cfg) in
  alookup n (pxys st) = Some p ->
  exists pr x, alookup p (proxies st) = Some pr /\ p_name pr = n /\
    alookup (p_owner pr) (sessions st) = Some x /\ alookup n (reg_view x) = Some p.
Proof.
  intros cfg acts n p st H. pose proof (invA_reachable cfg acts) as I. fold st in I.
  destruct (A_table _ I _ _ H) as (pr & x & Hp & Hx & Hv). exists pr, x. repeat split; auto.
  destruct (A_view _ I _ _ _ _ Hx Hv) as [_ (pr' & Hp' & _ & Hn)]. congruence.
Qed.

(* step-level facts, valid in every state *)
Theorem second_registration_refused : forall st t y n att np ro p pick,
  alookup t (sessions st) = Some y -> s_spc y = SExist n att np ro -> alookup n (pxys st) = Some p ->
  exists st', step st (AStep (TSess t) pick) = Some (st', [ONewProxyResp t n att 2 (negb (s_closed y))]) /\
    pxys st' = pxys st /\ proxies st' = proxies st /\
    forall u, u <> t -> alookup u (sessions st') = alookup u (sessions st).
Proof.
  intros st t y n att np ro p pick Hy Hpc Hn. simpl. rewrite Hy. unfold step_sess. rewrite Hpc, Hn.
  eexists. split; [reflexivity|]. simpl. repeat split; auto.
  intros u Hu. lk. destruct (N.eqb_spec u t); [contradiction|reflexivity].
Qed.

Theorem add_race_loser_rolls_back : forall st t y n q p pick,
  alookup t (sessions st) = Some y -> s_spc y = SAddP n q -> alookup n (pxys st) = Some p ->
  exists st1, step st (AStep (TSess t) pick) = Some (st1, []) /\ pxys st1 = pxys st /\ proxies st1 = proxies st /\
    (forall u, u <> t -> alookup u (sessions st1) = alookup u (sessions st)) /\
    exists y1, alookup t (sessions st1) = Some y1 /\ s_spc y1 = SRollback n q /\
    forall pick', exists st2 att, step st1 (AStep (TSess t) pick') = Some (st2, [ONewProxyResp t n att 4 (negb (s_closed y))]) /\
      pxys st2 = pxys st /\
      (forall pr, alookup q (proxies st) = Some pr -> alookup q (proxies st2) = Some (p_close pr)) /\
      (forall r, r <> q -> alookup r (proxies st2) = alookup r (proxies st)).
Proof.
  intros st t y n q p pick Hy Hpc Hn. simpl. rewrite Hy. unfold step_sess. rewrite Hpc, Hn.
  eexists. split; [reflexivity|]. simpl. repeat split; auto.
  - intros u Hu. lk. destruct (N.eqb_spec u t); [contradiction|reflexivity].
  - eexists. split; [lk; rewrite N.eqb_refl; reflexivity|]. split; [reflexivity|].
    intros pick'. lk. rewrite N.eqb_refl. simpl. eexists. eexists. split; [reflexivity|].
    unfold close_proxy; simpl. destruct (alookup q (proxies st)) eqn:E; simpl; repeat split; auto.
    + intros pr Hpr. inv1 Hpr. lk. rewrite N.eqb_refl. reflexivity.
    + intros r Hr. lk. destruct (N.eqb_spec r q); [contradiction|reflexivity].
    + intros pr Hpr. discriminate.
Qed.

Theorem close_of_foreign_name_is_noop : forall st s x n,
  alookup s (sessions st) = Some x -> s_spc x = SIdle -> s_closed x = false ->
  alookup n (s_proxies x) = None ->
  step st (AReq s (RClose n)) = Some (st, []).
Proof.
  intros st s x n Hx Hpc Hc Hn. simpl. rewrite Hx. unfold step_req. rewrite Hpc, Hc, Hn. reflexivity.
Qed.

Theorem ack_after_full_teardown : forall cfg acts n x t z,
  let st := run acts (init_with cfg) in
  alookup n (sessions st) = Some x -> started x ->
  alookup t (sessions st) = Some z -> earlier z x ->
  s_done z = true /\ footprint_empty st t z.
Proof.
  intros cfg acts n x t z st Hx Sx Hz (Az & Rz & Lz).
  pose proof (invA_reachable cfg acts) as I. pose proof (invB_reachable cfg acts) as J. fold st in I, J.
  assert (D : s_done z = true) by (apply (B_post _ J _ _ Hx (or_intror Sx) _ _ Hz); auto).
  split; [exact D|].
  destruct (B_pc _ J _ _ Hz) as (_ & K2 & _). specialize (K2 D).
  unfold footprint_empty, reg_view, inflight. rewrite K2. repeat split; auto.
  - intros k p pr Hm Hp E. destruct (A_table _ I _ _ Hm) as (pr' & w & Hp' & Hw & Hv).
    replace pr' with pr in * by congruence. rewrite E in Hw. replace w with z in * by congruence.
    unfold reg_view in Hv. rewrite K2 in Hv. discriminate.
  - intros p pr Hp E. destruct (p_status pr) eqn:S; [|reflexivity].
    destruct (proj2 (invAR_reachable cfg acts) _ _ Hp S) as (w & Hw & Hh). fold st in Hw.
    rewrite E in Hw. replace w with z in * by congruence.
    unfold hold, live_view, inflight in Hh. rewrite K2 in Hh. destruct Hh; discriminate.
Qed.

Theorem own_old_registrations_never_block : forall cfg acts n x name p pr t z,
  let st := run acts (init_with cfg) in
  alookup n (sessions st) = Some x -> started x ->
  alookup name (pxys st) = Some p -> alookup p (proxies st) = Some pr ->
  alookup t (sessions st) = Some z -> earlier z x -> p_owner pr <> t.
Proof.
  intros cfg acts n x name p pr t z st Hx Sx Hn Hp Hz Ez.
  destruct (ack_after_full_teardown cfg acts n x t z Hx Sx Hz Ez) as (_ & _ & _ & _ & F & _). eauto.
Qed.

Theorem late_del_never_removes_new : forall cfg acts s x,
  let st := run acts (init_with cfg) in
  alookup s (sessions st) = Some x -> added x -> s_done x = false ->
  exists m y, getbyid st (s_rid x) = Some m /\ alookup m (sessions st) = Some y /\
              s_rid y = s_rid x /\ s_seq x <= s_seq y.
Proof.
  intros cfg acts s x st Hx Ax Dx. pose proof (invB_reachable cfg acts) as J. fold st in J.
  destruct (B_live _ J _ _ Hx Ax Dx) as (m & y & Hc & Hy & Le). exists m, y. unfold getbyid.
  destruct (B_new _ J _ _ Hc) as (y' & Hy' & _ & Ry & _). replace y' with y in * by congruence. auto.
Qed.

Theorem runid_designates_newest : forall cfg acts r m,
  let st := run acts (init_with cfg) in
  getbyid st r = Some m ->
  exists y, alookup m (sessions st) = Some y /\ added y /\ s_rid y = r /\
    forall t z, alookup t (sessions st) = Some z -> added z -> s_rid z = r -> s_seq z <= s_seq y.
Proof.
  intros cfg acts r m st H. pose proof (invB_reachable cfg acts) as J. fold st in J. exact (B_new _ J _ _ H).
Qed.

(* at most one session of a run id is started and not yet done *)
Theorem one_active_session_per_runid : forall cfg acts s x t y,
  let st := run acts (init_with cfg) in
  alookup s (sessions st) = Some x -> alookup t (sessions st) = Some y ->
  started x -> started y -> s_rid x = s_rid y -> s_done x = false -> s_done y = false -> s = t.
Proof.
  intros cfg acts s x t y st Hx Hy Sx Sy R Dx Dy. pose proof (invB_reachable cfg acts) as J. fold st in J.
  assert (Ax : added x) by (unfold added, started in *; congruence).
  assert (Ay : added y) by (unfold added, started in *; congruence).
  destruct (N.lt_trichotomy (s_seq x) (s_seq y)) as [L|[E|L]].
  - pose proof (B_post _ J _ _ Hy (or_intror Sy) _ _ Hx Ax R L). congruence.
  - eapply (B_inj _ J); eauto.
  - pose proof (B_post _ J _ _ Hx (or_intror Sx) _ _ Hy Ay (eq_sym R) L). congruence.
Qed.

(* RandID as an oracle: if its value is not in the table, the Add of a fresh login replaces nobody *)
Theorem fresh_runid_replaces_nobody : forall st n x pick,
  alookup n (sessions st) = Some x -> s_lpc x = LAdd -> alookup (s_rid x) (ctls st) = None ->
  exists st', step st (AStep (TLogin n) pick) = Some (st', []) /\
    pxys st' = pxys st /\ proxies st' = proxies st /\
    (forall u, u <> n -> alookup u (sessions st') = alookup u (sessions st)) /\
    (forall r, r <> s_rid x -> alookup r (ctls st') = alookup r (ctls st)).
Proof.
  intros st n x pick Hx Hpc Hc. simpl. rewrite Hx. unfold step_login. rewrite Hpc, Hc.
  eexists. split; [reflexivity|]. simpl. repeat split; auto.
  - intros u Hu. lk. destruct (N.eqb_spec u n); [contradiction|reflexivity].
  - intros r Hr. lk. destruct (N.eqb_spec r (s_rid x)); [contradiction|reflexivity].
Qed.

(* ---------- full-strength non-interference and its corollaries ---------- *)
Theorem running_proxy_is_held : forall cfg acts p pr,
  let st := run acts (init_with cfg) in
  alookup p (proxies st) = Some pr -> p_status pr = PRunning ->
  exists x, alookup (p_owner pr) (sessions st) = Some x /\ hold x (p_name pr) p.
Proof. intros cfg acts p pr st. exact (proj2 (invAR_reachable cfg acts) p pr). Qed.

(* one step of anybody else *)
Theorem foreign_step_keeps_my_entries : forall cfg acts a s x n p,
  let st := run acts (init_with cfg) in
  actor a <> Some s ->
  alookup s (sessions st) = Some x -> alookup n (reg_view x) = Some p ->
  exists x', alookup s (sessions (next st a)) = Some x' /\ alookup n (reg_view x') = Some p /\
    alookup n (pxys (next st a)) = Some p /\ alookup p (proxies (next st a)) = alookup p (proxies st).
Proof.
  intros cfg acts a s x n p st Ha Hx Hv. pose proof (invA_reachable cfg acts) as I. fold st in I.
  destruct (A_view _ I _ _ _ _ Hx Hv) as [Hr _].
  unfold next. destruct (step st a) as [[st' o]|] eqn:E.
  - destruct (foreign_step_keeps _ _ _ _ s I E Ha _ Hx) as (x' & Hx' & V & T).
    destruct (T _ _ Hv) as [T1 T2]. exists x'. rewrite V, T1. auto.
  - exists x. auto.
Qed.

(* any number of steps of anybody else, in any interleaving *)
Theorem foreign_actions_keep_my_entries : forall cfg acts2 acts s x n p,
  let st := run acts (init_with cfg) in
  Forall (fun a => actor a <> Some s) acts2 ->
  alookup s (sessions st) = Some x -> alookup n (reg_view x) = Some p ->
  let st2 := run acts2 st in
  exists x2, alookup s (sessions st2) = Some x2 /\ alookup n (reg_view x2) = Some p /\
    alookup n (pxys st2) = Some p /\ alookup p (proxies st2) = alookup p (proxies st).
Proof.
  intros cfg acts2. induction acts2 as [|a r IH]; intros acts s x n p st HF Hx Hv st2.
  - pose proof (invA_reachable cfg acts) as I. fold st in I. destruct (A_view _ I _ _ _ _ Hx Hv) as [Hr _].
    exists x. auto.
  - inversion HF as [|a' r' Ha Hr]; subst.
    destruct (foreign_step_keeps_my_entries cfg acts a s x n p Ha Hx Hv) as (x1 & Hx1 & Hv1 & _ & P1).
    fold st in Hx1, P1.
    assert (E : next st a = run (acts ++ [a]) (init_with cfg)) by (rewrite run_app; reflexivity).
    rewrite E in Hx1. destruct (IH (acts ++ [a]) s x1 n p Hr Hx1 Hv1) as (x2 & Hx2 & Hv2 & R2 & P2).
    exists x2. subst st2. simpl. rewrite E. repeat split; auto. rewrite P2, <- E. exact P1.
Qed.

(* reachable-state form of "a close request affects only proxies of the session that sent it" *)
Theorem close_request_keeps_foreign_entries : forall cfg acts t cn s x n p,
  let st := run acts (init_with cfg) in
  t <> s -> alookup s (sessions st) = Some x -> alookup n (reg_view x) = Some p ->
  let st' := run [AReq t (RClose cn); AStep (TSess t) 0] st in
  exists x', alookup s (sessions st') = Some x' /\ alookup n (reg_view x') = Some p /\
    alookup n (pxys st') = Some p /\ alookup p (proxies st') = alookup p (proxies st).
Proof.
  intros cfg acts t cn s x n p st Hne Hx Hv.
  apply (foreign_actions_keep_my_entries cfg [AReq t (RClose cn); AStep (TSess t) 0] acts s x n p); auto.
  repeat constructor; simpl; congruence.
Qed.

(* reachable-state form of "a second registration of a live name is refused": whoever holds the
   name, in whatever program state, a registration that reaches the Exist check is answered 2 *)
Theorem held_name_registration_refused : forall cfg acts s x n p t y att np ro pick,
  let st := run acts (init_with cfg) in
  alookup s (sessions st) = Some x -> alookup n (reg_view x) = Some p ->
  alookup t (sessions st) = Some y -> s_spc y = SExist n att np ro ->
  exists st', step st (AStep (TSess t) pick) = Some (st', [ONewProxyResp t n att 2 (negb (s_closed y))]) /\
    pxys st' = pxys st /\ proxies st' = proxies st.
Proof.
  intros cfg acts s x n p t y att np ro pick st Hx Hv Hy Hpc.
  pose proof (invA_reachable cfg acts) as I. fold st in I. destruct (A_view _ I _ _ _ _ Hx Hv) as [Hr _].
  destruct (second_registration_refused st t y n att np ro p pick Hy Hpc Hr) as (st' & E & A & B & _). eauto.
Qed.

(* ... and one that passed Exist earlier loses at pxyManager.Add *)
Theorem held_name_add_refused : forall cfg acts s x n p t y q pick,
  let st := run acts (init_with cfg) in
  alookup s (sessions st) = Some x -> alookup n (reg_view x) = Some p ->
  alookup t (sessions st) = Some y -> s_spc y = SAddP n q ->
  exists st1, step st (AStep (TSess t) pick) = Some (st1, []) /\ pxys st1 = pxys st /\ proxies st1 = proxies st /\
    exists y1, alookup t (sessions st1) = Some y1 /\ s_spc y1 = SRollback n q.
Proof.
  intros cfg acts s x n p t y q pick st Hx Hv Hy Hpc.
  pose proof (invA_reachable cfg acts) as I. fold st in I. destruct (A_view _ I _ _ _ _ Hx Hv) as [Hr _].
  destruct (add_race_loser_rolls_back st t y n q p pick Hy Hpc Hr) as (st1 & E & A & B & _ & y1 & Hy1 & S1 & _).
  exists st1. repeat split; auto. exists y1. auto.
Qed.

(* ---------- visitor listeners (stcp / sudp): the name stands for a working listener ---------- *)
Theorem held_proxy_is_running : forall cfg acts s x n p,
  let st := run acts (init_with cfg) in
  alookup s (sessions st) = Some x -> hold x n p ->
  exists pr, alookup p (proxies st) = Some pr /\ p_status pr = PRunning /\ p_owner pr = s /\ p_name pr = n.
Proof. intros cfg acts s x n p st. destruct (invAFWV_reachable cfg acts) as (_ & _ & W & _). apply W. Qed.

Theorem visitor_listener_iff_running : forall cfg acts,
  let st := run acts (init_with cfg) in
  (forall n p, alookup n (vlis st) = Some p ->
     exists pr, alookup p (proxies st) = Some pr /\ p_vis pr = true /\ p_name pr = n /\ p_status pr = PRunning) /\
  (forall p pr, alookup p (proxies st) = Some pr -> p_vis pr = true -> p_status pr = PRunning ->
     alookup (p_name pr) (vlis st) = Some p).
Proof. intros cfg acts st. destruct (invAFWV_reachable cfg acts) as (_ & _ & _ & [V1 V2]). split; assumption. Qed.

(* a refused Run() (oracle failure or a listener of that name exists) changes nothing but the session's own pc/quota *)
Theorem failed_run_changes_nothing : forall st t y n att np ro pick st' o,
  alookup t (sessions st) = Some y -> s_spc y = SRun n att np ro ->
  step st (AStep (TSess t) pick) = Some (st', o) ->
  (exists e, o = [ONewProxyResp t n att e (negb (s_closed y))]) ->
  pxys st' = pxys st /\ proxies st' = proxies st /\ vlis st' = vlis st /\
  forall u, u <> t -> alookup u (sessions st') = alookup u (sessions st).
Proof.
  intros st t y n att np ro pick st' o Hy Hpc H [e He]. simpl in H. rewrite Hy in H. unfold step_sess in H. rewrite Hpc in H.
  destruct (ro && _); inv1 H; [discriminate|].
  simpl. repeat split; auto. intros u Hu. lk. destruct (N.eqb_spec u t); [contradiction|reflexivity].
Qed.

(* whatever the others do (including duplicate registrations that reach Run and fail, and their
   roll-backs), the visitor listener of my running visitor-type proxy stays mine *)
Theorem incumbent_keeps_its_listener : forall cfg acts2 acts s x n p pr,
  let st := run acts (init_with cfg) in
  Forall (fun a => actor a <> Some s) acts2 ->
  alookup s (sessions st) = Some x -> alookup n (reg_view x) = Some p ->
  alookup p (proxies st) = Some pr -> p_vis pr = true -> p_status pr = PRunning ->
  alookup n (vlis (run acts2 st)) = Some p.
Proof.
  intros cfg acts2 acts s x n p pr st HF Hx Hv Hp Hvis Hr.
  destruct (foreign_actions_keep_my_entries cfg acts2 acts s x n p HF Hx Hv) as (x2 & _ & _ & _ & P2).
  fold st in P2. rewrite Hp in P2.
  assert (E : run acts2 st = run (acts ++ acts2) (init_with cfg)) by (unfold st; rewrite run_app; reflexivity).
  rewrite E in *. destruct (invAFWV_reachable cfg (acts ++ acts2)) as (_ & _ & _ & [_ V2]).
  pose proof (V2 _ _ P2 Hvis Hr) as L.
  destruct (A_view _ (invA_reachable cfg acts) _ _ _ _ Hx Hv) as [_ (pr' & Hp' & _ & Hn)]. fold st in Hp'.
  replace pr' with pr in * by congruence. rewrite Hn in L. exact L.
Qed.
