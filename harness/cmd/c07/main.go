package main

// Harness of property C07 (password-protected endpoints).  One driver, "httpauth", which enumerates a finite grid of
// request shapes against the real frp code and writes every observation as a Coq case (coq/Corr/C07.v).

import (
	"bufio"
	"encoding/base64"
	"fmt"
	"io"
	"net"
	"net/http"
	"sort"
	"strings"
	"sync"
	"time"

	"verifharness/hx"
)

var drivers = map[string]hx.DriverFn{}

func main() { hx.Main(drivers) }

// ---- symbols: every distinct byte string / header value / table is defined once in the file header ----

type symtab struct {
	mu    sync.Mutex
	names map[string]string
	defs  []string
}

func newSymtab() *symtab { return &symtab{names: map[string]string{}} }

func (s *symtab) def(prefix, body string) string {
	s.mu.Lock()
	defer s.mu.Unlock()
	if n, ok := s.names[prefix+"|"+body]; ok {
		return n
	}
	n := fmt.Sprintf("%s%d", prefix, len(s.names))
	s.names[prefix+"|"+body] = n
	s.defs = append(s.defs, fmt.Sprintf("Definition %s := %s.", n, body))
	return n
}

func (s *symtab) b(str string) string {
	if str == "" {
		return "[]"
	}
	return s.def("B", "("+hx.HxS(str)+" : bytes)")
}

// hdr renders a raw header value as the model's ha_hdr: cut at the first space, base64-decode the rest (the
// answer of encoding/base64 is an oracle for the model).
func (s *symtab) hdr(raw string) string {
	if raw == "" {
		return "(None : ha_hdr)"
	}
	scheme, rest, has := strings.Cut(raw, " ")
	dec := "None"
	if has {
		if d, err := base64.StdEncoding.DecodeString(rest); err == nil {
			dec = "(Some " + hx.Hx(d) + ")"
			if len(d) == 0 {
				dec = "(Some ([] : bytes))"
			}
		}
	}
	return s.def("V", fmt.Sprintf("(mk_hv %s %s %s)", hx.HxS(scheme), hx.Bool(has), dec))
}

// ---- abstract requests ----

type areq struct {
	form    string // FOrigin | FAbsolute | FConnect
	proto   string // PH10 | PH11 | PH2Stream
	method  string
	urlHost string
	hdrHost string
	path    string
	auth    string // raw Authorization value ("" = absent)
	pauth   string // raw Proxy-Authorization value
	casing  int    // 0 canonical, 1 lower, 2 upper header names
}

func (r areq) coq(s *symtab) string {
	return fmt.Sprintf("(mk_rq %s %s %s %s %s %s %s %s %d)", r.form, r.proto, s.b(r.method), s.b(r.urlHost), s.b(r.hdrHost),
		s.b(r.path), s.hdr(r.auth), s.hdr(r.pauth), r.casing)
}

func (r areq) String() string {
	return fmt.Sprintf("%s %s %s urlhost=%q host=%q path=%q Authorization=%q Proxy-Authorization=%q casing=%d", r.form, r.proto, r.method,
		r.urlHost, r.hdrHost, r.path, r.auth, r.pauth, r.casing)
}

func casingName(name string, c int) string {
	switch c {
	case 1:
		return strings.ToLower(name)
	case 2:
		return strings.ToUpper(name)
	}
	return name
}

// wire renders the request as HTTP/1.x text.
func (r areq) wire(caseID string) string {
	var b strings.Builder
	ver := "HTTP/1.1"
	if r.proto == "PH10" {
		ver = "HTTP/1.0"
	}
	target := r.path
	switch r.form {
	case "FAbsolute":
		target = "http://" + r.urlHost + r.path
	case "FConnect":
		target = r.urlHost
	}
	fmt.Fprintf(&b, "%s %s %s\r\n", r.method, target, ver)
	if r.hdrHost != "" {
		fmt.Fprintf(&b, "%s: %s\r\n", casingName("Host", r.casing), r.hdrHost)
	}
	if r.auth != "" {
		fmt.Fprintf(&b, "%s: %s\r\n", casingName("Authorization", r.casing), r.auth)
	}
	if r.pauth != "" {
		fmt.Fprintf(&b, "%s: %s\r\n", casingName("Proxy-Authorization", r.casing), r.pauth)
	}
	fmt.Fprintf(&b, "X-Case: %s\r\nConnection: close\r\n\r\n", caseID)
	return b.String()
}

func basic(u, p string) string {
	return "Basic " + base64.StdEncoding.EncodeToString([]byte(u+":"+p))
}

// parseBasicRef: reference reading of a header value for the Go-side oracle (same definition as net/http's).
func parseBasicRef(raw string) (u, p string, ok bool) {
	if len(raw) < 6 || !strings.EqualFold(raw[:6], "basic ") {
		return
	}
	d, err := base64.StdEncoding.DecodeString(raw[6:])
	if err != nil {
		return
	}
	u, p, ok = strings.Cut(string(d), ":")
	if !ok {
		return "", "", false
	}
	return
}

// ---- the grid of credential header values (for each of Authorization and Proxy-Authorization) ----

type credKind struct{ kind, raw string }

func credGrid() []credKind {
	return []credKind{
		{"none", ""},
		{"right", basic("alice", "apw")},
		{"wrong-pass", basic("alice", "WRONG")},
		{"wrong-user", basic("mallory", "apw")},
		{"other-route-user", basic("bob", "bpw")},
		{"malformed-base64", "Basic !!!not-base64"},
		{"empty-user", basic("", "apw")},
		{"empty-pass", basic("alice", "")},
		{"admin", basic("adm", "pw")},
		{"lower-scheme", "basic " + base64.StdEncoding.EncodeToString([]byte("alice:apw"))},
		{"other-scheme", "Bearer " + base64.StdEncoding.EncodeToString([]byte("alice:apw"))},
		{"no-colon", "Basic " + base64.StdEncoding.EncodeToString([]byte("alice"))},
		{"pass-prefix", basic("alice", "ap")},
		{"pass-extended", basic("alice", "apw:x")},
		{"user-case", basic("ALICE", "apw")},
		{"pass-case", basic("alice", "APW")},
	}
}

// ---- raw HTTP/1.x client ----

type h1result struct {
	status int // 0: closed without an answer
	second int // status of a second response on the same connection (tcpmux), 0 none
	err    error
}

func rawDo(addr, text, method string, after func(c net.Conn, br *bufio.Reader, first *http.Response) int) h1result {
	c, err := net.DialTimeout("tcp", addr, 3*time.Second)
	if err != nil {
		return h1result{err: err}
	}
	defer c.Close()
	_ = c.SetDeadline(time.Now().Add(8 * time.Second))
	if _, err := io.WriteString(c, text); err != nil {
		return h1result{err: nil}
	}
	br := bufio.NewReader(c)
	resp, err := http.ReadResponse(br, &http.Request{Method: method})
	if err != nil {
		return h1result{status: 0}
	}
	res := h1result{status: resp.StatusCode}
	if after != nil {
		res.second = after(c, br, resp)
	} else {
		_, _ = io.Copy(io.Discard, resp.Body)
		resp.Body.Close()
	}
	return res
}

// ---- arrivals: which backend / handler saw which case ----

type arrivals struct {
	mu sync.Mutex
	m  map[string][]int
}

func newArrivals() *arrivals { return &arrivals{m: map[string][]int{}} }
func (a *arrivals) add(caseID string, id int) {
	a.mu.Lock()
	a.m[caseID] = append(a.m[caseID], id)
	a.mu.Unlock()
}
func (a *arrivals) get(caseID string) []int {
	a.mu.Lock()
	defer a.mu.Unlock()
	return append([]int(nil), a.m[caseID]...)
}

// ---- bookkeeping shared by the parts of the driver ----

type run struct {
	cfg   *hx.RunCfg
	sym   *symtab
	mu    sync.Mutex
	cases []string
	dist  map[string]int
	fails []map[string]string
	seenF map[string]bool
	nontr map[string]bool
	errs  int
	notes map[string]any
}

func (r *run) addCase(text string, nontrivial bool, distKeys ...string) {
	r.mu.Lock()
	defer r.mu.Unlock()
	r.cases = append(r.cases, text)
	if nontrivial {
		r.nontr[text] = true
	}
	for _, k := range distKeys {
		r.dist[k]++
	}
}

func (r *run) fail(key, what, cs string) {
	r.mu.Lock()
	defer r.mu.Unlock()
	if r.seenF[key] && len(r.fails) > 40 {
		return
	}
	r.seenF[key] = true
	r.fails = append(r.fails, map[string]string{"key": key, "what": what, "case": cs})
}

// parallel runs fn(i) for i in [0,n) on w workers
func parallel(n, w int, fn func(i int)) {
	var wg sync.WaitGroup
	ch := make(chan int, n)
	for i := 0; i < n; i++ {
		ch <- i
	}
	close(ch)
	for k := 0; k < w; k++ {
		wg.Add(1)
		go func() {
			defer wg.Done()
			for i := range ch {
				fn(i)
			}
		}()
	}
	wg.Wait()
}

func sortedDist(m map[string]int) map[string]int {
	ks := make([]string, 0, len(m))
	for k := range m {
		ks = append(ks, k)
	}
	sort.Strings(ks)
	o := map[string]int{}
	for _, k := range ks {
		o[k] = m[k]
	}
	return o
}
