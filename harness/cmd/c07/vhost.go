package main

// Parts of driver httpauth that exercise pkg/util/vhost (HTTPReverseProxy behind a real http.Server on loopback,
// HTTP/1.0, HTTP/1.1 and h2c streams) and pkg/util/tcpmux (HTTPConnectTCPMuxer with CONNECT requests).

import (
	"bufio"
	"bytes"
	"context"
	"fmt"
	"io"
	"net"
	"net/http"
	"strconv"
	"strings"
	"time"

	"golang.org/x/net/http2"
	"golang.org/x/net/http2/hpack"

	"github.com/fatedier/frp/pkg/util/tcpmux"
	"github.com/fatedier/frp/pkg/util/vhost"

	"verifharness/hx"
)

type route struct {
	id                                   int
	domain, location, byUser, user, pass string
	hasConn                              bool
}

func (r route) coq(s *symtab) string {
	return fmt.Sprintf("mk_rt %d %s %s %s %s %s %s", r.id, s.b(r.domain), s.b(r.location), s.b(r.byUser), s.b(r.user), s.b(r.pass), hx.Bool(r.hasConn))
}

func (r route) demands() (u, p string, any bool) { return r.user, r.pass, r.user != "" || r.pass != "" }

type table struct {
	name    string
	routes  []route
	targets []target
}

type target struct{ host, path, otherHostHdr string }

func (t table) coq(s *symtab) string {
	items := make([]string, len(t.routes))
	for i, r := range t.routes {
		items[i] = r.coq(s)
	}
	return s.def("T", "([" + strings.Join(items, "; ") + "] : list ha_route)")
}

func fixedTables() []table {
	return []table{
		{name: "mixed", routes: []route{
			{0, "h.test", "/", "", "", "", true},               // unprotected
			{1, "h.test", "/admin", "", "adm", "pw", true},     // protected location
			{2, "h.test", "/", "alice", "alice", "apw", true},  // user-routed, protected
			{3, "h.test", "/", "bob", "", "", true},            // user-routed, unprotected
			{4, "h.test", "", "alice", "alice", "apw", true},   // location "" (what a proxy without locations registers): CONNECT reaches it
			{5, "h.test", "", "", "", "", true},
		}, targets: []target{{"h.test", "/", ""}, {"H.Test:8080", "/admin/x", "other.test"},
			// CanonicalHost strips one trailing dot: "h.test.." is canonically "h.test.", a host without routes
			{"h.test..", "/admin/x", ""}}},
		{name: "user-routed-only", routes: []route{
			{0, "h.test", "/", "alice", "alice", "apw", true},
			{1, "h.test", "/", "bob", "bob", "bpw", true},
			{2, "*.w.test", "/", "", "adm", "pw", true},         // wildcard domain, protected
			{3, "*", "", "alice", "", "apw", true},              // catch-all, password only
			{4, "h.test", "/nc", "", "alice", "apw", false},     // no CreateConnFn
		}, targets: []target{{"h.test", "/", ""}, {"a.b.w.test.", "/x", ""}, {"h.test", "/nc", ""}}},
		{name: "odd-credentials", routes: []route{
			{0, "h.test", "/", "", "", "apw", true},             // password only
			{1, "h.test", "/u", "", "alice", "", true},          // user only
			{2, "h.test", "/admin", "alice", "adm", "pw", true}, // routed by one user, demands another
			{3, "h.test", "", "mallory", "alice", "apw", true},
		}, targets: []target{{"h.test", "/u/1", ""}, {"h.test", "/admin", ""}}},
	}
}

func randomTable(g *hx.Gen, k int) table {
	doms := []string{"h.test", "h.test", "*.test", "*"}
	locs := []string{"", "/", "/admin", "/a"}
	bys := []string{"", "", "alice", "bob"}
	users := []string{"", "", "alice", "bob", "adm"}
	passes := []string{"", "", "apw", "bpw", "pw"}
	t := table{name: fmt.Sprintf("random-%d", k)}
	seen := map[string]bool{}
	n := 3 + g.Intn(5)
	for len(t.routes) < n {
		r := route{id: len(t.routes), domain: g.Pick(doms), location: g.Pick(locs), byUser: g.Pick(bys), user: g.Pick(users), pass: g.Pick(passes),
			hasConn: !g.Chance(0.08)}
		key := r.domain + "|" + r.location + "|" + r.byUser
		if seen[key] {
			continue
		}
		seen[key] = true
		t.routes = append(t.routes, r)
	}
	t.targets = []target{{"h.test", []string{"/", "/admin/z", "/a"}[g.Intn(3)], ""}, {"x.test", "/admin", ""}}
	return t
}

// ---- backends: a CreateConnFn hands out one end of a pipe; the other end reads the request and records it ----

func stubBackend(c net.Conn, id int, arr *arrivals) {
	defer c.Close()
	_ = c.SetDeadline(time.Now().Add(8 * time.Second))
	br := bufio.NewReader(c)
	req, err := http.ReadRequest(br)
	if err != nil {
		return
	}
	arr.add(req.Header.Get("X-Case"), id)
	_, _ = io.Copy(io.Discard, req.Body)
	_, _ = io.WriteString(c, "HTTP/1.1 200 OK\r\nContent-Length: 2\r\nConnection: close\r\n\r\nok")
}

type vhostEnv struct {
	addr string
	srv  *http.Server
	arr  *arrivals
}

func startVhost(t table, ip string) (*vhostEnv, error) {
	arr := newArrivals()
	rp := vhost.NewHTTPReverseProxy(vhost.HTTPReverseProxyOptions{ResponseHeaderTimeoutS: 5}, vhost.NewRouters())
	for _, r := range t.routes {
		r := r
		rc := vhost.RouteConfig{Domain: r.domain, Location: r.location, RouteByHTTPUser: r.byUser, Username: r.user, Password: r.pass}
		if r.hasConn {
			rc.CreateConnFn = func(string) (net.Conn, error) {
				c1, c2 := net.Pipe()
				go stubBackend(c2, r.id, arr)
				return c1, nil
			}
		}
		if err := rp.Register(rc); err != nil {
			return nil, fmt.Errorf("register %v: %w", r, err)
		}
	}
	ln, err := net.Listen("tcp", ip+":0")
	if err != nil {
		return nil, err
	}
	srv := &http.Server{Handler: rp, ReadHeaderTimeout: 10 * time.Second}
	go func() { _ = srv.Serve(ln) }()
	return &vhostEnv{addr: ln.Addr().String(), srv: srv, arr: arr}, nil
}

type vitem struct {
	rq      areq
	up      *areq // h2c: the upgrade request
	id      string
	status  int
	backend int
	multi   bool
	err     string
}

func mkReq(form, proto string, tg target, auth, pauth string, casing int) areq {
	r := areq{form: form, proto: proto, method: "GET", path: tg.path, auth: auth, pauth: pauth, casing: casing}
	switch form {
	case "FOrigin":
		r.hdrHost = tg.host
	case "FAbsolute":
		r.urlHost = tg.host
		r.hdrHost = tg.host
		if tg.otherHostHdr != "" {
			r.hdrHost = tg.otherHostHdr // net/http ignores the Host header of an absolute-form request
		}
	case "FConnect":
		r.method = "CONNECT"
		r.urlHost = tg.host
		r.hdrHost = tg.host
		r.path = ""
	}
	return r
}

// h2cStream: upgrade with request up (HTTP/1.1, h2c), then send rq as stream 3 and report its status.
func h2cStream(addr string, up, rq areq, upID, id string) (status int, upStatus int, err error) {
	c, err := net.DialTimeout("tcp", addr, 3*time.Second)
	if err != nil {
		return 0, 0, err
	}
	defer c.Close()
	_ = c.SetDeadline(time.Now().Add(8 * time.Second))
	var b strings.Builder
	fmt.Fprintf(&b, "%s %s HTTP/1.1\r\nHost: %s\r\n", up.method, up.path, up.hdrHost)
	if up.auth != "" {
		fmt.Fprintf(&b, "Authorization: %s\r\n", up.auth)
	}
	if up.pauth != "" {
		fmt.Fprintf(&b, "Proxy-Authorization: %s\r\n", up.pauth)
	}
	fmt.Fprintf(&b, "X-Case: %s\r\nConnection: Upgrade, HTTP2-Settings\r\nUpgrade: h2c\r\nHTTP2-Settings: AAMAAABkAAQAAP__\r\n\r\n", upID)
	if _, err = io.WriteString(c, b.String()); err != nil {
		return 0, 0, err
	}
	br := bufio.NewReader(c)
	line, err := br.ReadString('\n')
	if err != nil {
		return 0, 0, err
	}
	if !strings.Contains(line, " 101 ") {
		return 0, 0, fmt.Errorf("no upgrade: %q", strings.TrimSpace(line))
	}
	for {
		l, err := br.ReadString('\n')
		if err != nil {
			return 0, 0, err
		}
		if l == "\r\n" {
			break
		}
	}
	if _, err = io.WriteString(c, http2.ClientPreface); err != nil {
		return 0, 0, err
	}
	fr := http2.NewFramer(c, br)
	if err = fr.WriteSettings(); err != nil {
		return 0, 0, err
	}
	var hb bytes.Buffer
	enc := hpack.NewEncoder(&hb)
	wf := func(k, v string) { _ = enc.WriteField(hpack.HeaderField{Name: k, Value: v}) }
	if rq.form == "FConnect" {
		wf(":method", "CONNECT")
		wf(":authority", rq.urlHost)
	} else {
		wf(":method", rq.method)
		wf(":scheme", "http")
		wf(":authority", rq.hdrHost)
		wf(":path", rq.path)
	}
	if rq.auth != "" {
		wf("authorization", rq.auth)
	}
	if rq.pauth != "" {
		wf("proxy-authorization", rq.pauth)
	}
	wf("x-case", id)
	if err = fr.WriteHeaders(http2.HeadersFrameParam{StreamID: 3, BlockFragment: hb.Bytes(), EndStream: rq.form != "FConnect", EndHeaders: true}); err != nil {
		return 0, 0, err
	}
	dec := hpack.NewDecoder(4096, nil)
	for status == 0 {
		f, err := fr.ReadFrame()
		if err != nil {
			return status, upStatus, fmt.Errorf("read frame: %w", err)
		}
		switch f := f.(type) {
		case *http2.SettingsFrame:
			if !f.IsAck() {
				_ = fr.WriteSettingsAck()
			}
		case *http2.HeadersFrame:
			hf, _ := dec.DecodeFull(f.HeaderBlockFragment())
			for _, h := range hf {
				if h.Name == ":status" {
					n, _ := strconv.Atoi(h.Value)
					if f.StreamID == 3 {
						status = n
					} else if f.StreamID == 1 {
						upStatus = n
					}
				}
			}
		case *http2.RSTStreamFrame:
			if f.StreamID == 3 {
				return 0, upStatus, fmt.Errorf("stream reset: %v", f.ErrCode)
			}
		case *http2.GoAwayFrame:
			return 0, upStatus, fmt.Errorf("goaway: %v", f.ErrCode)
		}
	}
	return status, upStatus, nil
}

func (r *run) vhostPart(tables []table, grid []credKind, h2grid []credKind) error {
	for ti, t := range tables {
		env, err := startVhost(t, fmt.Sprintf("127.0.7.%d", 10+ti%200))
		if err != nil {
			return err
		}
		tsym := t.coq(r.sym)
		var items []*vitem
		n := 0
		next := func() string { n++; return fmt.Sprintf("v%d-%d", ti, n) }
		protos := []struct {
			proto  string
			casing int
		}{{"PH10", 0}, {"PH11", 0}, {"PH11", 1}, {"PH11", 2}}
		for _, tg := range t.targets {
			for _, form := range []string{"FOrigin", "FAbsolute", "FConnect"} {
				for _, a := range grid {
					for _, p := range grid {
						for _, pc := range protos {
							items = append(items, &vitem{rq: mkReq(form, pc.proto, tg, a.raw, p.raw, pc.casing), id: next()})
						}
					}
				}
			}
			// streams of an h2c connection opened on an unprotected or failing path (the upgrade needs no credentials)
			up := mkReq("FOrigin", "PH11", target{host: tg.host, path: "/"}, "", "", 0)
			for _, form := range []string{"FOrigin", "FConnect"} {
				for _, a := range h2grid {
					for _, p := range h2grid {
						u := up
						items = append(items, &vitem{rq: mkReq(form, "PH2Stream", tg, a.raw, p.raw, 1), up: &u, id: next()})
					}
				}
			}
		}
		parallel(len(items), 24, func(i int) {
			it := items[i]
			if it.up != nil {
				st, _, err := h2cStream(env.addr, *it.up, it.rq, it.id+"u", it.id)
				it.status = st
				if err != nil {
					it.err = err.Error()
				}
			} else {
				res := rawDo(env.addr, it.rq.wire(it.id), it.rq.method, nil)
				it.status = res.status
				if res.err != nil {
					it.err = res.err.Error()
				}
			}
		})
		time.Sleep(20 * time.Millisecond)
		for _, it := range items {
			got := env.arr.get(it.id)
			it.backend = -1
			if len(got) > 0 {
				it.backend = got[0]
			}
			if len(got) > 1 {
				it.multi = true
			}
			if it.err != "" {
				r.errs++
				r.fail("zz-driver-io:vhost-http", "the driver could not complete a request against the reverse proxy: "+it.err, it.rq.String())
				continue
			}
			// the property, evaluated here on the implementation's behaviour
			kind := "h1"
			if it.up != nil {
				kind = "h2c"
			}
			for _, b := range got {
				rt := t.routes[b]
				if du, dp, any := rt.demands(); any {
					u, p, _ := parseBasicRef(it.rq.auth)
					if u != du || p != dp {
						r.fail(fmt.Sprintf("backend-reached-without-credentials:vhost-http:%s:%s", it.rq.form, kind),
							fmt.Sprintf("route %d (%s%s routeByHTTPUser=%q) demands %q:%q, the request carried Authorization user=%q password=%q and reached its backend (status %d)",
								rt.id, rt.domain, rt.location, rt.byUser, du, dp, u, p, it.status),
							fmt.Sprintf("table %s; %s", t.name, it.rq.String()))
					}
				}
			}
			var text string
			if it.up != nil {
				text = fmt.Sprintf("CServeH2 %s %s %s %d (%d) (* table %s; stream 3 after an h2c upgrade on GET / : %s *)", tsym, it.up.coq(r.sym), it.rq.coq(r.sym), it.status, it.backend, t.name, it.rq.String())
			} else {
				text = fmt.Sprintf("CServe %s %s %d (%d) (* table %s; %s *)", tsym, it.rq.coq(r.sym), it.status, it.backend, t.name, it.rq.String())
			}
			r.addCase(text, it.rq.auth != "" || it.rq.pauth != "", "vhost:"+it.rq.form, "vhost:"+it.rq.proto, fmt.Sprintf("vhost:status-%d", it.status))
		}
		_ = env.srv.Close()
	}
	return nil
}

// ---- tcpmux ----

type muxItem struct {
	rq      areq
	pt      bool
	id      string
	cls     int
	ok200   bool
	backend int
	err     string
}

func muxTables() []table {
	return []table{
		{name: "mux-mixed", routes: []route{
			{0, "h.test", "", "", "", "", true},
			{1, "p.test", "", "", "alice", "apw", true},
			{2, "h.test", "", "alice", "alice", "apw", true},
			{3, "h.test", "", "bob", "", "", true},
			{4, "q.test", "", "", "", "apw", true}, // password without user name: Muxer.handle does not check it
			{5, "*.w.test", "", "", "adm", "pw", true},
		}, targets: []target{{"h.test:443", "", ""}, {"P.test:443", "", ""}, {"q.test", "", ""}, {"a.w.test:1", "", ""}, {"none.test:1", "", ""}}},
	}
}

func (r *run) muxPart(grid []credKind) error {
	for ti, t := range muxTables() {
		for pi, pt := range []bool{false, true} {
			ln, err := net.Listen("tcp", fmt.Sprintf("127.0.7.%d:0", 220+pi))
			if err != nil {
				return err
			}
			m, err := tcpmux.NewHTTPConnectTCPMuxer(ln, pt, 5*time.Second)
			if err != nil {
				return err
			}
			arr := newArrivals()
			ctx, cancel := context.WithCancel(context.Background())
			for _, rt := range t.routes {
				rt := rt
				l, err := m.Listen(ctx, &vhost.RouteConfig{Domain: rt.domain, Location: rt.location, RouteByHTTPUser: rt.byUser, Username: rt.user, Password: rt.pass})
				if err != nil {
					cancel()
					return err
				}
				go func() {
					for {
						c, err := l.Accept()
						if err != nil {
							return
						}
						go func() {
							defer c.Close()
							_ = c.SetDeadline(time.Now().Add(5 * time.Second))
							br := bufio.NewReader(c)
							id := ""
							if pt {
								req, err := http.ReadRequest(br)
								if err != nil {
									return
								}
								id = req.Header.Get("X-Case")
							} else {
								line, err := br.ReadString('\n')
								if err != nil {
									return
								}
								id = strings.TrimSpace(strings.TrimPrefix(line, "case "))
							}
							arr.add(id, rt.id)
							_, _ = io.WriteString(c, "HTTP/1.1 299 Backend\r\nContent-Length: 0\r\n\r\n")
						}()
					}
				}()
			}
			tsym := t.coq(r.sym)
			var items []*muxItem
			n := 0
			for _, tg := range t.targets {
				for _, a := range grid {
					for _, p := range grid {
						n++
						items = append(items, &muxItem{rq: mkReq("FConnect", "PH11", tg, a.raw, p.raw, n%3), pt: pt, id: fmt.Sprintf("m%d-%d-%d", ti, pi, n)})
					}
				}
				// not a CONNECT request: refused without an answer
				for _, form := range []string{"FOrigin", "FAbsolute"} {
					for _, p := range grid[:3] {
						n++
						items = append(items, &muxItem{rq: mkReq(form, "PH11", target{host: tg.host, path: "/"}, p.raw, p.raw, 0), pt: pt, id: fmt.Sprintf("m%d-%d-%d", ti, pi, n)})
					}
				}
			}
			parallel(len(items), 24, func(i int) {
				it := items[i]
				res := rawDo(ln.Addr().String(), strings.Replace(it.rq.wire(it.id), "Connection: close\r\n", "", 1), "CONNECT",
					func(c net.Conn, br *bufio.Reader, first *http.Response) int {
						if first.StatusCode != 200 {
							return 0
						}
						_, _ = io.WriteString(c, "case "+it.id+"\n")
						resp, err := http.ReadResponse(br, &http.Request{Method: "CONNECT"})
						if err != nil {
							return 0
						}
						return resp.StatusCode
					})
				if res.err != nil {
					it.err = res.err.Error()
				}
				switch {
				case res.status == 200:
					it.ok200 = true
					switch res.second {
					case 299:
						it.cls = 200
					case 0:
						it.cls = -200 // a 200 and then silence: not an outcome the model has
					default:
						it.cls = res.second
					}
				case res.status == 299:
					it.cls = 200
				default:
					it.cls = res.status
				}
			})
			time.Sleep(20 * time.Millisecond)
			for _, it := range items {
				got := arr.get(it.id)
				it.backend = -1
				if len(got) > 0 {
					it.backend = got[0]
				}
				if it.err != "" {
					r.errs++
					r.fail("zz-driver-io:tcpmux", "the driver could not complete a request against the tcpmux muxer: "+it.err, it.rq.String())
					continue
				}
				for _, b := range got {
					rt := t.routes[b]
					if rt.user != "" {
						u, p, _ := parseBasicRef(it.rq.pauth)
						if u != rt.user || p != rt.pass {
							r.fail("backend-reached-without-credentials:tcpmux",
								fmt.Sprintf("listener %d (%s routeByHTTPUser=%q) demands %q:%q, the CONNECT request carried Proxy-Authorization user=%q password=%q and was handed to it",
									rt.id, rt.domain, rt.byUser, rt.user, rt.pass, u, p),
								fmt.Sprintf("table %s passthrough=%v; %s", t.name, pt, it.rq.String()))
						}
					}
				}
				r.addCase(fmt.Sprintf("CMux %s %s %s %s %s (%d) (* table %s; %s *)", tsym, hx.Bool(pt), it.rq.coq(r.sym), hx.Z(int64(it.cls)), hx.Bool(it.ok200), it.backend, t.name, it.rq.String()),
					it.rq.auth != "" || it.rq.pauth != "", "mux:"+it.rq.form, fmt.Sprintf("mux:cls-%d", it.cls))
			}
			cancel()
			_ = m.Close()
		}
	}
	return nil
}
