package main

import (
	"fmt"
	"net/textproto"
	"net/url"
	"sort"
	"strings"

	"verifharness/hx"
)

// ---- route / request / response generators ----

type routeSpec struct {
	domain, location, user string
	rewriteHost            string
	headers                map[string]string
	respHeaders            map[string]string
	id                     int // registration number (Register counts from 1)
}

var cfgReqKeys = []string{"x-from-where", "X-Req-Id", "x-custom-1", "Accept", "X-CUSTOM-2", "user-agent", "x-added-by-frp", "Cookie", "X-Real-Ip", "accept-language"}
var cfgRespKeys = []string{"x-served-by", "X-Frame-Options", "cache-control", "Set-Cookie", "X-RESP-1", "server", "x-resp-2", "Content-Type"}

func genHeaderMap(g *hx.Gen, keys []string, allowCollision bool) map[string]string {
	m := map[string]string{}
	n := []int{0, 0, 1, 1, 2, 3, 5}[g.Intn(7)]
	for i := 0; i < n; i++ {
		k := keys[g.Intn(len(keys))]
		dup := false
		for e := range m {
			if strings.EqualFold(e, k) {
				dup = true
			}
		}
		if dup && !allowCollision {
			continue
		}
		if dup {
			k = strings.ToUpper(k)
			if _, ok := m[k]; ok {
				continue
			}
		}
		// configured values travel frpc -> frps as JSON: keep them valid UTF-8 (ASCII)
		m[k] = strings.ToValidUTF8(strings.Map(func(r rune) rune {
			if r >= 0x80 {
				return 'u'
			}
			return r
		}, strings.ToValidUTF8(genValue(g, 1+g.Intn(12)), "u")), "u")
	}
	return m
}

func genRoute(g *hx.Gen, i int) *routeSpec {
	r := &routeSpec{domain: fmt.Sprintf("r%d.c02.test", i)}
	r.location = []string{"", "/", "/api", ""}[g.Intn(4)]
	if g.Chance(0.5) {
		r.rewriteHost = []string{"inner.local", "backend.internal:8080", "X.Example.COM", "10.1.2.3"}[g.Intn(4)]
	}
	r.headers = genHeaderMap(g, cfgReqKeys, g.Chance(0.15))
	r.respHeaders = genHeaderMap(g, cfgRespKeys, g.Chance(0.1))
	return r
}

const valueAlphabet = "abcdefghijklmnopqrstuvwxyzABCDEFGHIJKLMNOPQRSTUVWXYZ0123456789 ,;=\"'()<>@:/[]?{}!#$%&*+-.^_`|~\\"

func genValue(g *hx.Gen, n int) string {
	b := make([]byte, n)
	for i := range b {
		b[i] = valueAlphabet[g.Intn(len(valueAlphabet))]
		if g.Chance(0.01) {
			b[i] = byte(0x80 + g.Intn(0x7f))
		}
	}
	s := strings.Trim(string(b), " ")
	if s == "" {
		s = "v"
	}
	return s
}

const pchars = "abcdefghijklmnopqrstuvwxyzABCDEFGHIJKLMNOPQRSTUVWXYZ0123456789-._~!$&'()*+,;=:@"

var pctEsc = []string{"%2F", "%20", "%41", "%7E", "%C3%A9", "%2f", "%3F", "%25", "%00", "%2B", "%3B"}

func genSegment(g *hx.Gen) string {
	var sb strings.Builder
	n := 1 + g.Intn(10)
	for i := 0; i < n; i++ {
		if g.Chance(0.2) {
			sb.WriteString(pctEsc[g.Intn(len(pctEsc))])
		} else {
			sb.WriteByte(pchars[g.Intn(len(pchars))])
		}
	}
	s := sb.String()
	if s == "." || s == ".." {
		s = "d" + s
	}
	return s
}

func genPath(g *hx.Gen, prefix string) string {
	p := prefix
	if p == "" {
		p = "/"
	}
	n := g.Intn(5)
	for i := 0; i < n; i++ {
		if !strings.HasSuffix(p, "/") {
			p += "/"
		}
		p += genSegment(g)
	}
	if g.Chance(0.15) && !strings.HasSuffix(p, "/") {
		p += "/"
	}
	return p
}

const qchars = pchars + "/?"

// genQuery returns (hasQuestionMark, rawQuery).
func genQuery(g *hx.Gen) (bool, string) {
	switch g.Intn(10) {
	case 0, 1, 2:
		return false, ""
	case 3:
		return true, "" // '?' alone
	case 4: // with ';' : the library sanitises these
		return true, []string{"a=1;b=2", "x=1&y=2;z=3", ";", "k=v;", "a=%2F;b&c=d"}[g.Intn(5)]
	case 5:
		if g.Chance(0.5) { // broken percent escape: sanitised as well
			return true, []string{"a=%zz&b=1", "q=100%", "p=%2&x=y", "ok=1&bad=%G1"}[g.Intn(4)]
		}
	}
	var parts []string
	n := 1 + g.Intn(5)
	for i := 0; i < n; i++ {
		var sb strings.Builder
		m := 1 + g.Intn(8)
		for j := 0; j < m; j++ {
			if g.Chance(0.15) {
				sb.WriteString(pctEsc[g.Intn(len(pctEsc))])
			} else {
				c := qchars[g.Intn(len(qchars))]
				if c == ';' || c == '&' {
					c = '+'
				}
				sb.WriteByte(c)
			}
		}
		if g.Chance(0.8) {
			parts = append(parts, sb.String()+"="+genSegment(g))
		} else {
			parts = append(parts, sb.String())
		}
	}
	q := strings.Join(parts, "&")
	q = strings.ReplaceAll(q, ";", "+")
	return true, q
}

var methods = []string{"GET", "GET", "GET", "POST", "POST", "PUT", "DELETE", "PATCH", "OPTIONS", "HEAD"}

var userHdrNames = []string{"Accept", "accept", "X-Custom-1", "x-cUsToM-1", "X-CUSTOM-2", "x-custom-3", "Cookie", "cookie", "Accept-Language",
	"Cache-Control", "If-None-Match", "Origin", "Referer", "X-Request-Id", "x-req-id", "X-From-Where", "X-Real-IP", "Pragma", "DNT",
	"X-Trace", "x-b3-traceid", "Content-Type", "content-language", "Via", "X-Api-Key", "If-Modified-Since", "accept-charset"}

func genBody(g *hx.Gen, tier string, allowBig bool) []byte {
	var n int
	if allowBig {
		n = (1 << 20) + g.Intn(2<<20)
		if tier == "thorough" && g.Chance(0.3) {
			n = (4 + g.Intn(5)) << 20
		}
		return g.Bytes(n)
	}
	switch g.Intn(12) {
	case 0, 1:
		n = 0
	case 2, 3, 4, 5:
		n = 1 + g.Intn(200)
	case 6, 7:
		n = 4096 + g.Intn(100)
	case 8, 9:
		n = 32*1024 + g.Intn(40*1024) // more than one 32 KiB copy buffer
	case 10:
		n = 256*1024 + g.Intn(1000)
	default:
		n = 100
		if allowBig {
			n = (1 + g.Intn(3)) << 20
			if tier == "thorough" && g.Chance(0.3) {
				n = (4 + g.Intn(5)) << 20
			}
		}
	}
	return g.Bytes(n)
}

func genChunks(g *hx.Gen) []int {
	n := 1 + g.Intn(4)
	c := make([]int, n)
	for i := range c {
		c[i] = []int{1, 7, 100, 1024, 4096, 16384, 65536}[g.Intn(7)]
	}
	return c
}

type reqGen struct {
	req      *userReq
	path     string
	hasq     bool
	query    string
	absform  bool
	hostSent string
}

func genRequest(g *hx.Gen, rt *routeSpec, tier string, allowBig bool) *reqGen {
	r := &userReq{method: methods[g.Intn(len(methods))]}
	if allowBig {
		r.method = g.Pick([]string{"POST", "PUT", "PATCH"})
	}
	path := genPath(g, rt.location)
	hasq, q := genQuery(g)
	target := path
	if hasq {
		target += "?" + q
	}
	host := rt.domain
	switch g.Intn(8) {
	case 0:
		host = strings.ToUpper(host)
	case 1:
		host += ":8080"
	case 2:
		host += "."
	}
	rg := &reqGen{req: r, path: path, hasq: hasq, query: q, hostSent: host}
	if g.Chance(0.08) {
		rg.absform = true
		target = "http://" + host + target
	}
	r.target, r.host = target, host
	// headers
	n := []int{0, 1, 2, 3, 4, 5, 6, 8, 12}[g.Intn(9)]
	if g.Chance(0.02) {
		n = 70
	}
	for i := 0; i < n; i++ {
		k := userHdrNames[g.Intn(len(userHdrNames))]
		if g.Chance(0.3) {
			k = fmt.Sprintf("X-Gen-%d", g.Intn(40))
		}
		r.hdrs = append(r.hdrs, hdr{k, genValue(g, 1+g.Intn(16))})
	}
	if g.Chance(0.02) {
		r.hdrs = append(r.hdrs, hdr{"X-Large", genValue(g, 3000+g.Intn(5000))})
	}
	if g.Chance(0.5) {
		r.hdrs = append(r.hdrs, hdr{g.Pick([]string{"User-Agent", "user-agent"}), "c02-client/1.0 (" + genValue(g, 6) + ")"})
	}
	if g.Chance(0.3) {
		r.hdrs = append(r.hdrs, hdr{"Accept-Encoding", g.Pick([]string{"gzip", "br, gzip", "identity", "deflate"})})
	}
	if g.Chance(0.1) {
		r.hdrs = append(r.hdrs, hdr{"Range", "bytes=0-99"})
	}
	if g.Chance(0.1) {
		r.hdrs = append(r.hdrs, hdr{"Authorization", g.Pick([]string{"Bearer abc.def", "Basic dXNlcjpwYXNz", "Digest x=y"})})
	}
	// forwarding headers sent by the user
	nx := []int{0, 0, 0, 1, 1, 2, 3}[g.Intn(7)]
	for i := 0; i < nx; i++ {
		v := fmt.Sprintf("10.%d.%d.%d", g.Intn(256), g.Intn(256), g.Intn(256))
		if g.Chance(0.3) {
			v += fmt.Sprintf(", 192.168.%d.%d", g.Intn(256), g.Intn(256))
		}
		r.hdrs = append(r.hdrs, hdr{g.Pick([]string{"X-Forwarded-For", "x-forwarded-for", "X-FORWARDED-FOR"}), v})
	}
	if g.Chance(0.15) {
		r.hdrs = append(r.hdrs, hdr{"X-Forwarded-Host", "spoofed.example"})
	}
	if g.Chance(0.15) {
		r.hdrs = append(r.hdrs, hdr{"x-forwarded-proto", "https"})
	}
	if g.Chance(0.1) {
		r.hdrs = append(r.hdrs, hdr{"Forwarded", "for=192.0.2.60;proto=http"})
	}
	// hop-by-hop
	if g.Chance(0.2) {
		r.hdrs = append(r.hdrs, hdr{g.Pick([]string{"Connection", "connection"}), g.Pick([]string{"x-hop-a", "X-Hop-A, x-hop-b", "keep-alive, X-Gen-3", "x-custom-1 ,"})})
		r.hdrs = append(r.hdrs, hdr{"X-Hop-A", "1"})
		if g.Chance(0.5) {
			r.hdrs = append(r.hdrs, hdr{"x-hop-b", "2"})
		}
	}
	if g.Chance(0.1) {
		r.hdrs = append(r.hdrs, hdr{"Keep-Alive", "timeout=5"})
	}
	if g.Chance(0.05) {
		r.hdrs = append(r.hdrs, hdr{"Proxy-Connection", "keep-alive"})
	}
	if g.Chance(0.05) {
		r.hdrs = append(r.hdrs, hdr{"TE", g.Pick([]string{"trailers", "gzip, Trailers", "deflate"})})
	}
	// shuffle so that positions of repeated names vary
	g.R.Shuffle(len(r.hdrs), func(i, j int) { r.hdrs[i], r.hdrs[j] = r.hdrs[j], r.hdrs[i] })
	// body
	switch r.method {
	case "HEAD":
		r.framing = "none"
	case "GET", "OPTIONS", "DELETE":
		if g.Chance(0.2) {
			r.body = genBody(g, tier, false)
			r.framing = g.Pick([]string{"cl", "chunked"})
		} else {
			r.framing = "none"
		}
	default:
		r.body = genBody(g, tier, allowBig)
		r.framing = g.Pick([]string{"cl", "cl", "chunked"})
		r.chunks = genChunks(g)
	}
	if r.framing == "chunked" && r.chunks == nil {
		r.chunks = genChunks(g)
	}
	return rg
}

var statuses = []int{200, 200, 200, 200, 201, 202, 203, 204, 206, 301, 302, 303, 304, 307, 308, 400, 401, 403, 404, 405, 409, 410, 418, 429, 500, 501, 502, 503, 504}

var respHdrNames = []string{"Set-Cookie", "set-cookie", "X-Resp-1", "x-rEsP-1", "Cache-Control", "ETag", "Location", "Vary", "vary", "X-Served-By",
	"Server", "WWW-Authenticate", "Content-Language", "Last-Modified", "X-Frame-Options", "Link", "link", "Retry-After"}

func genResponse(g *hx.Gen, method, tier string, allowBig bool) *scripted {
	s := &scripted{status: statuses[g.Intn(len(statuses))]}
	n := []int{0, 1, 2, 3, 4, 6, 14}[g.Intn(7)]
	for i := 0; i < n; i++ {
		k := respHdrNames[g.Intn(len(respHdrNames))]
		if g.Chance(0.25) {
			k = fmt.Sprintf("X-R-%d", g.Intn(30))
		}
		s.hdrs = append(s.hdrs, hdr{k, genValue(g, 1+g.Intn(16))})
	}
	if g.Chance(0.85) {
		s.hdrs = append(s.hdrs, hdr{g.Pick([]string{"Content-Type", "content-type"}), g.Pick([]string{"text/plain", "application/json", "application/octet-stream", "text/html; charset=utf-8"})})
	}
	if g.Chance(0.2) {
		s.hdrs = append(s.hdrs, hdr{"Date", "Mon, 02 Jan 2006 15:04:05 GMT"})
	}
	if g.Chance(0.15) {
		s.hdrs = append(s.hdrs, hdr{"Connection", "x-resp-hop"}, hdr{"X-Resp-Hop", "z"})
	}
	if g.Chance(0.1) {
		s.hdrs = append(s.hdrs, hdr{"Keep-Alive", "timeout=9"})
	}
	g.R.Shuffle(len(s.hdrs), func(i, j int) { s.hdrs[i], s.hdrs[j] = s.hdrs[j], s.hdrs[i] })
	if method != "HEAD" && s.status != 204 && s.status != 304 {
		s.body = genBody(g, tier, allowBig)
	}
	s.framing = g.Pick([]string{"cl", "cl", "chunked", "chunked", "close"})
	if s.framing == "close" {
		// the backend announces "Connection: close"; net/http's Transport then deletes every Connection value
		// of the response (transfer.go shouldClose), so a scripted Connection header listing other tokens
		// would not be honoured by the library: not combined
		var hs []hdr
		for _, kv := range s.hdrs {
			if !strings.EqualFold(kv[0], "Connection") {
				hs = append(hs, kv)
			}
		}
		s.hdrs = hs
	}
	s.chunks = genChunks(g)
	return s
}

// ---- Coq printers ----

// Strings occur several times in one case (what the user sent, what the backend saw); every
// distinct string of a case is written once and let-bound, which keeps the case files small
// (Coq needs ~60 us per literal character).
type termBuilder struct {
	names map[string]string
	defs  []string
}

var tb *termBuilder

func beginCase() { tb = &termBuilder{names: map[string]string{}} }

func S(s string) string {
	if tb == nil || len(s) < 4 {
		return hx.HxS(s)
	}
	if n, ok := tb.names[s]; ok {
		return n
	}
	n := fmt.Sprintf("s%d", len(tb.names))
	tb.names[s] = n
	tb.defs = append(tb.defs, "let "+n+" := "+hx.HxS(s)+" in ")
	return n
}

func endCase(body string) string {
	t := "(" + strings.Join(tb.defs, "") + body + ")"
	tb = nil
	return t
}


func coqPairs(m []hdr) string {
	items := make([]string, len(m))
	for i, kv := range m {
		items[i] = "(" + S(kv[0]) + ", " + S(kv[1]) + ")"
	}
	return hx.List(items)
}

// mapOrder: the entries of a configured header map in an order consistent with the values the
// observer saw win (Go does not fix the iteration order of the range loop; it only matters when
// two keys share a canonical form).  observed: canonical key -> value seen.
func mapOrder(m map[string]string, observed func(canon string) (string, bool), canon func(string) string) []hdr {
	keys := hx.SortedKeys(m)
	var out, last []hdr
	for _, k := range keys {
		if v, ok := observed(canon(k)); ok && v == m[k] {
			last = append(last, hdr{k, m[k]})
		} else {
			out = append(out, hdr{k, m[k]})
		}
	}
	return append(out, last...)
}

func coqRoute(r *routeSpec, hdrs, resp []hdr) string {
	return fmt.Sprintf("{| hc_domain := %s; hc_location := %s; hc_user := %s; hc_rewrite_host := %s; hc_headers := %s; hc_resp_headers := %s; hc_endpoint := None; hc_id := %d |}",
		S(r.domain), S(r.location), S(r.user), S(r.rewriteHost), coqPairs(hdrs), coqPairs(resp), r.id)
}

// coqReq prints the user's request as the server parses it (Host apart, Transfer-Encoding apart).
func coqReq(rg *reqGen, clientIP string, tls bool) string {
	var hs []hdr
	for _, kv := range rg.req.hdrs {
		hs = append(hs, kv)
	}
	if rg.req.framing == "cl" {
		hs = append(hs, hdr{"Content-Length", fmt.Sprint(len(rg.req.body))})
	}
	urlhost := "[]"
	scheme := "[]"
	if rg.absform {
		urlhost = S(rg.hostSent)
		scheme = S("http")
	}
	ip := "None"
	if clientIP != "" {
		ip = "(Some " + S(clientIP) + ")"
	}
	return fmt.Sprintf("{| hq_method := %s; hq_path := %s; hq_hasq := %s; hq_query := %s; hq_host := %s; hq_hdrs := %s; hq_body := %s; hq_client_ip := %s; hq_tls := %s; hq_scheme := %s; hq_urlhost := %s |}",
		S(rg.req.method), S(rg.path), hx.Bool(rg.hasq), S(rg.query), S(rg.hostSent), coqPairs(hs),
		S(bodyID(rg.req.body)), ip, hx.Bool(tls), scheme, urlhost)
}

func coqSeen(s *seenReq) string {
	return fmt.Sprintf("{| sn_method := %s; sn_target := %s; sn_hdrs := %s; sn_body := %s; sn_route := %d |}",
		S(s.method), S(s.target), coqPairs(s.hdrs), S(bodyID(s.body)), s.route)
}

func coqScripted(s *scripted, method string) string {
	body := s.body
	if method == "HEAD" || s.status == 204 || s.status == 304 {
		body = nil
	}
	return fmt.Sprintf("{| hs_status := %d; hs_hdrs := %s; hs_body := %s |}", s.status, coqPairs(s.hdrs), S(bodyID(body)))
}

func coqGotFor(r *userResp, s *scripted) string {
	backendDate := false
	for _, kv := range s.hdrs {
		if strings.EqualFold(kv[0], "Date") {
			backendDate = true
		}
	}
	if backendDate {
		return coqGot(r)
	}
	c := *r
	c.hdrs = nil
	for _, kv := range r.hdrs {
		if !strings.EqualFold(kv[0], "Date") {
			c.hdrs = append(c.hdrs, kv)
		}
	}
	return coqGot(&c)
}

func coqGot(r *userResp) string {
	return fmt.Sprintf("{| hs_status := %d; hs_hdrs := %s; hs_body := %s |}", r.status, coqPairs(r.hdrs), S(bodyID(r.body)))
}

// reencQuery: the library's own answer for a query it decides to sanitise (oracle for the model).
func reencQuery(q string) string {
	v, _ := url.ParseQuery(q)
	return v.Encode()
}

func sortedCounts(m map[string]int) map[string]int {
	ks := make([]string, 0, len(m))
	for k := range m {
		ks = append(ks, k)
	}
	sort.Strings(ks)
	o := map[string]int{}
	for _, k := range ks {
		o[k] = m[k]
	}
	return o
}

func bucket(n int) string {
	switch {
	case n == 0:
		return "0"
	case n <= 256:
		return "1-256"
	case n <= 32*1024:
		return "257-32K"
	case n <= 1<<20:
		return "32K-1M"
	}
	return ">1M"
}

func canonGo(k string) string { return textproto.CanonicalMIMEHeaderKey(k) }
