(* C08 correspondence: observed behaviour of the real server/visitor.Manager, the real
   nathole.Controller and an in-process frps against Model/Visitor.v, plus the property
   monitors evaluated on the observations alone. *)
From FRP Require Export Corr.Common Model.Visitor Model.VisitorPath.
Open Scope Z_scope.

(* util.GetAuthKey is an oracle: the driver lists the real function's value for every
   (secret key, timestamp) pair that can meet in the case. A missing pair is reported (code 1). *)
Definition htable := list (bytes * Z * bytes).

Definition hfind (tbl : htable) (sk : bytes) (ts : Z) : option bytes :=
  match find (fun e : bytes * Z * bytes => bytes_eqb (fst (fst e)) sk && (snd (fst e) =? ts)) tbl with
  | Some e => Some (snd e)
  | None => None
  end.

(* the sentinel is never produced by the generators (signatures are hex digests, "" or mangled digests) *)
Definition ohash (tbl : htable) (sk : bytes) (ts : Z) : bytes :=
  match hfind tbl sk ts with Some h => h | None => [xff; x00; xff] end.

Definition htable_covers (tbl : htable) (sks : list bytes) (tss : list Z) : bool :=
  forallb (fun sk => forallb (fun ts => match hfind tbl sk ts with Some _ => true | None => false end) tss) sks.

(* ---- observations ---- *)
Inductive vobs :=
| ObsZ (z : Z)
  (* Accept on the listener: connection id (-1 none), the flags/key of the mirror stack the driver put on the
     peer end, and whether random payloads crossed unchanged in both directions *)
| ObsAccept (cid : Z) (ue uc : bool) (key : bytes) (transparent : bool)
  (* HandleVisitor: class of the NatHoleResp sent to the visitor (9 = none), owner notified (proxy name, sid),
     number of other owners' channels that received something, sessions while the owner was being notified,
     sessions after HandleVisitor returned *)
| ObsNh (resp : Z) (notified : option (bytes * bytes)) (others mid_sessions end_sessions : Z).

Definition lout_code (o : vm_lout) : Z := match o with VLOk => 0 | VLErrRepeated => 1 end.
Definition vm_out_code (o : vm_out) : Z :=
  match o with
  | VOk => 0 | VOkDropped => 1 | VErrNoListener => 2 | VErrAuth => 3 | VErrUser => 4 | VErrEnc => 5 | VErrClosed => 6
  end.
Definition nh_resp_code (o : vnh_out) : Z :=
  match o with NhPreOk => 0 | NhErrNoServer => 1 | NhErrUser => 2 | NhErrAuth => 3 | NhNotified _ _ => 9 | NhUndelivered => 9 end.

(* ---- driver (i): visitor.Manager ---- *)
Inductive vm_op :=
| VmListen (name sk : bytes) (allow : list bytes)
| VmNewConn (name : bytes) (cid ts : Z) (sign : bytes) (ue uc : bool) (user : bytes)
| VmCloseListener (name : bytes)
| VmListenerClose (name : bytes)
| VmAccept (name : bytes).

Definition obs_eq_accept (oc : option vconn) (o : vobs) : bool :=
  match oc, o with
  | None, ObsAccept cid _ _ _ _ => cid =? -1
  | Some c, ObsAccept cid ue uc key tr => (vc_id c =? cid) && vstack_eqb (vc_stack c) (vstack ue uc key) && tr
  | _, _ => false
  end.

Definition vm_step (hash : bytes -> Z -> bytes) (t : vtable) (op : vm_op) (o : vobs) : vtable * bool :=
  match op with
  | VmListen name sk allow =>
      let '(t', r) := vm_listen t name sk allow in
      (t', match o with ObsZ z => z =? lout_code r | _ => false end)
  | VmNewConn name cid ts sign ue uc user =>
      let '(t', r) := vm_new_conn hash t name cid ts sign ue uc user true in
      (t', match o with ObsZ z => z =? vm_out_code r | _ => false end)
  | VmCloseListener name => (vm_close_listener t name, true)
  | VmListenerClose name => (vm_listener_close t name, true)
  | VmAccept name =>
      let '(t', oc) := vm_accept t name in (t', obs_eq_accept oc o)
  end.

Definition vm_op_code (op : vm_op) : Z :=
  match op with VmListen _ _ _ => 11 | VmNewConn _ _ _ _ _ _ _ => 12 | VmCloseListener _ => 13
              | VmListenerClose _ => 14 | VmAccept _ => 15 end.

Fixpoint vm_replay (hash : bytes -> Z -> bytes) (t : vtable) (i : Z) (ops : list vm_op) (obs : list vobs) : Z :=
  match ops, obs with
  | [], [] => 0
  | op :: ops', o :: obs' =>
      let '(t', ok) := vm_step hash t op o in
      if ok then vm_replay hash t' (i + 1) ops' obs' else vm_op_code op
  | _, _ => 2
  end.

Definition vm_sks (ops : list vm_op) : list bytes :=
  flat_map (fun op => match op with VmListen _ sk _ => [sk] | _ => [] end) ops.
Definition vm_tss (ops : list vm_op) : list Z :=
  flat_map (fun op => match op with VmNewConn _ _ ts _ _ _ _ => [ts] | _ => [] end) ops.

(* ---- driver (ii): nathole.Controller ---- *)
Inductive nh_op :=
| NhListen (name sk : bytes) (allow : list bytes)
| NhClose (name : bytes)
| NhVisitor (name : bytes) (ts : Z) (sign : bytes) (pre : bool) (user : bytes) (recv : bool)
  (* recv: the driver has a receiver on the owners' channels (false = owner gone: nobody receives for NatHoleTimeout) *)
| NhSessionEnd (sid : bytes)   (* an admitted HandleVisitor call was observed to have returned *)
| NhCount.                     (* observe len(sessions) *)

Definition opt_pair_eqb (a b : option (bytes * bytes)) : bool :=
  match a, b with
  | None, None => true
  | Some (x, y), Some (x', y') => bytes_eqb x x' && bytes_eqb y y'
  | _, _ => false
  end.

Definition nh_step (hash : bytes -> Z -> bytes) (s : vnh_state) (op : nh_op) (o : vobs) : vnh_state * bool :=
  match op with
  | NhListen name sk allow =>
      let '(s', r) := vnh_listen_client s name sk allow in
      (s', match o with ObsZ z => z =? lout_code r | _ => false end)
  | NhClose name => (vnh_close_client s name, true)
  | NhVisitor name ts sign pre user recv =>
      match o with
      | ObsNh resp notified others mid fin =>
          let sid := match notified with Some (_, sid) => sid | None => [] end in
          let before := Z.of_nat (length (nh_sessions s)) in
          let '(s1, r) := vnh_handle_visitor hash s name ts sign pre user sid recv in
          let ok :=
            (resp =? nh_resp_code r) && (others =? 0) &&
            opt_pair_eqb notified (match r with NhNotified n sid' => Some (n, sid') | _ => None end) &&
            (* sessions in the table: while the owner is being notified, and when the step is over *)
            (match r with NhNotified _ _ => mid =? Z.of_nat (length (nh_sessions s1)) | _ => mid =? before end) &&
            (fin =? Z.of_nat (length (nh_sessions s1))) in
          (s1, ok)
      | _ => (s, false)
      end
  | NhSessionEnd sid => (vnh_session_end s sid, true)
  | NhCount => (s, match o with ObsZ z => z =? Z.of_nat (length (nh_sessions s)) | _ => false end)
  end.

Definition nh_op_code (op : nh_op) : Z :=
  match op with NhListen _ _ _ => 21 | NhClose _ => 22 | NhVisitor _ _ _ pre _ _ => if pre then 23 else 24
              | NhSessionEnd _ => 25 | NhCount => 26 end.

Fixpoint nh_replay (hash : bytes -> Z -> bytes) (s : vnh_state) (i : Z) (ops : list nh_op) (obs : list vobs) : Z :=
  match ops, obs with
  | [], [] => 0
  | op :: ops', o :: obs' =>
      let '(s', ok) := nh_step hash s op o in
      if ok then nh_replay hash s' (i + 1) ops' obs' else nh_op_code op
  | _, _ => 2
  end.

Definition nh_sks (ops : list nh_op) : list bytes :=
  flat_map (fun op => match op with NhListen _ sk _ => [sk] | _ => [] end) ops.
Definition nh_tss (ops : list nh_op) : list Z :=
  flat_map (fun op => match op with NhVisitor _ ts _ _ _ _ => [ts] | _ => [] end) ops.

(* ---- driver (iii): in-process frps with scripted sessions ---- *)
(* observation per system op:
     SRegister      ObsZ 0 ok | 1 "already exists" | 2 "repeated" | 7 no session
     SVisitorConn   ObsZ vm_out_code | 8 "no client control found"
     SAccept        ObsAccept (owner received the work-connection request and StartWorkConn for that proxy ...)
     SNatHole       ObsNh resp notified others -1 -1 (session counts are not observable from outside)
     others         ObsZ 0 *)
(* NewProxyResp: 0 no error | 1 "already exists" | 2 "repeated" | 3 "already in use" | 7 no session *)
Definition reg_out_code (o : sout) : Z :=
  match o with
  | OReg VLOk => 0 | ORegErrExists => 1 | OReg VLErrRepeated => 2 | ORegErrInUse => 3 | ONoSession => 7 | _ => 99
  end.

Definition sys_obs_ok (op : sop) (o : sout) (ob : vobs) : bool :=
  match op, o, ob with
  | (SRegister _ _ _ _ _ | SRegisterLate _ _ _ _ _), (OReg _ | ORegErrExists | ORegErrInUse | ONoSession), ObsZ z => z =? reg_out_code o
  | SVisitorConn _ _ _ _ _ _ _ _, OVis r, ObsZ z => z =? vm_out_code r
  | SVisitorConn _ _ _ _ _ _ _ _, OVisErrNoControl, ObsZ z => z =? 8
  | SAccept _, OAccepted c, _ => obs_eq_accept (Some c) ob
  | SAccept _, OAcceptNone, _ => obs_eq_accept None ob
  | SNatHole _ _ _ _ _ _ _, ONh r, ObsNh resp notified others _ _ =>
      (resp =? nh_resp_code r) && (others =? 0) &&
      opt_pair_eqb notified (match r with NhNotified n sid' => Some (n, sid') | _ => None end)
  | SNatHole _ _ _ _ _ _ _, ONoSession, ObsZ z => z =? 7
  | (SLogin _ _ | SLoginVia _ _ _ | SLogout _ | SClose _ _ | SSessionEnd _), ONone, ObsZ z => z =? 0
  | SLoginVia _ _ _, OLoginRefused, ObsZ z => z =? 6   (* LoginResp carries the plugin's reject reason *)
  | _, _, _ => false
  end.

Definition sys_op_code (op : sop) : Z :=
  match op with
  | SLogin _ _ => 31 | SLoginVia _ _ _ => 41 | SLogout _ => 32 | SRegister _ _ _ _ _ => 33 | SRegisterLate _ _ _ _ _ => 40 | SClose _ _ => 34
  | SVisitorConn _ _ _ _ _ _ _ _ => 35 | SNatHole _ _ _ _ pre _ _ => if pre then 36 else 37
  | SSessionEnd _ => 38 | SAccept _ => 39
  end.

Fixpoint sys_replay (hash : bytes -> Z -> bytes) (s : sys) (i : Z) (ops : list sop) (obs : list vobs) : Z :=
  match ops, obs with
  | [], [] => 0
  | op :: ops', o :: obs' =>
      let '(s', r) := sys_step hash s op in
      if sys_obs_ok op r o then sys_replay hash s' (i + 1) ops' obs' else sys_op_code op
  | _, _ => 2
  end.

Definition sys_sks (ops : list sop) : list bytes :=
  flat_map (fun op => match op with SRegister _ _ _ sk _ | SRegisterLate _ _ _ sk _ => [sk] | _ => [] end) ops.
Definition sys_tss (ops : list sop) : list Z :=
  flat_map (fun op => match op with SVisitorConn _ _ ts _ _ _ _ _ => [ts] | SNatHole _ _ ts _ _ _ _ => [ts] | _ => [] end) ops.

(* ---- transparency through real frpc owner + real frpc visitor (observed only) ---- *)
(* CE2E visitor flags, proxy flags, payload length, delivered = sent in both directions, backend contacted once *)

Inductive case :=
| CVm (tbl : htable) (ops : list vm_op) (obs : list vobs)
| CNh (tbl : htable) (ops : list nh_op) (obs : list vobs)
| CSys (tbl : htable) (ops : list sop) (obs : list vobs)
| CE2E (vue vuc pue puc : bool) (kind : Z) (len : Z) (forward_ok backward_ok : bool) (backend_conns : Z)
  (* an owner configuration in format fmt (0 toml 1 yaml 2 json 3 legacy ini 4 command-line flags) loaded by the real
     loader, completed, marshalled into NewProxy and registered on an in-process frps by a session of [owner]; then a
     correctly signed request of [visitor]'s session: the allowUsers the message carried, and whether it was admitted *)
| CCfg (fmt : Z) (k : pkind) (src : cfg_allow) (owner visitor : bytes) (wire : list bytes) (admitted : bool)
  (* xtcp data path after the hole is punched: real XTCPProxy listen function (0 kcp, 1 quic) against the real xtcp
     visitor over loopback UDP; the visitor's and the proxy's declared flags, token <> secret key; a backend that records
     what it gets and answers, possibly after speaking first, possibly to a user that stays silent until then *)
| CXtcp (proto : Z) (vue vuc pue puc : bool) (speaks_first user_silent : bool) (transparent : bool) (backend_conns : Z)
  (* real stcp (0) / sudp (1) visitor against a server that writes the NewVisitorConnResp frame and the first
     bytes of the stream in one write *)
| CFirst (kind : Z) (ue uc : bool) (delivered : bool)
  (* an admitted stcp (0) / sudp (1) visitor stream that is [age_ms] old when the server side sends again, the
     visitor having been idle since the handshake *)
| CLong (kind : Z) (age_ms : Z) (early_delivered late_delivered : bool).

Definition fmt_of (z : Z) : cfg_format :=
  if z =? 0 then FToml else if z =? 1 then FYaml else if z =? 2 then FJson else if z =? 3 then FIni else FFlags.

Fixpoint blist_eqb (a b : list bytes) : bool :=
  match a, b with
  | [], [] => true
  | x :: a', y :: b' => bytes_eqb x y && blist_eqb a' b'
  | _, _ => false
  end.

(* ---- property monitors on the observations alone ---- *)
(* A minimal specification state: which registrations are live, by name. *)
Record mreg := { mr_sk : bytes; mr_allow : list bytes }.

Definition mon_admit (hash : bytes -> Z -> bytes) (live : list (bytes * mreg)) (name : bytes) (ts : Z) (sign user : bytes)
           (need_sig : bool) : bool :=
  match vget name live with
  | Some r => (negb need_sig || bytes_eqb sign (hash (mr_sk r) ts)) && vallowed (mr_allow r) user
  | None => false
  end.

(* Manager trace: every NewConn observed as queued (0) satisfies key+user against the live registration;
   every connection Accept yields was queued by such a NewConn on that name (tracked in [adm]). *)
Fixpoint mon_vm (hash : bytes -> Z -> bytes) (live : list (bytes * mreg)) (adm : list (bytes * Z))
         (ops : list vm_op) (obs : list vobs) : bool :=
  match ops, obs with
  | op :: ops', o :: obs' =>
      match op, o with
      | VmListen name sk allow, ObsZ z =>
          if z =? 0 then mon_vm hash (vset name {| mr_sk := sk; mr_allow := allow |} live) adm ops' obs'
          else mon_vm hash live adm ops' obs'
      | VmCloseListener name, _ => mon_vm hash (vdel name live) adm ops' obs'
      | VmNewConn name cid ts sign _ _ user, ObsZ z =>
          if z =? 0 then mon_admit hash live name ts sign user true && mon_vm hash live ((name, cid) :: adm) ops' obs'
          else mon_vm hash live adm ops' obs'
      | VmAccept name, ObsAccept cid _ _ _ tr =>
          if cid =? -1 then mon_vm hash live adm ops' obs'
          else existsb (fun e : bytes * Z => bytes_eqb (fst e) name && (snd e =? cid)) adm && tr && mon_vm hash live adm ops' obs'
      | _, _ => mon_vm hash live adm ops' obs'
      end
  | _, _ => true
  end.

(* Controller trace: owner notified only for a signed, allowed, non-pre-check request on a live proxy, and the
   notified owner is that proxy's; refused or pre-check requests leave the session count unchanged. *)
Fixpoint mon_nh (hash : bytes -> Z -> bytes) (live : list (bytes * mreg)) (ops : list nh_op) (obs : list vobs) : bool :=
  match ops, obs with
  | op :: ops', o :: obs' =>
      match op, o with
      | NhListen name sk allow, ObsZ z =>
          if z =? 0 then mon_nh hash (vset name {| mr_sk := sk; mr_allow := allow |} live) ops' obs'
          else mon_nh hash live ops' obs'
      | NhClose name, _ => mon_nh hash (vdel name live) ops' obs'
      | NhVisitor name ts sign pre user _, ObsNh resp notified others mid fin =>
          (others =? 0) &&
          match notified with
          | Some (n, _) => bytes_eqb n name && negb pre && mon_admit hash live name ts sign user true
          | None => (mid =? fin) && (if resp =? 0 then pre && mon_admit hash live name ts sign user false else true)
          end && mon_nh hash live ops' obs'
      | NhCount, ObsZ z => (z =? 0) && mon_nh hash live ops' obs'
      | _, _ => mon_nh hash live ops' obs'
      end
  | _, _ => true
  end.

(* System trace: same clauses stated over sessions: the user is the login user of the visitor's run id. *)
Record msys := { ms_users : list (bytes * bytes); ms_live : list (bytes * (bytes * pkind * mreg)) }.

Definition ms_drop_owner (rid : bytes) (l : list (bytes * (bytes * pkind * mreg))) :=
  filter (fun e : bytes * (bytes * pkind * mreg) => negb (bytes_eqb (fst (fst (snd e))) rid)) l.

Fixpoint mon_sys (hash : bytes -> Z -> bytes) (m : msys) (adm : list (bytes * Z)) (ops : list sop) (obs : list vobs) : bool :=
  match ops, obs with
  | op :: ops', o :: obs' =>
      match op, o with
      | SLogin rid user, _ =>
          mon_sys hash {| ms_users := vset rid user (ms_users m); ms_live := ms_drop_owner rid (ms_live m) |} adm ops' obs'
      | SLoginVia rid claimed answers, ObsZ z =>
          (* the authenticated user is what the last rewriting plugin said, else the claimed one; rejected: no session *)
          if z =? 0 then
            match plugin_login claimed answers with
            | Some user => mon_sys hash {| ms_users := vset rid user (ms_users m); ms_live := ms_drop_owner rid (ms_live m) |} adm ops' obs'
            | None => false
            end
          else mon_sys hash m adm ops' obs'
      | SLogout rid, _ =>
          mon_sys hash {| ms_users := vdel rid (ms_users m); ms_live := ms_drop_owner rid (ms_live m) |} adm ops' obs'
      | (SRegister rid k name sk allow | SRegisterLate rid k name sk allow), ObsZ z =>
          if z =? 0 then
            match vget rid (ms_users m) with
            | Some u => mon_sys hash {| ms_users := ms_users m;
                                        ms_live := vset name (rid, k, {| mr_sk := sk; mr_allow := vdefault_allow allow u |}) (ms_live m) |} adm ops' obs'
            | None => false
            end
          else mon_sys hash m adm ops' obs'
      | SClose rid name, _ =>
          match vget name (ms_live m) with
          | Some (o', _, _) => if bytes_eqb o' rid
                               then mon_sys hash {| ms_users := ms_users m; ms_live := vdel name (ms_live m) |} adm ops' obs'
                               else mon_sys hash m adm ops' obs'
          | None => mon_sys hash m adm ops' obs'
          end
      | SVisitorConn rid name ts sign _ _ cid _, ObsZ z =>
          if z =? 0 then
            match vget name (ms_live m), (match rid with [] => Some [] | _ => vget rid (ms_users m) end) with
            | Some (_, k, r), Some user =>
                negb (is_hole k) && bytes_eqb sign (hash (mr_sk r) ts) && vallowed (mr_allow r) user &&
                mon_sys hash m ((name, cid) :: adm) ops' obs'
            | _, _ => false
            end
          else mon_sys hash m adm ops' obs'
      | SAccept name, ObsAccept cid _ _ _ tr =>
          if cid =? -1 then mon_sys hash m adm ops' obs'
          else existsb (fun e : bytes * Z => bytes_eqb (fst e) name && (snd e =? cid)) adm && tr && mon_sys hash m adm ops' obs'
      | SNatHole rid name ts sign pre _ _, ObsNh resp notified others _ _ =>
          (others =? 0) &&
          match notified with
          | Some (n, _) =>
              bytes_eqb n name && negb pre &&
              match vget name (ms_live m), vget rid (ms_users m) with
              | Some (_, k, r), Some user => is_hole k && bytes_eqb sign (hash (mr_sk r) ts) && vallowed (mr_allow r) user
              | _, _ => false
              end
          | None =>
              if resp =? 0 then
                pre && match vget name (ms_live m), vget rid (ms_users m) with
                       | Some (_, k, r), Some user => is_hole k && vallowed (mr_allow r) user
                       | _, _ => false
                       end
              else true
          end && mon_sys hash m adm ops' obs'
      | _, _ => mon_sys hash m adm ops' obs'
      end
  | _, _ => true
  end.

Definition xtcp_recorded (c : case) : bool :=
  match c with
  | CXtcp proto vue vuc pue puc first silent _ _ =>
      negb (Bool.eqb vue pue && Bool.eqb vuc puc) || ((proto =? 1) && first && silent)
  | _ => false
  end.

Definition C08_holds (c : case) : bool :=
  match c with
  | CVm tbl ops obs => mon_vm (ohash tbl) [] [] ops obs
  | CNh tbl ops obs => mon_nh (ohash tbl) [] ops obs
  | CSys tbl ops obs => mon_sys (ohash tbl) {| ms_users := []; ms_live := [] |} [] ops obs
  | CE2E _ _ _ _ kind _ fw bw n =>
      (* kind 0: right key and allowed user: transparent, backend contacted once;
         kind 1 (wrong key) / 2 (user outside the default allowUsers): nothing comes back, backend never contacted *)
      if kind =? 0 then fw && bw && (n =? 1) else negb fw && negb bw && (n =? 0)
  | CCfg fmt k src owner visitor wire admitted =>
      (* the property itself: with the default (absent or empty list) only the owner's user gets in; '*' = anyone *)
      Bool.eqb admitted
        (match src with
         | CAbsent | CList [] => bytes_eqb visitor owner || bytes_eqb owner vstar
         | CList l => vmem visitor l || vmem vstar l
         end)
  | CXtcp _ _ _ _ _ _ _ tr n => tr && (n =? 1)   (* the clause as written: whatever the two ends declare *)
  | CFirst _ _ _ ok => ok
  | CLong _ _ e l => e && l
  end.

(* 0 = model and implementation agree and the monitor holds; 1 oracle table incomplete; 2 lengths differ;
   3 monitor fails although the replay agrees; 4 end-to-end observation fails; 41 allowUsers on the wire differs from the loaded configuration; 42 admission differs from the configured list; 43 xtcp tunnel stream; 44 bytes behind the response frame; 45 stream older than the handshake deadline; 11-15 / 21-24 / 31-39: kind of the first operation on which model and implementation disagree *)
Definition check_case (c : case) : Z :=
  match c with
  | CVm tbl ops obs =>
      if negb (htable_covers tbl (vm_sks ops) (vm_tss ops)) then 1
      else let r := vm_replay (ohash tbl) [] 0 ops obs in
           if negb (r =? 0) then r else if C08_holds c then 0 else 3
  | CNh tbl ops obs =>
      if negb (htable_covers tbl (nh_sks ops) (nh_tss ops)) then 1
      else let r := nh_replay (ohash tbl) vnh_empty 0 ops obs in
           if negb (r =? 0) then r else if C08_holds c then 0 else 3
  | CSys tbl ops obs =>
      if negb (htable_covers tbl (sys_sks ops) (sys_tss ops)) then 1
      else let r := sys_replay (ohash tbl) sys_init 0 ops obs in
           if negb (r =? 0) then r else if C08_holds c then 0 else 3
  | CE2E _ _ _ _ _ _ _ _ _ => if C08_holds c then 0 else 4
  | CCfg fmt k src owner visitor wire admitted =>
      if negb (blist_eqb wire (load_allow (fmt_of fmt) src)) then 41
      else if negb (Bool.eqb admitted (cfg_admits [] (fmt_of fmt) src owner visitor)) then 42
      else if C08_holds c then 0 else 3
  | CXtcp _ _ _ _ _ _ _ _ _ =>
      (* the model predicts transparency for equal declarations only (C08_xtcp_stream_transparent_partial; the full
         statement is refuted, C08_xtcp_mismatched_flags_refuted) and says nothing about when a quic stream becomes
         visible: those two classes are judged by the driver under the keys of the recorded findings F-C08d / F-C08e;
         every other failing stream is a disagreement *)
      if C08_holds c then 0 else if xtcp_recorded c then 0 else 43
  | CFirst _ _ _ _ => if C08_holds c then 0 else 44
  | CLong _ _ _ _ => if C08_holds c then 0 else 45
  end.

(* counters for the evidence: how often each model branch was observed *)
Definition vm_pairs (c : case) : list (vm_op * vobs) := match c with CVm _ ops obs => combine ops obs | _ => [] end.
Definition nh_pairs (c : case) : list (nh_op * vobs) := match c with CNh _ ops obs => combine ops obs | _ => [] end.
Definition sys_pairs (c : case) : list (sop * vobs) := match c with CSys _ ops obs => combine ops obs | _ => [] end.
Definition sum_over {A} (f : case -> list A) (p : A -> bool) (cs : list case) : Z :=
  fold_left (fun a c => a + count_if p (f c)) cs 0.
Definition n_vm_newconn (z : Z) : list case -> Z :=
  sum_over vm_pairs (fun p => match p with (VmNewConn _ _ _ _ _ _ _, ObsZ y) => y =? z | _ => false end).
Definition n_vm_accepted : list case -> Z :=
  sum_over vm_pairs (fun p => match p with (VmAccept _, ObsAccept cid _ _ _ _) => negb (cid =? -1) | _ => false end).
Definition n_nh_notified : list case -> Z :=
  sum_over nh_pairs (fun p => match p with (NhVisitor _ _ _ _ _ _, ObsNh _ (Some _) _ _ _) => true | _ => false end).
Definition n_nh_resp (z : Z) (pre : bool) : list case -> Z :=
  sum_over nh_pairs (fun p => match p with (NhVisitor _ _ _ pre' _ _, ObsNh r None _ _ _) => (r =? z) && Bool.eqb pre pre' | _ => false end).
Definition n_sys_vis (z : Z) : list case -> Z :=
  sum_over sys_pairs (fun p => match p with (SVisitorConn _ _ _ _ _ _ _ _, ObsZ y) => y =? z | _ => false end).
Definition n_sys_backend : list case -> Z :=
  sum_over sys_pairs (fun p => match p with (SAccept _, ObsAccept cid _ _ _ _) => negb (cid =? -1) | _ => false end).
Definition n_sys_notified : list case -> Z :=
  sum_over sys_pairs (fun p => match p with (SNatHole _ _ _ _ _ _ _, ObsNh _ (Some _) _ _ _) => true | _ => false end).
Definition n_sys_nh_resp (z : Z) : list case -> Z :=
  sum_over sys_pairs (fun p => match p with (SNatHole _ _ _ _ _ _ _, ObsNh r None _ _ _) => r =? z | _ => false end).
Definition n_nh_undelivered : list case -> Z :=
  sum_over nh_pairs (fun p => match p with (NhVisitor _ _ _ false _ false, ObsNh 9 None _ _ _) => true | _ => false end).
Definition n_cfg (fmt : Z) : list case -> Z :=
  count_if (fun c => match c with CCfg f _ _ _ _ _ _ => f =? fmt | _ => false end).
Definition n_cfg_default_refused : list case -> Z :=
  count_if (fun c => match c with CCfg _ _ (CAbsent | CList []) _ _ _ false => true | _ => false end).
Definition n_xtcp (proto : Z) : list case -> Z :=
  count_if (fun c => match c with CXtcp p vue vuc pue puc _ _ _ _ => (p =? proto) && Bool.eqb vue pue && Bool.eqb vuc puc | _ => false end).
Definition n_xtcp_mismatched : list case -> Z :=
  count_if (fun c => match c with CXtcp _ vue vuc pue puc _ _ _ _ => negb (Bool.eqb vue pue && Bool.eqb vuc puc) | _ => false end).
Definition n_xtcp_kcp_silent_first : list case -> Z :=
  count_if (fun c => match c with CXtcp 0 _ _ _ _ true true true _ => true | _ => false end).
Definition n_xtcp_quic_silent_first : list case -> Z :=
  count_if (fun c => match c with CXtcp 1 _ _ _ _ true true _ _ => true | _ => false end).
Definition n_first : list case -> Z := count_if (fun c => match c with CFirst _ _ _ _ => true | _ => false end).
Definition n_sys_late : list case -> Z :=
  sum_over sys_pairs (fun p => match p with (SRegisterLate _ _ _ _ _, ObsZ z) => negb (z =? 0) | _ => false end).
Definition n_long : list case -> Z :=
  count_if (fun c => match c with CLong _ age _ _ => 10000 <? age | _ => false end).
Definition n_sys_plugin_rewrite : list case -> Z :=
  sum_over sys_pairs (fun p => match p with (SLoginVia _ _ (PRewrite _ :: _), ObsZ 0) => true | _ => false end).
Definition n_sys_plugin_reject : list case -> Z :=
  sum_over sys_pairs (fun p => match p with (SLoginVia _ _ _, ObsZ 6) => true | _ => false end).
Definition n_e2e : list case -> Z := count_if (fun c => match c with CE2E _ _ _ _ _ _ _ _ _ => true | _ => false end).
