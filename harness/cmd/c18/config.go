package main

// Driver "config" (C18): the real configuration layer against Model/CfgMsg + Model/Validate +
// Model/Literals.  See design/C18.md.

import (
	"encoding/json"
	"fmt"
	"reflect"
	"strconv"
	"strings"

	"github.com/fatedier/frp/pkg/config"
	"github.com/fatedier/frp/pkg/config/types"
	v1 "github.com/fatedier/frp/pkg/config/v1"
	"github.com/fatedier/frp/pkg/config/v1/validation"
	"github.com/fatedier/frp/pkg/msg"

	"verifharness/hx"
)

func init() { drivers["config"] = runConfig }

var proxyTypes = []string{"tcp", "udp", "http", "https", "tcpmux", "stcp", "xtcp", "sudp"}

var nameStrings = []string{
	"web", "ssh-1", "p_2", " lead", "trail ", "\tboth\n", "MiXed", "ünïcödé", "日本語プロキシ", "😀", "with space", `q"uote`, "a.b", "UPPER", "x", "tab\there",
	strings.Repeat("n", 70),
}

var plainStrings = []string{
	"", "", "a", "secret", "grp", "key-1", "héllo", "日本", "user", "pass word", "/", "/api", "example.com", "0", "null", "{}",
}

var hosts = []string{"", "frps.com", "FRPS.com", "frps.COM", "example.org", "a.b.c", "é.com"}

var domainStrings = []string{
	"a.frps.com", "a.FRPS.com", "A.Frps.Com", "x.y.frps.com", "frps.com", "FRPS.COM", "afrps.com", "frps.com.evil.org",
	"www.example.org", "WWW.EXAMPLE.ORG", "example.org", "*.frps.com", "*.FRPS.COM", "test.a.b.c", "T.A.B.C", "a.b.c", "b.c",
	"xn--bcher-kva.example", "bücher.example.org", "localhost", "sub.é.com", "日本.frps.com", "", "x.frps.com.", ".frps.com",
	"notfrps.comx", "a.frps.co", "A.B.C.D",
}

var subdomainStrings = []string{"", "", "app", "APP", "a.b", "*", "a*", "ünï", "x-1"}

var bwLiterals = []string{"", "", "1MB", "100KB", " 2MB ", "0.5MB", "1.5KB", "1e3KB", "0KB", "10MB\t", "\n64KB", "1000000MB", "0.0001KB", "+3MB", "-1KB"}

var bwJunk = []string{"abc", "12XB", "1.5.5MB", "MB", "KB", "1 MB", "1mb", "5GB", " ", "\t\n", "1MBKB", "0x10KB", "InfMB", "NaNKB", "1e400MB"}

var modeStrings = []string{"", "", "client", "server", "server", "Client", "x"}

var annotationKeys = []string{"frp.io/a", "key", "a.b/c", "UPPER.io/Key", "bad key", "-x", "a/b/c", "é", ""}

func (g *gen) strFrom(pool []string) string { return g.pick(pool) }

func (g *gen) mapSS(keys []string) map[string]string {
	switch g.intn(4) {
	case 0:
		return nil
	case 1:
		return map[string]string{}
	}
	m := map[string]string{}
	for i := 0; i < 1+g.intn(3); i++ {
		m[g.pick(keys)] = g.pick(plainStrings)
	}
	return m
}

func (g *gen) strs(pool []string) []string {
	switch g.intn(4) {
	case 0:
		return nil
	case 1:
		return []string{}
	}
	var s []string
	for i := 0; i < 1+g.intn(3); i++ {
		s = append(s, g.pick(pool))
	}
	return s
}

var portValues = []int64{0, 0, 1, 80, 443, 6000, 65535, 65536, -1, 70000, 1 << 31, -(1 << 31)}

func (g *gen) bw(junkOK bool) types.BandwidthQuantity {
	lit := g.pick(bwLiterals)
	q, err := types.NewBandwidthQuantity(lit)
	if err != nil {
		return types.BandwidthQuantity{}
	}
	return q
}

// a proxy configuration as the loader would hand it to Complete: random values in every field
func (g *gen) proxyCfg(typ string) v1.ProxyConfigurer {
	c := v1.NewProxyConfigurerByType(v1.ProxyType(typ))
	base := c.GetBaseConfig()
	base.Name = g.pick(nameStrings)
	if g.chance(0.03) {
		base.Name = ""
	}
	base.Annotations = g.mapSS(annotationKeys[:4])
	if g.chance(0.08) {
		base.Annotations = g.mapSS(annotationKeys)
	}
	base.Metadatas = g.mapSS(plainStrings[2:])
	base.Transport.UseEncryption = g.chance(0.5)
	base.Transport.UseCompression = g.chance(0.5)
	base.Transport.BandwidthLimit = g.bw(false)
	base.Transport.BandwidthLimitMode = g.pick(modeStrings)
	base.Transport.ProxyProtocolVersion = g.pick([]string{"", "", "v1", "v2", "v3"})
	base.LoadBalancer.Group = g.pick(plainStrings)
	base.LoadBalancer.GroupKey = g.pick(plainStrings)
	base.HealthCheck.Type = g.pick([]string{"", "", "tcp", "http", "udp"})
	base.HealthCheck.Path = g.pick([]string{"", "/health"})
	base.HealthCheck.TimeoutSeconds = g.intn(5)
	base.HealthCheck.MaxFailed = g.intn(4)
	base.HealthCheck.IntervalSeconds = g.intn(20)
	if g.chance(0.3) {
		base.HealthCheck.HTTPHeaders = []v1.HTTPHeader{{Name: "X-A", Value: g.pick(plainStrings)}}
	}
	base.LocalIP = g.pick([]string{"", "127.0.0.1", "10.0.0.5", "::1", "host.local"})
	base.LocalPort = int(g.pickInt(portValues))
	switch g.intn(12) {
	case 0:
		base.Plugin = v1.TypedClientPluginOptions{Type: v1.PluginUnixDomainSocket,
			ClientPluginOptions: &v1.UnixDomainSocketPluginOptions{Type: v1.PluginUnixDomainSocket, UnixPath: g.pick([]string{"", "/tmp/s.sock"})}}
	case 1:
		base.Plugin = v1.TypedClientPluginOptions{Type: v1.PluginHTTPProxy,
			ClientPluginOptions: &v1.HTTPProxyPluginOptions{Type: v1.PluginHTTPProxy, HTTPUser: "u"}}
	}
	dom := func(d *v1.DomainConfig) {
		d.CustomDomains = g.strs(domainStrings)
		d.SubDomain = g.pick(subdomainStrings)
	}
	switch cc := c.(type) {
	case *v1.TCPProxyConfig:
		cc.RemotePort = int(g.pickInt(portValues))
	case *v1.UDPProxyConfig:
		cc.RemotePort = int(g.pickInt(portValues))
	case *v1.HTTPProxyConfig:
		dom(&cc.DomainConfig)
		cc.Locations = g.strs([]string{"/", "/api", "/ünï", ""})
		cc.HTTPUser = g.pick(plainStrings)
		cc.HTTPPassword = g.pick(plainStrings)
		cc.HostHeaderRewrite = g.pick(plainStrings)
		cc.RequestHeaders.Set = g.mapSS([]string{"X-From", "x-lower", "Ünï"})
		cc.ResponseHeaders.Set = g.mapSS([]string{"X-Resp", "Server"})
		cc.RouteByHTTPUser = g.pick(plainStrings)
	case *v1.HTTPSProxyConfig:
		dom(&cc.DomainConfig)
	case *v1.TCPMuxProxyConfig:
		dom(&cc.DomainConfig)
		cc.HTTPUser = g.pick(plainStrings)
		cc.HTTPPassword = g.pick(plainStrings)
		cc.RouteByHTTPUser = g.pick(plainStrings)
		cc.Multiplexer = g.pick([]string{"httpconnect", "httpconnect", "httpconnect", "", "HTTPCONNECT", "other"})
	case *v1.STCPProxyConfig:
		cc.Secretkey = g.pick(plainStrings)
		cc.AllowUsers = g.strs([]string{"*", "alice", "bob", "ünï", ""})
	case *v1.XTCPProxyConfig:
		cc.Secretkey = g.pick(plainStrings)
		cc.AllowUsers = g.strs([]string{"*", "alice", "bob", "ünï", ""})
	case *v1.SUDPProxyConfig:
		cc.Secretkey = g.pick(plainStrings)
		cc.AllowUsers = g.strs([]string{"*", "alice", "bob", "ünï", ""})
	}
	return c
}

func (g *gen) serverCfg() *v1.ServerConfig {
	s := &v1.ServerConfig{}
	s.SubDomainHost = g.pick(hosts)
	if g.chance(0.8) {
		s.VhostHTTPPort = 8080
	}
	if g.chance(0.8) {
		s.VhostHTTPSPort = 8443
	}
	if g.chance(0.8) {
		s.TCPMuxHTTPConnectPort = 5002
	}
	return s
}

func coqSrv(s *v1.ServerConfig) string {
	return fmt.Sprintf("(mk_srv_cfg %s %s %s %s)", hx.HxS(s.SubDomainHost), hx.Z(int64(s.VhostHTTPPort)),
		hx.Z(int64(s.VhostHTTPSPort)), hx.Z(int64(s.TCPMuxHTTPConnectPort)))
}

// the float oracle entries a bandwidth literal needs: what ParseFloat and the float product return
func fbEntries(lits ...string) string {
	seen := map[string]bool{}
	var items []string
	for _, l := range lits {
		s := strings.TrimSpace(l)
		var base int64
		var fstr string
		switch {
		case strings.HasSuffix(s, "MB"):
			base, fstr = types.MB, strings.TrimSuffix(s, "MB")
		case strings.HasSuffix(s, "KB"):
			base, fstr = types.KB, strings.TrimSuffix(s, "KB")
		default:
			continue
		}
		k := fmt.Sprintf("%s/%d", fstr, base)
		if seen[k] {
			continue
		}
		seen[k] = true
		f, err := strconv.ParseFloat(fstr, 64)
		if err != nil {
			items = append(items, fmt.Sprintf("(%s, %d, None)", hx.HxS(fstr), base))
		} else {
			items = append(items, fmt.Sprintf("(%s, %d, Some %s)", hx.HxS(fstr), base, hx.Z(int64(f*float64(base)))))
		}
	}
	return hx.List(items)
}

func between(s, a, b string) string {
	i := strings.Index(s, a)
	if i < 0 {
		return ""
	}
	s = s[i+len(a):]
	j := strings.LastIndex(s, b)
	if j < 0 {
		return ""
	}
	return s[:j]
}

// error of NewProxyConfigurerFromMsg / ValidateProxyConfigurerFor* -> verdict term ("" = not recognised)
func verdictOf(err error) string {
	if err == nil {
		return "VOk"
	}
	e := err.Error()
	switch {
	case strings.Contains(e, "should not belong to subdomain host"):
		return "(VDomainBelongs " + hx.HxS(between(e, "custom domain [", "] should not belong to subdomain host")) + ")"
	case strings.Contains(e, "annotation"):
		return "VAnnotations"
	case strings.Contains(e, "name should not be empty"):
		return "VNameEmpty"
	case strings.Contains(e, "not support proxy protocol version"):
		return "VProxyProtocol"
	case strings.Contains(e, "bandwidth limit mode should be client or server"):
		return "VBandwidthMode"
	case strings.HasPrefix(e, "localPort:"):
		return "VLocalPort"
	case strings.HasPrefix(e, "remotePort:"):
		return "VRemotePort"
	case strings.Contains(e, "not support health check type"):
		return "VHealthType"
	case strings.Contains(e, "health check path should not be empty"):
		return "VHealthPath"
	case strings.HasPrefix(e, "plugin "):
		return "VPlugin"
	case strings.Contains(e, "subdomain and custom domains should not be both empty"):
		return "VDomainsEmpty"
	case strings.Contains(e, "not support multiplexer"):
		return "VMultiplexer"
	case strings.Contains(e, "tcpmux with multiplexer httpconnect not supported"):
		return "VTcpmuxDisabled"
	case strings.Contains(e, "type [http] not supported"):
		return "VHTTPDisabled"
	case strings.Contains(e, "type [https] not supported"):
		return "VHTTPSDisabled"
	case strings.Contains(e, "subdomain is not supported because this feature is not enabled"):
		return "VSubdomainDisabled"
	case strings.Contains(e, "'.' and '*' are not supported in subdomain"):
		return "VSubdomainChars"
	}
	return ""
}

// what the server must hold: the client's configuration, client-only fields cleared, Complete("")
func expectedServerView(c v1.ProxyConfigurer) v1.ProxyConfigurer {
	b, _ := json.Marshal(struct{}{})
	_ = b
	cp := reflect.New(reflect.TypeOf(c).Elem())
	cp.Elem().Set(reflect.ValueOf(c).Elem())
	e := cp.Interface().(v1.ProxyConfigurer)
	base := e.GetBaseConfig()
	base.HealthCheck = v1.HealthCheckConfig{}
	base.ProxyBackend = v1.ProxyBackend{}
	base.Transport.ProxyProtocolVersion = ""
	e.Complete("")
	return e
}

type caseOut struct {
	text string
	kind string
}

func (d *drv) roundCase(g *gen) caseOut {
	typ := g.pick(proxyTypes)
	c := g.proxyCfg(typ)
	prefix := g.pick([]string{"", "", "user", "ünï"})
	c.Complete(prefix)
	var m msg.NewProxy
	c.MarshalToMsg(&m)
	// the wire: what the server really receives
	wire, err := json.Marshal(&m)
	if err != nil {
		d.fail("marshal-json", "json.Marshal(NewProxy) failed: "+err.Error(), coqCfg(c))
	}
	var m2 msg.NewProxy
	if err := json.Unmarshal(wire, &m2); err != nil {
		d.fail("unmarshal-json", "json.Unmarshal(NewProxy) failed: "+err.Error(), string(wire))
	}
	msgTerm := coqOfAny(&m2)
	if direct := coqOfAny(&m); direct != msgTerm {
		d.fail("wire-changes-message", "NewProxy differs after its own JSON round trip", direct+" vs "+msgTerm)
	}
	s := g.serverCfg()
	annOK := validation.ValidateAnnotations(m2.Annotations) == nil
	fb := fbEntries(c.GetBaseConfig().Transport.BandwidthLimit.String(), m2.BandwidthLimit)
	got, err := config.NewProxyConfigurerFromMsg(&m2, s)
	after := coqOfAny(&m2)
	res := ""
	kind := "round-" + typ
	switch {
	case err == nil:
		res = "(FMOk " + coqCfg(got) + ")"
		// Go-side monitor (independent of the Coq model): field-by-field equality with the client's view
		exp := expectedServerView(c)
		if coqCfg(exp) != coqCfg(got) {
			d.fail("roundtrip-field:"+typ+":"+firstDiff(reflect.ValueOf(exp).Elem(), reflect.ValueOf(got).Elem(), ""),
				"the configuration the server reconstructs differs from the client's in a field the server acts on",
				"client "+coqCfg(c)+" server "+coqCfg(got))
		}
		d.domainMonitor(got, s, typ)
		kind += "-ok"
	case strings.Contains(err.Error(), "unknown proxy type"):
		res = "FMUnknownType"
		kind += "-unknown"
	default:
		v := verdictOf(err)
		if v == "" {
			d.fail("unclassified-error", "NewProxyConfigurerFromMsg returned an error the harness does not know: "+err.Error(), coqCfg(c))
			v = "VOk"
		}
		res = "(FMInvalid " + v + ")"
		kind += "-" + strings.Fields(strings.Trim(v, "()"))[0]
	}
	return caseOut{fmt.Sprintf("CRound %s %s %s %s %s %s %s", coqCfg(c), msgTerm, fb, hx.Bool(annOK), coqSrv(s), after, res), kind}
}

// Go-side statement of the domain clause: an accepted custom domain is not "<something>.<subDomainHost>"
// in any letter case (ASCII case folding, as the vhost router does with strings.ToLower on ASCII hosts)
func (d *drv) domainMonitor(got v1.ProxyConfigurer, s *v1.ServerConfig, typ string) {
	var doms []string
	switch cc := got.(type) {
	case *v1.HTTPProxyConfig:
		doms = cc.CustomDomains
	case *v1.HTTPSProxyConfig:
		doms = cc.CustomDomains
	case *v1.TCPMuxProxyConfig:
		doms = cc.CustomDomains
	}
	if s.SubDomainHost == "" {
		return
	}
	for _, dm := range doms {
		if strings.HasSuffix(asciiLower(dm), "."+asciiLower(s.SubDomainHost)) {
			d.fail("domain-under-subdomain-host:"+typ,
				"a custom domain under the server's subDomainHost (up to letter case) passed server-side validation",
				fmt.Sprintf("customDomain %q subDomainHost %q", dm, s.SubDomainHost))
		}
	}
}

func asciiLower(s string) string {
	b := []byte(s)
	for i, c := range b {
		if c >= 'A' && c <= 'Z' {
			b[i] = c + 32
		}
	}
	return string(b)
}

func firstDiff(a, b reflect.Value, path string) string {
	if a.Type() != b.Type() {
		return path + "<type>"
	}
	if a.Kind() == reflect.Struct && a.Type() != bwqType {
		for i := 0; i < a.NumField(); i++ {
			if coqOf(addr(a.Field(i))) != coqOf(addr(b.Field(i))) {
				return firstDiff(a.Field(i), b.Field(i), path+"."+a.Type().Field(i).Name)
			}
		}
	}
	return path
}

func addr(v reflect.Value) reflect.Value {
	if v.CanAddr() {
		return v
	}
	c := reflect.New(v.Type()).Elem()
	c.Set(v)
	return c
}

// an arbitrary message, as a peer may send it
func (d *drv) msgInCase(g *gen) caseOut {
	var m msg.NewProxy
	m.ProxyName = g.pick(nameStrings)
	m.ProxyType = g.pick(append([]string{"", "", "TCP", "bogus", "http ", "tcp\x00"}, proxyTypes...))
	m.UseEncryption = g.chance(0.5)
	m.UseCompression = g.chance(0.5)
	if g.chance(0.5) {
		m.BandwidthLimit = g.pick(bwLiterals)
	} else {
		m.BandwidthLimit = g.pick(bwJunk)
	}
	m.BandwidthLimitMode = g.pick(modeStrings)
	m.Group = g.pick(plainStrings)
	m.GroupKey = g.pick(plainStrings)
	m.Metas = g.mapSS(plainStrings[2:])
	m.Annotations = g.mapSS(annotationKeys)
	m.RemotePort = int(g.pickInt(portValues))
	m.CustomDomains = g.strs(domainStrings)
	m.SubDomain = g.pick(subdomainStrings)
	m.Locations = g.strs([]string{"/", "/a", ""})
	m.HTTPUser = g.pick(plainStrings)
	m.HTTPPwd = g.pick(plainStrings)
	m.HostHeaderRewrite = g.pick(plainStrings)
	m.Headers = g.mapSS([]string{"X-A", "x-b"})
	m.ResponseHeaders = g.mapSS([]string{"X-R"})
	m.RouteByHTTPUser = g.pick(plainStrings)
	m.Sk = g.pick(plainStrings)
	m.AllowUsers = g.strs([]string{"*", "alice", ""})
	m.Multiplexer = g.pick([]string{"httpconnect", "", "other"})
	before := coqOfAny(&m)
	s := g.serverCfg()
	annOK := validation.ValidateAnnotations(m.Annotations) == nil
	fb := fbEntries(m.BandwidthLimit)
	got, err := config.NewProxyConfigurerFromMsg(&m, s)
	after := coqOfAny(&m)
	res := ""
	kind := "msgin"
	switch {
	case err == nil:
		res = "(FMOk " + coqCfg(got) + ")"
		d.domainMonitor(got, s, "msgin")
		kind += "-ok"
	case strings.Contains(err.Error(), "unknown proxy type"):
		res = "FMUnknownType"
		kind += "-unknown"
	default:
		v := verdictOf(err)
		if v == "" {
			d.fail("unclassified-error", "NewProxyConfigurerFromMsg returned an error the harness does not know: "+err.Error(), before)
			v = "VOk"
		}
		res = "(FMInvalid " + v + ")"
		kind += "-" + strings.Fields(strings.Trim(v, "()"))[0]
	}
	return caseOut{fmt.Sprintf("CMsgIn %s %s %s %s %s %s", before, fb, hx.Bool(annOK), coqSrv(s), after, res), kind}
}

func (d *drv) valClientCase(g *gen) caseOut {
	typ := g.pick(proxyTypes)
	c := g.proxyCfg(typ)
	if g.chance(0.8) {
		c.Complete(g.pick([]string{"", "user"}))
	}
	base := c.GetBaseConfig()
	annOK := validation.ValidateAnnotations(base.Annotations) == nil
	pluginOK := true
	if base.Plugin.Type != "" {
		pluginOK = validation.ValidateClientPluginOptions(base.Plugin.ClientPluginOptions) == nil
	}
	err := validation.ValidateProxyConfigurerForClient(c)
	v := verdictOf(err)
	if v == "" {
		d.fail("unclassified-error", "ValidateProxyConfigurerForClient returned an error the harness does not know: "+err.Error(), coqCfg(c))
		v = "VOk"
	}
	if err == nil {
		// Go-side monitors of the documented constraints
		if base.Plugin.Type == "" && (base.LocalPort < 0 || base.LocalPort > 65535) {
			d.fail("validated-port-out-of-range", "client validation accepted a localPort outside 0..65535", coqCfg(c))
		}
		switch x := c.(type) {
		case *v1.TCPProxyConfig:
			if x.RemotePort < 0 || x.RemotePort > 65535 {
				d.fail("validated-port-out-of-range:remotePort", "client validation accepted a tcp remotePort outside 0..65535", coqCfg(c))
			}
		case *v1.UDPProxyConfig:
			if x.RemotePort < 0 || x.RemotePort > 65535 {
				d.fail("validated-port-out-of-range:remotePort", "client validation accepted a udp remotePort outside 0..65535", coqCfg(c))
			}
		}
		if m := base.Transport.BandwidthLimitMode; m != "client" && m != "server" {
			d.fail("validated-enum", "client validation accepted bandwidthLimitMode "+strconv.Quote(m), coqCfg(c))
		}
		if p := base.Transport.ProxyProtocolVersion; p != "" && p != "v1" && p != "v2" {
			d.fail("validated-enum", "client validation accepted proxyProtocolVersion "+strconv.Quote(p), coqCfg(c))
		}
		if h := base.HealthCheck.Type; h != "" && h != "tcp" && h != "http" {
			d.fail("validated-enum", "client validation accepted healthCheck.type "+strconv.Quote(h), coqCfg(c))
		}
		if mc, ok := c.(*v1.TCPMuxProxyConfig); ok && mc.Multiplexer != "httpconnect" {
			d.fail("validated-enum", "client validation accepted multiplexer "+strconv.Quote(mc.Multiplexer), coqCfg(c))
		}
	}
	return caseOut{fmt.Sprintf("CValClient %s %s %s %s", coqCfg(c), hx.Bool(annOK), hx.Bool(pluginOK), v),
		"valclient-" + strings.Fields(strings.Trim(v, "()"))[0]}
}

type drv struct {
	cfg      *runCfg
	failures []map[string]string
	seenFail map[string]int
}

func (d *drv) fail(key, what, c string) {
	d.seenFail[key]++
	if d.seenFail[key] > 3 {
		return
	}
	if len(c) > 3000 {
		c = c[:3000]
	}
	d.failures = append(d.failures, map[string]string{"key": key, "what": what, "case": c})
}

func runConfig(cfg *runCfg) error {
	g := newGen(cfg.Seed)
	d := &drv{cfg: cfg, seenFail: map[string]int{}}
	dist := map[string]int{}
	distinct := map[string]bool{}
	var cases []string
	var samples []string
	add := func(c caseOut) {
		cases = append(cases, c.text)
		dist[c.kind]++
		if !distinct[c.text] {
			distinct[c.text] = true
		}
		if len(samples) < 4 && g.chance(0.02) {
			s := c.text
			if len(s) > 600 {
				s = s[:600] + "..."
			}
			samples = append(samples, s)
		}
	}
	for i := 0; i < cfg.N; i++ {
		switch r := g.intn(100); {
		case r < 38:
			add(d.roundCase(g))
		case r < 52:
			add(d.msgInCase(g))
		case r < 65:
			add(d.valClientCase(g))
		case r < 77:
			add(d.templateCase(g))
		default:
			add(d.literalCase(g))
		}
	}
	for _, c := range d.tlsFlagCases() {
		add(c)
	}
	pcases, pstats := d.portSweep(g)
	for _, c := range pcases {
		add(c)
	}
	for _, c := range d.concurrentLoads(g) {
		add(c)
	}
	for _, c := range d.concurrentRenders(g) {
		add(c)
	}
	for _, c := range d.envCases(g, cfg.N/40+14) {
		add(c)
	}
	// the other observations (formats, strict mode, flags, templates) are made on the Go side only
	fstats := d.runFormats(g, cfg.N/4+8)

	// spread the heavy special cases (whole server sections, traces) evenly over the shards; deterministic in the seed
	g.R.Shuffle(len(cases), func(i, j int) { cases[i], cases[j] = cases[j], cases[i] })

	cf := &hx.CaseFile{
		Imports: "From FRP Require Import Corr.C18.\nOpen Scope Z_scope.\n",
		Typ:     "case",
		Cases:   cases,
		Tail: "Definition M := Eval vm_compute in mismatches check_case cases.\nPrint M.\n" +
			"Definition NROUNDOK := Eval vm_compute in (count_if is_round_ok cases : Z).\nPrint NROUNDOK.\n" +
			"Definition NDOMAINBELONGS := Eval vm_compute in (count_if is_domain_belongs cases : Z).\nPrint NDOMAINBELONGS.\n" +
			"Definition NDOMAINCASEONLY := Eval vm_compute in (count_if is_domain_belongs_case_only cases : Z).\nPrint NDOMAINCASEONLY.\n" +
			"Definition NINVALID := Eval vm_compute in (count_if is_invalid cases : Z).\nPrint NINVALID.\n" +
			"Definition NUNKNOWNTYPE := Eval vm_compute in (count_if is_unknown_type cases : Z).\nPrint NUNKNOWNTYPE.\n" +
			"Definition NNORETURN := Eval vm_compute in (count_if is_no_return cases : Z).\nPrint NNORETURN.\n" +
			"Definition NTEMPLATEOK := Eval vm_compute in (count_if is_template_ok cases : Z).\nPrint NTEMPLATEOK.\n" +
			"Definition NENVOK := Eval vm_compute in (count_if is_env_case cases : Z).\nPrint NENVOK.\n" +
			"Definition NENVEQ := Eval vm_compute in (count_if is_env_eq_case cases : Z).\nPrint NENVEQ.\n" +
			"Definition NSTRICTREJ := Eval vm_compute in (sum_Z load_trace_strict_rejections cases : Z).\nPrint NSTRICTREJ.\n" +
			"Definition NSECTIONREJ := Eval vm_compute in (count_if is_section_rejected cases : Z).\nPrint NSECTIONREJ.\n" +
			"Definition NSECTIONACC := Eval vm_compute in (count_if is_section_accepted cases : Z).\nPrint NSECTIONACC.\n" +
			"Definition NRENDERTRACE := Eval vm_compute in (sum_Z render_trace_len cases : Z).\nPrint NRENDERTRACE.\n" +
			"Definition NTLSFLAGON := Eval vm_compute in (count_if is_tls_flag_on cases : Z).\nPrint NTLSFLAGON.\n",
	}
	if err := cf.Write(cfg.Out); err != nil {
		return err
	}
	if len(samples) == 0 && len(cases) > 0 {
		s := cases[0]
		if len(s) > 600 {
			s = s[:600] + "..."
		}
		samples = append(samples, s)
	}
	cfg.St["cases"] = len(cases)
	cfg.St["distinct_nontrivial"] = len(distinct)
	cfg.St["samples"] = samples
	cfg.St["distribution"] = dist
	cfg.St["formats"] = fstats
	cfg.St["ports"] = pstats
	if d.failures == nil {
		d.failures = []map[string]string{}
	}
	cfg.St["impl_failures"] = d.failures
	return nil
}
