package main

import (
	"bytes"
	"net"
	"sync"
)

// UDPRelay: the observer for datagram transports (kcp).  Datagrams of each client address are
// forwarded over their own upstream socket; payloads are recorded, concatenated per direction.
type UDPRelay struct {
	c        *net.UDPConn
	upstream *net.UDPAddr
	mu       sync.Mutex
	sess     map[string]*net.UDPConn
	streams  []*bytes.Buffer
	closed   bool
}

func StartUDPRelay(listenAddr, upstream string) (*UDPRelay, error) {
	ua, err := net.ResolveUDPAddr("udp", upstream)
	if err != nil {
		return nil, err
	}
	c, err := net.ListenUDP("udp", &net.UDPAddr{IP: net.ParseIP(listenAddr)})
	if err != nil {
		return nil, err
	}
	r := &UDPRelay{c: c, upstream: ua, sess: map[string]*net.UDPConn{}}
	go r.serve()
	return r, nil
}

func (r *UDPRelay) Port() int { return r.c.LocalAddr().(*net.UDPAddr).Port }

func (r *UDPRelay) serve() {
	buf := make([]byte, 65536)
	for {
		n, from, err := r.c.ReadFromUDP(buf)
		if err != nil {
			return
		}
		r.mu.Lock()
		u, ok := r.sess[from.String()]
		var up *bytes.Buffer
		if !ok {
			u, err = net.DialUDP("udp", nil, r.upstream)
			if err != nil {
				r.mu.Unlock()
				continue
			}
			r.sess[from.String()] = u
			up = &bytes.Buffer{}
			down := &bytes.Buffer{}
			r.streams = append(r.streams, up, down)
			go r.back(u, from, down)
			// remember the up buffer next to the socket
			r.upOf(u, up)
		} else {
			up = r.upOf(u, nil)
		}
		up.Write(buf[:n])
		r.mu.Unlock()
		_, _ = u.Write(buf[:n])
	}
}

var upBufs = map[*net.UDPConn]*bytes.Buffer{}

func (r *UDPRelay) upOf(u *net.UDPConn, set *bytes.Buffer) *bytes.Buffer {
	if set != nil {
		upBufs[u] = set
	}
	return upBufs[u]
}

func (r *UDPRelay) back(u *net.UDPConn, to *net.UDPAddr, rec *bytes.Buffer) {
	buf := make([]byte, 65536)
	for {
		n, err := u.Read(buf)
		if err != nil {
			return
		}
		r.mu.Lock()
		rec.Write(buf[:n])
		r.mu.Unlock()
		_, _ = r.c.WriteToUDP(buf[:n], to)
	}
}

func (r *UDPRelay) Contains(needle []byte) bool {
	r.mu.Lock()
	defer r.mu.Unlock()
	for _, s := range r.streams {
		if bytes.Contains(s.Bytes(), needle) {
			return true
		}
	}
	return false
}

func (r *UDPRelay) Firsts() []byte { return nil }

func (r *UDPRelay) Total() int {
	r.mu.Lock()
	defer r.mu.Unlock()
	n := 0
	for _, s := range r.streams {
		n += s.Len()
	}
	return n
}

func (r *UDPRelay) Close() {
	r.c.Close()
	r.mu.Lock()
	for _, u := range r.sess {
		u.Close()
		delete(upBufs, u)
	}
	r.mu.Unlock()
}
