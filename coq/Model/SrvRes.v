(* C10 — SrvRes: the server's resource accounting as ONE state.  Model only: no proofs here.

   Go                                                        model
   ports.Manager (tcp, udp)                                  sr_tcp, sr_udp : Ports.pm          (imported, C09)
   listening sockets of frps's proxies (OS)                  SSock proto port   entries of sr_res
   vhost.Routers of HTTPReverseProxy                         SRoute RHttp  (domain, location, user) entries of sr_res
   vhost.Routers of VhostHTTPSMuxer.registryRouter           SRoute RHttps ...
   vhost.Routers of TCPMuxHTTPConnectMuxer.registryRouter    SRoute RMux ...
   visitor.Manager.listeners                                 SVis name
   nathole.Controller.clientCfgs                             SNat name
   TCPGroupCtl.groups / HTTPGroupController.groups /
   TCPMuxGroupCtl.groups                                     sr_grp, keyed by (kind, group name)
   proxy.Manager.pxys                                        sr_names : name -> owning session
   ControlManager.ctlsByRunID + Control.{proxies,
   portsUsedNum, workConnCh}                                 sr_sess : id -> sess

   The keyed Go tables are disjoint maps; they are kept as ONE association list whose key type is the
   disjoint union [slot] (the constructor says which Go table the entry lives in).  An entry's value is
   its holder: the proxy (OPxy name) that registered it or the load-balancing group (OGrp id) that
   shares it between its members.  Route tables: only membership matters for this property; the order
   inside Routers' per-user slices belongs to C06 (Model/Router.v).

   Operations = the handlers' sequential semantics (one control message = one step):
     SLogin, SNewProxy (RegisterProxy: quota check-and-add with deferred rollback, Exist, Run, Add,
     deferred Close), SCloseProxy, SEnd (worker teardown: connection drop / replacement by re-login /
     heartbeat timeout all reach the same code), SWorkConn, SSquat/SUnsquat (another process).
   External behaviour = oracle fields of the request: q_choice (random free port picked by the map
   iteration), q_lok (net.Listen succeeded), q_addok (pxyManager.Add succeeded; false = the name was
   taken by a concurrent registration between Exist and Add).  A step returns None when an oracle
   value is not one the code could have produced in that state. *)
From FRP Require Export Model.Ports.
Open Scope Z_scope.

(* ---------- keys ---------- *)
Inductive rkind := RHttp | RHttps | RMux.
Definition rkind_eqb (a b : rkind) : bool :=
  match a, b with RHttp, RHttp | RHttps, RHttps | RMux, RMux => true | _, _ => false end.

(* (domain, location, routeByHTTPUser) *)
Definition rkey := (string * string * string)%type.
Definition rkey_eqb (a b : rkey) : bool :=
  let '(d1, l1, u1) := a in let '(d2, l2, u2) := b in
  String.eqb d1 d2 && String.eqb l1 l2 && String.eqb u1 u2.

Inductive slot :=
| SSock (proto port : Z)          (* proto 0 = tcp, 1 = udp *)
| SRoute (k : rkind) (r : rkey)
| SVis (n : string)
| SNat (n : string).

Definition slot_eqb (a b : slot) : bool :=
  match a, b with
  | SSock x p, SSock y q => (x =? y) && (p =? q)
  | SRoute k r, SRoute k' r' => rkind_eqb k k' && rkey_eqb r r'
  | SVis n, SVis m => String.eqb n m
  | SNat n, SNat m => String.eqb n m
  | _, _ => false
  end.

Inductive gkind := GTcp | GHttp | GMux.
Definition gkind_eqb (a b : gkind) : bool :=
  match a, b with GTcp, GTcp | GHttp, GHttp | GMux, GMux => true | _, _ => false end.
Definition gid := (gkind * string)%type.
Definition gid_eqb (a b : gid) : bool := gkind_eqb (fst a) (fst b) && String.eqb (snd a) (snd b).

Inductive owner := OPxy (n : string) | OGrp (g : gid).

(* ---------- association lists (Go maps: the order is never observable) ---------- *)
Section Assoc.
  Context {K V : Type} (eqb : K -> K -> bool).
  Fixpoint al_get (k : K) (l : list (K * V)) : option V :=
    match l with [] => None | (q, v) :: r => if eqb k q then Some v else al_get k r end.
  Fixpoint al_del (k : K) (l : list (K * V)) : list (K * V) :=
    match l with [] => [] | (q, v) :: r => if eqb k q then al_del k r else (q, v) :: al_del k r end.
  Definition al_set (k : K) (v : V) (l : list (K * V)) : list (K * V) := (k, v) :: al_del k l.
End Assoc.

Definition res_get := @al_get slot owner slot_eqb.
Definition res_del := @al_del slot owner slot_eqb.
Definition nm_get {V} := @al_get string V String.eqb.
Definition nm_del {V} := @al_del string V String.eqb.
Definition nm_set {V} := @al_set string V String.eqb.
Definition ss_get {V} := @al_get Z V Z.eqb.
Definition ss_del {V} := @al_del Z V Z.eqb.
Definition ss_set {V} := @al_set Z V Z.eqb.

(* first occurrence of a string removed: `append(s[:i], s[i+1:]...)` after the first match *)
Fixpoint str_rem1 (n : string) (l : list string) : list string :=
  match l with [] => [] | m :: r => if String.eqb n m then r else m :: str_rem1 n r end.
Fixpoint str_mem (n : string) (l : list string) : bool :=
  match l with [] => false | m :: r => String.eqb n m || str_mem n r end.

(* ---------- groups ---------- *)
(* TCPGroup{groupKey, port, realPort, lns}, HTTPGroup{groupKey, domain, location, routeByHTTPUser,
   createFuncs/pxyNames}, TCPMuxGroup{groupKey, domain, routeByHTTPUser, username, password, lns}.
   g_slot = the resource the group shares (listening socket / route); g_port, g_real only for tcp;
   g_cred = username ++ 0 ++ password for tcpmux.  Members are identified by proxy name. *)
Record grp := { g_key : string; g_slot : slot; g_port : Z; g_real : Z; g_cred : string; g_mem : list string }.
(* NewTCPGroup / NewHTTPGroup / NewTCPMuxGroup: an empty group object (zero-valued parameters) *)
Definition g_shell (k : gkind) : grp :=
  {| g_key := ""; g_slot := match k with GTcp => SSock 0 0 | GHttp => SRoute RHttp (""%string, ""%string, ""%string) | GMux => SRoute RMux (""%string, ""%string, ""%string) end;
     g_port := 0; g_real := 0; g_cred := ""; g_mem := [] |}.
Definition grp_get := @al_get gid grp gid_eqb.
Definition grp_del := @al_del gid grp gid_eqb.
Definition grp_set := @al_set gid grp gid_eqb.
Definition g_with_mem (g : grp) (m : list string) : grp :=
  {| g_key := g_key g; g_slot := g_slot g; g_port := g_port g; g_real := g_real g; g_cred := g_cred g; g_mem := m |}.

(* ---------- proxies and sessions ---------- *)
Inductive ptype := TTcp | TUdp | THttp | THttps | TTcpmux | TStcp | TSudp | TXtcp.

(* what the Go proxy object remembers for its Close: realBindPort, listeners / closeFuncs (po_slots,
   in registration order), LoadBalancer.Group, usedPortsNum *)
Record pobj := { po_type : ptype; po_name : string; po_group : string; po_real : Z; po_slots : list slot; po_w : Z }.

Record sess := { ss_pxys : list (string * pobj); ss_used : Z; ss_pool : Z; ss_cap : Z }.

Record sr := {
  sr_tcp : pm; sr_udp : pm;
  sr_squat : list (Z * Z);
  sr_res : list (slot * owner);
  sr_grp : list (gid * grp);
  sr_names : list (string * Z);
  sr_sess : list (Z * sess) }.

Definition sr_new (ranges : list prange) : sr :=
  {| sr_tcp := pm_new ranges; sr_udp := pm_new ranges; sr_squat := []; sr_res := []; sr_grp := [];
     sr_names := []; sr_sess := [] |}.

Definition set_tcp t s := {| sr_tcp := t; sr_udp := sr_udp s; sr_squat := sr_squat s; sr_res := sr_res s;
  sr_grp := sr_grp s; sr_names := sr_names s; sr_sess := sr_sess s |}.
Definition set_udp u s := {| sr_tcp := sr_tcp s; sr_udp := u; sr_squat := sr_squat s; sr_res := sr_res s;
  sr_grp := sr_grp s; sr_names := sr_names s; sr_sess := sr_sess s |}.
Definition set_squat q s := {| sr_tcp := sr_tcp s; sr_udp := sr_udp s; sr_squat := q; sr_res := sr_res s;
  sr_grp := sr_grp s; sr_names := sr_names s; sr_sess := sr_sess s |}.
Definition set_res r s := {| sr_tcp := sr_tcp s; sr_udp := sr_udp s; sr_squat := sr_squat s; sr_res := r;
  sr_grp := sr_grp s; sr_names := sr_names s; sr_sess := sr_sess s |}.
Definition set_grp g s := {| sr_tcp := sr_tcp s; sr_udp := sr_udp s; sr_squat := sr_squat s; sr_res := sr_res s;
  sr_grp := g; sr_names := sr_names s; sr_sess := sr_sess s |}.
Definition set_names n s := {| sr_tcp := sr_tcp s; sr_udp := sr_udp s; sr_squat := sr_squat s; sr_res := sr_res s;
  sr_grp := sr_grp s; sr_names := n; sr_sess := sr_sess s |}.
Definition set_sess c s := {| sr_tcp := sr_tcp s; sr_udp := sr_udp s; sr_squat := sr_squat s; sr_res := sr_res s;
  sr_grp := sr_grp s; sr_names := sr_names s; sr_sess := c |}.

Definition set_pm (proto : Z) (m : pm) (s : sr) : sr := if proto =? 0 then set_tcp m s else set_udp m s.
Definition get_pm (proto : Z) (s : sr) : pm := if proto =? 0 then sr_tcp s else sr_udp s.

(* ports this server's sockets occupy / other processes occupy, per protocol *)
Fixpoint sock_ports (proto : Z) (r : list (slot * owner)) : list Z :=
  match r with
  | [] => []
  | (SSock x p, _) :: t => if x =? proto then p :: sock_ports proto t else sock_ports proto t
  | _ :: t => sock_ports proto t
  end.
Definition squat_ports (proto : Z) (q : list (Z * Z)) : list Z :=
  map snd (filter (fun x => fst x =? proto) q).
(* isPortAvailable as the OS answers it in this state *)
Definition sr_probe (s : sr) (proto : Z) : Z -> bool :=
  probe_of (sock_ports proto (sr_res s) ++ squat_ports proto (sr_squat s)).

(* ---------- requests ---------- *)
Record req := {
  q_type : ptype; q_name : string;
  q_port : Z;                          (* remotePort *)
  q_group : string; q_gkey : string;   (* loadBalancer.group / groupKey *)
  q_domains : list string;             (* customDomains followed by subdomain.subDomainHost (if any) *)
  q_locs : list string;                (* locations (http) *)
  q_user : string;                     (* routeByHTTPUser *)
  q_cred : string;                     (* httpUser/httpPassword (tcpmux group parameter) *)
  q_choice : option Z;                 (* oracle: port picked by the random path *)
  q_lok : bool;                        (* oracle: net.Listen / ListenUDP succeeded *)
  q_addok : bool }.                    (* oracle: pxyManager.Add succeeded *)

Inductive rerr :=
| EQuota | EExists | EAcq (e : perr) | EListen | EConflict | EVisRepeated | ENatRepeated
| EGrpParams | EGrpPort | EGrpAuth | EGrpRepeated | EAddRace.

(* `if domain == "" { continue }` *)
Definition nonempty (d : string) : bool := negb (String.eqb d "").
Definition live_domains (q : req) : list string := filter nonempty (q_domains q).

(* the nested loops of HTTPProxy.Run: for domain { for location } *)
Definition http_rkeys (q : req) : list rkey :=
  let locs := match q_locs q with [] => [""%string] | l => l end in
  flat_map (fun d => map (fun l => (d, l, q_user q)) locs) (live_domains q).
Definition https_rkeys (q : req) : list rkey := map (fun d => (d, ""%string, ""%string)) (live_domains q).
Definition mux_rkeys (q : req) : list rkey := map (fun d => (d, ""%string, q_user q)) (live_domains q).

(* ---------- the keyed tables ---------- *)
(* Routers.Add / visitor Listen / ListenClient: refuse if the key exists, else insert *)
Definition res_add (k : slot) (o : owner) (s : sr) : option sr :=
  match res_get k (sr_res s) with
  | Some _ => None
  | None => Some (set_res ((k, o) :: sr_res s) s)
  end.
(* Routers.Del / CloseListener / CloseClient / socket close: remove the key *)
Definition res_rm (k : slot) (s : sr) : sr := set_res (res_del k (sr_res s)) s.

(* ---------- port + socket ---------- *)
(* Acquire, then net.Listen (oracle), Release on listen failure.  The holder of the socket is [o]. *)
Definition acquire_listen (proto : Z) (s : sr) (name : string) (port : Z) (choice : option Z) (lok : bool) (o : owner)
  : option (sr * (Z + rerr)) :=
  match pm_acquire (sr_probe s proto) choice (get_pm proto s) name port with
  | None => None
  | Some (m', PErr e) => Some (set_pm proto m' s, inr (EAcq e))
  | Some (m', POk rp) =>
      if lok then
        match res_add (SSock proto rp) o (set_pm proto m' s) with
        | Some s' => Some (s', inl rp)
        | None => None                     (* the OS cannot bind one port twice *)
        end
      else Some (set_pm proto (pm_release m' rp) s, inr EListen)
  end.

(* listener.Close + Release(port) *)
Definition close_release (proto port : Z) (s : sr) : sr :=
  let s1 := res_rm (SSock proto port) s in
  set_pm proto (pm_release (get_pm proto s1) port) s1.

(* ---------- group join / leave ---------- *)
(* what a join request carries *)
Record gjoin := { j_gid : gid; j_name : string; j_key : string; j_slot : slot; j_port : Z; j_cred : string;
                  j_choice : option Z; j_lok : bool }.

(* XxxGroupCtl.Listen/Register: look the group up (creating an empty one) and join it.
   First member: acquire the shared resource (tcp: port + socket; http/tcpmux: route), then record the
   parameters.  Later members: parameters must match. *)
Definition grp_join (s : sr) (j : gjoin) : option (sr * (Z + rerr)) :=
  let id := j_gid j in
  let '(g, s1) := match grp_get id (sr_grp s) with
                  | Some g => (g, s)
                  | None => (g_shell (fst id), set_grp (grp_set id (g_shell (fst id)) (sr_grp s)) s)
                  end in
  match g_mem g with
  | [] =>
      match fst id with
      | GTcp =>
          match acquire_listen 0 s1 (j_name j) (j_port j) (j_choice j) (j_lok j) (OGrp id) with
          | None => None
          | Some (s2, inr e) => Some (s2, inr e)
          | Some (s2, inl rp) =>
              Some (set_grp (grp_set id {| g_key := j_key j; g_slot := SSock 0 rp; g_port := j_port j; g_real := rp;
                                           g_cred := ""; g_mem := [j_name j] |} (sr_grp s2)) s2, inl rp)
          end
      | _ =>
          match res_add (j_slot j) (OGrp id) s1 with
          | None => Some (s1, inr EConflict)
          | Some s2 =>
              Some (set_grp (grp_set id {| g_key := j_key j; g_slot := j_slot j; g_port := 0; g_real := 0;
                                           g_cred := j_cred j; g_mem := [j_name j] |} (sr_grp s2)) s2, inl 0)
          end
      end
  | _ :: _ =>
      match fst id with
      | GTcp =>
          if negb (g_port g =? j_port j) then Some (s1, inr EGrpPort)
          else if negb (String.eqb (g_key g) (j_key j)) then Some (s1, inr EGrpAuth)
          else Some (set_grp (grp_set id (g_with_mem g (g_mem g ++ [j_name j])) (sr_grp s1)) s1, inl (g_real g))
      | GHttp =>
          if negb (slot_eqb (g_slot g) (j_slot j)) then Some (s1, inr EGrpParams)
          else if negb (String.eqb (g_key g) (j_key j)) then Some (s1, inr EGrpAuth)
          else if str_mem (j_name j) (g_mem g) then Some (s1, inr EGrpRepeated)
          else Some (set_grp (grp_set id (g_with_mem g (g_mem g ++ [j_name j])) (sr_grp s1)) s1, inl 0)
      | GMux =>
          if negb (slot_eqb (g_slot g) (j_slot j) && String.eqb (g_cred g) (j_cred j)) then Some (s1, inr EGrpParams)
          else if negb (String.eqb (g_key g) (j_key j)) then Some (s1, inr EGrpAuth)
          else Some (set_grp (grp_set id (g_with_mem g (g_mem g ++ [j_name j])) (sr_grp s1)) s1, inl 0)
      end
  end.

(* TCPGroup.CloseListener / HTTPGroupController.UnRegister / TCPMuxGroup.CloseListener: remove the
   member; the last one out releases the shared resource and deletes the group.  A group that is not
   in the table (http: `if !ok { return }`) or a non-member changes nothing but the member list. *)
Definition grp_leave (s : sr) (id : gid) (name : string) : sr :=
  match grp_get id (sr_grp s) with
  | None => s
  | Some g =>
      let m' := str_rem1 name (g_mem g) in
      match m' with
      | [] =>
          let s1 := match g_slot g with
                    | SSock proto p => close_release proto p s
                    | k => res_rm k s
                    end in
          set_grp (grp_del id (sr_grp s1)) s1
      | _ :: _ => set_grp (grp_set id (g_with_mem g m') (sr_grp s)) s
      end
  end.

(* ---------- Proxy.Run ---------- *)
Definition mk_obj (q : req) (real : Z) (slots : list slot) (w : Z) : pobj :=
  {| po_type := q_type q; po_name := q_name q; po_group := q_group q; po_real := real; po_slots := slots; po_w := w |}.

Definition gkind_of (t : ptype) : gkind := match t with TTcp => GTcp | THttp => GHttp | _ => GMux end.
Definition rkind_of (t : ptype) : rkind := match t with THttp => RHttp | THttps => RHttps | _ => RMux end.

(* one closeFn / one listener.Close of a vhost-type proxy *)
Definition route_release (t : ptype) (group name : string) (k : slot) (s : sr) : sr :=
  if String.eqb group "" then res_rm k s else grp_leave s (gkind_of t, group) name.

(* the registration loop of HTTPProxy.Run / HTTPSProxy.Run / httpConnectRun.  [done] = what was
   registered so far (closeFuncs / listeners), oldest first.  On error: pxy.Close() = every closeFn /
   listener of [done] in order. *)
Fixpoint routes_run (t : ptype) (q : req) (ks : list rkey) (done : list slot) (s : sr) : sr * (list slot + rerr) :=
  match ks with
  | [] => (s, inl done)
  | rk :: rest =>
      let k := SRoute (rkind_of t) rk in
      let r := if String.eqb (q_group q) "" then
                 match res_add k (OPxy (q_name q)) s with
                 | Some s' => (s', None)
                 | None => (s, Some EConflict)
                 end
               else
                 match grp_join s {| j_gid := (gkind_of t, q_group q); j_name := q_name q; j_key := q_gkey q; j_slot := k;
                                     j_port := 0; j_cred := q_cred q; j_choice := None; j_lok := true |} with
                 | Some (s', inl _) => (s', None)
                 | Some (s', inr e) => (s', Some e)
                 | None => (s, Some EConflict)     (* unreachable: route joins consult no oracle *)
                 end in
      match r with
      | (s', None) => routes_run t q rest (done ++ [k]) s'
      | (s', Some e) =>
          (fold_left (fun acc k' => route_release t (q_group q) (q_name q) k' acc) done s', inr e)
      end
  end.

Definition px_run (s : sr) (q : req) : option (sr * (pobj + rerr)) :=
  match q_type q with
  | TTcp =>
      if String.eqb (q_group q) "" then
        match acquire_listen 0 s (q_name q) (q_port q) (q_choice q) (q_lok q) (OPxy (q_name q)) with
        | None => None
        | Some (s', inr e) => Some (s', inr e)
        | Some (s', inl rp) => Some (s', inl (mk_obj q rp [SSock 0 rp] 1))
        end
      else
        match grp_join s {| j_gid := (GTcp, q_group q); j_name := q_name q; j_key := q_gkey q; j_slot := SSock 0 0;
                            j_port := q_port q; j_cred := ""; j_choice := q_choice q; j_lok := q_lok q |} with
        | None => None
        | Some (s', inr e) => Some (s', inr e)
        | Some (s', inl rp) => Some (s', inl (mk_obj q rp [SSock 0 rp] 1))
        end
  | TUdp =>
      (* udp proxies have no group support: the group name is ignored *)
      match acquire_listen 1 s (q_name q) (q_port q) (q_choice q) (q_lok q) (OPxy (q_name q)) with
      | None => None
      | Some (s', inr e) => Some (s', inr e)
      | Some (s', inl rp) => Some (s', inl {| po_type := TUdp; po_name := q_name q; po_group := ""; po_real := rp;
                                              po_slots := [SSock 1 rp]; po_w := 1 |})
      end
  | THttp =>
      match routes_run THttp q (http_rkeys q) [] s with
      | (s', inl done) => Some (s', inl (mk_obj q 0 done 0))
      | (s', inr e) => Some (s', inr e)
      end
  | THttps =>
      (* https proxies have no group support: the group name is ignored *)
      let q' := {| q_type := THttps; q_name := q_name q; q_port := 0; q_group := ""; q_gkey := ""; q_domains := q_domains q;
                   q_locs := []; q_user := ""; q_cred := ""; q_choice := None; q_lok := true; q_addok := q_addok q |} in
      match routes_run THttps q' (https_rkeys q) [] s with
      | (s', inl done) => Some (s', inl (mk_obj q' 0 done 0))
      | (s', inr e) => Some (s', inr e)
      end
  | TTcpmux =>
      match routes_run TTcpmux q (mux_rkeys q) [] s with
      | (s', inl done) => Some (s', inl (mk_obj q 0 done 0))
      | (s', inr e) => Some (s', inr e)
      end
  | TStcp | TSudp =>
      match res_add (SVis (q_name q)) (OPxy (q_name q)) s with
      | Some s' => Some (s', inl {| po_type := q_type q; po_name := q_name q; po_group := ""; po_real := 0;
                                   po_slots := [SVis (q_name q)]; po_w := 0 |})
      | None => Some (s, inr EVisRepeated)
      end
  | TXtcp =>
      match res_add (SNat (q_name q)) (OPxy (q_name q)) s with
      | Some s' => Some (s', inl {| po_type := TXtcp; po_name := q_name q; po_group := ""; po_real := 0;
                                   po_slots := [SNat (q_name q)]; po_w := 0 |})
      | None => Some (s, inr ENatRepeated)
      end
  end.

(* ---------- Proxy.Close ---------- *)
Definition px_close (s : sr) (o : pobj) : sr :=
  match po_type o with
  | TTcp =>
      if String.eqb (po_group o) "" then close_release 0 (po_real o) s     (* BaseProxy.Close; Release *)
      else grp_leave s (GTcp, po_group o) (po_name o)                      (* TCPGroupListener.Close *)
  | TUdp => close_release 1 (po_real o) s
  | THttp | THttps | TTcpmux =>
      fold_left (fun acc k => route_release (po_type o) (po_group o) (po_name o) k acc) (po_slots o) s
  | TStcp | TSudp => res_rm (SVis (po_name o)) s
  | TXtcp => res_rm (SNat (po_name o)) s
  end.

(* ---------- Control.RegisterProxy / CloseProxy / worker teardown ---------- *)
Definition weight (t : ptype) : Z := match t with TTcp | TUdp => 1 | _ => 0 end.

Inductive rres := ROk (real : Z) | RErr (e : rerr).

Definition sess_with (c : sess) (p : list (string * pobj)) (u : Z) : sess :=
  {| ss_pxys := p; ss_used := u; ss_pool := ss_pool c; ss_cap := ss_cap c |}.

Definition y_register (maxp : Z) (s : sr) (c : Z) (q : req) : option (sr * rres) :=
  match ss_get c (sr_sess s) with
  | None => None
  | Some ct =>
      let w := weight (q_type q) in
      if (0 <? maxp) && (maxp <? ss_used ct + w) then Some (s, RErr EQuota)
      else
        (* ctl.portsUsedNum += n; the deferred function takes it back on every error below *)
        let u1 := if 0 <? maxp then ss_used ct + w else ss_used ct in
        let back (u : Z) := if 0 <? maxp then u - w else u in
        match nm_get (q_name q) (sr_names s) with
        | Some _ => Some (set_sess (ss_set c (sess_with ct (ss_pxys ct) (back u1)) (sr_sess s)) s, RErr EExists)
        | None =>
            match px_run s q with
            | None => None
            | Some (s1, inr e) =>
                Some (set_sess (ss_set c (sess_with ct (ss_pxys ct) (back u1)) (sr_sess s1)) s1, RErr e)
            | Some (s1, inl o) =>
                if q_addok q then
                  Some (set_sess (ss_set c (sess_with ct (nm_set (q_name q) o (ss_pxys ct)) u1) (sr_sess s1))
                         (set_names (nm_set (q_name q) c (sr_names s1)) s1), ROk (po_real o))
                else
                  (* Add failed: deferred pxy.Close(), deferred quota rollback *)
                  let s2 := px_close s1 o in
                  Some (set_sess (ss_set c (sess_with ct (ss_pxys ct) (back u1)) (sr_sess s2)) s2, RErr EAddRace)
            end
        end
  end.

Definition y_close (maxp : Z) (s : sr) (c : Z) (name : string) : option sr :=
  match ss_get c (sr_sess s) with
  | None => None
  | Some ct =>
      match nm_get name (ss_pxys ct) with
      | None => Some s
      | Some o =>
          let s1 := px_close s o in
          Some (set_sess (ss_set c (sess_with ct (nm_del name (ss_pxys ct))
                                      (if 0 <? maxp then ss_used ct - po_w o else ss_used ct)) (sr_sess s1))
                 (set_names (nm_del (po_name o) (sr_names s1)) s1))
      end
  end.

(* for _, pxy := range ctl.proxies { pxy.Close(); pxyManager.Del(name) } *)
Fixpoint close_all (s : sr) (l : list (string * pobj)) : sr :=
  match l with
  | [] => s
  | (_, o) :: t =>
      let s1 := px_close s o in
      close_all (set_names (nm_del (po_name o) (sr_names s1)) s1) t
  end.

(* returns the number of pooled work connections the teardown closed *)
Definition y_end (s : sr) (c : Z) : option (sr * Z) :=
  match ss_get c (sr_sess s) with
  | None => None
  | Some ct =>
      let s1 := close_all s (ss_pxys ct) in
      Some (set_sess (ss_del c (sr_sess s1)) s1, ss_pool ct)
  end.

(* ---------- histories ---------- *)
Inductive cause := CDrop | CReplaced | CHeartbeat.

Inductive sop :=
| SLogin (c : Z) (pool : Z)
| SNewProxy (c : Z) (q : req)
| SCloseProxy (c : Z) (name : string)
| SEnd (c : Z) (why : cause)
| SWorkConn (c : Z)
| SSquat (proto port : Z)
| SUnsquat (proto port : Z).

Inductive sout := OReg (r : rres) | OEnd (closed_conns : Z) | OWork (pooled : bool) | ONone'.

(* NewControl: poolCount clamped to [0, maxPool]; workConnCh capacity poolCount + 10 *)
Definition pool_cap (maxpool pool : Z) : Z := Z.max 0 (Z.min pool maxpool) + 10.

Definition sr_step (maxp maxpool : Z) (s : sr) (o : sop) : option (sr * sout) :=
  match o with
  | SLogin c pool =>
      match ss_get c (sr_sess s) with
      | Some _ => None
      | None => Some (set_sess (ss_set c {| ss_pxys := []; ss_used := 0; ss_pool := 0; ss_cap := pool_cap maxpool pool |}
                                       (sr_sess s)) s, ONone')
      end
  | SNewProxy c q => match y_register maxp s c q with Some (s', r) => Some (s', OReg r) | None => None end
  | SCloseProxy c n => match y_close maxp s c n with Some s' => Some (s', ONone') | None => None end
  | SEnd c _ => match y_end s c with Some (s', k) => Some (s', OEnd k) | None => None end
  | SWorkConn c =>
      match ss_get c (sr_sess s) with
      | None => None
      | Some ct =>
          if ss_pool ct <? ss_cap ct then
            Some (set_sess (ss_set c {| ss_pxys := ss_pxys ct; ss_used := ss_used ct; ss_pool := ss_pool ct + 1;
                                        ss_cap := ss_cap ct |} (sr_sess s)) s, OWork true)
          else Some (s, OWork false)
      end
  | SSquat proto port =>
      if (1 <=? port) && sr_probe s proto port then Some (set_squat ((proto, port) :: sr_squat s) s, ONone') else None
  | SUnsquat proto port =>
      Some (set_squat (filter (fun x => negb ((fst x =? proto) && (snd x =? port))) (sr_squat s)) s, ONone')
  end.

(* None = some oracle value of the history is not one the code could have produced *)
Fixpoint sr_run (maxp maxpool : Z) (ops : list sop) (s : sr) : option sr :=
  match ops with
  | [] => Some s
  | o :: t => match sr_step maxp maxpool s o with Some (s', _) => sr_run maxp maxpool t s' | None => None end
  end.

(* the same as one fold_left over the history *)
Definition sr_fold (maxp maxpool : Z) (ops : list sop) (s : sr) : option sr :=
  fold_left (fun acc o => match acc with
                          | Some x => match sr_step maxp maxpool x o with Some (x', _) => Some x' | None => None end
                          | None => None
                          end) ops (Some s).

(* ---------- footprint and table sizes (specification side) ---------- *)
Inductive atom :=
| AHeld (k : slot)               (* an entry of a keyed table held by the proxy itself *)
| AMember (g : gid)              (* membership in a load-balancing group *)
| APort (proto port : Z)         (* an entry of a port manager's used table recorded under the proxy's name
                                    (the tcp group's port stays under its first member's name: a group
                                    port is attributed to the group, see fp_ports) *)
| AName (c : Z)                  (* the global name table entry *)
| AOwned (c : Z).                (* the entry in session c's proxy table *)

Definition owner_is (n : string) (o : owner) : bool := match o with OPxy m => String.eqb n m | OGrp _ => false end.

Definition fp_res (s : sr) (n : string) : list atom :=
  map (fun e => AHeld (fst e)) (filter (fun e => owner_is n (snd e)) (sr_res s)).
Definition fp_grp (s : sr) (n : string) : list atom :=
  map (fun e => AMember (fst e)) (filter (fun e => str_mem n (g_mem (snd e))) (sr_grp s)).
(* ports recorded under the name n whose socket is not a group's socket *)
Definition group_sock (s : sr) (proto p : Z) : bool :=
  match res_get (SSock proto p) (sr_res s) with Some (OGrp _) => true | _ => false end.
Definition fp_ports (s : sr) (proto : Z) (n : string) : list atom :=
  let used := pm_used (get_pm proto s) in
  map (fun e => APort proto (fst e))
      (filter (fun e => match uget (fst e) used with
                        | Some m => String.eqb n m && negb (group_sock s proto (fst e))
                        | None => false
                        end) used).
Definition fp_name (s : sr) (n : string) : list atom :=
  match nm_get n (sr_names s) with Some c => [AName c] | None => [] end.
Definition fp_owned (s : sr) (n : string) : list atom :=
  flat_map (fun e => match ss_get (fst e) (sr_sess s) with
                     | Some ct => match nm_get n (ss_pxys ct) with Some _ => [AOwned (fst e)] | None => [] end
                     | None => []
                     end) (sr_sess s).

Definition fp (s : sr) (n : string) : list atom :=
  fp_res s n ++ fp_grp s n ++ fp_ports s 0 n ++ fp_ports s 1 n ++ fp_name s n ++ fp_owned s n.

Definition nlen {A} (l : list A) : Z := Z.of_nat (length l).
Definition is_route (k : rkind) (e : slot * owner) : bool :=
  match fst e with SRoute k' _ => rkind_eqb k k' | _ => false end.
Definition is_sock (proto : Z) (e : slot * owner) : bool :=
  match fst e with SSock x _ => x =? proto | _ => false end.
Definition is_vis (e : slot * owner) : bool := match fst e with SVis _ => true | _ => false end.
Definition is_nat (e : slot * owner) : bool := match fst e with SNat _ => true | _ => false end.
Definition live_grp (k : gkind) (e : gid * grp) : bool :=
  gkind_eqb k (fst (fst e)) && match g_mem (snd e) with [] => false | _ => true end.

(* the sizes the harness reads through the accessor files: tcp used, udp used, tcp sockets, udp sockets,
   http / https / tcpmux routes, visitor listeners, nat-hole clients, non-empty tcp / http / tcpmux
   groups, names, sessions, total proxies in sessions, sum of the sessions' portsUsedNum *)
Definition sizes (s : sr) : list Z :=
  [ nlen (pm_used (sr_tcp s)); nlen (pm_used (sr_udp s));
    nlen (filter (is_sock 0) (sr_res s)); nlen (filter (is_sock 1) (sr_res s));
    nlen (filter (is_route RHttp) (sr_res s)); nlen (filter (is_route RHttps) (sr_res s)); nlen (filter (is_route RMux) (sr_res s));
    nlen (filter is_vis (sr_res s)); nlen (filter is_nat (sr_res s));
    nlen (filter (live_grp GTcp) (sr_grp s)); nlen (filter (live_grp GHttp) (sr_grp s)); nlen (filter (live_grp GMux) (sr_grp s));
    nlen (sr_names s); nlen (sr_sess s);
    fold_right (fun e acc => nlen (ss_pxys (snd e)) + acc) 0 (sr_sess s);
    fold_right (fun e acc => ss_used (snd e) + acc) 0 (sr_sess s) ].
