from vlib import Check

PID = "C07"

MANIFEST = dict(
    text="Machine-checked theorems (Coq 8.16.1) over an executable model of every credential decision of frp — vhost http "
         "serveRouted (routeUserOf, CheckAuth, injectRequestInfoToCtx, CreateConnection), Muxer.handle with the tcpmux CONNECT "
         "functions, HTTPAuthMiddleware with its constant-time compare, the http_proxy / socks5 / static_file plugins and the "
         "gorilla/mux route tables of the dashboard and admin API: a request is forwarded or served only if it presents exactly the "
         "configured user and password, the route consulted by the check is the route forwarded to (for every request of a "
         "connection and every h2c stream), wrong or missing credentials get the declared refusal. The route tables are regenerated "
         "from dashboard_api.go / admin_api.go / server.go on every run (translator t7) and checked reflectively; the model is tied "
         "to the code by an exhaustive grid of request shapes run against the real reverse proxy, muxer, middleware, plugins, "
         "dashboard and admin servers.",
    note="Trusted: Coq kernel+VM; translator t7 (go/ast); harness transcription; net/http header parsing, encoding/base64, gorilla/mux "
         "matching and go-socks5 are modelled and compared on every run, not verified. Route lookup (Routers.Get) and CanonicalHost are "
         "universally quantified parameters of the theorems. Races between the check and a concurrent re-registration of routes are "
         "outside the model (owned by C06/C16).",
    technique="Coq proof (case analysis over the decision functions, reflection over translated route tables) + exhaustive differential "
              "correspondence via vm_compute",
    design="4/C07")


def recipe(c: Check):
    c.build(["Properties/C07.vo", "Corr/C07.vo"], harness=["c07"], units=["t7"])
    c.obligations("C07")
    st = c.run_driver("httpauth", 1, shards=8, timeout=900)
    if st:
        c.cov["exhaustive"] = bool(st.get("exhaustive"))
        c.cov["grid"] = st.get("grid")
        c.cov["extra_observations"] = st.get("extra_observations")
        if not st.get("exhaustive"):
            c.broken.append(dict(kind="driver", name="httpauth grid not enumerated completely",
                                 detail="some requests of the grid could not be completed (see impl_failures zz-driver-io:*)"))
        # the branches the property names must have been reached, otherwise the run proves nothing about them
        cnt = (c.cov.get("coq_counters") or {}).get("httpauth", {})
        need = ["NUNAUTH", "NFORWARD_PROTECTED", "NFORWARD_OPEN", "NNOTFOUND", "NSPLIT_USER", "NH2",
                "NMUX_AUTHFAIL", "NMUX_FORWARD_PROTECTED", "NGRP_REFUSED_JOIN", "NGRP_PROTECTED_DELIVERY",
                "NHGRP_REFUSED_JOIN", "NHGRP_PROTECTED_DELIVERY", "NMUXRACE_CLOSED", "NMUXRACE_DELIVERED"]
        if st.get("parts_system"):
            need += ["NSYS_SUBDOMAIN_REFUSED", "NSYS_SUBDOMAIN_FORWARDED"]
        if st.get("parts_web"):
            need += ["NWEB_UNAUTH", "NWEB_PUBLIC"]
        missing = [k for k in need if cnt.get(k, 0) <= 0]
        if not (st.get("distribution") or {}).get("pool-key:plain"):
            missing.append("pool-key request form (Host = a route's transport key) not exercised")
        if cnt and missing:
            c.broken.append(dict(kind="coverage", name="model branches never reached: %s" % ",".join(missing),
                                 detail="the correspondence run did not exercise these branches of Model/HttpAuth.v"))
    return c.finish(
        rule="httpauth driver, exhaustive grid: {origin, absolute, CONNECT} x 16 credential kinds in Authorization (none, right, wrong "
             "password, wrong user, other route's user, malformed base64, empty user, empty password, admin, lower-case scheme, other "
             "scheme, no colon, password prefix, password extended, user in other case, password in other case) x the same 16 in Proxy-Authorization x {HTTP/1.0, HTTP/1.1 with "
             "canonical / lower / upper header names, h2c stream after an upgrade} x targets of 3 fixed + seeded random route tables "
             "(protected, unprotected, user-routed, wildcard, password-only, no backend) on the real vhost.HTTPReverseProxy behind "
             "net/http on loopback with recording stub backends; CONNECT grid on the real tcpmux muxer (passthrough on/off); scripted interleavings on the real muxer (routed listener closed / other listener closed / host re-registered with credentials while the hand-over is blocked, a wildcard listener covering the host); group.TCPMuxGroupCtl over the real muxer with 6 member kinds (open, alice, bob, alice twin, password only, wrong group key) joining in every order of 2 and 3 with and without a leave, then CONNECTs with none / right / wrong / other credentials, observing every Listen result and which member accepted; the real "
             "HTTPAuthMiddleware x 7 methods; http_proxy / socks5 / static_file through the plugin constructors; dashboard "
             "(server.NewService) and frpc admin API on loopback. Compared: status class and which backend/handler saw the request, "
             "against Model/HttpAuth.v; monitor: backend saw the request => its route's credentials were presented. "
             "distinct = distinct case text; non-trivial = carries at least one credential header",
        assumptions=["Routers.Get and CanonicalHost are parameters of the theorems (any lookup); the correspondence uses a list-based "
                     "lookup (ha_tbl_get) and hosts without IPv6 literals",
                     "encoding/base64 and net/http header canonicalisation are oracles: the harness reports the decoded value, the grid "
                     "varies header-name casing to observe invariance",
                     "the route table does not change between the credential check and the backend dial of one request"])
