(* C03 correspondence: observed behaviour of pkg/proto/udp (+ msg.WriteMsg/ReadMsg, and the whole
   frps/frpc tunnel) against Model/Udp.v, and the property monitors on observed traces. *)
From FRP Require Export Corr.Common Model.Udp Model.UdpSched Model.UdpLoops Proofs.RegistryCheck.
Open Scope Z_scope.

Definition udp_registry := registry type_consts type_map.
Definition udp_registered := reg_of udp_registry.

(* one observation of the tunnel: datagram [o_idx] of the send list seen with payload [o_data]
   at [o_where] (backend: index of the source port by first appearance; user: index of the user) *)
Record uobs := { o_where : Z; o_idx : Z; o_data : bytes }.

Inductive case :=
(* NewUDPPacket buf l r; WriteMsg -> wire; Content; ReadMsg(wire) class: 0 ok and equal, 1 ok but
   different, 4 ErrMaxMsgLength, 5 other error, 6 other message type.
   The wire is given as the bytes before and after the base64 content; the content itself in
   full for payloads up to the default packet size, by length and Adler-32 checksum always *)
| CPkt (buf : bytes) (l r : option uaddr) (whead wtail : bytes) (content : option bytes) (clen csum back : Z)
(* GetContent on an arbitrary content string *)
| CDec (content : bytes) (ok : bool) (out : bytes)
(* ForwardUserConn and Forwarder back to back: users, bursts of (user index, payload); observed
   backend log and user log.  Light load: everything must arrive, in order *)
| CFwd (bufsize : Z) (users : list uaddr) (bursts : list (list (Z * bytes)))
       (backend : list uobs) (urecv : list uobs)
(* the same with the Forwarder's 30 s idle timeout between two groups of bursts: every local socket
   is closed, the backend then sends [late] datagrams to the old ports (nobody may receive them),
   and the users of the second group get new sockets *)
| CIdle (bufsize : Z) (users : list uaddr) (bursts1 bursts2 : list (list (Z * bytes))) (late : Z)
        (backend : list uobs) (urecv : list uobs)
(* whole system.  [phase] of a send: 0 before / 1 while / 2 after the replacement of the work
   connection; phases 0 and 2 must arrive, phase 1 may be lost *)
| CSys (variant : Z) (nusers : Z) (sends : list (Z * Z * bytes)) (backend : list uobs) (urecv : list uobs)
(* queue-full: nobody drains sendCh while k > 1024 eight-byte datagrams (payload i = "C3", user i mod 2,
   sequence i) arrive at ForwardUserConn; then the pipeline drains.  Observed: indices seen at the
   backend (in order) and reply indices seen by each of the two users (payloads checked by the driver) *)
| CFull (bufsize k : Z) (users : list uaddr) (backend_idx user0_idx user1_idx : list Z)
(* the capacities of the channels the code creates (every make(chan ..., N) of the four proxy/visitor files) *)
| CCap (caps : list Z)
(* replay of the idle-boundary witness on the real udp.Forwarder (gate udp.forwarder.before_write):
   d1 is written and answered; the loop is held between mu.Unlock and Write for d2 while the
   30 s read deadline of the socket fires (the reader deletes the entry and closes the socket);
   released; then d3.  Observed: the backend log (source-port index, payload) *)
| CRace (bufsize : Z) (user : uaddr) (d1 d2 d3 : bytes) (backend : list (Z * bytes))
(* the reply goroutine of the real ForwardUserConn: replies in readCh order as (user index, did WriteToUDP
   have a destination the OS accepts), and for each whether it reached its user (observed) *)
| CReplyLoop (replies : list (Z * bool)) (reached : list bool)
(* message types (type bytes) frps wrote on a scripted udp work connection after it was sent a Ping and
   [ndatagrams] user datagrams arrived at the public port *)
| CAlphabet (ndatagrams : Z) (types : list Z)
(* work connections the server-side udp proxy installed (distinct ones observed by polling) against the number
   of failures the driver forced: one failure, one replacement *)
| CReplace (variant failures installed : Z)
(* udp packet size: written into a real configuration file of the given format (0 toml, 1 legacy ini), loaded by
   the real loader for frpc and frps *)
| CCfgSize (format configured client_loaded server_loaded : Z).

Definition opt_uaddr_eqb (a b : option uaddr) : bool :=
  match a, b with
  | None, None => true
  | Some a, Some b => bytes_eqb (ua_ip a) (ua_ip b) && (ua_port a =? ua_port b) && bytes_eqb (ua_zone a) (ua_zone b)
  | _, _ => false
  end.

(* the labelled echo backend answers with every byte xor 0x5a (same length) *)
Definition uxf (d : bytes) : bytes := map (fun b => byte_of_Z (Z.lxor (Z_of_byte b) 90)) d.

Definition adler (s : bytes) : Z :=
  let '(a, b) := fold_left (fun ab x => let a' := (fst ab + Z_of_byte x) mod 65521 in (a', (snd ab + a') mod 65521)) s (1, 0) in
  b * 65536 + a.

(** * property monitors on observed data (also evaluated by the driver on the Go side) *)

Fixpoint znth {A} (i : Z) (l : list A) : option A :=
  match l with [] => None | x :: r => if i =? 0 then Some x else znth (i - 1) r end.

Definition cnt_idx (i : Z) (l : list uobs) : Z := count_if (fun o => o_idx o =? i) l.

(* sends: (user, phase, payload).  Reason codes: 0 holds *)
Definition C03_monitor (sends : list (Z * Z * bytes)) (backend urecv : list uobs) : Z :=
  (* every datagram at the backend is exactly one datagram some user sent, at most once *)
  if negb (forallb (fun o => match znth (o_idx o) sends with
                             | Some (_, _, d) => bytes_eqb d (o_data o) | None => false end) backend) then 21
  else if negb (forallb (fun o => cnt_idx (o_idx o) backend =? 1) backend) then 22
  (* a local socket (source port seen by the backend) carries one user only *)
  else if negb (forallb (fun o => forallb (fun o' =>
            negb (o_where o =? o_where o') ||
            match znth (o_idx o) sends, znth (o_idx o') sends with
            | Some (u, _, _), Some (u', _, _) => u =? u' | _, _ => false end) backend) backend) then 23
  (* every reply a user receives answers one of ITS datagrams, with the backend's payload, at most once *)
  else if negb (forallb (fun o => match znth (o_idx o) sends with
                                  | Some (u, _, d) => (u =? o_where o) && bytes_eqb (uxf d) (o_data o)
                                  | None => false end) urecv) then 24
  else if negb (forallb (fun o => cnt_idx (o_idx o) urecv =? 1) urecv) then 25
  (* a reply only for a datagram that reached the backend *)
  else if negb (forallb (fun o => cnt_idx (o_idx o) backend =? 1) urecv) then 26
  else 0.

(* at light load, outside a replacement, everything arrives *)
Fixpoint all_arrive_from (i : Z) (sends : list (Z * Z * bytes)) (backend urecv : list uobs) : bool :=
  match sends with
  | [] => true
  | (_, ph, _) :: r =>
      ((ph =? 1) || ((cnt_idx i backend =? 1) && (cnt_idx i urecv =? 1))) && all_arrive_from (i + 1) r backend urecv
  end.

(* per-user order at the backend and at the user *)
Fixpoint increasing_from (last : Z) (l : list Z) : bool :=
  match l with [] => true | x :: r => (last <? x) && increasing_from x r end.
Definition per_user_order (nusers : Z) (sends : list (Z * Z * bytes)) (l : list uobs) : bool :=
  forallb (fun u =>
    increasing_from (-1) (map o_idx (filter (fun o => match znth (o_idx o) sends with
                                                   | Some (u', _, _) => u' =? u | None => false end) l)))
    (map Z.of_nat (seq 0 (Z.to_nat nusers))).

Definition C03_holds (nusers : Z) (ordered : bool) (sends : list (Z * Z * bytes)) (backend urecv : list uobs) : Z :=
  let m := C03_monitor sends backend urecv in
  if negb (m =? 0) then m
  else if negb (all_arrive_from 0 sends backend urecv) then 27
  else if ordered && negb (per_user_order nusers sends backend && per_user_order nusers sends urecv) then 28
  else 0.

(** * the model on the light-load schedule of a CFwd case *)

Definition pump_fwd : list uev := [ESrvSend; ECliRecv; ECliPump true].
Definition pump_rev : list uev := [ECliSend; ESrvRecv; ESrvDeliver true].


(* one burst: all datagrams arrive at the public socket, the pipeline drains, the backend
   answers each datagram it got (in order) on the socket it came from, the replies drain *)
Definition run_burst (c : ucfg) (users : list uaddr) (st : ust) (burst : list (Z * bytes))
  : option (ust * list uout) :=
  let evs := map (fun ud => match znth (fst ud) users with
                            | Some a => Some (EUserSend a (snd ud)) | None => None end) burst in
  match opt_all evs with
  | None => None
  | Some sends =>
      let n := length burst in
      let '(st1, o1) := urun c st (sends ++ List.concat (repeat pump_fwd n)) in
      let replies := flat_map (fun o => match o with OBackend s _ d => [EBackendReply s (uxf d)] | _ => [] end) o1 in
      let '(st2, o2) := urun c st1 (replies ++ List.concat (repeat pump_rev n)) in
      Some (st2, o1 ++ o2)
  end.

Fixpoint run_bursts (c : ucfg) (users : list uaddr) (st : ust) (bursts : list (list (Z * bytes)))
  : option (ust * list uout) :=
  match bursts with
  | [] => Some (st, [])
  | b :: r =>
      match run_burst c users st b with
      | None => None
      | Some (st1, o1) =>
          match run_bursts c users st1 r with
          | Some (st2, o2) => Some (st2, o1 ++ o2)
          | None => None
          end
      end
  end.

Fixpoint uaddr_index (a : uaddr) (users : list uaddr) (i : Z) : Z :=
  match users with
  | [] => -1
  | u :: r => if opt_uaddr_eqb (Some a) (Some u) then i else uaddr_index a r (i + 1)
  end.

(* the model's backend log (socket id, payload) and user log (user index, payload) *)
Definition model_backend (tr : list uout) : list (Z * bytes) :=
  flat_map (fun o => match o with OBackend s _ d => [(Z.of_N s, d)] | _ => [] end) tr.
Definition model_user (users : list uaddr) (tr : list uout) : list (Z * bytes) :=
  flat_map (fun o => match o with OUser a d => [(uaddr_index a users 0, d)] | _ => [] end) tr.

Fixpoint zb_list_eqb (a b : list (Z * bytes)) : bool :=
  match a, b with
  | [], [] => true
  | (x, d) :: a', (y, e) :: b' => (x =? y) && bytes_eqb d e && zb_list_eqb a' b'
  | _, _ => false
  end.

Definition flatten_sends (u0 : Z) (bursts : list (list (Z * bytes))) : list (Z * Z * bytes) :=
  flat_map (fun b => map (fun ud => (fst ud, 0, snd ud)) b) bursts.

Definition group_by_user (n : nat) (l : list (Z * bytes)) : list (Z * bytes) :=
  flat_map (fun u => filter (fun p => fst p =? u) l) (map Z.of_nat (seq 0 n)).

Definition obs_pairs (l : list uobs) : list (Z * bytes) := map (fun o => (o_where o, o_data o)) l.

Definition full_payload (u i : Z) : bytes := [x43; x33] ++ be 2 u ++ be 4 i.
Definition full_drops (tr : list uout) : Z :=
  count_if (fun o => match o with ODropFwd DSendFull _ => true | _ => false end) tr.
Fixpoint zlist_eqb (a b : list Z) : bool :=
  match a, b with
  | [], [] => true
  | x :: a', y :: b' => (x =? y) && zlist_eqb a' b'
  | _, _ => false
  end.

(* the lock-granularity model on the witness schedule, followed by the four writer steps of d3 *)
Definition race_schedule : list gtid :=
  [TWriter; TWriter; TWriter; TWriter; TWriter; TWriter; TWriter;
   TDeadline 0; TReader 0; TReader 0; TReader 0; TReader 0; TWriter;
   TWriter; TWriter; TWriter; TWriter].
Definition race_model (bufsize : Z) (user : uaddr) (d1 d2 d3 : bytes) : list gout :=
  snd (grun {| uc_buf := bufsize |}
            (ginit (map (fun d => new_udp_packet d None (Some user)) [d1; d2; d3])) race_schedule).
(* the observation equals what the model predicts for the racing schedule, and that prediction loses d2 *)
Definition race_lost (c : case) : bool :=
  match c with
  | CRace bufsize user d1 d2 d3 backend =>
      let tr := race_model bufsize user d1 d2 d3 in
      zb_list_eqb (flat_map (fun o => match o with GWrote s _ d => [(Z.of_N s, d)] | _ => [] end) tr) backend
      && existsb (fun o => match o with GWriteErr _ _ d => bytes_eqb d d2 | _ => false end) tr
  | _ => false
  end.

Fixpoint list_bool_eqb (a b : list bool) : bool :=
  match a, b with
  | [], [] => true
  | x :: a', y :: b' => Bool.eqb x y && list_bool_eqb a' b'
  | _, _ => false
  end.

(* 0 = agrees; otherwise a reason code *)
Definition check_case (c : case) : Z :=
  match c with
  | CPkt buf l r whead wtail content clen csum back =>
      let p := new_udp_packet buf l r in
      let wire := udp_encode_msg p in
      if negb (match content with Some c => bytes_eqb (up_content p) c | None => true end) then 1
      else if negb ((blen (up_content p) =? clen) && (adler (up_content p) =? csum)) then 7
      else if negb (upacket_plain p) then 9
      else if negb (bytes_eqb wire (whead ++ up_content p ++ wtail)) then 2
      else if negb (udp_registered udp_type_byte) then 8
      else if upacket_fits p then
        (match decode_frame udp_registered wire with
         | DOk r' _ _ => if negb (bytes_eqb (d_body r') (udp_text p)) then 5
                         else if back =? 0 then (match get_content p with
                                                 | Some b => if bytes_eqb b buf then 0 else 6 | None => 6 end)
                         else 3
         | DErr _ _ _ => 4
         end)
      else
        (match decode_frame udp_registered wire with
         | DErr ErrMaxLen _ _ => if back =? 4 then 0 else 3
         | _ => 4
         end)
  | CDec content ok out =>
      match b64_decode content with
      | Some d => if ok then (if bytes_eqb d out then 0 else 11) else 12
      | None => if ok then 13 else 0
      end
  | CFwd bufsize users bursts backend urecv =>
      let sends := flatten_sends 0 bursts in
      let m := C03_holds (Z.of_nat (length users)) true sends backend urecv in
      if negb (m =? 0) then m
      else
        let cfg := {| uc_buf := bufsize |} in
        let '(st0, _) := ustep cfg uinit EWorkConnReplaced in
        match run_bursts cfg users st0 bursts with
        | None => 30
        | Some (st, tr) =>
            if negb (zb_list_eqb (model_backend tr) (obs_pairs backend)) then 31
            else if negb (zb_list_eqb (group_by_user (length users) (model_user users tr)) (obs_pairs urecv)) then 32
            else if existsb (fun o => uout_is_drop o) tr then 33
            else if negb ((length (ufwd_pending st) =? 0)%nat && (length (urev_pending st) =? 0)%nat) then 34
            else 0
        end
  | CIdle bufsize users b1 b2 late backend urecv =>
      let sends := flatten_sends 0 (b1 ++ b2) in
      let m := C03_holds (Z.of_nat (length users)) true sends backend urecv in
      if negb (m =? 0) then m
      else
        let cfg := {| uc_buf := bufsize |} in
        let '(st0, _) := ustep cfg uinit EWorkConnReplaced in
        match run_bursts cfg users st0 b1 with
        | None => 30
        | Some (st1, tr1) =>
            let old := map fst (c_readers st1) in
            let '(st2, tr2) := urun cfg st1 (map ESockIdle old) in
            let '(st3, tr3) := urun cfg st2 (map (fun s => EBackendReply s [x00]) old) in
            if negb (forallb (fun o => match o with OSockClosed _ => true | _ => false end) tr2) then 35
            else if negb (forallb (fun o => match o with OLate _ _ => true | _ => false end) tr3) then 36
            else if negb ((length (c_map st3) =? 0)%nat) then 37
            else match run_bursts cfg users st3 b2 with
                 | None => 30
                 | Some (st4, tr4) =>
                     let tr := tr1 ++ tr4 in
                     if negb (zb_list_eqb (model_backend tr) (obs_pairs backend)) then 31
                     else if negb (zb_list_eqb (group_by_user (length users) (model_user users tr)) (obs_pairs urecv)) then 32
                     else if existsb (fun o => uout_is_drop o) tr then 33
                     else 0
                 end
        end
  | CSys variant nusers sends backend urecv =>
      C03_holds nusers (forallb (fun s => match s with (_, ph, _) => ph =? 0 end) sends) sends backend urecv
  | CFull bufsize k users bidx u0 u1 =>
      let cfg := {| uc_buf := bufsize |} in
      let '(st0, _) := ustep cfg uinit EWorkConnReplaced in
      let burst := map (fun i => let i := Z.of_nat i in (i mod 2, full_payload (i mod 2) i)) (seq 0 (Z.to_nat k)) in
      match run_burst cfg users st0 burst with
      | None => 30
      | Some (st, tr) =>
          let idx_of := fun d : bytes => rdu (skipn 4 d) 0 in
          let mb := map (fun p => idx_of (snd p)) (model_backend tr) in
          let mu := model_user users tr in
          let mu0 := map (fun p => idx_of (uxf (snd p))) (filter (fun p => fst p =? 0) mu) in
          let mu1 := map (fun p => idx_of (uxf (snd p))) (filter (fun p => fst p =? 1) mu) in
          if negb (zlist_eqb mb bidx) then 41
          else if negb (zlist_eqb mu0 u0 && zlist_eqb mu1 u1) then 42
          else if negb (full_drops tr =? k - uqcap) then 43
          else if negb (forallb (fun o => match o with ODropFwd DSendFull _ => true | ODropFwd _ _ | ODropRev _ _ => false | _ => true end) tr) then 44
          else 0
      end
  | CCap caps => if forallb (fun n => n =? uqcap) caps && (4 <=? Z.of_nat (length caps)) then 0 else 45
  | CReplyLoop replies reached =>
      let model := map (fun o => match o with RLDelivered _ => true | _ => false end) (rl_run false true replies) in
      if list_bool_eqb model reached then 0 else 61
  | CReplace _ failures installed => if installed <=? failures + 1 then 0 else 63
  | CCfgSize _ configured cl sv => if (cl =? configured) && (sv =? configured) then 0 else 64
  | CAlphabet n types =>
      if forallb (fun t => t =? Z_of_byte udp_type_byte) types && (Z.of_nat (length types) =? n) then 0 else 62
  | CRace bufsize user d1 d2 d3 backend =>
      if race_lost (CRace bufsize user d1 d2 d3 backend) then 0
      else (* the loss did not happen (no gate in this build, or repaired code): then all three arrive once *)
        if zb_list_eqb (map (fun p => (0, snd p)) backend) [(0, d1); (0, d2); (0, d3)] then 0 else 51
  end.

Definition is_pkt (c : case) : bool := match c with CPkt _ _ _ _ _ _ _ _ _ => true | _ => false end.
Definition is_oversize (c : case) : bool :=
  match c with CPkt buf l r _ _ _ _ _ _ => negb (upacket_fits (new_udp_packet buf l r)) | _ => false end.
Definition is_dec_err (c : case) : bool := match c with CDec _ false _ => true | _ => false end.
Definition is_fwd (c : case) : bool := match c with CFwd _ _ _ _ _ => true | _ => false end.
Definition is_idle (c : case) : bool := match c with CIdle _ _ _ _ _ _ _ => true | _ => false end.
Definition is_full (c : case) : bool := match c with CFull _ _ _ _ _ _ => true | _ => false end.
Definition is_replyloop (c : case) : bool := match c with CReplyLoop _ _ => true | _ => false end.
Definition replyloop_failed_writes (c : case) : Z :=
  match c with CReplyLoop r _ => count_if (fun x : Z * bool => negb (snd x)) r | _ => 0 end.
Definition is_replace_case (c : case) : bool := match c with CReplace _ _ _ => true | _ => false end.
Definition is_cfgsize (c : case) : bool := match c with CCfgSize _ _ _ _ => true | _ => false end.
Definition is_alphabet (c : case) : bool := match c with CAlphabet _ _ => true | _ => false end.
Definition is_race (c : case) : bool := match c with CRace _ _ _ _ _ _ => true | _ => false end.
Definition is_cap (c : case) : bool := match c with CCap _ => true | _ => false end.
Definition is_sys (c : case) : bool := match c with CSys _ _ _ _ _ => true | _ => false end.
(* sockets the model created in the CFwd cases (the per-user map was exercised) *)
Definition fwd_sockets (c : case) : Z :=
  match c with
  | CFwd bufsize users bursts _ _ =>
      let cfg := {| uc_buf := bufsize |} in
      let '(st0, _) := ustep cfg uinit EWorkConnReplaced in
      match run_bursts cfg users st0 bursts with
      | Some (st, _) => Z.of_N (next_sock st)
      | None => 0
      end
  | _ => 0
  end.
Fixpoint sum_Z {A} (f : A -> Z) (l : list A) : Z := match l with [] => 0 | x :: r => f x + sum_Z f r end.
