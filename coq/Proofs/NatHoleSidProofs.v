(* C20: the sid datagram codec is symmetric for every key, the empty key included. *)
From FRP Require Import Model.NatHoleSid.

Section SidCodecProofs.
  Variable M : Type.
  Variable frame : M -> bytes.
  Variable unframe : bytes -> option M.
  Variable enc dec : bytes -> bytes -> option bytes.
  Hypothesis frame_law : forall m, unframe (frame m) = Some m.
  (* golib crypto (pbkdf2 + AES-CFB) works for every key, also the empty one *)
  Hypothesis crypto_total : forall k s, exists c, enc k s = Some c.
  Hypothesis crypto_law : forall k s c, enc k s = Some c -> dec k c = Some s.

  Lemma sid_roundtrip key m :
    exists d, sid_encode M frame enc key m = Some d /\ sid_decode M unframe dec key d = Some m.
  Proof.
    unfold sid_encode, sid_decode. destruct (crypto_total key (frame m)) as [c E]. exists c. split; [exact E|].
    rewrite (crypto_law _ _ _ E). apply frame_law.
  Qed.
End SidCodecProofs.
