// C16, client side: a scripted fake frps (and a fake STUN server) for the frpc child of client.go.
//
// The fake server speaks the real wire protocol through pkg/msg and wraps the control channel
// exactly as server/control.go does after login (token-keyed cipher).  Everything it sends is
// driven by a PRNG: mutated LoginResp, field-mutated messages of all 18 types on the control
// channel, ReqWorkConn bursts, raw frames with odd JSON, garbage, control connections dropped at
// random points, and on every work / visitor connection the child opens a mutated answer followed
// by payload for the handler behind the addressed proxy.
package main

import (
	"bytes"
	"crypto/tls"
	"encoding/base64"
	"encoding/binary"
	"fmt"
	"io"
	"math"
	"net"
	"os"
	"path/filepath"
	"reflect"
	"strings"
	"sync"
	"sync/atomic"
	"syscall"
	"time"

	"github.com/fatedier/frp/pkg/msg"
	netpkg "github.com/fatedier/frp/pkg/util/net"
	"github.com/fatedier/frp/pkg/util/util"
	fmux "github.com/hashicorp/yamux"
	"github.com/pion/stun/v2"
	"verifharness/hx"
)

// ---- wire helpers ----

func typeByteOf(m msg.Message) byte {
	var b bytes.Buffer
	if err := msg.WriteMsg(&b, m); err != nil || b.Len() == 0 {
		return 0
	}
	return b.Bytes()[0]
}

// frame builds a raw frame: type byte, 8-byte big-endian length, body.
func frame(typ byte, body []byte) []byte {
	var b bytes.Buffer
	b.WriteByte(typ)
	_ = binary.Write(&b, binary.BigEndian, int64(len(body)))
	b.Write(body)
	return b.Bytes()
}

func frameLen(typ byte, declared int64, body []byte) []byte {
	var b bytes.Buffer
	b.WriteByte(typ)
	_ = binary.Write(&b, binary.BigEndian, declared)
	b.Write(body)
	return b.Bytes()
}

type inConn struct {
	c     net.Conn // the connection or mux stream the message arrived on
	raw   net.Conn // the underlying TCP connection
	first msg.Message
}

func (ic *inConn) rst() {
	if tc, ok := ic.raw.(*net.TCPConn); ok {
		_ = tc.SetLinger(0)
	}
	ic.raw.Close()
}

// ---- fake frps ----

type fakeSrv struct {
	ln     net.Listener
	ip     string
	port   int
	mux    bool
	logins chan *inConn
	works  chan *inConn
	visits chan *inConn
	nOther int64
	mu     sync.Mutex
	raws   []net.Conn
}

func newFakeSrv(ip string, mux bool) (*fakeSrv, error) {
	ln, err := net.Listen("tcp", net.JoinHostPort(ip, "0"))
	if err != nil {
		return nil, err
	}
	s := &fakeSrv{ln: ln, ip: ip, port: ln.Addr().(*net.TCPAddr).Port, mux: mux,
		logins: make(chan *inConn, 64), works: make(chan *inConn, 512), visits: make(chan *inConn, 256)}
	go s.accept()
	return s, nil
}

func (s *fakeSrv) accept() {
	for {
		c, err := s.ln.Accept()
		if err != nil {
			return
		}
		s.mu.Lock()
		s.raws = append(s.raws, c)
		s.mu.Unlock()
		if !s.mux {
			go s.first(c, c)
			continue
		}
		go func(c net.Conn) {
			cfg := fmux.DefaultConfig()
			cfg.LogOutput = io.Discard
			cfg.KeepAliveInterval = 30 * time.Second
			cfg.MaxStreamWindowSize = 6 * 1024 * 1024
			sess, err := fmux.Server(c, cfg)
			if err != nil {
				c.Close()
				return
			}
			defer sess.Close()
			for {
				st, err := sess.AcceptStream()
				if err != nil {
					return
				}
				go s.first(st, c)
			}
		}(c)
	}
}

func (s *fakeSrv) first(c, raw net.Conn) {
	_ = c.SetReadDeadline(time.Now().Add(5 * time.Second))
	m, err := msg.ReadMsg(c)
	_ = c.SetReadDeadline(time.Time{})
	if err != nil || m == nil {
		c.Close()
		return
	}
	ic := &inConn{c: c, raw: raw, first: m}
	var ch chan *inConn
	switch m.(type) {
	case *msg.Login:
		ch = s.logins
	case *msg.NewWorkConn:
		ch = s.works
	case *msg.NewVisitorConn:
		ch = s.visits
	default:
		atomic.AddInt64(&s.nOther, 1)
		c.Close()
		return
	}
	select {
	case ch <- ic:
	default:
		c.Close()
	}
}

func (s *fakeSrv) close() {
	s.ln.Close()
	s.mu.Lock()
	for _, c := range s.raws {
		c.Close()
	}
	s.mu.Unlock()
}

func (s *fakeSrv) waitLogin(d time.Duration, dead <-chan struct{}) (*inConn, error) {
	select {
	case ic := <-s.logins:
		return ic, nil
	case <-dead:
		return nil, fmt.Errorf("child exited")
	case <-time.After(d):
		return nil, fmt.Errorf("no Login within %v", d)
	}
}

// ---- control session ----

type ctlSess struct {
	in      *inConn
	rw      io.ReadWriter
	runID   string
	wmu     sync.Mutex
	dead    chan struct{}
	honest  atomic.Bool  // answer every NewProxy / pre-check faithfully (watchdog phases)
	holeErr atomic.Bool  // answer NatHoleClient with an error at once (the exchange ends there)
	lrp     atomic.Int64 // != 0: answer NatHoleClient / NatHoleVisitor with a plain receiver-role answer carrying this ListenRandomPorts
	g       *hx.Gen      // used by the reader goroutine only

	mu        sync.Mutex
	running   map[string]bool // proxies whose NewProxy got a clean answer in this session
	nNewProxy int
	nPing     int
	nHoleReq  int
	regCh     chan string
}

// establish answers the Login faithfully (or with resp if given and error-free) and starts the reader.
func (s *fakeSrv) establish(ic *inConn, resp *msg.LoginResp, seed int64) (*ctlSess, error) {
	lm := ic.first.(*msg.Login)
	if resp == nil {
		rid := lm.RunID
		if rid == "" {
			rid, _ = util.RandID()
		}
		resp = &msg.LoginResp{Version: "0.61.0", RunID: rid}
	}
	if err := msg.WriteMsg(ic.c, resp); err != nil {
		ic.c.Close()
		return nil, err
	}
	rw, err := netpkg.NewCryptoReadWriter(ic.c, []byte(hx.DefaultToken))
	if err != nil {
		ic.c.Close()
		return nil, err
	}
	cs := &ctlSess{in: ic, rw: rw, runID: resp.RunID, dead: make(chan struct{}), g: hx.NewGen(seed),
		running: map[string]bool{}, regCh: make(chan string, 256)}
	go cs.reader()
	return cs, nil
}

func (cs *ctlSess) isDead() bool {
	select {
	case <-cs.dead:
		return true
	default:
		return false
	}
}

func (cs *ctlSess) send(m msg.Message) error {
	cs.wmu.Lock()
	defer cs.wmu.Unlock()
	_ = cs.in.c.SetWriteDeadline(time.Now().Add(2 * time.Second))
	return msg.WriteMsg(cs.rw, m)
}

func (cs *ctlSess) sendRaw(b []byte) error {
	cs.wmu.Lock()
	defer cs.wmu.Unlock()
	_ = cs.in.c.SetWriteDeadline(time.Now().Add(2 * time.Second))
	_, err := cs.rw.Write(b)
	return err
}

func (cs *ctlSess) isRunning(name string) bool {
	cs.mu.Lock()
	defer cs.mu.Unlock()
	return cs.running[name]
}

func (cs *ctlSess) reader() {
	defer close(cs.dead)
	g := cs.g
	for {
		m, err := msg.ReadMsg(cs.rw)
		if err != nil {
			return
		}
		switch v := m.(type) {
		case *msg.NewProxy:
			cs.mu.Lock()
			cs.nNewProxy++
			cs.mu.Unlock()
			ok := &msg.NewProxyResp{ProxyName: v.ProxyName, RemoteAddr: ":12345"}
			how := 0
			if !cs.honest.Load() && v.ProxyName != pxWD {
				how = []int{0, 0, 0, 0, 1, 2, 3, 4, 5}[g.Intn(9)]
			}
			switch how {
			case 0:
				_ = cs.send(ok)
			case 1:
				_ = cs.send(&msg.NewProxyResp{ProxyName: v.ProxyName, Error: g.Pick(advStrings) + "!"})
			case 2: // no answer
			case 3:
				ok.RemoteAddr = strings.Repeat("r", 9000)
				_ = cs.send(ok)
			case 4:
				_ = cs.send(ok)
				_ = cs.send(ok)
				_ = cs.send(&msg.NewProxyResp{ProxyName: v.ProxyName, Error: "late error"})
			case 5:
				_ = cs.send(&msg.NewProxyResp{ProxyName: g.Pick(advStrings), RemoteAddr: g.Pick(advStrings)})
				_ = cs.send(ok)
			}
			if how == 0 || how >= 3 {
				cs.mu.Lock()
				cs.running[v.ProxyName] = true
				cs.mu.Unlock()
				select {
				case cs.regCh <- v.ProxyName:
				default:
				}
			}
		case *msg.CloseProxy:
			cs.mu.Lock()
			delete(cs.running, v.ProxyName)
			cs.mu.Unlock()
		case *msg.Ping:
			cs.mu.Lock()
			cs.nPing++
			cs.mu.Unlock()
			_ = cs.send(&msg.Pong{})
		case *msg.NatHoleVisitor:
			cs.mu.Lock()
			cs.nHoleReq++
			cs.mu.Unlock()
			if v.PreCheck {
				switch {
				case cs.honest.Load() || g.Chance(0.8):
					_ = cs.send(&msg.NatHoleResp{TransactionID: v.TransactionID})
				case g.Chance(0.5):
					_ = cs.send(&msg.NatHoleResp{TransactionID: v.TransactionID, Error: "pre-check refused"})
				}
			} else {
				go junkDatagrams(append(append([]string{}, v.MappedAddrs...), v.AssistedAddrs...), g.Bytes(64))
				for _, r := range advNatHoleResps(g, v.TransactionID) {
					_ = cs.send(r)
				}
			}
		case *msg.NatHoleClient:
			cs.mu.Lock()
			cs.nHoleReq++
			cs.mu.Unlock()
			go junkDatagrams(append(append([]string{}, v.MappedAddrs...), v.AssistedAddrs...), g.Bytes(64))
			if cs.holeErr.Load() {
				_ = cs.send(&msg.NatHoleResp{TransactionID: v.TransactionID, Error: "refused"})
				continue
			}
			if n := cs.lrp.Load(); n != 0 {
				_ = cs.send(&msg.NatHoleResp{TransactionID: v.TransactionID, Sid: v.Sid, Protocol: "quic", CandidateAddrs: []string{"127.0.16.1:9"},
					DetectBehavior: msg.NatHoleDetectBehavior{Role: "receiver", ReadTimeoutMs: 100, ListenRandomPorts: int(n)}})
				continue
			}
			for _, r := range advNatHoleResps(g, v.TransactionID) {
				_ = cs.send(r)
			}
		}
	}
}

// junkDatagrams: while the child waits for detect messages on the socket it announced (mapped = what STUN told it,
// assisted = its local addresses), datagrams of every length 0..64 arrive there; three rounds over about 120 ms.
func junkDatagrams(addrs []string, junk []byte) {
	seen := map[string]bool{}
	for round := 0; round < 3; round++ {
		time.Sleep(time.Duration(10+round*45) * time.Millisecond)
		for _, a := range addrs {
			ua, err := net.ResolveUDPAddr("udp4", a)
			if err != nil || ua.Port == 0 || (round == 0 && seen[ua.String()]) {
				continue
			}
			seen[ua.String()] = true
			c, err := net.DialUDP("udp4", nil, ua)
			if err != nil {
				continue
			}
			for n := 0; n <= 64; n++ {
				_, _ = c.Write(junk[:n])
			}
			c.Close()
		}
	}
}

// ---- adversarial content ----

var advAddrs = []string{"", "127.0.0.1", "::1", "1.2.3.4", "0.0.0.0", "255.255.255.255", "fe80::1%lo", "unresolvable.invalid", "not an ip", "1.2.3.4:5", "[::1]",
	"\x00", "\xff\xfe\xfd", "..", strings.Repeat("a", 300), strings.Repeat("h.", 2000), "127.0.0.1\r\nX: y", "localhost", "*"}

var advHostPorts = []string{"", "127.0.16.1:1", "127.0.16.1:0", "127.0.16.1:65535", "127.0.16.1:65536", "127.0.16.1:-1", "127.0.16.1", ":", "::::", "[::1]:7", "[::1%lo]:7",
	"1.2.3.4:99999999999999999999", "not an address", "\xff:1", strings.Repeat("9", 400) + ":1", "0.0.0.0:7", "255.255.255.255:7", "224.0.0.1:7", "unresolvable.invalid:7"}

// advStartWorkConn: a StartWorkConn for target (or an unknown / odd name) with adversarial address fields.
func advStartWorkConn(g *hx.Gen, target string) *msg.StartWorkConn {
	m := &msg.StartWorkConn{ProxyName: target}
	if g.Chance(0.12) {
		m.ProxyName = g.Pick(advStrings)
	}
	if g.Chance(0.75) {
		m.SrcAddr = g.Pick(advAddrs)
	}
	if g.Chance(0.5) {
		m.DstAddr = g.Pick(advAddrs)
	}
	ports := []uint16{0, 1, 80, 65535, 65535, 1, 443}
	m.SrcPort = ports[g.Intn(len(ports))]
	m.DstPort = ports[g.Intn(len(ports))]
	if g.Chance(0.08) {
		m.Error = g.Pick(advStrings)
	}
	return m
}

// oddJSONBodies: bodies that are not the JSON object the receiver expects.
var oddJSONBodies = []string{`null`, `[]`, `""`, `0`, `{}`, `{"proxy_name":5}`, `{"src_port":70000}`, `{"src_port":-1}`, `{"src_port":"80"}`, `{"proxy_name":null,"src_addr":null}`,
	`{"c":"!!!notbase64","l":null,"r":null}`, `{"c":"AAAA","r":{"IP":"not-an-ip","Port":-1,"Zone":"z"}}`, `{"c":"AAAA","r":{"IP":"AQIDBA==","Port":99999999}}`, `{"r":[]}`,
	`{"candidate_addrs":null,"detect_behavior":null}`, `{"detect_behavior":{"candidate_ports":[{"from":"x"}]}}`, `{"error":{}}`, `{`, `{"run_id":"` + strings.Repeat("x", 5000) + `"}`,
	strings.Repeat("[", 5000), `{"a":` + strings.Repeat(`{"a":`, 1500) + `1` + strings.Repeat(`}`, 1501), "\xff\xfe", `{"proxy_name":"\ud800"}`, `{"proxy_name":"\u0000"}`}

func advPortsRanges(g *hx.Gen) []msg.PortsRange {
	pool := []msg.PortsRange{{From: 1, To: 3}, {From: 65530, To: 65540}, {From: -3, To: 2}, {From: 5, To: 1}, {From: 0, To: 0}, {From: 40000, To: 40010},
		{From: math.MaxInt32 - 2, To: math.MaxInt32}, {From: math.MinInt64, To: math.MinInt64 + 3}}
	n := g.Intn(4)
	var out []msg.PortsRange
	for i := 0; i < n; i++ {
		out = append(out, pool[g.Intn(len(pool))])
	}
	return out
}

func advAddrList(g *hx.Gen) []string {
	if g.Chance(0.1) {
		return nil
	}
	n := 1 + g.Intn(4)
	if g.Chance(0.05) {
		n = 200
	}
	out := make([]string, n)
	for i := range out {
		out[i] = g.Pick(advHostPorts)
	}
	return out
}

// advNatHoleResps: the answer(s) to a NatHoleVisitor / NatHoleClient with transaction id tid.  The numbers that
// bound loops and socket counts in nathole.MakeHole are taken from small and from adversarial values;
// ListenRandomPorts goes up to MaxInt64 (the repaired MakeHole clamps it; the directed scenario "listen-random-ports" is the regression case).
func advNatHoleResps(g *hx.Gen, tid string) []*msg.NatHoleResp {
	r := &msg.NatHoleResp{TransactionID: tid, Sid: g.Pick([]string{"", "sid1", "\x00", strings.Repeat("s", 2000)}), Protocol: g.Pick([]string{"", "quic", "kcp", "bogus"}),
		CandidateAddrs: advAddrList(g), AssistedAddrs: advAddrList(g)}
	b := &r.DetectBehavior
	b.Role = g.Pick([]string{"sender", "receiver", "receiver", "", "bogus"})
	b.Mode = []int{0, 1, 2, 3, 4, -1, 99, math.MaxInt32}[g.Intn(8)]
	b.TTL = []int{0, 0, 1, 7, 255, 256, -1, math.MaxInt32, math.MinInt32}[g.Intn(9)]
	b.SendDelayMs = []int{0, 0, 0, 1, 20, -1, math.MinInt32, math.MaxInt32}[g.Intn(8)]
	b.ReadTimeoutMs = []int{30, 30, 100, 100, 1, 0, -1, math.MaxInt32}[g.Intn(8)]
	b.CandidatePorts = advPortsRanges(g)
	b.SendRandomPorts = []int{0, 0, 1, 5, -1, math.MaxInt32}[g.Intn(6)]
	b.ListenRandomPorts = []int{0, 0, 1, 3, 16, -1, math.MinInt64, 256, 1024, 70000, math.MaxInt32, math.MaxInt64}[g.Intn(12)]
	if b.ListenRandomPorts > 16 {
		// many sockets AND a peer-chosen long hold (read time-out, or candidate port ranges walked at 2 ms per port and socket
		// before the wait starts) is a different input class (see design/C16.md, "Not covered"): here the sockets are given
		// back after about 100 ms
		if b.ReadTimeoutMs <= 0 || b.ReadTimeoutMs > 100 {
			b.ReadTimeoutMs = 100
		}
		b.CandidatePorts = nil
		b.SendDelayMs = 0
	}
	if g.Chance(0.1) {
		r.Error = g.Pick(advStrings)
	}
	out := []*msg.NatHoleResp{r}
	if g.Chance(0.25) { // the same transaction answered again (and again)
		r2 := *r
		out = append(out, &r2, &r2)
	}
	if g.Chance(0.1) {
		out = append([]*msg.NatHoleResp{{TransactionID: g.Pick(advStrings)}}, out...)
	}
	return out
}

func advUDPPacket(g *hx.Gen) *msg.UDPPacket {
	p := &msg.UDPPacket{}
	switch g.Intn(6) {
	case 0:
		p.Content = base64.StdEncoding.EncodeToString([]byte("hello"))
	case 1:
		p.Content = "!!!not-base64!!!"
	case 2:
		p.Content = base64.StdEncoding.EncodeToString(g.Bytes(6000))
	case 3:
		p.Content = "A"
	case 4:
		p.Content = strings.Repeat("=", 50)
	}
	addr := func() *net.UDPAddr {
		switch g.Intn(6) {
		case 0:
			return nil
		case 1:
			return &net.UDPAddr{IP: net.ParseIP("127.0.16.1"), Port: 9}
		case 2:
			return &net.UDPAddr{}
		case 3:
			return &net.UDPAddr{IP: net.IP{1, 2, 3}, Port: -1, Zone: "nozone"}
		case 4:
			return &net.UDPAddr{IP: net.ParseIP("ff02::1"), Port: 70000, Zone: "lo"}
		}
		return &net.UDPAddr{IP: net.ParseIP("127.0.16.1"), Port: 40000 + g.Intn(5)}
	}
	p.LocalAddr, p.RemoteAddr = addr(), addr()
	return p
}

var httpish = []string{"GET / HTTP/1.1\r\nHost: c16.test\r\n\r\n", "GET /static/index.html HTTP/1.1\r\nHost: x\r\n\r\n", "GET /static/../../etc/passwd HTTP/1.1\r\nHost: x\r\n\r\n",
	"CONNECT 127.0.16.1:1 HTTP/1.1\r\nHost: 127.0.16.1:1\r\n\r\n", "CONNECT :0 HTTP/1.1\r\n\r\n", "CONNECT [::1 HTTP/1.1\r\nHost: x\r\n\r\n", "GET http://127.0.16.1:1/ HTTP/1.1\r\nHost: 127.0.16.1:1\r\nProxy-Authorization: Basic !!!\r\n\r\n",
	"GET / HTTP/1.1\r\nContent-Length: -5\r\n\r\n", "POST / HTTP/1.1\r\nHost: x\r\nTransfer-Encoding: chunked\r\n\r\nffffffffffffffff\r\n", "GET / HTTP/9.9\r\n\r\n", "PRI * HTTP/2.0\r\n\r\nSM\r\n\r\n",
	"GET " + strings.Repeat("/a", 40000) + " HTTP/1.1\r\n\r\n", "\r\n\r\n", "GET / HTTP/1.1\r\nHost: x\r\nX-Forwarded-For: " + strings.Repeat("1.1.1.1, ", 500) + "\r\n\r\n"}

// authVariants: what a user may put behind "Proxy-Authorization:" / "Authorization:" (dTpw = u:p)
var authVariants = []string{"Basic", "Basic ", "Basic  ", "basic", "Basic dTpw", "basic dTpw", "BASIC  dTpw", "Basic dTpw extra", "Basic !!!", "Basic dQ==", "Basic OnA=", "Basic Og==", "Basic " + strings.Repeat("QUFB", 3000),
	"Bearer x", "Digest", "", " ", "\t", "Basic\tdTpw", "Negotiate " + strings.Repeat("A", 100), "Basic \xff\xfe"}

// httpWithAuth: requests for the plugins that check credentials themselves (http_proxy on CONNECT in the bare work-connection
// goroutine; http_proxy otherwise and static_file inside net/http handlers).
func httpWithAuth(g *hx.Gen) string {
	a := authVariants[g.Intn(len(authVariants))]
	hdr := g.Pick([]string{"Proxy-Authorization", "Proxy-Authorization", "Authorization", "proxy-authorization"})
	line := g.Pick([]string{"CONNECT 127.0.16.1:1 HTTP/1.1", "CONNECT 127.0.16.1:1 HTTP/1.1", "CONNECT / HTTP/1.1", "CONNECT [::1 HTTP/1.1", "GET http://127.0.16.1:1/ HTTP/1.1", "GET /static/index.html HTTP/1.1", "GET / HTTP/1.1", "POST http://127.0.16.1:1/x HTTP/1.1"})
	host := g.Pick([]string{"Host: 127.0.16.1:1\r\n", "Host: x\r\n", "", "Host:\r\n"})
	extra := ""
	if g.Chance(0.3) {
		extra = hdr + ": " + authVariants[g.Intn(len(authVariants))] + "\r\n" // the header twice
	}
	return line + "\r\n" + host + hdr + ": " + a + "\r\n" + extra + "\r\n"
}

// socksAuth: SOCKS5 greetings that offer user/password, followed by (mal)formed sub-negotiations and requests
var socksAuth = [][]byte{{5, 1, 2}, {5, 1, 2, 1, 1, 'u', 1, 'p'}, {5, 1, 2, 1, 1, 'u', 1, 'p', 5, 1, 0, 1, 127, 0, 16, 1, 0, 1}, {5, 1, 2, 1, 255, 'u'}, {5, 1, 2, 1, 0, 0}, {5, 1, 2, 1, 1, 'u', 255},
	{5, 1, 2, 2, 1, 'u', 1, 'p'}, {5, 2, 0, 2, 1, 1, 'x', 1, 'y'}, {5, 1, 2, 1}, {5, 1, 2, 1, 1, 'u', 1, 'p', 5, 1, 0, 3, 0}, {5, 1, 2, 1, 1, 'u', 1, 'p', 5, 1, 0, 3, 255, 'a'}, {5, 1, 2, 1, 1, 'u', 1, 'p', 5, 1, 0, 4, 1, 2},
	{5, 1, 2, 1, 1, 'u', 1, 'p', 5, 3, 0, 1, 0, 0, 0, 0, 0, 0}, {5, 1, 2, 1, 1, 'u', 1, 'p', 5, 1, 0, 9, 1}, {5, 0, 1, 1, 'u', 1, 'p'}}

var socksish = [][]byte{{5, 1, 0}, {5, 1, 0, 5, 1, 0, 1, 127, 0, 16, 1, 0, 1}, {5, 1, 0, 5, 1, 0, 3, 255}, {5, 255}, {4, 1, 0, 80, 127, 0, 0, 1, 0}, {5, 1, 0, 5, 3, 0, 4, 0, 0, 0, 0, 0, 0, 0, 0, 0, 0, 0, 0, 0, 0, 0, 1, 0, 9},
	{5, 1, 2, 1, 255}, {5, 0}, {5, 1, 0, 5, 2, 0, 1, 0, 0, 0, 0, 0, 0}, {5, 1, 0, 5, 9, 0, 9}}

// ---- fake STUN server ----

type fakeStun struct {
	a, b  *net.UDPConn
	mode  atomic.Int32 // 0 = PRNG mix, 1 = always faithful, 2 = flood (many copies of every answer)
	mu    sync.Mutex
	g     *hx.Gen
	nReq  int64
	flood int
}

func newFakeStun(ip string, seed int64) (*fakeStun, error) {
	a, err := net.ListenUDP("udp4", &net.UDPAddr{IP: net.ParseIP(ip)})
	if err != nil {
		return nil, err
	}
	b, err := net.ListenUDP("udp4", &net.UDPAddr{IP: net.ParseIP(ip)})
	if err != nil {
		a.Close()
		return nil, err
	}
	s := &fakeStun{a: a, b: b, g: hx.NewGen(seed), flood: 120}
	go s.serve(a, b.LocalAddr().(*net.UDPAddr))
	go s.serve(b, nil)
	return s, nil
}

func (s *fakeStun) addr() string { return s.a.LocalAddr().String() }
func (s *fakeStun) close()       { s.a.Close(); s.b.Close() }

func (s *fakeStun) serve(c *net.UDPConn, other *net.UDPAddr) {
	buf := make([]byte, 2048)
	for {
		n, from, err := c.ReadFromUDP(buf)
		if err != nil {
			return
		}
		atomic.AddInt64(&s.nReq, 1)
		req := &stun.Message{Raw: append([]byte(nil), buf[:n]...)}
		if err := req.Decode(); err != nil {
			continue
		}
		s.mu.Lock()
		how := 0
		switch s.mode.Load() {
		case 0:
			how = []int{0, 0, 0, 0, 0, 0, 1, 2, 3, 4, 5}[s.g.Intn(11)]
		case 2:
			how = 6
		}
		garbage := s.g.Bytes(40)
		s.mu.Unlock()
		setters := []stun.Setter{stun.NewTransactionIDSetter(req.TransactionID), stun.BindingSuccess,
			&stun.XORMappedAddress{IP: from.IP, Port: from.Port}}
		if other != nil {
			setters = append(setters, &stun.OtherAddress{IP: other.IP, Port: other.Port})
		}
		copies := 1
		switch how {
		case 1:
			copies = 3
		case 2: // silent
			continue
		case 3:
			_, _ = c.WriteToUDP(garbage, from)
			continue
		case 4: // mapped port 0, other address on a dead port
			setters = []stun.Setter{stun.NewTransactionIDSetter(req.TransactionID), stun.BindingSuccess, &stun.XORMappedAddress{IP: from.IP, Port: 0},
				&stun.OtherAddress{IP: net.ParseIP("127.0.16.1"), Port: 1}}
		case 5: // an error class answer without addresses
			setters = []stun.Setter{stun.NewTransactionIDSetter(req.TransactionID), stun.BindingError}
		case 6:
			copies = s.flood
		}
		resp, err := stun.Build(setters...)
		if err != nil {
			continue
		}
		for i := 0; i < copies; i++ {
			_, _ = c.WriteToUDP(resp.Raw, from)
		}
	}
}

// ---- one epoch: one frpc child against one fake server ----

type caseRec struct {
	kind, typ, detail string
	alive, wd         bool
}

type epochOut struct {
	races  []string // race detector reports of the child (when it was built with -race)
	cases  []caseRec
	fails  []map[string]any
	dist   map[string]int
	counts map[string]int64
	stderr string
}

type epoch struct {
	seed     int64
	idx      int
	tier     string
	race     bool // weights for the race-detector pass: more re-logins, overlapping udp work connections, bursts before drops
	directed string
	g        *hx.Gen
	srv      *fakeSrv
	stun     *fakeStun
	ch       *child
	echoPort int
	uechoPrt int
	vports   [4]int
	cur      *ctlSess
	out      *epochOut
	hist     []string // the message sequence so far (replay)
	wdWant   atomic.Bool
	forceUDP atomic.Int32 // > 0: the next work connections are started for forceTgt and carry a steady stream of datagrams
	forceTgt atomic.Value // string
	wdConn   chan *inConn
	stopBg   chan struct{}
	bgWG     sync.WaitGroup
	nSess    int // logins seen
	nEst     int // sessions established
	nWork    int64
	nVisit   int64
	nWD      int
	loginTO  time.Duration
	dumpDir  string
	dumped   bool
}

func (e *epoch) replay() string {
	h := e.hist
	if len(h) > 14 {
		h = h[len(h)-14:]
	}
	return fmt.Sprintf("seed %d epoch %d (mux=%v directed=%q) step %d; last steps: %s", e.seed, e.idx, e.srv.mux, e.directed, len(e.hist), strings.Join(h, " | "))
}

func (e *epoch) record(kind, typ, detail string, wd bool) {
	alive := e.ch.alive()
	e.out.cases = append(e.out.cases, caseRec{"client:" + kind, typ, detail, alive, wd})
	e.out.dist[kind]++
}

func (e *epoch) step(kind, typ, detail string) {
	if len(detail) > 160 {
		detail = detail[:160]
	}
	e.hist = append(e.hist, fmt.Sprintf("#%d %s %s %s", len(e.hist), kind, typ, detail))
}

// crashKey: a stable key for a dead child: the first frame inside frp of the panicking goroutine.
func crashFrame(stderr string) string {
	// start at the panic / fatal error line (a -race child's stderr may hold race reports, which also name goroutines)
	start := -1
	for _, mark := range []string{"\npanic: ", "\nfatal error: ", "panic: ", "fatal error: "} {
		if k := strings.Index(stderr, mark); k >= 0 && (start < 0 || k < start) {
			start = k
		}
	}
	if start < 0 {
		return ""
	}
	stderr = stderr[start:]
	i := strings.Index(stderr, "\ngoroutine ")
	if i < 0 {
		return ""
	}
	i++
	for _, l := range strings.Split(stderr[i:], "\n") {
		l = strings.TrimSpace(l)
		if strings.HasPrefix(l, "github.com/fatedier/frp/") {
			l = strings.TrimPrefix(l, "github.com/fatedier/frp/")
			if j := strings.LastIndex(l, "("); j > 0 {
				l = l[:j]
			}
			if j := strings.Index(l, ".func"); j > 0 {
				l = l[:j]
			}
			return l
		}
		if l == "" {
			break
		}
	}
	return ""
}

func (e *epoch) checkCrash(kind string) bool {
	if e.ch.alive() {
		return false
	}
	if e.dumped { // we ended it ourselves (SIGQUIT for the goroutine stacks of a wedge already reported)
		return true
	}
	time.Sleep(30 * time.Millisecond) // let the stderr pipe drain
	st := e.ch.stderr()
	where := crashFrame(st)
	key := "frpc-crash:" + where
	if where == "" {
		key = "frpc-crash:" + kind
	}
	e.out.fails = append(e.out.fails, map[string]any{"key": key, "what": "frpc terminated (" + kind + "): " + crashClass(st) + " in " + where, "case": e.replay()})
	if len(st) > 6000 {
		st = st[:6000]
	}
	e.out.stderr = st
	return true
}

// goroutineDump asks the (alive but stuck) child for its goroutine stacks (SIGQUIT makes the Go runtime print them
// and exit) and returns the stacks that run frp code, most telling first.
func (e *epoch) goroutineDump() string {
	if !e.ch.alive() {
		return ""
	}
	before := len(e.ch.stderr())
	e.dumped = true
	_ = e.ch.cmd.Process.Signal(syscall.SIGQUIT)
	select {
	case <-e.ch.done:
	case <-time.After(3 * time.Second):
	}
	st := e.ch.stderr()
	if len(st) > before {
		st = st[before:]
	}
	if e.dumpDir != "" {
		_ = os.WriteFile(filepath.Join(e.dumpDir, fmt.Sprintf("wedge_goroutines_seed%d_epoch%d.txt", e.seed, e.idx)), []byte(st), 0o644)
	}
	var keep, rest []string
	for _, g := range strings.Split(st, "\n\n") {
		if !strings.Contains(g, "github.com/fatedier/frp/") {
			continue
		}
		if strings.Contains(g, "(*Control).worker") || strings.Contains(g, "keepControllerWorking") || strings.Contains(g, "loopLoginUntilSuccess") ||
			strings.Contains(g, "(*Dispatcher).readLoop") || strings.Contains(g, "(*Manager).Close") || strings.Contains(g, "sync.(*") {
			keep = append(keep, g)
		} else {
			rest = append(rest, g)
		}
	}
	out := strings.Join(append(keep, rest...), "\n\n")
	if len(out) > 12000 {
		out = out[:12000]
	}
	return out
}

func (e *epoch) dropCurrent(how int) {
	cs := e.cur
	if cs == nil {
		return
	}
	switch how {
	case 0:
		cs.in.c.Close()
	case 1:
		cs.in.rst()
	default: // half-written frame, then close
		_ = cs.sendRaw(frameLen('2', 300, []byte(`{"proxy_name":"wd-`)))
		cs.in.c.Close()
	}
	if e.srv.mux && how != 0 {
		cs.in.raw.Close()
	}
	select {
	case <-cs.dead:
	case <-time.After(time.Second):
	}
	e.cur = nil
}

// workLoop hands incoming work connections to the watchdog when it asked for one, else to the barrage.
func (e *epoch) workLoop() {
	defer e.bgWG.Done()
	for {
		select {
		case <-e.stopBg:
			return
		case ic := <-e.srv.works:
			n := atomic.AddInt64(&e.nWork, 1)
			if e.wdWant.Load() {
				select {
				case e.wdConn <- ic:
					continue
				default:
				}
			}
			e.bgWG.Add(1)
			go func() {
				defer e.bgWG.Done()
				e.barrageWorkConn(ic, hx.NewGen(e.seed*7919+int64(e.idx)*104729+n))
			}()
		case ic := <-e.srv.visits:
			n := atomic.AddInt64(&e.nVisit, 1)
			e.bgWG.Add(1)
			go func() {
				defer e.bgWG.Done()
				e.barrageVisitorConn(ic, hx.NewGen(e.seed*6007+int64(e.idx)*15485863+n))
			}()
		}
	}
}

func readSome(c net.Conn, d time.Duration) {
	_ = c.SetReadDeadline(time.Now().Add(d))
	b := make([]byte, 4096)
	for {
		if _, err := c.Read(b); err != nil {
			return
		}
	}
}

// barrageWorkConn: the child opened a work connection (NewWorkConn); answer it adversarially.
func (e *epoch) barrageWorkConn(ic *inConn, g *hx.Gen) {
	c := ic.c
	defer c.Close()
	_ = c.SetWriteDeadline(time.Now().Add(3 * time.Second))
	target := clientProxyNames[g.Intn(len(clientProxyNames))]
	if e.forceUDP.Load() > 0 && e.forceUDP.Add(-1) >= 0 {
		// several work connections for ONE udp proxy, each with datagrams in flight while the next one arrives:
		// every arrival closes the channels of its predecessor (client/proxy/udp.go InWorkConn -> Close)
		target, _ = e.forceTgt.Load().(string)
		if msg.WriteMsg(c, &msg.StartWorkConn{ProxyName: target}) != nil {
			return
		}
		ra := &net.UDPAddr{IP: net.ParseIP("127.0.16.1"), Port: 40000 + g.Intn(3)}
		content := base64.StdEncoding.EncodeToString([]byte("overlap"))
		for t0, d := time.Now(), time.Duration(80+g.Intn(150))*time.Millisecond; time.Since(t0) < d; {
			_ = c.SetWriteDeadline(time.Now().Add(time.Second))
			if msg.WriteMsg(c, &msg.UDPPacket{Content: content, RemoteAddr: ra}) != nil {
				return
			}
		}
		return
	}
	switch g.Intn(12) {
	case 0: // close at once
		return
	case 1: // never answer, close later
		time.Sleep(time.Duration(50+g.Intn(300)) * time.Millisecond)
		return
	case 2: // an odd frame where StartWorkConn is expected
		_, _ = c.Write(frame('s', []byte(oddJSONBodies[g.Intn(len(oddJSONBodies))])))
		readSome(c, 40*time.Millisecond)
		return
	case 3: // garbage / cut frame
		_, _ = c.Write(frameLen('s', int64([]int{-1, 10241, 100, math.MaxInt32}[g.Intn(4)]), g.Bytes(20)))
		return
	case 4: // a different message type (ReadMsgInto ignores the type byte)
		m := msgProtos[g.Intn(len(msgProtos))]()
		mutate(g, reflect.ValueOf(m).Elem())
		_ = msg.WriteMsg(c, m)
		readSome(c, 40*time.Millisecond)
		return
	}
	sw := advStartWorkConn(g, target)
	if err := msg.WriteMsg(c, sw); err != nil {
		return
	}
	if sw.Error != "" || sw.ProxyName != target {
		readSome(c, 30*time.Millisecond)
		return
	}
	switch clientProxyKind[target] {
	case "tcp":
		n := g.Intn(4)
		for i := 0; i < n; i++ {
			_, _ = c.Write(g.Bytes(1 + g.Intn(2000)))
		}
		readSome(c, time.Duration(10+g.Intn(60))*time.Millisecond)
	case "cipher": // bytes that are not a cipher / snappy stream
		_, _ = c.Write(g.Bytes(16 + g.Intn(4000)))
		if g.Chance(0.5) {
			_, _ = c.Write(bytes.Repeat([]byte{0xff}, 70000))
		}
		readSome(c, time.Duration(10+g.Intn(60))*time.Millisecond)
	case "http":
		if g.Chance(0.5) {
			_, _ = io.WriteString(c, httpWithAuth(g))
		} else {
			_, _ = io.WriteString(c, httpish[g.Intn(len(httpish))])
		}
		readSome(c, time.Duration(20+g.Intn(80))*time.Millisecond)
	case "socks":
		if g.Chance(0.5) {
			_, _ = c.Write(socksAuth[g.Intn(len(socksAuth))])
		} else {
			_, _ = c.Write(socksish[g.Intn(len(socksish))])
		}
		readSome(c, time.Duration(20+g.Intn(80))*time.Millisecond)
	case "tls": // the user of an https2http proxy: a TLS handshake (no / odd SNI) through the work connection, then a request
		name := g.Pick([]string{"", "", "x.test", "A.TEST", strings.Repeat("s", 200) + ".test"})
		if g.Chance(0.25) {
			_, _ = c.Write(append([]byte{0x16, 3, 1}, g.Bytes(2+g.Intn(200))...))
			readSome(c, 40*time.Millisecond)
			break
		}
		_ = c.SetDeadline(time.Now().Add(800 * time.Millisecond))
		tc := tls.Client(c, &tls.Config{ServerName: name, InsecureSkipVerify: true})
		if tc.Handshake() == nil {
			_, _ = io.WriteString(tc, g.Pick([]string{"GET / HTTP/1.1\r\nHost: x\r\n\r\n", "GET / HTTP/1.1\r\n\r\n", "GET / HTTP/1.1\r\nHost:\r\n\r\n", httpWithAuth(g)}))
			b := make([]byte, 512)
			_, _ = tc.Read(b)
		}
	case "udp":
		n := 1 + g.Intn(8)
		for i := 0; i < n; i++ {
			switch g.Intn(8) {
			case 0:
				_, _ = c.Write(frame('u', []byte(oddJSONBodies[g.Intn(len(oddJSONBodies))])))
			case 1:
				_ = msg.WriteMsg(c, &msg.Ping{})
			case 2:
				m := msgProtos[g.Intn(len(msgProtos))]()
				mutate(g, reflect.ValueOf(m).Elem())
				_ = msg.WriteMsg(c, m)
			default:
				_ = msg.WriteMsg(c, advUDPPacket(g))
			}
		}
		readSome(c, time.Duration(10+g.Intn(80))*time.Millisecond)
		if g.Chance(0.3) {
			ic.rst()
		}
	case "xtcp":
		sid := &msg.NatHoleSid{Sid: g.Pick([]string{"sid1", "", strings.Repeat("s", 3000)}), TransactionID: g.Pick(advStrings), Nonce: g.Pick(advStrings), Response: g.Chance(0.5)}
		if g.Chance(0.15) {
			_, _ = c.Write(frame('5', []byte(oddJSONBodies[g.Intn(len(oddJSONBodies))])))
		} else {
			_ = msg.WriteMsg(c, sid)
		}
		// the child now runs STUN discovery and sends NatHoleClient on the control channel (answered by the reader)
		readSome(c, time.Duration(100+g.Intn(300))*time.Millisecond)
	}
}

// barrageVisitorConn: the child's visitor opened a connection (NewVisitorConn).
func (e *epoch) barrageVisitorConn(ic *inConn, g *hx.Gen) {
	c := ic.c
	defer c.Close()
	_ = c.SetWriteDeadline(time.Now().Add(3 * time.Second))
	v := ic.first.(*msg.NewVisitorConn)
	switch g.Intn(10) {
	case 0:
		return
	case 1:
		time.Sleep(time.Duration(50+g.Intn(200)) * time.Millisecond)
		return
	case 2:
		_, _ = c.Write(frame('3', []byte(oddJSONBodies[g.Intn(len(oddJSONBodies))])))
		readSome(c, 40*time.Millisecond)
		return
	case 3:
		_ = msg.WriteMsg(c, &msg.NewVisitorConnResp{ProxyName: g.Pick(advStrings), Error: g.Pick(advStrings) + "!"})
		readSome(c, 40*time.Millisecond)
		return
	}
	_ = msg.WriteMsg(c, &msg.NewVisitorConnResp{ProxyName: g.Pick([]string{v.ProxyName, "", strings.Repeat("n", 5000)})})
	if v.ProxyName == pxSUDP {
		n := 1 + g.Intn(8)
		for i := 0; i < n; i++ {
			switch g.Intn(8) {
			case 0:
				_, _ = c.Write(frame('u', []byte(oddJSONBodies[g.Intn(len(oddJSONBodies))])))
			case 1:
				_ = msg.WriteMsg(c, &msg.Ping{})
			case 2:
				m := msgProtos[g.Intn(len(msgProtos))]()
				mutate(g, reflect.ValueOf(m).Elem())
				_ = msg.WriteMsg(c, m)
			default:
				_ = msg.WriteMsg(c, advUDPPacket(g))
			}
		}
	} else { // stcp visitor with encryption + compression: bytes that are neither
		_, _ = c.Write(g.Bytes(16 + g.Intn(3000)))
	}
	readSome(c, time.Duration(10+g.Intn(80))*time.Millisecond)
}

// tunnelOnce: ReqWorkConn -> NewWorkConn -> StartWorkConn(wd-tcp) -> bytes to the echo and back.
func (e *epoch) tunnelOnce(cs *ctlSess) error {
	// stale work connections of earlier requests are of no use to the watchdog
	for drained := false; !drained; {
		select {
		case ic := <-e.wdConn:
			ic.c.Close()
		default:
			drained = true
		}
	}
	e.wdWant.Store(true)
	defer e.wdWant.Store(false)
	if err := cs.send(&msg.ReqWorkConn{}); err != nil {
		return fmt.Errorf("send ReqWorkConn: %v", err)
	}
	var ic *inConn
	select {
	case ic = <-e.wdConn:
	case <-cs.dead:
		return fmt.Errorf("control connection closed by frpc")
	case <-time.After(3 * time.Second):
		return fmt.Errorf("ReqWorkConn not answered by a NewWorkConn within 3 s")
	}
	defer ic.c.Close()
	nw := ic.first.(*msg.NewWorkConn)
	if nw.RunID != cs.runID {
		return fmt.Errorf("NewWorkConn carries run id %q, session has %q", nw.RunID, cs.runID)
	}
	if util.GetAuthKey(hx.DefaultToken, nw.Timestamp) != nw.PrivilegeKey {
		return fmt.Errorf("NewWorkConn carries a wrong key")
	}
	_ = ic.c.SetDeadline(time.Now().Add(3 * time.Second))
	if err := msg.WriteMsg(ic.c, &msg.StartWorkConn{ProxyName: pxWD}); err != nil {
		return fmt.Errorf("write StartWorkConn: %v", err)
	}
	e.nWD++
	ping := fmt.Sprintf("wd-ping-%d-%d", e.idx, e.nWD)
	if _, err := io.WriteString(ic.c, ping); err != nil {
		return fmt.Errorf("write to tunnel: %v", err)
	}
	b := make([]byte, len(ping))
	if _, err := io.ReadFull(ic.c, b); err != nil || string(b) != ping {
		return fmt.Errorf("tunnel to the local echo dead: %q %v", b, err)
	}
	return nil
}

func (e *epoch) waitRunning(cs *ctlSess, name string, d time.Duration) bool {
	deadline := time.Now().Add(d)
	for time.Now().Before(deadline) {
		if cs.isRunning(name) {
			return true
		}
		select {
		case <-cs.regCh:
		case <-cs.dead:
			return false
		case <-time.After(50 * time.Millisecond):
		}
	}
	return cs.isRunning(name)
}

func (e *epoch) tunnel(cs *ctlSess) error {
	if !e.waitRunning(cs, pxWD, 4*time.Second) {
		if cs.isDead() {
			return fmt.Errorf("control connection closed by frpc")
		}
		return fmt.Errorf("no NewProxy for %s within 4 s of the session", pxWD)
	}
	time.Sleep(15 * time.Millisecond) // the NewProxyResp has to reach the wrapper before a work connection is accepted for it
	var err error
	for try := 0; try < 3; try++ {
		if err = e.tunnelOnce(cs); err == nil {
			return nil
		}
		if cs.isDead() {
			return err
		}
		time.Sleep(100 * time.Millisecond)
	}
	return err
}

// newSession waits for the child's next Login and answers it faithfully.
func (e *epoch) newSession() (*ctlSess, error) {
	ic, err := e.srv.waitLogin(e.loginTO, e.ch.done)
	if err != nil {
		return nil, err
	}
	e.nSess++
	cs, err := e.srv.establish(ic, nil, e.seed*31+int64(e.idx)*977+int64(e.nSess))
	if err != nil {
		return nil, err
	}
	e.nEst++
	e.cur = cs
	return cs, nil
}

// watchdog: the child is alive; the current session (if it still stands) bridges bytes for the plain tcp
// proxy; otherwise the child logs in again within the bound, registers its proxies and bridges then.
// Returns "" or what is wrong; sessionStall reports a session that stands but does not work.
func (e *epoch) watchdog() (problem string, sessionStall string) {
	if !e.ch.alive() {
		return "child dead", ""
	}
	if cs := e.cur; cs != nil && !cs.isDead() {
		cs.honest.Store(true)
		err := e.tunnel(cs)
		cs.honest.Store(false)
		if err == nil {
			return "", ""
		}
		if !e.ch.alive() {
			return "child dead", ""
		}
		// the session may have been given up by the client itself for a good reason (it then closes the connection)
		select {
		case <-cs.dead:
		case <-time.After(1500 * time.Millisecond):
			sessionStall = err.Error()
		}
	}
	e.dropCurrent(0)
	var lastErr error
	for try := 0; try < 2; try++ {
		cs, err := e.newSession()
		if err != nil {
			return "no re-login: " + err.Error(), sessionStall
		}
		cs.honest.Store(true)
		err = e.tunnel(cs)
		cs.honest.Store(false)
		if err == nil {
			return "", sessionStall
		}
		lastErr = err
		if !e.ch.alive() {
			return "child dead", sessionStall
		}
		e.dropCurrent(0)
	}
	return "after a fresh login: " + lastErr.Error(), sessionStall
}

// blastSUDP writes datagrams to the sudp visitor's port back to back until the returned channel is closed.
func (e *epoch) blastSUDP() chan struct{} {
	stop := make(chan struct{})
	c, err := net.DialUDP("udp", nil, &net.UDPAddr{IP: net.ParseIP(e.srv.ip), Port: e.vports[1]})
	if err != nil {
		return stop
	}
	e.bgWG.Add(1)
	go func() {
		defer e.bgWG.Done()
		defer c.Close()
		b := bytes.Repeat([]byte("sudp-user-datagram"), 75) // 1350 bytes: the forwarder spends its time encoding, not waiting
		for {
			select {
			case <-stop:
				return
			default:
				_, _ = c.Write(b)
			}
		}
	}()
	return stop
}

func (e *epoch) userTraffic(g *hx.Gen) string {
	which := g.Intn(4)
	port := e.vports[which]
	name := []string{"v-stcp", "v-sudp", "v-xtcp", "v-xtcp-kcp"}[which]
	if which == 1 {
		c, err := net.DialUDP("udp", nil, &net.UDPAddr{IP: net.ParseIP(e.srv.ip), Port: port})
		if err == nil {
			for i := 0; i < 1+g.Intn(3); i++ {
				_, _ = c.Write(g.Bytes(1 + g.Intn(1200)))
			}
			c.Close()
		}
		return name
	}
	c, err := net.DialTimeout("tcp", net.JoinHostPort(e.srv.ip, fmt.Sprint(port)), 300*time.Millisecond)
	if err != nil {
		return name + " (not listening)"
	}
	_, _ = c.Write(g.Bytes(1 + g.Intn(500)))
	e.bgWG.Add(1)
	go func() {
		defer e.bgWG.Done()
		readSome(c, 400*time.Millisecond)
		c.Close()
	}()
	return name
}

// one barrage step on the current session; returns kind, type, detail and whether the session is over.
func (e *epoch) barrageStep(cs *ctlSess) (kind, typ, detail string, over bool) {
	g := e.g
	weights := []int{0, 0, 0, 0, 0, 0, 0, 0, 0, 1, 1, 1, 1, 1, 2, 2, 2, 2, 3, 3, 3, 4, 4, 4, 4, 5, 5, 6, 7, 8, 8, 8}
	if e.race {
		weights = []int{0, 0, 0, 0, 1, 1, 1, 1, 1, 1, 2, 3, 4, 4, 4, 5, 6, 7, 7, 7, 8, 8, 8, 8, 8, 8}
	}
	switch weights[g.Intn(len(weights))] {
	case 0: // a field-mutated message of any of the 18 types (both directions) on the control channel
		m := msgProtos[g.Intn(len(msgProtos))]()
		mutate(g, reflect.ValueOf(m).Elem())
		kind, typ, detail = "ctl-mutated", reflect.TypeOf(m).Elem().Name(), fmt.Sprintf("%+v", m)
		if p, ok := m.(*msg.Pong); ok && p.Error != "" {
			kind, over = "ctl-pong-error", true
		}
		_ = cs.send(m)
	case 1: // a burst of work connection requests
		n := 1 + g.Intn(8)
		kind, typ, detail = "reqworkconn-burst", "ReqWorkConn", fmt.Sprint(n)
		for i := 0; i < n; i++ {
			_ = cs.send(&msg.ReqWorkConn{})
		}
	case 2: // registration answers nobody asked for
		r := &msg.NewProxyResp{ProxyName: clientProxyNames[1+g.Intn(len(clientProxyNames)-1)]} // never the watchdog's proxy
		switch g.Intn(4) {
		case 0:
			r.Error = g.Pick(advStrings) + "!"
		case 1:
			r.RemoteAddr = g.Pick(advStrings)
		case 2:
			r.ProxyName = g.Pick(advStrings)
		}
		kind, typ, detail = "newproxyresp-unsolicited", "NewProxyResp", fmt.Sprintf("%+v", r)
		if len(detail) > 120 {
			detail = detail[:120]
		}
		_ = cs.send(r)
		if g.Chance(0.5) {
			_ = cs.send(r)
		}
	case 3: // hole punching answers nobody asked for
		rs := advNatHoleResps(g, g.Pick(advStrings))
		kind, typ, detail = "natholeresp-unsolicited", "NatHoleResp", fmt.Sprintf("%+v", rs[0])
		for _, r := range rs {
			_ = cs.send(r)
		}
	case 4: // user traffic on the child's visitors: NewVisitorConn / NatHoleVisitor traffic towards the fake server
		kind, typ = "visitor-user", "NewVisitorConn"
		detail = e.userTraffic(g)
	case 5: // a frame of a known type whose body is not the expected JSON object (some are accepted, some end the session)
		tb := typeByteOf(msgProtos[g.Intn(len(msgProtos))]())
		body := oddJSONBodies[g.Intn(len(oddJSONBodies))]
		kind, typ, detail = "ctl-odd-json", string(tb), body
		_ = cs.sendRaw(frame(tb, []byte(body)))
		select {
		case <-cs.dead:
			over = true
		case <-time.After(250 * time.Millisecond):
		}
	case 8: // overlapping work connections of one udp proxy, datagrams in flight on each
		n := 2 + g.Intn(4)
		tgt := []string{pxUDP, pxUDPL, pxSUDP}[g.Intn(3)]
		kind, typ, detail = "udp-overlap", "StartWorkConn", fmt.Sprintf("%d work connections for %s, streaming UDPPacket", n, tgt)
		e.forceTgt.Store(tgt)
		e.forceUDP.Store(int32(n))
		for i := 0; i < n; i++ {
			_ = cs.send(&msg.ReqWorkConn{})
			time.Sleep(time.Duration(g.Intn(15)) * time.Millisecond)
		}
		time.Sleep(60 * time.Millisecond)
		e.forceUDP.Store(0)
	case 6: // garbage: unknown type byte, impossible length, random bytes, a frame cut short
		kind, typ = "ctl-garbage", "-"
		switch g.Intn(5) {
		case 0:
			detail = "unknown type byte"
			_ = cs.sendRaw(frame('Z', []byte(`{}`)))
		case 1:
			detail = "negative length"
			_ = cs.sendRaw(frameLen('4', -1, nil))
		case 2:
			detail = "length above the limit"
			_ = cs.sendRaw(frameLen('4', 1<<40, []byte(`{}`)))
		case 3:
			detail = "random bytes"
			_ = cs.sendRaw(g.Bytes(1 + g.Intn(300)))
		default:
			detail = "frame cut short"
			_ = cs.sendRaw(frameLen('2', 5000, []byte(`{"proxy_name":"`)))
		}
		over = true
	default: // the control connection goes away
		how := g.Intn(3)
		kind, typ, detail = "ctl-drop", "-", []string{"close", "reset", "close mid-frame"}[how]
		if e.race { // work connection handlers of this session are still busy (and logging) while the next login happens
			for i := 0; i < 4; i++ {
				_ = cs.send(&msg.ReqWorkConn{})
			}
			time.Sleep(5 * time.Millisecond)
		}
		e.dropCurrent(how)
		over = true
	}
	if len(detail) > 300 {
		detail = detail[:300]
	}
	return
}

// loginStep: the child's Login is waiting; answer it in a PRNG-chosen way.  ok = a session now stands.
func (e *epoch) loginStep(allowFail bool) (kind, detail string, ok bool, err error) {
	g := e.g
	ic, err := e.srv.waitLogin(e.loginTO, e.ch.done)
	if err != nil {
		return "login", "", false, err
	}
	lm := ic.first.(*msg.Login)
	how := 0
	if allowFail {
		how = []int{0, 0, 0, 0, 0, 0, 1, 2, 3, 4, 5, 6}[g.Intn(12)]
	} else if g.Chance(0.3) {
		how = 6
	}
	e.nSess++
	seed := e.seed*31 + int64(e.idx)*977 + int64(e.nSess)
	switch how {
	case 0:
		cs, err := e.srv.establish(ic, nil, seed)
		if err != nil {
			return "login-valid", "", false, nil
		}
		e.cur = cs
		e.nEst++
		return "login-valid", "run id " + cs.runID, true, nil
	case 6: // a LoginResp without error whose other fields are adversarial
		r := &msg.LoginResp{Version: g.Pick(advStrings), RunID: g.Pick([]string{"", "r", strings.Repeat("R", 9000), "\x00\x01", "a/b\\c", lm.RunID})}
		cs, err := e.srv.establish(ic, r, seed)
		if err != nil {
			return "login-mutated-ok", "", false, nil
		}
		e.cur = cs
		e.nEst++
		d := fmt.Sprintf("%+v", r)
		if len(d) > 100 {
			d = d[:100]
		}
		return "login-mutated-ok", d, true, nil
	case 1:
		_ = msg.WriteMsg(ic.c, &msg.LoginResp{Version: g.Pick(advStrings), RunID: g.Pick(advStrings), Error: g.Pick(advStrings) + "!"})
		readSome(ic.c, 50*time.Millisecond)
		ic.c.Close()
		return "login-refused", "LoginResp with error", false, nil
	case 2:
		ic.c.Close()
		return "login-closed", "closed without answer", false, nil
	case 3:
		time.Sleep(time.Duration(100+g.Intn(400)) * time.Millisecond)
		ic.rst()
		return "login-silent", "silent, then reset", false, nil
	case 4:
		_, _ = ic.c.Write(frame('1', []byte(oddJSONBodies[g.Intn(len(oddJSONBodies))])))
		readSome(ic.c, 50*time.Millisecond)
		ic.c.Close()
		return "login-odd-json", "odd LoginResp frame", false, nil
	default:
		_, _ = ic.c.Write(frameLen('1', 400, []byte(`{"run_id":"abc`)))
		ic.c.Close()
		return "login-cut", "LoginResp cut short", false, nil
	}
}

// runEpoch: one child, several sessions.
func runEpoch(seed int64, idx int, lane int, tier, directed string, steps int, dumpDir string, race bool) *epochOut {
	out := &epochOut{dist: map[string]int{}, counts: map[string]int64{}}
	ip := fmt.Sprintf("127.0.16.%d", 30+lane)
	e := &epoch{seed: seed, idx: idx, tier: tier, race: race, directed: directed, g: hx.NewGen(seed*1000003 + int64(idx)), out: out,
		wdConn: make(chan *inConn, 64), stopBg: make(chan struct{}), loginTO: 12 * time.Second, dumpDir: dumpDir}
	fail := func(key, what string) {
		f := map[string]any{"key": key, "what": what, "case": e.replay()}
		if strings.HasPrefix(key, "frpc-wedged") && e.ch != nil {
			f["goroutines"] = e.goroutineDump()
		}
		out.fails = append(out.fails, f)
	}
	mux := idx%3 == 2
	srv, err := newFakeSrv(ip, mux)
	if err != nil {
		fail("harness:fake-server", err.Error())
		return out
	}
	e.srv = srv
	defer srv.close()
	st, err := newFakeStun(ip, seed*13+int64(idx))
	if err != nil {
		fail("harness:fake-stun", err.Error())
		return out
	}
	e.stun = st
	defer st.close()
	if directed == "stun-flood" {
		st.mode.Store(2)
	} else if directed != "" {
		st.mode.Store(1)
	}
	extraProxies := 0
	if directed == "many-proxies-drop" {
		extraProxies = 120
	}
	healthProxies := 0
	if directed == "health-stop" {
		healthProxies = 200
	}
	ch, ports, err := startClientChild(ip, srv.port, st.addr(), mux, extraProxies, healthProxies)
	if err != nil {
		fail("harness:client-child", err.Error())
		return out
	}
	e.ch = ch
	e.echoPort, e.uechoPrt = ports[0], ports[1]
	copy(e.vports[:], ports[2:6])
	e.bgWG.Add(1)
	go e.workLoop()
	defer func() {
		e.dropCurrent(0)
		close(e.stopBg)
		ch.stop()
		e.bgWG.Wait()
		out.races = raceReports(ch.stderr())
		out.counts["logins"] = int64(e.nSess)
		out.counts["sessions"] = int64(e.nEst)
		out.counts["work_conns"] = atomic.LoadInt64(&e.nWork)
		out.counts["visitor_conns"] = atomic.LoadInt64(&e.nVisit)
		out.counts["stun_requests"] = atomic.LoadInt64(&st.nReq)
		out.counts["watchdog_tunnels"] = int64(e.nWD)
	}()

	// The client's reconnect delay after a lost session grows beyond a second after the 8th loss within a minute
	// (client/service.go keepControllerWorking), and a refused login costs 2 s (4 s the second time in a row).
	maxSess := 8
	loginFails := 1
	if tier == "thorough" {
		loginFails = 2
	}
	done := 0
	sinceWD := 0
	const wdEvery = 12
	runWD := func(kind, typ, detail string) bool {
		problem, stall := e.watchdog()
		sinceWD = 0
		if stall != "" {
			fail("frpc-session-stalled", "a session whose control connection stands no longer serves work connections: "+stall)
		}
		if problem != "" {
			if !e.checkCrash(kind + ":" + typ) {
				fail("frpc-wedged", "frpc is alive but a watchdog tunnel is impossible ("+problem+")")
			}
			e.record(kind, typ, detail, false)
			return false
		}
		e.record(kind, typ, detail, true)
		return true
	}

	if directed != "" {
		return e.runDirected(out, fail, runWD)
	}
	for done < steps && e.nEst < maxSess {
		// login phase
		allowFail := loginFails > 0 && e.nEst > 0 && e.g.Chance(0.3)
		kind, detail, ok, err := e.loginStep(allowFail)
		e.step(kind, "LoginResp", detail)
		if err != nil {
			if !e.checkCrash(kind) {
				fail("frpc-wedged", "frpc is alive but does not log in again: "+err.Error())
			}
			e.record(kind, "LoginResp", detail, false)
			return out
		}
		done++
		e.record(kind, "LoginResp", detail, true)
		if !ok {
			loginFails--
			if e.checkCrash(kind) {
				return out
			}
			continue
		}
		cs := e.cur
		// let the registrations of the session arrive (they are answered by the reader according to its own PRNG)
		e.waitRunning(cs, pxWD, 2*time.Second)
		n := (steps-done)/(maxSess-e.nEst+1) + 4 + e.g.Intn(10)
		over := false
		for i := 0; i < n && done < steps && !over; i++ {
			var typ string
			kind, typ, detail, over = e.barrageStep(cs)
			e.step(kind, typ, detail)
			done++
			sinceWD++
			time.Sleep(time.Duration(2+e.g.Intn(12)) * time.Millisecond)
			if e.checkCrash(kind + ":" + typ) {
				e.record(kind, typ, detail, false)
				return out
			}
			if over {
				e.dropCurrent(0)
			}
			if sinceWD >= wdEvery || done >= steps {
				if !runWD(kind, typ, detail) {
					return out
				}
				if e.cur != cs { // the watchdog had to start a new session
					over = true
				}
			} else {
				e.record(kind, typ, detail, true)
			}
		}
		// whatever session stands now (this one, or the one the watchdog had to open) ends here
		e.dropCurrent(e.g.Intn(3))
	}
	if sinceWD > 0 {
		runWD("final", "-", "end of epoch")
	}
	time.Sleep(50 * time.Millisecond)
	e.checkCrash("after-epoch")
	return out
}

// runDirected: scenarios that need one specific exchange.
func (e *epoch) runDirected(out *epochOut, fail func(key, what string), runWD func(kind, typ, detail string) bool) *epochOut {
	cs, err := e.newSession()
	if err != nil {
		if !e.checkCrash("directed-login") {
			fail("frpc-wedged", "frpc does not log in: "+err.Error())
		}
		return out
	}
	cs.honest.Store(true)
	if !runWD("directed:"+e.directed, "baseline", "tunnel before the scenario") {
		return out
	}
	cs = e.cur
	switch e.directed {
	case "stun-flood":
		// Every STUN answer arrives 120 times.  Each xtcp work connection makes the child run one discovery
		// (pkg/nathole Discover: a reader goroutine feeding a 10-slot channel that Discover closes when it returns).
		e.waitRunning(cs, pxXTCP, 3*time.Second)
		cs.honest.Store(true)
		cs.holeErr.Store(true)
		dur := 2500 * time.Millisecond
		if e.tier == "thorough" {
			dur = 12 * time.Second
		}
		e.step("directed:stun-flood", "STUN", "xtcp work connections in bursts of 16 while every STUN answer is sent 120 times")
		n := 0
		for t0 := time.Now(); time.Since(t0) < dur && e.ch.alive() && !cs.isDead(); {
			n += e.directedXTCPBurst(cs, 16)
			time.Sleep(20 * time.Millisecond)
		}
		detail := fmt.Sprintf("%d discoveries, every STUN answer sent 120 times", n)
		time.Sleep(100 * time.Millisecond)
		if e.checkCrash("directed:stun-flood") { // reported under the stable key of the crash site only
			return out
		}
		cs.holeErr.Store(false)
		runWD("directed:stun-flood", "STUN", detail)
	case "plugin-users":
		// the fake server plays the users of every plugin proxy: one work connection per (proxy, request) pair, the requests
		// enumerated (not drawn): every authorization header variant on CONNECT and GET for the http_proxy plugins, ...
		type userReq struct {
			target  string
			payload []byte
		}
		var plan []userReq
		for _, a := range authVariants {
			for _, hdr := range []string{"Proxy-Authorization", "Authorization"} {
				for _, line := range []string{"CONNECT 127.0.16.1:1 HTTP/1.1\r\nHost: 127.0.16.1:1\r\n", "GET http://127.0.16.1:1/ HTTP/1.1\r\nHost: 127.0.16.1:1\r\n", "GET /static/index.html HTTP/1.1\r\nHost: x\r\n"} {
					req := []byte(line + hdr + ": " + a + "\r\n\r\n")
					plan = append(plan, userReq{pxHPA, req}, userReq{pxSFA, req})
					if hdr == "Proxy-Authorization" {
						plan = append(plan, userReq{pxHP, req})
					}
				}
			}
		}
		for _, h := range httpish {
			plan = append(plan, userReq{pxHPA, []byte(h)}, userReq{pxSF, []byte(h)}, userReq{pxH2H, []byte(h)})
		}
		for _, b := range append(append([][]byte{}, socksAuth...), socksish...) {
			plan = append(plan, userReq{pxS5A, b}, userReq{pxS5, b})
		}
		e.waitRunning(cs, pxHPA, 3*time.Second)
		e.waitRunning(cs, pxS5A, 2*time.Second)
		cs.honest.Store(true)
		e.step("directed:plugin-users", "StartWorkConn", fmt.Sprintf("%d enumerated user requests to the plugin proxies", len(plan)))
		done := 0
		for done < len(plan) && e.ch.alive() && !cs.isDead() {
			k := len(plan) - done
			if k > 10 {
				k = 10
			}
			e.wdWant.Store(true)
			for i := 0; i < k; i++ {
				_ = cs.send(&msg.ReqWorkConn{})
			}
			got := 0
			deadline := time.After(600 * time.Millisecond)
		chunk:
			for got < k {
				select {
				case ic := <-e.wdConn:
					u := plan[done+got]
					got++
					_ = ic.c.SetWriteDeadline(time.Now().Add(time.Second))
					_ = msg.WriteMsg(ic.c, &msg.StartWorkConn{ProxyName: u.target, SrcAddr: "1.2.3.4", SrcPort: 5, DstAddr: "5.6.7.8", DstPort: 80})
					_, _ = ic.c.Write(u.payload)
					e.bgWG.Add(1)
					go func() {
						defer e.bgWG.Done()
						readSome(ic.c, 60*time.Millisecond)
						ic.c.Close()
					}()
				case <-deadline:
					break chunk
				}
			}
			e.wdWant.Store(false)
			if got == 0 {
				break
			}
			done += got
			time.Sleep(20 * time.Millisecond)
		}
		time.Sleep(100 * time.Millisecond)
		detail := fmt.Sprintf("%d of %d enumerated user requests sent to the plugin proxies", done, len(plan))
		if e.checkCrash("directed:plugin-users") {
			return out
		}
		runWD("directed:plugin-users", "StartWorkConn", detail)
	case "health-stop":
		// 200 proxies with a tcp health check (half of them against a service that flaps every 300 ms).  Every session is
		// ended a few milliseconds after it began, i.e. while the first probes of the new wrappers report their verdicts:
		// Wrapper.Stop closes the notification channel before the monitor has stopped.
		n := 0
		for r := 0; r < 8 && e.ch.alive(); r++ {
			e.step("directed:health-stop", "-", "session ended right after its login while health monitors report")
			switch []int{0, 1, 0, 1, 2, 0, 1, 3}[r] {
			case 0:
			case 1:
				time.Sleep(time.Duration(e.g.Intn(2000)) * time.Microsecond)
			case 2:
				time.Sleep(time.Duration(280+e.g.Intn(60)) * time.Millisecond) // around a flap of the service
			default:
				time.Sleep(time.Duration(980+e.g.Intn(60)) * time.Millisecond) // around the second probe
			}
			e.dropCurrent(e.g.Intn(2))
			n++
			time.Sleep(30 * time.Millisecond)
			if !e.ch.alive() {
				break
			}
			if _, err := e.newSession(); err != nil {
				break
			}
			e.cur.honest.Store(true)
		}
		time.Sleep(50 * time.Millisecond)
		if e.checkCrash("directed:health-stop") {
			return out
		}
		runWD("directed:health-stop", "-", fmt.Sprintf("%d sessions ended while health monitors reported", n))
	case "many-proxies-drop":
		// 136 proxies; the control connection is lost.  Every wrapper's Stop sends a CloseProxy through the transporter into
		// the dispatcher's 100-slot send channel, which nobody drains any more once the dispatcher has ended.
		deadline := time.Now().Add(4 * time.Second)
		for time.Now().Before(deadline) {
			cs.mu.Lock()
			n := len(cs.running)
			cs.mu.Unlock()
			if n >= 120 {
				break
			}
			time.Sleep(50 * time.Millisecond)
		}
		cs.mu.Lock()
		nreg := len(cs.running)
		cs.mu.Unlock()
		e.step("directed:many-proxies-drop", "-", fmt.Sprintf("%d proxies registered, control connection closed by the server", nreg))
		e.dropCurrent(0)
		problem, _ := e.watchdog()
		if problem != "" && !e.checkCrash("directed:many-proxies-drop") {
			fail("frpc-wedged:close-proxy-send-blocks-after-drop", fmt.Sprintf("frpc with %d proxies does not come back after its control connection was closed: %s", nreg, problem))
		}
		if problem == "" {
			e.record("directed:many-proxies-drop", "-", fmt.Sprintf("%d proxies, control connection closed, re-login and tunnel", nreg), true)
		}
	case "sudp-close-under-traffic":
		// the session ends (control connection closed by the server) while user datagrams pour into the sudp visitor's port:
		// the visitor's Close closes the channel its forwarder (pkg/proto/udp ForwardUserConn) sends on
		n := 0
		for r := 0; r < 7 && e.ch.alive(); r++ {
			e.step("directed:sudp-close-under-traffic", "-", "control connection closed while datagrams stream into the sudp visitor")
			stop := e.blastSUDP()
			time.Sleep(time.Duration(10+e.g.Intn(25)) * time.Millisecond)
			e.dropCurrent(e.g.Intn(2))
			time.Sleep(40 * time.Millisecond)
			close(stop)
			n++
			if !e.ch.alive() {
				break
			}
			if _, err := e.newSession(); err != nil {
				break
			}
			e.cur.honest.Store(true)
			e.waitRunning(e.cur, pxWD, 2*time.Second)
			time.Sleep(60 * time.Millisecond) // the visitors of the new session bind their ports
		}
		if e.checkCrash("directed:sudp-close-under-traffic") {
			return out
		}
		runWD("directed:sudp-close-under-traffic", "-", fmt.Sprintf("%d sessions ended under sudp user traffic", n))
	case "listen-random-ports":
		// NatHoleResp.DetectBehavior.ListenRandomPorts bounds a loop that opens one UDP socket per iteration
		e.waitRunning(cs, pxXTCP, 3*time.Second)
		cs.honest.Store(true)
		cs.lrp.Store(math.MaxInt32)
		e.step("directed:listen-random-ports", "NatHoleResp", "receiver role, ListenRandomPorts = MaxInt32, answer to the NatHoleClient of an xtcp work connection")
		e.directedXTCP(cs)
		time.Sleep(700 * time.Millisecond)
		cs.lrp.Store(0)
		if e.checkCrash("directed:listen-random-ports") {
			return out
		}
		problem, _ := e.watchdog()
		if problem != "" && !e.checkCrash("directed:listen-random-ports") {
			fail("frpc-wedged:nathole-resp-listen-random-ports", "NatHoleResp{DetectBehavior.ListenRandomPorts: MaxInt32} makes frpc open UDP sockets until it has no descriptors left and spin; "+
				"no work connection can be opened any more: "+problem)
		}
		if problem == "" { // a failing directed scenario is reported under its stable key only
			e.record("directed:listen-random-ports", "NatHoleResp", "ListenRandomPorts = MaxInt32", true)
		}
	}
	return out
}

// directedXTCPBurst: n ReqWorkConn; every work connection that arrives within 300 ms is started for the xtcp proxy
// with a plain NatHoleSid and closed shortly afterwards.  Returns how many were started.
func (e *epoch) directedXTCPBurst(cs *ctlSess, n int) int {
	e.wdWant.Store(true)
	defer e.wdWant.Store(false)
	for i := 0; i < n; i++ {
		if cs.send(&msg.ReqWorkConn{}) != nil {
			return 0
		}
	}
	started := 0
	deadline := time.After(300 * time.Millisecond)
	for started < n {
		select {
		case ic := <-e.wdConn:
			_ = ic.c.SetWriteDeadline(time.Now().Add(time.Second))
			_ = msg.WriteMsg(ic.c, &msg.StartWorkConn{ProxyName: pxXTCP})
			_ = msg.WriteMsg(ic.c, &msg.NatHoleSid{Sid: "sid-directed"})
			started++
			e.bgWG.Add(1)
			go func() {
				defer e.bgWG.Done()
				readSome(ic.c, 150*time.Millisecond)
				ic.c.Close()
			}()
		case <-deadline:
			return started
		}
	}
	return started
}

// directedXTCP: ReqWorkConn, and the work connection that arrives is started for the xtcp proxy with a plain NatHoleSid.
func (e *epoch) directedXTCP(cs *ctlSess) {
	e.wdWant.Store(true)
	defer e.wdWant.Store(false)
	if cs.send(&msg.ReqWorkConn{}) != nil {
		return
	}
	select {
	case ic := <-e.wdConn:
		_ = msg.WriteMsg(ic.c, &msg.StartWorkConn{ProxyName: pxXTCP})
		_ = msg.WriteMsg(ic.c, &msg.NatHoleSid{Sid: "sid-directed"})
		e.bgWG.Add(1)
		go func() {
			defer e.bgWG.Done()
			readSome(ic.c, 800*time.Millisecond)
			ic.c.Close()
		}()
	case <-time.After(2 * time.Second):
	}
}

// ---- the driver ----

func startClientChild(ip string, serverPort int, stunAddr string, mux bool, extraProxies int, healthProxies ...int) (*child, []int, error) {
	m := "0"
	if mux {
		m = "1"
	}
	hp := 0
	if len(healthProxies) > 0 {
		hp = healthProxies[0]
	}
	c, line, err := startChildProc("client", ip, fmt.Sprint(serverPort), stunAddr, m, fmt.Sprint(extraProxies), fmt.Sprint(hp))
	if err != nil {
		return nil, nil, err
	}
	ports := make([]int, 6)
	if n, _ := fmt.Sscanf(line, "READY %d %d %d %d %d %d", &ports[0], &ports[1], &ports[2], &ports[3], &ports[4], &ports[5]); n != 6 {
		c.stop()
		return nil, nil, fmt.Errorf("client child: bad READY line %q", line)
	}
	return c, ports, nil
}

// runClientRace: clientbarrage with the weights of the race-detector pass (meant for VERIF_C16_CHILD = a -race build).
func runClientRace(cfg *hx.RunCfg) error {
	cfg.Extra += ";mode=race"
	return runClientBarrage(cfg)
}

func runClientBarrage(cfg *hx.RunCfg) error {
	hx.Quiet()
	cf := &hx.CaseFile{Imports: "From FRP Require Import Corr.C16.\n", Typ: "case",
		Tail: "Definition M := Eval vm_compute in mismatches check_case cases.\nPrint M.\n" +
			"Definition NCLIENT := Eval vm_compute in count_if client_case cases.\nPrint NCLIENT.\n" +
			"Definition NCLIENTLOGIN := Eval vm_compute in count_if client_login_case cases.\nPrint NCLIENTLOGIN.\n"}
	lanes := 16
	perEpoch := 125
	if cfg.Tier == "thorough" {
		lanes = 16
		perEpoch = 160
	}
	nEpochs := (cfg.N + perEpoch - 1) / perEpoch
	if nEpochs < 1 {
		nEpochs = 1
	}
	type job struct {
		idx      int
		directed string
	}
	jobs := []job{}
	for i := 0; i < nEpochs; i++ {
		jobs = append(jobs, job{i, ""})
	}
	// -extra "directed=a,b;locks=<path of GenLocks.v>"
	extra := map[string]string{}
	for _, kv := range strings.Split(cfg.Extra, ";") {
		if k, v, ok := strings.Cut(kv, "="); ok {
			extra[k] = v
		}
	}
	if extra["mode"] == "race" { // short epochs: many sessions, few steps each
		perEpoch = 70
		nEpochs = (cfg.N + perEpoch - 1) / perEpoch
		jobs = jobs[:0]
		for i := 0; i < nEpochs; i++ {
			jobs = append(jobs, job{500 + i, ""})
		}
	}
	for i, d := range strings.Split(extra["directed"], ",") {
		if d != "" {
			jobs = append(jobs, job{1000 + i, d})
		}
	}
	outs := make([]*epochOut, len(jobs))
	jobCh := make(chan int)
	var wg sync.WaitGroup
	for l := 0; l < lanes; l++ {
		wg.Add(1)
		go func(lane int) {
			defer wg.Done()
			for j := range jobCh {
				if jobs[j].directed == "vnet-frames" {
					outs[j] = runVnetFrames(cfg.Seed, lane)
					continue
				}
				outs[j] = runEpoch(cfg.Seed, jobs[j].idx, lane, cfg.Tier, jobs[j].directed, perEpoch, filepath.Dir(cfg.Stats), extra["mode"] == "race")
			}
		}(l)
	}
	for j := range jobs {
		jobCh <- j
	}
	close(jobCh)
	wg.Wait()

	fails := []map[string]any{}
	dist := map[string]int{}
	counts := map[string]int64{}
	distinct := map[string]bool{}
	samples := []string{}
	for _, o := range outs {
		if o == nil {
			continue
		}
		for _, c := range o.cases {
			cs := fmt.Sprintf("CBarrage %s %s %s %s", hx.Str(c.kind), hx.Str(c.typ), hx.Bool(c.alive), hx.Bool(c.wd))
			cf.Cases = append(cf.Cases, cs)
			distinct[c.kind+c.typ+c.detail] = true
			if len(samples) < 6 && len(cf.Cases)%37 == 1 {
				d := c.detail
				if len(d) > 200 {
					d = d[:200]
				}
				samples = append(samples, cs+" (* "+strings.ReplaceAll(hx.Str(d), "*", "_")+" *)")
			}
		}
		for k, v := range o.dist {
			dist[k] += v
		}
		for k, v := range o.counts {
			counts[k] += v
		}
		fails = append(fails, o.fails...)
		if o.stderr != "" {
			cfg.St["crash_stderr"] = o.stderr
		}
	}
	// race detector reports of the client children (thorough tier: VERIF_C16_CHILD is a -race build)
	sites := lockSites(extra["locks"])
	nRaces := 0
	seenKey := map[string]bool{}
	frpOwned, closeSend, other, allowed := []string{}, []string{}, []string{}, []string{}
	for _, o := range outs {
		if o == nil {
			continue
		}
		for _, r := range o.races {
			nRaces++
			if t := sharedTableType(r, sites); t != "" {
				fails = append(fails, map[string]any{"key": "data-race:" + t, "what": "race detector (frpc): unsynchronised access in " + t, "case": firstLines(r, 14)})
				continue
			}
			key, where := frpOwnedRace(r)
			switch {
			case key == "":
				if len(other) < 6 {
					other = append(other, firstLines(r, 8))
				}
			case seenKey[key]:
			case strings.HasPrefix(key, "chan-close-vs-send:"):
				seenKey[key] = true
				closeSend = append(closeSend, where)
			case strings.HasPrefix(key, "unprotected-send:"):
				seenKey[key] = true
				fn := strings.TrimPrefix(key, "unprotected-send:")
				fails = append(fails, map[string]any{"key": "frpc-crash:" + fn, "what": "race detector (frpc): a channel is closed while " + fn + " sends on it without recover (panic: send on closed channel): " + where,
					"case": firstLines(r, 30)})
			case wrapperPhaseRace(r):
				// the one documented pair that stays evidence-only: Wrapper.InWorkConn reads pw.Phase outside the lock
				// (every stored value is a string constant; see design/C16.md)
				seenKey[key] = true
				allowed = append(allowed, where)
			default:
				// same rule as for the frps child: an access made by frp code in a race report is a violation
				seenKey[key] = true
				frpOwned = append(frpOwned, where)
				fails = append(fails, map[string]any{"key": key, "what": "race detector (frpc): unsynchronised accesses by frp code at " + where,
					"case": fmt.Sprintf("seed %d, clientbarrage mode %q; report:\n%s", cfg.Seed, extra["mode"], firstLines(r, 30))})
			}
		}
	}
	cfg.St["race_reports"] = nRaces
	cfg.St["race_reports_frp_owned"] = frpOwned
	cfg.St["race_reports_chan_close_vs_send"] = closeSend
	cfg.St["race_reports_allowed_wrapper_phase"] = allowed
	cfg.St["race_reports_outside_listed_tables"] = other
	cfg.St["cases"] = len(cf.Cases)
	cfg.St["distinct_nontrivial"] = len(distinct)
	cfg.St["distribution"] = dist
	cfg.St["samples"] = samples
	cfg.St["epochs"] = len(jobs)
	cfg.St["counts"] = counts
	cfg.St["impl_failures"] = fails
	return cf.Write(cfg.Out)
}

// wrapperPhaseRace: the narrow allowlist of the frpc race rule.  True iff one access of the report is made by
// client/proxy.(*Wrapper).InWorkConn on a source line that reads pw.Phase (checked in the source file the report names)
// and the other by a method of the same Wrapper that assigns Phase under the lock (Stop, SetRunningStatus, checkWorker).
func wrapperPhaseRace(report string) bool {
	lines := strings.Split(report, "\n")
	reader, writer := false, false
	n := 0
	for i, l := range lines {
		if !raceAccessRe.MatchString(strings.TrimSpace(l)) {
			continue
		}
		n++
		end := i + 1
		for end < len(lines) && strings.TrimSpace(lines[end]) != "" {
			end++
		}
		if end < i+3 {
			return false
		}
		m := raceFuncRe.FindStringSubmatch(lines[i+1])
		f := raceFileRe.FindStringSubmatch(lines[i+2])
		if m == nil || f == nil {
			return false
		}
		switch m[1] {
		case "github.com/fatedier/frp/client/proxy.(*Wrapper).InWorkConn":
			file, lineNo, _ := strings.Cut(f[1], ":")
			var ln int
			fmt.Sscan(lineNo, &ln)
			src, err := os.ReadFile(file)
			if err != nil {
				return false
			}
			sl := strings.Split(string(src), "\n")
			if ln < 1 || ln > len(sl) || !strings.Contains(sl[ln-1], "pw.Phase") {
				return false
			}
			reader = true
		case "github.com/fatedier/frp/client/proxy.(*Wrapper).Stop", "github.com/fatedier/frp/client/proxy.(*Wrapper).SetRunningStatus",
			"github.com/fatedier/frp/client/proxy.(*Wrapper).checkWorker":
			writer = true
		default:
			return false
		}
	}
	return n == 2 && reader && writer
}
