(* Model/Backoff.v — pkg/util/wait/backoff.go: fastBackoffImpl.Backoff, Jitter, BackoffUntil, Until,
   and the option sets the client really passes (client/service.go, client/control.go).

   Units: durations and clock readings are Go's own, int64 NANOSECONDS (time.Duration), so that the
   float multiplications by Factor and the truncations are reproduced exactly for dyadic factors.
   External behaviour = arguments: [now] (time.Now() read inside Backoff) and the jitter oracle
   [j] with rand.Float64() = j / 2^53 (math/rand/v2 returns exactly such dyadics), 0 <= j < 2^53.
   Rationals (Factor, Jitter, FastRetryJitter) are pairs (numerator, denominator>0).
   No proofs in this file. *)
From Coq Require Import ZArith List Bool.
Import ListNotations.
Open Scope Z_scope.

Definition fb_ns_ms : Z := 1000000.
Definition fb_second : Z := 1000000000.
Definition fb_JS : Z := 2 ^ 53.

Record fb_opts := {
  fo_duration : Z;
  fo_factor : Z * Z;
  fo_jitter : Z * Z;
  fo_max : Z;
  fo_init_fail : Z;
  fo_fast_count : Z;
  fo_fast_delay : Z;
  fo_fast_jitter : Z * Z;
  fo_fast_window : Z
}.

(* fastBackoffImpl: lastCalledTime (zero value = None), consecutiveErrCount,
   fastRetryCutoffTime (zero value = None: every reading of the clock is After it),
   countsInFastRetryWindow *)
Record fb_state := {
  fs_last : option Z;
  fs_cec : Z;
  fs_cutoff : option Z;
  fs_counts : Z
}.

(* NewFastBackoffManager *)
Definition fb_init : fb_state :=
  {| fs_last := None; fs_cec := 0; fs_cutoff := None; fs_counts := 1 |}.

(* util.EmptyOr *)
Definition fb_empty_or (v fallback : Z) : Z := if v =? 0 then fallback else v.

(* Jitter(duration, maxFactor) = duration + Duration(rand.Float64()*maxFactor*float64(duration));
   maxFactor <= 0 is replaced by 1.0; the conversion truncates toward zero *)
Definition fb_jitter (d : Z) (mf : Z * Z) (j : Z) : Z :=
  let mf' := if fst mf <=? 0 then (1, 1) else mf in
  d + Z.quot (j * fst mf' * d) (fb_JS * snd mf').

(* now.After(cutoff) *)
Definition fb_after (now : Z) (cutoff : option Z) : bool :=
  match cutoff with None => true | Some c => now >? c end.

(* the "if previousConditionError { ... return duration }" block *)
Definition fb_slow (o : fb_opts) (cec prev j : Z) : Z :=
  let d0 := if cec =? 1 then fb_empty_or (fo_init_fail o) prev else prev in
  let d1 := fb_empty_or d0 fb_second in
  let d2 := if fst (fo_factor o) =? 0 then d1
            else Z.quot (d1 * fst (fo_factor o)) (snd (fo_factor o)) in
  let d3 := if fst (fo_jitter o) >? 0 then fb_jitter d2 (fo_jitter o) j else d2 in
  if (fo_max o >? 0) && (d3 >? fo_max o) then fo_max o else d3.

(* which return statement produced the delay *)
Inductive fb_kind := FKFirst | FKFast | FKSlow | FKSlowReset | FKNoErr.

Definition fb_backoff_k (o : fb_opts) (s : fb_state) (now prev : Z) (err : bool) (j : Z)
  : fb_state * Z * fb_kind :=
  match fs_last s with
  | None =>
      ({| fs_last := Some now; fs_cec := fs_cec s; fs_cutoff := fs_cutoff s; fs_counts := fs_counts s |},
       fo_duration o, FKFirst)
  | Some _ =>
      let cec := if err then fs_cec s + 1 else 0 in
      if (fo_fast_count o >? 0) && err then
        let c := fs_counts s + 1 in
        if c <=? fo_fast_count o then
          ({| fs_last := Some now; fs_cec := cec; fs_cutoff := fs_cutoff s; fs_counts := c |},
           fb_jitter (fo_fast_delay o) (fo_fast_jitter o) j, FKFast)
        else if fb_after now (fs_cutoff s) then
          ({| fs_last := Some now; fs_cec := cec; fs_cutoff := Some (now + fo_fast_window o); fs_counts := 0 |},
           fb_slow o cec prev j, FKSlowReset)
        else
          ({| fs_last := Some now; fs_cec := cec; fs_cutoff := fs_cutoff s; fs_counts := c |},
           fb_slow o cec prev j, FKSlow)
      else if err then
        ({| fs_last := Some now; fs_cec := cec; fs_cutoff := fs_cutoff s; fs_counts := fs_counts s |},
         fb_slow o cec prev j, FKSlow)
      else
        ({| fs_last := Some now; fs_cec := cec; fs_cutoff := fs_cutoff s; fs_counts := fs_counts s |},
         fo_duration o, FKNoErr)
  end.

Definition fb_backoff (o : fb_opts) (s : fb_state) (now prev : Z) (err : bool) (j : Z) : fb_state * Z :=
  fst (fb_backoff_k o s now prev err j).

(* ---- a sequence of direct calls (what the correspondence driver does) ---- *)
Record fb_call := { fc_now : Z; fc_prev : Z; fc_err : bool; fc_j : Z }.

Fixpoint fb_calls (o : fb_opts) (s : fb_state) (cs : list fb_call) : list (Z * fb_kind) :=
  match cs with
  | [] => []
  | c :: r =>
      let '(s', d, k) := fb_backoff_k o s (fc_now c) (fc_prev c) (fc_err c) (fc_j c) in
      (d, k) :: fb_calls o s' r
  end.

Definition fb_is_fast (k : fb_kind) : bool := match k with FKFast => true | _ => false end.

Fixpoint fb_count_fast (l : list (Z * fb_kind)) : Z :=
  match l with [] => 0 | (_, k) :: r => (if fb_is_fast k then 1 else 0) + fb_count_fast r end.

(* ---- BackoffUntil(f, backoff, sliding, stopCh) ----
   One attempt = one execution of f with its outcome, the clock reading of the Backoff call of
   that iteration and its jitter oracle.  The end of the attempt list is the moment stopCh closes.
   time.NewTicker / Ticker.Reset panic on a non-positive duration: an explicit outcome. *)
Inductive bu_outcome := BDone | BErr | BOk.
Record bu_attempt := { ba_out : bu_outcome; ba_now : Z; ba_j : Z }.

Record bu_state := { bs_fb : fb_state; bs_delay : Z; bs_perr : bool }.

Inductive bu_end := BUFinished | BUStopped | BUPanic.

(* var delay; previousError := false; ticker := NewTicker(backoff.Backoff(delay, previousError)) *)
Definition bu_start (o : fb_opts) (now0 j0 : Z) : option bu_state :=
  let '(s, d) := fb_backoff o fb_init now0 0 false j0 in
  if d <=? 0 then None else Some {| bs_fb := s; bs_delay := 0; bs_perr := false |}.

Definition bu_perr (out : bu_outcome) : bool := match out with BErr => true | _ => false end.

(* one loop iteration; Some (state, delay waited) or None when f reported done *)
Definition bu_iter (sliding : bool) (o : fb_opts) (st : bu_state) (a : bu_attempt) : option (bu_state * Z) :=
  if sliding then
    match ba_out a with
    | BDone => None
    | out =>
        let perr := bu_perr out in
        let '(s', d) := fb_backoff o (bs_fb st) (ba_now a) (bs_delay st) perr (ba_j a) in
        Some ({| bs_fb := s'; bs_delay := d; bs_perr := perr |}, d)
    end
  else
    let '(s', d) := fb_backoff o (bs_fb st) (ba_now a) (bs_delay st) (bs_perr st) (ba_j a) in
    match ba_out a with
    | BDone => None
    | out => Some ({| bs_fb := s'; bs_delay := d; bs_perr := bu_perr out |}, d)
    end.

Fixpoint bu_loop (sliding : bool) (o : fb_opts) (st : bu_state) (l : list bu_attempt) : list Z * bu_end :=
  match l with
  | [] => ([], BUStopped)
  | a :: r =>
      match bu_iter sliding o st a with
      | None => ([], BUFinished)
      | Some (st', d) =>
          if d <=? 0 then ([], BUPanic)
          else let '(ds, e) := bu_loop sliding o st' r in (d :: ds, e)
      end
  end.

Definition bu_run (sliding : bool) (o : fb_opts) (now0 j0 : Z) (l : list bu_attempt) : list Z * bu_end :=
  match bu_start o now0 j0 with
  | None => ([], BUPanic)
  | Some st => bu_loop sliding o st l
  end.

(* ---- the option sets the client passes ---- *)
(* client/service.go loopLoginUntilSuccess(maxInterval): called with 10 s (first login) and 20 s *)
Definition fb_login_opts (max_interval : Z) : fb_opts :=
  {| fo_duration := fb_second; fo_factor := (2, 1); fo_jitter := (1, 10); fo_max := max_interval;
     fo_init_fail := 0; fo_fast_count := 0; fo_fast_delay := 0; fo_fast_jitter := (0, 1);
     fo_fast_window := 0 |}.

(* client/service.go keepControllerWorking *)
Definition fb_keep_opts : fb_opts :=
  {| fo_duration := fb_second; fo_factor := (2, 1); fo_jitter := (1, 10); fo_max := 20 * fb_second;
     fo_init_fail := 0; fo_fast_count := 3; fo_fast_delay := 200 * fb_ns_ms; fo_fast_jitter := (1, 2);
     fo_fast_window := 60 * fb_second |}.

(* client/control.go heartbeatWorker, the ping sender; [interval] in seconds as configured *)
Definition fb_ping_opts (interval : Z) : fb_opts :=
  {| fo_duration := interval * fb_second; fo_factor := (2, 1); fo_jitter := (1, 10);
     fo_max := interval * fb_second; fo_init_fail := fb_second; fo_fast_count := 0; fo_fast_delay := 0;
     fo_fast_jitter := (0, 1); fo_fast_window := 0 |}.

(* wait.Until(f, period, stopCh): BackoffUntil with the constant BackoffFunc, sliding.  The tick
   instants: f runs at [start]; after each run (taking e_i) the ticker is reset to [period]. *)
Fixpoint until_ticks (period start : Z) (execs : list Z) : list Z :=
  match execs with
  | [] => [start]
  | e :: r => start :: until_ticks period (start + e + period) r
  end.
