(* C18 — proofs about Model/Validate.v *)
From FRP Require Import Model.Validate Proofs.MsgObjProofs.
From Coq Require Import Lia.
Open Scope Z_scope.

Lemma val_port_range p : val_port p = true <-> 0 <= p <= 65535.
Proof. unfold val_port. rewrite andb_true_iff, !Z.leb_le. tauto. Qed.

Lemma val_in_In l x : val_in l x = true -> In x l.
Proof.
  unfold val_in. intros H. apply existsb_exists in H. destruct H as (y & Hy & E).
  apply bytes_eqb_eq in E. now subst.
Qed.

Ltac val_ifs E :=
  repeat match type of E with
         | (if ?c then _ else _) = VOk => let C := fresh "C" in destruct c eqn:C; [discriminate E|]
         end.

Lemma val_proxy_client_base ann_ok plugin_ok pc :
  val_proxy_client ann_ok plugin_ok pc = VOk -> val_base_client ann_ok plugin_ok (cfg_base pc) = VOk.
Proof. unfold val_proxy_client. destruct (val_base_client _ _ _); try discriminate; reflexivity. Qed.

Lemma validated_ports_in_range ann_ok plugin_ok pc :
  val_proxy_client ann_ok plugin_ok pc = VOk ->
  TypedClientPluginOptions_Type (ProxyBackend_Plugin (ProxyBaseConfig_ProxyBackend (cfg_base pc))) = [] ->
  0 <= ProxyBackend_LocalPort (ProxyBaseConfig_ProxyBackend (cfg_base pc)) <= 65535.
Proof.
  intros H Hp. apply val_proxy_client_base in H. unfold val_base_client in H. cbv zeta in H.
  val_ifs H. rewrite Hp in *. cbn [bytes_eqb andb] in *.
  apply val_port_range. match goal with C : negb (val_port _) = false |- _ => now apply negb_false_iff in C end.
Qed.

Lemma validated_enums_allowed ann_ok plugin_ok pc :
  val_proxy_client ann_ok plugin_ok pc = VOk ->
  let b := cfg_base pc in
  ProxyBaseConfig_Name b <> [] /\
  In (ProxyTransport_ProxyProtocolVersion (ProxyBaseConfig_Transport b)) [[]; v_v1; v_v2] /\
  In (ProxyTransport_BandwidthLimitMode (ProxyBaseConfig_Transport b)) [v_client; v_server] /\
  In (HealthCheckConfig_Type (ProxyBaseConfig_HealthCheck b)) [[]; v_tcp; v_http] /\
  (forall c, pc = Cfg_TCPMuxProxyConfig c -> TCPMuxProxyConfig_Multiplexer c = v_httpconnect).
Proof.
  intros H b. pose proof (val_proxy_client_base _ _ _ H) as Hb. fold b in Hb.
  unfold val_base_client in Hb. cbv zeta in Hb. val_ifs Hb.
  repeat match goal with C : negb _ = false |- _ => apply negb_false_iff in C end.
  repeat split.
  - intros E. rewrite E in *. discriminate.
  - now apply val_in_In.
  - now apply val_in_In.
  - now apply val_in_In.
  - intros c ->. unfold val_proxy_client in H.
    destruct (val_base_client _ _ _); try discriminate.
    destruct (val_domain_client _); try discriminate.
    destruct (negb (val_in [v_httpconnect] (TCPMuxProxyConfig_Multiplexer c))) eqn:Cm; [discriminate|].
    apply negb_false_iff in Cm. apply val_in_In in Cm. destruct Cm as [Cm|[]]. now symmetry.
Qed.

(* a tcp or udp proxy accepted by CLIENT-side validation has its remotePort in 0..65535 *)
Lemma validated_remote_port_in_range ann_ok plugin_ok pc :
  val_proxy_client ann_ok plugin_ok pc = VOk ->
  (forall c, pc = Cfg_TCPProxyConfig c -> 0 <= TCPProxyConfig_RemotePort c <= 65535) /\
  (forall c, pc = Cfg_UDPProxyConfig c -> 0 <= UDPProxyConfig_RemotePort c <= 65535).
Proof.
  intros H. split; intros c ->; unfold val_proxy_client in H;
    destruct (val_base_client _ _ _); try discriminate.
  - destruct (val_port (TCPProxyConfig_RemotePort c)) eqn:E; [now apply val_port_range|discriminate].
  - destruct (val_port (UDPProxyConfig_RemotePort c)) eqn:E; [now apply val_port_range|discriminate].
Qed.

(* the server-side path is unchanged: it does not look at the remote port (the port manager decides) *)
Lemma server_side_ignores_remote_port ann_ok s c p :
  val_proxy_server ann_ok (Cfg_TCPProxyConfig (set_TCPProxyConfig_RemotePort p c)) s =
  val_proxy_server ann_ok (Cfg_TCPProxyConfig c) s.
Proof. destruct c. reflexivity. Qed.

(* ---- custom domains vs subDomainHost ---- *)
Fixpoint count_sep (sep : byte) (s : bytes) : nat :=
  match s with [] => O | b :: r => (if Byte.eqb b sep then 1 else 0) + count_sep sep r end%nat.

Lemma split_length sep s : length (lit_split_list sep s) = S (count_sep sep s).
Proof.
  unfold lit_split_list. induction s as [|b r IH]; [reflexivity|].
  cbn [lit_split count_sep]. destruct (lit_split sep r) as [h t]. cbn [length] in IH.
  destruct (Byte.eqb b sep); cbn [length]; lia.
Qed.

Lemma count_sep_app sep a b : count_sep sep (a ++ b) = (count_sep sep a + count_sep sep b)%nat.
Proof. induction a as [|x a IH]; cbn; [reflexivity|]. rewrite IH. lia. Qed.

Lemma lower_byte_dot b : Byte.eqb (lower_byte b) lit_dot = Byte.eqb b lit_dot.
Proof. destruct b; vm_compute; reflexivity. Qed.

Lemma count_dot_lower s : count_sep lit_dot (lower s) = count_sep lit_dot s.
Proof.
  induction s as [|b r IH]; [reflexivity|].
  change (lower (b :: r)) with (lower_byte b :: lower r). cbn [count_sep]. rewrite lower_byte_dot, IH. reflexivity.
Qed.

Lemma lower_app a b : lower (a ++ b) = lower a ++ lower b.
Proof. apply map_app. Qed.

Lemma is_prefix_app p t : is_prefix p (p ++ t) = true.
Proof. induction p as [|x p IH]; [reflexivity|]. cbn. rewrite IH. destruct x; reflexivity. Qed.

Lemma contains_of_prefix s sub : is_prefix sub s = true -> lit_contains s sub = true.
Proof. intros H. destruct s; cbn [lit_contains]; rewrite H; reflexivity. Qed.

Lemma contains_self_app h t : lit_contains (h ++ t) h = true.
Proof. apply contains_of_prefix, is_prefix_app. Qed.

Lemma contains_app_l p s sub : lit_contains s sub = true -> lit_contains (p ++ s) sub = true.
Proof.
  intros H. induction p as [|x p IH]; [exact H|].
  change ((x :: p) ++ s) with (x :: (p ++ s)). cbn [lit_contains]. rewrite IH. apply orb_true_r.
Qed.

Lemma val_custom_domains_none host ds d :
  val_custom_domains host ds = None -> In d ds ->
  negb (bytes_eqb host []) && (val_labels host <? val_labels d) && lit_contains (lower d) (lower host) = false.
Proof.
  induction ds as [|e r IH]; [contradiction|]. cbn [val_custom_domains].
  destruct (negb (bytes_eqb host []) && (val_labels host <? val_labels e) && lit_contains (lower e) (lower host)) eqn:C;
    [discriminate|].
  intros H [->|Hin]; [exact C|exact (IH H Hin)].
Qed.

Lemma domain_under_host_caught host d x :
  host <> [] -> lower d = lower (x ++ [lit_dot] ++ host) ->
  negb (bytes_eqb host []) && (val_labels host <? val_labels d) && lit_contains (lower d) (lower host) = true.
Proof.
  intros Hh E. rewrite bytes_eqb_neq by exact Hh. cbn [negb andb].
  apply andb_true_iff. split.
  - apply Z.ltb_lt. unfold val_labels. rewrite !split_length.
    rewrite <- (count_dot_lower d), E, count_dot_lower, !count_sep_app. cbn. lia.
  - rewrite E, !lower_app. apply contains_app_l. apply contains_app_l.
    rewrite <- (app_nil_r (lower host)) at 1. apply contains_self_app.
Qed.

Lemma val_domain_server_ok dc s d x :
  val_domain_server dc s = VOk -> sc_subdomain_host s <> [] -> In d (DomainConfig_CustomDomains dc) ->
  lower d <> lower (x ++ [lit_dot] ++ sc_subdomain_host s).
Proof.
  unfold val_domain_server. destruct (val_custom_domains _ _) eqn:C; [discriminate|].
  intros _ Hh Hin E.
  pose proof (val_custom_domains_none _ _ _ C Hin) as H1.
  pose proof (domain_under_host_caught _ _ x Hh E) as H2. congruence.
Qed.

Lemma validated_domain_outside_subdomain_host fb ann_ok m s m' pc d x :
  val_from_msg fb ann_ok m s = (m', FMOk pc) ->
  sc_subdomain_host s <> [] ->
  In d (cfg_custom_domains pc) ->
  lower d <> lower (x ++ [lit_dot] ++ sc_subdomain_host s).
Proof.
  unfold val_from_msg. destruct (cm_from_msg fb m) as [m1 [pc1|]]; [|discriminate].
  destruct (val_proxy_server ann_ok pc1 s) eqn:V; try discriminate.
  intros [= _ <-] Hh Hin. unfold val_proxy_server in V.
  destruct (negb (val_annotations ann_ok _)); [discriminate|].
  destruct pc1; cbn [cfg_custom_domains] in Hin; try contradiction.
  - destruct (sc_vhost_http_port s =? 0); [discriminate|]. eapply val_domain_server_ok; eauto.
  - destruct (sc_vhost_https_port s =? 0); [discriminate|]. eapply val_domain_server_ok; eauto.
  - destruct (_ && _); [discriminate|]. eapply val_domain_server_ok; eauto.
Qed.
