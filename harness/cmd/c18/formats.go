package main

// Part (b) of driver "config": one logical client configuration, written with the documented key
// names (a table held here, NOT derived from the struct tags of the code under test) as TOML, YAML
// and JSON by three small emitters, loaded by the real config.LoadConfigure / LoadClientConfig in
// strict and non-strict mode.  Observed on the Go side only (third-party parsers): the structures
// must be identical to each other and to the configuration the document was written from;
// an unknown key at any nesting level must be rejected in strict mode by all three formats and
// ignored in non-strict mode.

import (
	"fmt"
	"os"
	"path/filepath"
	"reflect"
	"regexp"
	"sort"
	"strconv"
	"strings"

	"github.com/fatedier/frp/pkg/config"
	v1 "github.com/fatedier/frp/pkg/config/v1"
)

type kv struct {
	k string
	v any // string | int64 | bool | []string | obj | []obj
}
type obj []kv

// ---- emitters ----

func jstr(s string) string {
	var b strings.Builder
	b.WriteByte('"')
	for _, r := range s {
		switch {
		case r == '"':
			b.WriteString(`\"`)
		case r == '\\':
			b.WriteString(`\\`)
		case r == '\n':
			b.WriteString(`\n`)
		case r == '\t':
			b.WriteString(`\t`)
		case r == '\r':
			b.WriteString(`\r`)
		case r < 0x20 || r == 0x7f:
			fmt.Fprintf(&b, `\u%04x`, r)
		default:
			b.WriteRune(r)
		}
	}
	b.WriteByte('"')
	return b.String()
}

func strList(l []string) string {
	items := []string{}
	for _, s := range l {
		items = append(items, jstr(s))
	}
	return "[" + strings.Join(items, ", ") + "]"
}

func emitJSON(v any, ind string) string {
	switch x := v.(type) {
	case string:
		return jstr(x)
	case int64:
		return strconv.FormatInt(x, 10)
	case bool:
		return strconv.FormatBool(x)
	case []string:
		return strList(x)
	case obj:
		if len(x) == 0 {
			return "{}"
		}
		var b strings.Builder
		b.WriteString("{\n")
		for i, e := range x {
			b.WriteString(ind + "  " + jstr(e.k) + ": " + emitJSON(e.v, ind+"  "))
			if i != len(x)-1 {
				b.WriteString(",")
			}
			b.WriteString("\n")
		}
		b.WriteString(ind + "}")
		return b.String()
	case []obj:
		if len(x) == 0 {
			return "[]"
		}
		items := []string{}
		for _, o := range x {
			items = append(items, emitJSON(o, ind+"  "))
		}
		return "[" + strings.Join(items, ", ") + "]"
	}
	panic(fmt.Sprintf("emitJSON: %T", v))
}

func emitYAML(o obj, ind string) string {
	var b strings.Builder
	for _, e := range o {
		key := ind + jstr(e.k) + ":"
		switch x := e.v.(type) {
		case string:
			b.WriteString(key + " " + jstr(x) + "\n")
		case int64:
			b.WriteString(key + " " + strconv.FormatInt(x, 10) + "\n")
		case bool:
			b.WriteString(key + " " + strconv.FormatBool(x) + "\n")
		case []string:
			if len(x) == 0 {
				b.WriteString(key + " []\n")
			} else {
				b.WriteString(key + "\n")
				for _, s := range x {
					b.WriteString(ind + "  - " + jstr(s) + "\n")
				}
			}
		case obj:
			if len(x) == 0 {
				b.WriteString(key + " {}\n")
			} else {
				b.WriteString(key + "\n" + emitYAML(x, ind+"  "))
			}
		case []obj:
			if len(x) == 0 {
				b.WriteString(key + " []\n")
			} else {
				b.WriteString(key + "\n")
				for _, it := range x {
					if len(it) == 0 {
						b.WriteString(ind + "  - {}\n")
						continue
					}
					body := emitYAML(it, ind+"    ")
					// first line of the element carries the dash
					b.WriteString(ind + "  - " + strings.TrimPrefix(body, ind+"    "))
				}
			}
		}
	}
	return b.String()
}

var bareKey = regexp.MustCompile(`^[A-Za-z0-9_-]+$`)

func tkey(k string) string {
	if bareKey.MatchString(k) {
		return k
	}
	return jstr(k)
}

func emitTOML(o obj, path []string, b *strings.Builder) {
	for _, e := range o {
		switch x := e.v.(type) {
		case string:
			b.WriteString(tkey(e.k) + " = " + jstr(x) + "\n")
		case int64:
			b.WriteString(tkey(e.k) + " = " + strconv.FormatInt(x, 10) + "\n")
		case bool:
			b.WriteString(tkey(e.k) + " = " + strconv.FormatBool(x) + "\n")
		case []string:
			b.WriteString(tkey(e.k) + " = " + strList(x) + "\n")
		case []obj:
			if len(x) == 0 {
				b.WriteString(tkey(e.k) + " = []\n")
			}
		}
	}
	for _, e := range o {
		if x, ok := e.v.(obj); ok {
			p := append(append([]string{}, path...), tkey(e.k))
			b.WriteString("\n[" + strings.Join(p, ".") + "]\n")
			emitTOML(x, p, b)
		}
	}
	for _, e := range o {
		if x, ok := e.v.([]obj); ok {
			p := append(append([]string{}, path...), tkey(e.k))
			for _, it := range x {
				b.WriteString("\n[[" + strings.Join(p, ".") + "]]\n")
				emitTOML(it, p, b)
			}
		}
	}
}

// ---- logical configuration -> tree, with the documented key names ----

func mapObj(m map[string]string) obj {
	keys := make([]string, 0, len(m))
	for k := range m {
		keys = append(keys, k)
	}
	sort.Strings(keys)
	o := obj{}
	for _, k := range keys {
		o = append(o, kv{k, m[k]})
	}
	return o
}

// put adds key k unless the value is the zero value and the coin says "leave it out"
func (g *gen) put(o *obj, k string, v any) {
	zero := false
	switch x := v.(type) {
	case string:
		zero = x == ""
	case int64:
		zero = x == 0
	case bool:
		zero = !x
	case []string:
		zero = x == nil
	case obj:
		zero = x == nil
	case []obj:
		zero = x == nil
	}
	if zero {
		return
	}
	*o = append(*o, kv{k, v})
}

func (g *gen) proxyTree(c v1.ProxyConfigurer) obj {
	b := c.GetBaseConfig()
	o := obj{{"name", b.Name}, {"type", b.Type}}
	if b.Annotations != nil {
		g.put(&o, "annotations", mapObj(b.Annotations))
	}
	tr := obj{}
	g.put(&tr, "useEncryption", b.Transport.UseEncryption)
	g.put(&tr, "useCompression", b.Transport.UseCompression)
	g.put(&tr, "bandwidthLimit", b.Transport.BandwidthLimit.String())
	g.put(&tr, "bandwidthLimitMode", b.Transport.BandwidthLimitMode)
	g.put(&tr, "proxyProtocolVersion", b.Transport.ProxyProtocolVersion)
	if len(tr) > 0 || g.chance(0.2) {
		o = append(o, kv{"transport", tr})
	}
	if b.Metadatas != nil {
		g.put(&o, "metadatas", mapObj(b.Metadatas))
	}
	lb := obj{}
	g.put(&lb, "group", b.LoadBalancer.Group)
	g.put(&lb, "groupKey", b.LoadBalancer.GroupKey)
	if len(lb) > 0 {
		o = append(o, kv{"loadBalancer", lb})
	}
	hc := obj{}
	g.put(&hc, "type", b.HealthCheck.Type)
	g.put(&hc, "timeoutSeconds", int64(b.HealthCheck.TimeoutSeconds))
	g.put(&hc, "maxFailed", int64(b.HealthCheck.MaxFailed))
	g.put(&hc, "intervalSeconds", int64(b.HealthCheck.IntervalSeconds))
	g.put(&hc, "path", b.HealthCheck.Path)
	if b.HealthCheck.HTTPHeaders != nil {
		hs := []obj{}
		for _, h := range b.HealthCheck.HTTPHeaders {
			hs = append(hs, obj{{"name", h.Name}, {"value", h.Value}})
		}
		hc = append(hc, kv{"httpHeaders", hs})
	}
	if len(hc) > 0 {
		o = append(o, kv{"healthCheck", hc})
	}
	g.put(&o, "localIP", b.LocalIP)
	g.put(&o, "localPort", int64(b.LocalPort))
	switch p := b.Plugin.ClientPluginOptions.(type) {
	case *v1.UnixDomainSocketPluginOptions:
		po := obj{{"type", b.Plugin.Type}}
		g.put(&po, "unixPath", p.UnixPath)
		o = append(o, kv{"plugin", po})
	case *v1.HTTPProxyPluginOptions:
		po := obj{{"type", b.Plugin.Type}}
		g.put(&po, "httpUser", p.HTTPUser)
		g.put(&po, "httpPassword", p.HTTPPassword)
		o = append(o, kv{"plugin", po})
	}
	dom := func(d *v1.DomainConfig) {
		g.put(&o, "customDomains", d.CustomDomains)
		g.put(&o, "subdomain", d.SubDomain)
	}
	hdr := func(k string, h v1.HeaderOperations) {
		if h.Set != nil {
			o = append(o, kv{k, obj{{"set", mapObj(h.Set)}}})
		}
	}
	switch cc := c.(type) {
	case *v1.TCPProxyConfig:
		g.put(&o, "remotePort", int64(cc.RemotePort))
	case *v1.UDPProxyConfig:
		g.put(&o, "remotePort", int64(cc.RemotePort))
	case *v1.HTTPProxyConfig:
		dom(&cc.DomainConfig)
		g.put(&o, "locations", cc.Locations)
		g.put(&o, "httpUser", cc.HTTPUser)
		g.put(&o, "httpPassword", cc.HTTPPassword)
		g.put(&o, "hostHeaderRewrite", cc.HostHeaderRewrite)
		hdr("requestHeaders", cc.RequestHeaders)
		hdr("responseHeaders", cc.ResponseHeaders)
		g.put(&o, "routeByHTTPUser", cc.RouteByHTTPUser)
	case *v1.HTTPSProxyConfig:
		dom(&cc.DomainConfig)
	case *v1.TCPMuxProxyConfig:
		dom(&cc.DomainConfig)
		g.put(&o, "httpUser", cc.HTTPUser)
		g.put(&o, "httpPassword", cc.HTTPPassword)
		g.put(&o, "routeByHTTPUser", cc.RouteByHTTPUser)
		g.put(&o, "multiplexer", cc.Multiplexer)
	case *v1.STCPProxyConfig:
		g.put(&o, "secretKey", cc.Secretkey)
		g.put(&o, "allowUsers", cc.AllowUsers)
	case *v1.XTCPProxyConfig:
		g.put(&o, "secretKey", cc.Secretkey)
		g.put(&o, "allowUsers", cc.AllowUsers)
	case *v1.SUDPProxyConfig:
		g.put(&o, "secretKey", cc.Secretkey)
		g.put(&o, "allowUsers", cc.AllowUsers)
	}
	return o
}

type commonL struct {
	serverAddr string
	serverPort int64
	user       string
	token      string
	logLevel   string
	poolCount  int64
	protocol   string
	webPort    int64
}

func (g *gen) commonTree(c commonL) obj {
	o := obj{}
	g.put(&o, "serverAddr", c.serverAddr)
	g.put(&o, "serverPort", c.serverPort)
	g.put(&o, "user", c.user)
	au := obj{}
	g.put(&au, "token", c.token)
	if len(au) > 0 {
		o = append(o, kv{"auth", au})
	}
	lg := obj{}
	g.put(&lg, "level", c.logLevel)
	if len(lg) > 0 {
		o = append(o, kv{"log", lg})
	}
	tr := obj{}
	g.put(&tr, "poolCount", c.poolCount)
	g.put(&tr, "protocol", c.protocol)
	if len(tr) > 0 {
		o = append(o, kv{"transport", tr})
	}
	ws := obj{}
	g.put(&ws, "port", c.webPort)
	if len(ws) > 0 {
		o = append(o, kv{"webServer", ws})
	}
	return o
}

// every object of the tree, with a label of its nesting level
func walkObjs(o *obj, label string, f func(label string, at *obj)) {
	var rec func(p *obj, label string)
	rec = func(p *obj, label string) {
		f(label, p)
		for i := range *p {
			switch x := (*p)[i].v.(type) {
			case obj:
				// string->string maps accept any key: not a place for an unknown field
				if k := (*p)[i].k; k == "annotations" || k == "metadatas" || k == "set" {
					continue
				}
				rec(&x, label+"."+(*p)[i].k)
				(*p)[i].v = x
			case []obj:
				for j := range x {
					rec(&x[j], label+"."+(*p)[i].k+"[]")
				}
			}
		}
	}
	rec(o, label)
}

func deepCopy(o obj) obj {
	r := make(obj, len(o))
	for i, e := range o {
		switch x := e.v.(type) {
		case obj:
			r[i] = kv{e.k, deepCopy(x)}
		case []obj:
			l := make([]obj, len(x))
			for j := range x {
				l[j] = deepCopy(x[j])
			}
			r[i] = kv{e.k, l}
		case []string:
			r[i] = kv{e.k, append([]string{}, x...)}
		default:
			r[i] = e
		}
	}
	return r
}

func render(o obj) map[string][]byte {
	var tb strings.Builder
	emitTOML(o, nil, &tb)
	return map[string][]byte{
		"toml": []byte(tb.String()),
		"yaml": []byte(emitYAML(o, "")),
		"json": []byte(emitJSON(o, "") + "\n"),
	}
}

var formatNames = []string{"toml", "yaml", "json"}

func commonDump(c *v1.ClientCommonConfig) string {
	return fmt.Sprintf("addr=%q port=%d user=%q token=%q level=%q to=%q maxDays=%d pool=%d proto=%q web=%d webAddr=%q method=%q",
		c.ServerAddr, c.ServerPort, c.User, c.Auth.Token, c.Log.Level, c.Log.To, c.Log.MaxDays, c.Transport.PoolCount,
		c.Transport.Protocol, c.WebServer.Port, c.WebServer.Addr, c.Auth.Method)
}

func (d *drv) runFormats(g *gen, n int) map[string]any {
	st := map[string]int{}
	levels := map[string]int{}
	dir := filepath.Join(filepath.Dir(d.cfg.Out), "fmt")
	if d.cfg.Out == "" {
		dir = filepath.Join(os.TempDir(), "c18fmt")
	}
	_ = os.MkdirAll(dir, 0o755)
	for i := 0; i < n; i++ {
		cl := commonL{
			serverAddr: g.pick([]string{"", "127.0.0.1", "frps.example.com", "::1"}),
			serverPort: g.pickInt([]int64{0, 7000, 65535}),
			user:       g.pick([]string{"", "", "user", "ünï"}),
			token:      g.pick([]string{"", "secret", `p"w\d`, "日本"}),
			logLevel:   g.pick([]string{"", "debug", "info"}),
			poolCount:  g.pickInt([]int64{0, 1, 5}),
			protocol:   g.pick([]string{"", "tcp", "kcp", "quic", "websocket"}),
			webPort:    g.pickInt([]int64{0, 7400}),
		}
		var orig []v1.ProxyConfigurer
		np := 1 + g.intn(3)
		tree := g.commonTree(cl)
		plist := []obj{}
		for k := 0; k < np; k++ {
			c := g.proxyCfg(g.pick(proxyTypes))
			orig = append(orig, c)
			plist = append(plist, g.proxyTree(c))
		}
		tree = append(tree, kv{"proxies", plist})
		docs := render(tree)
		st["documents"]++
		wantProxies := []string{}
		for _, c := range orig {
			wantProxies = append(wantProxies, coqCfg(c))
		}
		wantCommon := fmt.Sprintf("addr=%q port=%d user=%q token=%q level=%q pool=%d proto=%q web=%d", cl.serverAddr, cl.serverPort,
			cl.user, cl.token, cl.logLevel, cl.poolCount, cl.protocol, cl.webPort)

		// LoadConfigure, both modes, three formats: identical to each other and to the source
		for _, strict := range []bool{false, true} {
			for _, f := range formatNames {
				var all v1.ClientConfig
				if err := config.LoadConfigure(docs[f], &all, strict); err != nil {
					d.fail("format-load:"+f, fmt.Sprintf("a valid %s document is rejected (strict=%v): %v", f, strict, err), string(docs[f]))
					continue
				}
				st["loads"]++
				gotCommon := fmt.Sprintf("addr=%q port=%d user=%q token=%q level=%q pool=%d proto=%q web=%d", all.ServerAddr, all.ServerPort,
					all.User, all.Auth.Token, all.Log.Level, all.Transport.PoolCount, all.Transport.Protocol, all.WebServer.Port)
				if gotCommon != wantCommon {
					d.fail("format-structure:"+f+":common", "the common section loaded from "+f+" differs from the logical configuration",
						gotCommon+" vs "+wantCommon+"\n"+string(docs[f]))
				}
				if len(all.Proxies) != len(orig) {
					d.fail("format-structure:"+f+":count", "number of proxies differs", string(docs[f]))
					continue
				}
				for k := range orig {
					got := coqCfg(all.Proxies[k].ProxyConfigurer)
					if got != wantProxies[k] {
						d.fail("format-structure:"+f+":"+orig[k].GetBaseConfig().Type+":"+
							firstDiff(reflect.ValueOf(orig[k]).Elem(), reflect.ValueOf(all.Proxies[k].ProxyConfigurer).Elem(), ""),
							"the structure loaded from "+f+" differs from the logical configuration it was written from",
							"want "+wantProxies[k]+" got "+got+"\n"+string(docs[f]))
					}
				}
			}
		}

		// the file entry point (template rendering, Complete): three formats agree, defaults applied identically
		if i%3 == 0 {
			var dumps []string
			for _, f := range formatNames {
				p := filepath.Join(dir, "doc."+f)
				if f == "toml" && g.chance(0.5) {
					p = filepath.Join(dir, "doc.ini") // the extension must not matter
				}
				_ = os.WriteFile(p, docs[f], 0o644)
				cc, pcs, _, legacy, err := config.LoadClientConfig(p, true)
				_ = os.Remove(p)
				if err != nil || legacy {
					d.fail("format-file-load:"+f, fmt.Sprintf("LoadClientConfig rejects a valid %s file: %v legacy=%v", f, err, legacy), string(docs[f]))
					continue
				}
				items := []string{commonDump(cc)}
				for _, pc := range pcs {
					items = append(items, coqCfg(pc))
				}
				dumps = append(dumps, strings.Join(items, "\n"))
			}
			st["file_loads"]++
			for k := 1; k < len(dumps); k++ {
				if dumps[k] != dumps[0] {
					d.fail("format-defaults-differ:"+formatNames[k], "LoadClientConfig (defaults applied) gives different structures for toml and "+formatNames[k],
						dumps[0]+"\n--- vs ---\n"+dumps[k])
				}
			}
			// defaults: the completed proxies equal the source completed with the same user prefix
			if len(dumps) == 3 {
				items := []string{}
				for _, c := range orig {
					cp := reflect.New(reflect.TypeOf(c).Elem())
					cp.Elem().Set(reflect.ValueOf(c).Elem())
					e := cp.Interface().(v1.ProxyConfigurer)
					e.Complete(cl.user)
					items = append(items, coqCfg(e))
				}
				got := strings.SplitN(dumps[0], "\n", 2)
				if len(got) == 2 && got[1] != strings.Join(items, "\n") {
					d.fail("format-defaults", "proxies returned by LoadClientConfig differ from the logical configuration completed with the user prefix",
						got[1]+"\n--- vs ---\n"+strings.Join(items, "\n"))
				}
			}
		}

		// an unknown key at one nesting level
		var spots []string
		probe := deepCopy(tree)
		walkObjs(&probe, "top", func(label string, at *obj) { spots = append(spots, label) })
		target := g.intn(len(spots))
		bad := deepCopy(tree)
		idx := 0
		label := ""
		walkObjs(&bad, "top", func(l string, at *obj) {
			if idx == target {
				label = l
				pos := g.intn(len(*at) + 1)
				nk := kv{g.pick([]string{"unknownField", "remotePorts", "Name2", "x-y"}), g.pick([]string{"v", ""})}
				*at = append((*at)[:pos], append(obj{nk}, (*at)[pos:]...)...)
			}
			idx++
		})
		// normalise the level label (drop proxy indices) for the statistics
		levels[label]++
		bdocs := render(bad)
		for _, f := range formatNames {
			var all v1.ClientConfig
			if err := config.LoadConfigure(bdocs[f], &all, true); err == nil {
				d.fail("strict-accepts-unknown:"+f+":"+label, "strict mode accepts a document with an unknown field at "+label+" ("+f+")", string(bdocs[f]))
			} else {
				st["strict_unknown_rejected"]++
			}
			var all2 v1.ClientConfig
			if err := config.LoadConfigure(bdocs[f], &all2, false); err != nil {
				d.fail("nonstrict-rejects-unknown:"+f+":"+label, "non-strict mode rejects a document with an unknown field at "+label+" ("+f+"): "+err.Error(), string(bdocs[f]))
			} else {
				st["nonstrict_unknown_ignored"]++
				for k := range orig {
					if k < len(all2.Proxies) && coqCfg(all2.Proxies[k].ProxyConfigurer) != wantProxies[k] {
						d.fail("nonstrict-unknown-changes-structure:"+f, "an ignored unknown field changes the loaded structure", string(bdocs[f]))
					}
				}
			}
		}
	}
	out := map[string]any{}
	for k, v := range st {
		out[k] = v
	}
	out["unknown_field_levels"] = levels
	return out
}
