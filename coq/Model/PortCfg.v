(* C09 — two small models that tie the layered model to its surroundings.  Model only: no proofs here.

   (1) pkg/config/types/types.go NewPortsRangeSliceFromString and the legacy-ini conversion of allow_ports
       (pkg/config/legacy/conversion.go): the operator's text -> the ranges NewManager is given.
       [trim_items] = "every number goes through strings.TrimSpace before it is parsed" (translator fact).
   (2) pkg/msg/handler.go Dispatcher: read loop, handlers, doneCh.  [inline] = "registered handlers are
       called by the read loop itself and only the read loop closes doneCh" (translator facts).  The
       layered model runs a session's handlers and its teardown (Control.worker waits for Done) as one
       sequential thread; d_run shows when that is justified. *)
From FRP Require Export Model.Ports.
Open Scope Z_scope.

(* ---------- (1) the allowPorts list parser ---------- *)
Definition chars := list ascii.

Definition is_space (a : ascii) : bool :=
  let n := Z.of_N (N_of_ascii a) in
  (n =? 32) || ((9 <=? n) && (n <=? 13)).

Fixpoint trim_left (s : chars) : chars :=
  match s with
  | a :: r => if is_space a then trim_left r else s
  | [] => []
  end.
Definition trim_space (s : chars) : chars := rev (trim_left (rev (trim_left s))).

(* strings.Split(s, sep) for a one-character separator *)
Fixpoint split_on (sep : ascii) (cur : chars) (s : chars) : list chars :=
  match s with
  | [] => [rev cur]
  | a :: r => if Ascii.eqb a sep then rev cur :: split_on sep [] r else split_on sep (a :: cur) r
  end.

Definition digit_of (a : ascii) : option Z :=
  let n := Z.of_N (N_of_ascii a) in if (48 <=? n) && (n <=? 57) then Some (n - 48) else None.

Fixpoint parse_digits (acc : Z) (s : chars) : option Z :=
  match s with
  | [] => Some acc
  | a :: r => match digit_of a with Some d => parse_digits (10 * acc + d) r | None => None end
  end.

(* strconv.ParseInt(s, 10, 64) (and Atoi): optional sign, at least one digit, nothing else, in range *)
Definition parse_int (s : chars) : option Z :=
  let '(neg, body) := match s with
                      | "-"%char :: r => (true, r)
                      | "+"%char :: r => (false, r)
                      | _ => (false, s)
                      end in
  match body with
  | [] => None
  | _ => match parse_digits 0 body with
         | Some v => let v' := if neg then - v else v in
                     if (- 2 ^ 63 <=? v') && (v' <? 2 ^ 63) then Some v' else None
         | None => None
         end
  end.

Definition parse_num (trim_items : bool) (s : chars) : option Z :=
  parse_int (if trim_items then trim_space s else s).

Fixpoint parse_items (trim_items : bool) (items : list chars) : option (list prange) :=
  match items with
  | [] => Some []
  | it :: r =>
      let one :=
        match split_on "-"%char [] it with
        | [x] => match parse_num trim_items x with Some n => Some (0, 0, n) | None => None end
        | [x; y] => match parse_num trim_items x, parse_num trim_items y with
                    | Some a, Some b => if b <? a then None else Some (a, b, 0)
                    | _, _ => None
                    end
        | _ => None
        end in
      match one, parse_items trim_items r with
      | Some x, Some xs => Some (x :: xs)
      | _, _ => None
      end
  end.

Definition parse_ports (trim_items : bool) (s : string) : option (list prange) :=
  parse_items trim_items (split_on ","%char [] (trim_space (list_ascii_of_string s))).

(* legacy ini: `out.AllowPorts, _ = NewPortsRangeSliceFromString(conf.AllowPortsStr)` — an error leaves
   AllowPorts nil, which NewManager reads as "no restriction" *)
Definition legacy_allow_ports (trim_items : bool) (s : string) : list prange :=
  match parse_ports trim_items s with Some rs => rs | None => [] end.

(* ---------- (2) the dispatcher ---------- *)
Record dstate := { d_queue : Z; d_busy : bool; d_done : bool }.
Definition d_init : dstate := {| d_queue := 0; d_busy := false; d_done := false |}.

Inductive devent :=
| DMsg            (* a message is read from the connection *)
| DStart          (* (separate handle loop only) the next queued message's handler starts *)
| DReturn         (* the running handler returns *)
| DConnError.     (* the read fails: doneCh is closed *)

(* None = the event cannot happen in this state *)
Definition d_step (inline : bool) (s : dstate) (e : devent) : option dstate :=
  if inline then
    (* one goroutine: it is either blocked in ReadMsg or inside a handler *)
    match e with
    | DMsg => if d_busy s || d_done s then None else Some {| d_queue := 0; d_busy := true; d_done := false |}
    | DStart => None
    | DReturn => if d_busy s then Some {| d_queue := 0; d_busy := false; d_done := d_done s |} else None
    | DConnError => if d_busy s || d_done s then None else Some {| d_queue := 0; d_busy := false; d_done := true |}
    end
  else
    (* reader and handler goroutines joined by a channel *)
    match e with
    | DMsg => if d_done s then None else Some {| d_queue := d_queue s + 1; d_busy := d_busy s; d_done := false |}
    | DStart => if d_busy s || d_done s || (d_queue s <=? 0) then None
                else Some {| d_queue := d_queue s - 1; d_busy := true; d_done := false |}
    | DReturn => if d_busy s then Some {| d_queue := d_queue s; d_busy := false; d_done := d_done s |} else None
    | DConnError => if d_done s then None else Some {| d_queue := d_queue s; d_busy := d_busy s; d_done := true |}
    end.

Fixpoint d_run (inline : bool) (evs : list devent) (s : dstate) : option dstate :=
  match evs with
  | [] => Some s
  | e :: r => match d_step inline s e with Some s' => d_run inline r s' | None => None end
  end.
