(* C09 — schedule model: proxy registrations and closes of different sessions interleaved at the
   granularity of the locks the code takes.  Model only: no proofs here.

   One thread = the life of one proxy of one session: Control.RegisterProxy (plain tcp; udp has the same
   shape with its own manager) optionally followed by Control.CloseProxy.  Atomic steps:

     PExist       ctl.pxyManager.Exist(name)                       (proxy.Manager RLock)
     PAcquire         TCPPortManager.Acquire(name, port)               (ports.Manager lock; the OS probe happens
                                                                    inside, against what is bound at that instant)
     PListen p    net.Listen on p                                  (kernel: fails iff p is bound by anybody)
     PRelFail p   deferred Release(p) after a failed listen
     PAdd p       ctl.pxyManager.Add(name, pxy)                    (proxy.Manager lock; fails if the name appeared
                                                                    since PExist)
     PFailUnbind p / PFailRel p    deferred pxy.Close(): listener closed, then Release(p)
     PLive p      registered; if the session closes the proxy: BaseProxy.Close closes the listener
     PCloseRel p  Release(p)
     PCloseDel    pxyManager.Del(name)
     PEnd

   The gates in /repo delimit exactly these steps: ctl.regproxy.after_exist (PExist|PAcquire),
   proxy.tcp.after_acquire (PAcquire|PListen), ctl.regproxy.after_run (PListen|PAdd).
   Other processes bind and release ports at any time (SchSquat / SchUnsquat). *)
From FRP Require Export Model.Ports Model.PortSrv.
Open Scope Z_scope.

Inductive spc :=
| PExist | PAcquire | PListen (p : Z) | PRelFail (p : Z) | PAdd (p : Z)
| PFailUnbind (p : Z) | PFailRel (p : Z)
| PLive (p : Z) | PCloseRel (p : Z) | PCloseDel | PEnd.

(* st_res: NewProxyResp as a code once known (port, or -1..-4 Acquire errors, -5 listen failed, -11 name
   exists), -100 before *)
Record sthread := { st_name : pname; st_port : Z; st_choice : option Z; st_close : bool; st_pc : spc; st_res : Z }.

Definition th_set (th : sthread) (pc : spc) (res : Z) : sthread :=
  {| st_name := st_name th; st_port := st_port th; st_choice := st_choice th; st_close := st_close th;
     st_pc := pc; st_res := res |}.

Fixpoint nmem (n : pname) (l : list pname) : bool :=
  match l with [] => false | m :: r => String.eqb n m || nmem n r end.
Fixpoint ndel (n : pname) (l : list pname) : list pname :=
  match l with [] => [] | m :: r => if String.eqb n m then ndel n r else m :: ndel n r end.

Record sstate := {
  ss_pm : pm;
  ss_bound : list Z;         (* ports this server listens on *)
  ss_squat : list Z;         (* ports other processes hold *)
  ss_names : list pname;     (* proxy.Manager.pxys *)
  ss_ths : list (Z * sthread) }.

Definition ss_init (ranges : list prange) (ths : list (Z * sthread)) : sstate :=
  {| ss_pm := pm_new ranges; ss_bound := []; ss_squat := []; ss_names := []; ss_ths := ths |}.

(* the port a thread holds in the manager's books, and the port it has a listener on *)
Definition pc_held (pc : spc) : option Z :=
  match pc with
  | PListen p | PRelFail p | PAdd p | PFailUnbind p | PFailRel p | PLive p | PCloseRel p => Some p
  | _ => None
  end.
Definition pc_bound (pc : spc) : option Z :=
  match pc with
  | PAdd p | PFailUnbind p | PLive p => Some p
  | _ => None
  end.

Definition ss_busy (s : sstate) : list Z := ss_bound s ++ ss_squat s.

Definition ss_with (s : sstate) (m : pm) (b : list Z) (names : list pname) (t : Z) (th : sthread) : sstate :=
  {| ss_pm := m; ss_bound := b; ss_squat := ss_squat s; ss_names := names; ss_ths := aset t th (ss_ths s) |}.

(* one atomic step of thread t; Some s unchanged when the thread has nothing to do; None only when the
   recorded random choice is not one the code could make *)
Definition th_step (s : sstate) (t : Z) : option sstate :=
  match aget t (ss_ths s) with
  | None => Some s
  | Some th =>
      let keep := ss_with s (ss_pm s) (ss_bound s) (ss_names s) t in
      match st_pc th with
      | PExist =>
          if nmem (st_name th) (ss_names s) then Some (keep (th_set th PEnd (-11)))
          else Some (keep (th_set th PAcquire (st_res th)))
      | PAcquire =>
          match pm_acquire (probe_of (ss_busy s)) (st_choice th) (ss_pm s) (st_name th) (st_port th) with
          | None => None
          | Some (m', PErr e) =>
              Some (ss_with s m' (ss_bound s) (ss_names s) t
                      (th_set th PEnd (match e with EUsed => -1 | ENotAllowed => -2 | EUnavail => -3 | ENoAvail => -4 end)))
          | Some (m', POk p) => Some (ss_with s m' (ss_bound s) (ss_names s) t (th_set th (PListen p) (st_res th)))
          end
      | PListen p =>
          if zmem p (ss_busy s) then Some (keep (th_set th (PRelFail p) (st_res th)))
          else Some (ss_with s (ss_pm s) (p :: ss_bound s) (ss_names s) t (th_set th (PAdd p) (st_res th)))
      | PRelFail p => Some (ss_with s (pm_release (ss_pm s) p) (ss_bound s) (ss_names s) t (th_set th PEnd (-5)))
      | PAdd p =>
          if nmem (st_name th) (ss_names s) then Some (keep (th_set th (PFailUnbind p) (st_res th)))
          else Some (ss_with s (ss_pm s) (ss_bound s) (st_name th :: ss_names s) t (th_set th (PLive p) p))
      | PFailUnbind p => Some (ss_with s (ss_pm s) (zrem p (ss_bound s)) (ss_names s) t (th_set th (PFailRel p) (st_res th)))
      | PFailRel p => Some (ss_with s (pm_release (ss_pm s) p) (ss_bound s) (ss_names s) t (th_set th PEnd (-11)))
      | PLive p =>
          if st_close th
          then Some (ss_with s (ss_pm s) (zrem p (ss_bound s)) (ss_names s) t (th_set th (PCloseRel p) (st_res th)))
          else Some s
      | PCloseRel p => Some (ss_with s (pm_release (ss_pm s) p) (ss_bound s) (ss_names s) t (th_set th PCloseDel (st_res th)))
      | PCloseDel => Some (ss_with s (ss_pm s) (ss_bound s) (ndel (st_name th) (ss_names s)) t (th_set th PEnd (st_res th)))
      | PEnd => Some s
      end
  end.

Inductive sched_el := SchThread (t : Z) | SchSquat (p : Z) | SchUnsquat (p : Z).

Definition ss_step (s : sstate) (e : sched_el) : option sstate :=
  match e with
  | SchThread t => th_step s t
  | SchSquat p =>
      if zmem p (ss_busy s) then Some s
      else Some {| ss_pm := ss_pm s; ss_bound := ss_bound s; ss_squat := p :: ss_squat s; ss_names := ss_names s; ss_ths := ss_ths s |}
  | SchUnsquat p =>
      Some {| ss_pm := ss_pm s; ss_bound := ss_bound s; ss_squat := zrem p (ss_squat s); ss_names := ss_names s; ss_ths := ss_ths s |}
  end.

Fixpoint ss_run (sched : list sched_el) (s : sstate) : option sstate :=
  match sched with
  | [] => Some s
  | e :: r => match ss_step s e with Some s' => ss_run r s' | None => None end
  end.

(* a thread is settled when what it holds in the books is what it listens on *)
Definition pc_settled (pc : spc) : bool :=
  match pc_held pc, pc_bound pc with
  | Some p, Some q => p =? q
  | None, None => true
  | _, _ => false
  end.
Definition ss_quiescent (s : sstate) : bool := forallb (fun e => pc_settled (st_pc (snd e))) (ss_ths s).
