package main

import (
	"fmt"
	"sync"
	"time"

	v1 "github.com/fatedier/frp/pkg/config/v1"
	"verifharness/hx"
)

type srvCert struct {
	name             string
	cert, key, ca    string
	issuer           string   // "self" | "ca" | "other"
	names            []string // identities the certificate carries
}

type cliCert struct {
	name           string
	cert, key, ca  string
	issuer         string // "" | "ca" | "other"
	serverName     string // TLS.ServerName ("" = falls back to the server address)
}

// runCerts: certificate matrix.  Every server identity / client-certificate requirement against
// every client certificate / verification setting, with a real frpc; observed: does a session come up
// (a proxy reaches "running", i.e. Login and NewProxy were interpreted and answered).
func runCerts(cfg *hx.RunCfg) error {
	hx.Quiet()
	pki, err := NewPKI()
	if err != nil {
		return err
	}
	defer pki.Close()
	cf := &hx.CaseFile{Imports: caseImports, Typ: "case", Tail: caseTail +
		"Definition NREFUSED := Eval vm_compute in count_if (fun c => match c with CCert _ _ _ _ _ _ false => true | _ => false end) cases.\nPrint NREFUSED.\n" +
		"Definition NACCEPTED := Eval vm_compute in count_if (fun c => match c with CCert _ _ _ _ _ _ true => true | _ => false end) cases.\nPrint NACCEPTED.\n"}
	good := []string{goodServerName, addrServer, addrRelay}
	servers := []srvCert{
		{"self-signed", "", "", "", "self", nil},
		{"ca-cert", pki.ServerCert, pki.ServerKey, "", "ca", good},
		{"ca-cert+client-ca", pki.ServerCert, pki.ServerKey, pki.CA, "ca", good},
		{"ca-cert-other-name", pki.OtherServerCert, pki.OtherServerKey, "", "ca", []string{"other.verif.test"}},
		{"other-ca-cert", pki.RogueServerCert, pki.RogueServerKey, "", "other", good},
		{"self-signed+client-ca", "", "", pki.CA, "self", nil},
	}
	clients := []cliCert{
		{"no-verify,no-cert", "", "", "", "", ""},
		{"verify+name,no-cert", "", "", pki.CA, "", goodServerName},
		{"no-verify,ca-cert", pki.ClientCert, pki.ClientKey, "", "ca", ""},
		{"no-verify,other-ca-cert", pki.RogueClientCert, pki.RogueClientKey, "", "other", ""},
		{"verify+name,ca-cert", pki.ClientCert, pki.ClientKey, pki.CA, "ca", goodServerName},
		{"verify,addr-as-name,ca-cert", pki.ClientCert, pki.ClientKey, pki.CA, "ca", ""},
		{"verify+wrong-name,ca-cert", pki.ClientCert, pki.ClientKey, pki.CA, "ca", "wrong.verif.test"},
		{"verify+name,other-ca-cert", pki.RogueClientCert, pki.RogueClientKey, pki.CA, "other", goodServerName},
	}
	implFail := []map[string]string{}
	dist := map[string]int{}
	var samples []string
	for _, sc := range servers {
		sc := sc
		s, err := hx.StartServer(addrServer, func(c *v1.ServerConfig) {
			c.Transport.TLS.CertFile, c.Transport.TLS.KeyFile, c.Transport.TLS.TrustedCaFile = sc.cert, sc.key, sc.ca
		})
		if err != nil {
			return fmt.Errorf("start frps (%s): %v", sc.name, err)
		}
		if (sc.ca != "") != s.Cfg.Transport.TLS.Force {
			implFail = append(implFail, map[string]string{"key": "ca-does-not-force", "what": "a server with a trusted CA does not force TLS after Complete()", "case": sc.name})
		}
		echo, _ := hx.StartEcho(addrBackend, "")
		type out struct {
			i  int
			up bool
		}
		results := make([]bool, len(clients))
		var wg sync.WaitGroup
		for i, cc := range clients {
			i, cc := i, cc
			wg.Add(1)
			go func() {
				defer wg.Done()
				p := &v1.TCPProxyConfig{}
				p.Name, p.Type = fmt.Sprintf("cm%d", i), "tcp"
				p.LocalIP, p.LocalPort, p.RemotePort = addrBackend, echo.Port(), 0
				c, err := s.StartClient([]v1.ProxyConfigurer{p}, nil, func(k *v1.ClientCommonConfig) {
					t := true
					k.Transport.TLS.Enable = &t
					k.Transport.TLS.CertFile, k.Transport.TLS.KeyFile = cc.cert, cc.key
					k.Transport.TLS.TrustedCaFile, k.Transport.TLS.ServerName = cc.ca, cc.serverName
				})
				if err != nil {
					return
				}
				results[i] = c.WaitProxyRunning(p.Name, 1200*time.Millisecond)
				c.Close()
			}()
		}
		wg.Wait()
		echo.Close()
		s.Close()
		for i, cc := range clients {
			expName := cc.serverName
			if expName == "" {
				expName = addrServer
			}
			nameOK := false
			for _, n := range sc.names {
				if n == expName {
					nameOK = true
				}
			}
			serverCA := sc.ca != ""
			cs := fmt.Sprintf("CCert %s %s %s %s %s %s %s", hx.Bool(serverCA), hx.Bool(cc.issuer == "ca"), hx.Bool(cc.cert != ""),
				hx.Bool(cc.ca != ""), hx.Bool(nameOK), hx.Bool(sc.issuer == "ca"), hx.Bool(results[i]))
			cf.Cases = append(cf.Cases, cs)
			dist[fmt.Sprintf("up=%v", results[i])]++
			if len(samples) < 4 && i == 1 {
				samples = append(samples, fmt.Sprintf("server %s x client %s => session %v", sc.name, cc.name, results[i]))
			}
			// property monitor on the Go side
			if results[i] && serverCA && cc.issuer != "ca" {
				implFail = append(implFail, map[string]string{"key": "session-without-acceptable-client-cert",
					"what": "a server given a trusted CA let a session come up for a client without a certificate of that CA",
					"case": "server " + sc.name + " x client " + cc.name})
			}
			if results[i] && cc.ca != "" && !(nameOK && sc.issuer == "ca") {
				implFail = append(implFail, map[string]string{"key": "client-accepted-wrong-server-identity",
					"what": "a client given a trusted CA and server name went on with a server presenting another identity",
					"case": "server " + sc.name + " x client " + cc.name})
			}
		}
	}
	if err := cf.Write(cfg.Out); err != nil {
		return err
	}
	cfg.St["cases"] = len(cf.Cases)
	cfg.St["distinct_nontrivial"] = len(cf.Cases)
	cfg.St["samples"] = samples
	cfg.St["distribution"] = dist
	cfg.St["impl_failures"] = implFail
	return nil
}
