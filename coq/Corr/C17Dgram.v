(* C17 correspondence: real pkg/nathole DecodeMessageInto (called under recover) against Model/Datagram.v. *)
From FRP Require Export Corr.C17 Model.Datagram.
Open Scope Z_scope.

(* plain   : oracle for the cipher = what golib crypto.Decode returns for a copy of [data] ([] when it refuses)
   json_ok : oracle for the JSON layer = msg.ReadMsgInto on that plaintext returns nil
   obs     : 0 DecodeMessageInto returned nil | 1 returned an error | 2 panicked
   same    : false iff the datagram was built by EncodeMessage under the same key and did NOT come back as the
             NatHoleSid that was encoded (refused, or different) *)
Inductive dg_case := CDgram (data plain : bytes) (json_ok : bool) (obs : Z) (same : bool).

Definition dg_model (data plain : bytes) : dg_out := dg_decode registered (fun _ _ => plain) data.

Definition check_dg (c : dg_case) : Z :=
  match c with
  | CDgram data plain json_ok obs same =>
      if obs =? 2 then 40                                           (* a decoder never panics *)
      else if negb same then 44                                     (* EncodeMessage output must come back equal (any key, incl. the empty one) *)
      else if (dg_iv_len <=? blen data) && negb (blen plain =? blen data - dg_iv_len) then 41
      else match dg_model data plain with
           | DgErr _ _ _ => if obs =? 1 then 0 else 42
           | DgOk _ _ _ _ =>
               if json_ok then (if obs =? 0 then (if same then 0 else 44) else 43)
               else (if obs =? 1 then 0 else 43)
           end
  end.

Definition is_dg_short c := match c with CDgram d p _ _ _ => match dg_model d p with DgErr DgShort _ _ => true | _ => false end end.
Definition is_dg_frame_err c := match c with CDgram d p _ _ _ => match dg_model d p with DgErr (DgFrame _) _ _ => true | _ => false end end.
Definition is_dg_ok c := match c with CDgram d p j _ _ => match dg_model d p with DgOk _ _ _ _ => j | _ => false end end.
Definition is_dg_json_err c := match c with CDgram d p j _ _ => match dg_model d p with DgOk _ _ _ _ => negb j | _ => false end end.
