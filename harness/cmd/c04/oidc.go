package main

// A fake OIDC issuer (discovery document + JWKS over loopback HTTP) and RS256-signed tokens, so that
// frps runs its REAL go-oidc verifier (auth.NewTokenVerifier) and no stub is installed in pkg/auth.
// The harness knows by construction which token maps to which subject and which must be rejected;
// that table is the oracle `oidc : token -> option subject` handed to the model.

import (
	"crypto"
	"crypto/rand"
	"crypto/rsa"
	"crypto/sha256"
	"encoding/base64"
	"encoding/json"
	"fmt"
	"math/big"
	"net"
	"net/http"
	"sort"
	"strings"
	"time"

	"verifharness/hx"
)

type oidcWorld struct {
	issuer  string
	ln      net.Listener
	srv     *http.Server
	names   map[string]string // token -> Coq identifier
	subject map[string]string // valid token -> subject
	valid   map[string][]string
	invalid []string
	order   []string
	key     *rsa.PrivateKey
	other   *rsa.PrivateKey
}

func b64(b []byte) string { return base64.RawURLEncoding.EncodeToString(b) }

func signJWT(key *rsa.PrivateKey, kid string, claims map[string]any) string {
	h, _ := json.Marshal(map[string]string{"alg": "RS256", "kid": kid, "typ": "JWT"})
	p, _ := json.Marshal(claims)
	in := b64(h) + "." + b64(p)
	sum := sha256.Sum256([]byte(in))
	sig, err := rsa.SignPKCS1v15(rand.Reader, key, crypto.SHA256, sum[:])
	if err != nil {
		panic(err)
	}
	return in + "." + b64(sig)
}

func newOidcWorld(addr string) (*oidcWorld, error) {
	ln, err := net.Listen("tcp", net.JoinHostPort(addr, "0"))
	if err != nil {
		return nil, err
	}
	w := &oidcWorld{ln: ln, names: map[string]string{}, subject: map[string]string{}, valid: map[string][]string{}}
	w.issuer = "http://" + ln.Addr().String()
	key, err := rsa.GenerateKey(rand.Reader, 2048)
	if err != nil {
		return nil, err
	}
	other, err := rsa.GenerateKey(rand.Reader, 2048)
	if err != nil {
		return nil, err
	}
	w.key = key
	w.other = other
	mux := http.NewServeMux()
	mux.HandleFunc("/.well-known/openid-configuration", func(rw http.ResponseWriter, r *http.Request) {
		rw.Header().Set("Content-Type", "application/json")
		_ = json.NewEncoder(rw).Encode(map[string]any{
			"issuer": w.issuer, "jwks_uri": w.issuer + "/jwks", "authorization_endpoint": w.issuer + "/auth",
			"token_endpoint": w.issuer + "/token", "id_token_signing_alg_values_supported": []string{"RS256"},
			"response_types_supported": []string{"id_token"}, "subject_types_supported": []string{"public"},
		})
	})
	mux.HandleFunc("/jwks", func(rw http.ResponseWriter, r *http.Request) {
		rw.Header().Set("Content-Type", "application/json")
		_ = json.NewEncoder(rw).Encode(map[string]any{"keys": []map[string]string{{
			"kty": "RSA", "kid": "k1", "alg": "RS256", "use": "sig",
			"n": b64(key.N.Bytes()), "e": b64(big.NewInt(int64(key.E)).Bytes()),
		}}})
	})
	w.srv = &http.Server{Handler: mux}
	go w.srv.Serve(ln)

	now := time.Now().Unix()
	claims := func(sub string, exp int64, iss string) map[string]any {
		return map[string]any{"iss": iss, "sub": sub, "aud": "frps", "exp": exp, "iat": now}
	}
	add := func(tok, sub string, ok bool) {
		w.names[tok] = fmt.Sprintf("jw%d", len(w.order))
		w.order = append(w.order, tok)
		if ok {
			w.subject[tok] = sub
			w.valid[sub] = append(w.valid[sub], tok)
		} else {
			w.invalid = append(w.invalid, tok)
		}
	}
	add(signJWT(key, "k1", claims("alice", now+3600, w.issuer)), "alice", true)
	add(signJWT(key, "k1", claims("alice", now+7200, w.issuer)), "alice", true)
	add(signJWT(key, "k1", claims("bob", now+3600, w.issuer)), "bob", true)
	add(signJWT(key, "k1", claims("carol", now+3600, w.issuer)), "carol", true)
	add(signJWT(key, "k1", claims("alice", now-3600, w.issuer)), "", false)               // expired
	add(signJWT(other, "k1", claims("alice", now+3600, w.issuer)), "", false)             // signed by another key
	add(signJWT(key, "k1", claims("alice", now+3600, "http://127.0.4.201:1")), "", false) // other issuer
	{                                                                                     // alg none
		h, _ := json.Marshal(map[string]string{"alg": "none", "typ": "JWT"})
		p, _ := json.Marshal(claims("alice", now+3600, w.issuer))
		add(b64(h)+"."+b64(p)+".", "", false)
	}
	{ // valid header+payload of alice with bob's signature bytes
		a := strings.Split(w.valid["alice"][0], ".")
		b := strings.Split(w.valid["bob"][0], ".")
		add(a[0]+"."+a[1]+"."+b[2], "", false)
	}
	w.invalid = append(w.invalid, "", "garbage", ownKey(hx.DefaultToken, now), "a.b.c")
	return w, nil
}

func (w *oidcWorld) close() { w.srv.Close() }

func (w *oidcWorld) pick(g *hx.Gen, good bool) cred {
	if good {
		r := g.Intn(10)
		sub := "alice"
		if r >= 7 && r < 9 {
			sub = "bob"
		} else if r == 9 {
			sub = "carol"
		}
		ts := w.valid[sub]
		return cred{key: ts[g.Intn(len(ts))], kind: "jwt-" + sub}
	}
	if g.Chance(0.25) {
		return cred{key: w.valid["carol"][0], kind: "jwt-carol"}
	}
	k := w.invalid[g.Intn(len(w.invalid))]
	return cred{key: k, kind: "jwt-invalid"}
}

func (w *oidcWorld) coqDefs() string {
	var b strings.Builder
	toks := append([]string(nil), w.order...)
	sort.SliceStable(toks, func(i, j int) bool { return w.names[toks[i]] < w.names[toks[j]] })
	for _, t := range w.order {
		fmt.Fprintf(&b, "Definition %s : bytes := %s.\n", w.names[t], hx.HxS(t))
	}
	return b.String()
}

// mint signs a fresh token for sub that expires at exp (unix seconds) with the issuer's current key.
func (w *oidcWorld) mint(sub string, exp int64) string {
	return signJWT(w.key, "k1", map[string]any{"iss": w.issuer, "sub": sub, "aud": "frps", "exp": exp, "iat": time.Now().Unix(), "jti": fmt.Sprint(time.Now().UnixNano())})
}

// mintClaims signs a token with arbitrary claims; foreign = signed by a key that is not in the issuer's JWKS.
func (w *oidcWorld) mintClaims(sub string, exp int64, iss, aud string, foreign bool) string {
	k := w.key
	if foreign {
		k = w.other
	}
	return signJWT(k, "k1", map[string]any{"iss": iss, "sub": sub, "aud": aud, "exp": exp, "iat": time.Now().Unix() - 7200})
}
