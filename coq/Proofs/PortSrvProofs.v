(* C09 — proofs about the layered model Model/PortSrv.v. *)
From Coq Require Import Lia.
From FRP Require Import Model.Ports Model.PortSrv Proofs.PortsProofs.
Open Scope Z_scope.

(* ---------- association lists ---------- *)
Section Assoc.
Context {V : Type}.

Lemma aget_adel_eq : forall k (l : list (Z * V)), aget k (adel k l) = None.
Proof.
  induction l as [|[q v] r IH]; simpl; [reflexivity|].
  destruct (Z.eqb_spec k q) as [->|N]; [exact IH|]. simpl.
  destruct (Z.eqb_spec k q); [congruence|exact IH].
Qed.

Lemma aget_adel_neq : forall k q (l : list (Z * V)), q <> k -> aget q (adel k l) = aget q l.
Proof.
  induction l as [|[z v] r IH]; simpl; intros N; [reflexivity|].
  destruct (Z.eqb_spec k z) as [->|N2].
  - destruct (Z.eqb_spec q z); [congruence|auto].
  - simpl. destruct (Z.eqb_spec q z); [reflexivity|auto].
Qed.

Lemma aget_aset_eq : forall k v (l : list (Z * V)), aget k (aset k v l) = Some v.
Proof. intros. unfold aset. simpl. rewrite Z.eqb_refl. reflexivity. Qed.

Lemma aget_aset_neq : forall k q v (l : list (Z * V)), q <> k -> aget q (aset k v l) = aget q l.
Proof.
  intros. unfold aset. simpl. destruct (Z.eqb_spec q k); [congruence|].
  apply aget_adel_neq; assumption.
Qed.

Lemma sget_sdel_eq : forall k (l : list (string * V)), sget k (sdel k l) = None.
Proof.
  induction l as [|[q v] r IH]; simpl; [reflexivity|].
  destruct (String.eqb_spec k q) as [->|N]; [exact IH|]. simpl.
  destruct (String.eqb_spec k q); [congruence|exact IH].
Qed.

Lemma sget_sdel_neq : forall k q (l : list (string * V)), q <> k -> sget q (sdel k l) = sget q l.
Proof.
  induction l as [|[z v] r IH]; simpl; intros N; [reflexivity|].
  destruct (String.eqb_spec k z) as [->|N2].
  - destruct (String.eqb_spec q z); [congruence|auto].
  - simpl. destruct (String.eqb_spec q z); [reflexivity|auto].
Qed.

Lemma sget_sset_eq : forall k v (l : list (string * V)), sget k (sset k v l) = Some v.
Proof. intros. unfold sset. simpl. rewrite String.eqb_refl. reflexivity. Qed.

Lemma sget_sset_neq : forall k q v (l : list (string * V)), q <> k -> sget q (sset k v l) = sget q l.
Proof.
  intros. unfold sset. simpl. destruct (String.eqb_spec q k); [congruence|].
  apply sget_sdel_neq; assumption.
Qed.

Lemma sdel_none : forall k (l : list (string * V)), sget k l = None -> sdel k l = l.
Proof.
  induction l as [|[q v] r IH]; simpl; [reflexivity|].
  destruct (String.eqb_spec k q); [discriminate|]. intros H. rewrite IH; auto.
Qed.

Lemma sget_in_keys : forall k (l : list (string * V)), sget k l <> None <-> In k (map fst l).
Proof.
  induction l as [|[q v] r IH]; simpl; [tauto|].
  destruct (String.eqb_spec k q) as [->|N].
  - split; [auto|discriminate].
  - rewrite IH. split; [auto|]. intros [E|H]; [congruence|exact H].
Qed.

Lemma sdel_keys : forall k q (l : list (string * V)), In q (map fst (sdel k l)) -> In q (map fst l) /\ q <> k.
Proof.
  intros k q l H. apply sget_in_keys in H. destruct (String.eqb_spec q k) as [->|N].
  - rewrite sget_sdel_eq in H. congruence.
  - rewrite sget_sdel_neq in H by assumption. apply sget_in_keys in H. auto.
Qed.

Lemma sdel_nodup : forall k (l : list (string * V)), NoDup (map fst l) -> NoDup (map fst (sdel k l)).
Proof.
  induction l as [|[q v] r IH]; simpl; intros H; [constructor|].
  inversion H as [|? ? Hn Hr]; subst.
  destruct (String.eqb_spec k q); [auto|]. simpl. constructor; [|auto].
  intros X. apply sdel_keys in X. tauto.
Qed.

Lemma sset_nodup : forall k v (l : list (string * V)), NoDup (map fst l) -> NoDup (map fst (sset k v l)).
Proof.
  intros. unfold sset. simpl. constructor; [|apply sdel_nodup; assumption].
  intros X. apply sdel_keys in X. tauto.
Qed.
End Assoc.

(* ======================= quota ======================= *)
Definition lw (l : list (pname * (Z * pkind))) : Z := fold_right (fun e acc => pweight (snd (snd e)) + acc) 0 l.

Lemma pweight_nonneg : forall k, 0 <= pweight k.
Proof. destruct k; simpl; lia. Qed.

Lemma lw_nonneg : forall l, 0 <= lw l.
Proof. induction l as [|[n [id k]] r IH]; simpl; [lia|]. pose proof (pweight_nonneg k). lia. Qed.

Lemma lw_sdel : forall n id k l, NoDup (map fst l) -> sget n l = Some (id, k) -> lw (sdel n l) = lw l - pweight k.
Proof.
  induction l as [|[m [id' k']] r IH]; simpl; intros ND H; [discriminate|].
  inversion ND as [|? ? Hn Hr]; subst.
  destruct (String.eqb_spec n m) as [->|N].
  - inversion H; subst. rewrite sdel_none; [lia|].
    destruct (sget m r) eqn:E; [|reflexivity]. exfalso. apply Hn. apply sget_in_keys. congruence.
  - simpl. rewrite IH by assumption. lia.
Qed.

Lemma lw_sset_fresh : forall n v l, sget n l = None -> lw (sset n v l) = pweight (snd v) + lw l.
Proof. intros n v l H. unfold sset. simpl. rewrite sdel_none by assumption. reflexivity. Qed.

Record YInv (maxp : Z) (s : srv) : Prop := {
  yi_names : forall c ct n v, aget c (s_ctls s) = Some ct -> sget n (c_proxies ct) = Some v -> sget n (s_names s) = Some c;
  yi_nodup : forall c ct, aget c (s_ctls s) = Some ct -> NoDup (map fst (c_proxies ct));
  yi_quota : forall c ct, aget c (s_ctls s) = Some ct -> 0 < maxp -> c_used ct = lw (c_proxies ct) /\ c_used ct <= maxp
}.

Lemma yinv_new : forall maxp ranges, YInv maxp (srv_new ranges).
Proof. intros. constructor; simpl; intros; discriminate. Qed.

Lemma close_all_names : forall l r names r' names',
  close_all r names l = Some (r', names') ->
  forall n, sget n l = None -> sget n names' = sget n names.
Proof.
  induction l as [|[m [id k]] t IH]; simpl; intros r names r' names' H n Hn.
  - inversion H; subst. reflexivity.
  - destruct (String.eqb_spec n m) as [|N]; [discriminate|].
    destruct (px_close r id) as [r1|]; [|discriminate].
    rewrite (IH _ _ _ _ H n Hn). apply sget_sdel_neq. assumption.
Qed.

Ltac ysimpl := cbn [s_rc s_names s_ctls c_proxies c_used snd fst].
Tactic Notation "ysimpl" "in" hyp(H) := cbn [s_rc s_names s_ctls c_proxies c_used] in H.

Lemma yinv_same_ctls : forall maxp s s',
  YInv maxp s -> s_names s' = s_names s -> s_ctls s' = s_ctls s -> YInv maxp s'.
Proof. intros maxp s s' [A B C] En Ec. constructor; rewrite ?En, ?Ec; assumption. Qed.

(* replacing session c's record by one with the same proxies and the same counter *)
Lemma yinv_rollback : forall maxp s c ct ct' r',
  YInv maxp s -> aget c (s_ctls s) = Some ct ->
  c_proxies ct' = c_proxies ct -> (0 < maxp -> c_used ct' = c_used ct) ->
  YInv maxp {| s_rc := r'; s_names := s_names s; s_ctls := aset c ct' (s_ctls s) |}.
Proof.
  intros maxp s c ct ct' r' [A B C] Hc Ep Eu. constructor; ysimpl.
  - intros c0 ct0 n v H0 H1. destruct (Z.eq_dec c0 c) as [->|N].
    + rewrite aget_aset_eq in H0. inversion H0; subst. rewrite Ep in H1. eauto.
    + rewrite aget_aset_neq in H0 by assumption. eauto.
  - intros c0 ct0 H0. destruct (Z.eq_dec c0 c) as [->|N].
    + rewrite aget_aset_eq in H0. inversion H0; subst. rewrite Ep. eauto.
    + rewrite aget_aset_neq in H0 by assumption. eauto.
  - intros c0 ct0 H0 Hm. destruct (Z.eq_dec c0 c) as [->|N].
    + rewrite aget_aset_eq in H0. inversion H0; subst. rewrite Ep, (Eu Hm). eauto.
    + rewrite aget_aset_neq in H0 by assumption. eauto.
Qed.

Lemma yinv_register : forall maxp s c q s' r, YInv maxp s -> y_register maxp s c q = Some (s', r) -> YInv maxp s'.
Proof.
  intros maxp s c q s' r HI H. unfold y_register in H.
  destruct (aget c (s_ctls s)) as [ct|] eqn:Ec; [|discriminate].
  destruct ((0 <? maxp) && (maxp <? c_used ct + pweight (xq_kind q))) eqn:EQ.
  { inversion H; subst. assumption. }
  destruct (sget (xq_name q) (s_names s)) as [own|] eqn:En.
  { inversion H; subst. apply (yinv_rollback maxp s c ct _ _ HI Ec).
    - reflexivity.
    - intros Hm. apply Z.ltb_lt in Hm. ysimpl. rewrite Hm. lia. }
  destruct (px_run (s_rc s) q) as [[r' [id real|e]]|]; [| |discriminate].
  2:{ inversion H; subst. apply (yinv_rollback maxp s c ct _ _ HI Ec).
      - reflexivity.
      - intros Hm. apply Z.ltb_lt in Hm. ysimpl. rewrite Hm. lia. }
  inversion H; subst. clear H. destruct HI as [A B C].
  assert (Hfresh : sget (xq_name q) (c_proxies ct) = None).
  { destruct (sget (xq_name q) (c_proxies ct)) eqn:E; [|reflexivity].
    rewrite (A _ _ _ _ Ec E) in En. discriminate. }
  constructor; ysimpl.
  - intros c0 ct0 n v H0 H1. destruct (Z.eq_dec c0 c) as [->|N].
    + rewrite aget_aset_eq in H0. inversion H0; subst. ysimpl in H1.
      destruct (String.eqb_spec n (xq_name q)) as [->|Nn].
      * apply sget_sset_eq.
      * rewrite sget_sset_neq in H1 by assumption. rewrite sget_sset_neq by assumption. eauto.
    + rewrite aget_aset_neq in H0 by assumption.
      destruct (String.eqb_spec n (xq_name q)) as [->|Nn].
      * rewrite (A _ _ _ _ H0 H1) in En. discriminate.
      * rewrite sget_sset_neq by assumption. eauto.
  - intros c0 ct0 H0. destruct (Z.eq_dec c0 c) as [->|N].
    + rewrite aget_aset_eq in H0. inversion H0; subst. ysimpl. apply sset_nodup. eauto.
    + rewrite aget_aset_neq in H0 by assumption. eauto.
  - intros c0 ct0 H0 Hm. destruct (Z.eq_dec c0 c) as [->|N].
    + rewrite aget_aset_eq in H0. inversion H0; subst. ysimpl.
      rewrite lw_sset_fresh by assumption. ysimpl.
      destruct (C _ _ Ec Hm) as [C1 C2].
      assert (Hm' : (0 <? maxp) = true) by (apply Z.ltb_lt; assumption). rewrite Hm' in *. cbn [andb] in EQ.
      apply Z.ltb_ge in EQ. lia.
    + rewrite aget_aset_neq in H0 by assumption. eauto.
Qed.

Lemma yinv_close : forall maxp s c n s', YInv maxp s -> y_close maxp s c n = Some s' -> YInv maxp s'.
Proof.
  intros maxp s c n s' HI H. unfold y_close in H.
  destruct (aget c (s_ctls s)) as [ct|] eqn:Ec; [|discriminate].
  destruct (sget n (c_proxies ct)) as [[id k]|] eqn:Ep; [|inversion H; subst; assumption].
  destruct (px_close (s_rc s) id) as [r'|]; [|discriminate].
  inversion H; subst. clear H. destruct HI as [A B C]. constructor; ysimpl.
  - intros c0 ct0 m v H0 H1. destruct (Z.eq_dec c0 c) as [->|N].
    + rewrite aget_aset_eq in H0. inversion H0; subst. ysimpl in H1.
      destruct (String.eqb_spec m n) as [->|Nn]; [rewrite sget_sdel_eq in H1; discriminate|].
      rewrite sget_sdel_neq in H1 by assumption. rewrite sget_sdel_neq by assumption. eauto.
    + rewrite aget_aset_neq in H0 by assumption.
      destruct (String.eqb_spec m n) as [->|Nn].
      * pose proof (A _ _ _ _ H0 H1) as X. pose proof (A _ _ _ _ Ec Ep) as Y. congruence.
      * rewrite sget_sdel_neq by assumption. eauto.
  - intros c0 ct0 H0. destruct (Z.eq_dec c0 c) as [->|N].
    + rewrite aget_aset_eq in H0. inversion H0; subst. ysimpl. apply sdel_nodup. eauto.
    + rewrite aget_aset_neq in H0 by assumption. eauto.
  - intros c0 ct0 H0 Hm. destruct (Z.eq_dec c0 c) as [->|N].
    + rewrite aget_aset_eq in H0. inversion H0; subst. ysimpl.
      rewrite (lw_sdel _ _ _ _ (B _ _ Ec) Ep). destruct (C _ _ Ec Hm) as [C1 C2].
      assert (Hm' : (0 <? maxp) = true) by (apply Z.ltb_lt; assumption). rewrite Hm'.
      pose proof (pweight_nonneg k). lia.
    + rewrite aget_aset_neq in H0 by assumption. eauto.
Qed.

Lemma yinv_end : forall maxp s c s', YInv maxp s -> y_end s c = Some s' -> YInv maxp s'.
Proof.
  intros maxp s c s' HI H. unfold y_end in H.
  destruct (aget c (s_ctls s)) as [ct|] eqn:Ec; [|discriminate].
  destruct (close_all (s_rc s) (s_names s) (c_proxies ct)) as [[r' names']|] eqn:ECA; [|discriminate].
  inversion H; subst. clear H. destruct HI as [A B C].
  assert (K : forall c0 ct0, aget c0 (adel c (s_ctls s)) = Some ct0 -> c0 <> c /\ aget c0 (s_ctls s) = Some ct0).
  { intros c0 ct0 H0. destruct (Z.eq_dec c0 c) as [->|N]; [rewrite aget_adel_eq in H0; discriminate|].
    rewrite aget_adel_neq in H0 by assumption. auto. }
  constructor; ysimpl.
  - intros c0 ct0 m v H0 H1. destruct (K _ _ H0) as [N H0'].
    rewrite (close_all_names _ _ _ _ _ ECA m); [eauto|].
    destruct (sget m (c_proxies ct)) eqn:E; [|reflexivity].
    pose proof (A _ _ _ _ Ec E). pose proof (A _ _ _ _ H0' H1). congruence.
  - intros c0 ct0 H0. destruct (K _ _ H0). eauto.
  - intros c0 ct0 H0 Hm. destruct (K _ _ H0). eauto.
Qed.

Lemma yinv_step : forall maxp s o s' out, YInv maxp s -> y_step maxp s o = Some (s', out) -> YInv maxp s'.
Proof.
  intros maxp s o s' out HI H. destruct o as [c|c q|c n|c|id|proto port|proto port]; cbn [y_step] in H.
  - destruct (aget c (s_ctls s)) eqn:Ec; [discriminate|]. inversion H; subst. clear H.
    destruct HI as [A B C]. constructor; ysimpl.
    + intros c0 ct0 n v H0 H1. destruct (Z.eq_dec c0 c) as [->|N].
      * rewrite aget_aset_eq in H0. inversion H0; subst. discriminate.
      * rewrite aget_aset_neq in H0 by assumption. eauto.
    + intros c0 ct0 H0. destruct (Z.eq_dec c0 c) as [->|N].
      * rewrite aget_aset_eq in H0. inversion H0; subst. constructor.
      * rewrite aget_aset_neq in H0 by assumption. eauto.
    + intros c0 ct0 H0 Hm. destruct (Z.eq_dec c0 c) as [->|N].
      * rewrite aget_aset_eq in H0. inversion H0; subst. simpl. lia.
      * rewrite aget_aset_neq in H0 by assumption. eauto.
  - destruct (y_register maxp s c q) as [[s1 r]|] eqn:E; [|discriminate]. inversion H; subst.
    eapply yinv_register; eauto.
  - destruct (y_close maxp s c n) as [s1|] eqn:E; [|discriminate]. inversion H; subst.
    eapply yinv_close; eauto.
  - destruct (y_end s c) as [s1|] eqn:E; [|discriminate]. inversion H; subst. eapply yinv_end; eauto.
  - destruct (aget id (rc_objs (s_rc s))) as [o|]; [|discriminate].
    destruct (po_kind o); try discriminate.
    destruct (px_close (s_rc s) id); [|discriminate]. inversion H; subst.
    eapply yinv_same_ctls; eauto.
  - destruct (x_step (s_rc s) (XSquat proto port)) as [[r' o]|]; [|discriminate]. inversion H; subst.
    eapply yinv_same_ctls; eauto.
  - destruct (x_step (s_rc s) (XUnsquat proto port)) as [[r' o]|]; [|discriminate]. inversion H; subst.
    eapply yinv_same_ctls; eauto.
Qed.

Lemma yinv_run : forall maxp ops s s', YInv maxp s -> y_run maxp ops s = Some s' -> YInv maxp s'.
Proof.
  induction ops as [|o t IH]; simpl; intros s s' HI H; [inversion H; subst; assumption|].
  destruct (y_step maxp s o) as [[s1 out]|] eqn:E; [|discriminate].
  eapply IH; [|eassumption]. eapply yinv_step; eauto.
Qed.

(* every history (registrations that succeed, fail at any point, duplicates, closes, session ends, late
   udp closes, squatters), every oracle: a session's counter equals the weight of its live proxies and
   never exceeds maxPortsPerClient *)
Theorem quota_equals_live_weight : forall maxp ranges ops s c ct,
  0 < maxp -> y_run maxp ops (srv_new ranges) = Some s -> aget c (s_ctls s) = Some ct ->
  c_used ct = live_weight ct.
Proof.
  intros maxp ranges ops s c ct Hm H Hc.
  destruct (yi_quota _ _ (yinv_run _ _ _ _ (yinv_new maxp ranges) H) _ _ Hc Hm). assumption.
Qed.

Theorem quota_never_exceeded : forall maxp ranges ops s c ct,
  0 < maxp -> y_run maxp ops (srv_new ranges) = Some s -> aget c (s_ctls s) = Some ct ->
  live_weight ct <= maxp /\ c_used ct <= maxp.
Proof.
  intros maxp ranges ops s c ct Hm H Hc.
  destruct (yi_quota _ _ (yinv_run _ _ _ _ (yinv_new maxp ranges) H) _ _ Hc Hm) as [E L].
  unfold live_weight. fold (lw (c_proxies ct)). lia.
Qed.

(* a proxy name is held by at most one session *)
Theorem name_has_one_owner : forall maxp ranges ops s c1 c2 ct1 ct2 n v1 v2,
  y_run maxp ops (srv_new ranges) = Some s ->
  aget c1 (s_ctls s) = Some ct1 -> aget c2 (s_ctls s) = Some ct2 ->
  sget n (c_proxies ct1) = Some v1 -> sget n (c_proxies ct2) = Some v2 -> c1 = c2.
Proof.
  intros maxp ranges ops s c1 c2 ct1 ct2 n v1 v2 H H1 H2 G1 G2.
  pose proof (yinv_run _ _ _ _ (yinv_new maxp ranges) H) as [A _ _].
  pose proof (A _ _ _ _ H1 G1). pose proof (A _ _ _ _ H2 G2). congruence.
Qed.

(* a refused registration leaves the session's counter and proxy table as they were *)
Theorem refused_registration_keeps_quota : forall maxp s c q s' ct,
  aget c (s_ctls s) = Some ct ->
  (y_register maxp s c q = Some (s', YErrQuota) \/ y_register maxp s c q = Some (s', YErrExists) \/
   exists e, y_register maxp s c q = Some (s', YErrRun e)) ->
  exists ct', aget c (s_ctls s') = Some ct' /\ c_used ct' = c_used ct /\ c_proxies ct' = c_proxies ct /\
              s_names s' = s_names s.
Proof.
  intros maxp s c q s' ct Hc H. unfold y_register in H. rewrite Hc in H.
  destruct ((0 <? maxp) && (maxp <? c_used ct + pweight (xq_kind q))).
  { destruct H as [H|[H|[e H]]]; inversion H; subst. exists ct. auto. }
  destruct (sget (xq_name q) (s_names s)).
  { destruct H as [H|[H|[e H]]]; inversion H; subst. ysimpl. rewrite aget_aset_eq. eexists. split; [reflexivity|].
    ysimpl. destruct (0 <? maxp); repeat split; lia. }
  destruct (px_run (s_rc s) q) as [[r' [id real|e0]]|].
  - destruct H as [H|[H|[e H]]]; inversion H.
  - destruct H as [H|[H|[e H]]]; inversion H; subst. ysimpl. rewrite aget_aset_eq. eexists. split; [reflexivity|].
    ysimpl. destruct (0 <? maxp); repeat split; lia.
  - destruct H as [H|[H|[e H]]]; inversion H.
Qed.

(* over quota means refused, before anything else is looked at *)
Theorem over_quota_refused : forall maxp s c q ct,
  aget c (s_ctls s) = Some ct -> 0 < maxp -> maxp < c_used ct + pweight (xq_kind q) ->
  y_register maxp s c q = Some (s, YErrQuota).
Proof.
  intros maxp s c q ct Hc Hm Hq. unfold y_register. rewrite Hc.
  apply Z.ltb_lt in Hm. apply Z.ltb_lt in Hq. rewrite Hm, Hq. reflexivity.
Qed.

(* ======================= level X: managers + os_bound ======================= *)
Definition acct (proto : Z) (m : pm) (b : list binding) : Prop := forall p, used_by m p <-> In (proto, p) b.

Record XI (A : list Z) (t u : pm) (b : list binding) : Prop := {
  xi_tcp : PInv A t;
  xi_udp : PInv A u;
  xi_nodup : NoDup b;
  xi_acct_tcp : acct 0 t b;
  xi_acct_udp : acct 1 u b
}.
Definition XInv (A : list Z) (r : rcst) : Prop := XI A (rc_tcp r) (rc_udp r) (rc_bound r).

Ltac rsimpl := cbn [rc_tcp rc_udp rc_groups rc_bound rc_squat rc_objs rc_next rc_set_tcp rc_set_udp rc_set_groups
                    rc_set_bound rc_set_squat rc_set_objs rc_set_next mark_closed].
Tactic Notation "rsimpl" "in" hyp(H) :=
  cbn [rc_tcp rc_udp rc_groups rc_bound rc_squat rc_objs rc_next rc_set_tcp rc_set_udp rc_set_groups
       rc_set_bound rc_set_squat rc_set_objs rc_set_next mark_closed] in H.

Lemma bound_ports_In : forall proto p b, In p (bound_ports proto b) <-> In (proto, p) b.
Proof.
  intros proto p b. unfold bound_ports. rewrite in_map_iff. split.
  - intros [[pr q] [E H]]. apply filter_In in H. destruct H as [H1 H2]. unfold b_port, b_proto in *. simpl in *.
    apply Z.eqb_eq in H2. subst. assumption.
  - intros H. exists (proto, p). split; [reflexivity|]. apply filter_In. split; [assumption|].
    unfold b_proto. simpl. apply Z.eqb_refl.
Qed.

Lemma probe_of_true : forall busy p, probe_of busy p = true -> ~ In p busy.
Proof.
  intros busy p H. unfold probe_of in H. apply andb_prop in H. destruct H as [_ H].
  apply negb_true_iff in H. apply zmem_false in H. assumption.
Qed.

Lemma probe_bound : forall r proto p, rc_probe r proto p = true -> ~ In (proto, p) (rc_bound r).
Proof.
  intros r proto p H X. apply probe_of_true in H. apply H. apply in_or_app. left.
  apply bound_ports_In. assumption.
Qed.

Lemma unbind_In : forall pr p x b, In x (unbind pr p b) <-> In x b /\ x <> (pr, p).
Proof.
  intros pr p [xp xq] b. unfold unbind. rewrite filter_In. unfold b_proto, b_port. simpl.
  split; intros [H1 H2]; split; try assumption.
  - intros E. inversion E; subst. rewrite !Z.eqb_refl in H2. discriminate.
  - apply negb_true_iff. apply andb_false_iff.
    destruct (Z.eqb_spec xp pr); [|auto]. destruct (Z.eqb_spec xq p); [|auto]. subst. congruence.
Qed.

Lemma filter_nodup : forall (f : binding -> bool) l, NoDup l -> NoDup (filter f l).
Proof.
  induction l as [|x r IH]; simpl; intros H; [constructor|].
  inversion H as [|? ? Hn Hr]; subst. destruct (f x); [|auto].
  constructor; [|auto]. intros X. apply filter_In in X. tauto.
Qed.

Lemma used_by_take : forall m n rp q, used_by (pm_take m n rp) q <-> q = rp \/ used_by m q.
Proof.
  intros m n rp q. unfold used_by. psimpl. destruct (Z.eq_dec q rp) as [->|N].
  - rewrite uget_uset_eq. split; [auto|discriminate].
  - rewrite uget_uset_neq by assumption. split; [auto|]. intros [E|H]; [congruence|assumption].
Qed.

Lemma used_by_release : forall m p q, used_by (pm_release m p) q <-> used_by m q /\ q <> p.
Proof.
  intros m p q. unfold used_by, pm_release. destruct (uget p (pm_used m)) eqn:E; psimpl.
  - destruct (Z.eq_dec q p) as [->|N].
    + rewrite uget_udel_eq. split; [congruence|tauto].
    + rewrite uget_udel_neq by assumption. tauto.
  - split; [|tauto]. intros H. split; [assumption|]. intros ->. congruence.
Qed.

Lemma acct_take : forall pr m b n rp, acct pr m b -> acct pr (pm_take m n rp) ((pr, rp) :: b).
Proof.
  intros pr m b n rp H q. rewrite used_by_take. simpl. rewrite (H q).
  split; intros [E|X]; auto; [left; congruence|left; congruence].
Qed.

Lemma acct_other_cons : forall pr pr' m b rp, pr' <> pr -> acct pr' m b -> acct pr' m ((pr, rp) :: b).
Proof.
  intros pr pr' m b rp N H q. rewrite (H q). simpl. split; [auto|]. intros [E|X]; [congruence|assumption].
Qed.

Lemma acct_release_unbind : forall pr m b p, acct pr m b -> acct pr (pm_release m p) (unbind pr p b).
Proof.
  intros pr m b p H q. rewrite used_by_release, unbind_In, (H q).
  split; intros [X Y]; split; try assumption; congruence.
Qed.

Lemma acct_other_unbind : forall pr pr' m b p, pr' <> pr -> acct pr' m b -> acct pr' m (unbind pr p b).
Proof.
  intros pr pr' m b p N H q. rewrite unbind_In, (H q). split; [|tauto].
  intros X. split; [assumption|congruence].
Qed.

Lemma acct_take_release : forall pr m b n rp, acct pr m b -> ~ In (pr, rp) b ->
  acct pr (pm_release (pm_take m n rp) rp) b.
Proof.
  intros pr m b n rp H Nb q. rewrite used_by_release, used_by_take, <- (H q).
  split.
  - intros [[E|X] Y]; [congruence|assumption].
  - intros X. split; [auto|]. intros ->. apply Nb. apply H. assumption.
Qed.

(* shape of a successful acquisition: needs no invariant at all *)
Lemma acquire_ok_shape : forall probe ch m n port m' rp,
  pm_acquire probe ch m n port = Some (m', POk rp) -> m' = pm_take m n rp /\ probe rp = true.
Proof.
  intros probe ch m n port m' rp H. unfold pm_acquire in H.
  assert (R : pm_random probe ch m n = Some (m', POk rp) -> m' = pm_take m n rp /\ probe rp = true).
  { unfold pm_random. destruct ch as [k|].
    - destruct (zmem k (pm_free m) && probe k) eqn:E; [|discriminate].
      apply andb_prop in E. destruct E as [_ E2].
      destruct (k =? 0); intros X; inversion X; subst. auto.
    - destruct (pm_noavail_legal probe (pm_free m)); discriminate. }
  destruct (port =? 0).
  - destruct (rget n (pm_res m)) as [rp'|]; [|auto].
    destruct (zmem rp' (pm_free m) && probe rp') eqn:EP; [|auto].
    apply andb_prop in EP. destruct EP as [_ EP]. inversion H; subst. auto.
  - destruct (zmem port (pm_free m)).
    + destruct (probe port) eqn:EP; inversion H; subst. auto.
    + destruct (uget port (pm_used m)); discriminate.
Qed.

Section LevelX.
Variable A : list Z.
Hypothesis no0 : ~ In 0 A.

(* what Run does to one manager and the bindings: nothing; or take + bind *)
Lemma xi_acq_tcp : forall t u b probe ch n port t' res (lok : bool),
  XI A t u b -> (forall p, probe p = true -> ~ In (0, p) b) ->
  pm_acquire probe ch t n port = Some (t', res) ->
  match res with
  | PErr _ => t' = t
  | POk rp => t' = pm_take t n rp /\ XI A t' u ((0, rp) :: b) /\ XI A (pm_release t' rp) u b
  end.
Proof.
  intros t u b probe ch n port t' res lok [Ht Hu Hn Hat Hau] Hp H. destruct res as [rp|e].
  - destruct (acquire_ok_shape _ _ _ _ _ _ _ H) as [-> P]. split; [reflexivity|].
    pose proof (pinv_acquire _ _ _ _ _ _ _ _ Ht H) as Ht'. pose proof (Hp _ P) as Nb. split.
    + constructor; try assumption.
      * constructor; assumption.
      * apply acct_take; assumption.
      * apply acct_other_cons; [lia|assumption].
    + constructor; try assumption.
      * apply pinv_release; assumption.
      * apply acct_take_release; assumption.
  - eapply acquire_error_unchanged_no0; [|eassumption]. eapply pinv_no0; eassumption.
Qed.

Lemma xi_acq_udp : forall t u b probe ch n port u' res (lok : bool),
  XI A t u b -> (forall p, probe p = true -> ~ In (1, p) b) ->
  pm_acquire probe ch u n port = Some (u', res) ->
  match res with
  | PErr _ => u' = u
  | POk rp => u' = pm_take u n rp /\ XI A t u' ((1, rp) :: b) /\ XI A t (pm_release u' rp) b
  end.
Proof.
  intros t u b probe ch n port u' res lok [Ht Hu Hn Hat Hau] Hp H. destruct res as [rp|e].
  - destruct (acquire_ok_shape _ _ _ _ _ _ _ H) as [-> P]. split; [reflexivity|].
    pose proof (pinv_acquire _ _ _ _ _ _ _ _ Hu H) as Hu'. pose proof (Hp _ P) as Nb. split.
    + constructor; try assumption.
      * constructor; assumption.
      * apply acct_other_cons; [lia|assumption].
      * apply acct_take; assumption.
    + constructor; try assumption.
      * apply pinv_release; assumption.
      * apply acct_take_release; assumption.
  - eapply acquire_error_unchanged_no0; [|eassumption]. eapply pinv_no0; eassumption.
Qed.

Lemma xi_close_tcp : forall t u b p, XI A t u b -> XI A (pm_release t p) u (unbind 0 p b).
Proof.
  intros t u b p [Ht Hu Hn Hat Hau]. constructor; try assumption.
  - apply pinv_release; assumption.
  - apply filter_nodup; assumption.
  - apply acct_release_unbind; assumption.
  - apply acct_other_unbind; [lia|assumption].
Qed.

Lemma xi_close_udp : forall t u b p, XI A t u b -> XI A t (pm_release u p) (unbind 1 p b).
Proof.
  intros t u b p [Ht Hu Hn Hat Hau]. constructor; try assumption.
  - apply pinv_release; assumption.
  - apply filter_nodup; assumption.
  - apply acct_other_unbind; [lia|assumption].
  - apply acct_release_unbind; assumption.
Qed.

Lemma xinv_run : forall r q r' res, XInv A r -> px_run r q = Some (r', res) -> XInv A r'.
Proof.
  intros r q r' res HI H. unfold XInv in *. unfold px_run in H. destruct (xq_kind q).
  - destruct (String.eqb (xq_group q) "").
    + unfold tcp_run in H.
      destruct (pm_acquire (rc_probe r 0) (xq_choice q) (rc_tcp r) (xq_name q) (xq_port q)) as [[t' [rp|e]]|] eqn:E;
        [| |discriminate].
      * destruct (xi_acq_tcp _ _ _ _ _ _ _ _ _ true HI (probe_bound r 0) E) as (-> & X1 & X2).
        destruct (xq_lok q); inversion H; subst; rsimpl; assumption.
      * pose proof (xi_acq_tcp _ _ _ _ _ _ _ _ _ true HI (probe_bound r 0) E) as ->.
        inversion H; subst; rsimpl; assumption.
    + unfold group_listen in H.
      destruct (sget (xq_group q) (rc_groups r)) as [tg|].
      * destruct (tg_lns tg).
        -- destruct (pm_acquire (rc_probe r 0) (xq_choice q) (rc_tcp r) (xq_name q) (xq_port q)) as [[t' [rp|e]]|] eqn:E;
             [| |discriminate].
           ++ destruct (xi_acq_tcp _ _ _ _ _ _ _ _ _ true HI (probe_bound r 0) E) as (-> & X1 & X2).
              destruct (xq_lok q); inversion H; subst; rsimpl; assumption.
           ++ pose proof (xi_acq_tcp _ _ _ _ _ _ _ _ _ true HI (probe_bound r 0) E) as ->.
              inversion H; subst; rsimpl; assumption.
        -- repeat match type of H with
                  | context [if ?c then _ else _] => destruct c
                  end; inversion H; subst; rsimpl; assumption.
      * cbn [tg_lns empty_grp] in H.
        assert (P : rc_probe (rc_set_groups (sset (xq_group q) empty_grp (rc_groups r)) r) 0 = rc_probe r 0) by reflexivity.
        rewrite P in H. rsimpl in H.
        destruct (pm_acquire (rc_probe r 0) (xq_choice q) (rc_tcp r) (xq_name q) (xq_port q)) as [[t' [rp|e]]|] eqn:E;
          [| |discriminate].
        -- destruct (xi_acq_tcp _ _ _ _ _ _ _ _ _ true HI (probe_bound r 0) E) as (-> & X1 & X2).
           destruct (xq_lok q); inversion H; subst; rsimpl; assumption.
        -- pose proof (xi_acq_tcp _ _ _ _ _ _ _ _ _ true HI (probe_bound r 0) E) as ->.
           inversion H; subst; rsimpl; assumption.
  - unfold udp_run in H.
    destruct (pm_acquire (rc_probe r 1) (xq_choice q) (rc_udp r) (xq_name q) (xq_port q)) as [[u' [rp|e]]|] eqn:E;
      [| |discriminate].
    + destruct (xi_acq_udp _ _ _ _ _ _ _ _ _ true HI (probe_bound r 1) E) as (-> & X1 & X2).
      destruct (xq_lok q); inversion H; subst; rsimpl; assumption.
    + pose proof (xi_acq_udp _ _ _ _ _ _ _ _ _ true HI (probe_bound r 1) E) as ->.
      inversion H; subst; rsimpl; assumption.
  - unfold other_run in H. inversion H; subst; rsimpl; assumption.
Qed.

Lemma xinv_close : forall r id r', XInv A r -> px_close r id = Some r' -> XInv A r'.
Proof.
  intros r id r' HI H. unfold XInv in *. unfold px_close in H.
  destruct (aget id (rc_objs r)) as [o|]; [|discriminate].
  destruct (po_kind o).
  - destruct (po_closed o); [discriminate|]. destruct (String.eqb (po_group o) "").
    + inversion H; subst; rsimpl. apply xi_close_tcp; assumption.
    + destruct (close_group_listener r (po_group o) id) as [r1|] eqn:E; [|discriminate].
      inversion H; subst; rsimpl. unfold close_group_listener in E.
      destruct (sget (po_group o) (rc_groups r)) as [tg|]; [|discriminate].
      destruct (negb (zmem id (tg_lns tg))); [discriminate|].
      destruct (zrem id (tg_lns tg)); inversion E; subst; rsimpl; [apply xi_close_tcp|]; assumption.
  - destruct (po_closed o); inversion H; subst; rsimpl; [assumption|]. apply xi_close_udp; assumption.
  - destruct (po_closed o); inversion H; subst; rsimpl; assumption.
Qed.

Lemma xinv_step : forall r o r' out, XInv A r -> x_step r o = Some (r', out) -> XInv A r'.
Proof.
  intros r o r' out HI H. destruct o as [q|id|proto port|proto port]; cbn [x_step] in H.
  - destruct (px_run r q) as [[r1 res]|] eqn:E; [|discriminate]. inversion H; subst. eapply xinv_run; eauto.
  - destruct (px_close r id) as [r1|] eqn:E; [|discriminate]. inversion H; subst. eapply xinv_close; eauto.
  - destruct ((1 <=? port) && rc_probe r proto port); inversion H; subst. unfold XInv. rsimpl. assumption.
  - inversion H; subst. unfold XInv. rsimpl. assumption.
Qed.

Lemma xinv_new : forall ranges, A = pm_allowed ranges -> XInv A (rc_new ranges).
Proof.
  intros ranges ->. unfold XInv, rc_new. rsimpl. constructor; try apply pinv_new; try constructor.
  - unfold used_by. simpl. congruence.
  - intros [].
  - unfold used_by. simpl. congruence.
  - intros [].
Qed.

Lemma close_all_xinv : forall l r names r' names',
  XInv A r -> close_all r names l = Some (r', names') -> XInv A r'.
Proof.
  induction l as [|[n [id k]] t IH]; simpl; intros r names r' names' HI H; [inversion H; subst; assumption|].
  destruct (px_close r id) as [r1|] eqn:E; [|discriminate].
  eapply IH; [|eassumption]. eapply xinv_close; eauto.
Qed.

Lemma xinv_ystep : forall maxp s o s' out, XInv A (s_rc s) -> y_step maxp s o = Some (s', out) -> XInv A (s_rc s').
Proof.
  intros maxp s o s' out HI H. destruct o as [c|c q|c n|c|id|proto port|proto port]; cbn [y_step] in H.
  - destruct (aget c (s_ctls s)); inversion H; subst. assumption.
  - destruct (y_register maxp s c q) as [[s1 r]|] eqn:E; [|discriminate]. inversion H; subst.
    unfold y_register in E. destruct (aget c (s_ctls s)) as [ct|]; [|discriminate].
    destruct ((0 <? maxp) && (maxp <? c_used ct + pweight (xq_kind q))); [inversion E; subst; assumption|].
    destruct (sget (xq_name q) (s_names s)); [inversion E; subst; assumption|].
    destruct (px_run (s_rc s) q) as [[r' [id real|e]]|] eqn:ER; [| |discriminate];
      inversion E; subst; cbn [s_rc]; eapply xinv_run; eauto.
  - destruct (y_close maxp s c n) as [s1|] eqn:E; [|discriminate]. inversion H; subst.
    unfold y_close in E. destruct (aget c (s_ctls s)) as [ct|]; [|discriminate].
    destruct (sget n (c_proxies ct)) as [[id k]|]; [|inversion E; subst; assumption].
    destruct (px_close (s_rc s) id) as [r'|] eqn:EC; [|discriminate]. inversion E; subst. cbn [s_rc].
    eapply xinv_close; eauto.
  - destruct (y_end s c) as [s1|] eqn:E; [|discriminate]. inversion H; subst.
    unfold y_end in E. destruct (aget c (s_ctls s)) as [ct|]; [|discriminate].
    destruct (close_all (s_rc s) (s_names s) (c_proxies ct)) as [[r' names']|] eqn:EC; [|discriminate].
    inversion E; subst. cbn [s_rc]. eapply close_all_xinv; eauto.
  - destruct (aget id (rc_objs (s_rc s))) as [o|]; [|discriminate].
    destruct (po_kind o); try discriminate.
    destruct (px_close (s_rc s) id) as [r'|] eqn:EC; [|discriminate]. inversion H; subst. cbn [s_rc].
    eapply xinv_close; eauto.
  - destruct (x_step (s_rc s) (XSquat proto port)) as [[r' o]|] eqn:E; [|discriminate]. inversion H; subst.
    cbn [s_rc]. eapply xinv_step; eauto.
  - destruct (x_step (s_rc s) (XUnsquat proto port)) as [[r' o]|] eqn:E; [|discriminate]. inversion H; subst.
    cbn [s_rc]. eapply xinv_step; eauto.
Qed.

Lemma xinv_yrun : forall maxp ops s s', XInv A (s_rc s) -> y_run maxp ops s = Some s' -> XInv A (s_rc s').
Proof.
  induction ops as [|o t IH]; simpl; intros s s' HI H; [inversion H; subst; assumption|].
  destruct (y_step maxp s o) as [[s1 out]|] eqn:E; [|discriminate].
  eapply IH; [|eassumption]. eapply xinv_ystep; eauto.
Qed.
End LevelX.

(* ---------- the statements used by Properties/C09.v ---------- *)
Lemma xinv_reach : forall maxp ranges ops s,
  y_run maxp ops (srv_new ranges) = Some s -> XInv (pm_allowed ranges) (s_rc s).
Proof.
  intros maxp ranges ops s H. pose proof (allowed_no0 ranges) as N0. eapply xinv_yrun; [exact N0| |exact H].
  apply xinv_new; auto.
Qed.

(* all histories of the layered model: what is bound is allowed, no (protocol, port) is bound twice,
   each manager's used table is exactly the set of ports bound for its protocol, and therefore the OS
   probe fails on every used port *)
Theorem layered_accounting : forall maxp ranges ops s,
  y_run maxp ops (srv_new ranges) = Some s ->
  let r := s_rc s in
  (forall p, In (0, p) (rc_bound r) \/ In (1, p) (rc_bound r) -> In p (pm_allowed ranges)) /\
  NoDup (rc_bound r) /\
  (forall p, used_by (rc_tcp r) p <-> In (0, p) (rc_bound r)) /\
  (forall p, used_by (rc_udp r) p <-> In (1, p) (rc_bound r)) /\
  (forall p, used_by (rc_tcp r) p -> rc_probe r 0 p = false) /\
  (forall p, used_by (rc_udp r) p -> rc_probe r 1 p = false).
Proof.
  intros maxp ranges ops s H r.
  pose proof (xinv_reach _ _ _ _ H) as [Ht Hu Hn Hat Hau]. fold r in Ht, Hu, Hn, Hat, Hau.
  assert (P : forall pr p, In (pr, p) (rc_bound r) -> rc_probe r pr p = false).
  { intros pr p X. unfold rc_probe, probe_of.
    assert (Z : zmem p (bound_ports pr (rc_bound r) ++ squat_ports pr (rc_squat r)) = true).
    { apply zmem_In. apply in_or_app. left. apply bound_ports_In. assumption. }
    rewrite Z. apply andb_false_r. }
  split; [|split; [exact Hn|split; [exact Hat|split; [exact Hau|split]]]].
  - intros p [X|X].
    + apply (pi_cover _ _ Ht). right. apply Hat. assumption.
    + apply (pi_cover _ _ Hu). right. apply Hau. assumption.
  - intros p X. apply P. apply Hat. assumption.
  - intros p X. apply P. apply Hau. assumption.
Qed.

Lemma run_err_bound : forall r q r' e, px_run r q = Some (r', XErr e) -> rc_bound r' = rc_bound r.
Proof.
  intros r q r' e H. unfold px_run in H. destruct (xq_kind q).
  - destruct (String.eqb (xq_group q) "").
    + unfold tcp_run in H.
      repeat match type of H with
             | context [match ?c with _ => _ end] => destruct c
             end; inversion H; subst; reflexivity.
    + unfold group_listen in H. destruct (sget (xq_group q) (rc_groups r)) as [tg|].
      * repeat match type of H with
               | context [match ?c with _ => _ end] => destruct c
               end; inversion H; subst; reflexivity.
      * cbn [tg_lns empty_grp] in H.
        repeat match type of H with
               | context [match ?c with _ => _ end] => destruct c
               end; inversion H; subst; reflexivity.
  - unfold udp_run in H.
    repeat match type of H with
           | context [match ?c with _ => _ end] => destruct c
           end; inversion H; subst; reflexivity.
  - unfold other_run in H. inversion H.
Qed.

Lemma same_bound_same_tables : forall A r r',
  XInv A r -> XInv A r' -> rc_bound r' = rc_bound r ->
  (forall p, used_by (rc_tcp r') p <-> used_by (rc_tcp r) p) /\
  (forall p, In p (pm_free (rc_tcp r')) <-> In p (pm_free (rc_tcp r))) /\
  (forall p, used_by (rc_udp r') p <-> used_by (rc_udp r) p) /\
  (forall p, In p (pm_free (rc_udp r')) <-> In p (pm_free (rc_udp r))).
Proof.
  intros A r r' [Ht Hu Hn Hat Hau] [Ht' Hu' Hn' Hat' Hau'] E. rewrite E in *.
  assert (F : forall m m', PInv A m -> PInv A m' -> (forall p, used_by m' p <-> used_by m p) ->
                            forall p, In p (pm_free m') <-> In p (pm_free m)).
  { intros m m' I I' U p.
    pose proof (pi_cover _ _ I p) as C. pose proof (pi_cover _ _ I' p) as C'.
    pose proof (pi_disj _ _ I p) as D. pose proof (pi_disj _ _ I' p) as D'.
    pose proof (U p) as Up. unfold used_by in *. split; intros X.
    - assert (In p A) by tauto. specialize (D' X). destruct C as [C _]. destruct (C H) as [|Y]; [assumption|].
      exfalso. apply Up in Y. congruence.
    - assert (In p A) by tauto. specialize (D X). destruct C' as [C' _]. destruct (C' H) as [|Y]; [assumption|].
      exfalso. apply Up in Y. congruence. }
  assert (Ut : forall p, used_by (rc_tcp r') p <-> used_by (rc_tcp r) p) by (intros p; rewrite (Hat p), (Hat' p); tauto).
  assert (Uu : forall p, used_by (rc_udp r') p <-> used_by (rc_udp r) p) by (intros p; rewrite (Hau p), (Hau' p); tauto).
  repeat split; try apply Ut; try apply Uu; try (apply (F _ _ Ht Ht' Ut)); try (apply (F _ _ Hu Hu' Uu)).
Qed.

(* a Run that fails — refused by the manager, refused by the group, or a failing listen after a
   successful acquisition — leaves the bindings, both used tables and both free sets as they were *)
Theorem failed_registration_returns_ports : forall ranges r q r' e,
  XInv (pm_allowed ranges) r -> px_run r q = Some (r', XErr e) ->
  rc_bound r' = rc_bound r /\
  (forall p, used_by (rc_tcp r') p <-> used_by (rc_tcp r) p) /\
  (forall p, In p (pm_free (rc_tcp r')) <-> In p (pm_free (rc_tcp r))) /\
  (forall p, used_by (rc_udp r') p <-> used_by (rc_udp r) p) /\
  (forall p, In p (pm_free (rc_udp r')) <-> In p (pm_free (rc_udp r))).
Proof.
  intros ranges r q r' e HI H. pose proof (run_err_bound _ _ _ _ H) as E.
  split; [assumption|]. eapply same_bound_same_tables; eauto. eapply xinv_run; eauto. apply allowed_no0.
Qed.

(* the port a successful Run reports is a port this server listens on: for plain tcp, udp and the first
   member of a group it has just been bound; a later member of a group is told the group's port *)
Theorem reported_addr_is_bound_addr : forall r q r' id real,
  px_run r q = Some (r', XOk id real) ->
  match xq_kind q with
  | KUdp => In (1, real) (rc_bound r')
  | KTcp => In (0, real) (rc_bound r') \/
            exists tg, sget (xq_group q) (rc_groups r) = Some tg /\ tg_lns tg <> [] /\ real = tg_real tg
  | KOther => True
  end.
Proof.
  intros r q r' id real H. unfold px_run in H. destruct (xq_kind q); [| |exact I].
  - destruct (String.eqb (xq_group q) "").
    + left. unfold tcp_run in H.
      repeat match type of H with
             | context [match ?c with _ => _ end] => destruct c
             end; inversion H; subst; rsimpl; left; reflexivity.
    + unfold group_listen in H. destruct (sget (xq_group q) (rc_groups r)) as [tg|].
      * destruct (tg_lns tg) eqn:EL.
        -- left. repeat match type of H with
                        | context [match ?c with _ => _ end] => destruct c
                        end; inversion H; subst; rsimpl; left; reflexivity.
        -- right. exists tg. repeat match type of H with
                                    | context [if ?c then _ else _] => destruct c
                                    end; inversion H; subst. repeat split; congruence.
      * left. cbn [tg_lns empty_grp] in H.
        repeat match type of H with
               | context [match ?c with _ => _ end] => destruct c
               end; inversion H; subst; rsimpl; left; reflexivity.
  - unfold udp_run in H.
    repeat match type of H with
           | context [match ?c with _ => _ end] => destruct c
           end; inversion H; subst; rsimpl; left; reflexivity.
Qed.

(* closing gives the port back: after Close of a live plain tcp / udp proxy its port is free again *)
Theorem closed_port_is_free : forall A r id o r',
  XInv A r -> aget id (rc_objs r) = Some o -> po_closed o = false -> px_close r id = Some r' ->
  match po_kind o with
  | KTcp => po_group o = ""%string -> used_by (rc_tcp r) (po_real o) ->
            In (po_real o) (pm_free (rc_tcp r')) /\ ~ In (0, po_real o) (rc_bound r')
  | KUdp => used_by (rc_udp r) (po_real o) ->
            In (po_real o) (pm_free (rc_udp r')) /\ ~ In (1, po_real o) (rc_bound r')
  | KOther => True
  end.
Proof.
  intros A r id o r' [Ht Hu Hn Hat Hau] Ho Hc H. unfold px_close in H. rewrite Ho, Hc in H.
  destruct (po_kind o); [| |exact I].
  - intros Eg U. rewrite Eg in H. simpl in H. inversion H; subst; rsimpl. split.
    + destruct (release_frees A _ _ Ht U) as [F _]. exact F.
    + rewrite unbind_In. intros [_ X]. congruence.
  - intros U. inversion H; subst; rsimpl. split.
    + destruct (release_frees A _ _ Hu U) as [F _]. exact F.
    + rewrite unbind_In. intros [_ X]. congruence.
Qed.

(* a registration refused because the name exists or the quota is reached runs nothing: managers (incl.
   every name's remembered port), bindings, groups, proxy objects are untouched — the owner of the name is
   not disturbed *)
Theorem refused_duplicate_disturbs_nothing : forall maxp s c q s',
  (y_register maxp s c q = Some (s', YErrExists) \/ y_register maxp s c q = Some (s', YErrQuota)) ->
  s_rc s' = s_rc s /\ s_names s' = s_names s.
Proof.
  intros maxp s c q s' H. unfold y_register in H.
  destruct (aget c (s_ctls s)) as [ct|]; [|destruct H; discriminate].
  destruct ((0 <? maxp) && (maxp <? c_used ct + pweight (xq_kind q))).
  { destruct H as [H|H]; inversion H; subst; auto. }
  destruct (sget (xq_name q) (s_names s)).
  { destruct H as [H|H]; inversion H; subst; auto. }
  destruct (px_run (s_rc s) q) as [[r' [id real|e0]]|]; destruct H as [H|H]; inversion H.
Qed.

(* the server-chosen port of a name survives refused duplicates: history form at session level *)
Theorem duplicate_then_same_port_back : forall maxp s c q s1,
  y_register maxp s c q = Some (s1, YErrExists) ->
  forall n, rget n (pm_res (rc_tcp (s_rc s1))) = rget n (pm_res (rc_tcp (s_rc s))) /\
            rget n (pm_res (rc_udp (s_rc s1))) = rget n (pm_res (rc_udp (s_rc s))).
Proof.
  intros maxp s c q s1 H n. destruct (refused_duplicate_disturbs_nothing maxp s c q s1 (or_introl H)) as [E _].
  rewrite E. auto.
Qed.

(* distinct public ports a session holds (through plain, udp or grouped proxies) never exceed the weight
   charged to it: every tcp and udp proxy, grouped or not, weighs one *)
Fixpoint held_ports (objs : list (Z * pobj)) (l : list (pname * (Z * pkind))) : list Z :=
  match l with
  | [] => []
  | (_, (id, k)) :: t =>
      match k, aget id objs with
      | KOther, _ => held_ports objs t
      | _, Some o => zadd (po_real o) (held_ports objs t)
      | _, None => held_ports objs t
      end
  end.

Lemma zadd_length : forall x l, (length (zadd x l) <= S (length l))%nat.
Proof. intros. unfold zadd. destruct (zmem x l); simpl; lia. Qed.

Lemma held_le_weight : forall objs l, Z.of_nat (length (held_ports objs l)) <= lw l.
Proof.
  induction l as [|[n [id k]] t IH]; [simpl; lia|].
  change (lw ((n, (id, k)) :: t)) with (pweight k + lw t).
  cbn [held_ports]. destruct k; cbn [pweight].
  - destruct (aget id objs) as [o|]; [|lia].
    pose proof (zadd_length (po_real o) (held_ports objs t)). lia.
  - destruct (aget id objs) as [o|]; [|lia].
    pose proof (zadd_length (po_real o) (held_ports objs t)). lia.
  - lia.
Qed.

Theorem ports_held_within_quota : forall maxp ranges ops s c ct,
  0 < maxp -> y_run maxp ops (srv_new ranges) = Some s -> aget c (s_ctls s) = Some ct ->
  Z.of_nat (length (held_ports (rc_objs (s_rc s)) (c_proxies ct))) <= maxp.
Proof.
  intros maxp ranges ops s c ct Hm H Hc.
  destruct (yi_quota _ _ (yinv_run _ _ _ _ (yinv_new maxp ranges) H) _ _ Hc Hm) as [E L].
  pose proof (held_le_weight (rc_objs (s_rc s)) (c_proxies ct)). lia.
Qed.

(* a grouped tcp proxy is charged like any other tcp proxy *)
Theorem grouped_proxy_weighs_one : forall q, xq_kind q = KTcp -> pweight (xq_kind q) = 1.
Proof. intros q ->. reflexivity. Qed.
