package main

// Driver "pool": an in-process frps per worker, a scripted client per scenario.  The driver performs
// one action at a time, waits for quiescence, and records (a) the schedule of model threads that
// corresponds to what it made the implementation do and (b) what it observed: ReqWorkConn
// received so far, len(workConnCh), StartWorkConn contents, the fate of every socket.

import (
	"bytes"
	"encoding/json"
	"fmt"
	"io"
	"net"
	"net/http"
	"os"
	"sort"
	"strings"
	"sync"
	"sync/atomic"
	"time"

	v1 "github.com/fatedier/frp/pkg/config/v1"
	"github.com/fatedier/frp/pkg/msg"
	"github.com/fatedier/frp/pkg/util/verifhook"
	"github.com/fatedier/frp/server"
	"verifharness/hx"
)

func init() { drivers["pool"] = runPool }

const (
	runAll      = 64 // model steps that mean "until the thread blocks or ends"
	settleStep  = 25 * time.Millisecond
	userTimeout = 1 // seconds; server config userConnTimeout
)

// ---- the stub server plugin that holds NewWorkConn between session lookup and the pool send ----

type pluginGate struct {
	mu      sync.Mutex
	armed   map[string]chan struct{} // run id -> release
	reached map[string]chan struct{}
	ln      net.Listener
}

func startPluginGate(addr string) (*pluginGate, error) {
	ln, err := net.Listen("tcp", net.JoinHostPort(addr, "0"))
	if err != nil {
		return nil, err
	}
	g := &pluginGate{armed: map[string]chan struct{}{}, reached: map[string]chan struct{}{}, ln: ln}
	mux := http.NewServeMux()
	mux.HandleFunc("/h", func(w http.ResponseWriter, r *http.Request) {
		var req struct {
			Content struct {
				User struct {
					RunID string `json:"run_id"`
				} `json:"user"`
			} `json:"content"`
		}
		b, _ := io.ReadAll(r.Body)
		_ = json.Unmarshal(b, &req)
		g.mu.Lock()
		rel := g.armed[req.Content.User.RunID]
		rch := g.reached[req.Content.User.RunID]
		delete(g.armed, req.Content.User.RunID)
		delete(g.reached, req.Content.User.RunID)
		g.mu.Unlock()
		if rel != nil {
			close(rch)
			<-rel
		}
		w.Header().Set("Content-Type", "application/json")
		_, _ = w.Write([]byte(`{"reject":false,"unchange":true}`))
	})
	go http.Serve(ln, mux)
	return g, nil
}

func (g *pluginGate) url() string { return "http://" + g.ln.Addr().String() }

// arm makes the next NewWorkConn of runID block in the plugin call; returns (reached, release).
func (g *pluginGate) arm(runID string) (chan struct{}, chan struct{}) {
	rel, rch := make(chan struct{}), make(chan struct{})
	g.mu.Lock()
	g.armed[runID], g.reached[runID] = rel, rch
	g.mu.Unlock()
	return rch, rel
}

// ---- verifhook gates (present only when /repo carries the gate lines) ----

type hookGate struct {
	mu      sync.Mutex
	armed   map[string]chan struct{} // point|key -> release
	reached map[string]chan struct{}
}

var hooks = &hookGate{armed: map[string]chan struct{}{}, reached: map[string]chan struct{}{}}

func (h *hookGate) install() {
	verifhook.Install(func(point, key string) {
		k := point + "|" + key
		h.mu.Lock()
		rel, rch := h.armed[k], h.reached[k]
		delete(h.armed, k)
		delete(h.reached, k)
		h.mu.Unlock()
		if rel != nil {
			close(rch)
			<-rel
		}
	})
}

func (h *hookGate) arm(point, key string) (chan struct{}, chan struct{}) {
	rel, rch := make(chan struct{}), make(chan struct{})
	h.mu.Lock()
	h.armed[point+"|"+key], h.reached[point+"|"+key] = rel, rch
	h.mu.Unlock()
	return rch, rel
}

func (h *hookGate) disarm(point, key string) {
	h.mu.Lock()
	delete(h.armed, point+"|"+key)
	delete(h.reached, point+"|"+key)
	h.mu.Unlock()
}

// ---- sockets ----

type sock struct {
	c      net.Conn
	mu     sync.Mutex
	rx     []byte
	closed bool
	closedAt time.Time
	start  *msg.StartWorkConn // work sockets: the StartWorkConn read first
	evt    chan struct{}      // closed when the first event (start / close) has happened
}

// readLoop: for a work socket first reads one StartWorkConn frame, then raw bytes.
func (s *sock) readLoop(work bool) {
	first := true
	sig := func() {
		if first {
			first = false
			close(s.evt)
		}
	}
	if work {
		var sw msg.StartWorkConn
		if err := msg.ReadMsgInto(s.c, &sw); err != nil {
			s.mu.Lock()
			s.closed = true
			s.mu.Unlock()
			sig()
			return
		}
		s.mu.Lock()
		s.start = &sw
		s.mu.Unlock()
		sig()
	}
	buf := make([]byte, 4096)
	for {
		n, err := s.c.Read(buf)
		s.mu.Lock()
		s.rx = append(s.rx, buf[:n]...)
		if err != nil {
			s.closed = true
			s.closedAt = time.Now()
		}
		s.mu.Unlock()
		if err != nil {
			sig()
			return
		}
	}
}

func (s *sock) isClosed() bool {
	s.mu.Lock()
	defer s.mu.Unlock()
	return s.closed
}

func (s *sock) started() *msg.StartWorkConn {
	s.mu.Lock()
	defer s.mu.Unlock()
	return s.start
}

func (s *sock) has(tok []byte) bool {
	s.mu.Lock()
	defer s.mu.Unlock()
	return bytes.Contains(s.rx, tok)
}

func waitFor(d time.Duration, f func() bool) bool {
	dl := time.Now().Add(d)
	for {
		if f() {
			return true
		}
		if time.Now().After(dl) {
			return false
		}
		time.Sleep(2 * time.Millisecond)
	}
}

// ---- one scenario ----

type userRec struct {
	tid     int
	s       *sock
	proxy   string
	srcIP   string
	srcPort int
	since   time.Time
	waiting bool
	bridged int // conn tid or -1
	closedAfter time.Duration
}

type workRec struct {
	tid    int
	s      *sock
	dead   bool
	user   int // user tid it was delivered to, or -1
	bytesOK bool
}

type scen struct {
	g      *hx.Gen
	w      *worker
	cpc    int
	peer   *hx.Peer
	ctl    *server.Control
	runID  string
	reqCnt atomic.Int64
	ports  map[string]int

	names  []string
	flows  []string // (user, conn): the user's payload was seen on that work socket
	wfailFrom int // control-connection writes fail from this dequeued message on; -1 never
	reqs   []string
	phases []string
	works  []*workRec
	users  []*userRec
	torn   bool
	fails  []map[string]any
	ops    []string
	maxWait time.Duration
}

type worker struct {
	idx  int
	addr string
	smax int
	srv  *hx.Server
	pg   *pluginGate
}

func (sc *scen) addThread(term string) int {
	sc.reqs = append(sc.reqs, term)
	return len(sc.reqs) - 1
}

func (sc *scen) fail(key, what string) {
	sc.fails = append(sc.fails, map[string]any{"key": key, "what": what, "case": strings.Join(sc.ops, " ")})
}

// steps renders a phase schedule; thread 0 is always the session's send loop, which gets its turn at the
// end of every phase (the checkpoint waits until the control messages have arrived).
func steps(pairs ...int) string {
	var it []string
	for i := 0; i+1 < len(pairs); i += 2 {
		it = append(it, fmt.Sprintf("(%d, %d)", pairs[i], pairs[i+1]))
	}
	it = append(it, fmt.Sprintf("(0, %d)", 2*runAll))
	return hx.List(it)
}

// checkpoint waits until the observables are stable and records a phase.
func (sc *scen) checkpoint(sched string) {
	var r, l int64 = -2, -2
	stable := 0
	for i := 0; i < 24 && stable < 2; i++ {
		time.Sleep(settleStep)
		r2, l2 := sc.reqCnt.Load(), int64(sc.ctl.VerifC11PoolLen())
		if r2 == r && l2 == l {
			stable++
		} else {
			stable = 0
		}
		r, l = r2, l2
	}
	if sc.torn {
		r = -1
	}
	sc.phases = append(sc.phases, fmt.Sprintf("(%s, %s, %s)", sched, hx.Z(r), hx.Z(l)))
}

func (sc *scen) waiters() []*userRec {
	var ws []*userRec
	for _, u := range sc.users {
		if u.waiting {
			ws = append(ws, u)
		}
	}
	return ws
}

func (sc *scen) userBySrc(sw *msg.StartWorkConn) *userRec {
	for _, u := range sc.users {
		if int(sw.SrcPort) == u.srcPort {
			return u
		}
	}
	return nil
}

// bridge checks that bytes flow both ways between exactly this user socket and this work socket.
func (sc *scen) bridge(u *userRec, wk *workRec) {
	t1, t2 := sc.g.Bytes(8), sc.g.Bytes(8)
	_, _ = u.s.c.Write(t1)
	ok := waitFor(time.Second, func() bool { return wk.s.has(t1) })
	_, _ = wk.s.c.Write(t2)
	ok = ok && waitFor(time.Second, func() bool { return u.s.has(t2) })
	for _, o := range sc.works {
		if o.s.has(t1) {
			sc.flows = append(sc.flows, fmt.Sprintf("(%d, %d)", u.tid, o.tid))
		}
		if o != wk && (o.s.has(t1) || o.s.has(t2)) {
			ok = false
		}
	}
	for _, o := range sc.users {
		if o != u && (o.s.has(t1) || o.s.has(t2)) {
			ok = false
		}
	}
	wk.bytesOK = ok
	if !ok {
		sc.fail("bridge-bytes", fmt.Sprintf("bytes did not flow both ways between exactly user %d and work conn %d", u.tid, wk.tid))
	}
}

// afterStart is called when a StartWorkConn has been read on wk.
func (sc *scen) afterStart(wk *workRec) *userRec {
	sw := wk.s.started()
	u := sc.userBySrc(sw)
	if u == nil {
		sc.fail("start-unknown-user", fmt.Sprintf("StartWorkConn on conn %d names %s:%d which is no user socket of this case", wk.tid, sw.SrcAddr, sw.SrcPort))
		return nil
	}
	wk.user, u.bridged, u.waiting = u.tid, wk.tid, false
	if want := sc.ports[u.proxy]; int(sw.DstPort) != want {
		sc.fail("start-dst", fmt.Sprintf("StartWorkConn dst port %d, the user connected to %d", sw.DstPort, want))
	}
	sc.bridge(u, wk)
	return u
}

// offer dials a work connection; armed != nil: the caller handles the waiting.
func (sc *scen) offerRaw() *workRec {
	tid := sc.addThread("RWork")
	wk := &workRec{tid: tid, user: -1}
	sc.works = append(sc.works, wk)
	c, err := sc.w.srv.OfferWorkConn(sc.runID, hx.DefaultToken, true)
	if err != nil {
		sc.fail("offer-dial", err.Error())
		wk.s = &sock{closed: true, evt: make(chan struct{})}
		return wk
	}
	wk.s = &sock{c: c, evt: make(chan struct{})}
	go wk.s.readLoop(true)
	return wk
}

func (sc *scen) opWork() {
	before := sc.ctl.VerifC11PoolLen()
	wk := sc.offerRaw()
	sc.ops = append(sc.ops, fmt.Sprintf("work%d", wk.tid))
	// outcome: pooled, closed, or taken at once by a waiting user
	waitFor(600*time.Millisecond, func() bool {
		return wk.s.isClosed() || wk.s.started() != nil || (!sc.torn && sc.ctl.VerifC11PoolLen() == before+1)
	})
	sched := []int{wk.tid, runAll}
	if len(sc.waiters()) > 0 {
		waitFor(300*time.Millisecond, func() bool { return wk.s.isClosed() || wk.s.started() != nil })
	}
	if wk.s.started() != nil {
		if u := sc.afterStart(wk); u != nil {
			sched = append(sched, u.tid, runAll)
		}
	}
	sc.checkpoint(steps(sched...))
}

func (sc *scen) opUser() {
	proxy := sc.names[sc.g.Intn(2)]
	idx := len(sc.users)
	ip := fmt.Sprintf("127.0.11.%d", 100+(sc.w.idx*7+idx)%100)
	d := net.Dialer{LocalAddr: &net.TCPAddr{IP: net.ParseIP(ip)}, Timeout: 2 * time.Second}
	c, err := d.Dial("tcp", net.JoinHostPort(sc.w.addr, fmt.Sprint(sc.ports[proxy])))
	if err != nil {
		sc.fail("user-dial", err.Error())
		return
	}
	la := c.LocalAddr().(*net.TCPAddr)
	tid := sc.addThread(fmt.Sprintf("RUser %s %s %d false", hx.HxS(proxy), hx.HxS(la.IP.String()), la.Port))
	u := &userRec{tid: tid, s: &sock{c: c, evt: make(chan struct{})}, proxy: proxy, srcIP: la.IP.String(), srcPort: la.Port,
		since: time.Now(), bridged: -1}
	sc.users = append(sc.users, u)
	sc.ops = append(sc.ops, fmt.Sprintf("user%d@%s", tid, proxy))
	go u.s.readLoop(false)
	// served from the pool (some idle conn reads a StartWorkConn naming this user), closed, or left waiting
	var got *workRec
	waitFor(250*time.Millisecond, func() bool {
		for _, wk := range sc.works {
			if wk.user < 0 && !wk.dead {
				if sw := wk.s.started(); sw != nil && int(sw.SrcPort) == u.srcPort {
					got = wk
					return true
				}
			}
		}
		return u.s.isClosed()
	})
	if got != nil {
		sc.afterStart(got)
	} else if !u.s.isClosed() {
		u.waiting = true
	}
	sc.checkpoint(steps(tid, runAll))
}

// opKill resets a pooled, idle connection from the client side.
func (sc *scen) opKill() bool {
	var idle []*workRec
	for _, wk := range sc.works {
		if !wk.dead && wk.user < 0 && !wk.s.isClosed() && wk.s.started() == nil {
			idle = append(idle, wk)
		}
	}
	if len(idle) == 0 {
		return false
	}
	wk := idle[sc.g.Intn(len(idle))]
	if tc, ok := wk.s.c.(*net.TCPConn); ok {
		_ = tc.SetLinger(0)
	}
	wk.dead = true
	_ = wk.s.c.Close()
	sc.ops = append(sc.ops, fmt.Sprintf("kill%d", wk.tid))
	time.Sleep(30 * time.Millisecond)
	return true
}

// opTimeout waits until every waiting user has been closed by the server's timer.
func (sc *scen) opTimeout() {
	ws := sc.waiters()
	if len(ws) == 0 {
		return
	}
	sc.ops = append(sc.ops, "timeout")
	var sched []int
	for _, u := range ws {
		left := time.Until(u.since.Add(userTimeout*time.Second + 1500*time.Millisecond))
		waitFor(left, func() bool { return u.s.isClosed() })
		if u.s.isClosed() {
			u.s.mu.Lock()
			u.closedAfter = u.s.closedAt.Sub(u.since)
			u.s.mu.Unlock()
			if u.closedAfter > sc.maxWait {
				sc.maxWait = u.closedAfter
			}
			if u.closedAfter < userTimeout*time.Second-50*time.Millisecond {
				sc.fail("timeout-early", fmt.Sprintf("user %d closed after %v, before userConnTimeout", u.tid, u.closedAfter))
			}
		}
		u.waiting = false
		t := sc.addThread(fmt.Sprintf("RTimeout %d%%nat", u.tid))
		sched = append(sched, t, 1, u.tid, runAll)
	}
	sc.checkpoint(steps(sched...))
}

func (sc *scen) closeControlAndWait() bool {
	sc.peer.Close()
	select {
	case <-sc.ctl.VerifC11Done():
	case <-time.After(3 * time.Second):
		sc.fail("teardown-stuck", "session teardown did not finish within 3 s of the control connection closing")
		return false
	}
	waitFor(time.Second, func() bool { return !sc.w.srv.Svc.VerifC11Mapped(sc.runID, sc.ctl) })
	return true
}

func (sc *scen) opTeardown() {
	sc.ops = append(sc.ops, "teardown")
	td := sc.addThread("RTeardown")
	ws := sc.waiters()
	sc.closeControlAndWait()
	sc.torn = true
	sched := []int{td, runAll}
	for _, u := range ws {
		waitFor(500*time.Millisecond, func() bool { return u.s.isClosed() })
		u.waiting = false
		sched = append(sched, u.tid, runAll)
	}
	sc.checkpoint(steps(sched...))
}

// opWindowPlugin: a work connection is looked up (session still mapped), then the session is torn down
// completely, then the pool send happens (on the closed channel).
func (sc *scen) opWindowPlugin() {
	sc.ops = append(sc.ops, "window-plugin")
	reached, release := sc.w.pg.arm(sc.runID)
	wk := sc.offerRaw()
	select {
	case <-reached:
	case <-time.After(2 * time.Second):
		sc.fail("plugin-gate", "NewWorkConn plugin call not reached")
		close(release)
		return
	}
	sc.checkpoint(steps(wk.tid, 1))
	td := sc.addThread("RTeardown")
	ws := sc.waiters()
	sc.closeControlAndWait()
	sc.torn = true
	sched := []int{td, runAll}
	for _, u := range ws {
		waitFor(500*time.Millisecond, func() bool { return u.s.isClosed() })
		u.waiting = false
		sched = append(sched, u.tid, runAll)
	}
	sc.checkpoint(steps(sched...))
	close(release)
	waitFor(600*time.Millisecond, func() bool { return wk.s.isClosed() })
	sc.checkpoint(steps(wk.tid, runAll))
}

// opWindowHook: the teardown is held right after the pool has been closed and drained (the run id is
// still mapped); a work connection arrives; then the teardown goes on.  Needs the gate line in /repo.
func (sc *scen) opWindowHook() bool {
	reached, release := hooks.arm("ctl.teardown.pool_closed", sc.runID)
	pooled := sc.ctl.VerifC11PoolLen()
	sc.peer.Close()
	select {
	case <-reached:
	case <-time.After(700 * time.Millisecond):
		// gate line not present in this tree: fall back to a plain teardown
		hooks.disarm("ctl.teardown.pool_closed", sc.runID)
		sc.ops = append(sc.ops, "teardown(nogate)")
		td := sc.addThread("RTeardown")
		ws := sc.waiters()
		sc.closeControlAndWait()
		sc.torn = true
		sched := []int{td, runAll}
		for _, u := range ws {
			waitFor(500*time.Millisecond, func() bool { return u.s.isClosed() })
			u.waiting = false
			sched = append(sched, u.tid, runAll)
		}
		sc.checkpoint(steps(sched...))
		return false
	}
	sc.ops = append(sc.ops, "window-hook")
	td := sc.addThread("RTeardown")
	ws := sc.waiters()
	// TStop, TCloseCh, one TDrain per pooled connection, the TDrain that sees the channel empty
	sched := []int{td, 2 + pooled + 1}
	for _, u := range ws {
		waitFor(500*time.Millisecond, func() bool { return u.s.isClosed() })
		u.waiting = false
		sched = append(sched, u.tid, runAll)
	}
	sc.torn = true // no request count from here on
	sc.checkpoint(steps(sched...))
	sc.torn = false
	// late arrival while the run id is still mapped
	wk := sc.offerRaw()
	waitFor(600*time.Millisecond, func() bool { return wk.s.isClosed() })
	sc.torn = true
	sc.checkpoint(steps(wk.tid, runAll))
	close(release)
	select {
	case <-sc.ctl.VerifC11Done():
	case <-time.After(3 * time.Second):
		sc.fail("teardown-stuck", "session teardown did not finish after the gate was released")
	}
	waitFor(time.Second, func() bool { return !sc.w.srv.Svc.VerifC11Mapped(sc.runID, sc.ctl) })
	sc.checkpoint(steps(td, runAll))
	return true
}

func (sc *scen) render() string {
	var dead, conns, users, starts []string
	for _, wk := range sc.works {
		if wk.dead {
			dead = append(dead, fmt.Sprint(wk.tid))
			continue
		}
		code := 0
		if sw := wk.s.started(); sw != nil {
			code = 2 + wk.user
			starts = append(starts, fmt.Sprintf("(%d, %s, %s, %d)", wk.tid, hx.HxS(sw.ProxyName), hx.HxS(sw.SrcAddr), sw.SrcPort))
		} else if wk.s.isClosed() {
			code = 1
		}
		conns = append(conns, fmt.Sprintf("(%d, %d)", wk.tid, code))
	}
	for _, u := range sc.users {
		code := 0
		if u.bridged >= 0 {
			code = 2 + u.bridged
		} else if u.s.isClosed() {
			code = 1
		}
		users = append(users, fmt.Sprintf("(%d, %d)", u.tid, code))
	}
	return fmt.Sprintf("CPool %s %s %s %s %s %s %s %s %s %s %s", hx.Z(int64(sc.cpc)), hx.Z(int64(sc.w.smax)), hx.List(sc.reqs), hx.List(dead),
		hx.Z(int64(sc.wfailFrom)), hx.List(sc.phases), hx.Bool(sc.torn), hx.List(conns), hx.List(users), hx.List(starts), hx.List(sc.flows))
}

func (sc *scen) cleanup() {
	for _, wk := range sc.works {
		if wk.s.c != nil {
			wk.s.c.Close()
		}
	}
	for _, u := range sc.users {
		u.s.c.Close()
	}
	if sc.peer != nil {
		sc.peer.Close()
	}
	if sc.ctl != nil {
		// the next scenario of this worker must not overlap this session's teardown
		select {
		case <-sc.ctl.VerifC11Done():
		case <-time.After(3 * time.Second):
		}
	}
}

var poolCounts = []int{-100, -3, 0, 0, 1, 1, 2, 3, 4, 5, 8, 50}

// runScenario returns the Coq case (or "" if the scenario could not be set up).
func (w *worker) runScenario(g *hx.Gen, kind int, caseNo int) (*scen, string) {
	sc := &scen{g: g, w: w, ports: map[string]int{}}
	sc.addThread("RSendLoop")
	sc.wfailFrom = -1
	sc.names = []string{fmt.Sprintf("pa%d", caseNo), fmt.Sprintf("pb%d", caseNo)}
	sc.cpc = poolCounts[g.Intn(len(poolCounts))]
	p, resp, err := w.srv.Login(hx.LoginOpts{PoolCount: sc.cpc})
	if err != nil || p == nil {
		return nil, fmt.Sprint("login failed: ", err, resp)
	}
	sc.peer, sc.runID = p, p.RunID
	defer sc.cleanup()
	for _, name := range sc.names {
		port := hx.FreePort(w.addr)
		r, err := p.NewProxy(&msg.NewProxy{ProxyName: name, ProxyType: "tcp", RemotePort: port})
		if err != nil || r.Error != "" {
			return nil, fmt.Sprint("new proxy failed: ", err, r)
		}
		sc.ports[name] = port
	}
	for _, m := range p.Skipped() {
		if _, ok := m.(*msg.ReqWorkConn); ok {
			sc.reqCnt.Add(1)
		}
	}
	sc.ctl = w.srv.Svc.VerifC11Control(sc.runID)
	if sc.ctl == nil {
		return nil, "no control for run id"
	}
	go func() {
		for {
			m, err := p.Recv(time.Hour)
			if err != nil {
				return
			}
			if _, ok := m.(*msg.ReqWorkConn); ok {
				sc.reqCnt.Add(1)
			}
		}
	}()
	sc.ops = append(sc.ops, fmt.Sprintf("login(pc=%d,max=%d)", sc.cpc, w.smax))
	sc.checkpoint(steps()) // right after Start: the advance requests
	pc := sc.ctl.VerifC11PoolCount()
	capacity := sc.ctl.VerifC11PoolCap()

	guard := func() {
		// a waiting user must not be left past its timer behind the model's back
		for _, u := range sc.waiters() {
			if time.Since(u.since) > 600*time.Millisecond {
				sc.opTimeout()
				return
			}
		}
	}
	switch kind {
	case 0: // mixed arrivals
		n := 3 + g.Intn(6)
		for i := 0; i < n; i++ {
			guard()
			switch r := g.Intn(10); {
			case r < 4:
				sc.opWork()
			case r < 8:
				sc.opUser()
			case r < 9:
				if !sc.opKill() {
					sc.opWork()
				}
			default:
				sc.opTimeout()
			}
		}
	case 1: // dead pooled connections and the retry loop: more dead ones than retries in some cases
		n := 1 + g.Intn(pc+3)
		for i := 0; i < n && i < capacity; i++ {
			sc.opWork()
		}
		k := g.Intn(n + 1)
		for i := 0; i < k; i++ {
			sc.opKill()
		}
		sc.opUser()
		guard()
		if g.Chance(0.5) {
			sc.opUser()
		}
	case 2: // surplus offers beyond the capacity
		for i := 0; i < capacity+1+g.Intn(3); i++ {
			sc.opWork()
		}
		if g.Chance(0.5) {
			sc.opUser()
			sc.opWork()
		}
	case 3: // simultaneous users, a client that delivers late, in some order, or never
		n := 2 + g.Intn(3)
		for i := 0; i < n; i++ {
			sc.opUser()
		}
		k := g.Intn(n + 1)
		for i := 0; i < k; i++ {
			sc.opWork()
		}
		sc.opTimeout()
	case 4: // teardown window through the plugin call
		if g.Chance(0.6) {
			sc.opWork()
		}
		if g.Chance(0.4) {
			sc.opUser()
		}
		sc.opWindowPlugin()
	case 5: // teardown window through the gate in Control.worker
		n := g.Intn(3)
		for i := 0; i < n; i++ {
			sc.opWork()
		}
		if g.Chance(0.3) {
			sc.opUser()
		}
		sc.opWindowHook()
	}
	// ending
	if !sc.torn {
		guard()
		switch g.Intn(3) {
		case 0:
			sc.opTeardown()
			if g.Chance(0.6) {
				sc.opWork() // late: the run id is gone
			}
		case 1:
			sc.opTimeout()
		default:
			if len(sc.waiters()) > 0 {
				sc.opTeardown()
			}
		}
	} else if g.Chance(0.5) {
		sc.opWork()
	}
	// Go-side monitor: every open, idle work socket must be accounted for by the pool
	idle := 0
	for _, wk := range sc.works {
		if !wk.dead && wk.s.started() == nil && !wk.s.isClosed() {
			idle++
		}
	}
	deadPooled := 0
	if !sc.torn {
		// dead ones still sit in the channel until somebody takes them
		deadPooled = sc.ctl.VerifC11PoolLen() - idle
	}
	if sc.torn && idle > 0 {
		sc.fail("orphan-after-teardown", fmt.Sprintf("%d work connection(s) still open and idle after the session ended", idle))
	} else if !sc.torn && deadPooled < 0 {
		sc.fail("orphan-unpooled", fmt.Sprintf("%d idle open work sockets but len(workConnCh)=%d", idle, sc.ctl.VerifC11PoolLen()))
	}
	for _, u := range sc.users {
		if u.bridged < 0 && !u.s.isClosed() && !u.waiting {
			sc.fail("user-stranded", fmt.Sprintf("user %d neither bridged nor closed nor waiting", u.tid))
		}
	}
	return sc, sc.render()
}

// openSockets counts the socket descriptors of this process.
func openSockets() int {
	ents, err := os.ReadDir("/proc/self/fd")
	if err != nil {
		return -1
	}
	n := 0
	for _, e := range ents {
		if l, err := os.Readlink("/proc/self/fd/" + e.Name()); err == nil && strings.HasPrefix(l, "socket:") {
			n++
		}
	}
	return n
}

// retryCloseCheck (run alone, before the parallel part): k pooled connections are reset by the peer, a user
// arrives, the retry loop of GetWorkConnFromPool meets them; every failed connection must have been closed
// by the server: the process-wide socket count goes down by one per failed connection (server end) and up
// by one (our user socket; the server's end of it is closed again when the loop gives up).
func retryCloseCheck(w *worker, g *hx.Gen) []map[string]any {
	sc := &scen{g: g, w: w, ports: map[string]int{}, cpc: 2}
	sc.addThread("RSendLoop")
	p, _, err := w.srv.Login(hx.LoginOpts{PoolCount: 2})
	if err != nil || p == nil {
		return []map[string]any{{"key": "setup", "what": "retryCloseCheck login failed", "case": "retry"}}
	}
	sc.peer, sc.runID = p, p.RunID
	defer sc.cleanup()
	port := hx.FreePort(w.addr)
	if r, err := p.NewProxy(&msg.NewProxy{ProxyName: "pr", ProxyType: "tcp", RemotePort: port}); err != nil || r.Error != "" {
		return []map[string]any{{"key": "setup", "what": "retryCloseCheck proxy failed", "case": "retry"}}
	}
	sc.names = []string{"pr", "pr"}
	sc.ports["pr"] = port
	sc.ctl = w.srv.Svc.VerifC11Control(sc.runID)
	go func() {
		for {
			if _, err := p.Recv(time.Hour); err != nil {
				return
			}
		}
	}()
	pc := sc.ctl.VerifC11PoolCount()
	k := pc + 1 // exactly as many dead ones as the loop tries
	for i := 0; i < k; i++ {
		sc.opWork()
	}
	for i := 0; i < k; i++ {
		sc.opKill()
	}
	time.Sleep(50 * time.Millisecond)
	before := openSockets()
	sc.opUser()
	time.Sleep(100 * time.Millisecond)
	after := openSockets()
	want := before - k + 1
	if before < 0 || after == want {
		return nil
	}
	return []map[string]any{{"key": "retry-conn-not-closed",
		"what": fmt.Sprintf("after the retry loop met %d reset pooled connections the process holds %d sockets, expected %d (%d before): a failed work connection was not closed by the server", k, after, want, before),
		"case": "login(pc=2) " + strings.Join(sc.ops, " ")}}
}

func runPool(cfg *hx.RunCfg) error {
	quiet()
	hooks.install()
	nw := 12
	// transport.maxPoolCount as configured: 0 is replaced by the default (5) in Complete; negative values are
	// accepted by the loader and the validator and mean "no pool"
	maxes := []int{5, 2, 1, 3, -1, 0}
	pg, err := startPluginGate("127.0.11.250")
	if err != nil {
		return err
	}
	var workers []*worker
	for k := 0; k < nw; k++ {
		w := &worker{idx: k, addr: fmt.Sprintf("127.0.11.%d", 1+k), smax: maxes[k%len(maxes)], pg: pg}
		s, err := hx.StartServer(w.addr, func(c *v1.ServerConfig) {
			c.UserConnTimeout = userTimeout
			c.Transport.MaxPoolCount = int64(w.smax)
			c.HTTPPlugins = []v1.HTTPPluginOptions{{Name: "c11gate", Addr: pg.url(), Path: "/h", Ops: []string{"NewWorkConn"}}}
		})
		if err != nil {
			return err
		}
		w.srv = s
		w.smax = int(s.Cfg.Transport.MaxPoolCount) // after Complete
		workers = append(workers, w)
	}
	preFails := retryCloseCheck(workers[0], hx.NewGen(cfg.Seed))
	type res struct {
		i    int
		sc   *scen
		text string
	}
	out := make([]res, cfg.N)
	var wg sync.WaitGroup
	var next atomic.Int64
	for _, w := range workers {
		wg.Add(1)
		go func(w *worker) {
			defer wg.Done()
			for {
				i := int(next.Add(1)) - 1
				if i >= cfg.N {
					return
				}
				g := hx.NewGen(cfg.Seed*1000003 + int64(i))
				kind := []int{0, 0, 1, 1, 2, 3, 3, 4, 4, 5}[i%10]
				sc, text := w.runScenario(g, kind, i)
				out[i] = res{i, sc, text}
			}
		}(w)
	}
	wg.Wait()
	for _, w := range workers {
		w.srv.Close()
	}
	var cases []string
	fails := preFails
	dist := map[string]int{}
	distinct := map[string]bool{}
	var samples []string
	var maxWait time.Duration
	hookCases := 0
	for _, r := range out {
		if r.sc == nil {
			fails = append(fails, map[string]any{"key": "setup", "what": "scenario setup failed: " + r.text, "case": fmt.Sprint(r.i)})
			continue
		}
		cases = append(cases, r.text)
		distinct[r.text] = true
		for _, o := range r.sc.ops {
			k := strings.TrimRight(strings.SplitN(o, "@", 2)[0], "0123456789")
			if strings.HasPrefix(k, "login") {
				k = "login"
			}
			dist[k]++
			if o == "window-hook" {
				hookCases++
			}
		}
		for _, f := range r.sc.fails {
			f["case"] = fmt.Sprintf("seed=%d case=%d ops: %v", cfg.Seed, r.i, f["case"])
			fails = append(fails, f)
		}
		if r.sc.maxWait > maxWait {
			maxWait = r.sc.maxWait
		}
		if len(samples) < 3 {
			samples = append(samples, strings.Join(r.sc.ops, " "))
		}
	}
	sort.Strings(samples)
	cf := &hx.CaseFile{
		Imports: "From FRP Require Import Corr.C11.\n",
		Typ:     "case",
		Cases:   cases,
		Tail: "Definition M := Eval vm_compute in mismatches check_case cases.\nPrint M.\n" +
			"Definition MON := Eval vm_compute in (Z.of_nat (length (mismatches C11_holds cases)) : Z).\nPrint MON.\n" +
			"Definition NTORN := Eval vm_compute in (count_if case_torn cases : Z).\nPrint NTORN.\n" +
			"Definition NDEAD := Eval vm_compute in (count_if case_has_dead cases : Z).\nPrint NDEAD.\n" +
			"Definition NUSERCLOSED := Eval vm_compute in (count_if case_has_closed_user cases : Z).\nPrint NUSERCLOSED.\n" +
			"Definition NBRIDGED := Eval vm_compute in (count_if case_has_bridged cases : Z).\nPrint NBRIDGED.\n",
	}
	if err := cf.Write(cfg.Out); err != nil {
		return err
	}
	cfg.St["cases"] = len(cases)
	cfg.St["distinct_nontrivial"] = len(distinct)
	cfg.St["samples"] = samples
	cfg.St["distribution"] = dist
	cfg.St["impl_failures"] = fails
	cfg.St["max_timeout_wait_ms"] = maxWait.Milliseconds()
	cfg.St["hook_window_cases"] = hookCases
	return nil
}
