From FRP Require Import Model.Frame.
From Coq Require Import Lia ZifyBool ZifyNat.
Open Scope Z_scope.

(** * bytes <-> Z *)

Lemma Z_of_byte_range b : 0 <= Z_of_byte b < 256.
Proof.
  unfold Z_of_byte. pose proof (Byte.to_N_bounded b). lia.
Qed.

Lemma byte_of_Z_of_byte b : byte_of_Z (Z_of_byte b) = b.
Proof.
  unfold byte_of_Z. pose proof (Z_of_byte_range b) as H.
  rewrite Z.mod_small by lia. unfold Z_of_byte. rewrite N2Z.id.
  now rewrite Byte.of_to_N.
Qed.

Lemma Z_of_byte_of_Z z : Z_of_byte (byte_of_Z z) = z mod 256.
Proof.
  unfold byte_of_Z, Z_of_byte.
  pose proof (Z.mod_pos_bound z 256 ltac:(lia)) as H.
  destruct (Byte.of_N (Z.to_N (z mod 256))) eqn:E.
  - apply Byte.to_of_N in E. rewrite E. lia.
  - apply Byte.of_N_None_iff in E. lia.
Qed.

Lemma be_length n z : length (be n z) = n.
Proof. induction n; simpl; congruence. Qed.

Lemma pow256_pos k : 0 < 256 ^ Z.of_nat k.
Proof. apply Z.pow_pos_nonneg; lia. Qed.

Lemma pow256_S k : 256 ^ Z.of_nat (S k) = 256 ^ Z.of_nat k * 256.
Proof. rewrite Nat2Z.inj_succ, Z.pow_succ_r by lia. lia. Qed.

Lemma rdu_be n : forall z acc, rdu (be n z) acc = acc * 256 ^ Z.of_nat n + z mod 256 ^ Z.of_nat n.
Proof.
  induction n as [|k IH]; intros z acc.
  - simpl. rewrite Z.mod_1_r. lia.
  - cbn [be rdu]. rewrite IH, Z_of_byte_of_Z, pow256_S.
    pose proof (pow256_pos k) as Hp.
    rewrite (Z.rem_mul_r z (256 ^ Z.of_nat k) 256) by lia. lia.
Qed.

Lemma rdu_acc l : forall acc, rdu l acc = acc * 256 ^ Z.of_nat (length l) + rdu l 0.
Proof.
  induction l as [|b r IH]; intros acc.
  - simpl. lia.
  - cbn [rdu length]. rewrite IH, (IH (0 * 256 + Z_of_byte b)), pow256_S. lia.
Qed.

Lemma rdu_range l : 0 <= rdu l 0 < 256 ^ Z.of_nat (length l).
Proof.
  induction l as [|b r IH].
  - simpl. lia.
  - cbn [rdu length]. rewrite rdu_acc, pow256_S.
    pose proof (Z_of_byte_range b). pose proof (pow256_pos (length r)). nia.
Qed.

Lemma be_rdu l : forall acc, be (length l) (rdu l acc) = l.
Proof.
  induction l as [|b r IH]; intros acc.
  - reflexivity.
  - cbn [length be rdu]. rewrite IH. f_equal.
    rewrite rdu_acc. pose proof (rdu_range r) as Hr. pose proof (pow256_pos (length r)) as Hp.
    rewrite Z.div_add_l by lia. rewrite Z.div_small by lia. rewrite Z.add_0_r.
    unfold byte_of_Z. rewrite Z.add_comm, Z.mod_add by lia.
    fold (byte_of_Z (Z_of_byte b)). apply byte_of_Z_of_byte.
Qed.

Lemma be64_length z : length (be64 z) = 8%nat.
Proof. apply be_length. Qed.

Lemma rd64_be64 z : - 2 ^ 63 <= z < 2 ^ 63 -> rd64 (be64 z) = z.
Proof.
  intros Hz. unfold rd64, be64. rewrite rdu_be.
  change (256 ^ Z.of_nat 8) with (2 ^ 64).
  rewrite Z.mod_mod by lia.
  destruct (Z.leb_spec (2 ^ 63) (0 * 2 ^ 64 + z mod 2 ^ 64)) as [H|H].
  - assert (z < 0).
    { destruct (Z.lt_ge_cases z 0); [assumption|]. rewrite Z.mod_small in H by lia. lia. }
    replace z with (z + 1 * 2 ^ 64 - 2 ^ 64) at 2 by lia.
    rewrite <- (Z.mod_add z 1 (2 ^ 64)) by lia. rewrite (Z.mod_small (z + 1 * 2 ^ 64)) by lia. lia.
  - destruct (Z.lt_ge_cases z 0) as [Hn|Hn].
    + rewrite <- (Z.mod_add z 1 (2 ^ 64)) in H by lia. rewrite (Z.mod_small (z + 1 * 2 ^ 64)) in H by lia. lia.
    + rewrite Z.mod_small by lia. lia.
Qed.

Lemma rd64_range l : length l = 8%nat -> - 2 ^ 63 <= rd64 l < 2 ^ 63.
Proof.
  intros Hl. unfold rd64. pose proof (rdu_range l) as H. rewrite Hl in H.
  change (256 ^ Z.of_nat 8) with (2 ^ 64) in H.
  destruct (Z.leb_spec (2 ^ 63) (rdu l 0)); lia.
Qed.

Lemma be64_rd64 l : length l = 8%nat -> be64 (rd64 l) = l.
Proof.
  intros Hl. unfold be64, rd64. pose proof (rdu_range l) as H. rewrite Hl in H.
  change (256 ^ Z.of_nat 8) with (2 ^ 64) in H.
  assert (E : (if 2 ^ 63 <=? rdu l 0 then rdu l 0 - 2 ^ 64 else rdu l 0) mod 2 ^ 64 = rdu l 0).
  { destruct (Z.leb_spec (2 ^ 63) (rdu l 0)).
    - replace (rdu l 0 - 2 ^ 64) with (rdu l 0 + (-1) * 2 ^ 64) by lia.
      rewrite Z.mod_add by lia. apply Z.mod_small; lia.
    - apply Z.mod_small; lia. }
  rewrite E. rewrite <- Hl. apply be_rdu.
Qed.

(** * frame laws *)

Lemma blen_nonneg l : 0 <= blen l.
Proof. unfold blen. lia. Qed.

Lemma blen_app a b : blen (a ++ b) = blen a + blen b.
Proof. unfold blen. rewrite app_length. lia. Qed.

Lemma firstn_app_exact {A} (a b : list A) : firstn (length a) (a ++ b) = a.
Proof. rewrite firstn_app, Nat.sub_diag, firstn_all. simpl. apply app_nil_r. Qed.

Lemma skipn_app_exact {A} (a b : list A) : skipn (length a) (a ++ b) = b.
Proof. rewrite skipn_app, Nat.sub_diag, skipn_all. reflexivity. Qed.

Section Frame.
  Variable reg : byte -> bool.

  Lemma frame_roundtrip t body rest :
    reg t = true -> blen body <= max_len ->
    decode_frame reg (encode_frame t body ++ rest) =
    DOk {| d_type := t; d_body := body; d_rest := rest |} (9 + blen body) (blen body).
  Proof.
    intros Hr Hl. unfold encode_frame, decode_frame. cbn [app].
    rewrite Hr. cbn [negb].
    pose proof (be64_length (blen body)) as H8.
    pose proof (blen_nonneg body) as Hnn.
    rewrite <- !app_assoc.
    destruct (Z.ltb_spec (blen (be64 (blen body) ++ body ++ rest)) 8) as [Hs|_].
    { rewrite blen_app in Hs. unfold blen at 1 in Hs. rewrite H8 in Hs.
      pose proof (blen_nonneg (body ++ rest)). lia. }
    assert (F8 : firstn 8 (be64 (blen body) ++ body ++ rest) = be64 (blen body))
      by (rewrite <- H8 at 1; apply firstn_app_exact).
    assert (S8 : skipn 8 (be64 (blen body) ++ body ++ rest) = body ++ rest)
      by (rewrite <- H8 at 1; apply skipn_app_exact).
    rewrite !F8, !S8.
    unfold max_len in *.
    rewrite rd64_be64 by lia.
    destruct (Z.ltb_spec 10240 (blen body)); [lia|].
    destruct (Z.ltb_spec (blen body) 0); [lia|].
    destruct (Z.ltb_spec (blen (body ++ rest)) (blen body)) as [Hs|_].
    { rewrite blen_app in Hs. pose proof (blen_nonneg rest). lia. }
    replace (Z.to_nat (blen body)) with (length body) by (unfold blen; lia).
    rewrite firstn_app_exact, skipn_app_exact. reflexivity.
  Qed.

  (* The decoder accepts exactly the encoder's image. *)
  Lemma decode_sound s r c a :
    decode_frame reg s = DOk r c a ->
    s = encode_frame (d_type r) (d_body r) ++ d_rest r /\
    reg (d_type r) = true /\ blen (d_body r) <= max_len /\
    c = 9 + blen (d_body r) /\ a = blen (d_body r).
  Proof.
    unfold decode_frame. destruct s as [|t s1]; [discriminate|].
    destruct (reg t) eqn:Hr; cbn [negb]; [|discriminate].
    destruct (Z.ltb_spec (blen s1) 8) as [|H8]; [discriminate|].
    set (n := rd64 (firstn 8 s1)).
    destruct (Z.ltb_spec max_len n) as [|Hmax]; [discriminate|].
    destruct (Z.ltb_spec n 0) as [|Hn0]; [discriminate|].
    destruct (Z.ltb_spec (blen (skipn 8 s1)) n) as [|Hbody]; [discriminate|].
    intros E.
    assert (Er : r = {| d_type := t; d_body := firstn (Z.to_nat n) (skipn 8 s1); d_rest := skipn (Z.to_nat n) (skipn 8 s1) |}) by congruence.
    assert (Ec : c = 9 + n) by congruence. assert (Ea : a = n) by congruence.
    clear E. subst r c a. cbn [d_type d_body d_rest].
    assert (Hf8 : length (firstn 8 s1) = 8%nat).
    { rewrite firstn_length. unfold blen in H8. lia. }
    assert (Hlb : blen (firstn (Z.to_nat n) (skipn 8 s1)) = n).
    { unfold blen in *. rewrite firstn_length. lia. }
    rewrite Hlb. repeat split; try assumption; try reflexivity.
    unfold encode_frame. rewrite Hlb. subst n. rewrite be64_rd64 by assumption.
    cbn [app]. f_equal. rewrite <- app_assoc, firstn_skipn, firstn_skipn. reflexivity.
  Qed.

  Lemma decode_sound_complete s t body rest c a :
    decode_frame reg s = DOk {| d_type := t; d_body := body; d_rest := rest |} c a <->
    s = encode_frame t body ++ rest /\ reg t = true /\ blen body <= max_len /\
    c = 9 + blen body /\ a = blen body.
  Proof.
    split.
    - intros H. apply decode_sound in H. exact H.
    - intros (-> & Hr & Hl & -> & ->). apply frame_roundtrip; assumption.
  Qed.

  (* every path, every input: the requested allocation is within the declared bound *)
  Lemma decode_alloc_bounded s : 0 <= out_alloc (decode_frame reg s) <= max_len.
  Proof.
    unfold decode_frame, max_len. destruct s as [|t s1]; cbn [out_alloc]; [lia|].
    destruct (negb (reg t)); cbn [out_alloc]; [lia|].
    destruct (Z.ltb_spec (blen s1) 8); cbn [out_alloc]; [lia|].
    destruct (Z.ltb_spec 10240 (rd64 (firstn 8 s1))); cbn [out_alloc]; [lia|].
    destruct (Z.ltb_spec (rd64 (firstn 8 s1)) 0); cbn [out_alloc]; [lia|].
    destruct (Z.ltb_spec (blen (skipn 8 s1)) (rd64 (firstn 8 s1))); cbn [out_alloc]; lia.
  Qed.

  (* never reads past the input, and a success consumes exactly header + body *)
  Lemma decode_consumed_bounded s : 0 <= out_consumed (decode_frame reg s) <= blen s.
  Proof.
    unfold decode_frame. destruct s as [|t s1]; cbn [out_consumed]; [unfold blen; simpl; lia|].
    assert (Hs : blen (t :: s1) = 1 + blen s1) by (unfold blen; cbn [length]; lia).
    pose proof (blen_nonneg s1).
    destruct (negb (reg t)); cbn [out_consumed]; [lia|].
    destruct (Z.ltb_spec (blen s1) 8); cbn [out_consumed]; [lia|].
    assert (Hk : blen (skipn 8 s1) = blen s1 - 8).
    { unfold blen in *. rewrite skipn_length. lia. }
    destruct (Z.ltb_spec max_len (rd64 (firstn 8 s1))); cbn [out_consumed]; [lia|].
    destruct (Z.ltb_spec (rd64 (firstn 8 s1)) 0); cbn [out_consumed]; [lia|].
    destruct (Z.ltb_spec (blen (skipn 8 s1)) (rd64 (firstn 8 s1))); cbn [out_consumed]; lia.
  Qed.

  (* the result depends only on the bytes consumed: bytes after the frame are never looked at *)
  Lemma decode_no_overread s r c a extra :
    decode_frame reg s = DOk r c a ->
    decode_frame reg (s ++ extra) =
    DOk {| d_type := d_type r; d_body := d_body r; d_rest := d_rest r ++ extra |} c a.
  Proof.
    intros H. apply decode_sound in H. destruct H as (Hs & Hr & Hl & -> & ->).
    rewrite Hs at 1. rewrite <- app_assoc. apply frame_roundtrip; assumption.
  Qed.

  Lemma oversize_rejected t n rest :
    reg t = true -> max_len < n < 2 ^ 63 ->
    exists c, decode_frame reg (t :: be64 n ++ rest) = DErr ErrMaxLen c 0.
  Proof.
    intros Hr Hn. unfold decode_frame. rewrite Hr. cbn [negb].
    pose proof (be64_length n) as H8.
    destruct (Z.ltb_spec (blen (be64 n ++ rest)) 8) as [Hs|_].
    { rewrite blen_app in Hs. unfold blen at 1 in Hs. rewrite H8 in Hs. pose proof (blen_nonneg rest). lia. }
    assert (F8 : firstn 8 (be64 n ++ rest) = be64 n)
      by (rewrite <- H8 at 1; apply firstn_app_exact).
    rewrite !F8. unfold max_len in *.
    rewrite rd64_be64 by lia.
    destruct (Z.ltb_spec 10240 n); [|lia]. eauto.
  Qed.

  Lemma negative_rejected t n rest :
    reg t = true -> - 2 ^ 63 <= n < 0 ->
    exists c, decode_frame reg (t :: be64 n ++ rest) = DErr ErrLen c 0.
  Proof.
    intros Hr Hn. unfold decode_frame. rewrite Hr. cbn [negb].
    pose proof (be64_length n) as H8.
    destruct (Z.ltb_spec (blen (be64 n ++ rest)) 8) as [Hs|_].
    { rewrite blen_app in Hs. unfold blen at 1 in Hs. rewrite H8 in Hs. pose proof (blen_nonneg rest). lia. }
    assert (F8 : firstn 8 (be64 n ++ rest) = be64 n)
      by (rewrite <- H8 at 1; apply firstn_app_exact).
    rewrite !F8. unfold max_len in *.
    rewrite rd64_be64 by lia.
    destruct (Z.ltb_spec 10240 n); [lia|].
    destruct (Z.ltb_spec n 0); [|lia]. eauto.
  Qed.

  Lemma unknown_type_rejected t rest :
    reg t = false -> decode_frame reg (t :: rest) = DErr ErrType 1 0.
  Proof. intros Hr. unfold decode_frame. rewrite Hr. reflexivity. Qed.

  (* first-message confinement: only the three session-opening types are acted upon *)
  Lemma dispatch_confined tl tw tv o :
    dispatch_first tl tw tv o <> ActClose ->
    exists r c a, o = DOk r c a /\ (d_type r = tl \/ d_type r = tw \/ d_type r = tv).
  Proof.
    destruct o as [e c a|r c a]; cbn; [congruence|].
    intros H. exists r, c, a. split; [reflexivity|].
    destruct (Byte.eqb (d_type r) tl) eqn:E1; [left; now apply Byte.byte_dec_bl|].
    destruct (Byte.eqb (d_type r) tw) eqn:E2; [right; left; now apply Byte.byte_dec_bl|].
    destruct (Byte.eqb (d_type r) tv) eqn:E3; [right; right; now apply Byte.byte_dec_bl|].
    congruence.
  Qed.
End Frame.
