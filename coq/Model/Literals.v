(* C18 — textual quantities of the configuration layer.  Model only: no proofs here.

   pkg/config/types/types.go : BandwidthQuantity (UnmarshalString / String), PortsRangeSlice.String,
                               NewPortsRangeSliceFromString
   pkg/util/util/util.go     : ParseRangeNumbers
   pkg/config/template.go    : parseNumberRangePair

   strconv.Itoa / strconv.ParseInt(s, 10, 64) are the Go standard library; they are modelled
   with Coq's own decimal machinery (Decimal.uint, Z.to_int / Z.of_int) and compared with the
   real functions on every run by the harness.  strings.TrimSpace is modelled for ASCII white
   space (the generator never feeds U+0085 / U+00A0). *)
From Coq Require Import Decimal DecimalZ.
From FRP Require Export Model.Bytes.
Open Scope Z_scope.

(* a type for Go values the translator cannot model (interfaces, plugin options): carries no
   information; only ever allowed on client-only fields (checked reflectively) *)
Inductive go_opaque := OpaqueV.

(* ---- strings helpers (strings.TrimSpace / HasSuffix / TrimSuffix / Split / Join / Contains) ---- *)
Definition lit_is_space (b : byte) : bool :=
  let n := Z_of_byte b in ((9 <=? n) && (n <=? 13)) || (n =? 32).

Fixpoint lit_trim_left (s : bytes) : bytes :=
  match s with
  | [] => []
  | b :: r => if lit_is_space b then lit_trim_left r else s
  end.

Fixpoint lit_trim_right (s : bytes) : bytes :=
  match s with
  | [] => []
  | b :: r =>
      match lit_trim_right r with
      | [] => if lit_is_space b then [] else [b]
      | r' => b :: r'
      end
  end.

Definition lit_trim_space (s : bytes) : bytes := lit_trim_right (lit_trim_left s).

Definition lit_has_suffix (s suf : bytes) : bool := is_prefix (rev suf) (rev s).
Definition lit_trim_suffix (s suf : bytes) : bytes :=
  if lit_has_suffix s suf then firstn (length s - length suf) s else s.

(* strings.Split(s, sep) for a one-byte separator: never empty, hence (first, others) *)
Fixpoint lit_split (sep : byte) (s : bytes) : bytes * list bytes :=
  match s with
  | [] => ([], [])
  | b :: r =>
      let '(h, t) := lit_split sep r in
      if Byte.eqb b sep then ([], h :: t) else (b :: h, t)
  end.
Definition lit_split_list (sep : byte) (s : bytes) : list bytes :=
  let '(h, t) := lit_split sep s in h :: t.

Fixpoint lit_join (sep : bytes) (l : list bytes) : bytes :=
  match l with
  | [] => []
  | [x] => x
  | x :: r => x ++ sep ++ lit_join sep r
  end.

(* strings.Contains *)
Fixpoint lit_contains (s sub : bytes) : bool :=
  is_prefix sub s || match s with [] => false | _ :: r => lit_contains r sub end.

Definition lit_comma : byte := ","%byte.
Definition lit_dash : byte := "-"%byte.
Definition lit_dot : byte := "."%byte.

(* ---- decimal ---- *)
Fixpoint lit_bytes_of_uint (u : Decimal.uint) : bytes :=
  match u with
  | Nil => []
  | D0 r => "0"%byte :: lit_bytes_of_uint r | D1 r => "1"%byte :: lit_bytes_of_uint r
  | D2 r => "2"%byte :: lit_bytes_of_uint r | D3 r => "3"%byte :: lit_bytes_of_uint r
  | D4 r => "4"%byte :: lit_bytes_of_uint r | D5 r => "5"%byte :: lit_bytes_of_uint r
  | D6 r => "6"%byte :: lit_bytes_of_uint r | D7 r => "7"%byte :: lit_bytes_of_uint r
  | D8 r => "8"%byte :: lit_bytes_of_uint r | D9 r => "9"%byte :: lit_bytes_of_uint r
  end.

Fixpoint lit_uint_of_bytes (s : bytes) : option Decimal.uint :=
  match s with
  | [] => Some Nil
  | b :: r =>
      match lit_uint_of_bytes r with
      | None => None
      | Some u =>
          match b with
          | "0"%byte => Some (D0 u) | "1"%byte => Some (D1 u) | "2"%byte => Some (D2 u)
          | "3"%byte => Some (D3 u) | "4"%byte => Some (D4 u) | "5"%byte => Some (D5 u)
          | "6"%byte => Some (D6 u) | "7"%byte => Some (D7 u) | "8"%byte => Some (D8 u)
          | "9"%byte => Some (D9 u)
          | _ => None
          end
      end
  end.

(* strconv.Itoa *)
Definition lit_itoa (z : Z) : bytes :=
  match Z.to_int z with
  | Decimal.Pos u => lit_bytes_of_uint u
  | Decimal.Neg u => "-"%byte :: lit_bytes_of_uint u
  end.

Definition lit_int64_min : Z := - 2 ^ 63.
Definition lit_int64_max : Z := 2 ^ 63 - 1.

(* strconv.ParseInt(s, 10, 64): optional sign, at least one digit, value in int64; None = error
   (syntax and range errors are not distinguished by any caller in frp) *)
Definition lit_parse_int64 (s : bytes) : option Z :=
  let '(neg, ds) :=
    match s with
    | "-"%byte :: r => (true, r)
    | "+"%byte :: r => (false, r)
    | _ => (false, s)
    end in
  match ds with
  | [] => None
  | _ =>
      match lit_uint_of_bytes ds with
      | None => None
      | Some u =>
          let n := Z.of_uint u in
          let v := if neg then - n else n in
          if (lit_int64_min <=? v) && (v <=? lit_int64_max) then Some v else None
      end
  end.

(* ---- PortsRangeSlice ---- *)
Record ports_range := mk_ports_range { pr_start : Z; pr_end : Z; pr_single : Z }.

Definition pr_item_string (v : ports_range) : bytes :=
  if 0 <? pr_single v then lit_itoa (pr_single v)
  else lit_itoa (pr_start v) ++ [lit_dash] ++ lit_itoa (pr_end v).

(* PortsRangeSlice.String *)
Definition ports_string (p : list ports_range) : bytes :=
  match p with
  | [] => []
  | _ => lit_join [lit_comma] (map pr_item_string p)
  end.

(* one element of the comma-separated list, shared shape of NewPortsRangeSliceFromString and
   ParseRangeNumbers: split on "-", 1 or 2 parts, each trimmed and parsed *)
Inductive range_item := RItemSingle (n : Z) | RItemRange (lo hi : Z).

Definition parse_range_item (s : bytes) : option range_item :=
  match lit_split lit_dash s with
  | (a, []) =>
      match lit_parse_int64 (lit_trim_space a) with Some n => Some (RItemSingle n) | None => None end
  | (a, [b]) =>
      match lit_parse_int64 (lit_trim_space a) with
      | None => None
      | Some lo =>
          match lit_parse_int64 (lit_trim_space b) with
          | None => None
          | Some hi => if hi <? lo then None else Some (RItemRange lo hi)
          end
      end
  | _ => None
  end.

Fixpoint parse_range_items (l : list bytes) : option (list range_item) :=
  match l with
  | [] => Some []
  | x :: r =>
      match parse_range_item x with
      | None => None
      | Some i => match parse_range_items r with Some is => Some (i :: is) | None => None end
      end
  end.

Definition ports_of_item (i : range_item) : ports_range :=
  match i with
  | RItemSingle n => mk_ports_range 0 0 n
  | RItemRange lo hi => mk_ports_range lo hi 0
  end.

(* NewPortsRangeSliceFromString *)
Definition ports_parse (s : bytes) : option (list ports_range) :=
  match parse_range_items (lit_split_list lit_comma (lit_trim_space s)) with
  | Some is => Some (map ports_of_item is)
  | None => None
  end.

(* ---- util.ParseRangeNumbers ---- *)
Definition zrange (lo hi : Z) : list Z :=
  map (fun k => lo + Z.of_nat k) (seq 0 (Z.to_nat (hi - lo + 1))).

Inductive rn_result :=
| RNOk (l : list Z)
| RNErr                      (* "range number is invalid" *)
| RNNoReturn.                (* `for i := min; i <= max; i++` with max = MaxInt64 never exits *)

Fixpoint expand_items (l : list range_item) : option (list Z) :=
  match l with
  | [] => Some []
  | RItemSingle n :: r => match expand_items r with Some t => Some (n :: t) | None => None end
  | RItemRange lo hi :: r =>
      if hi =? lit_int64_max then None
      else match expand_items r with Some t => Some (zrange lo hi ++ t) | None => None end
  end.

(* the real loop parses and expands element by element: an invalid element after an
   unbounded range is never reached *)
Fixpoint parse_expand (l : list bytes) (acc : list Z) : rn_result :=
  match l with
  | [] => RNOk acc
  | x :: r =>
      match parse_range_item x with
      | None => RNErr
      | Some (RItemSingle n) => parse_expand r (acc ++ [n])
      | Some (RItemRange lo hi) =>
          if hi =? lit_int64_max then RNNoReturn else parse_expand r (acc ++ zrange lo hi)
      end
  end.

Definition parse_range_numbers (s : bytes) : rn_result :=
  parse_expand (lit_split_list lit_comma (lit_trim_space s)) [].

(* ---- template.go parseNumberRangePair ---- *)
Inductive pairs_result :=
| PairsOk (l : list (Z * Z))
| PairsErrFirst | PairsErrSecond | PairsErrLen | PairsNoReturn.

Definition number_range_pairs (a b : bytes) : pairs_result :=
  match parse_range_numbers a with
  | RNErr => PairsErrFirst
  | RNNoReturn => PairsNoReturn
  | RNOk xs =>
      match parse_range_numbers b with
      | RNErr => PairsErrSecond
      | RNNoReturn => PairsNoReturn
      | RNOk ys =>
          if Nat.eqb (length xs) (length ys) then PairsOk (combine xs ys) else PairsErrLen
      end
  end.

(* ---- BandwidthQuantity ---- *)
Record bwq := mk_bwq { bw_s : bytes; bw_i : Z }.
Definition bwq_zero : bwq := mk_bwq [] 0.

Inductive bw_err := BwOk | BwErrFloat | BwErrUnit.

Definition lit_MB : bytes := ["M"%byte; "B"%byte].
Definition lit_KB : bytes := ["K"%byte; "B"%byte].

Section Bandwidth.
  (* strconv.ParseFloat(fstr, 64) followed by int64(f * float64(base)); None = ParseFloat error.
     IEEE arithmetic is outside the model: an oracle the harness fills with observed values. *)
  Variable float_bytes : bytes -> Z -> option Z.

  (* (q *BandwidthQuantity).UnmarshalString: q is only written on success *)
  Definition bw_unmarshal_string (q : bwq) (s0 : bytes) : bwq * bw_err :=
    let s := lit_trim_space s0 in
    match s with
    | [] => (q, BwOk)
    | _ =>
        if lit_has_suffix s lit_MB then
          match float_bytes (lit_trim_suffix s lit_MB) (1024 * 1024) with
          | Some i => (mk_bwq s i, BwOk)
          | None => (q, BwErrFloat)
          end
        else if lit_has_suffix s lit_KB then
          match float_bytes (lit_trim_suffix s lit_KB) 1024 with
          | Some i => (mk_bwq s i, BwOk)
          | None => (q, BwErrFloat)
          end
        else (q, BwErrUnit)
    end.

  (* types.NewBandwidthQuantity *)
  Definition new_bwq (s : bytes) : bwq * bw_err := bw_unmarshal_string bwq_zero s.
End Bandwidth.

Definition bw_string (q : bwq) : bytes := bw_s q.

(* util.EmptyOr *)
Definition empty_or_bytes (v fallback : bytes) : bytes := match v with [] => fallback | _ => v end.
Definition empty_or_Z (v fallback : Z) : Z := if v =? 0 then fallback else v.

(* boolean equalities used by the generated per-record equality (gen/GenCfgMsg.v) *)
Fixpoint lit_list_eqb {A} (e : A -> A -> bool) (a b : list A) : bool :=
  match a, b with
  | [], [] => true
  | x :: a', y :: b' => e x y && lit_list_eqb e a' b'
  | _, _ => false
  end.
Definition lit_pair_eqb (a b : bytes * bytes) : bool :=
  bytes_eqb (fst a) (fst b) && bytes_eqb (snd a) (snd b).
Definition bwq_eqb (a b : bwq) : bool := bytes_eqb (bw_s a) (bw_s b) && (bw_i a =? bw_i b).
Definition lit_opt_eqb {A} (e : A -> A -> bool) (a b : option A) : bool :=
  match a, b with Some x, Some y => e x y | None, None => true | _, _ => false end.
Definition lit_pr_eqb (a b : ports_range) : bool :=
  (pr_start a =? pr_start b) && (pr_end a =? pr_end b) && (pr_single a =? pr_single b).
Definition lit_pair_sb_eqb (a b : bytes * bool) : bool :=
  bytes_eqb (fst a) (fst b) && Bool.eqb (snd a) (snd b).
