package main

// Part of driver httpauth: every credential this property depends on must arrive unchanged when the configuration is a
// LEGACY INI file.  The same configuration is written as ini and as toml and loaded through the real loader
// (config.LoadServerConfig / LoadClientConfig); the credential-carrying fields are compared.

import (
	"fmt"
	"os"
	"path/filepath"
	"sort"

	"github.com/fatedier/frp/pkg/config"
	v1 "github.com/fatedier/frp/pkg/config/v1"
)

func init() { extraParts = append(extraParts, (*run).legacyIniPart) }

const frpsIni = `[common]
bind_port = 7000
dashboard_port = 7500
dashboard_user = dash-user
dashboard_pwd = dash-pwd
`
const frpsToml = `bindPort = 7000
webServer.port = 7500
webServer.user = "dash-user"
webServer.password = "dash-pwd"
`
const frpcIni = `[common]
server_addr = 127.0.0.1
server_port = 7000
admin_port = 7400
admin_user = adm-user
admin_pwd = adm-pwd

[web]
type = http
local_port = 80
custom_domains = web.test
http_user = alice
http_pwd = apw
route_by_http_user = alice

[mux]
type = tcpmux
multiplexer = httpconnect
local_port = 22
custom_domains = mux.test
http_user = bob
http_pwd = bpw
route_by_http_user = bob

[hp]
type = tcp
remote_port = 6000
plugin = http_proxy
plugin_http_user = hp-user
plugin_http_passwd = hp-pwd

[s5]
type = tcp
remote_port = 6001
plugin = socks5
plugin_user = s5-user
plugin_passwd = s5-pwd

[sf]
type = tcp
remote_port = 6002
plugin = static_file
plugin_local_path = /tmp
plugin_strip_prefix = static
plugin_http_user = sf-user
plugin_http_passwd = sf-pwd
`
const frpcToml = `serverAddr = "127.0.0.1"
serverPort = 7000
webServer.port = 7400
webServer.user = "adm-user"
webServer.password = "adm-pwd"

[[proxies]]
name = "web"
type = "http"
localPort = 80
customDomains = ["web.test"]
httpUser = "alice"
httpPassword = "apw"
routeByHTTPUser = "alice"

[[proxies]]
name = "mux"
type = "tcpmux"
multiplexer = "httpconnect"
localPort = 22
customDomains = ["mux.test"]
httpUser = "bob"
httpPassword = "bpw"
routeByHTTPUser = "bob"

[[proxies]]
name = "hp"
type = "tcp"
remotePort = 6000
[proxies.plugin]
type = "http_proxy"
httpUser = "hp-user"
httpPassword = "hp-pwd"

[[proxies]]
name = "s5"
type = "tcp"
remotePort = 6001
[proxies.plugin]
type = "socks5"
username = "s5-user"
password = "s5-pwd"

[[proxies]]
name = "sf"
type = "tcp"
remotePort = 6002
[proxies.plugin]
type = "static_file"
localPath = "/tmp"
stripPrefix = "static"
httpUser = "sf-user"
httpPassword = "sf-pwd"
`

func credentialFields(s *v1.ServerConfig, c *v1.ClientCommonConfig, pxs []v1.ProxyConfigurer) map[string]string {
	m := map[string]string{}
	if s != nil {
		m["frps.webServer.user"], m["frps.webServer.password"] = s.WebServer.User, s.WebServer.Password
	}
	if c != nil {
		m["frpc.webServer.user"], m["frpc.webServer.password"] = c.WebServer.User, c.WebServer.Password
	}
	for _, p := range pxs {
		n := p.GetBaseConfig().Name
		switch x := p.(type) {
		case *v1.HTTPProxyConfig:
			m[n+".httpUser"], m[n+".httpPassword"], m[n+".routeByHTTPUser"] = x.HTTPUser, x.HTTPPassword, x.RouteByHTTPUser
		case *v1.TCPMuxProxyConfig:
			m[n+".httpUser"], m[n+".httpPassword"], m[n+".routeByHTTPUser"] = x.HTTPUser, x.HTTPPassword, x.RouteByHTTPUser
		}
		switch o := p.GetBaseConfig().Plugin.ClientPluginOptions.(type) {
		case *v1.HTTPProxyPluginOptions:
			m[n+".plugin.httpUser"], m[n+".plugin.httpPassword"] = o.HTTPUser, o.HTTPPassword
		case *v1.Socks5PluginOptions:
			m[n+".plugin.username"], m[n+".plugin.password"] = o.Username, o.Password
		case *v1.StaticFilePluginOptions:
			m[n+".plugin.httpUser"], m[n+".plugin.httpPassword"] = o.HTTPUser, o.HTTPPassword
		}
	}
	return m
}

func (r *run) legacyIniPart(_ []credKind) error {
	dir, err := os.MkdirTemp("", "c07ini")
	if err != nil {
		return err
	}
	defer os.RemoveAll(dir)
	write := func(name, content string) string {
		p := filepath.Join(dir, name)
		_ = os.WriteFile(p, []byte(content), 0o600)
		return p
	}
	load := func(sp, cp string) (map[string]string, error) {
		s, _, err := config.LoadServerConfig(sp, false)
		if err != nil {
			return nil, fmt.Errorf("%s: %w", sp, err)
		}
		c, pxs, _, _, err := config.LoadClientConfig(cp, false)
		if err != nil {
			return nil, fmt.Errorf("%s: %w", cp, err)
		}
		return credentialFields(s, c, pxs), nil
	}
	ini, err := load(write("frps.ini", frpsIni), write("frpc.ini", frpcIni))
	if err != nil {
		r.errs++
		r.fail("zz-driver-io:legacy-ini", "loading the legacy ini configuration failed: "+err.Error(), "")
		return nil
	}
	toml, err := load(write("frps.toml", frpsToml), write("frpc.toml", frpcToml))
	if err != nil {
		r.errs++
		r.fail("zz-driver-io:legacy-ini", "loading the toml configuration failed: "+err.Error(), "")
		return nil
	}
	keys := []string{}
	for k := range toml {
		keys = append(keys, k)
	}
	sort.Strings(keys)
	bad := 0
	for _, k := range keys {
		if toml[k] == "" {
			r.fail("zz-driver-io:legacy-ini", "the toml reference configuration lost field "+k, "")
		}
		if ini[k] != toml[k] {
			bad++
			r.fail("legacy-ini-credential-differs:"+k,
				fmt.Sprintf("the credential field %s is %q when the configuration is loaded from toml and %q when the same configuration is a legacy ini file", k, toml[k], ini[k]),
				"frps.ini / frpc.ini of harness/cmd/c07/legacyini.go through config.LoadServerConfig / LoadClientConfig")
		}
	}
	r.notes["legacy_ini_credential_fields_compared"] = len(keys)
	r.notes["legacy_ini_credential_fields_differing"] = bad
	return nil
}
