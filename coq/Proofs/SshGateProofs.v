(* C04 — proofs about Model/SshGate.v *)
From FRP Require Import Model.Auth Model.SshGate Proofs.AuthProofs.
Open Scope Z_scope.

Lemma sg_auth_no_file attempts : forall perm, sg_auth SgNoFile attempts = Some perm -> perm = None.
Proof.
  induction attempts as [|a r IH]; cbn; [discriminate|]. destruct a as [|key poss|]; cbn.
  - now intros perm [= <-].
  - exact IH.
  - exact IH.
Qed.

Lemma sg_auth_file_authorised k attempts : sg_no_client_auth k = false ->
  forall perm, sg_auth k attempts = Some perm -> sg_key_authorised k attempts.
Proof.
  intros N. induction attempts as [|a r IH]; cbn; [discriminate|]. intros perm.
  assert (forall p, sg_auth k r = Some p -> sg_key_authorised k (a :: r)) as Rest.
  { intros p E. destruct (IH p E) as (l & key & u & Ek & I & L). exists l, key, u. repeat split; try assumption. now right. }
  destruct a as [|key poss|]; cbn.
  - rewrite N. apply Rest.
  - destruct (sg_callback k key) as [u|] eqn:C; [|apply Rest]. destruct poss; [|apply Rest].
    intros _. destruct k as [| |l]; cbn in C; try discriminate. exists l, key, u. repeat split; [now left | assumption].
  - apply Rest.
Qed.

Section SshGateProofs.
  Variable H : bytes -> Z -> bytes.
  Variable oidc : bytes -> Z -> option bytes.
  Variable c : au_cfg.

  (* a virtual-client session exists only if the ssh key is authorised by the configured file or the token is valid *)
  Theorem sg_session_implies_key_or_token k s conn now gen attempts cmd_token cmd_user ts pool s' rid sid :
    sg_step H oidc c k s conn now gen attempts cmd_token cmd_user ts pool = (s', SgForwarded (AuOLoginOk rid sid)) ->
    sg_key_authorised k attempts \/
    exists perm, au_login_cred_ok H oidc c now (sg_login H k perm cmd_token cmd_user ts pool) = true.
  Proof.
    unfold sg_step. destruct (sg_auth k attempts) as [perm|] eqn:A; [|discriminate].
    destruct (sg_no_client_auth k) eqn:N.
    - (* no authorized_keys file: the flag is off, so the configured verifier decided *)
      intros E. right. exists perm.
      destruct (au_login_cred_ok H oidc c now (sg_login H k perm cmd_token cmd_user ts pool)) eqn:Cr; [reflexivity|].
      exfalso.
      destruct (au_bad_login_refused H oidc c s true conn now gen _ Cr) as [e R].
      { cbn. unfold sg_always_pass. now rewrite N. }
      rewrite R in E. discriminate.
    - intros _. left. now apply (sg_auth_file_authorised k attempts N perm).
  Qed.

  (* the configuration the batch-3 seed attacks: no authorized_keys file => only the token admits *)
  Corollary sg_no_file_needs_token s conn now gen attempts cmd_token cmd_user ts pool s' rid sid :
    sg_step H oidc c SgNoFile s conn now gen attempts cmd_token cmd_user ts pool = (s', SgForwarded (AuOLoginOk rid sid)) ->
    au_login_cred_ok H oidc c now (sg_login H SgNoFile None cmd_token cmd_user ts pool) = true.
  Proof.
    intros E. pose proof E as E0. unfold sg_step in E0.
    destruct (sg_auth SgNoFile attempts) as [perm|] eqn:A; [|discriminate].
    apply sg_auth_no_file in A. subst perm.
    destruct (sg_session_implies_key_or_token _ _ _ _ _ _ _ _ _ _ _ _ _ E) as [(l & key & u & Ek & _)|[perm Cr]]; [discriminate|].
    exact Cr.
  Qed.

  (* whatever does not end in LoginOk leaves the server state as it was *)
  Theorem sg_refused_leaves_state k s conn now gen attempts cmd_token cmd_user ts pool :
    (forall rid sid, snd (sg_step H oidc c k s conn now gen attempts cmd_token cmd_user ts pool) <> SgForwarded (AuOLoginOk rid sid)) ->
    fst (sg_step H oidc c k s conn now gen attempts cmd_token cmd_user ts pool) = s.
  Proof.
    unfold sg_step. destruct (sg_auth k attempts) as [perm|]; [|reflexivity].
    set (e := AuEFirst true conn now gen (AuFLogin (sg_login H k perm cmd_token cmd_user ts pool))).
    destruct (au_step H oidc c s e) as [s' o] eqn:E. cbn. intros NoOk.
    assert (au_is_refusal o = true) as R.
    { unfold e in E. cbn in E. destruct (au_verify_login _ _ _ _ _ _ _) in E; inversion E; subst; [|reflexivity].
      exfalso. eapply NoOk. reflexivity. }
    pose proof (au_refused_unchanged H oidc c s e) as U. rewrite E in U. cbn in U. now apply U.
  Qed.
End SshGateProofs.
