(* C20: the general lemmas of NatHoleProofs instantiated with the data translated from today's source. *)
From FRP Require Import Model.NatHoleToday Proofs.NatHoleProofs.
From Coq Require Import Lia.
Open Scope Z_scope.

(* keep the unifier from unfolding today's concrete tables; vm_compute is not affected *)
Opaque nh_today.

Definition nh_is_some {A} (o : option A) : bool := match o with Some _ => true | None => false end.

(* the reflective obligation over today's generated tables, swap guards, clamps and port test *)
Definition nh_today_ok : bool :=
  nh_is_some nh_today_opt && nh_data_ok nh_today && nh_today_source_as_modelled && nh_today_xtcp_registration_sync &&
  nh_today_tr_send_blocking && nh_today_ctl_registration_in_read_loop && nh_today_sid_codec_symmetric.

Definition nh_rule_prop (mode : Z) (c v : nh_feature) (cr vr : nh_role) : Prop :=
  (mode = 1 -> nf_nat c = NhHard \/ nf_nat v = NhHard ->
     (cr = NhSender /\ nf_nat c = NhHard) \/ (vr = NhSender /\ nf_nat v = NhHard)) /\
  (mode = 2 -> nf_nat c = NhHard \/ nf_nat v = NhHard ->
     (cr = NhReceiver /\ nf_nat c = NhHard) \/ (vr = NhReceiver /\ nf_nat v = NhHard)) /\
  (mode = 4 -> nf_regular c = true \/ nf_regular v = true ->
     (cr = NhSender /\ nf_regular c = true) \/ (vr = NhSender /\ nf_regular v = true)).

Lemma nh_rule_roles_prop mode c v cr vr : nh_rule_roles mode c v cr vr = true -> nh_rule_prop mode c v cr vr.
Proof.
  unfold nh_rule_roles, nh_rule_prop, nh_is_hard, nh_sends, nh_receives.
  repeat split; intros -> Hx; cbn in H;
    destruct (nf_nat c), (nf_nat v), (nf_regular c), (nf_regular v), cr, vr; cbn in H;
    try discriminate; destruct Hx; try discriminate; tauto.
Qed.

Section Today.
  Hypothesis TODAY : nh_today_ok = true.

  Lemma nh_T_ok : nh_data_ok nh_today = true.
  Proof. unfold nh_today_ok in TODAY. rewrite !andb_true_iff in TODAY. tauto. Qed.

  Lemma nh_T_never_panics ops : exists a outs, nh_run_analyzer nh_today [] ops = Some (a, outs).
  Proof.
    destruct (nh_run_analyzer_ok nh_today nh_T_ok ops [] (nh_inv_nil nh_today)) as [a [outs [E _]]]. eauto.
  Qed.

  Lemma nh_T_entries_invariant ops a outs :
    nh_run_analyzer nh_today [] ops = Some (a, outs) ->
    forall k l, nh_rec_get k a = Some l ->
    exists c v, map nh_entry l = map nh_entry (nh_init_scores nh_today c v).
  Proof.
    intros E. apply (nh_reachable_inv nh_today nh_T_ok a). exists ops, outs. exact E.
  Qed.

  Lemma nh_T_next ops a outs k c v :
    nh_run_analyzer nh_today [] ops = Some (a, outs) ->
    exists a' r, nh_get_recommand nh_today a k c v = Some (a', r) /\ nh_reco_ok nh_today c v r.
  Proof.
    intros E. assert (Ha : nh_inv nh_today a) by (apply (nh_reachable_inv nh_today nh_T_ok); exists ops, outs; exact E).
    destruct (nh_get_recommand_ok nh_today nh_T_ok a k c v Ha) as [a' [r [E' [_ Hr]]]]. eauto.
  Qed.

  Lemma nh_T_recommendation_is_entry ops a outs k c v :
    nh_run_analyzer nh_today [] ops = Some (a, outs) ->
    exists a' r, nh_get_recommand nh_today a k c v = Some (a', r) /\
      (exists c0 v0, In (rc_mode r, rc_index r) (map nh_entry (nh_init_scores nh_today c0 v0))) /\
      0 <= rc_index r < nh_len (nh_table nh_today (rc_mode r)).
  Proof.
    intros E. destruct (nh_T_next ops a outs k c v E) as [a' [r [E' [_ [Hi [_ [_ He]]]]]]]. eauto.
  Qed.

  Lemma nh_T_roles_complementary ops a outs k c v :
    nh_run_analyzer nh_today [] ops = Some (a, outs) ->
    exists a' r, nh_get_recommand nh_today a k c v = Some (a', r) /\
      ((nb_role (rc_cbeh r) = NhSender /\ nb_role (rc_vbeh r) = NhReceiver) \/
       (nb_role (rc_cbeh r) = NhReceiver /\ nb_role (rc_vbeh r) = NhSender)).
  Proof.
    intros E. destruct (nh_T_next ops a outs k c v E) as [a' [r [E' [Hc _]]]].
    exists a', r. split; [exact E'|]. rewrite nh_compl_swap in Hc. apply nh_compl_roles in Hc. tauto.
  Qed.

  Lemma nh_T_role_rules ops a outs k c v :
    nh_run_analyzer nh_today [] ops = Some (a, outs) ->
    exists a' r, nh_get_recommand nh_today a k c v = Some (a', r) /\
      nh_rule_prop (rc_mode r) c v (nb_role (rc_cbeh r)) (nb_role (rc_vbeh r)).
  Proof.
    intros E. destruct (nh_T_next ops a outs k c v E) as [a' [r [E' [_ [_ [Hr _]]]]]].
    exists a', r. split; [exact E'|]. apply nh_rule_roles_prop. exact Hr.
  Qed.

  Lemma nh_T_fresh_modes_fit c v m i :
    In (m, i) (map nh_entry (nh_init_scores nh_today c v)) ->
    (m = 1 \/ m = 2 -> nf_nat c = NhHard \/ nf_nat v = NhHard) /\
    (m = 4 -> (nf_nat c = NhHard /\ nf_regular c = true) \/ (nf_nat v = NhHard /\ nf_regular v = true)).
  Proof.
    intros H. change (In (m, i) (nh_entries (nh_init_scores nh_today c v))) in H.
    destruct (nh_ok_init nh_today nh_T_ok c v) as [_ Hv]. destruct (Hv _ H) as [_ Hf]. clear Hv H.
    unfold nh_mode_fits, nh_is_hard in Hf. cbn [fst] in Hf. apply andb_true_iff in Hf. destruct Hf as [H1 H2]. split.
    - intros [-> | ->]; cbn in H1; destruct (nf_nat c), (nf_nat v); cbn in H1; try discriminate H1; auto.
    - intros ->. cbn in H2. destruct (nf_nat c), (nf_nat v), (nf_regular c), (nf_regular v); cbn in H2; try discriminate H2; auto.
  Qed.

  (* ---- the two responses ---- *)
  Lemma nh_T_responses a sid vm cm :
    nh_reachable nh_today a ->
    exists a' rv rc, nh_responses nh_today a sid vm cm = Some (a', rv, rc) /\
                     ((nh_instruction_pair sid vm cm rv rc /\ nh_resp_timing nh_today rv rc) \/ nh_error_pair vm cm rv rc).
  Proof.
    intros Hr. destruct (nh_responses_ok nh_today nh_T_ok a sid vm cm (nh_reachable_inv nh_today nh_T_ok a Hr))
      as [a' [rv [rc [E [_ H]]]]]. exists a', rv, rc. split; [exact E|tauto].
  Qed.

  Lemma nh_error_pair_err vm cm rv rc : nh_error_pair vm cm rv rc -> r_err rv <> NeNone /\ r_err rc <> NeNone.
  Proof. intros [e [He [-> ->]]]. cbn. tauto. Qed.

  Lemma nh_T_same_sid_and_mode a sid vm cm :
    nh_reachable nh_today a ->
    exists a' rv rc, nh_responses nh_today a sid vm cm = Some (a', rv, rc) /\
      (r_err rv = NeNone \/ r_err rc = NeNone ->
       r_err rv = NeNone /\ r_err rc = NeNone /\ r_sid rv = sid /\ r_sid rc = sid /\ r_mode rv = r_mode rc /\
       r_tid rv = vm_tid vm /\ r_tid rc = cm_tid cm).
  Proof.
    intros Hr. destruct (nh_T_responses a sid vm cm Hr) as [a' [rv [rc [E [[H Htm]|H]]]]]; exists a', rv, rc; (split; [exact E|]).
    - unfold nh_instruction_pair in H. tauto.
    - apply nh_error_pair_err in H. tauto.
  Qed.

  Lemma nh_T_each_gets_the_others_candidates a sid vm cm :
    nh_reachable nh_today a ->
    exists a' rv rc, nh_responses nh_today a sid vm cm = Some (a', rv, rc) /\
      (r_err rv = NeNone \/ r_err rc = NeNone ->
       r_cands rv = nh_compact (cm_mapped cm) /\ r_assisted rv = nh_compact (cm_assisted cm) /\
       r_cands rc = nh_compact (vm_mapped vm) /\ r_assisted rc = nh_compact (vm_assisted vm)).
  Proof.
    intros Hr. destruct (nh_T_responses a sid vm cm Hr) as [a' [rv [rc [E [[H Htm]|H]]]]]; exists a', rv, rc; (split; [exact E|]).
    - unfold nh_instruction_pair in H. tauto.
    - apply nh_error_pair_err in H. tauto.
  Qed.

  Lemma nh_T_response_roles a sid vm cm :
    nh_reachable nh_today a ->
    exists a' rv rc, nh_responses nh_today a sid vm cm = Some (a', rv, rc) /\
      (r_err rv = NeNone \/ r_err rc = NeNone ->
       ((r_role rv = NhSender /\ r_role rc = NhReceiver) \/ (r_role rv = NhReceiver /\ r_role rc = NhSender)) /\
       exists cf vf, nh_classify (cm_mapped cm) (nh_parse_ips (cm_assisted cm)) = inl cf /\
                     nh_classify (vm_mapped vm) (nh_parse_ips (vm_assisted vm)) = inl vf /\
                     nh_rule_prop (r_mode rv) cf vf (r_role rc) (r_role rv)).
  Proof.
    intros Hr. destruct (nh_T_responses a sid vm cm Hr) as [a' [rv [rc [E [[H Htm]|H]]]]]; exists a', rv, rc; (split; [exact E|]).
    - unfold nh_instruction_pair in H. intros _. split; [tauto|].
      destruct H as (_&_&_&_&_&_&_&_&_&_&_&_&_&_&_&_&_&_&_&cf&vf&H1&H2&H3).
      exists cf, vf. split; [exact H1|]. split; [exact H2|]. apply nh_rule_roles_prop. exact H3.
    - apply nh_error_pair_err in H. tauto.
  Qed.

  Lemma nh_T_ranges_wellformed a sid vm cm :
    nh_reachable nh_today a ->
    exists a' rv rc, nh_responses nh_today a sid vm cm = Some (a', rv, rc) /\
      forall from to, In (from, to) (r_ranges rv ++ r_ranges rc) -> 1 <= from /\ from <= to /\ to <= 65535.
  Proof.
    intros Hr. destruct (nh_T_responses a sid vm cm Hr) as [a' [rv [rc [E [[H Htm]|H]]]]]; exists a', rv, rc; (split; [exact E|]).
    - destruct H as (_&_&_&_&_&_&_&_&_&_&_&_&_&_&H1&H2&_). intros from to Hin.
      apply in_app_or in Hin. rewrite Forall_forall in H1, H2.
      destruct Hin as [Hin|Hin]; [apply (H1 _ Hin)|apply (H2 _ Hin)].
    - destruct H as [e [_ [-> ->]]]. cbn. tauto.
  Qed.

  Lemma nh_T_malformed_yields_error_to_both a sid vm cm :
    (length (cm_mapped cm) <= 1)%nat \/ (length (vm_mapped vm) <= 1)%nat \/
    (exists x, In x (cm_mapped cm ++ vm_mapped vm) /\ nh_addr_ok x = false) ->
    exists e, e <> NeNone /\
      nh_responses nh_today a sid vm cm = Some (a, nh_err_resp (vm_tid vm) e, nh_err_resp (cm_tid cm) e).
  Proof. exact (nh_responses_malformed nh_today nh_T_ok a sid vm cm). Qed.

  (* conversely an instruction is only ever built from well-formed observations *)
  Lemma nh_T_instruction_only_if_wellformed a sid vm cm :
    nh_reachable nh_today a ->
    exists a' rv rc, nh_responses nh_today a sid vm cm = Some (a', rv, rc) /\
      (r_err rv = NeNone \/ r_err rc = NeNone ->
       (2 <= length (cm_mapped cm))%nat /\ (2 <= length (vm_mapped vm))%nat /\
       forall x, In x (cm_mapped cm ++ vm_mapped vm) -> nh_addr_ok x = true).
  Proof.
    intros Hr. destruct (nh_T_responses a sid vm cm Hr) as [a' [rv [rc [E [[H Htm]|H]]]]]; exists a', rv, rc; (split; [exact E|]).
    - destruct H as (_&_&_&_&_&_&_&_&_&_&_&_&_&_&_&_&H1&H2&H3&_). intros _. rewrite Forall_forall in H1. tauto.
    - apply nh_error_pair_err in H. tauto.
  Qed.
  (* the receiver is still listening when the sender starts: ReadTimeoutMs of the receiving side >= SendDelayMs of the
     sending side + the server's stagger before the sender's response + nh_margin (3 s); the sender waits >= nh_margin *)
  Lemma nh_T_receiver_still_listening a sid vm cm :
    nh_reachable nh_today a ->
    exists a' rv rc, nh_responses nh_today a sid vm cm = Some (a', rv, rc) /\
      (r_err rv = NeNone \/ r_err rc = NeNone -> nh_resp_timing nh_today rv rc).
  Proof.
    intros Hr. destruct (nh_T_responses a sid vm cm Hr) as [a' [rv [rc [E [[H Htm]|H]]]]]; exists a', rv, rc; (split; [exact E|]).
    - intros _. exact Htm.
    - apply nh_error_pair_err in H. tauto.
  Qed.
End Today.
