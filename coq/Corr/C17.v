(* C17 correspondence: observed behaviour of pkg/msg (real WriteMsg / ReadMsg) against the model. *)
From FRP Require Export Corr.Common Model.Frame Model.MsgObj Proofs.RegistryCheck gen.GenMsg Golden.GoldenMsg.
Open Scope Z_scope.

Definition today_registry := registry type_consts type_map.
Definition registered := reg_of today_registry.

Definition byte_of_name (s : string) : option Z :=
  match filter (fun e : Z * string => String.eqb (snd e) s) today_registry with
  | (b, _) :: _ => Some b
  | [] => None
  end.

(* observed result classes of msg.ReadMsg fed from a counting reader *)
(* 0 ok | 1 EOF before anything | 2 ErrMsgType | 3 EOF inside length or body (io.EOF /
   io.ErrUnexpectedEOF do not say where) | 4 ErrMaxMsgLength | 5 ErrMsgLength
   7 frame fine, JSON body rejected *)
Inductive case :=
| CFrame (input : bytes) (cls consumed t : Z)
| CMsg (sname : string) (vals : list gv) (wire : bytes) (obj : list (bytes * jv)) (back_equal : bool).

Definition class_of (o : dout) : Z :=
  match o with
  | DOk _ _ _ => 0
  | DErr ErrEOF _ _ => 1 | DErr ErrType _ _ => 2 | DErr ErrShortLen _ _ => 3
  | DErr ErrMaxLen _ _ => 4 | DErr ErrLen _ _ => 5 | DErr ErrShortBody _ _ => 3
  end.

Fixpoint jv_eqb (a b : jv) {struct a} : bool :=
  match a, b with
  | JNull, JNull => true
  | JBool x, JBool y => Bool.eqb x y
  | JNum x, JNum y => x =? y
  | JStr x, JStr y => bytes_eqb x y
  | JArr x, JArr y =>
      (fix go (x y : list jv) : bool :=
         match x, y with
         | [], [] => true
         | a' :: x', b' :: y' => jv_eqb a' b' && go x' y'
         | _, _ => false
         end) x y
  | JObj x, JObj y =>
      (fix go (x y : list (bytes * jv)) : bool :=
         match x, y with
         | [], [] => true
         | (k, a') :: x', (k', b') :: y' => bytes_eqb k k' && jv_eqb a' b' && go x' y'
         | _, _ => false
         end) x y
  | _, _ => false
  end.

Fixpoint gv_eqb (a b : gv) {struct a} : bool :=
  let list_eqb := fix go (x y : list gv) : bool :=
    match x, y with
    | [], [] => true
    | a' :: x', b' :: y' => gv_eqb a' b' && go x' y'
    | _, _ => false
    end in
  match a, b with
  | VStr x, VStr y => bytes_eqb x y
  | VInt x, VInt y => x =? y
  | VBool x, VBool y => Bool.eqb x y
  | VMap x, VMap y =>
      (fix go (x y : list (bytes * bytes)) : bool :=
         match x, y with
         | [], [] => true
         | (k, v) :: x', (k', v') :: y' => bytes_eqb k k' && bytes_eqb v v' && go x' y'
         | _, _ => false
         end) x y
  | VStrs x, VStrs y =>
      (fix go (x y : list bytes) : bool :=
         match x, y with
         | [], [] => true
         | a' :: x', b' :: y' => bytes_eqb a' b' && go x' y'
         | _, _ => false
         end) x y
  | VStruct x, VStruct y => list_eqb x y
  | VStructs x, VStructs y =>
      (fix go2 (x y : list (list gv)) : bool :=
         match x, y with
         | [], [] => true
         | a' :: x', b' :: y' => list_eqb a' b' && go2 x' y'
         | _, _ => false
         end) x y
  | VPtr None, VPtr None => true
  | VPtr (Some x), VPtr (Some y) => list_eqb x y
  | _, _ => false
  end.

(* Released-protocol view of a message: when today's struct has the same shape as the pinned one (same
   Go field names and kinds, recursively; json names and omitempty flags are what is being compared),
   the object a RELEASED build would write for the same values must be the object observed on the wire.
   A renamed json tag or a changed omitempty flag then shows up on a concrete message (reason code 18)
   in addition to breaking C17_wire_stable.  Structs that gained fields are skipped here (wire_stable
   covers them). *)
Fixpoint kind_shape_eqb (a b : kind) : bool :=
  let fields_eqb := fix go (x y : list field) : bool :=
    match x, y with
    | [], [] => true
    | (g, _, k, _) :: x', (g', _, k', _) :: y' => String.eqb g g' && kind_shape_eqb k k' && go x' y'
    | _, _ => false
    end in
  match a, b with
  | KStr, KStr | KInt, KInt | KBool, KBool | KMapSS, KMapSS | KStrs, KStrs => true
  | KStruct x, KStruct y | KStructs x, KStructs y | KPtr x, KPtr y => fields_eqb x y
  | _, _ => false
  end.

Definition released_object_ok (sname : string) (fs : list field) (vals : list gv) (obj : list (bytes * jv)) : bool :=
  match assoc sname golden_structs with
  | Some gfs =>
      if kind_shape_eqb (KStruct gfs) (KStruct fs) then jv_eqb (JObj obj) (JObj (enc_obj gfs vals)) else true
  | None => true
  end.

(* 0 = agrees; otherwise a reason code *)
Definition check_case (c : case) : Z :=
  match c with
  | CFrame input cls consumed t =>
      let o := decode_frame registered input in
      let mcls := class_of o in
      (* the model's DOk covers the implementation's "ok" and "JSON body rejected" *)
      if negb ((mcls =? cls) || ((mcls =? 0) && (cls =? 7))) then 1
      else if negb (out_consumed o =? consumed) then 2
      else match o with
           | DOk r _ _ => if Z_of_byte (d_type r) =? t then 0 else 3
           | _ => 0
           end
  | CMsg sname vals wire obj back_equal =>
      match byte_of_name sname, assoc sname structs with
      | Some b, Some fs =>
          if negb (typed_fields_with typed fs vals) then 11
          else match decode_frame registered wire with
               | DOk r c _ =>
                   if negb (Z_of_byte (d_type r) =? b) then 12
                   else if negb (c =? blen wire) then 13
                   else if negb (jv_eqb (JObj obj) (JObj (enc_obj fs vals))) then 14
                   else if negb (released_object_ok sname fs vals obj) then 18
                   else match dec_obj fs obj with
                        | Some vs' => if gv_eqb (VStruct vs') (VStruct vals)
                                      then (if back_equal then 0 else 16) else 15
                        | None => 15
                        end
               | _ => 17
               end
      | _, _ => 10
      end
  end.

Definition is_msg (c : case) : bool := match c with CMsg _ _ _ _ _ => true | _ => false end.
