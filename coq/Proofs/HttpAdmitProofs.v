(* C02 — proofs about Model/HttpAdmit.v *)
From Coq Require Import Lia.
From FRP Require Import Model.HttpAdmit Proofs.HttpRewriteProofs.
Open Scope Z_scope.

Lemma ht_get_conn_uncapped : forall s, fst (ht_get_conn 0 s) <> HtQueued.
Proof. intros s. unfold ht_get_conn. destruct (0 <? ht_idle s); simpl; discriminate. Qed.

(* without a cap no request of any history over any number of routes ever waits inside the transport *)
Theorem ht_never_queued : forall ops st, ~ In HtQueued (ht_run 0 st ops).
Proof.
  induction ops as [|op ops IH]; intros st; simpl; [tauto|].
  destruct op as [k|k keep]; simpl.
  - pose proof (ht_get_conn_uncapped (ht_find k st)) as H.
    destruct (ht_get_conn 0 (ht_find k st)) as [a s]. simpl in *.
    intros [Ha|Hin]; [congruence|]. exact (IH _ Hin).
  - apply IH.
Qed.

Lemma ht_lookup_reviewed : forall fs,
  forallb (fun f => ht_str_mem (fst f) ht_reviewed_fields) fs = true ->
  ht_lookup "MaxConnsPerHost" fs = None.
Proof.
  induction fs as [|[n v] fs IH]; simpl; intro H; [reflexivity|].
  apply andb_true_iff in H. destruct H as [H1 H2].
  destruct (String.eqb n "MaxConnsPerHost") eqn:E; [|exact (IH H2)].
  apply String.eqb_eq in E. subst n. vm_compute in H1. discriminate.
Qed.

Theorem ht_literal_ok_sound : forall nlits fs assigned,
  ht_literal_ok nlits fs assigned = true ->
  ht_max_conns fs = Some 0 /\ forall ops st, ~ In HtQueued (ht_run 0 st ops).
Proof.
  intros nlits fs assigned H. unfold ht_literal_ok in H.
  apply andb_true_iff in H. destruct H as [H _]. apply andb_true_iff in H. destruct H as [_ H].
  split; [|exact ht_never_queued].
  unfold ht_max_conns. rewrite (ht_lookup_reviewed fs H). reflexivity.
Qed.

(* the cap does matter: with 5 connections per key, the sixth concurrent exchange of a route waits,
   while another route is served *)
Definition ht_six (k : bytes) : list ht_op := repeat (HtRequest k) 6.
Theorem ht_cap5_queues : forall k k', k <> k' ->
  ht_run 5 [] (ht_six k ++ [HtRequest k']) = [HtDial; HtDial; HtDial; HtDial; HtDial; HtQueued; HtDial].
Proof.
  intros k k' Hne.
  pose proof (hr_bytes_eqb_neq k k' Hne) as Hn.
  pose proof (hr_bytes_eqb_refl k) as Hr.
  unfold ht_six. cbn -[bytes_eqb]. unfold ht_get_conn. cbn -[bytes_eqb].
  repeat (rewrite ?Hr, ?Hn; cbn -[bytes_eqb]). reflexivity.
Qed.

(* ---------------------------------------------------------------------------------------- *)
(* recycling of pooled compression resources *)
Theorem rc_sites_safe_sound : forall sites,
  rc_sites_safe sites = true ->
  sites <> [] /\
  forall file fn evs p, In (file, fn, evs) sites -> In p (rc_paths evs) -> rc_path_safe p false false = true.
Proof.
  intros sites H. destruct sites as [|s0 sites]; [discriminate|]. split; [discriminate|].
  intros file fn evs p Hin Hp. unfold rc_sites_safe in H.
  rewrite forallb_forall in H. specialize (H _ Hin). simpl in H.
  unfold rc_site_safe in H. rewrite forallb_forall in H. exact (H _ Hp).
Qed.

(* the shape with a deferred recycle next to an asynchronous hand-off is refused: on the path through the
   plugin the function returns, the deferred call fires, the stream is still being served *)
Example rc_defer_with_async_unsafe :
  rc_site_safe [RcIf [RcAcquire; RcDefer] false; RcIf [RcAsync] true; RcIf [RcClose] true; RcJoin] = false /\
  In [RcAcquire; RcDefer; RcAsync] (rc_paths [RcIf [RcAcquire; RcDefer] false; RcIf [RcAsync] true; RcIf [RcClose] true; RcJoin]).
Proof. split; vm_compute; tauto. Qed.

(* ---------------------------------------------------------------------------------------- *)
(* deadlines of a routed connection *)
Lemma mx_deliver_unarmed : forall timeout chunks, mx_deliver false timeout chunks = List.concat (map snd chunks).
Proof. induction chunks as [|[a d] r IH]; simpl; [reflexivity|]. rewrite IH. reflexivity. Qed.

Lemma mx_reads_unarmed : forall timeout ages, mx_reads false timeout ages = Z.of_nat (length ages).
Proof.
  induction ages as [|a r IH]; [reflexivity|].
  change (mx_reads false timeout (a :: r)) with (1 + mx_reads false timeout r). rewrite IH.
  change (length (a :: r)) with (S (length r)). rewrite Nat2Z.inj_succ. apply Z.add_1_l.
Qed.

(* a response (or any stream towards the user) of any duration, and requests at any age, pass a connection
   that was handed over with both deadlines cleared *)
Theorem mx_clean_transparent : forall ops,
  mx_handoff_clean ops = true ->
  (forall timeout chunks, mx_deliver_after ops timeout chunks = Some (List.concat (map snd chunks))) /\
  (forall timeout ages, mx_reads_after ops timeout ages = Some (Z.of_nat (length ages))).
Proof.
  intros ops H. unfold mx_handoff_clean in H. unfold mx_deliver_after, mx_reads_after.
  destruct (mx_at_handoff ops (false, false)) as [[rd wr]|]; [|discriminate].
  destruct rd; [discriminate|]. destruct wr; [discriminate|].
  split; intros; [rewrite mx_deliver_unarmed|rewrite mx_reads_unarmed]; reflexivity.
Qed.

(* clearing only the read deadline is refused, and a chunk written after the timeout is lost *)
Example mx_read_only_clear_cuts :
  mx_handoff_clean [MxArm MxBoth; MxClear MxRead; MxHandoff] = false /\
  mx_deliver_after [MxArm MxBoth; MxClear MxRead; MxHandoff] 30000 [(10, [x61]); (31000, [x62])] = Some [x61].
Proof. split; reflexivity. Qed.

(* ---------------------------------------------------------------------------------------- *)
(* request heads admitted by the vhost HTTP server *)
Lemma hsv_lookup_reviewed : forall fs,
  forallb (fun f => ht_str_mem (fst f) hsv_reviewed_fields) fs = true ->
  ht_lookup "MaxHeaderBytes" fs = None.
Proof.
  induction fs as [|[n v] fs IH]; simpl; intro H; [reflexivity|].
  apply andb_true_iff in H. destruct H as [H1 H2].
  destruct (String.eqb n "MaxHeaderBytes") eqn:E; [|exact (IH H2)].
  apply String.eqb_eq in E. subst n. vm_compute in H1. discriminate.
Qed.

Theorem hsv_literal_ok_sound : forall nlits fs,
  hsv_literal_ok nlits fs = true ->
  forall head_bytes, head_bytes <= 1048576 + 4096 -> hsv_head_admitted fs head_bytes = Some true.
Proof.
  intros nlits fs H hb Hle. unfold hsv_literal_ok in H. apply andb_true_iff in H. destruct H as [_ H].
  unfold hsv_head_admitted, hsv_max_header_bytes. rewrite (hsv_lookup_reviewed fs H).
  f_equal. apply Z.leb_le. exact Hle.
Qed.

(* ---------------------------------------------------------------------------------------- *)
(* groups *)
Theorem hg_glue_ok_sound : forall g,
  hg_glue_ok g = true ->
  (forall chosen, hg_key_endpoint g chosen = chosen) /\
  (forall ms index, hg_connect_conn g ms index = hg_create_conn ms index).
Proof.
  intros g H. unfold hg_glue_ok in H.
  repeat (apply andb_true_iff in H; let H2 := fresh "H" in destruct H as [H H2]).
  split.
  - intro chosen. unfold hg_key_endpoint. rewrite H, H4, H3. reflexivity.
  - intros ms index. unfold hg_connect_conn. rewrite H1, H0. reflexivity.
Qed.

Lemma hg_create_conn_live : forall ms index, ms <> [] -> exists b, hg_create_conn ms index = Some b.
Proof.
  intros ms index Hne. unfold hg_create_conn. destruct ms as [|m ms]; [contradiction|].
  remember (m :: ms) as l.
  assert (Hlen : (Z.to_nat (index mod Z.of_nat (length l)) < length l)%nat).
  { assert (0 < Z.of_nat (length l)) by (subst l; simpl length; lia).
    pose proof (Z.mod_pos_bound index (Z.of_nat (length l)) H). lia. }
  destruct (nth_error l (Z.to_nat (index mod Z.of_nat (length l)))) as [[n b]|] eqn:E.
  - subst l. exists b. reflexivity.
  - apply nth_error_None in E. lia.
Qed.

(* locks *)
Lemma lk_state_eqb_eq : forall a b, lk_state_eqb a b = true -> a = b.
Proof.
  intros [r1 w1 a1 d1 ww1 rr1] [r2 w2 a2 d2 ww2 rr2] H. unfold lk_state_eqb in H. simpl in H.
  repeat (apply andb_true_iff in H; let H2 := fresh "H" in destruct H as [H H2]).
  apply Z.eqb_eq in H. apply Bool.eqb_prop in H4. apply Bool.eqb_prop in H3.
  apply Z.eqb_eq in H2. apply Z.eqb_eq in H1. apply Z.eqb_eq in H0. subst. reflexivity.
Qed.

Lemma lk_mem_In : forall s l, lk_mem s l = true -> In s l.
Proof.
  intros s l H. unfold lk_mem in H. apply existsb_exists in H. destruct H as [x [Hin He]].
  apply lk_state_eqb_eq in He. subst. exact Hin.
Qed.

Lemma lk_state_eqb_refl : forall a, lk_state_eqb a a = true.
Proof.
  intros [r w a d ww rr]. unfold lk_state_eqb. simpl.
  rewrite !Z.eqb_refl, !Bool.eqb_reflx. reflexivity.
Qed.

Lemma lk_In_mem : forall s l, In s l -> lk_mem s l = true.
Proof.
  intros s l H. unfold lk_mem. apply existsb_exists. exists s. split; [exact H|apply lk_state_eqb_refl].
Qed.

Lemma lk_closed_reach : forall d l, lk_closed d l = true -> forall sched, In (lk_run d sched) l.
Proof.
  intros d l H. unfold lk_closed in H. apply andb_true_iff in H. destruct H as [Hi Hc].
  rewrite forallb_forall in Hc.
  assert (Hgen : forall sched s, In s l -> In (fold_left (lk_step d) sched s) l).
  { induction sched as [|t sched IH]; intros s Hs; simpl; [exact Hs|].
    apply IH. specialize (Hc s Hs). rewrite forallb_forall in Hc.
    apply lk_mem_In. apply Hc. unfold lk_succ. destruct t; simpl; tauto. }
  intro sched. unfold lk_run. apply Hgen. apply lk_mem_In. exact Hi.
Qed.

(* the dial is made without the lock: after ANY interleaving of the three threads, the membership change and
   the other request run to completion (lk_completes: W reaches state 3, R state 2) although the first dial
   never returns.  (Stated through lk_completes: unfolding eleven symbolic steps on an unknown state is
   exponential for the kernel.) *)
Lemma lk_unlocked_closed : lk_closed false lk_states_unlocked = true.
Proof. vm_compute; reflexivity. Qed.
Lemma lk_unlocked_all_complete : forallb (lk_completes false) lk_states_unlocked = true.
Proof. vm_compute; reflexivity. Qed.

Theorem lk_unlocked_dial_blocks_nobody : forall sched, lk_completes false (lk_run false sched) = true.
Proof.
  intro sched. pose proof lk_unlocked_all_complete as Hall. rewrite forallb_forall in Hall.
  apply Hall. apply (lk_closed_reach false _ lk_unlocked_closed).
Qed.

(* the dial made under the read lock: one interleaving after which neither the membership change nor any other
   request of the group makes a step again *)
Definition lk_stuck_state : lk_state :=
  {| ls_readers := 1; ls_wwait := true; ls_wactive := false; ls_d := 1; ls_w := 1; ls_r := 0 |}.

Lemma lk_stuck_step : forall t, lk_step true lk_stuck_state t = lk_stuck_state.
Proof. intros []; reflexivity. Qed.

Theorem lk_locked_dial_hangs_the_group : forall rest,
  lk_run true [LkD; LkW] = lk_stuck_state /\
  let e := fold_left (lk_step true) rest (lk_run true [LkD; LkW]) in ls_w e = 1 /\ ls_r e = 0.
Proof.
  intro rest. split; [reflexivity|].
  change (lk_run true [LkD; LkW]) with lk_stuck_state. cbv zeta.
  induction rest as [|t r IH]; [split; reflexivity|].
  simpl fold_left. rewrite lk_stuck_step. exact IH.
Qed.

Theorem lk_dial_shapes_ok_sound : forall shapes : list (string * list lk_ev),
  forallb (fun s => lk_dial_unlocked (snd s)) shapes = true ->
  forall (name : string) (evs : list lk_ev), In (name, evs) shapes -> lk_held_at_dial evs false false = Some false.
Proof.
  intros shapes H name evs Hin. rewrite forallb_forall in H. specialize (H _ Hin). simpl in H.
  unfold lk_dial_unlocked in H. destruct (lk_held_at_dial evs false false) as [[|]|]; try discriminate. reflexivity.
Qed.

Theorem qs_graceful_delivers : forall calls written d, qs_graceful calls = true -> qs_received calls written d = written.
Proof. intros calls written d H. unfold qs_received. rewrite H. reflexivity. Qed.

(* two joins of one name have different endpoint ids as soon as their join numbers print differently *)
Theorem hg_endpoint_id_distinct : forall dec name j1 j2,
  dec j1 <> dec j2 -> hg_endpoint_id dec name j1 <> hg_endpoint_id dec name j2.
Proof.
  intros dec name j1 j2 Hne Heq. unfold hg_endpoint_id in Heq.
  apply app_inv_head in Heq. apply app_inv_head in Heq. contradiction.
Qed.
