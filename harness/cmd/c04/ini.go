package main

// Driver "ini" (C04): authentication settings given as a LEGACY frps.ini.
//  (1) every combination of authentication_method / token / authenticate_heartbeats / authenticate_new_work_conns /
//      oidc_issuer / oidc_audience / oidc_skip_expiry_check / oidc_skip_issuer_check is written as frps.ini and as the
//      equivalent toml; both go through the real config.LoadServerConfig; the resulting v1.AuthServerConfig of each is
//      transcribed (Corr/C04.v checks that every key arrived in the field of the same meaning);
//  (2) for authentication_method = oidc a frps is started from the ini-loaded configuration and is presented tokens whose
//      properties are known by construction: valid, expired, other issuer, other audience, foreign key, expired + other issuer.

import (
	"context"
	"fmt"
	"net"
	"os"
	"path/filepath"
	"strings"
	"time"

	"github.com/fatedier/frp/pkg/config"
	v1 "github.com/fatedier/frp/pkg/config/v1"
	"github.com/fatedier/frp/pkg/msg"
	"github.com/fatedier/frp/server"
	"verifharness/hx"
)

func init() { drivers["ini"] = runIni }

type iniAuth struct {
	method, token, issuer, audience string
	hb, wc, skipExp, skipIss        bool
}

func (a iniAuth) ini(addr string, port int) string {
	var b strings.Builder
	fmt.Fprintf(&b, "[common]\nbind_addr = %s\nbind_port = %d\ntcp_mux = false\n", addr, port)
	if a.method != "" {
		fmt.Fprintf(&b, "authentication_method = %s\n", a.method)
	}
	if a.token != "" {
		fmt.Fprintf(&b, "token = %s\n", a.token)
	}
	if a.hb {
		b.WriteString("authenticate_heartbeats = true\n")
	}
	if a.wc {
		b.WriteString("authenticate_new_work_conns = true\n")
	}
	if a.issuer != "" {
		fmt.Fprintf(&b, "oidc_issuer = %s\n", a.issuer)
	}
	if a.audience != "" {
		fmt.Fprintf(&b, "oidc_audience = %s\n", a.audience)
	}
	if a.skipExp {
		b.WriteString("oidc_skip_expiry_check = true\n")
	}
	if a.skipIss {
		b.WriteString("oidc_skip_issuer_check = true\n")
	}
	return b.String()
}

func (a iniAuth) toml(addr string, port int) string {
	var b strings.Builder
	fmt.Fprintf(&b, "bindAddr = %q\nbindPort = %d\ntransport.tcpMux = false\n", addr, port)
	if a.method != "" {
		fmt.Fprintf(&b, "auth.method = %q\n", a.method)
	}
	if a.token != "" {
		fmt.Fprintf(&b, "auth.token = %q\n", a.token)
	}
	var sc []string
	if a.hb {
		sc = append(sc, `"HeartBeats"`)
	}
	if a.wc {
		sc = append(sc, `"NewWorkConns"`)
	}
	if len(sc) > 0 {
		fmt.Fprintf(&b, "auth.additionalScopes = [%s]\n", strings.Join(sc, ", "))
	}
	if a.issuer != "" {
		fmt.Fprintf(&b, "auth.oidc.issuer = %q\n", a.issuer)
	}
	if a.audience != "" {
		fmt.Fprintf(&b, "auth.oidc.audience = %q\n", a.audience)
	}
	if a.skipExp {
		b.WriteString("auth.oidc.skipExpiryCheck = true\n")
	}
	if a.skipIss {
		b.WriteString("auth.oidc.skipIssuerCheck = true\n")
	}
	return b.String()
}

func (a iniAuth) coq() string {
	return fmt.Sprintf("(c4INI %s %s %s %s %s %s %s %s)", hx.HxS(a.method), hx.HxS(a.token), hx.Bool(a.hb), hx.Bool(a.wc),
		hx.HxS(a.issuer), hx.HxS(a.audience), hx.Bool(a.skipExp), hx.Bool(a.skipIss))
}

func v1Coq(c *v1.ServerConfig) (string, error) {
	var sc []string
	for _, s := range c.Auth.AdditionalScopes {
		switch s {
		case v1.AuthScopeHeartBeats:
			sc = append(sc, "AuScHeartBeats")
		case v1.AuthScopeNewWorkConns:
			sc = append(sc, "AuScNewWorkConns")
		default:
			return "", fmt.Errorf("unknown scope %q", s)
		}
	}
	return fmt.Sprintf("(c4V1 %s %s %s %s %s %s %s)", hx.HxS(string(c.Auth.Method)), hx.HxS(c.Auth.Token), hx.List(sc),
		hx.HxS(c.Auth.OIDC.Issuer), hx.HxS(c.Auth.OIDC.Audience), hx.Bool(c.Auth.OIDC.SkipExpiryCheck), hx.Bool(c.Auth.OIDC.SkipIssuerCheck)), nil
}

type iniToken struct {
	name              string
	tok               string
	sig, iss          bool
	aud               string
	until             int64
	unacceptableUnder func(a iniAuth) bool
}

func runIni(cfg *hx.RunCfg) error {
	hx.Quiet()
	ow, err := newOidcWorld("127.0.4.201")
	if err != nil {
		return err
	}
	defer ow.close()
	tmp, err := os.MkdirTemp("", "c04ini")
	if err != nil {
		return err
	}
	defer os.RemoveAll(tmp)
	addr := "127.0.4.70"
	now := time.Now().Unix()
	otherIss := "http://127.0.4.202:1"
	tokens := []iniToken{
		{name: "valid", tok: ow.mintClaims("alice", now+3600, ow.issuer, "frps", false), sig: true, iss: true, aud: "frps", until: 1000000},
		{name: "expired", tok: ow.mintClaims("alice", now-3600, ow.issuer, "frps", false), sig: true, iss: true, aud: "frps", until: -1},
		{name: "other-issuer", tok: ow.mintClaims("alice", now+3600, otherIss, "frps", false), sig: true, iss: false, aud: "frps", until: 1000000},
		{name: "other-audience", tok: ow.mintClaims("alice", now+3600, ow.issuer, "someone-else", false), sig: true, iss: true, aud: "someone-else", until: 1000000},
		{name: "foreign-key", tok: ow.mintClaims("alice", now+3600, ow.issuer, "frps", true), sig: false, iss: true, aud: "frps", until: 1000000},
		{name: "expired+other-issuer", tok: ow.mintClaims("alice", now-3600, otherIss, "frps", false), sig: true, iss: false, aud: "frps", until: -1},
	}
	cf := &hx.CaseFile{
		Imports: "From FRP Require Import Corr.C04.\nOpen Scope Z_scope.\n",
		Typ:     "case",
		Tail: "Definition M := Eval vm_compute in mismatches check_case cases.\nPrint M.\n" +
			"Definition NINICASES := Eval vm_compute in c04_ini_cases cases.\nPrint NINICASES.\n" +
			"Definition NINIUNACCEPTABLEREFUSED := Eval vm_compute in c04_ini_unacceptable_refused cases.\nPrint NINIUNACCEPTABLEREFUSED.\n" +
			"Definition NINIWAIVEDACCEPTED := Eval vm_compute in c04_ini_waived_accepted cases.\nPrint NINIWAIVEDACCEPTED.\n",
	}
	fails := []map[string]any{}
	dist := map[string]int{}
	samples := []string{}
	n := 0
	for _, method := range []string{"", "token", "oidc"} {
		for mask := 0; mask < 32; mask++ {
			a := iniAuth{method: method, hb: mask&1 != 0, wc: mask&2 != 0, skipExp: mask&4 != 0, skipIss: mask&8 != 0}
			if mask&16 != 0 {
				a.audience = "frps"
			}
			if method == "oidc" {
				a.issuer = ow.issuer
			} else {
				a.token = "tok-" + fmt.Sprint(mask)
				if mask%5 == 0 {
					a.issuer = "http://unused.example" // must arrive although unused
				}
			}
			port := hx.FreePort(addr)
			iniPath := filepath.Join(tmp, fmt.Sprintf("frps_%d.ini", n))
			tomlPath := filepath.Join(tmp, fmt.Sprintf("frps_%d.toml", n))
			n++
			if err := os.WriteFile(iniPath, []byte(a.ini(addr, port)), 0o600); err != nil {
				return err
			}
			if err := os.WriteFile(tomlPath, []byte(a.toml(addr, port)), 0o600); err != nil {
				return err
			}
			ci, legacy, err := config.LoadServerConfig(iniPath, false)
			if err != nil || !legacy {
				return fmt.Errorf("ini load: legacy=%v err=%v\n%s", legacy, err, a.ini(addr, port))
			}
			ct, _, err := config.LoadServerConfig(tomlPath, true)
			if err != nil {
				return fmt.Errorf("toml load: %v\n%s", err, a.toml(addr, port))
			}
			vi, err := v1Coq(ci)
			if err != nil {
				return err
			}
			vt, err := v1Coq(ct)
			if err != nil {
				return err
			}
			var toks []string
			if method == "oidc" && (mask&3 == 0 || mask&3 == 3) { // the policy bits are what matters; two scope settings suffice
				svc, err := server.NewService(ci)
				if err != nil {
					return fmt.Errorf("NewService from ini: %v", err)
				}
				ctx, cancel := context.WithCancel(context.Background())
				go svc.Run(ctx)
				for i := 0; i < 200 && !hx.TCPBound(addr, port); i++ {
					time.Sleep(10 * time.Millisecond)
				}
				for _, t := range tokens {
					accepted, err := iniLogin(addr, port, t.tok)
					if err != nil {
						cancel()
						svc.Close()
						return fmt.Errorf("login with %s token: %v", t.name, err)
					}
					toks = append(toks, fmt.Sprintf("(c4TF %s %s %s %s %s, %s)", hx.Bool(t.sig), hx.HxS("alice"), hx.Bool(t.iss), hx.HxS(t.aud), hx.Z(t.until), hx.Bool(accepted)))
					dist[fmt.Sprintf("token:%s:accepted=%v", t.name, accepted)]++
					unacceptable := !t.sig || (!a.skipIss && !t.iss) || (a.audience != "" && a.audience != t.aud) || (!a.skipExp && t.until <= 0)
					if accepted && unacceptable {
						fails = append(fails, map[string]any{"key": "ini-oidc-unacceptable-token-accepted",
							"what": fmt.Sprintf("frps configured from a legacy ini accepted a login with a token (%s) that the policy written in the ini must reject", t.name),
							"case": "frps.ini:\n" + a.ini(addr, port) + "token: " + t.name + " (RS256, signed by the issuer's key unless 'foreign-key')"})
					}
				}
				cancel()
				svc.Close()
			}
			text := fmt.Sprintf("CIni %s %s %s %s", a.coq(), vi, vt, hx.List(toks))
			cf.Cases = append(cf.Cases, text)
			dist["method:"+method]++
			if len(samples) < 3 && len(toks) > 0 {
				samples = append(samples, text)
			}
		}
	}
	if err := cf.Write(cfg.Out); err != nil {
		return err
	}
	cfg.St["cases"] = len(cf.Cases)
	cfg.St["distinct_nontrivial"] = len(cf.Cases)
	cfg.St["distribution"] = dist
	cfg.St["samples"] = samples
	cfg.St["impl_failures"] = fails
	return nil
}

// iniLogin: one Login over plain tcp with the token as privilege key; reports whether LoginResp carried no error.
func iniLogin(addr string, port int, tok string) (bool, error) {
	conn, err := net.DialTimeout("tcp", net.JoinHostPort(addr, fmt.Sprint(port)), 2*time.Second)
	if err != nil {
		return false, err
	}
	defer conn.Close()
	if err := msg.WriteMsg(conn, &msg.Login{Version: "0.61.0", PrivilegeKey: tok, Timestamp: time.Now().Unix(), Metas: map[string]string{}}); err != nil {
		return false, err
	}
	_ = conn.SetReadDeadline(time.Now().Add(5 * time.Second))
	var resp msg.LoginResp
	if err := msg.ReadMsgInto(conn, &resp); err != nil {
		return false, err
	}
	return resp.Error == "", nil
}
