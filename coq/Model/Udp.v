(* C03: UDP tunnels.  Model only: no proofs here.

   Part 1 (pure): pkg/proto/udp NewUDPPacket / GetContent, the msg.UDPPacket message through
   C17's object codec (today's translated schema gen/GenMsg.v), a concrete renderer of the JSON
   text encoding/json produces for it, and golib's frame (Model/Frame.v).

   Part 2 (state machine): udp.ForwardUserConn (server side of a udp proxy, visitor side of a
   sudp proxy), the work connection with its sender / reader goroutines (server/proxy/udp.go,
   client/proxy/udp.go, client/proxy/sudp.go, client/visitor/sudp.go) and udp.Forwarder (client
   side: per-user local socket map keyed by the PRINTED remote address, one reader goroutine per
   socket that tags every reply with the address captured when the socket was created).
   One event = one loop iteration of one goroutine (one channel operation / one critical
   section of the Forwarder mutex). *)
From FRP Require Export Model.Base64 Model.Frame Model.MsgObj.
From FRP Require Export gen.GenMsg.

(** * Part 1: packets *)

(* net.UDPAddr as it crosses the wire: IP in the text form of net.IP.MarshalText *)
Record uaddr := { ua_ip : bytes; ua_port : Z; ua_zone : bytes }.

Record upacket := { up_content : bytes; up_laddr : option uaddr; up_raddr : option uaddr }.

Definition new_udp_packet (buf : bytes) (laddr raddr : option uaddr) : upacket :=
  {| up_content := b64_encode buf; up_laddr := laddr; up_raddr := raddr |}.

Definition get_content (p : upacket) : option bytes := b64_decode (up_content p).

(* the Go value as a field vector of the UDPPacket schema *)
Definition uaddr_vals (a : uaddr) : list gv := [VStr (ua_ip a); VInt (ua_port a); VStr (ua_zone a)].
Definition upacket_vals (p : upacket) : list gv :=
  [VStr (up_content p); VPtr (option_map uaddr_vals (up_laddr p)); VPtr (option_map uaddr_vals (up_raddr p))].

Definition uaddr_of_vals (vs : list gv) : option uaddr :=
  match vs with
  | [VStr ip; VInt port; VStr zone] => Some {| ua_ip := ip; ua_port := port; ua_zone := zone |}
  | _ => None
  end.
Definition uaddr_of_ptr (o : option (list gv)) : option (option uaddr) :=
  match o with
  | None => Some None
  | Some vs => match uaddr_of_vals vs with Some a => Some (Some a) | None => None end
  end.
Definition upacket_of_vals (vs : list gv) : option upacket :=
  match vs with
  | [VStr c; VPtr l; VPtr r] =>
      match uaddr_of_ptr l, uaddr_of_ptr r with
      | Some l', Some r' => Some {| up_content := c; up_laddr := l'; up_raddr := r' |}
      | _, _ => None
      end
  | _ => None
  end.

Fixpoint udp_assoc {A} (n : string) (l : list (string * A)) : option A :=
  match l with [] => None | (k, v) :: r => if String.eqb n k then Some v else udp_assoc n r end.

(* today's schema of msg.UDPPacket (regenerated from pkg/msg/msg.go on every run) *)
Definition udp_fields : list field :=
  match udp_assoc "UDPPacket" structs with Some fs => fs | None => [] end.

Definition udp_type_byte : byte := "u"%byte.

(** ** JSON text, as encoding/json renders a value whose strings need no escaping *)

Definition udp_digit (z : Z) : byte := byte_of_Z (48 + z).
(* decimal digits; fuel 20 suffices for every |z| < 10^20 (a Go int is below 2^63 < 10^19) *)
Fixpoint udp_dec_pos (fuel : nat) (z : Z) (acc : bytes) : bytes :=
  match fuel with
  | O => acc
  | S k => if z <? 10 then udp_digit z :: acc
           else udp_dec_pos k (z / 10) (udp_digit (z mod 10) :: acc)
  end.
Definition udp_dec (z : Z) : bytes :=
  if z <? 0 then "-"%byte :: udp_dec_pos 20 (- z) [] else udp_dec_pos 20 z [].

Definition jquote (s : bytes) : bytes := x22 :: s ++ [x22].
Fixpoint jjoin (l : list bytes) : bytes :=
  match l with
  | [] => []
  | [x] => x
  | x :: r => x ++ x2c :: jjoin r
  end.

Fixpoint jtext (j : jv) : bytes :=
  match j with
  | JNull => bs "null"
  | JBool b => if b then bs "true" else bs "false"
  | JNum z => udp_dec z
  | JStr s => jquote s
  | JArr l => x5b :: jjoin (map jtext l) ++ [x5d]
  | JObj l =>
      x7b :: jjoin ((fix go (l : list (bytes * jv)) : list bytes :=
                       match l with
                       | [] => []
                       | (k, v) :: r => (jquote k ++ x3a :: jtext v) :: go r
                       end) l) ++ [x7d]
  end.

(* bytes encoding/json copies verbatim into a string literal *)
Definition jplain_byte (b : byte) : bool :=
  let n := Z_of_byte b in
  (32 <=? n) && (n <? 127) && negb (n =? 34) && negb (n =? 92) && negb (n =? 60) && negb (n =? 62) && negb (n =? 38).
Definition jplain (s : bytes) : bool := forallb jplain_byte s.
Definition uaddr_plain (a : option uaddr) : bool :=
  match a with None => true | Some a => jplain (ua_ip a) && jplain (ua_zone a) end.
Definition upacket_plain (p : upacket) : bool :=
  jplain (up_content p) && uaddr_plain (up_laddr p) && uaddr_plain (up_raddr p).

Definition udp_text (p : upacket) : bytes := jtext (JObj (enc_obj udp_fields (upacket_vals p))).

(* bytes WriteMsg puts on the work connection *)
Definition udp_encode_msg (p : upacket) : bytes := encode_frame udp_type_byte (udp_text p).

(* does the receiving side's readMsg accept the frame (length <= 10240)? *)
Definition upacket_fits (p : upacket) : bool := blen (udp_text p) <=? max_len.

(* the closed form of the size condition *)
Definition uaddr_overhead (a : option uaddr) : Z :=
  match a with
  | None => 0
  | Some a => 32 + blen (ua_ip a) + blen (udp_dec (ua_port a)) + blen (ua_zone a)
  end.
Definition udp_overhead (l r : option uaddr) : Z := 8 + uaddr_overhead l + uaddr_overhead r.

Section Decode.
  (* the registry predicate of the frame layer and the JSON text parser (encoding/json) are
     parameters; the theorems state what they need of them *)
  Variable reg : byte -> bool.
  Variable parse : bytes -> option (list (bytes * jv)).

  Inductive udp_dres :=
  | UDFrameErr (e : derr)        (* ReadMsg fails in the frame layer (oversize, truncated, ...) *)
  | UDOtherType (t : byte)       (* another message (Ping on the work connection) *)
  | UDJsonErr                    (* body is not a UDPPacket object *)
  | UDOk (p : upacket) (rest : bytes).

  Definition udp_decode_msg (s : bytes) : udp_dres :=
    match decode_frame reg s with
    | DErr e _ _ => UDFrameErr e
    | DOk r _ _ =>
        if negb (Byte.eqb (d_type r) udp_type_byte) then UDOtherType (d_type r)
        else match parse (d_body r) with
             | None => UDJsonErr
             | Some o =>
                 match dec_obj udp_fields o with
                 | None => UDJsonErr
                 | Some vs => match upacket_of_vals vs with
                              | Some p => UDOk p (d_rest r)
                              | None => UDJsonErr
                              end
                 end
             end
    end.
End Decode.

(* UDPAddr.String(), the key of the Forwarder's socket map *)
Fixpoint bytes_has (c : byte) (s : bytes) : bool :=
  match s with [] => false | x :: r => Byte.eqb x c || bytes_has c r end.
Definition uaddr_string (a : option uaddr) : bytes :=
  match a with
  | None => bs "<nil>"
  | Some a =>
      let host := match ua_zone a with [] => ua_ip a | z => ua_ip a ++ "%"%byte :: z end in
      if bytes_has ":"%byte host
      then "["%byte :: host ++ "]"%byte :: ":"%byte :: udp_dec (ua_port a)
      else host ++ ":"%byte :: udp_dec (ua_port a)
  end.

(** * Part 2: the tunnel as a state machine *)

Definition uqcap : Z := 1024.
Definition uqlen {A} (q : list A) : Z := Z.of_nat (length q).

Record ucfg := { uc_buf : Z }.   (* udpPacketSize: size of the read buffers on both sides *)

(* ReadFromUDP into a buffer of uc_buf bytes: a longer datagram is cut *)
Definition uread (c : ucfg) (d : bytes) : bytes := firstn (Z.to_nat (uc_buf c)) d.

Inductive udropwhy :=
| DSendFull      (* ForwardUserConn: select-default on a full sendCh *)
| DReplyFull     (* Forwarder reader goroutine: select-default on a full sendCh *)
| DReplacing     (* lost with the work connection: in flight, write error, send on a closed channel *)
| DOversize      (* frame longer than 10240: the peer's ReadMsg fails and kills the connection *)
| DBadContent    (* GetContent error: continue *)
| DNoAddr        (* WriteToUDP with a nil address *)
| DDialErr       (* net.DialUDP failed *)
| DWriteErr.     (* WriteToUDP refused this destination (port 0, EPERM, ENETUNREACH ...): the loop goes on *)

Inductive uev :=
| EUserSend (a : uaddr) (d : bytes)  (* ForwardUserConn read loop: ReadFromUDP = (d, a); NewUDPPacket; try-send *)
| ESrvSend                           (* server/visitor workConnSenderFn: <-sendCh; WriteMsg *)
| ECliRecv                           (* client workConnReaderFn: ReadMsgInto; readCh <- (blocks when full) *)
| ECliPump (os_ok : bool)            (* Forwarder readCh loop: GetContent; lock; lookup/DialUDP/insert; unlock; Write; go writerFn *)
| EOldPump (k : nat)                 (* a Forwarder whose readCh was closed drains a buffered packet *)
| EBackendReply (s : N) (d : bytes)  (* datagram from the backend arrives at local socket s *)
| ESockIdle (s : N)                  (* reader goroutine of s: ReadFromUDP error (30 s deadline): delete(map, addr); Close *)
| ECliSend                           (* client workConnSenderFn: <-sendCh; WriteMsg *)
| ESrvRecv                           (* server/visitor workConnReaderFn: ReadMsg; readCh <- (blocks when full) *)
| ESrvDeliver (wr_ok : bool)         (* ForwardUserConn reply goroutine: <-readCh; GetContent; WriteToUDP(buf, RemoteAddr) = wr_ok (OS oracle);
                                       whatever the result the goroutine goes on with the next reply *)
| EConnBreak                         (* the work connection dies *)
| EWorkConnReplaced.                 (* new work connection: client InWorkConn closes its channels and starts a new Forwarder *)

Inductive uout :=
| OSockNew (s : N) (ra : option uaddr)
| OSockClosed (s : N)
| OBackend (s : N) (ra : option uaddr) (d : bytes)   (* udpConn.Write(d) on local socket s *)
| OTagged (s : N) (ra : option uaddr) (d : bytes)    (* reply d read on s wrapped with RemoteAddr = ra *)
| OUser (a : uaddr) (d : bytes)                      (* WriteToUDP(d, a) on the public socket *)
| ODropFwd (w : udropwhy) (p : upacket)
| ODropRev (w : udropwhy) (p : upacket)
| OLate (s : N) (d : bytes).                         (* no socket s any more: the kernel discards *)

Record ust := {
  s_sendq : list upacket;            (* server sendCh (cap 1024) *)
  s_readq : list upacket;            (* server readCh (cap 1024) *)
  w_sc : list upacket;               (* in flight server -> client on the current work connection *)
  w_cs : list upacket;               (* in flight client -> server *)
  conn_up : bool;
  c_readq : list upacket;            (* client readCh (cap 1024) of the current Forwarder *)
  c_sendq : list upacket;            (* client sendCh (cap 1024) *)
  c_map : list (bytes * N);          (* udpConnMap: printed address -> socket *)
  c_readers : list (N * option uaddr);   (* live writerFn goroutines: socket, captured raddr *)
  c_oldq : list upacket;             (* packets still buffered in closed readCh's of earlier Forwarders *)
  c_zombies : list (N * option uaddr);   (* sockets / readers of earlier Forwarders (their sendCh is closed) *)
  next_sock : N
}.

Definition uinit : ust :=
  {| s_sendq := []; s_readq := []; w_sc := []; w_cs := []; conn_up := false;
     c_readq := []; c_sendq := []; c_map := []; c_readers := []; c_oldq := []; c_zombies := [];
     next_sock := 0%N |}.

Fixpoint umap_get (k : bytes) (m : list (bytes * N)) : option N :=
  match m with [] => None | (k', s) :: r => if bytes_eqb k k' then Some s else umap_get k r end.
Definition umap_del (k : bytes) (m : list (bytes * N)) : list (bytes * N) :=
  filter (fun e => negb (bytes_eqb k (fst e))) m.

Fixpoint urd_get (s : N) (l : list (N * option uaddr)) : option (option uaddr) :=
  match l with [] => None | (s', a) :: r => if N.eqb s s' then Some a else urd_get s r end.
Definition urd_del (s : N) (l : list (N * option uaddr)) : list (N * option uaddr) :=
  filter (fun e => negb (N.eqb s (fst e))) l.
(* a socket of an earlier Forwarder for the same printed address *)
Fixpoint uzombie_find (k : bytes) (l : list (N * option uaddr)) : option N :=
  match l with
  | [] => None
  | (s, a) :: r => if bytes_eqb k (uaddr_string a) then Some s else uzombie_find k r
  end.

Fixpoint udel_nth {A} (k : nat) (l : list A) : list A :=
  match k, l with
  | _, [] => []
  | O, _ :: r => r
  | S k', x :: r => x :: udel_nth k' r
  end.

(* the connection dies: everything in flight is lost *)
Definition ubreak_outs (st : ust) : list uout :=
  map (ODropFwd DReplacing) (w_sc st) ++ map (ODropRev DReplacing) (w_cs st).

Definition ustep (c : ucfg) (st : ust) (e : uev) : ust * list uout :=
  match e with
  | EUserSend a d =>
      let p := new_udp_packet (uread c d) None (Some a) in
      if uqlen (s_sendq st) <? uqcap
      then ({| s_sendq := s_sendq st ++ [p]; s_readq := s_readq st; w_sc := w_sc st; w_cs := w_cs st;
               conn_up := conn_up st; c_readq := c_readq st; c_sendq := c_sendq st; c_map := c_map st;
               c_readers := c_readers st; c_oldq := c_oldq st; c_zombies := c_zombies st;
               next_sock := next_sock st |}, [])
      else (st, [ODropFwd DSendFull p])
  | ESrvSend =>
      match s_sendq st with
      | [] => (st, [])
      | p :: q =>
          if conn_up st
          then ({| s_sendq := q; s_readq := s_readq st; w_sc := w_sc st ++ [p]; w_cs := w_cs st;
                   conn_up := conn_up st; c_readq := c_readq st; c_sendq := c_sendq st; c_map := c_map st;
                   c_readers := c_readers st; c_oldq := c_oldq st; c_zombies := c_zombies st;
                   next_sock := next_sock st |}, [])
          else ({| s_sendq := q; s_readq := s_readq st; w_sc := w_sc st; w_cs := w_cs st;
                   conn_up := conn_up st; c_readq := c_readq st; c_sendq := c_sendq st; c_map := c_map st;
                   c_readers := c_readers st; c_oldq := c_oldq st; c_zombies := c_zombies st;
                   next_sock := next_sock st |}, [ODropFwd DReplacing p])
      end
  | ECliRecv =>
      if conn_up st then
        match w_sc st with
        | [] => (st, [])
        | p :: w =>
            if upacket_fits p then
              if uqlen (c_readq st) <? uqcap
              then ({| s_sendq := s_sendq st; s_readq := s_readq st; w_sc := w; w_cs := w_cs st;
                       conn_up := conn_up st; c_readq := c_readq st ++ [p]; c_sendq := c_sendq st;
                       c_map := c_map st; c_readers := c_readers st; c_oldq := c_oldq st;
                       c_zombies := c_zombies st; next_sock := next_sock st |}, [])
              else (st, [])
            else ({| s_sendq := s_sendq st; s_readq := s_readq st; w_sc := []; w_cs := [];
                     conn_up := false; c_readq := c_readq st; c_sendq := c_sendq st;
                     c_map := c_map st; c_readers := c_readers st; c_oldq := c_oldq st;
                     c_zombies := c_zombies st; next_sock := next_sock st |},
                  ODropFwd DOversize p :: map (ODropFwd DReplacing) w ++ map (ODropRev DReplacing) (w_cs st))
        end
      else (st, [])
  | ECliPump os_ok =>
      match c_readq st with
      | [] => (st, [])
      | p :: q =>
          match get_content p with
          | None => ({| s_sendq := s_sendq st; s_readq := s_readq st; w_sc := w_sc st; w_cs := w_cs st;
                        conn_up := conn_up st; c_readq := q; c_sendq := c_sendq st; c_map := c_map st;
                        c_readers := c_readers st; c_oldq := c_oldq st; c_zombies := c_zombies st;
                        next_sock := next_sock st |}, [ODropFwd DBadContent p])
          | Some buf =>
              let k := uaddr_string (up_raddr p) in
              match umap_get k (c_map st) with
              | Some s =>
                  ({| s_sendq := s_sendq st; s_readq := s_readq st; w_sc := w_sc st; w_cs := w_cs st;
                      conn_up := conn_up st; c_readq := q; c_sendq := c_sendq st; c_map := c_map st;
                      c_readers := c_readers st; c_oldq := c_oldq st; c_zombies := c_zombies st;
                      next_sock := next_sock st |}, [OBackend s (up_raddr p) buf])
              | None =>
                  if os_ok then
                    let s := next_sock st in
                    ({| s_sendq := s_sendq st; s_readq := s_readq st; w_sc := w_sc st; w_cs := w_cs st;
                        conn_up := conn_up st; c_readq := q; c_sendq := c_sendq st;
                        c_map := (k, s) :: c_map st; c_readers := (s, up_raddr p) :: c_readers st;
                        c_oldq := c_oldq st; c_zombies := c_zombies st;
                        next_sock := N.succ (next_sock st) |},
                     [OSockNew s (up_raddr p); OBackend s (up_raddr p) buf])
                  else
                    ({| s_sendq := s_sendq st; s_readq := s_readq st; w_sc := w_sc st; w_cs := w_cs st;
                        conn_up := conn_up st; c_readq := q; c_sendq := c_sendq st; c_map := c_map st;
                        c_readers := c_readers st; c_oldq := c_oldq st; c_zombies := c_zombies st;
                        next_sock := next_sock st |}, [ODropFwd DDialErr p])
              end
          end
      end
  | EOldPump k =>
      match nth_error (c_oldq st) k with
      | None => (st, [])
      | Some p =>
          let q := udel_nth k (c_oldq st) in
          match get_content p with
          | None => ({| s_sendq := s_sendq st; s_readq := s_readq st; w_sc := w_sc st; w_cs := w_cs st;
                        conn_up := conn_up st; c_readq := c_readq st; c_sendq := c_sendq st; c_map := c_map st;
                        c_readers := c_readers st; c_oldq := q; c_zombies := c_zombies st;
                        next_sock := next_sock st |}, [ODropFwd DBadContent p])
          | Some buf =>
              match uzombie_find (uaddr_string (up_raddr p)) (c_zombies st) with
              | Some s =>
                  ({| s_sendq := s_sendq st; s_readq := s_readq st; w_sc := w_sc st; w_cs := w_cs st;
                      conn_up := conn_up st; c_readq := c_readq st; c_sendq := c_sendq st; c_map := c_map st;
                      c_readers := c_readers st; c_oldq := q; c_zombies := c_zombies st;
                      next_sock := next_sock st |}, [OBackend s (up_raddr p) buf])
              | None =>
                  let s := next_sock st in
                  ({| s_sendq := s_sendq st; s_readq := s_readq st; w_sc := w_sc st; w_cs := w_cs st;
                      conn_up := conn_up st; c_readq := c_readq st; c_sendq := c_sendq st; c_map := c_map st;
                      c_readers := c_readers st; c_oldq := q; c_zombies := (s, up_raddr p) :: c_zombies st;
                      next_sock := N.succ (next_sock st) |},
                   [OSockNew s (up_raddr p); OBackend s (up_raddr p) buf])
              end
          end
      end
  | EBackendReply s d =>
      match urd_get s (c_readers st) with
      | Some ra =>
          let p := new_udp_packet (uread c d) None ra in
          if uqlen (c_sendq st) <? uqcap
          then ({| s_sendq := s_sendq st; s_readq := s_readq st; w_sc := w_sc st; w_cs := w_cs st;
                   conn_up := conn_up st; c_readq := c_readq st; c_sendq := c_sendq st ++ [p];
                   c_map := c_map st; c_readers := c_readers st; c_oldq := c_oldq st;
                   c_zombies := c_zombies st; next_sock := next_sock st |}, [OTagged s ra (uread c d)])
          else (st, [OTagged s ra (uread c d); ODropRev DReplyFull p])
      | None =>
          match urd_get s (c_zombies st) with
          | Some ra =>
              (* send on the closed sendCh panics; PanicToError; the goroutine returns and closes s *)
              ({| s_sendq := s_sendq st; s_readq := s_readq st; w_sc := w_sc st; w_cs := w_cs st;
                  conn_up := conn_up st; c_readq := c_readq st; c_sendq := c_sendq st; c_map := c_map st;
                  c_readers := c_readers st; c_oldq := c_oldq st; c_zombies := urd_del s (c_zombies st);
                  next_sock := next_sock st |},
               [OTagged s ra (uread c d); ODropRev DReplacing (new_udp_packet (uread c d) None ra); OSockClosed s])
          | None => (st, [OLate s d])
          end
      end
  | ESockIdle s =>
      match urd_get s (c_readers st) with
      | Some ra =>
          ({| s_sendq := s_sendq st; s_readq := s_readq st; w_sc := w_sc st; w_cs := w_cs st;
              conn_up := conn_up st; c_readq := c_readq st; c_sendq := c_sendq st;
              c_map := umap_del (uaddr_string ra) (c_map st); c_readers := urd_del s (c_readers st);
              c_oldq := c_oldq st; c_zombies := c_zombies st; next_sock := next_sock st |}, [OSockClosed s])
      | None =>
          match urd_get s (c_zombies st) with
          | Some _ =>
              ({| s_sendq := s_sendq st; s_readq := s_readq st; w_sc := w_sc st; w_cs := w_cs st;
                  conn_up := conn_up st; c_readq := c_readq st; c_sendq := c_sendq st; c_map := c_map st;
                  c_readers := c_readers st; c_oldq := c_oldq st; c_zombies := urd_del s (c_zombies st);
                  next_sock := next_sock st |}, [OSockClosed s])
          | None => (st, [])
          end
      end
  | ECliSend =>
      match c_sendq st with
      | [] => (st, [])
      | p :: q =>
          if conn_up st
          then ({| s_sendq := s_sendq st; s_readq := s_readq st; w_sc := w_sc st; w_cs := w_cs st ++ [p];
                   conn_up := conn_up st; c_readq := c_readq st; c_sendq := q; c_map := c_map st;
                   c_readers := c_readers st; c_oldq := c_oldq st; c_zombies := c_zombies st;
                   next_sock := next_sock st |}, [])
          else ({| s_sendq := s_sendq st; s_readq := s_readq st; w_sc := w_sc st; w_cs := w_cs st;
                   conn_up := conn_up st; c_readq := c_readq st; c_sendq := q; c_map := c_map st;
                   c_readers := c_readers st; c_oldq := c_oldq st; c_zombies := c_zombies st;
                   next_sock := next_sock st |}, [ODropRev DReplacing p])
      end
  | ESrvRecv =>
      if conn_up st then
        match w_cs st with
        | [] => (st, [])
        | p :: w =>
            if upacket_fits p then
              if uqlen (s_readq st) <? uqcap
              then ({| s_sendq := s_sendq st; s_readq := s_readq st ++ [p]; w_sc := w_sc st; w_cs := w;
                       conn_up := conn_up st; c_readq := c_readq st; c_sendq := c_sendq st;
                       c_map := c_map st; c_readers := c_readers st; c_oldq := c_oldq st;
                       c_zombies := c_zombies st; next_sock := next_sock st |}, [])
              else (st, [])
            else ({| s_sendq := s_sendq st; s_readq := s_readq st; w_sc := []; w_cs := [];
                     conn_up := false; c_readq := c_readq st; c_sendq := c_sendq st;
                     c_map := c_map st; c_readers := c_readers st; c_oldq := c_oldq st;
                     c_zombies := c_zombies st; next_sock := next_sock st |},
                  ODropRev DOversize p :: map (ODropFwd DReplacing) (w_sc st) ++ map (ODropRev DReplacing) w)
        end
      else (st, [])
  | ESrvDeliver wr_ok =>
      match s_readq st with
      | [] => (st, [])
      | p :: q =>
          let st' := {| s_sendq := s_sendq st; s_readq := q; w_sc := w_sc st; w_cs := w_cs st;
                        conn_up := conn_up st; c_readq := c_readq st; c_sendq := c_sendq st; c_map := c_map st;
                        c_readers := c_readers st; c_oldq := c_oldq st; c_zombies := c_zombies st;
                        next_sock := next_sock st |} in
          match get_content p with
          | None => (st', [ODropRev DBadContent p])
          | Some buf =>
              match up_raddr p with
              | Some a => if wr_ok then (st', [OUser a buf]) else (st', [ODropRev DWriteErr p])
              | None => (st', [ODropRev DNoAddr p])
              end
          end
      end
  | EConnBreak =>
      ({| s_sendq := s_sendq st; s_readq := s_readq st; w_sc := []; w_cs := [];
          conn_up := false; c_readq := c_readq st; c_sendq := c_sendq st; c_map := c_map st;
          c_readers := c_readers st; c_oldq := c_oldq st; c_zombies := c_zombies st;
          next_sock := next_sock st |}, ubreak_outs st)
  | EWorkConnReplaced =>
      ({| s_sendq := s_sendq st; s_readq := s_readq st; w_sc := []; w_cs := [];
          conn_up := true; c_readq := []; c_sendq := []; c_map := []; c_readers := [];
          c_oldq := c_oldq st ++ c_readq st; c_zombies := c_readers st ++ c_zombies st;
          next_sock := next_sock st |},
       ubreak_outs st ++ map (ODropRev DReplacing) (c_sendq st))
  end.

(* a whole history: final state and the trace of outputs *)
Fixpoint urun (c : ucfg) (st : ust) (h : list uev) : ust * list uout :=
  match h with
  | [] => (st, [])
  | e :: h' =>
      let '(st1, o1) := ustep c st e in
      let '(st2, o2) := urun c st1 h' in
      (st2, o1 ++ o2)
  end.

(** ** projections of histories and traces used by the specifications *)

Definition uview := (option uaddr * option bytes)%type.
Definition upview (p : upacket) : uview := (up_raddr p, get_content p).

Fixpoint ucount {A} (f : A -> bool) (l : list A) : Z :=
  match l with [] => 0 | x :: r => (if f x then 1 else 0) + ucount f r end.

(* datagrams users sent, as ReadFromUDP saw them *)
Definition usent (c : ucfg) (h : list uev) : list uview :=
  flat_map (fun e => match e with EUserSend a d => [(Some a, Some (uread c d))] | _ => [] end) h.
(* datagrams handed to the backend *)
Definition ubackend (tr : list uout) : list uview :=
  flat_map (fun o => match o with OBackend _ ra d => [(ra, Some d)] | _ => [] end) tr.
Definition udropped_fwd (tr : list uout) : list uview :=
  flat_map (fun o => match o with ODropFwd _ p => [upview p] | _ => [] end) tr.
(* replies read from local sockets, with the tag they were given *)
Definition utagged (tr : list uout) : list uview :=
  flat_map (fun o => match o with OTagged _ ra d => [(ra, Some d)] | _ => [] end) tr.
Definition uuser (tr : list uout) : list uview :=
  flat_map (fun o => match o with OUser a d => [(Some a, Some d)] | _ => [] end) tr.
Definition udropped_rev (tr : list uout) : list uview :=
  flat_map (fun o => match o with ODropRev _ p => [upview p] | _ => [] end) tr.

Definition ufwd_pending (st : ust) : list upacket := s_sendq st ++ w_sc st ++ c_readq st ++ c_oldq st.
Definition urev_pending (st : ust) : list upacket := c_sendq st ++ w_cs st ++ s_readq st.

(* reasons a datagram may be lost for *)
Definition udrop_allowed (w : udropwhy) : bool :=
  match w with DSendFull | DReplyFull | DReplacing => true | _ => false end.
Definition uout_drop_ok (o : uout) : bool :=
  match o with ODropFwd w _ | ODropRev w _ => udrop_allowed w | _ => true end.
Definition uout_is_drop (o : uout) : bool :=
  match o with ODropFwd _ _ | ODropRev _ _ => true | _ => false end.

(* what the theorems require of a user datagram / a backend reply: it fits the read buffer and
   its frame fits the 10 KiB message bound *)
Definition udgram_ok (c : ucfg) (ra : option uaddr) (d : bytes) : bool :=
  (blen d <=? uc_buf c) && upacket_fits (new_udp_packet d None ra).
