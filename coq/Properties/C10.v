(* C10 — everything a proxy or session held is released on every termination path.
   Statements only; proofs are in Proofs/SrvResProofs.v, Proofs/SrvResThms.v, Proofs/ConnWrapProofs.v.

   Model/SrvRes.v is the server's resource accounting as one state (port tables, sockets, the three
   route tables, visitor and NAT-hole tables, group tables, name table, session table) with the
   handlers' sequential semantics as steps; external behaviour (random port choice, outcome of
   net.Listen, a concurrent registration winning pxyManager.Add) enters as oracle fields of the
   request, and every statement quantifies over all their values.
   [reach ranges maxp maxpool s] = s is the result of SOME history (fold of sr_step over any list of
   operations: logins, registrations succeeding or failing at any step, closes, session ends, work
   connections, foreign processes binding ports) without load-balancing groups, from the initial state.
   [fp s n] = the set of resource atoms recorded under proxy name n in any table of s.
   The grouped paths (tcp / http / tcpmux groups) are modelled and compared with the code on every
   run (Corr/C10.v) but are outside these theorems: see design/C10.md. *)
From FRP Require Import Model.SrvRes Model.ConnWrap Proofs.PortsProofs Proofs.SrvResBase Proofs.SrvResProofs Proofs.SrvResThms
  Proofs.ConnWrapProofs.
Open Scope Z_scope.

(* "all histories" is literally a fold_left of the step function *)
Theorem C10_history_is_a_fold : forall maxp maxpool ops s, sr_run maxp maxpool ops s = sr_fold maxp maxpool ops s.
Proof. exact sr_run_fold. Qed.
Print Assumptions C10_history_is_a_fold.

(* no leak, ever: in every reachable state every entry of every keyed table (socket, route of the three
   route tables, visitor listener, NAT-hole client) is recorded by the object of a proxy that is
   registered right now in the name table and in its session *)
Theorem C10_every_entry_has_a_live_holder : forall ranges maxp maxpool s k ow,
  reach ranges maxp maxpool s -> In (k, ow) (sr_res s) ->
  exists n c ct o, ow = OPxy n /\ nm_get n (sr_names s) = Some c /\ ss_get c (sr_sess s) = Some ct /\
                   nm_get n (ss_pxys ct) = Some o /\ In k (po_slots o).
Proof. exact every_entry_has_a_live_holder. Qed.
Print Assumptions C10_every_entry_has_a_live_holder.

(* ... and every port recorded as used in a port manager is bound by a socket of the registered proxy
   whose name the manager recorded *)
Theorem C10_every_used_port_has_a_live_holder : forall ranges maxp maxpool s proto p n,
  reach ranges maxp maxpool s -> (proto = 0 \/ proto = 1) -> uget p (pm_used (get_pm proto s)) = Some n ->
  exists c ct o, nm_get n (sr_names s) = Some c /\ ss_get c (sr_sess s) = Some ct /\ nm_get n (ss_pxys ct) = Some o /\
                 In (SSock proto p) (po_slots o) /\ al_get slot_eqb (SSock proto p) (sr_res s) = Some (OPxy n).
Proof. exact every_used_port_has_a_live_holder. Qed.
Print Assumptions C10_every_used_port_has_a_live_holder.

(* stop_releases_footprint, path 1: CloseProxy *)
Theorem C10_stop_releases_footprint_close : forall ranges maxp maxpool s c n s' ct,
  reach ranges maxp maxpool s -> ss_get c (sr_sess s) = Some ct -> nm_get n (ss_pxys ct) <> None ->
  y_close maxp s c n = Some s' -> fp s' n = [].
Proof. exact close_releases_footprint. Qed.
Print Assumptions C10_stop_releases_footprint_close.

(* stop_releases_footprint, paths 2-4 (connection drop, replacement by re-login, heartbeat timeout reach
   the same teardown) = session_end_releases_all_of_its_proxies: the session leaves the table, exactly its
   pooled work connections are closed, every proxy it owned has an empty footprint and a free name *)
Theorem C10_session_end_releases_all_of_its_proxies : forall ranges maxp maxpool s c s' k ct,
  reach ranges maxp maxpool s -> ss_get c (sr_sess s) = Some ct -> y_end s c = Some (s', k) ->
  ss_get c (sr_sess s') = None /\ k = ss_pool ct /\
  (forall n, nm_get n (ss_pxys ct) <> None -> nm_get n (sr_names s') = None /\ fp s' n = []).
Proof. exact session_end_releases_all. Qed.
Print Assumptions C10_session_end_releases_all_of_its_proxies.

(* failed_registration_rolls_back_everything_it_acquired, for EVERY failure point e (quota, name taken,
   port refused, listen failed after the acquisition, a later route conflicting after earlier ones were
   added, the name taken by a concurrent registration after Run succeeded): every table is what it was,
   the port managers up to the order of the free table and the reserved-port memory, the quota counter
   included (the session entries are equal) *)
Theorem C10_failed_registration_rolls_back_everything_it_acquired : forall ranges maxp maxpool s c q s' e,
  reach ranges maxp maxpool s -> group_free_req q -> y_register maxp s c q = Some (s', RErr e) ->
  sr_res s' = sr_res s /\ sr_grp s' = sr_grp s /\ sr_names s' = sr_names s /\ sr_squat s' = sr_squat s /\
  pm_eqv (sr_tcp s) (sr_tcp s') /\ pm_eqv (sr_udp s) (sr_udp s') /\
  (forall c0, ss_get c0 (sr_sess s') = ss_get c0 (sr_sess s)).
Proof. exact failed_registration_restores. Qed.
Print Assumptions C10_failed_registration_rolls_back_everything_it_acquired.

Theorem C10_stop_releases_footprint_failed_registration : forall ranges maxp maxpool s c q s' e,
  reach ranges maxp maxpool s -> group_free_req q -> y_register maxp s c q = Some (s', RErr e) ->
  nm_get (q_name q) (sr_names s) = None -> fp s' (q_name q) = [].
Proof. exact failed_registration_releases_footprint. Qed.
Print Assumptions C10_stop_releases_footprint_failed_registration.

(* cycles_do_not_grow: whatever happened before — any number of register/stop cycles, failures, session
   ends — once no proxy is registered every resource table is EMPTY (so its size after n cycles equals
   its size after one, namely 0), only the session table keeps the live sessions *)
Theorem C10_cycles_do_not_grow : forall ranges maxp maxpool s,
  reach ranges maxp maxpool s -> sr_names s = [] ->
  sr_res s = [] /\ pm_used (sr_tcp s) = [] /\ pm_used (sr_udp s) = [] /\ sr_grp s = [] /\
  (forall c ct, ss_get c (sr_sess s) = Some ct -> ss_pxys ct = []).
Proof. exact quiescent_state_is_empty. Qed.
Print Assumptions C10_cycles_do_not_grow.

Theorem C10_cycles_table_sizes : forall ranges maxp maxpool s,
  reach ranges maxp maxpool s -> sr_names s = [] ->
  firstn 13 (sizes s) = [0; 0; 0; 0; 0; 0; 0; 0; 0; 0; 0; 0; 0].
Proof. exact quiescent_sizes. Qed.
Print Assumptions C10_cycles_table_sizes.

(* wrapper_closes_underlying_exactly_once: for every wrapper shape (ContextConn, WrapReadWriteCloserConn,
   CloseNotifyConn, StatsConn, golib ReadWriteCloser, and the stacks built at the three server sites with
   every combination of encryption / compression / limiter) and every number k of Close calls on the top,
   the transport is closed cw_spec times: 0 if k = 0, exactly once if the stack contains a once-guard,
   k times (every call forwarded) otherwise *)
Theorem C10_wrapper_close_count : forall s k, cw_observe s k = Some (cw_spec s k).
Proof. exact cw_observe_spec. Qed.
Print Assumptions C10_wrapper_close_count.

Theorem C10_wrapper_closes_underlying_exactly_once : forall s k,
  cw_guarded s = true -> (k <> 0)%nat -> cw_observe s k = Some 1.
Proof. exact cw_exactly_once. Qed.
Print Assumptions C10_wrapper_closes_underlying_exactly_once.

Theorem C10_wrapper_propagates_close : forall s k, (k <> 0)%nat -> exists m, cw_observe s k = Some m /\ 1 <= m.
Proof. exact cw_at_least_once. Qed.
Print Assumptions C10_wrapper_propagates_close.

Theorem C10_wrapper_callback_once : forall k, (k <> 0)%nat ->
  forall s, s = ShCloseNotify \/ s = ShStats ->
  exists st, cw_close_n k (cw_heap s) (cw_top s) cw_init = Some st /\ cw_calls st = [1%nat].
Proof. exact cw_callback_once. Qed.
Print Assumptions C10_wrapper_callback_once.

(* the shapes before the two repairs never reached the transport (what regress/revert_8f52e6b and
   revert_ff68771 restore) *)
Theorem C10_old_closenotify_never_closes : forall k,
  exists st, cw_close_n k cw_old_closenotify 1%nat cw_init = Some st /\ cw_base_closes st = 0.
Proof. exact cw_old_closenotify_never_closes. Qed.
Print Assumptions C10_old_closenotify_never_closes.

(* ---------- the hypotheses are satisfiable: a concrete non-trivial history ---------- *)
Open Scope string_scope.
Definition ex_req (t : ptype) (n : string) (port : Z) (doms : list string) : req :=
  {| q_type := t; q_name := n; q_port := port; q_group := ""; q_gkey := ""; q_domains := doms; q_locs := []; q_user := "";
     q_cred := ""; q_choice := None; q_lok := true; q_addok := true |}.

Definition ex_ops : list sop :=
  [ SLogin 1 0; SNewProxy 1 (ex_req TTcp "a" 21001 []); SNewProxy 1 (ex_req THttp "h" 0 ["x.test"; "y.test"]);
    SLogin 2 0; SNewProxy 2 (ex_req THttp "g" 0 ["z.test"; "y.test"]);      (* fails at the second domain *)
    SNewProxy 2 (ex_req TStcp "v" 0 []); SCloseProxy 1 "a"; SEnd 2 CDrop ].

Example C10_example_reachable :
  exists s, sr_run 0 5 ex_ops (sr_new [(21000, 21003, 0)]) = Some s /\ Forall group_free_op ex_ops /\
            map fst (sr_names s) = ["h"] /\ nlen (sr_res s) = 2.
Proof. eexists. split; [vm_compute; reflexivity|]. split; [repeat constructor|split; reflexivity]. Qed.
