(* C20: executable model of pkg/nathole Controller: ListenClient / CloseClient, HandleVisitor, HandleClient,
   HandleReport as ATOMIC STEPS at lock / channel granularity, so that a list of events is a schedule.
   HandleVisitor of one request = [EvVisitor] (pre-check, or lookup + signature + allowUsers + insert under the lock)
   ; [EvDeliver] | [EvGiveUp] (the select on the unbuffered send of the sid to the proxy's goroutine and
     time.After(NatHoleTimeout): repaired F-C20b) ; [EvWake] | [EvTimeout] (the select on notifyCh)
   ; [EvAnalyse] ; [EvSendV], [EvSendC] (the two concurrent sends) ; [EvSleepDone] (end of the sleep, deferred delete).
   Model only: no proofs here. *)
From FRP Require Export Model.NatHole.
Open Scope Z_scope.

(* cc_owner: the control session (server/control.go) whose NewProxy registered the proxy; -1: registered directly (EvListen) *)
Record ctl_cfg := { cc_name : bytes; cc_sk : bytes; cc_allow : list bytes; cc_chan : Z; cc_owner : Z }.

Inductive ctl_pc :=
| PcNotify                       (* session inserted; in the select on  clientCfg.sidCh <- sid / time.After *)
| PcWait                         (* in the select on notifyCh / time.After(NatHoleTimeout) *)
| PcAnalyse                      (* woken by the client's message *)
| PcSend (vsent csent : bool)    (* the two sending goroutines *)
| PcSleep                        (* time.Sleep(ReadTimeoutMs + 30000) before the deferred delete *)
| PcDoneTimeout                  (* returned after the timeout; nothing was sent *)
| PcDoneComplete.                (* returned after the sleep *)

(* one HandleVisitor invocation that got past the checks, together with its Session object *)
Record ctl_sess := {
  ss_sid : Z;                               (* identity of the session (GenSid), allocated by the model *)
  ss_chan : Z;                              (* the sidCh of the ClientCfg found at lookup time *)
  ss_vmsg : nh_vmsg; ss_vtr : Z;            (* visitorMsg, visitorTransporter *)
  ss_client : option (nh_cmsg * Z);         (* clientMsg, clientTransporter: written by HandleClient *)
  ss_token : bool;                          (* notifyCh (buffered, capacity 1) holds a token *)
  ss_reco : option (bytes * Z * Z);         (* analysisKey, recommandMode, recommandIndex once analysis succeeded *)
  ss_resps : option (nh_resp * nh_resp);    (* vResp, cResp *)
  ss_in_table : bool;                       (* c.sessions[sid] is present *)
  ss_pc : ctl_pc }.

Record ctl_state := {
  st_cfgs : list ctl_cfg;       (* clientCfgs *)
  st_alive : list Z;            (* sid channels whose goroutine (XTCPProxy.Run's loop) sits in its select: it can take a sid *)
  st_busy : list Z;             (* ... whose goroutine is handing a sid over (GetWorkConnFromPool, WriteMsg): up to 10 s *)
  st_closedch : list Z;         (* ... whose proxy's closeCh is closed *)
  st_deadctl : list Z;          (* control sessions whose read loop has ended and whose teardown (Control.worker) has run *)
  st_next_chan : Z;
  st_next_sid : Z;
  st_sess : list ctl_sess;
  st_an : nh_analyzer }.

Definition ctl_init : ctl_state :=
  {| st_cfgs := []; st_alive := []; st_busy := []; st_closedch := []; st_deadctl := []; st_next_chan := 0; st_next_sid := 0; st_sess := []; st_an := [] |}.

Inductive ctl_ev :=
| EvListen (name sk : bytes) (allow : list bytes)
| EvClose (name : bytes)              (* CloseClient and the end of a stand-in receiver at once (controller driver) *)
| EvProxyClose (name : bytes)         (* XTCPProxy.Close: BaseProxy.Close; CloseClient(name) SYNCHRONOUSLY; close(closeCh) *)
| EvHandoverDone (ch : Z)             (* the loop of XTCPProxy.Run is back in its select after handing a sid over *)
| EvLoopExit (ch : Z)                 (* the loop sees closeCh in its select and returns *)
| EvVisitor (vm : nh_vmsg) (tr : Z) (user : bytes)
| EvDeliver (t : Z)
| EvGiveUp (t : Z)                 (* the hand-over timed out: return, deferred delete *)
| EvClient (cm : nh_cmsg) (tr : Z)
| EvWake (t : Z)
| EvTimeout (t : Z)
| EvAnalyse (t : Z)
| EvSendV (t : Z)
| EvSendC (t : Z)
| EvSleepDone (t : Z)
| EvReport (sid : bytes) (success : bool)
| EvNewProxy (ctl : Z) (name sk : bytes) (allow : list bytes)
                                     (* Control.handleNewProxy -> RegisterProxy -> XTCPProxy.Run -> ListenClient; it runs INSIDE the
                                        read loop of control ctl, so it cannot happen once that loop has ended *)
| EvCtlEnd (ctl : Z).                (* the read loop of control ctl ends (doneCh) and Control.worker tears down: Close of
                                        every proxy the control registered *)

Inductive ctl_role := ToVisitor | ToClient.

Inductive ctl_out :=
| OutListen (ok : bool) (chan : Z)
| OutSid (chan : Z) (sid : Z)                                   (* the sid handed to the proxy's goroutine *)
| OutReply (tr : Z) (r : nh_resp)                               (* immediate answer of HandleVisitor to the requester *)
| OutResp (t : Z) (role : ctl_role) (tr : Z) (r : nh_resp).     (* one of the two responses of session t *)

(* sid as it appears on the wire in this model: 4 bytes big endian *)
Definition ctl_sid_bytes (n : Z) : bytes := be 4 n.
Definition ctl_parse_sid (b : bytes) : option Z := if Nat.eqb (length b) 4 then Some (rdu b 0) else None.

Definition ctl_star : bytes := [x2a].
Definition ctl_allowed (cfg : ctl_cfg) (user : bytes) : bool :=
  nh_bytes_in user (cc_allow cfg) || nh_bytes_in ctl_star (cc_allow cfg).

Fixpoint ctl_find_cfg (name : bytes) (l : list ctl_cfg) : option ctl_cfg :=
  match l with [] => None | c :: r => if bytes_eqb name (cc_name c) then Some c else ctl_find_cfg name r end.

Definition ctl_remove_cfg (name : bytes) (l : list ctl_cfg) : list ctl_cfg :=
  filter (fun c => negb (bytes_eqb name (cc_name c))) l.

Definition ctl_zin (x : Z) (l : list Z) : bool := existsb (Z.eqb x) l.

(* the Session object of HandleVisitor invocation t *)
Fixpoint ctl_find (t : Z) (l : list ctl_sess) : option ctl_sess :=
  match l with [] => None | s :: r => if ss_sid s =? t then Some s else ctl_find t r end.

(* c.sessions[sid] *)
Definition ctl_lookup (t : Z) (l : list ctl_sess) : option ctl_sess :=
  match ctl_find t l with Some s => if ss_in_table s then Some s else None | None => None end.

Definition ctl_update (t : Z) (f : ctl_sess -> ctl_sess) (l : list ctl_sess) : list ctl_sess :=
  map (fun s => if ss_sid s =? t then f s else s) l.

Definition ctl_set_pc (pc : ctl_pc) (s : ctl_sess) : ctl_sess :=
  {| ss_sid := ss_sid s; ss_chan := ss_chan s; ss_vmsg := ss_vmsg s; ss_vtr := ss_vtr s; ss_client := ss_client s;
     ss_token := ss_token s; ss_reco := ss_reco s; ss_resps := ss_resps s; ss_in_table := ss_in_table s; ss_pc := pc |}.
Definition ctl_delete (pc : ctl_pc) (s : ctl_sess) : ctl_sess :=
  {| ss_sid := ss_sid s; ss_chan := ss_chan s; ss_vmsg := ss_vmsg s; ss_vtr := ss_vtr s; ss_client := ss_client s;
     ss_token := ss_token s; ss_reco := ss_reco s; ss_resps := ss_resps s; ss_in_table := false; ss_pc := pc |}.

Definition ctl_with_sess (st : ctl_state) (l : list ctl_sess) : ctl_state :=
  {| st_cfgs := st_cfgs st; st_alive := st_alive st; st_busy := st_busy st; st_closedch := st_closedch st; st_deadctl := st_deadctl st; st_next_chan := st_next_chan st; st_next_sid := st_next_sid st;
     st_sess := l; st_an := st_an st |}.

Section Ctl.
  Variable D : nh_data.
  Variable auth : bytes -> Z -> bytes.      (* util.GetAuthKey(sk, timestamp) *)

  (* None: the event is not enabled in this state (a schedule skips it; an observed trace must not contain it) *)
  Definition ctl_step (st : ctl_state) (e : ctl_ev) : option (ctl_state * list ctl_out) :=
    match e with
    | EvListen name sk allow =>
        match ctl_find_cfg name (st_cfgs st) with
        | Some _ => Some (st, [OutListen false 0])
        | None =>
            let ch := st_next_chan st in
            Some ({| st_cfgs := {| cc_name := name; cc_sk := sk; cc_allow := allow; cc_chan := ch; cc_owner := -1 |} :: st_cfgs st;
                     st_alive := ch :: st_alive st; st_busy := st_busy st; st_closedch := st_closedch st; st_deadctl := st_deadctl st; st_next_chan := ch + 1; st_next_sid := st_next_sid st;
                     st_sess := st_sess st; st_an := st_an st |}, [OutListen true ch])
        end
    | EvClose name =>
        let alive := match ctl_find_cfg name (st_cfgs st) with
                     | Some c => filter (fun x => negb (x =? cc_chan c)) (st_alive st)
                     | None => st_alive st
                     end in
        let busy := match ctl_find_cfg name (st_cfgs st) with
                    | Some c => filter (fun x => negb (x =? cc_chan c)) (st_busy st)
                    | None => st_busy st
                    end in
        Some ({| st_cfgs := ctl_remove_cfg name (st_cfgs st); st_alive := alive; st_busy := busy; st_closedch := st_closedch st; st_deadctl := st_deadctl st; st_next_chan := st_next_chan st;
                 st_next_sid := st_next_sid st; st_sess := st_sess st; st_an := st_an st |}, [])
    | EvProxyClose name =>
        let closed := match ctl_find_cfg name (st_cfgs st) with
                      | Some c => cc_chan c :: st_closedch st
                      | None => st_closedch st
                      end in
        Some ({| st_cfgs := ctl_remove_cfg name (st_cfgs st); st_alive := st_alive st; st_busy := st_busy st;
                 st_closedch := closed; st_deadctl := st_deadctl st; st_next_chan := st_next_chan st; st_next_sid := st_next_sid st;
                 st_sess := st_sess st; st_an := st_an st |}, [])
    | EvHandoverDone ch =>
        if ctl_zin ch (st_busy st)
        then Some ({| st_cfgs := st_cfgs st; st_alive := ch :: st_alive st;
                      st_busy := filter (fun x => negb (x =? ch)) (st_busy st); st_closedch := st_closedch st; st_deadctl := st_deadctl st;
                      st_next_chan := st_next_chan st; st_next_sid := st_next_sid st; st_sess := st_sess st; st_an := st_an st |}, [])
        else None
    | EvLoopExit ch =>
        if ctl_zin ch (st_alive st) && ctl_zin ch (st_closedch st)
        then Some ({| st_cfgs := st_cfgs st; st_alive := filter (fun x => negb (x =? ch)) (st_alive st);
                      st_busy := st_busy st; st_closedch := st_closedch st; st_deadctl := st_deadctl st;
                      st_next_chan := st_next_chan st; st_next_sid := st_next_sid st; st_sess := st_sess st; st_an := st_an st |}, [])
        else None
    | EvVisitor vm tr user =>
        let reply e := Some (st, [OutReply tr (nh_err_resp (vm_tid vm) e)]) in
        if vm_precheck vm then
          match ctl_find_cfg (vm_proxy vm) (st_cfgs st) with
          | None => reply NeNoProxy
          | Some cfg => if ctl_allowed cfg user then reply NeNone else reply NeNotAllowed
          end
        else
          match ctl_find_cfg (vm_proxy vm) (st_cfgs st) with
          | None => reply NeNoProxy
          | Some cfg =>
              if negb (bytes_eqb (vm_signkey vm) (auth (cc_sk cfg) (vm_ts vm))) then reply NeAuth
              else if negb (ctl_allowed cfg user) then reply NeNotAllowed
              else
                let sid := st_next_sid st in
                let s := {| ss_sid := sid; ss_chan := cc_chan cfg; ss_vmsg := vm; ss_vtr := tr; ss_client := None;
                            ss_token := false; ss_reco := None; ss_resps := None; ss_in_table := true; ss_pc := PcNotify |} in
                Some ({| st_cfgs := st_cfgs st; st_alive := st_alive st; st_busy := st_busy st; st_closedch := st_closedch st; st_deadctl := st_deadctl st; st_next_chan := st_next_chan st;
                         st_next_sid := sid + 1; st_sess := st_sess st ++ [s]; st_an := st_an st |}, [])
          end
    | EvDeliver t =>
        match ctl_find t (st_sess st) with
        | Some s =>
            match ss_pc s with
            | PcNotify => if ctl_zin (ss_chan s) (st_alive st)
                          then Some ({| st_cfgs := st_cfgs st;
                                        st_alive := filter (fun x => negb (x =? ss_chan s)) (st_alive st);
                                        st_busy := ss_chan s :: st_busy st; st_closedch := st_closedch st; st_deadctl := st_deadctl st;
                                        st_next_chan := st_next_chan st; st_next_sid := st_next_sid st;
                                        st_sess := ctl_update t (ctl_set_pc PcWait) (st_sess st); st_an := st_an st |},
                                     [OutSid (ss_chan s) t])
                          else None
            | _ => None
            end
        | None => None
        end
    | EvGiveUp t =>
        match ctl_find t (st_sess st) with
        | Some s => match ss_pc s with
                    | PcNotify => Some (ctl_with_sess st (ctl_update t (ctl_delete PcDoneTimeout) (st_sess st)), [])
                    | _ => None
                    end
        | None => None
        end
    | EvClient cm tr =>
        match ctl_parse_sid (cm_sid cm) with
        | Some t =>
            match ctl_lookup t (st_sess st) with
            | Some _ =>
                Some (ctl_with_sess st (ctl_update t (fun s =>
                  {| ss_sid := ss_sid s; ss_chan := ss_chan s; ss_vmsg := ss_vmsg s; ss_vtr := ss_vtr s;
                     ss_client := Some (cm, tr); ss_token := true; ss_reco := ss_reco s; ss_resps := ss_resps s;
                     ss_in_table := ss_in_table s; ss_pc := ss_pc s |}) (st_sess st)), [])
            | None => Some (st, [])
            end
        | None => Some (st, [])
        end
    | EvWake t =>
        match ctl_find t (st_sess st) with
        | Some s =>
            match ss_pc s with
            | PcWait => if ss_token s
                        then Some (ctl_with_sess st (ctl_update t (fun s =>
                          {| ss_sid := ss_sid s; ss_chan := ss_chan s; ss_vmsg := ss_vmsg s; ss_vtr := ss_vtr s;
                             ss_client := ss_client s; ss_token := false; ss_reco := ss_reco s; ss_resps := ss_resps s;
                             ss_in_table := ss_in_table s; ss_pc := PcAnalyse |}) (st_sess st)), [])
                        else None
            | _ => None
            end
        | None => None
        end
    | EvTimeout t =>
        match ctl_find t (st_sess st) with
        | Some s => match ss_pc s with
                    | PcWait => Some (ctl_with_sess st (ctl_update t (ctl_delete PcDoneTimeout) (st_sess st)), [])
                    | _ => None
                    end
        | None => None
        end
    | EvAnalyse t =>
        match ctl_find t (st_sess st) with
        | Some s =>
            match ss_pc s, ss_client s with
            | PcAnalyse, Some (cm, _) =>
                let upd an reco rv rc :=
                  Some ({| st_cfgs := st_cfgs st; st_alive := st_alive st; st_busy := st_busy st; st_closedch := st_closedch st; st_deadctl := st_deadctl st; st_next_chan := st_next_chan st;
                           st_next_sid := st_next_sid st;
                           st_sess := ctl_update t (fun s =>
                             {| ss_sid := ss_sid s; ss_chan := ss_chan s; ss_vmsg := ss_vmsg s; ss_vtr := ss_vtr s;
                                ss_client := ss_client s; ss_token := ss_token s; ss_reco := reco; ss_resps := Some (rv, rc);
                                ss_in_table := ss_in_table s; ss_pc := PcSend false false |}) (st_sess st);
                           st_an := an |}, []) in
                match nh_analysis D (st_an st) (ctl_sid_bytes t) (ss_vmsg s) cm with
                | AnOk an r => upd an (Some (ao_key r, ao_mode r, ao_index r)) (ao_vresp r) (ao_cresp r)
                | AnErr e => upd (st_an st) (ss_reco s) (nh_err_resp (vm_tid (ss_vmsg s)) e) (nh_err_resp (cm_tid cm) e)
                | AnPanic => None
                end
            | _, _ => None
            end
        | None => None
        end
    | EvSendV t =>
        match ctl_find t (st_sess st) with
        | Some s =>
            match ss_pc s, ss_resps s with
            | PcSend false cs, Some (rv, _) =>
                Some (ctl_with_sess st (ctl_update t (ctl_set_pc (if cs then PcSleep else PcSend true cs)) (st_sess st)),
                      [OutResp t ToVisitor (ss_vtr s) rv])
            | _, _ => None
            end
        | None => None
        end
    | EvSendC t =>
        match ctl_find t (st_sess st) with
        | Some s =>
            match ss_pc s, ss_resps s, ss_client s with
            | PcSend vs false, Some (_, rc), Some (_, ctr) =>
                Some (ctl_with_sess st (ctl_update t (ctl_set_pc (if vs then PcSleep else PcSend vs true)) (st_sess st)),
                      [OutResp t ToClient ctr rc])
            | _, _, _ => None
            end
        | None => None
        end
    | EvSleepDone t =>
        match ctl_find t (st_sess st) with
        | Some s => match ss_pc s with
                    | PcSleep => Some (ctl_with_sess st (ctl_update t (ctl_delete PcDoneComplete) (st_sess st)), [])
                    | _ => None
                    end
        | None => None
        end
    | EvReport sid success =>
        match ctl_parse_sid sid with
        | Some t =>
            match ctl_lookup t (st_sess st) with
            | Some s =>
                match success, ss_reco s with
                | true, Some (k, m, i) =>
                    Some ({| st_cfgs := st_cfgs st; st_alive := st_alive st; st_busy := st_busy st; st_closedch := st_closedch st; st_deadctl := st_deadctl st; st_next_chan := st_next_chan st;
                             st_next_sid := st_next_sid st; st_sess := st_sess st; st_an := nh_report (st_an st) k m i |}, [])
                | _, _ => Some (st, [])
                end
            | None => Some (st, [])
            end
        | None => Some (st, [])
        end
    | EvNewProxy ctl name sk allow =>
        if ctl_zin ctl (st_deadctl st) || (ctl <? 0) then None
        else
          match ctl_find_cfg name (st_cfgs st) with
          | Some _ => Some (st, [OutListen false 0])
          | None =>
              let ch := st_next_chan st in
              Some ({| st_cfgs := {| cc_name := name; cc_sk := sk; cc_allow := allow; cc_chan := ch; cc_owner := ctl |} :: st_cfgs st;
                       st_alive := ch :: st_alive st; st_busy := st_busy st; st_closedch := st_closedch st;
                       st_deadctl := st_deadctl st; st_next_chan := ch + 1; st_next_sid := st_next_sid st;
                       st_sess := st_sess st; st_an := st_an st |}, [OutListen true ch])
          end
    | EvCtlEnd ctl =>
        if ctl <? 0 then None
        else
          Some ({| st_cfgs := filter (fun c => negb (cc_owner c =? ctl)) (st_cfgs st);
                   st_alive := st_alive st; st_busy := st_busy st;
                   st_closedch := map cc_chan (filter (fun c => cc_owner c =? ctl) (st_cfgs st)) ++ st_closedch st;
                   st_deadctl := ctl :: st_deadctl st; st_next_chan := st_next_chan st; st_next_sid := st_next_sid st;
                   st_sess := st_sess st; st_an := st_an st |}, [])
    end.

  (* a schedule: events that are not enabled are skipped *)
  Fixpoint ctl_run (st : ctl_state) (evs : list ctl_ev) : ctl_state * list ctl_out :=
    match evs with
    | [] => (st, [])
    | e :: r =>
        match ctl_step st e with
        | Some (st', o) => let '(st'', o') := ctl_run st' r in (st'', o ++ o')
        | None => ctl_run st r
        end
    end.

  (* an observed trace: every event must be enabled *)
  Fixpoint ctl_trace (st : ctl_state) (evs : list ctl_ev) : option (ctl_state * list ctl_out) :=
    match evs with
    | [] => Some (st, [])
    | e :: r =>
        match ctl_step st e with
        | Some (st', o) => match ctl_trace st' r with Some (st'', o') => Some (st'', o ++ o') | None => None end
        | None => None
        end
    end.

  Definition ctl_table (st : ctl_state) : list Z := map ss_sid (filter ss_in_table (st_sess st)).

  (* some step of HandleVisitor invocation s can still be taken *)
  Definition ctl_sess_enabled (st : ctl_state) (s : ctl_sess) : bool :=
    match ss_pc s with
    | PcNotify | PcWait | PcAnalyse | PcSend _ _ | PcSleep => true
    | PcDoneTimeout | PcDoneComplete => false
    end.
  (* the same without the [EvGiveUp] branch: the code before the repair of F-C20b (regression witness only) *)
  Definition ctl_sess_enabled_before_repair (st : ctl_state) (s : ctl_sess) : bool :=
    match ss_pc s with
    | PcNotify => ctl_zin (ss_chan s) (st_alive st)
    | PcWait | PcAnalyse | PcSend _ _ | PcSleep => true
    | PcDoneTimeout | PcDoneComplete => false
    end.
  Definition ctl_quiescent (st : ctl_state) : bool := forallb (fun s => negb (ctl_sess_enabled st s)) (st_sess st).
End Ctl.
