(* C18 — a proxy definition means the same in every format and on both ends.
   Only statements here; proofs live in Proofs/.  The record types, the nine MarshalToMsg /
   UnmarshalFromMsg pairs, ProxyBaseConfig.Complete and the type registry are regenerated from
   pkg/config/v1/*.go and pkg/msg/msg.go on every run (gen/GenCfgMsg.v, translator unit T3), so
   every theorem below is re-checked against what the code says today. *)
From FRP Require Import Model.Literals Model.CfgMsg Model.CfgWire Model.Validate
  Model.FlagsCheck Model.Template Proofs.CfgMsgProofs Proofs.ValidateProofs Proofs.LiteralsProofs Proofs.FlagsProofs
  Proofs.TemplateProofs Model.LegacyConvCheck Proofs.LegacyConvProofs gen.GenLegacyConv Golden.GoldenLegacyConv Model.ValidateSections Proofs.ValidateSectionsProofs Model.StrictLoad Proofs.StrictLoadProofs Model.RenderOwn Proofs.RenderOwnProofs gen.GenMsg gen.GenCfgMsg gen.GenFlags gen.GenLoadShape Golden.GoldenFlags.
Open Scope Z_scope.

(* ---- the registration message loses nothing the server acts on ---- *)

(* For every registered proxy type (pc ranges over the generated sum type) and every configuration
   the client loaded and completed: NewProxyConfigurerFromMsg(MarshalToMsg(c)), before validation,
   is exactly c without the client-only fields (health check, local backend, PROXY-protocol version),
   completed by the server; the message is left as it was up to the type tag it already carried.
   [fb] is the float oracle (strconv.ParseFloat and the float product): any function. *)
Theorem C18_msg_roundtrip : forall fb pc, client_loaded fb pc ->
  cm_from_msg fb (cm_to_msg pc) =
  (set_NewProxy_ProxyType (cfg_type_name pc) (cm_to_msg pc), Some (cm_server_view pc)).
Proof. exact msg_roundtrip. Qed.
Print Assumptions C18_msg_roundtrip.

(* the same, named per proxy type *)
Theorem C18_msg_roundtrip_tcp : forall fb c, client_loaded fb (Cfg_TCPProxyConfig c) ->
  snd (cm_from_msg fb (cm_to_msg (Cfg_TCPProxyConfig c))) = Some (cm_server_view (Cfg_TCPProxyConfig c)).
Proof. exact (fun fb c => msg_roundtrip_snd fb (Cfg_TCPProxyConfig c)). Qed.
Print Assumptions C18_msg_roundtrip_tcp.
Theorem C18_msg_roundtrip_udp : forall fb c, client_loaded fb (Cfg_UDPProxyConfig c) ->
  snd (cm_from_msg fb (cm_to_msg (Cfg_UDPProxyConfig c))) = Some (cm_server_view (Cfg_UDPProxyConfig c)).
Proof. exact (fun fb c => msg_roundtrip_snd fb (Cfg_UDPProxyConfig c)). Qed.
Print Assumptions C18_msg_roundtrip_udp.
Theorem C18_msg_roundtrip_http : forall fb c, client_loaded fb (Cfg_HTTPProxyConfig c) ->
  snd (cm_from_msg fb (cm_to_msg (Cfg_HTTPProxyConfig c))) = Some (cm_server_view (Cfg_HTTPProxyConfig c)).
Proof. exact (fun fb c => msg_roundtrip_snd fb (Cfg_HTTPProxyConfig c)). Qed.
Print Assumptions C18_msg_roundtrip_http.
Theorem C18_msg_roundtrip_https : forall fb c, client_loaded fb (Cfg_HTTPSProxyConfig c) ->
  snd (cm_from_msg fb (cm_to_msg (Cfg_HTTPSProxyConfig c))) = Some (cm_server_view (Cfg_HTTPSProxyConfig c)).
Proof. exact (fun fb c => msg_roundtrip_snd fb (Cfg_HTTPSProxyConfig c)). Qed.
Print Assumptions C18_msg_roundtrip_https.
Theorem C18_msg_roundtrip_tcpmux : forall fb c, client_loaded fb (Cfg_TCPMuxProxyConfig c) ->
  snd (cm_from_msg fb (cm_to_msg (Cfg_TCPMuxProxyConfig c))) = Some (cm_server_view (Cfg_TCPMuxProxyConfig c)).
Proof. exact (fun fb c => msg_roundtrip_snd fb (Cfg_TCPMuxProxyConfig c)). Qed.
Print Assumptions C18_msg_roundtrip_tcpmux.
Theorem C18_msg_roundtrip_stcp : forall fb c, client_loaded fb (Cfg_STCPProxyConfig c) ->
  snd (cm_from_msg fb (cm_to_msg (Cfg_STCPProxyConfig c))) = Some (cm_server_view (Cfg_STCPProxyConfig c)).
Proof. exact (fun fb c => msg_roundtrip_snd fb (Cfg_STCPProxyConfig c)). Qed.
Print Assumptions C18_msg_roundtrip_stcp.
Theorem C18_msg_roundtrip_xtcp : forall fb c, client_loaded fb (Cfg_XTCPProxyConfig c) ->
  snd (cm_from_msg fb (cm_to_msg (Cfg_XTCPProxyConfig c))) = Some (cm_server_view (Cfg_XTCPProxyConfig c)).
Proof. exact (fun fb c => msg_roundtrip_snd fb (Cfg_XTCPProxyConfig c)). Qed.
Print Assumptions C18_msg_roundtrip_xtcp.
Theorem C18_msg_roundtrip_sudp : forall fb c, client_loaded fb (Cfg_SUDPProxyConfig c) ->
  snd (cm_from_msg fb (cm_to_msg (Cfg_SUDPProxyConfig c))) = Some (cm_server_view (Cfg_SUDPProxyConfig c)).
Proof. exact (fun fb c => msg_roundtrip_snd fb (Cfg_SUDPProxyConfig c)). Qed.
Print Assumptions C18_msg_roundtrip_sudp.

(* the hypothesis is what the loader + Complete establish *)
Theorem C18_complete_establishes_loaded : forall fb prefix pc,
  ProxyBaseConfig_Type (cfg_base pc) = cfg_type_name pc ->
  bw_canonical fb (ProxyTransport_BandwidthLimit (ProxyBaseConfig_Transport (cfg_base pc))) ->
  client_loaded fb (cfg_complete prefix pc).
Proof. exact complete_establishes_loaded. Qed.
Print Assumptions C18_complete_establishes_loaded.

(* Reflective, over today's translator tables: the translator met no statement it does not
   understand, and every leaf field of every registered proxy type that is not on the golden
   client-only list is the destination of an UnmarshalFromMsg assignment and the source of a
   MarshalToMsg assignment, and has a modelled (non-opaque) type. *)
Theorem C18_no_acted_field_dropped :
  t3_unknown = [] /\
  forall recv path code,
    In recv cm_registered_structs ->
    In (path, code) (cm_leaves 6 cfg_structs "" recv) ->
    cm_client_only path = false ->
    In path (cm_unmarshal_dests recv) /\ In path (cm_marshal_srcs recv) /\
    cm_is_opaque_code code = false /\ cm_is_struct_code code = None.
Proof. exact (fields_covered_sound (eq_refl true <: cm_fields_covered = true)). Qed.
Print Assumptions C18_no_acted_field_dropped.

(* Reflective: the record the model calls NewProxy has exactly the fields of the wire schema that
   T1 extracts from msg.go (so C17's codec round trip applies to the message C18 reasons about) *)
Theorem C18_newproxy_is_wire_schema : newproxy_matches_schema cfg_structs structs = true.
Proof. vm_compute. reflexivity. Qed.
Print Assumptions C18_newproxy_is_wire_schema.

(* ---- legacy ini, common sections ---- *)

(* Reflective, over today's pkg/config/legacy/conversion.go, the `ini:"…"` tags of the legacy structs
   (gen/GenLegacyConv.v), today's json tags (gen/GenCfgMsg.v) and the pinned table Golden/GoldenLegacyConv.v:
   every assignment of Convert_ClientCommonConf_To_v1 / Convert_ServerCommonConf_To_v1 is understood; the
   assignments are exactly the pinned ones (each legacy ini key sets the v1 setting the table names, in the
   pinned form — plain copy, cast, bool -> *bool, bool -> list element, bool -> table present, text -> port
   ranges — under the pinned guard: a crossed, dropped, transformed or re-guarded assignment breaks this);
   no ini key is read twice and no v1 setting written twice; every ini key the legacy structs declare is
   converted or on the pinned not-converted list (log_way). *)
Theorem C18_legacy_conversion_matches :
  exists es,
    lc_entries cfg_structs legacy_conv = Some es /\
    incl es golden_legacy_conv /\ incl golden_legacy_conv es /\
    NoDup (map lc_sec_ini es) /\ NoDup (map lc_sec_target es) /\
    forall sec ini lp, In (sec, ini, lp) legacy_keys -> lc_has_tag ini = true ->
      In (sec ++ "/" ++ ini)%string (map lc_sec_ini es) \/ In (sec, ini) golden_legacy_not_converted.
Proof. exact (legacy_conv_sound cfg_structs golden_legacy_conv golden_legacy_not_converted legacy_conv legacy_keys
                (eq_refl true <: lc_all_ok cfg_structs golden_legacy_conv golden_legacy_not_converted legacy_conv legacy_keys = true)). Qed.
Print Assumptions C18_legacy_conversion_matches.

(* ---- strict mode, for every schedule of loads in one process ---- *)

(* Reflective, over today's source (gen/GenLoadShape.v): in config.LoadConfigure the mutex is taken before
   the package-level switch v1.DisallowUnknownFields is written and released only after the decode (the
   Unlock is deferred / follows the last decode call); LoadConfigure is the only writer of the switch and the
   only user of the mutex; every reader of the switch is an UnmarshalJSON method of package v1, i.e. runs
   inside a decode. *)
Theorem C18_load_lock_discipline : sl_discipline_ok load_events switch_uses mutex_uses = true.
Proof. vm_compute. reflexivity. Qed.
Print Assumptions C18_load_lock_discipline.

(* For the loader program derived from today's LoadConfigure, any number of loads (strict or not, with
   unknown keys at the top level and/or in any nested typed element — proxies[i], visitors[i], their
   plugin tables), any initial value of the switch and EVERY interleaving of their atomic steps: no crash,
   each goroutine keeps its load, and every load that has returned answered "rejected" exactly when it was
   strict and its document has an unknown key at some level.  In particular a strict load rejects an
   unknown key at every nesting level whatever runs concurrently, and a non-strict load never rejects. *)
Theorem C18_strict_every_level_all_schedules : forall sw0 loads sched,
  let s := sl_run sched (sl_init (sl_prog_of load_events false) sw0 loads) in
  sl_crashed s = false /\
  map sl_ld (sl_ths s) = loads /\
  forall i t, nth_error (sl_ths s) i = Some t -> sl_todo t = [] -> sl_rej t = sl_verdict (sl_ld t).
Proof. exact (strict_all_schedules_of_discipline load_events switch_uses mutex_uses
                (eq_refl true <: sl_discipline_ok load_events switch_uses mutex_uses = true)). Qed.
Print Assumptions C18_strict_every_level_all_schedules.

(* why the lock has to cover the decode: with the Unlock right after the write of the switch there is an
   interleaving in which a strict load returns "accepted" for a document with an unknown nested key *)
Theorem C18_early_unlock_refuted :
  exists sched,
    let s := sl_run sched (sl_init [ILock; ISet; IUnlock; IDecode] false
                             [mk_sl_load true false [true]; mk_sl_load false false []]) in
    exists t, nth_error (sl_ths s) 0 = Some t /\ sl_todo t = [] /\ sl_rej t = false /\ sl_verdict (sl_ld t) = true.
Proof. exact early_unlock_refuted. Qed.
Print Assumptions C18_early_unlock_refuted.

(* Reflective: every typed level of a document — every UnmarshalJSON method of package v1: proxies[i],
   visitors[i], proxies[i].plugin, visitors[i].plugin — reads the strict switch (it is one of the readers the
   schedule theorem above speaks about); a typed level that decodes without consulting it breaks this. *)
Theorem C18_every_typed_level_reads_switch : sl_typed_levels_ok typed_unmarshalers switch_uses = true.
Proof. vm_compute. reflexivity. Qed.
Print Assumptions C18_every_typed_level_reads_switch.

(* ---- the rendered bytes a load parses are its own document ---- *)

(* Reflective, over today's RenderWithTemplate (gen/GenLoadShape.v: render_events): the template writes into a
   buffer created by the call and the call returns that buffer's bytes (or a copy); no buffer comes from a
   pool / package variable and nothing is Put back. *)
Theorem C18_render_buffer_owned : ro_mode_of render_events = RoOwned.
Proof. vm_compute. reflexivity. Qed.
Print Assumptions C18_render_buffer_owned.

(* For the render step derived from today's source, any number of loads of different documents and EVERY
   interleaving of their render and parse steps: a load that has finished parsed its own document. *)
Theorem C18_load_parses_own_document_all_schedules : forall docs sched,
  let s := ro_run (ro_mode_of render_events) sched (ro_init docs) in
  forall i t, nth_error (ro_ths s) i = Some t -> ro_todo t = [] -> ro_parsed t = Some (ro_doc t).
Proof. exact (render_own_of_events render_events (eq_refl RoOwned <: ro_mode_of render_events = RoOwned)). Qed.
Print Assumptions C18_load_parses_own_document_all_schedules.

(* why the buffer has to be owned: with a buffer that is handed around, the schedule [0;1;0] makes the first
   load parse the second load's document *)
Theorem C18_render_shared_refuted :
  exists sched,
    let s := ro_run RoShared sched (ro_init [1; 2]%nat) in
    exists t, nth_error (ro_ths s) 0 = Some t /\ ro_todo t = [] /\ ro_parsed t = Some 2%nat /\ ro_doc t = 1%nat.
Proof. exact render_shared_refuted. Qed.
Print Assumptions C18_render_shared_refuted.

(* ---- command-line flags ---- *)

(* Reflective, over today's flags.go (gen/GenFlags.v), today's struct tags (gen/GenCfgMsg.v) and the
   pinned table Golden/GoldenFlags.v: every flag of RegisterProxyFlags (per proxy type), RegisterVisitorFlags,
   RegisterClientCommonConfigFlags and RegisterServerConfigFlags writes the field whose file-format key
   the pinned table names, with the pinned kind and short name; the sets are exactly the pinned ones;
   no flag is bound twice, no field has two flags, no flag writes two fields (one target per binding,
   names distinct), and the names stay distinct on the combined proxy sub-command. *)
Theorem C18_flag_bindings_match :
  (forall set bs, In (set, bs) flag_sets ->
     exists es gs,
       fc_entries cfg_structs bs = Some es /\
       Forall (fun b => fc_is_unknown (fc_kind b) = false) bs /\
       Forall2 (fun b e => fc_key cfg_structs b = Some (fc_e_key e) /\ fc_e_flag e = fc_flag b /\ fc_e_short e = fc_short b) bs es /\
       In (set, gs) golden_flags /\ incl es gs /\ incl gs es /\
       NoDup (map fc_e_flag es) /\ NoDup (map fc_e_key es) /\
       NoDup (filter fc_nonempty (map fc_e_short es))) /\
  (forall set gs, In (set, gs) golden_flags -> In set (map fst flag_sets)) /\
  (forall cl set bs, cm_assoc "client" flag_sets = Some cl -> In (set, bs) flag_sets -> cm_str_prefix "proxy:" set = true ->
     NoDup (map fc_flag (cl ++ bs)) /\ NoDup (filter fc_nonempty (map fc_short (cl ++ bs)))).
Proof. exact (flag_bindings_sound cfg_structs golden_flags flag_sets (eq_refl true <: fc_all_ok cfg_structs golden_flags flag_sets = true)). Qed.
Print Assumptions C18_flag_bindings_match.

(* F-C18b (repaired in /repo: "fix: BoolFuncFlag honours the value it is given"): the dashboard TLS
   setting given through --dashboard_tls_mode / --dashboard_tls_cert_file / --dashboard_tls_key_file
   is the setting the file keys webServer.tls.certFile / keyFile give: for every argument strconv.ParseBool
   reads as true, webServer.tls is the same structure on both paths; for every argument it reads as
   false, webServer.tls is absent on both; any other argument rejects the command line. *)
Theorem C18_dashboard_tls_flag_matches_file : forall mode cert key,
  (bff_parse_bool mode = Some true -> flags_web_tls mode cert key = Some (file_web_tls (Some (cert, key)))) /\
  (bff_parse_bool mode = Some false -> flags_web_tls mode cert key = Some (file_web_tls None)) /\
  (bff_parse_bool mode = None -> flags_web_tls mode cert key = None).
Proof. exact dashboard_tls_flag_matches_file. Qed.
Print Assumptions C18_dashboard_tls_flag_matches_file.

(* and the arguments that enable / disable it are exactly ParseBool's spellings *)
Theorem C18_dashboard_tls_flag_spellings : forall s,
  (bff_parse_bool s = Some true <-> In s bff_trues) /\ (bff_parse_bool s = Some false <-> In s bff_falses).
Proof. exact (fun s => conj (bff_parse_bool_true s) (bff_parse_bool_false s)). Qed.
Print Assumptions C18_dashboard_tls_flag_spellings.

(* ---- validation ---- *)

Theorem C18_validate_port_range : forall p, val_port p = true <-> 0 <= p <= 65535.
Proof. exact val_port_range. Qed.
Print Assumptions C18_validate_port_range.

(* Server configurations accepted by ValidateServerConfig have every port that function range-checks
   (webServer.port, bindPort, kcpBindPort, quicBindPort, vhostHTTPPort, vhostHTTPSPort, tcpmuxHTTPConnectPort and,
   since the repair 8be3cd7, sshTunnelGateway.bindPort) in 0..65535; client common configurations accepted by
   ValidateClientCommonConfig have webServer.port and (since 8be3cd7) serverPort in 0..65535 — negative values included — and a complete webServer.tls block *)
Theorem C18_server_validated_ports_in_range : forall c,
  vs_server_ok c = true -> forall name p, In (name, p) (vs_server_ports c) -> 0 <= p <= 65535.
Proof. exact server_validated_ports_in_range. Qed.
Print Assumptions C18_server_validated_ports_in_range.

Theorem C18_client_validated_ports_in_range : forall c,
  vs_client_ok c = true -> forall name p, In (name, p) (vs_client_ports c) -> 0 <= p <= 65535.
Proof. exact client_validated_ports_in_range. Qed.
Print Assumptions C18_client_validated_ports_in_range.

Theorem C18_web_server_section_valid : forall w,
  vs_web_server_ok w = true ->
  0 <= WebServerConfig_Port w <= 65535 /\
  forall t, WebServerConfig_TLS w = Some t -> TLSConfig_CertFile t <> [] /\ TLSConfig_KeyFile t <> [].
Proof. exact (fun w H => conj (vs_web_server_port w H) (fun t => vs_web_server_tls w t H)). Qed.
Print Assumptions C18_web_server_section_valid.

(* Reflective, over today's struct declarations (gen/GenCfgMsg.v): EVERY int field whose name ends in "Port"
   of the server section, the client common section, the three visitor types and every registered proxy
   type is on exactly one of the two pinned lists — range-checked by validation (the theorems above and
   C18_validated_ports_in_range speak about exactly these) or recorded as not range-checked by the
   validation layer — and the lists name existing fields only.  A new port field breaks this obligation
   until it is classified. *)
Theorem C18_port_fields_classified :
  (forall l, In l vs_port_leaves ->
     (In l vs_checked_ports /\ ~ In l vs_unchecked_ports) \/ (In l vs_unchecked_ports /\ ~ In l vs_checked_ports)) /\
  (forall g, In g vs_checked_ports \/ In g vs_unchecked_ports -> In g vs_port_leaves).
Proof. exact (ports_classified_sound (eq_refl true <: vs_ports_classified = true)). Qed.
Print Assumptions C18_port_fields_classified.

(* (8be3cd7) a tcp or udp proxy accepted by CLIENT-side validation has its remotePort in 0..65535.  The
   server-side path (NewProxyConfigurerFromMsg / ValidateProxyConfigurerForServer) is unchanged and does not
   look at the remote port — there the port manager decides (C09). *)
Theorem C18_validated_remote_port_in_range : forall ann_ok plugin_ok pc,
  val_proxy_client ann_ok plugin_ok pc = VOk ->
  (forall c, pc = Cfg_TCPProxyConfig c -> 0 <= TCPProxyConfig_RemotePort c <= 65535) /\
  (forall c, pc = Cfg_UDPProxyConfig c -> 0 <= UDPProxyConfig_RemotePort c <= 65535).
Proof. exact validated_remote_port_in_range. Qed.
Print Assumptions C18_validated_remote_port_in_range.

Theorem C18_server_side_ignores_remote_port : forall ann_ok s c p,
  val_proxy_server ann_ok (Cfg_TCPProxyConfig (set_TCPProxyConfig_RemotePort p c)) s =
  val_proxy_server ann_ok (Cfg_TCPProxyConfig c) s.
Proof. exact server_side_ignores_remote_port. Qed.
Print Assumptions C18_server_side_ignores_remote_port.

(* a proxy accepted by client-side validation that forwards to a local port (no plugin) has that
   port in 0..65535 *)
Theorem C18_validated_ports_in_range : forall ann_ok plugin_ok pc,
  val_proxy_client ann_ok plugin_ok pc = VOk ->
  TypedClientPluginOptions_Type (ProxyBackend_Plugin (ProxyBaseConfig_ProxyBackend (cfg_base pc))) = [] ->
  0 <= ProxyBackend_LocalPort (ProxyBaseConfig_ProxyBackend (cfg_base pc)) <= 65535.
Proof. exact validated_ports_in_range. Qed.
Print Assumptions C18_validated_ports_in_range.

Theorem C18_validated_enums_allowed : forall ann_ok plugin_ok pc,
  val_proxy_client ann_ok plugin_ok pc = VOk ->
  let b := cfg_base pc in
  ProxyBaseConfig_Name b <> [] /\
  In (ProxyTransport_ProxyProtocolVersion (ProxyBaseConfig_Transport b)) [[]; v_v1; v_v2] /\
  In (ProxyTransport_BandwidthLimitMode (ProxyBaseConfig_Transport b)) [v_client; v_server] /\
  In (HealthCheckConfig_Type (ProxyBaseConfig_HealthCheck b)) [[]; v_tcp; v_http] /\
  (forall c, pc = Cfg_TCPMuxProxyConfig c -> TCPMuxProxyConfig_Multiplexer c = v_httpconnect).
Proof. exact validated_enums_allowed. Qed.
Print Assumptions C18_validated_enums_allowed.

(* Whatever the letter case (ASCII), a registration the server accepts has no custom domain of the
   form  <anything>.<subDomainHost>.  This is what validateDomainConfigForServer guarantees: its
   label-count guard lets through only domains with at most as many labels as the host, and a
   domain under the host has strictly more.  (The host itself, and names that merely contain the
   host text with fewer or equal labels, are not "under" it and are accepted.) *)
Theorem C18_validated_domain_outside_subdomain_host : forall fb ann_ok m s m' pc d x,
  val_from_msg fb ann_ok m s = (m', FMOk pc) ->
  sc_subdomain_host s <> [] ->
  In d (cfg_custom_domains pc) ->
  lower d <> lower (x ++ [lit_dot] ++ sc_subdomain_host s).
Proof. exact validated_domain_outside_subdomain_host. Qed.
Print Assumptions C18_validated_domain_outside_subdomain_host.

(* ---- literals ---- *)

Theorem C18_itoa_parse_roundtrip : forall n, lit_int64_min <= n <= lit_int64_max ->
  lit_parse_int64 (lit_itoa n) = Some n.
Proof. exact itoa_parse_roundtrip. Qed.
Print Assumptions C18_itoa_parse_roundtrip.

(* PortsRangeSlice: String then NewPortsRangeSliceFromString gives the slice back, for every
   non-empty slice of well-formed entries (a single port > 0, or a range 0 <= start <= end) *)
Theorem C18_ports_range_roundtrip : forall p,
  p <> [] -> Forall ports_range_wf p -> ports_parse (ports_string p) = Some p.
Proof. exact ports_range_roundtrip. Qed.
Print Assumptions C18_ports_range_roundtrip.

(* ParseRangeNumbers expands the rendered list to exactly the enumerated numbers *)
Theorem C18_range_numbers_expand : forall items,
  items <> [] -> Forall range_item_wf items ->
  parse_range_numbers (render_items items) = RNOk (flat_map item_numbers items).
Proof. exact range_numbers_expand. Qed.
Print Assumptions C18_range_numbers_expand.

(* what a range expands to: exactly lo, lo+1, ..., hi, in order *)
Theorem C18_zrange_spec : forall lo hi, lo <= hi ->
  length (zrange lo hi) = Z.to_nat (hi - lo + 1) /\
  forall k, (k < Z.to_nat (hi - lo + 1))%nat -> nth_error (zrange lo hi) k = Some (lo + Z.of_nat k).
Proof. exact zrange_spec. Qed.
Print Assumptions C18_zrange_spec.

Theorem C18_number_pairs_aligned : forall a b l,
  number_range_pairs a b = PairsOk l ->
  exists xs ys, parse_range_numbers a = RNOk xs /\ parse_range_numbers b = RNOk ys /\
                length xs = length ys /\ l = combine xs ys /\ map fst l = xs /\ map snd l = ys.
Proof. exact number_pairs_aligned. Qed.
Print Assumptions C18_number_pairs_aligned.

(* BandwidthQuantity: String() is the trimmed literal and parsing it again gives the same
   quantity, for ANY behaviour of strconv.ParseFloat / float arithmetic *)
Theorem C18_bandwidth_text_roundtrip : forall fb s q,
  new_bwq fb s = (q, BwOk) ->
  bw_string q = lit_trim_space s /\ new_bwq fb (bw_string q) = (q, BwOk).
Proof. exact bandwidth_text_roundtrip_full. Qed.
Print Assumptions C18_bandwidth_text_roundtrip.

(* ---- templates ---- *)

(* A templated document — literal text, {{ .Envs.NAME }}, and range loops over parseNumberRangePair /
   parseNumberRange whose arguments are well-formed range lists of equal expansion length — renders to
   exactly the concatenation of: the text, the environment values, and for every enumerated pair
   (k-th number of the first list, k-th number of the second list) the loop body with the two numbers
   written out.  (Model of the document shapes; text/template itself is observed.) *)
Theorem C18_template_written_out : forall envs ss,
  Forall sseg_wf ss ->
  tpl_render envs (map sseg_tpl ss) = TOk (List.concat (map (written_out envs) ss)).
Proof. exact template_written_out. Qed.
Print Assumptions C18_template_written_out.

(* The environment map behind {{ .Envs.K }} is built by splitting each "K=V" of os.Environ() at the FIRST '=':
   for every key without '=' and EVERY value (further '=', trailing "==", empty, '=' first, any bytes),
   whatever else the environment holds before it, looking K up gives V and {{ .Envs.K }} renders V. *)
Theorem C18_env_split_first_equals : forall k v,
  Forall (fun b => Byte.eqb b tpl_eq = false) k -> env_split (k ++ tpl_eq :: v) = Some (k, v).
Proof. exact env_split_first_eq. Qed.
Print Assumptions C18_env_split_first_equals.

Theorem C18_env_value_rendered : forall rest k v,
  Forall (fun b => Byte.eqb b tpl_eq = false) k ->
  tpl_env (env_build (rest ++ [k ++ tpl_eq :: v])) k = v /\
  tpl_render (env_build (rest ++ [k ++ tpl_eq :: v])) [TEnv k] = TOk (v ++ []).
Proof. exact env_value_rendered. Qed.
Print Assumptions C18_env_value_rendered.

(* ---- non-vacuity ---- *)
Example C18_example_loaded :
  let fb := fun (_ : bytes) (b : Z) => Some (3 * b) in
  let c := Cfg_HTTPProxyConfig
             (set_HTTPProxyConfig_ProxyBaseConfig
                (set_ProxyBaseConfig_Type type_name_HTTPProxyConfig
                   (set_ProxyBaseConfig_Transport
                      (set_ProxyTransport_BandwidthLimit (fst (new_bwq fb (hx "20334d4220"))) zero_ProxyTransport)
                      zero_ProxyBaseConfig))
                zero_HTTPProxyConfig) in
  client_loaded fb (cfg_complete (hx "75736572") c) /\
  NewProxy_BandwidthLimit (cm_to_msg (cfg_complete (hx "75736572") c)) = hx "334d42".
Proof.
  cbv zeta. split; [|vm_compute; reflexivity].
  apply complete_establishes_loaded; [vm_compute; reflexivity|].
  exists (hx "20334d4220"). vm_compute. reflexivity.
Qed.

Example C18_example_domain :
  let s := mk_srv_cfg (hx "667270732e636f6d") 80 443 0 in
  val_domain_server (mk_DomainConfig [hx "612e465250532e636f6d"] []) s = VDomainBelongs (hx "612e465250532e636f6d") /\
  val_domain_server (mk_DomainConfig [hx "667270732e636f6d"; hx "6578616d706c652e6f7267"] []) s = VOk.
Proof. vm_compute. split; reflexivity. Qed.

(* the textual form of the empty slice is the empty string, which the parser rejects: the round
   trip is stated for non-empty slices *)
Example C18_example_ports_empty : ports_string [] = [] /\ ports_parse [] = None.
Proof. vm_compute. split; reflexivity. Qed.

Example C18_example_template :
  tpl_render [(hx "41", hx "7a")]
    [TText (hx "783d"); TEnv (hx "41"); TText (hx "3b"); TEnv (hx "42"); TPairs (hx "352d362c39") (hx "31352d31362c3139") [PSFirst; PSText (hx "3a"); PSSecond; PSText (hx "20")]]
  = TOk (hx "783d7a3b3c6e6f2076616c75653e353a313520363a313620393a313920").
Proof. vm_compute. reflexivity. Qed.

Example C18_example_dashboard_tls :
  flags_web_tls (hx "74727565") (hx "632e70656d") (hx "6b2e70656d") = Some (file_web_tls (Some (hx "632e70656d", hx "6b2e70656d"))) /\
  flags_web_tls (hx "66616c7365") (hx "632e70656d") (hx "6b2e70656d") = Some None /\
  flags_web_tls (hx "78") [] [] = None.
Proof. vm_compute. repeat split. Qed.

Example C18_example_env :
  env_build [hx "413d31"; hx "6e6f6571"; hx "544f4b3d6332566a636d56303d3d"; hx "453d"; hx "463d3d78"] =
  [(hx "46", hx "3d78"); (hx "45", []); (hx "544f4b", hx "6332566a636d56303d3d"); (hx "41", hx "31")].
Proof. vm_compute. reflexivity. Qed.

Example C18_example_negative_web_port :
  vs_web_server_ok (set_WebServerConfig_Port (-1) zero_WebServerConfig) = false /\
  vs_web_server_ok (set_WebServerConfig_Port 0 zero_WebServerConfig) = true /\
  vs_web_server_ok (set_WebServerConfig_Port 65536 zero_WebServerConfig) = false.
Proof. vm_compute. repeat split. Qed.
