package main

// T1 (datagram): pkg/nathole/utils.go EncodeMessage / DecodeMessageInto -> GenDgram.v
//   dg_decode_shape / dg_encode_shape : the statements of the two functions as a small IR with
//       parameters and results renamed ($data $key $m, $1 $2 ... for locals in order of definition),
//       so that renaming a local is invisible and any other rewrite is not;
//   dg_slices : EVERY slice / index expression in the two functions with its constant bounds
//       (-1 = not a constant) and the lower bounds on len(base) established by dominating guards
//       (`if len(x) < K { return ... }` before it, or an enclosing `if len(x) >= K`).
//   Anything not recognised becomes DUnknown / a bound of -1; the reflective checkers of
//   Proofs/DatagramProofs.v return false on those.

import (
	"bytes"
	"fmt"
	"go/ast"
	"go/parser"
	"go/token"
	"path/filepath"
	"strconv"
	"strings"

	"veriftranslator/tx"
)

type dgSlice struct {
	fn, base string
	lo, hi   int
	guards   []int
}

func genDgram() ([]byte, error) {
	fset := token.NewFileSet()
	f, err := parser.ParseFile(fset, filepath.Join(tx.Repo, "pkg/nathole/utils.go"), nil, 0)
	if err != nil {
		return nil, err
	}
	consts := map[string]int{}
	var evalConst func(e ast.Expr) (int, bool)
	evalConst = func(e ast.Expr) (int, bool) {
		switch x := e.(type) {
		case *ast.BasicLit:
			if x.Kind == token.INT {
				v, err := strconv.ParseInt(x.Value, 0, 32)
				return int(v), err == nil
			}
		case *ast.Ident:
			v, ok := consts[x.Name]
			return v, ok
		case *ast.ParenExpr:
			return evalConst(x.X)
		case *ast.BinaryExpr:
			a, ok1 := evalConst(x.X)
			b, ok2 := evalConst(x.Y)
			if ok1 && ok2 {
				switch x.Op {
				case token.ADD:
					return a + b, true
				case token.SUB:
					return a - b, true
				case token.MUL:
					return a * b, true
				}
			}
		case *ast.SelectorExpr:
			if exprString(x) == "aes.BlockSize" {
				return 16, true
			}
		}
		return 0, false
	}
	for _, d := range f.Decls {
		if gd, ok := d.(*ast.GenDecl); ok && gd.Tok == token.CONST {
			for _, s := range gd.Specs {
				vs := s.(*ast.ValueSpec)
				for i, n := range vs.Names {
					if i < len(vs.Values) {
						if v, ok := evalConst(vs.Values[i]); ok {
							consts[n.Name] = v
						}
					}
				}
			}
		}
	}
	// lenGuard: cond of the form len(x) < K / len(x) <= K (negated when in an early return) etc.
	lenLower := func(cond ast.Expr, negate bool) (string, int, bool) {
		be, ok := cond.(*ast.BinaryExpr)
		if !ok {
			return "", 0, false
		}
		call, ok := be.X.(*ast.CallExpr)
		if !ok || exprString(call.Fun) != "len" || len(call.Args) != 1 {
			return "", 0, false
		}
		k, ok := evalConst(be.Y)
		if !ok {
			return "", 0, false
		}
		base := exprString(call.Args[0])
		op := be.Op
		if negate { // the code continues only when cond is false
			switch op {
			case token.LSS:
				return base, k, true // !(len < k)  => len >= k
			case token.LEQ:
				return base, k + 1, true
			}
			return "", 0, false
		}
		switch op {
		case token.GEQ:
			return base, k, true
		case token.GTR:
			return base, k + 1, true
		}
		return "", 0, false
	}
	endsInReturn := func(b *ast.BlockStmt) bool {
		if len(b.List) == 0 {
			return false
		}
		_, ok := b.List[len(b.List)-1].(*ast.ReturnStmt)
		return ok
	}
	var slices []dgSlice
	shapes := map[string][]string{}
	for _, d := range f.Decls {
		fd, ok := d.(*ast.FuncDecl)
		if !ok || fd.Body == nil || (fd.Name.Name != "DecodeMessageInto" && fd.Name.Name != "EncodeMessage") {
			continue
		}
		// renaming: parameters by position, locals in order of definition
		ren := map[string]string{}
		pi := 0
		for _, p := range fd.Type.Params.List {
			for _, n := range p.Names {
				ren[n.Name] = []string{"$data", "$key", "$m", "$p3", "$p4"}[min(pi, 4)]
				pi++
			}
		}
		if fd.Name.Name == "EncodeMessage" {
			ren = map[string]string{}
			pi = 0
			for _, p := range fd.Type.Params.List {
				for _, n := range p.Names {
					ren[n.Name] = []string{"$m", "$key", "$p2", "$p3"}[min(pi, 3)]
					pi++
				}
			}
		}
		li := 0
		def := func(name string) {
			if name == "_" || name == "err" {
				return
			}
			if _, ok := ren[name]; !ok {
				li++
				ren[name] = fmt.Sprintf("$%d", li)
			}
		}
		var rn func(e ast.Expr) string
		rn = func(e ast.Expr) string {
			s := exprString(e)
			// token-wise renaming of identifiers
			var b strings.Builder
			i := 0
			for i < len(s) {
				c := s[i]
				if c == '_' || (c >= 'a' && c <= 'z') || (c >= 'A' && c <= 'Z') {
					j := i
					for j < len(s) && (s[j] == '_' || (s[j] >= 'a' && s[j] <= 'z') || (s[j] >= 'A' && s[j] <= 'Z') || (s[j] >= '0' && s[j] <= '9')) {
						j++
					}
					w := s[i:j]
					prevDot := i > 0 && s[i-1] == '.'
					if r, ok := ren[w]; ok && !prevDot {
						b.WriteString(r)
					} else {
						b.WriteString(w)
					}
					i = j
				} else {
					b.WriteByte(c)
					i++
				}
			}
			return b.String()
		}
		var walk func(stmts []ast.Stmt, guards map[string][]int)
		collect := func(n ast.Node, guards map[string][]int) {
			ast.Inspect(n, func(x ast.Node) bool {
				switch e := x.(type) {
				case *ast.SliceExpr:
					s := dgSlice{fn: fd.Name.Name, base: rn(e.X), lo: 0, hi: -2}
					if e.Low != nil {
						if v, ok := evalConst(e.Low); ok {
							s.lo = v
						} else {
							s.lo = -1
						}
					}
					if e.High != nil {
						if v, ok := evalConst(e.High); ok {
							s.hi = v
						} else {
							s.hi = -1
						}
					}
					s.guards = append([]int{}, guards[exprString(e.X)]...)
					slices = append(slices, s)
				case *ast.IndexExpr:
					s := dgSlice{fn: fd.Name.Name, base: rn(e.X), lo: -1, hi: -1}
					if v, ok := evalConst(e.Index); ok {
						s.lo, s.hi = v, v+1
					}
					s.guards = append([]int{}, guards[exprString(e.X)]...)
					slices = append(slices, s)
				}
				return true
			})
		}
		var shape []string
		walk = func(stmts []ast.Stmt, guards map[string][]int) {
			for _, st := range stmts {
				switch s := st.(type) {
				case *ast.AssignStmt:
					for _, l := range s.Lhs {
						if id, ok := l.(*ast.Ident); ok && s.Tok == token.DEFINE {
							def(id.Name)
						}
					}
					var ls, rs []string
					for _, l := range s.Lhs {
						ls = append(ls, rn(l))
					}
					for _, r := range s.Rhs {
						rs = append(rs, rn(r))
						collect(r, guards)
					}
					shape = append(shape, "DAssign "+tx.CoqString(strings.Join(ls, ","))+" "+tx.CoqString(strings.Join(rs, ",")))
				case *ast.IfStmt:
					if s.Init != nil {
						walk([]ast.Stmt{s.Init}, guards)
					}
					collect(s.Cond, guards)
					cond := rn(s.Cond)
					if cond == "err != nil" && endsInReturn(s.Body) && s.Else == nil && len(s.Body.List) == 1 {
						var rs []string
						for _, r := range s.Body.List[0].(*ast.ReturnStmt).Results {
							rs = append(rs, rn(r))
						}
						shape = append(shape, "DErrReturn "+tx.CoqString(strings.Join(rs, ",")))
						continue
					}
					shape = append(shape, "DIf "+tx.CoqString(cond))
					inner := map[string][]int{}
					for k, v := range guards {
						inner[k] = v
					}
					if b, k, ok := lenLower(s.Cond, false); ok {
						inner[b] = append(inner[b], k)
					}
					walk(s.Body.List, inner)
					shape = append(shape, "DEndIf")
					if s.Else != nil {
						shape = append(shape, "DUnknown \"else\"")
						collect(s.Else, guards)
					}
					if endsInReturn(s.Body) {
						if b, k, ok := lenLower(s.Cond, true); ok {
							guards[b] = append(guards[b], k)
						}
					}
				case *ast.ReturnStmt:
					var rs []string
					for _, r := range s.Results {
						rs = append(rs, rn(r))
						collect(r, guards)
					}
					shape = append(shape, "DReturn "+tx.CoqString(strings.Join(rs, ",")))
				default:
					collect(st, guards)
					shape = append(shape, "DUnknown "+tx.CoqString(fmt.Sprintf("%T", st)))
				}
			}
		}
		walk(fd.Body.List, map[string][]int{})
		shapes[fd.Name.Name] = shape
	}
	var b bytes.Buffer
	b.WriteString("(* GENERATED by translator unit T1 (datagram) from pkg/nathole/utils.go -- do not edit *)\n")
	b.WriteString("From FRP Require Import Model.DatagramTypes.\nLocal Open Scope string_scope.\n")
	b.WriteString("Definition T1D_translated : bool := true.\n")
	for _, fn := range []string{"DecodeMessageInto", "EncodeMessage"} {
		name := map[string]string{"DecodeMessageInto": "dg_decode_shape", "EncodeMessage": "dg_encode_shape"}[fn]
		fmt.Fprintf(&b, "Definition %s : list dg_stmt := [\n", name)
		for i, s := range shapes[fn] {
			sep := ";"
			if i == len(shapes[fn])-1 {
				sep = ""
			}
			fmt.Fprintf(&b, "  %s%s\n", s, sep)
		}
		b.WriteString("].\n")
	}
	b.WriteString("(* (function, base, low, high, lower bounds on len(base) that dominate it); low/high -1 = not constant, high -2 = absent *)\n")
	b.WriteString("Definition dg_slices : list (string * string * Z * Z * list Z) := [\n")
	for i, s := range slices {
		sep := ";"
		if i == len(slices)-1 {
			sep = ""
		}
		var gs []string
		for _, g := range s.guards {
			gs = append(gs, fmt.Sprintf("%d%%Z", g))
		}
		fmt.Fprintf(&b, "  (%s, %s, (%d)%%Z, (%d)%%Z, [%s])%s\n", tx.CoqString(s.fn), tx.CoqString(s.base), s.lo, s.hi, strings.Join(gs, "; "), sep)
	}
	b.WriteString("].\n")
	return b.Bytes(), nil
}
