// C16, frps side: the ssh tunnel gateway (pkg/ssh).  The frps child listens with sshTunnelGateway.bindPort on an
// OS-chosen port and accepts anonymous ssh clients (no authorized keys file).  The parent speaks ssh through
// golang.org/x/crypto/ssh and sends what an ssh client is free to send: exec requests whose payload is not the
// (length, command) pair the server expects, frp command lines with mutated flags, tcpip-forward requests with
// mutated addresses, channels of unknown types, connections that end early.
package main

import (
	"encoding/binary"
	"fmt"
	"io"
	"math"
	"net"
	"strings"
	"time"

	"golang.org/x/crypto/ssh"
	"verifharness/hx"
)

func sshDial(addr string, port int) (*ssh.Client, error) {
	cfg := &ssh.ClientConfig{User: "v0", HostKeyCallback: ssh.InsecureIgnoreHostKey(), Timeout: 2 * time.Second}
	a := net.JoinHostPort(addr, fmt.Sprint(port))
	conn, err := net.DialTimeout("tcp", a, 2*time.Second)
	if err != nil {
		return nil, err
	}
	_ = conn.SetDeadline(time.Now().Add(3 * time.Second))
	c, chans, reqs, err := ssh.NewClientConn(conn, a, cfg)
	if err != nil {
		conn.Close()
		return nil, err
	}
	_ = conn.SetDeadline(time.Time{})
	return ssh.NewClient(c, chans, reqs), nil
}

// execPayload: the payload of an "exec" channel request: uint32 length + command, with the length field free.
func execPayload(length uint32, cmd []byte) []byte {
	b := make([]byte, 4, 4+len(cmd))
	binary.BigEndian.PutUint32(b, length)
	return append(b, cmd...)
}

type forwardMsg struct {
	Host string
	Port uint32
}

var sshCmdLines = []string{
	"tcp --remote_port %d --token " + hx.DefaultToken + " --proxy_name ssh%d",
	"tcp --remote_port -1 --token " + hx.DefaultToken,
	"tcp --remote_port 99999999999999999999 --token x",
	"tcp --remote_port 65536 --token " + hx.DefaultToken,
	"tcp --remote_port 0 --token " + hx.DefaultToken + " --proxy_name " + strings.Repeat("n", 9000),
	"tcp --token \xff\xfe --user \xff --proxy_name \x00",
	"http --custom_domain ssh.test --token " + hx.DefaultToken + " --locations /,/,/a --http_user u --http_pwd p",
	"https --custom_domain *.ssh.test,, --token " + hx.DefaultToken,
	"tcpmux --mux bogus --custom_domain m.ssh.test --token " + hx.DefaultToken,
	"stcp --sk k --allow_users *,,x --token " + hx.DefaultToken,
	"udp --remote_port 1", "xtcp", "bogus", "", " ", "tcp", "tcp --help", "tcp -h", "help", "tcp --", "tcp --remote_port", "tcp --bandwidth_limit 999999999999GB --token " + hx.DefaultToken,
	"tcp --remote_port=1 --remote_port=2 --token=" + hx.DefaultToken + " --ue --uc --bandwidth_limit_mode bogus",
	strings.Repeat("tcp ", 3000),
}

// sshScenario: one ssh connection to the gateway.  Returns type and detail of what was sent.
func sshScenario(g *hx.Gen, addr string, port int, i int) (typ, detail string) {
	switch g.Intn(10) {
	case 0: // not ssh at all / early end
		conn, err := net.DialTimeout("tcp", net.JoinHostPort(addr, fmt.Sprint(port)), time.Second)
		if err != nil {
			return "dial", err.Error()
		}
		defer conn.Close()
		switch g.Intn(4) {
		case 0:
			return "early-close", "closed before the banner"
		case 1:
			_, _ = conn.Write(g.Bytes(1 + g.Intn(400)))
			return "garbage", "random bytes instead of an ssh banner"
		case 2:
			_, _ = io.WriteString(conn, "SSH-2.0-c16\r\n")
			_, _ = conn.Write(g.Bytes(200))
			return "garbage", "banner, then random bytes"
		default:
			_, _ = io.WriteString(conn, "SSH-2.0-c16\r\n")
			time.Sleep(30 * time.Millisecond)
			return "early-close", "closed after the banner"
		}
	}
	c, err := sshDial(addr, port)
	if err != nil {
		return "ssh-dial", err.Error()
	}
	defer c.Close()
	// tcpip-forward (global request) with a mutated address, before or after the channel
	fwd := func() string {
		hosts := []string{"", "0.0.0.0", "localhost", "\xff\xfe", strings.Repeat("h", 5000), "::", "*"}
		ports := []uint32{0, 80, 65535, 65536, math.MaxUint32, 1}
		m := forwardMsg{hosts[g.Intn(len(hosts))], ports[g.Intn(len(ports))]}
		payload := ssh.Marshal(&m)
		switch g.Intn(5) {
		case 0:
			payload = nil
		case 1:
			payload = payload[:g.Intn(len(payload))]
		case 2:
			payload = execPayload(math.MaxUint32, []byte("x"))
		}
		// the server's request loop ends without a reply on a payload it cannot parse: never wait for the reply here
		want := g.Chance(0.5)
		sent := make(chan struct{})
		go func() { _, _, _ = c.SendRequest("tcpip-forward", want, payload); close(sent) }()
		select {
		case <-sent:
		case <-time.After(150 * time.Millisecond):
		}
		return fmt.Sprintf("tcpip-forward %q:%d (%d bytes)", trunc(m.Host, 20), m.Port, len(payload))
	}
	d := []string{}
	if g.Chance(0.5) {
		d = append(d, fwd())
	}
	if g.Chance(0.15) { // channels of unknown types
		for _, t := range []string{"x11", "direct-tcpip", "forwarded-tcpip", "", strings.Repeat("t", 3000)}[g.Intn(5):] {
			ch, reqs, err := c.OpenChannel(t, g.Bytes(g.Intn(40)))
			if err == nil {
				go ssh.DiscardRequests(reqs)
				_, _ = ch.SendRequest("exec", false, execPayload(math.MaxUint32, nil))
				ch.Close()
			}
		}
		return "channel-open", "channels of unknown types; " + strings.Join(d, "; ")
	}
	ch, reqs, err := c.OpenChannel("session", nil)
	if err != nil {
		return "session", err.Error()
	}
	go ssh.DiscardRequests(reqs)
	defer ch.Close()
	cmd := []byte(fmt.Sprintf(sshCmdLines[g.Intn(len(sshCmdLines))], hx.FreePort(addr), i))
	if strings.Count(string(cmd), "%!") > 0 {
		cmd = []byte(sshCmdLines[g.Intn(len(sshCmdLines))])
	}
	n := uint32(len(cmd))
	lengths := []uint32{n, n, n, 0, 1, n + 1, n - 1, math.MaxInt32, 0xFFFFFFFB, 0xFFFFFFFC, 0xFFFFFFFD, 0xFFFFFFFE, 0xFFFFFFFF, 0x80000000, 4}
	l := lengths[g.Intn(len(lengths))]
	var payload []byte
	switch g.Intn(8) {
	case 0:
		payload = nil
		typ = "exec-empty"
	case 1:
		payload = execPayload(l, cmd)[:1+g.Intn(3)]
		typ = "exec-short"
	default:
		payload = execPayload(l, cmd)
		typ = "exec"
	}
	for _, rt := range []string{"exec", "exec", "shell", "env", "pty-req", "subsystem", "bogus"}[g.Intn(3):][:1+g.Intn(2)] {
		want := g.Chance(0.5)
		sent := make(chan struct{})
		go func() { _, _ = ch.SendRequest(rt, want, payload); close(sent) }()
		select {
		case <-sent:
		case <-time.After(150 * time.Millisecond):
		}
	}
	d = append(d, fmt.Sprintf("length field %#x, command of %d bytes %q", l, len(cmd), trunc(string(cmd), 60)))
	if g.Chance(0.6) {
		d = append(d, fwd())
	}
	// let the server act (parse the command line, start a virtual client, answer on the channel)
	_ = readWithin(ch, time.Duration(30+g.Intn(150))*time.Millisecond)
	return typ, strings.Join(d, "; ")
}

func trunc(s string, n int) string {
	if len(s) > n {
		return s[:n] + "…"
	}
	return s
}

func readWithin(r io.Reader, d time.Duration) []byte {
	done := make(chan []byte, 1)
	go func() {
		b := make([]byte, 4096)
		n, _ := r.Read(b)
		done <- b[:n]
	}()
	select {
	case b := <-done:
		return b
	case <-time.After(d):
		return nil
	}
}

// sshWatchdog: a well-formed ssh tunnel still comes up: tcpip-forward + exec "tcp --remote_port P --token …", the server
// answers on the session channel, a user connection to P arrives as a forwarded-tcpip channel and bytes pass both ways.
func sshWatchdog(addr string, sshPort int) error {
	c, err := sshDial(addr, sshPort)
	if err != nil {
		return fmt.Errorf("ssh dial: %v", err)
	}
	defer c.Close()
	incoming := c.HandleChannelOpen("forwarded-tcpip")
	rp := hx.FreePort(addr)
	ch, reqs, err := c.OpenChannel("session", nil)
	if err != nil {
		return fmt.Errorf("session channel: %v", err)
	}
	go ssh.DiscardRequests(reqs)
	defer ch.Close()
	if _, _, err := c.SendRequest("tcpip-forward", true, ssh.Marshal(&forwardMsg{"", 80})); err != nil {
		return fmt.Errorf("tcpip-forward: %v", err)
	}
	cmd := []byte(fmt.Sprintf("tcp --remote_port %d --token %s --proxy_name sshwd%d", rp, hx.DefaultToken, rp))
	if _, err := ch.SendRequest("exec", true, execPayload(uint32(len(cmd)), cmd)); err != nil {
		return fmt.Errorf("exec: %v", err)
	}
	if b := readWithin(ch, 4*time.Second); len(b) == 0 {
		return fmt.Errorf("no answer on the session channel within 4 s")
	}
	var u net.Conn
	for try := 0; try < 20; try++ {
		if u, err = net.DialTimeout("tcp", net.JoinHostPort(addr, fmt.Sprint(rp)), 300*time.Millisecond); err == nil {
			break
		}
		time.Sleep(50 * time.Millisecond)
	}
	if err != nil {
		return fmt.Errorf("remote port %d of the ssh tunnel not open: %v", rp, err)
	}
	defer u.Close()
	go func() { _, _ = io.WriteString(u, "ssh-wd?") }()
	select {
	case nc := <-incoming:
		fc, freqs, err := nc.Accept()
		if err != nil {
			return fmt.Errorf("accept forwarded channel: %v", err)
		}
		go ssh.DiscardRequests(freqs)
		defer fc.Close()
		b := make([]byte, 7)
		if _, err := io.ReadFull(fc, b); err != nil || string(b) != "ssh-wd?" {
			return fmt.Errorf("bytes of the user connection did not arrive: %q %v", b, err)
		}
		return nil
	case <-time.After(4 * time.Second):
		return fmt.Errorf("user connection not forwarded as an ssh channel within 4 s")
	}
}
