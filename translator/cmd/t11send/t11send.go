// Translator unit T11send (C11): facts about the control-message send path that the pool model relies on,
// read from the syntax of pkg/msg/handler.go and server/control.go on every run:
//   - sendLoop: the clause that receives from d.sendCh contains no return / break / goto / panic, i.e. the
//     loop goes on after a failed WriteMsg (gen_sendloop_survives_write_error); the only way out of the loop
//     is the <-d.doneCh clause
//   - Send: a select with exactly the cases <-d.doneCh and d.sendCh <- m
//   - NewDispatcher: capacity of sendCh
//   - doneCh is closed in readLoop only
//   - Control.GetWorkConn: time.After(...) appears after the first msgDispatcher.Send(...) (the timer
//     starts only when Send has returned)
// Anything not recognised sets gen_sendloop_unknown, which the reflective obligation in Properties/C11.v trips over.
package main

import (
	"bytes"
	"fmt"
	"go/ast"
	"go/parser"
	"go/token"
	"path/filepath"
	"sort"
	"strings"

	"veriftranslator/tx"
)

func isSel(e ast.Expr, recv, field string) bool {
	s, ok := e.(*ast.SelectorExpr)
	if !ok || s.Sel.Name != field {
		return false
	}
	id, ok := s.X.(*ast.Ident)
	return ok && id.Name == recv
}

func recvFrom(st ast.Stmt, recv, field string) bool {
	var e ast.Expr
	switch v := st.(type) {
	case *ast.ExprStmt:
		e = v.X
	case *ast.AssignStmt:
		if len(v.Rhs) == 1 {
			e = v.Rhs[0]
		}
	}
	u, ok := e.(*ast.UnaryExpr)
	return ok && u.Op == token.ARROW && isSel(u.X, recv, field)
}

// leaves reports whether the statements can leave the enclosing loop/function other than by falling through.
func leaves(body []ast.Stmt) bool {
	found := false
	for _, st := range body {
		ast.Inspect(st, func(n ast.Node) bool {
			switch v := n.(type) {
			case *ast.FuncLit:
				return false
			case *ast.ReturnStmt:
				found = true
			case *ast.BranchStmt:
				if v.Tok == token.BREAK || v.Tok == token.GOTO {
					found = true
				}
			case *ast.CallExpr:
				if id, ok := v.Fun.(*ast.Ident); ok && id.Name == "panic" {
					found = true
				}
				if s, ok := v.Fun.(*ast.SelectorExpr); ok {
					if x, ok := s.X.(*ast.Ident); ok && (x.Name == "os" && s.Sel.Name == "Exit" || x.Name == "runtime" && s.Sel.Name == "Goexit") {
						found = true
					}
				}
			}
			return true
		})
	}
	return found
}

func run() ([]byte, error) {
	fset := token.NewFileSet()
	f, err := parser.ParseFile(fset, filepath.Join(tx.Repo, "pkg/msg/handler.go"), nil, 0)
	if err != nil {
		return nil, err
	}
	unknown := false
	survives, sendSelect := false, false
	capacity := "(-1)"
	var closers []string
	recvName := func(fd *ast.FuncDecl) string {
		if fd.Recv != nil && len(fd.Recv.List) == 1 && len(fd.Recv.List[0].Names) == 1 {
			return fd.Recv.List[0].Names[0].Name
		}
		return ""
	}
	seenLoop, seenSend := false, false
	for _, d := range f.Decls {
		fd, ok := d.(*ast.FuncDecl)
		if !ok || fd.Body == nil {
			continue
		}
		r := recvName(fd)
		// close(x.doneCh) sites
		ast.Inspect(fd.Body, func(n ast.Node) bool {
			if c, ok := n.(*ast.CallExpr); ok {
				if id, ok := c.Fun.(*ast.Ident); ok && id.Name == "close" && len(c.Args) == 1 {
					if s, ok := c.Args[0].(*ast.SelectorExpr); ok && s.Sel.Name == "doneCh" {
						closers = append(closers, fd.Name.Name)
					}
				}
			}
			return true
		})
		switch fd.Name.Name {
		case "sendLoop":
			seenLoop = true
			// expected shape: for { select { case <-d.doneCh: return ; case m := <-d.sendCh: ... } }
			if len(fd.Body.List) != 1 {
				unknown = true
				break
			}
			loop, ok := fd.Body.List[0].(*ast.ForStmt)
			if !ok || loop.Cond != nil || len(loop.Body.List) != 1 {
				unknown = true
				break
			}
			sel, ok := loop.Body.List[0].(*ast.SelectStmt)
			if !ok || len(sel.Body.List) != 2 {
				unknown = true
				break
			}
			okDone, okSend := false, false
			for _, cc := range sel.Body.List {
				c := cc.(*ast.CommClause)
				switch {
				case c.Comm != nil && recvFrom(c.Comm, r, "doneCh"):
					okDone = len(c.Body) == 1
					if okDone {
						_, okDone = c.Body[0].(*ast.ReturnStmt)
					}
				case c.Comm != nil && recvFrom(c.Comm, r, "sendCh"):
					okSend = true
					survives = !leaves(c.Body)
				}
			}
			if !okDone || !okSend {
				unknown = true
			}
		case "Send":
			seenSend = true
			if len(fd.Body.List) != 1 {
				unknown = true
				break
			}
			sel, ok := fd.Body.List[0].(*ast.SelectStmt)
			if !ok || len(sel.Body.List) != 2 {
				unknown = true
				break
			}
			a, b := false, false
			for _, cc := range sel.Body.List {
				c := cc.(*ast.CommClause)
				if c.Comm != nil && recvFrom(c.Comm, r, "doneCh") {
					a = true
				}
				if ss, ok := c.Comm.(*ast.SendStmt); ok && isSel(ss.Chan, r, "sendCh") {
					b = true
				}
			}
			sendSelect = a && b
		case "NewDispatcher":
			ast.Inspect(fd.Body, func(n ast.Node) bool {
				kv, ok := n.(*ast.KeyValueExpr)
				if !ok {
					return true
				}
				if k, ok := kv.Key.(*ast.Ident); ok && k.Name == "sendCh" {
					if c, ok := kv.Value.(*ast.CallExpr); ok && len(c.Args) == 2 {
						if lit, ok := c.Args[1].(*ast.BasicLit); ok && lit.Kind == token.INT {
							capacity = lit.Value
						}
					}
				}
				return true
			})
		}
	}
	if !seenLoop || !seenSend || capacity == "(-1)" {
		unknown = true
	}
	sort.Strings(closers)
	// GetWorkConn: the timer is created after the Send that precedes the wait
	g, err := parser.ParseFile(fset, filepath.Join(tx.Repo, "server/control.go"), nil, 0)
	if err != nil {
		return nil, err
	}
	timerAfterSend := false
	for _, d := range g.Decls {
		fd, ok := d.(*ast.FuncDecl)
		if !ok || fd.Name.Name != "GetWorkConn" || fd.Body == nil {
			continue
		}
		var firstSend, firstTimer token.Pos
		ast.Inspect(fd.Body, func(n ast.Node) bool {
			c, ok := n.(*ast.CallExpr)
			if !ok {
				return true
			}
			if s, ok := c.Fun.(*ast.SelectorExpr); ok {
				if s.Sel.Name == "Send" && firstSend == 0 {
					firstSend = c.Pos()
				}
				if x, ok := s.X.(*ast.Ident); ok && x.Name == "time" && (s.Sel.Name == "After" || s.Sel.Name == "NewTimer") && firstTimer == 0 {
					firstTimer = c.Pos()
				}
			}
			return true
		})
		timerAfterSend = firstSend != 0 && firstTimer != 0 && firstSend < firstTimer
	}
	b2 := func(b bool) string {
		if b {
			return "true"
		}
		return "false"
	}
	var out bytes.Buffer
	fmt.Fprintf(&out, "(* generated by translator unit T11send from pkg/msg/handler.go and server/control.go; do not edit *)\n")
	fmt.Fprintf(&out, "From Coq Require Import ZArith String List.\nImport ListNotations.\nOpen Scope Z_scope.\n\n")
	fmt.Fprintf(&out, "Definition T11send_translated : bool := true.\n")
	fmt.Fprintf(&out, "Definition gen_sendloop_unknown : bool := %s.\n", b2(unknown))
	fmt.Fprintf(&out, "(* the clause of sendLoop that receives from sendCh cannot leave the loop: a failed WriteMsg is survived *)\n")
	fmt.Fprintf(&out, "Definition gen_sendloop_survives_write_error : bool := %s.\n", b2(survives && !unknown))
	fmt.Fprintf(&out, "Definition gen_send_selects_done_or_queue : bool := %s.\n", b2(sendSelect))
	fmt.Fprintf(&out, "Definition gen_sendch_cap : Z := %s.\n", capacity)
	var cs []string
	for _, c := range closers {
		cs = append(cs, fmt.Sprintf("%q%%string", c))
	}
	fmt.Fprintf(&out, "Definition gen_done_closers : list string := [%s].\n", strings.Join(cs, "; "))
	fmt.Fprintf(&out, "Definition gen_timer_created_after_send : bool := %s.\n", b2(timerAfterSend))
	return out.Bytes(), nil
}

func main() {
	tx.Main(tx.Unit{Name: "T11send", File: "GenSendLoop.v", Fn: run}, tx.Unit{Name: "T11clamp", File: "GenPoolClamp.v", Fn: runClamp},
		tx.Unit{Name: "T11paths", File: "GenAcceptPaths.v", Fn: runPaths})
}
