package main

// Part of driver httpauth: a whole frps + frpc on loopback.  The proxies are configured in frpc (http and tcpmux; custom
// domains only / sub-domain only / both; in a load-balancing group or not; with and without credentials), frps builds
// their routes in server/proxy/http.go and server/proxy/tcpmux.go, and requests are sent to the vhost http port and to
// the tcpmux port on every host name each proxy is published under.  Observed: answer and which proxy's local service
// saw the request.

import (
	"bufio"
	"context"
	"fmt"
	"io"
	"net"
	"net/http"
	"strings"
	"time"

	"github.com/samber/lo"

	"github.com/fatedier/frp/client"
	v1 "github.com/fatedier/frp/pkg/config/v1"
	"github.com/fatedier/frp/server"

	"verifharness/hx"
)

func init() { extraParts = append(extraParts, (*run).sysPart) }

type spx struct {
	id         int
	kind       int // 0 http, 1 tcpmux
	name       string
	domains    []string
	sub        string
	locations  []string
	group      string
	user, pass string
}

const sysSDH = "sub.test"

var sysProxies = []spx{
	{0, 1, "tm-both", []string{"tmb.test"}, "tmb", nil, "", "alice", "apw"},
	{1, 1, "tm-custom", []string{"tmc.test"}, "", nil, "", "alice", "apw"},
	{2, 1, "tm-sub", nil, "tms", nil, "", "alice", "apw"},
	{3, 1, "tmg-custom", []string{"tmgc.test"}, "", nil, "g3", "alice", "apw"}, // a group has one host: custom domain or sub-domain
	{4, 1, "tmg-sub", nil, "tmgs", nil, "g4", "alice", "apw"},
	{5, 1, "tm-open", []string{"tmo.test"}, "tmo", nil, "", "", ""},
	{10, 0, "h-both", []string{"hb.test"}, "hb", nil, "", "alice", "apw"},
	{11, 0, "h-custom", []string{"hc.test"}, "", nil, "", "alice", "apw"},
	{12, 0, "h-sub", nil, "hs", nil, "", "alice", "apw"},
	{13, 0, "hg-custom", []string{"hgc.test"}, "", nil, "g13", "alice", "apw"},
	{14, 0, "hg-sub", nil, "hgs", nil, "g14", "alice", "apw"},
	{15, 0, "h-open", []string{"ho.test"}, "ho", nil, "", "", ""},
	{16, 0, "h-loc", []string{"hl.test"}, "hl", []string{"/a", "/b"}, "", "alice", "apw"},
}

func (p spx) coq(s *symtab) string {
	bl := func(xs []string) string {
		it := make([]string, len(xs))
		for i, x := range xs {
			it[i] = s.b(x)
		}
		return "[" + strings.Join(it, "; ") + "]"
	}
	return fmt.Sprintf("mk_px %d %d %s %s %s %s [] %s %s", p.id, p.kind, bl(p.domains), s.b(p.sub), bl(p.locations), hx.Bool(p.group != ""), s.b(p.user), s.b(p.pass))
}

func (p spx) hosts() (out []struct{ host, kind string }) {
	for _, d := range p.domains {
		out = append(out, struct{ host, kind string }{d, "custom-domain"})
	}
	if p.sub != "" {
		out = append(out, struct{ host, kind string }{p.sub + "." + sysSDH, "subdomain"})
	}
	return
}

func (r *run) sysPart(_ []credKind) error {
	const ip = "127.0.7.251"
	ports, err := freePorts(ip, 3)
	if err != nil {
		return err
	}
	arr := newArrivals()
	// local services
	var closers []io.Closer
	defer func() {
		for _, c := range closers {
			_ = c.Close()
		}
	}()
	var pcfgs []v1.ProxyConfigurer
	for _, p := range sysProxies {
		p := p
		ln, err := net.Listen("tcp", "127.0.7.252:0")
		if err != nil {
			return err
		}
		closers = append(closers, ln)
		lport := ln.Addr().(*net.TCPAddr).Port
		if p.kind == 0 {
			srv := &http.Server{Handler: http.HandlerFunc(func(w http.ResponseWriter, req *http.Request) {
				arr.add(req.Header.Get("X-Case"), p.id)
				w.WriteHeader(200)
			})}
			go func() { _ = srv.Serve(ln) }()
			c := &v1.HTTPProxyConfig{}
			c.Name, c.Type = p.name, "http"
			c.LocalIP, c.LocalPort = "127.0.7.252", lport
			c.CustomDomains, c.SubDomain, c.Locations = p.domains, p.sub, p.locations
			c.HTTPUser, c.HTTPPassword = p.user, p.pass
			c.LoadBalancer.Group, c.LoadBalancer.GroupKey = p.group, "k"
			c.Complete("")
			pcfgs = append(pcfgs, c)
		} else {
			go func() {
				for {
					c, err := ln.Accept()
					if err != nil {
						return
					}
					go func() {
						defer c.Close()
						_ = c.SetDeadline(time.Now().Add(5 * time.Second))
						line, err := bufio.NewReader(c).ReadString('\n')
						if err != nil {
							return
						}
						arr.add(strings.TrimSpace(strings.TrimPrefix(line, "case ")), p.id)
						_, _ = io.WriteString(c, "HTTP/1.1 299 Backend\r\nContent-Length: 0\r\n\r\n")
					}()
				}
			}()
			c := &v1.TCPMuxProxyConfig{}
			c.Name, c.Type = p.name, "tcpmux"
			c.LocalIP, c.LocalPort = "127.0.7.252", lport
			c.CustomDomains, c.SubDomain = p.domains, p.sub
			c.HTTPUser, c.HTTPPassword, c.Multiplexer = p.user, p.pass, "httpconnect"
			c.LoadBalancer.Group, c.LoadBalancer.GroupKey = p.group, "k"
			c.Complete("")
			pcfgs = append(pcfgs, c)
		}
	}
	scfg := &v1.ServerConfig{}
	scfg.BindAddr, scfg.BindPort = ip, ports[0]
	scfg.ProxyBindAddr = ip
	scfg.VhostHTTPPort, scfg.TCPMuxHTTPConnectPort = ports[1], ports[2]
	scfg.SubDomainHost = sysSDH
	scfg.Complete()
	svr, err := server.NewService(scfg)
	if err != nil {
		return fmt.Errorf("frps: %w", err)
	}
	sctx, scancel := context.WithCancel(context.Background())
	go svr.Run(sctx)
	defer func() { scancel(); _ = svr.Close() }()
	ccfg := &v1.ClientCommonConfig{}
	ccfg.ServerAddr, ccfg.ServerPort = ip, ports[0]
	ccfg.LoginFailExit = lo.ToPtr(false)
	ccfg.Complete()
	cli, err := client.NewService(client.ServiceOptions{Common: ccfg, ProxyCfgs: pcfgs})
	if err != nil {
		return fmt.Errorf("frpc: %w", err)
	}
	cctx, ccancel := context.WithCancel(context.Background())
	go func() { _ = cli.Run(cctx) }()
	defer func() { ccancel(); cli.Close() }()

	httpAddr := fmt.Sprintf("%s:%d", ip, ports[1])
	muxAddr := fmt.Sprintf("%s:%d", ip, ports[2])
	right := basic("alice", "apw")

	doMux := func(host, pauth, id string, casing int) (cls int, ok200 bool, rq areq, err error) {
		rq = mkReq("FConnect", "PH11", target{host: host + ":443"}, "", pauth, casing)
		hr := rawDo(muxAddr, strings.Replace(rq.wire(id), "Connection: close\r\n", "", 1), "CONNECT",
			func(c net.Conn, br *bufio.Reader, first *http.Response) int {
				if first.StatusCode != 200 {
					return 0
				}
				_, _ = io.WriteString(c, "case "+id+"\n")
				resp, err := http.ReadResponse(br, &http.Request{Method: "CONNECT"})
				if err != nil {
					return 0
				}
				return resp.StatusCode
			})
		if hr.err != nil {
			return 0, false, rq, hr.err
		}
		switch {
		case hr.status == 200:
			ok200 = true
			switch hr.second {
			case 299:
				cls = 200
			case 0:
				cls = -200
			default:
				cls = hr.second
			}
		default:
			cls = hr.status
		}
		return
	}
	doHTTP := func(host, path, auth, id string, casing int) (int, areq, error) {
		rq := mkReq("FOrigin", "PH11", target{host: host, path: path}, auth, "", casing)
		hr := rawDo(httpAddr, rq.wire(id), "GET", nil)
		return hr.status, rq, hr.err
	}

	// wait until every proxy is published under every one of its names (with the right credentials it answers, not 404)
	deadline := time.Now().Add(8 * time.Second)
	for _, p := range sysProxies {
		for _, h := range p.hosts() {
			for n := 0; ; n++ {
				var up bool
				if p.kind == 1 {
					cls, _, _, _ := doMux(h.host, right, fmt.Sprintf("warm-%d-%d", p.id, n), 0)
					up = cls != 404 && cls != 0
				} else {
					path := "/"
					if len(p.locations) > 0 {
						path = p.locations[0]
					}
					st, _, _ := doHTTP(h.host, path, right, fmt.Sprintf("warm-%d-%d", p.id, n), 0)
					up = st != 404 && st != 0
				}
				if up {
					break
				}
				if time.Now().After(deadline) {
					r.errs++
					r.fail("zz-driver-io:system", fmt.Sprintf("proxy %s was not published under %s within 8 s", p.name, h.host), "")
					return nil
				}
				time.Sleep(25 * time.Millisecond)
			}
		}
	}

	var pxCoq []string
	for _, p := range sysProxies {
		pxCoq = append(pxCoq, p.coq(r.sym))
	}
	pxsym := r.sym.def("P", "(["+strings.Join(pxCoq, "; ")+"] : list ha_pxcfg)")
	byID := map[int]spx{}
	for _, p := range sysProxies {
		byID[p.id] = p
	}
	creds := []credKind{{"none", ""}, {"right", right}, {"wrong-pass", basic("alice", "WRONG")}, {"other-user", basic("bob", "bpw")}, {"empty-user", basic("", "apw")}}
	n := 0
	monitor := func(kind int, hostKind string, backend int, u, pw string, rq areq, what string) {
		if backend < 0 {
			return
		}
		p := byID[backend]
		demands := p.user != "" || (kind == 0 && p.pass != "")
		if demands && (u != p.user || pw != p.pass) {
			r.fail(fmt.Sprintf("backend-reached-without-credentials:%s-proxy:%s", []string{"http", "tcpmux"}[kind], hostKind),
				fmt.Sprintf("proxy %s (custom domains %v, subdomain %q, group %q) is configured with %q:%q; %s carrying user=%q password=%q reached its local service",
					p.name, p.domains, p.sub, p.group, p.user, p.pass, what, u, pw), rq.String())
		}
	}
	for _, p := range sysProxies {
		hs := p.hosts()
		for _, h := range hs {
			for _, ck := range creds {
				n++
				id := fmt.Sprintf("y%d", n)
				if p.kind == 1 {
					cls, ok200, rq, err := doMux(h.host, ck.raw, id, n%3)
					if err != nil {
						r.errs++
						r.fail("zz-driver-io:system", "tcpmux request failed: "+err.Error(), rq.String())
						continue
					}
					backend := -1
					if got := arr.get(id); len(got) > 0 {
						backend = got[0]
					}
					u, pw, _ := parseBasicRef(rq.pauth)
					monitor(1, h.kind, backend, u, pw, rq, "a CONNECT to "+h.host+" ("+h.kind+")")
					r.addCase(fmt.Sprintf("CSys 1 %s %s %s %s %s (%d) (* frps+frpc; CONNECT %s (%s of proxy %s) Proxy-Authorization %q *)",
						pxsym, r.sym.b(sysSDH), rq.coq(r.sym), hx.Z(int64(cls)), hx.Bool(ok200), backend, h.host, h.kind, p.name, ck.raw),
						true, "system:tcpmux:"+h.kind, fmt.Sprintf("system:tcpmux:cls-%d", cls))
				} else {
					for _, path := range []string{"/", "/a/x"} {
						n++
						id := fmt.Sprintf("y%d", n)
						st, rq, err := doHTTP(h.host, path, ck.raw, id, n%3)
						if err != nil {
							r.errs++
							r.fail("zz-driver-io:system", "http request failed: "+err.Error(), rq.String())
							continue
						}
						backend := -1
						if got := arr.get(id); len(got) > 0 {
							backend = got[0]
						}
						u, pw, _ := parseBasicRef(rq.auth)
						monitor(0, h.kind, backend, u, pw, rq, "GET "+path+" on "+h.host+" ("+h.kind+")")
						r.addCase(fmt.Sprintf("CSys 0 %s %s %s %d false (%d) (* frps+frpc; GET %s on %s (%s of proxy %s) Authorization %q *)",
							pxsym, r.sym.b(sysSDH), rq.coq(r.sym), st, backend, path, h.host, h.kind, p.name, ck.raw),
							true, "system:http:"+h.kind, fmt.Sprintf("system:http:status-%d", st))
					}
				}
			}
		}
	}
	// a host nobody registered
	for _, ck := range creds[:2] {
		n++
		id := fmt.Sprintf("y%d", n)
		cls, ok200, rq, err := doMux("nobody."+sysSDH, ck.raw, id, 0)
		if err == nil {
			r.addCase(fmt.Sprintf("CSys 1 %s %s %s %s %s (-1)", pxsym, r.sym.b(sysSDH), rq.coq(r.sym), hx.Z(int64(cls)), hx.Bool(ok200)), true, "system:tcpmux:unknown-host")
		}
	}
	r.cfg.St["parts_system"] = true
	return nil
}
