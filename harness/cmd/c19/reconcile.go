package main

// Driver "reconcile": the real client/proxy.Manager (and with it the real Wrapper goroutines)
// runs with a recording transport.MessageTransporter.  Each case is a sequence of steps:
// UpdateAll with a configuration set (fresh objects every time; add, remove, change one field,
// reorder, duplicate names, identical reload), a scripted NewProxyResp (success, server error,
// for a name that is gone, for a wrapper that is not waiting), a health callback, a work
// connection, the passing of waitResponseTimeout / startErrTimeout, Manager.Close.
//
// Scheduling is made reproducible without touching tracked code: statusCheckInterval is set
// to an hour through client/proxy/c19_verif.go, and after every step each live wrapper's
// checkWorker is woken twice through its notification channel (VerifKick is a blocking send,
// so the second one returns only after a complete loop iteration).  "Time passes" is produced
// by setting waitResponseTimeout (and startErrTimeout) to zero for one such round; the model
// receives a logical clock that jumps accordingly.  Observed per step: the set of NewProxy /
// CloseProxy messages, the result of StartProxy / HandleWorkConn, and GetAllProxyStatus
// (name, wrapper identity, phase, Err != "", which configuration object).

import (
	"context"
	"fmt"
	"net"
	"reflect"
	"sort"
	"strconv"
	"strings"
	"sync"
	"sync/atomic"
	"syscall"
	"time"

	"github.com/fatedier/frp/client/proxy"
	v1 "github.com/fatedier/frp/pkg/config/v1"
	"github.com/fatedier/frp/pkg/msg"

	"verifharness/hx"
)

func init() { drivers["reconcile"] = runReconcile }

// ---- configuration objects from specs ----

type pspec struct {
	name int
	typ  int  // 0 tcp 1 http 2 stcp 3 tcpmux 4 https
	leaf int  // 0 = base object, k>0 = k-th settable leaf field changed
	hc   bool // health check configured (monitor created)
	omit int  // bit 0/1/2: intervalSeconds / timeoutSeconds / maxFailed left unset (as a file may)
	bad  bool // plugin type that cannot be created: pxy.Run() fails
}

func (s pspec) val() int {
	v := s.typ*100000 + s.leaf*32 + (s.omit&7)*4
	if s.hc {
		v += 2
	}
	if s.bad {
		v++
	}
	return v
}

var typeNames = []string{"tcp", "http", "stcp", "tcpmux", "https"}

func newTyped(typ int) v1.ProxyConfigurer {
	switch typ {
	case 0:
		return &v1.TCPProxyConfig{}
	case 1:
		return &v1.HTTPProxyConfig{}
	case 2:
		return &v1.STCPProxyConfig{}
	case 3:
		return &v1.TCPMuxProxyConfig{}
	default:
		return &v1.HTTPSProxyConfig{}
	}
}

type leafRef struct {
	path string
	idx  []int
}

var skipLeaf = map[string]bool{"Name": true, "Type": true, "LocalPort": true}

func collectLeaves(t reflect.Type, prefix string, idx []int, out *[]leafRef) {
	for i := 0; i < t.NumField(); i++ {
		f := t.Field(i)
		if !f.IsExported() {
			continue
		}
		p := f.Name
		if prefix != "" {
			p = prefix + "." + f.Name
		}
		if skipLeaf[f.Name] && (prefix == "" || strings.HasSuffix(prefix, "ProxyBaseConfig") || strings.HasSuffix(prefix, "ProxyBackend")) {
			continue
		}
		if p == "ProxyBaseConfig.HealthCheck.Type" || strings.Contains(p, "Plugin") {
			continue
		}
		ni := append(append([]int{}, idx...), i)
		switch f.Type.Kind() {
		case reflect.Struct:
			collectLeaves(f.Type, p, ni, out)
		case reflect.String, reflect.Int, reflect.Int64, reflect.Bool, reflect.Slice, reflect.Map, reflect.Uint16, reflect.Uint32:
			*out = append(*out, leafRef{p, ni})
		}
	}
}

var leavesOf = map[int][]leafRef{}
var leavesOnce sync.Once

func initLeaves() {
	leavesOnce.Do(func() {
		for typ := range typeNames {
			var ls []leafRef
			collectLeaves(reflect.TypeOf(newTyped(typ)).Elem(), "", nil, &ls)
			// keep only leaves that reflection can really change
			var ok []leafRef
			for _, l := range ls {
				c := newTyped(typ)
				if mutateLeaf(reflect.ValueOf(c).Elem().FieldByIndex(l.idx)) {
					ok = append(ok, l)
				}
			}
			leavesOf[typ] = ok
		}
	})
}

func mutateLeaf(f reflect.Value) bool {
	if !f.CanSet() {
		return false
	}
	switch f.Kind() {
	case reflect.String:
		f.SetString(f.String() + "x")
	case reflect.Int, reflect.Int64:
		f.SetInt(f.Int() + 1)
	case reflect.Uint16, reflect.Uint32:
		f.SetUint(f.Uint() + 1)
	case reflect.Bool:
		f.SetBool(!f.Bool())
	case reflect.Slice:
		f.Set(reflect.Append(f, reflect.Zero(f.Type().Elem())))
	case reflect.Map:
		if f.Type().Key().Kind() != reflect.String || f.Type().Elem().Kind() != reflect.String {
			return false
		}
		m := reflect.MakeMap(f.Type())
		if !f.IsNil() {
			for _, k := range f.MapKeys() {
				m.SetMapIndex(k, f.MapIndex(k))
			}
		}
		m.SetMapIndex(reflect.ValueOf("c19").Convert(f.Type().Key()), reflect.ValueOf("x").Convert(f.Type().Elem()))
		f.Set(m)
	default:
		return false
	}
	return true
}

var closedPort int

func buildCfg(s pspec) v1.ProxyConfigurer {
	initLeaves()
	c := newTyped(s.typ)
	b := c.GetBaseConfig()
	b.Name = fmt.Sprintf("p%d", s.name)
	b.Type = typeNames[s.typ]
	b.LocalIP = "127.0.19.250"
	if s.hc {
		b.HealthCheck = v1.HealthCheckConfig{Type: "tcp", IntervalSeconds: 1, TimeoutSeconds: 1, MaxFailed: 1}
		if s.omit&1 != 0 {
			b.HealthCheck.IntervalSeconds = 0
		}
		if s.omit&2 != 0 {
			b.HealthCheck.TimeoutSeconds = 0
		}
		if s.omit&4 != 0 {
			b.HealthCheck.MaxFailed = 0
		}
		b.LocalPort = closedPort
	}
	if s.bad {
		b.Plugin.Type = "c19-no-such-plugin"
	}
	if s.leaf > 0 {
		l := leavesOf[s.typ][s.leaf-1]
		mutateLeaf(reflect.ValueOf(c).Elem().FieldByIndex(l.idx))
	}
	return c
}

func hasMonitor(c v1.ProxyConfigurer) bool {
	b := c.GetBaseConfig()
	return b.HealthCheck.Type != "" && b.LocalPort > 0
}

// variantsSane: same spec twice = deep equal, different specs = not deep equal
func variantsSane() (int, error) {
	initLeaves()
	n := 0
	for typ := range typeNames {
		var all []v1.ProxyConfigurer
		for k := 0; k <= len(leavesOf[typ]); k++ {
			s := pspec{name: 1, typ: typ, leaf: k}
			a, b := buildCfg(s), buildCfg(s)
			if a == b || !reflect.DeepEqual(a, b) {
				return 0, fmt.Errorf("type %d leaf %d: rebuilding a spec is not deep-equal", typ, k)
			}
			for j, o := range all {
				if reflect.DeepEqual(a, o) {
					return 0, fmt.Errorf("type %d: leaves %d and %d give deep-equal objects", typ, j, k)
				}
			}
			all = append(all, a)
			n++
		}
	}
	return n, nil
}

// cfgDiff names the first leaf in which two configuration objects differ
func cfgDiff(a, b v1.ProxyConfigurer) string {
	var walk func(x, y reflect.Value, path string) string
	walk = func(x, y reflect.Value, path string) string {
		if x.Kind() == reflect.Struct {
			for i := 0; i < x.NumField(); i++ {
				if !x.Type().Field(i).IsExported() {
					continue
				}
				if d := walk(x.Field(i), y.Field(i), path+"."+x.Type().Field(i).Name); d != "" {
					return d
				}
			}
			return ""
		}
		if !reflect.DeepEqual(x.Interface(), y.Interface()) {
			return fmt.Sprintf("%s: held %v, loaded %v", strings.TrimPrefix(path, "."), x.Interface(), y.Interface())
		}
		return ""
	}
	if reflect.TypeOf(a) != reflect.TypeOf(b) {
		return "different types"
	}
	return walk(reflect.ValueOf(a).Elem(), reflect.ValueOf(b).Elem(), "")
}

// ---- recording transporter ----

type recTransport struct {
	mu    sync.Mutex
	msgs  [][3]int    // kind (1 NewProxy, 2 CloseProxy), name, val
	newAt []time.Time // arrival times of NewProxy messages (never reset)
}

func nameNum(s string) int {
	n, err := strconv.Atoi(strings.TrimPrefix(s, "p"))
	if err != nil {
		return -1
	}
	return n
}

func (t *recTransport) Send(m msg.Message) error {
	t.mu.Lock()
	defer t.mu.Unlock()
	switch x := m.(type) {
	case *msg.NewProxy:
		// which configuration object the wrapper holds is observed through the status rows
		t.msgs = append(t.msgs, [3]int{1, nameNum(x.ProxyName), 0})
		t.newAt = append(t.newAt, time.Now())
	case *msg.CloseProxy:
		t.msgs = append(t.msgs, [3]int{2, nameNum(x.ProxyName), 0})
	default:
		t.msgs = append(t.msgs, [3]int{9, 0, 0})
	}
	return nil
}
func (t *recTransport) Do(ctx context.Context, req msg.Message, laneKey, recvMsgType string) (msg.Message, error) {
	return nil, fmt.Errorf("not used")
}
func (t *recTransport) Dispatch(m msg.Message, laneKey string) bool                  { return false }
func (t *recTransport) DispatchWithType(m msg.Message, msgType, laneKey string) bool { return false }

func (t *recTransport) take() [][3]int {
	t.mu.Lock()
	defer t.mu.Unlock()
	set := map[[3]int]bool{}
	for _, m := range t.msgs {
		set[m] = true
	}
	t.msgs = nil
	res := make([][3]int, 0, len(set))
	for m := range set {
		res = append(res, m)
	}
	sort.Slice(res, func(i, j int) bool {
		for k := 0; k < 3; k++ {
			if res[i][k] != res[j][k] {
				return res[i][k] < res[j][k]
			}
		}
		return false
	})
	return res
}

type recConn struct {
	net.Conn
	closed atomic.Bool
}

func (c *recConn) Close() error { c.closed.Store(true); return c.Conn.Close() }

// ---- steps ----

const (
	opUpdate = iota
	opResp
	opHealth
	opWork
	opElapseWait
	opElapseErr
	opSettle
	opClose
)

type rstep struct {
	op    int
	specs []pspec
	name  int
	err   bool // resp: server error
	runOK bool // resp: what pxy.Run() will do for the addressed wrapper (from its spec)
	h     int  // health: 0 ok 1 failed
}

type robs struct {
	msgs    [][3]int
	result  int
	status  [][5]int // name id phase haserr val
	undead  []string // wrappers that left the table but do not report phase closed
	mutated []string // stored configuration objects that no longer deep-equal what was loaded
}

const (
	logicalWait = 100
	logicalErr  = 100000
	longTime    = time.Hour
)

var phaseCode = map[string]int{
	proxy.ProxyPhaseNew: 0, proxy.ProxyPhaseWaitStart: 1, proxy.ProxyPhaseStartErr: 2,
	proxy.ProxyPhaseRunning: 3, proxy.ProxyPhaseCheckFailed: 4, proxy.ProxyPhaseClosed: 5,
}

type rrun struct {
	pm      *proxy.Manager
	tr      *recTransport
	ids     map[*proxy.Wrapper]int
	nextID  int
	cfgVal  map[v1.ProxyConfigurer]int
	cfgSpec map[v1.ProxyConfigurer]pspec
	mutated []string
	workCb  chan struct{}
	cancel  context.CancelFunc
	invalid string
}

func newRun() *rrun {
	ctx, cancel := context.WithCancel(context.Background())
	r := &rrun{tr: &recTransport{}, ids: map[*proxy.Wrapper]int{}, cfgVal: map[v1.ProxyConfigurer]int{}, cfgSpec: map[v1.ProxyConfigurer]pspec{},
		workCb: make(chan struct{}, 16), cancel: cancel}
	r.pm = proxy.NewManager(ctx, &v1.ClientCommonConfig{}, r.tr, nil)
	r.pm.SetInWorkConnCallback(func(_ *v1.ProxyBaseConfig, c net.Conn, _ *msg.StartWorkConn) bool {
		r.workCb <- struct{}{}
		c.Close()
		return false
	})
	return r
}

func (r *rrun) syncAll() {
	ws := r.pm.VerifWrappers()
	names := make([]string, 0, len(ws))
	for n := range ws {
		names = append(names, n)
	}
	sort.Strings(names)
	for _, n := range names {
		ws[n].VerifKick()
		ws[n].VerifKick()
	}
}

func (r *rrun) observe(result int) robs {
	o := robs{msgs: r.tr.take(), result: result}
	ws := r.pm.VerifWrappers()
	for _, st := range r.pm.GetAllProxyStatus() {
		w := ws[st.Name]
		id, ok := r.ids[w]
		if !ok {
			id = -1
		}
		v, ok := r.cfgVal[st.Cfg]
		if !ok {
			v = -1
		} else if sp := r.cfgSpec[st.Cfg]; !reflect.DeepEqual(st.Cfg, buildCfg(sp)) {
			// the object the wrapper holds is no longer what was loaded: something wrote into it
			v = -3
			o.mutated = append(o.mutated, fmt.Sprintf("configuration held for %s differs from the loaded one (%s)", st.Name, cfgDiff(st.Cfg, buildCfg(sp))))
		}
		he := 0
		if st.Err != "" {
			he = 1
		}
		ph, ok := phaseCode[st.Phase]
		if !ok {
			ph = -1
		}
		o.status = append(o.status, [5]int{nameNum(st.Name), id, ph, he, v})
	}
	sort.Slice(o.status, func(i, j int) bool { return o.status[i][0] < o.status[j][0] })
	live := map[*proxy.Wrapper]bool{}
	for _, w := range ws {
		live[w] = true
	}
	for w, id := range r.ids {
		if !live[w] {
			if st := w.GetStatus(); st.Phase != proxy.ProxyPhaseClosed {
				o.undead = append(o.undead, fmt.Sprintf("wrapper %d of %s reports %q", id, st.Name, st.Phase))
			}
		}
	}
	sort.Strings(o.undead)
	return o
}

const respErrText = "c19 scripted server error"

func (r *rrun) step(s rstep) robs {
	result := 0
	switch s.op {
	case opUpdate:
		cfgs := make([]v1.ProxyConfigurer, len(s.specs))
		for i, sp := range s.specs {
			cfgs[i] = buildCfg(sp)
			r.cfgVal[cfgs[i]] = sp.val()
			r.cfgSpec[cfgs[i]] = sp
		}
		r.pm.UpdateAll(cfgs)
		ws := r.pm.VerifWrappers()
		for _, sp := range s.specs {
			w := ws[fmt.Sprintf("p%d", sp.name)]
			if w == nil {
				continue
			}
			if _, ok := r.ids[w]; !ok {
				r.ids[w] = r.nextID
				r.nextID++
			}
		}
	case opResp:
		name := fmt.Sprintf("p%d", s.name)
		_, present := r.pm.VerifWrappers()[name]
		e := ""
		if s.err {
			e = respErrText
		}
		err := r.pm.StartProxy(name, "127.0.0.1:7000", e)
		switch {
		case err == nil:
			result = 1
		case !present:
			result = 4
		case err.Error() == respErrText || strings.Contains(err.Error(), "c19-no-such-plugin"):
			result = 2
		default:
			result = 3
		}
	case opHealth:
		if w, ok := r.pm.VerifWrappers()[fmt.Sprintf("p%d", s.name)]; ok && w.VerifHasMonitor() {
			w.VerifHealthCallback(s.h == 0)
		}
	case opWork:
		a, b := net.Pipe()
		rc := &recConn{Conn: a}
		r.pm.HandleWorkConn(fmt.Sprintf("p%d", s.name), rc, &msg.StartWorkConn{ProxyName: fmt.Sprintf("p%d", s.name)})
		if rc.closed.Load() {
			result = 6
		} else {
			select {
			case <-r.workCb:
				result = 5
			case <-time.After(3 * time.Second):
				result = 7 // neither closed nor handed over
			}
		}
		b.Close()
	case opElapseWait:
		proxy.VerifSetTiming(0, 0, -1)
		r.syncAll()
		proxy.VerifSetTiming(0, longTime, -1)
	case opElapseErr:
		proxy.VerifSetTiming(0, 0, 0)
		r.syncAll()
		proxy.VerifSetTiming(0, longTime, longTime)
	case opSettle:
	case opClose:
		r.pm.Close()
	}
	r.syncAll()
	return r.observe(result)
}

func (r *rrun) finish() {
	r.pm.Close()
	r.cancel()
}

// ---- wall-clock check of the two timeouts (runtime residue, not part of the Coq cases) ----

func (t *recTransport) newCount() (int, time.Time) {
	t.mu.Lock()
	defer t.mu.Unlock()
	if len(t.newAt) == 0 {
		return 0, time.Time{}
	}
	return len(t.newAt), t.newAt[len(t.newAt)-1]
}

func waitNewCount(t *recTransport, n int, d time.Duration) (time.Time, bool) {
	deadline := time.Now().Add(d)
	for time.Now().Before(deadline) {
		if c, at := t.newCount(); c >= n {
			return at, true
		}
		time.Sleep(500 * time.Microsecond)
	}
	return time.Time{}, false
}

// measureBackoff runs one wrapper with real (small) timing constants and returns how long after a
// start error (resp. after an unanswered NewProxy) the next NewProxy was sent.
func measureBackoff(interval, waitTO, errTO time.Duration) (afterErr, afterSilence time.Duration, ok bool) {
	proxy.VerifSetTiming(interval, waitTO, errTO)
	defer proxy.VerifSetTiming(longTime, longTime, longTime)
	r := newRun()
	defer r.finish()
	c := buildCfg(pspec{name: 0, typ: 0})
	r.pm.UpdateAll([]v1.ProxyConfigurer{c})
	if _, ok := waitNewCount(r.tr, 1, 2*time.Second); !ok {
		return 0, 0, false
	}
	t0 := time.Now()
	_ = r.pm.StartProxy("p0", "", respErrText)
	at2, ok2 := waitNewCount(r.tr, 2, errTO*3+2*time.Second)
	if !ok2 {
		return 0, 0, false
	}
	afterErr = at2.Sub(t0)
	// no reply to the second NewProxy: re-sent after waitResponseTimeout
	at3, ok3 := waitNewCount(r.tr, 3, waitTO*3+2*time.Second)
	if !ok3 {
		return afterErr, 0, false
	}
	return afterErr, at3.Sub(at2), true
}

type backoffResult struct {
	Interval, WaitTO, ErrTO, AfterErr, AfterSilence int64 // ms
	OK                                              bool
}

// checkBackoff: the retry must come no earlier than the timeout and no later than timeout + one
// check interval + tolerance.  A measurement outside the window is repeated with larger constants
// (up to three times); it is reported only if every repetition is outside.
func checkBackoff() (res []backoffResult, failure string) {
	profiles := [][3]time.Duration{
		{8 * time.Millisecond, 120 * time.Millisecond, 200 * time.Millisecond},
		{15 * time.Millisecond, 300 * time.Millisecond, 500 * time.Millisecond},
		{30 * time.Millisecond, 700 * time.Millisecond, 1200 * time.Millisecond},
	}
	for _, p := range profiles {
		ae, as, ok := measureBackoff(p[0], p[1], p[2])
		tolE := p[2]/5 + 2*p[0]
		tolW := p[1]/5 + 2*p[0]
		good := ok && ae >= p[2] && ae <= p[2]+p[0]+tolE && as >= p[1] && as <= p[1]+p[0]+tolW
		res = append(res, backoffResult{p[0].Milliseconds(), p[1].Milliseconds(), p[2].Milliseconds(), ae.Milliseconds(), as.Milliseconds(), good})
		if good {
			return res, ""
		}
		failure = fmt.Sprintf("start error retried after %d ms (startErrTimeout %d ms), unanswered NewProxy re-sent after %d ms (waitResponseTimeout %d ms), check interval %d ms, completed=%v",
			ae.Milliseconds(), p[2].Milliseconds(), as.Milliseconds(), p[1].Milliseconds(), p[0].Milliseconds(), ok)
	}
	return res, failure
}

// ---- generation ----

type rcase struct {
	steps []rstep
	obs   []robs
}

func cloneSpecs(s []pspec) []pspec { return append([]pspec{}, s...) }

func genSpecsChange(g *hx.Gen, cur []pspec, allowHC bool) []pspec {
	initLeaves()
	s := cloneSpecs(cur)
	fresh := func(name int) pspec {
		typ := g.Intn(len(typeNames))
		sp := pspec{name: name, typ: typ, leaf: 0}
		if g.Chance(0.5) {
			sp.leaf = 1 + g.Intn(len(leavesOf[typ]))
		}
		if allowHC && g.Chance(0.3) {
			sp.hc = true
			sp.omit = g.Intn(8)
		}
		if g.Chance(0.1) {
			sp.bad = true
		}
		return sp
	}
	nchg := 1 + g.Intn(3)
	for k := 0; k < nchg; k++ {
		switch x := g.Intn(10); {
		case x < 3 || len(s) == 0: // add
			s = append(s, fresh(g.Intn(5)))
			// the appended entry may duplicate a name: intended
		case x < 4: // remove
			i := g.Intn(len(s))
			s = append(s[:i], s[i+1:]...)
		case x < 6: // change one field of an entry
			i := g.Intn(len(s))
			s[i].leaf = g.Intn(len(leavesOf[s[i].typ]) + 1)
		case x < 7: // reorder
			g.R.Shuffle(len(s), func(i, j int) { s[i], s[j] = s[j], s[i] })
		case x < 8: // duplicate name with another value, anywhere
			i := g.Intn(len(s))
			d := fresh(s[i].name)
			j := g.Intn(len(s) + 1)
			s = append(s[:j], append([]pspec{d}, s[j:]...)...)
		case x < 9: // identical reload
		default: // change type of an entry
			i := g.Intn(len(s))
			n := fresh(s[i].name)
			n.hc = s[i].hc && allowHC
			if !n.hc {
				n.omit = 0
			}
			s[i] = n
		}
	}
	if len(s) > 7 {
		s = s[:7]
	}
	return s
}

func genReconCase(g *hx.Gen, elapse bool, allowHC bool) []rstep {
	var steps []rstep
	var cur []pspec
	n := 6 + g.Intn(8)
	firstOf := func(name int) (pspec, bool) {
		for _, sp := range cur {
			if sp.name == name {
				return sp, true
			}
		}
		return pspec{}, false
	}
	for len(steps) < n {
		x := g.Intn(100)
		switch {
		case len(steps) == 0 || x < 32:
			if len(steps) > 0 && g.Chance(0.15) {
				// identical reload of the current set (fresh objects)
			} else {
				cur = genSpecsChange(g, cur, allowHC)
			}
			steps = append(steps, rstep{op: opUpdate, specs: cloneSpecs(cur)})
		case x < 60:
			name := g.Intn(5)
			if len(cur) > 0 && g.Chance(0.85) {
				name = cur[g.Intn(len(cur))].name
			}
			sp, ok := firstOf(name)
			steps = append(steps, rstep{op: opResp, name: name, err: g.Chance(0.3), runOK: !ok || !sp.bad})
		case x < 70:
			var hcs []int
			for _, sp := range cur {
				if f, _ := firstOf(sp.name); f.hc {
					hcs = append(hcs, sp.name)
				}
			}
			if len(hcs) == 0 {
				continue
			}
			h := 0
			if g.Chance(0.4) {
				h = 1
			}
			steps = append(steps, rstep{op: opHealth, name: hcs[g.Intn(len(hcs))], h: h})
		case x < 80:
			name := g.Intn(5)
			if len(cur) > 0 && g.Chance(0.85) {
				name = cur[g.Intn(len(cur))].name
			}
			steps = append(steps, rstep{op: opWork, name: name})
		case x < 90:
			if !elapse {
				steps = append(steps, rstep{op: opSettle})
			} else if g.Chance(0.6) {
				steps = append(steps, rstep{op: opElapseWait})
			} else {
				steps = append(steps, rstep{op: opElapseErr})
			}
		case x < 97:
			steps = append(steps, rstep{op: opSettle})
		default:
			steps = append(steps, rstep{op: opClose})
			cur = nil
		}
	}
	return steps
}

// directed cases: the repaired F-C19b witness and the clauses the property names
func directedReconCases() [][]rstep {
	a := pspec{name: 0, typ: 0, leaf: 1}
	a2 := pspec{name: 0, typ: 0, leaf: 2}
	b := pspec{name: 1, typ: 1, leaf: 0}
	c := pspec{name: 2, typ: 2, leaf: 0}
	bad := pspec{name: 3, typ: 0, leaf: 0, bad: true}
	up := func(s ...pspec) rstep { return rstep{op: opUpdate, specs: s} }
	ok := func(n int) rstep { return rstep{op: opResp, name: n, runOK: true} }
	return [][]rstep{
		// duplicate names: [x->v1, x->v2, y] loaded three times
		{up(a, a2, b), ok(0), ok(1), up(a, a2, b), {op: opWork, name: 0}, up(a, a2, b), up(a2, a, b), ok(0)},
		// start error, not retried early, retried after the back-off
		{up(a, b), {op: opResp, name: 0, err: true, runOK: true}, ok(1), {op: opSettle}, {op: opElapseWait}, {op: opElapseErr}, ok(0), {op: opWork, name: 0}},
		// missing reply: re-sent after waitResponseTimeout; late reply after removal
		{up(a, c), {op: opElapseWait}, ok(0), up(c), ok(0), {op: opWork, name: 0}, {op: opElapseErr}},
		// Run() failure: CloseProxy and start error
		{up(bad, a), {op: opResp, name: 3, runOK: false}, ok(0), {op: opElapseErr}, {op: opResp, name: 3, runOK: false}},
		// changed entry: stop + new wrapper; reply for the old registration reaches the new wrapper
		{up(a, b), ok(0), up(a2, b), ok(0), {op: opWork, name: 0}, up(b), {op: opWork, name: 0}, {op: opClose}, up(a)},
	}
}

// identical reloads (fresh objects every time) of health-checked proxies that leave each subset of
// intervalSeconds / timeoutSeconds / maxFailed unset: nothing may be closed or re-registered
func directedOmittedHealthFields() [][]rstep {
	up := func(s ...pspec) rstep { return rstep{op: opUpdate, specs: s} }
	ok := func(n int) rstep { return rstep{op: opResp, name: n, runOK: true} }
	var cases [][]rstep
	for omit := 0; omit < 8; omit += 4 {
		a := pspec{name: 0, typ: 0, hc: true, omit: omit}
		b := pspec{name: 1, typ: 1, hc: true, omit: omit + 1}
		c := pspec{name: 2, typ: 2, hc: true, omit: omit + 2}
		d := pspec{name: 3, typ: 3, hc: true, omit: omit + 3}
		cases = append(cases, []rstep{
			up(a, b, c, d),
			{op: opHealth, name: 0, h: 0}, {op: opHealth, name: 1, h: 0}, {op: opHealth, name: 2, h: 0}, {op: opHealth, name: 3, h: 0},
			ok(0), ok(1), ok(2), ok(3),
			up(a, b, c, d), {op: opWork, name: 1}, up(d, c, b, a), up(a, b, c, d), {op: opWork, name: 3},
		})
	}
	return cases
}

func directedHealthRecon() [][]rstep {
	h := pspec{name: 0, typ: 0, leaf: 0, hc: true}
	b := pspec{name: 1, typ: 0, leaf: 3}
	up := func(s ...pspec) rstep { return rstep{op: opUpdate, specs: s} }
	ok := func(n int) rstep { return rstep{op: opResp, name: n, runOK: true} }
	return [][]rstep{
		// not registered before the first success; withdrawn on failure; registered again
		{up(h, b), ok(0), ok(1), {op: opHealth, name: 0, h: 0}, ok(0), {op: opWork, name: 0},
			{op: opHealth, name: 0, h: 1}, {op: opWork, name: 0}, ok(0), {op: opHealth, name: 0, h: 0}, ok(0), up(b), {op: opWork, name: 0}},
		// health failure while the NewProxy is unanswered (wait start): withdrawn at once (CloseProxy,
		// check failed); the late success reply is ignored; registered again after the next success
		{up(h, b), {op: opHealth, name: 0, h: 0}, {op: opHealth, name: 0, h: 1}, ok(0), {op: opWork, name: 0},
			{op: opHealth, name: 0, h: 0}, ok(0), {op: opWork, name: 0}},
		{up(h), {op: opHealth, name: 0, h: 0}, {op: opSettle}, {op: opHealth, name: 0, h: 1}, {op: opSettle},
			{op: opHealth, name: 0, h: 0}, {op: opHealth, name: 0, h: 1}, ok(0), up(h)},
	}
}

func renderSpec(s pspec) string {
	return fmt.Sprintf("(%d, %d, %s)", s.name, s.val(), hx.Bool(s.hc))
}

func renderRecon(steps []rstep, obs []robs) string {
	parts := make([]string, len(steps))
	for i, s := range steps {
		var op string
		switch s.op {
		case opUpdate:
			xs := make([]string, len(s.specs))
			for j, sp := range s.specs {
				xs[j] = renderSpec(sp)
			}
			op = "ROUpdate " + hx.List(xs)
		case opResp:
			op = fmt.Sprintf("ROResp %d %s %s", s.name, hx.Bool(s.err), hx.Bool(s.runOK))
		case opHealth:
			op = fmt.Sprintf("ROHealth %d %d", s.name, s.h)
		case opWork:
			op = fmt.Sprintf("ROWork %d", s.name)
		case opElapseWait:
			op = fmt.Sprintf("ROElapse %d", logicalWait+1)
		case opElapseErr:
			op = fmt.Sprintf("ROElapse %d", logicalErr+1)
		case opSettle:
			op = "ROSettle"
		case opClose:
			op = "ROClose"
		}
		ms := make([]string, len(obs[i].msgs))
		for j, m := range obs[i].msgs {
			ms[j] = fmt.Sprintf("(%d, %s, %s)", m[0], hx.Z(int64(m[1])), hx.Z(int64(m[2])))
		}
		ss := make([]string, len(obs[i].status))
		for j, st := range obs[i].status {
			ss[j] = fmt.Sprintf("(%s, %s, %s, %d, %s)", hx.Z(int64(st[0])), hx.Z(int64(st[1])), hx.Z(int64(st[2])), st[3], hx.Z(int64(st[4])))
		}
		parts[i] = fmt.Sprintf("(%s, %s, %d, %s)", op, hx.List(ms), obs[i].result, hx.List(ss))
	}
	return fmt.Sprintf("CRecon %d %d %s", logicalWait, logicalErr, hx.List(parts))
}

func runReconCase(steps []rstep) []robs {
	r := newRun()
	defer r.finish()
	obs := make([]robs, 0, len(steps))
	for _, s := range steps {
		obs = append(obs, r.step(s))
	}
	return obs
}

// Go-side readings of the property on the observed trace (readable findings)
func reconViolations(steps []rstep, obs []robs) []map[string]string {
	var out []map[string]string
	var prev []pspec
	var prevStatus [][5]int
	sameSpecs := func(a, b []pspec) bool {
		if len(a) != len(b) {
			return false
		}
		for i := range a {
			if a[i] != b[i] {
				return false
			}
		}
		return true
	}
	for i, s := range steps {
		if s.op == opUpdate {
			if prev != nil && sameSpecs(prev, s.specs) {
				// identical reload: nothing may be closed or re-registered, identities stay
				for _, m := range obs[i].msgs {
					if m[0] == 2 {
						out = append(out, map[string]string{"key": "reconcile:identical-reload-closes-proxy",
							"what": fmt.Sprintf("step %d: reloading an identical configuration set sent CloseProxy for p%d", i, m[1])})
					}
				}
				for _, st := range obs[i].status {
					for _, ps := range prevStatus {
						if ps[0] == st[0] && ps[1] != st[1] {
							out = append(out, map[string]string{"key": "reconcile:identical-reload-replaces-wrapper",
								"what": fmt.Sprintf("step %d: reloading an identical configuration set replaced the wrapper of p%d", i, st[0])})
						}
					}
				}
			}
			prev = cloneSpecs(s.specs)
			// names after the update = names of the set
			want := map[int]bool{}
			for _, sp := range s.specs {
				want[sp.name] = true
			}
			got := map[int]bool{}
			for _, st := range obs[i].status {
				got[st[0]] = true
			}
			for n := range want {
				if !got[n] {
					out = append(out, map[string]string{"key": "reconcile:configured-proxy-missing",
						"what": fmt.Sprintf("step %d: p%d is in the loaded set but has no wrapper", i, n)})
				}
			}
			for n := range got {
				if !want[n] {
					out = append(out, map[string]string{"key": "reconcile:removed-proxy-still-present",
						"what": fmt.Sprintf("step %d: p%d is not in the loaded set but still has a wrapper", i, n)})
				}
			}
		}
		if s.op == opClose {
			prev = nil
		}
		if s.op == opWork && obs[i].result == 5 {
			running := false
			for _, st := range prevStatus {
				if st[0] == s.name && st[2] == 3 {
					running = true
				}
			}
			if !running {
				out = append(out, map[string]string{"key": "reconcile:workconn-accepted-while-not-running",
					"what": fmt.Sprintf("step %d: work connection for p%d handed to the proxy although its phase was not running", i, s.name)})
			}
		}
		for _, u := range obs[i].mutated {
			out = append(out, map[string]string{"key": "reconcile:wrapper-mutated-its-configuration",
				"what": fmt.Sprintf("step %d: %s", i, u)})
		}
		for _, u := range obs[i].undead {
			out = append(out, map[string]string{"key": "reconcile:stopped-wrapper-not-closed",
				"what": fmt.Sprintf("step %d: %s after it was stopped and removed from the table", i, u)})
		}
		if s.op == opWork && obs[i].result == 7 {
			out = append(out, map[string]string{"key": "reconcile:workconn-leaked",
				"what": fmt.Sprintf("step %d: work connection for p%d neither closed nor handed over", i, s.name)})
		}
		prevStatus = obs[i].status
	}
	return out
}

func runReconcile(cfg *hx.RunCfg) error {
	nv, err := variantsSane()
	if err != nil {
		return err
	}
	// a port that refuses connections for the whole run: a socket that is bound but never listens (the
	// kernel answers with RST and nobody else can take the port).  The wrappers' own monitors stay
	// inert: no probe succeeds, so no callback fires.
	fd, err := syscall.Socket(syscall.AF_INET, syscall.SOCK_STREAM, 0)
	if err != nil {
		return err
	}
	defer syscall.Close(fd)
	if err := syscall.Bind(fd, &syscall.SockaddrInet4{Port: 0, Addr: [4]byte{127, 0, 19, 250}}); err != nil {
		return err
	}
	sa, err := syscall.Getsockname(fd)
	if err != nil {
		return err
	}
	closedPort = sa.(*syscall.SockaddrInet4).Port

	proxy.VerifSetTiming(longTime, longTime, longTime)
	g := hx.NewGen(cfg.Seed)

	// batch A: in parallel, no timing changes; health-checked proxies allowed
	// batch B: one after the other, with "time passes" steps
	nA := cfg.N * 2 / 5
	nB := cfg.N - nA
	var batchA, batchB [][]rstep
	batchA = append(batchA, directedHealthRecon()...)
	batchA = append(batchA, directedOmittedHealthFields()...)
	for len(batchA) < nA {
		batchA = append(batchA, genReconCase(g, false, true))
	}
	batchB = append(batchB, directedReconCases()...)
	for len(batchB) < nB {
		batchB = append(batchB, genReconCase(g, true, false))
	}
	obsA := make([][]robs, len(batchA))
	var next atomic.Int64
	var wg sync.WaitGroup
	for w := 0; w < 16; w++ {
		wg.Add(1)
		go func() {
			defer wg.Done()
			for {
				i := int(next.Add(1)) - 1
				if i >= len(batchA) {
					return
				}
				obsA[i] = runReconCase(batchA[i])
			}
		}()
	}
	wg.Wait()
	obsB := make([][]robs, len(batchB))
	for i := range batchB {
		obsB[i] = runReconCase(batchB[i])
	}

	cf := &hx.CaseFile{
		Imports: "From FRP Require Import Corr.C19.\nOpen Scope Z_scope.\n",
		Typ:     "c19_case",
		Tail: "Definition M := Eval vm_compute in mismatches c19_check_case cases.\nPrint M.\n" +
			"Definition NKEPT := Eval vm_compute in count_if c19_case_keeps cases.\nPrint NKEPT.\n" +
			"Definition NREPLACED := Eval vm_compute in count_if c19_case_replaces cases.\nPrint NREPLACED.\n" +
			"Definition NDUPLICATE := Eval vm_compute in count_if c19_case_has_duplicate cases.\nPrint NDUPLICATE.\n" +
			"Definition NRETRIED := Eval vm_compute in count_if c19_case_retries_start_error cases.\nPrint NRETRIED.\n" +
			"Definition NRUNNING := Eval vm_compute in count_if c19_case_reaches_running cases.\nPrint NRUNNING.\n" +
			"Definition NWITHDRAWNWAITING := Eval vm_compute in count_if c19_case_withdrawn_while_waiting cases.\nPrint NWITHDRAWNWAITING.\n",
	}
	dist := map[string]int{}
	seen := map[string]bool{}
	distinct := 0
	var failures []map[string]any
	var samples []string
	emit := func(steps []rstep, obs []robs) {
		line := renderRecon(steps, obs)
		cf.Cases = append(cf.Cases, line)
		nmsg := 0
		for i, s := range steps {
			dist["op:"+[]string{"update", "resp", "health", "work", "elapse-wait", "elapse-err", "settle", "close"}[s.op]]++
			nmsg += len(obs[i].msgs)
			dist[fmt.Sprintf("result:%d", obs[i].result)]++
			for _, st := range obs[i].status {
				dist[fmt.Sprintf("phase:%d", st[2])]++
			}
		}
		if !seen[line] {
			seen[line] = true
			if nmsg > 0 {
				distinct++
			}
		}
		for _, v := range reconViolations(steps, obs) {
			failures = append(failures, map[string]any{"key": v["key"], "what": "real proxy.Manager: " + v["what"], "case": line})
		}
		if len(samples) < 3 && len(cf.Cases)%11 == 1 {
			samples = append(samples, line)
		}
	}
	for i := range batchA {
		emit(batchA[i], obsA[i])
	}
	for i := range batchB {
		emit(batchB[i], obsB[i])
	}
	if err := cf.Write(cfg.Out); err != nil {
		return err
	}
	bo, bofail := checkBackoff()
	if bofail != "" {
		failures = append(failures, map[string]any{"key": "reconcile:backoff-interval-wall-clock",
			"what": "real proxy.Wrapper, wall clock, three measurements all outside [timeout, timeout + interval + tolerance]: " + bofail,
			"case": fmt.Sprintf("%+v", bo)})
	}
	cfg.St["backoff_wall_clock_ms"] = bo
	cfg.St["cases"] = len(cf.Cases)
	cfg.St["distinct_nontrivial"] = distinct
	cfg.St["samples"] = samples
	cfg.St["distribution"] = dist
	cfg.St["impl_failures"] = failures
	cfg.St["config_variants"] = nv
	return nil
}
