package main

// The environment behind {{ .Envs.X }}: pkg/config builds its map from os.Environ() once, in the
// package's init().  To exercise that code the harness re-executes ITS OWN BINARY as a child with
// exactly the environment it chose (driver "envchild"); the child calls the real file entry points
//   render:<path>  config.LoadFileContentWithTemplate(path, config.GetValues())   -> rendered bytes
//   load:<path>    config.LoadClientConfig(path, true)                            -> auth.token
// and writes the result to -out.  The parent compares with Model/Template.v (env_build: split at
// the first '=') and, independently, with the values it put into the environment.

import (
	"fmt"
	"os"
	"os/exec"
	"path/filepath"
	"strings"

	"github.com/fatedier/frp/pkg/config"

	"verifharness/hx"
)

func init() { drivers["envchild"] = runEnvChild }

func runEnvChild(cfg *runCfg) error {
	mode, path, ok := strings.Cut(cfg.Extra, ":")
	if !ok {
		return fmt.Errorf("envchild: -extra render:<path> | load:<path>")
	}
	switch mode {
	case "render":
		out, err := config.LoadFileContentWithTemplate(path, config.GetValues())
		if err != nil {
			return os.WriteFile(cfg.Out, []byte("ERR "+err.Error()), 0o644)
		}
		return os.WriteFile(cfg.Out, append([]byte("OK "), out...), 0o644)
	case "load":
		cc, _, _, _, err := config.LoadClientConfig(path, true)
		if err != nil {
			return os.WriteFile(cfg.Out, []byte("ERR "+err.Error()), 0o644)
		}
		return os.WriteFile(cfg.Out, []byte("OK "+cc.Auth.Token), 0o644)
	}
	return fmt.Errorf("envchild: unknown mode %q", mode)
}

// values an environment variable may hold; the class names end up in the failure keys
var envValueClasses = []struct{ class, v string }{
	{"plain", "secret"},
	{"contains-equals", "k=v"},
	{"base64-padding", "c2VjcmV0LXRva2Vu=="},
	{"single-trailing-equals", "YWJjZGU="},
	{"equals-first", "=leading"},
	{"only-equals", "="},
	{"many-equals", "a=b=c=d="},
	{"empty", ""},
	{"unicode", "ünï=日本 😀"},
	{"spaces-quotes", `p"w d\x`},
	{"braces", "{{ .Envs.C18E_A }}"},
	{"long", strings.Repeat("x", 1200) + "=" + strings.Repeat("y", 300) + "=="},
}

var envVarNames = []string{"C18E_A", "C18E_TOKEN", "C18E_b", "C18E_LONG_NAME_1", "C18E_Ünï"}

func (d *drv) runChild(env []string, mode, path, out string) (string, error) {
	cmd := exec.Command(os.Args[0], "envchild", "-extra", mode+":"+path, "-out", out)
	cmd.Env = env
	if b, err := cmd.CombinedOutput(); err != nil {
		return "", fmt.Errorf("%v: %s", err, b)
	}
	b, err := os.ReadFile(out)
	return string(b), err
}

func (d *drv) envCases(g *gen, n int) []caseOut {
	dir := filepath.Join(filepath.Dir(d.cfg.Out), "env")
	if d.cfg.Out == "" {
		dir = filepath.Join(os.TempDir(), "c18env")
	}
	_ = os.MkdirAll(dir, 0o755)
	var cases []caseOut
	for i := 0; i < n; i++ {
		// the child's environment: a fixed base, then the chosen variables (each name once)
		environ := []string{"PATH=/usr/bin:/bin", "HOME=/nonexistent", "C18E_NOEQ_IGNORED"}
		// "C18E_NOEQ_IGNORED" has no '=': the kernel passes it on, frp skips it
		chosen := map[string]int{}
		for _, name := range envVarNames {
			if g.chance(0.7) {
				k := g.intn(len(envValueClasses))
				if i < len(envValueClasses) && name == "C18E_TOKEN" {
					k = i // every class at least once
				}
				chosen[name] = k
				environ = append(environ, name+"="+envValueClasses[k].v)
			}
		}
		var src, want strings.Builder
		var segs []string
		for j := 0; j < 2+g.intn(4); j++ {
			t := g.pick(textPool)
			src.WriteString(t)
			want.WriteString(t)
			segs = append(segs, "(TText "+hx.HxS(t)+")")
			name := g.pick(append([]string{"C18E_UNSET"}, envVarNames...))
			if j == 0 {
				name = "C18E_TOKEN"
			}
			src.WriteString("{{ .Envs." + name + " }}")
			segs = append(segs, "(TEnv "+hx.HxS(name)+")")
			if k, ok := chosen[name]; ok {
				want.WriteString(envValueClasses[k].v)
			} else {
				want.WriteString("<no value>")
			}
		}
		path := filepath.Join(dir, "tpl.txt")
		_ = os.WriteFile(path, []byte(src.String()), 0o644)
		got, err := d.runChild(environ, "render", path, filepath.Join(dir, "out.txt"))
		if err != nil {
			d.fail("envchild-run", "the child process could not be run: "+err.Error(), src.String())
			continue
		}
		res := "TErr"
		kind := "env-template-err"
		if strings.HasPrefix(got, "OK ") {
			body := strings.TrimPrefix(got, "OK ")
			res = "(TOk " + hx.HxS(body) + ")"
			kind = "env-template-ok"
			if body != want.String() {
				// name the first variable whose value did not come through
				cls := "other"
				for _, name := range envVarNames {
					if k, ok := chosen[name]; ok && !strings.Contains(body, envValueClasses[k].v) && strings.Contains(src.String(), "{{ .Envs."+name+" }}") {
						cls = envValueClasses[k].class
						break
					}
				}
				d.fail("env-value-not-rendered:"+cls,
					"a templated file does not render to the document with the environment values written out (value class "+cls+")",
					fmt.Sprintf("environment %q\ntemplate %q\nrendered %q\nexpected %q", environ[3:], src.String(), clip(body), clip(want.String())))
			}
		} else {
			d.fail("env-template-error", "the file entry point rejects a well-formed templated file: "+got, src.String())
		}
		evs := []string{}
		for _, e := range environ {
			evs = append(evs, hx.HxS(e))
		}
		cases = append(cases, caseOut{fmt.Sprintf("CEnvTemplate %s %s %s", hx.List(evs), hx.List(segs), res), kind})

		// the whole way: a templated client configuration whose token comes from the environment
		if k, ok := chosen["C18E_TOKEN"]; ok && i%2 == 0 {
			v := envValueClasses[k].v
			if !strings.ContainsAny(v, "\"\\\n") {
				cpath := filepath.Join(dir, "frpc.toml")
				_ = os.WriteFile(cpath, []byte("serverAddr = \"127.0.0.1\"\nauth.token = \"{{ .Envs.C18E_TOKEN }}\"\n"), 0o644)
				got, err := d.runChild(environ, "load", cpath, filepath.Join(dir, "out2.txt"))
				if err != nil || got != "OK "+v {
					d.fail("env-value-not-loaded:"+envValueClasses[k].class,
						"LoadClientConfig on `auth.token = \"{{ .Envs.C18E_TOKEN }}\"` does not yield the value of the environment variable",
						fmt.Sprintf("C18E_TOKEN=%q loaded %q err %v", clip(v), clip(got), err))
				}
			}
		}
	}
	return cases
}

func clip(s string) string {
	if len(s) > 300 {
		return s[:300] + "..."
	}
	return s
}
