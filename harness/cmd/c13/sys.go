package main

// sysgroups: the same property through a whole in-process frps and real in-process frpc clients.
// Per kind (tcp, http, tcpmux): client A joins group g, client B joins (same key), client W presents a
// wrong key (refused), for tcp client X asks for another port (refused); user connections / requests
// arrive at the group's public endpoint and are answered by labelled backends; A's session drops;
// more connections; B's session drops (last member): the endpoint is gone; client D creates the group
// again at once with ANOTHER key.  The history is also replayed by Model/Group.v (case CSys).

import (
	"bufio"
	"encoding/base64"
	"encoding/json"
	"fmt"
	"io"
	"net"
	"net/http"
	"os"
	"path/filepath"
	"reflect"
	"strings"
	"sync/atomic"
	"time"

	"github.com/fatedier/frp/pkg/config"
	v1 "github.com/fatedier/frp/pkg/config/v1"
	"github.com/fatedier/frp/pkg/msg"
	"github.com/fatedier/frp/pkg/util/verifhook"
	"verifharness/hx"
)

const sysAddr = "127.0.13.3"

type httpBackend struct {
	l     net.Listener
	label string
}

func startHTTPBackend(label string) (*httpBackend, error) {
	l, err := net.Listen("tcp", sysAddr+":0")
	if err != nil {
		return nil, err
	}
	b := &httpBackend{l: l, label: label}
	go func() {
		_ = http.Serve(l, http.HandlerFunc(func(w http.ResponseWriter, r *http.Request) {
			w.Header().Set("Connection", "close")
			_, _ = io.WriteString(w, label)
		}))
	}()
	return b, nil
}

type sysMember struct {
	tid    int
	label  string
	client *hx.Client
	name   string
}

func errCode(e string) int {
	switch {
	case strings.Contains(e, "group auth failed"):
		return 3
	case strings.Contains(e, "same remote port"):
		return 2
	case strings.Contains(e, "group params invalid"):
		return 1
	case strings.Contains(e, "repeated"):
		return 4
	case strings.Contains(e, "already used"):
		return 5
	case strings.Contains(e, "router config conflict"):
		return 10
	}
	return 9
}

func waitProxy(c *hx.Client, name string, d time.Duration) (running bool, errText string) {
	deadline := time.Now().Add(d)
	for time.Now().Before(deadline) {
		if st, ok := c.Svc.StatusExporter().GetProxyStatus(name); ok {
			if st.Phase == "running" {
				return true, ""
			}
			if st.Phase == "start error" {
				return false, st.Err
			}
		}
		time.Sleep(10 * time.Millisecond)
	}
	return false, "timeout"
}

// a NewProxy server plugin that approves everything; proxies whose name contains "slow" are approved
// only after slowPlugin milliseconds (the window in which their session is dropped)
var slowPlugin int64 = 500

func startPlugin() (net.Listener, error) {
	l, err := net.Listen("tcp", sysAddr+":0")
	if err != nil {
		return nil, err
	}
	go func() {
		_ = http.Serve(l, http.HandlerFunc(func(w http.ResponseWriter, r *http.Request) {
			b, _ := io.ReadAll(r.Body)
			if strings.Contains(string(b), "slow") {
				time.Sleep(time.Duration(atomic.LoadInt64(&slowPlugin)) * time.Millisecond)
			}
			// the plugin hands the content back (unchange=false): frps adopts what the plugin returned,
			// which must be what the client sent — incl. the group key
			var in struct {
				Content json.RawMessage `json:"content"`
			}
			w.Header().Set("Content-Type", "application/json")
			if json.Unmarshal(b, &in) == nil && len(in.Content) > 0 {
				_, _ = w.Write([]byte(`{"reject":false,"unchange":false,"content":` + string(in.Content) + `}`))
				return
			}
			_, _ = io.WriteString(w, `{"reject":false,"unchange":true}`)
		}))
	}()
	return l, nil
}

func sysGroups(cfg *hx.RunCfg) error {
	hx.Quiet()
	vhostPort, muxPort := hx.FreePort(sysAddr), hx.FreePort(sysAddr)
	pl, err := startPlugin()
	if err != nil {
		return err
	}
	defer pl.Close()
	s, err := hx.StartServer(sysAddr, func(c *v1.ServerConfig) {
		c.VhostHTTPPort = vhostPort
		c.TCPMuxHTTPConnectPort = muxPort
		c.HTTPPlugins = []v1.HTTPPluginOptions{{Name: "c13", Addr: "http://" + pl.Addr().String(), Path: "/h", Ops: []string{"NewProxy"}}}
	})
	if err != nil {
		return err
	}
	defer s.Close()
	var lines, samples []string
	var fails []map[string]any
	dist := map[string]int{}
	for rep := 0; rep < cfg.N; rep++ {
		for kind := 0; kind < 3; kind++ {
			txt, fs, err := sysScenario(s, kind, rep, vhostPort, muxPort, dist)
			if err != nil {
				return fmt.Errorf("sys scenario %s: %v", kindName[kind], err)
			}
			lines = append(lines, txt)
			fails = append(fails, fs...)
			if len(samples) < 3 {
				samples = append(samples, txt)
			}
		}
	}
	fails = append(fails, legacyIniGroups(dist)...)
	cfg.St["cases"] = len(lines)
	cfg.St["distinct_nontrivial"] = len(lines)
	cfg.St["samples"] = samples
	cfg.St["distribution"] = dist
	cfg.St["impl_failures"] = fails
	tail := "Definition M := Eval vm_compute in mismatches check_case cases.\nPrint M.\n" +
		"Definition NSYSDELIVERED := Eval vm_compute in fold_left (fun a c => a + case_delivered c) cases 0.\nPrint NSYSDELIVERED.\n" +
		"Definition NSYSREFUSEDJOIN := Eval vm_compute in fold_left (fun a c => a + case_refused_join c) cases 0.\nPrint NSYSREFUSEDJOIN.\n"
	f := &hx.CaseFile{Imports: "From FRP Require Import Corr.C13.\nOpen Scope Z_scope.\n", Typ: "case", Cases: lines, Tail: tail}
	return f.Write(cfg.Out)
}

func sysScenario(s *hx.Server, kind, rep, vhostPort, muxPort int, dist map[string]int) (string, []map[string]any, error) {
	kn := kindName[kind]
	var fails []map[string]any
	gnum := 1 + rep
	group := fmt.Sprintf("sys-%s-g%d", kn, gnum)
	domain := fmt.Sprintf("%s%d.example.com", kn, gnum)
	rport := 0
	if kind == 0 {
		rport = hx.FreePort(sysAddr)
	}
	var par []int
	switch kind {
	case 0:
		par = []int{1}
	case 1:
		par = []int{gnum, 0, 0, 0, 0}
	default:
		par = []int{gnum, 0, 0, 0}
	}
	res := resOf(kind, par, rport)
	var reqs []Req
	var thr [][2]int
	members := map[int]*sysMember{} // label number -> member

	join := func(m int, key int, port int) (*sysMember, bool, error) {
		label := fmt.Sprintf("M%d;", m)
		var lport int
		if kind == 1 {
			b, err := startHTTPBackend(label)
			if err != nil {
				return nil, false, err
			}
			lport = b.l.Addr().(*net.TCPAddr).Port
		} else {
			e, err := hx.StartEcho(sysAddr, label)
			if err != nil {
				return nil, false, err
			}
			lport = e.Port()
		}
		name := fmt.Sprintf("sys-%s-%d-m%d", kn, rep, m)
		base := v1.ProxyBaseConfig{Name: name, LoadBalancer: v1.LoadBalancerConfig{Group: group, GroupKey: kname(key)},
			ProxyBackend: v1.ProxyBackend{LocalIP: sysAddr, LocalPort: lport}}
		var pc v1.ProxyConfigurer
		switch kind {
		case 0:
			base.Type = "tcp"
			pc = &v1.TCPProxyConfig{ProxyBaseConfig: base, RemotePort: port}
		case 1:
			base.Type = "http"
			pc = &v1.HTTPProxyConfig{ProxyBaseConfig: base, DomainConfig: v1.DomainConfig{CustomDomains: []string{domain}}}
		default:
			base.Type = "tcpmux"
			pc = &v1.TCPMuxProxyConfig{ProxyBaseConfig: base, DomainConfig: v1.DomainConfig{CustomDomains: []string{domain}}, Multiplexer: "httpconnect"}
		}
		c, err := s.StartClient([]v1.ProxyConfigurer{pc}, nil, nil)
		if err != nil {
			return nil, false, err
		}
		tid := len(reqs)
		r := Req{Op: "join", M: m, Group: gnum, Key: key, Par: par, Port: port, Mux: true, OS: true, Lis: true}
		reqs = append(reqs, r)
		ok, etxt := waitProxy(c, name, 5*time.Second)
		mem := &sysMember{tid: tid, label: label, client: c, name: name}
		if ok {
			thr = append(thr, [2]int{sMember, port})
			members[m] = mem
			dist["sys-join-ok:"+kn]++
			return mem, true, nil
		}
		if etxt == "timeout" {
			return nil, false, fmt.Errorf("proxy %s neither running nor refused", name)
		}
		thr = append(thr, [2]int{sRefused, errCode(etxt)})
		dist["sys-join-refused:"+kn]++
		c.Close() // no retry of the refused join later in the scenario
		return mem, false, nil
	}

	readLabel := func(rd *bufio.Reader) int {
		b, err := rd.ReadString(';')
		if err != nil {
			return -1
		}
		var m int
		if _, err := fmt.Sscanf(b, "M%d;", &m); err != nil {
			return -1
		}
		return m
	}

	conn := func() {
		tid := len(reqs)
		who, refused := -1, false
		switch kind {
		case 0:
			c, err := net.DialTimeout("tcp", net.JoinHostPort(sysAddr, fmt.Sprint(rport)), time.Second)
			if err != nil {
				refused = true
				break
			}
			_ = c.SetReadDeadline(time.Now().Add(3 * time.Second))
			who = readLabel(bufio.NewReader(c))
			c.Close()
		case 1:
			req, _ := http.NewRequest("GET", fmt.Sprintf("http://%s:%d/", sysAddr, vhostPort), nil)
			req.Host = domain
			cl := &http.Client{Timeout: 3 * time.Second, Transport: &http.Transport{DisableKeepAlives: true}}
			resp, err := cl.Do(req)
			if err != nil {
				break
			}
			if resp.StatusCode == 404 {
				refused = true
			} else {
				who = readLabel(bufio.NewReader(resp.Body))
			}
			resp.Body.Close()
		default:
			c, err := net.DialTimeout("tcp", net.JoinHostPort(sysAddr, fmt.Sprint(muxPort)), time.Second)
			if err != nil {
				break
			}
			_ = c.SetDeadline(time.Now().Add(3 * time.Second))
			_, _ = io.WriteString(c, "CONNECT "+domain+":80 HTTP/1.1\r\nHost: "+domain+":80\r\nX-Pad: "+base64.StdEncoding.EncodeToString([]byte("x"))+"\r\n\r\n")
			rd := bufio.NewReader(c)
			resp, err := http.ReadResponse(rd, nil)
			if err != nil || resp.StatusCode != 200 {
				refused = true
			} else {
				who = readLabel(rd)
			}
			c.Close()
		}
		r := Req{Op: "conn", R: res}
		switch {
		case refused:
			thr = append(thr, [2]int{sCRefused, 0})
			dist["sys-conn-refused:"+kn]++
			if len(members) > 0 {
				fails = append(fails, map[string]any{"key": "C13:sys:" + kn + ":endpoint-down-with-members",
					"what": "whole frps: the " + kn + " group endpoint refused a connection although the group has members", "case": group})
			}
		case who < 0:
			thr = append(thr, [2]int{sCStranded, 0})
			r.Who = -1
			if len(members) == 0 {
				fails = append(fails, map[string]any{"key": "C13:sys:" + kn + ":endpoint-up-without-members",
					"what": "whole frps: the " + kn + " group endpoint still takes connections (and answers none) although every member has left", "case": group})
			}
			if len(members) > 0 {
				fails = append(fails, map[string]any{"key": "C13:sys:" + kn + ":conn-lost",
					"what": "whole frps: a user connection to the " + kn + " group endpoint was answered by nobody although the group has members", "case": group})
			}
		default:
			mem, live := members[who]
			if !live {
				fails = append(fails, map[string]any{"key": "C13:sys:" + kn + ":wrong-receiver",
					"what": fmt.Sprintf("whole frps: a user connection to the %s group endpoint was answered by backend M%d, which is not a current member", kn, who), "case": group})
				thr = append(thr, [2]int{sCTo, -2})
				r.Who = -2
			} else if kind == 1 {
				thr = append(thr, [2]int{sCTo, who})
			} else {
				thr = append(thr, [2]int{sCTo, mem.tid})
				r.Who = mem.tid
			}
			dist["sys-conn-delivered:"+kn]++
		}
		_ = tid
		reqs = append(reqs, r)
	}

	drop := func(m int) {
		mem := members[m]
		mem.client.Close() // the session of this frpc ends
		delete(members, m)
		reqs = append(reqs, Req{Op: "leave", JT: mem.tid})
		thr = append(thr, [2]int{sDone, 0})
		thr[mem.tid] = [2]int{sLeft, 0}
		time.Sleep(500 * time.Millisecond) // frps notices the closed control connection and closes the proxies
	}

	if _, ok, err := join(1, 1, rport); err != nil || !ok {
		return "", nil, fmt.Errorf("first member could not join: %v", err)
	}
	if _, ok, err := join(2, 1, rport); err != nil || !ok {
		return "", nil, fmt.Errorf("second member could not join: %v", err)
	}
	if _, ok, err := join(3, 9, rport); err != nil { // wrong key
		return "", nil, err
	} else if ok {
		fails = append(fails, map[string]any{"key": "C13:sys:" + kn + ":wrong-key-join-accepted",
			"what": "whole frps (NewProxy plugin that returns the content): a proxy presenting a wrong group key joined the " + kn + " group", "case": group})
	}
	if kind == 0 {
		if _, _, err := join(4, 1, hx.FreePort(sysAddr)); err != nil { // other port
			return "", nil, err
		}
	}
	if kind == 2 {
		// a tcpmux proxy of the group with TWO domains: the first joins, the second is "another route" and
		// is refused, so the proxy as a whole is refused and its first listener must be taken back
		e, err := hx.StartEcho(sysAddr, "M6;")
		if err != nil {
			return "", nil, err
		}
		name := fmt.Sprintf("sys-%s-%d-m6", kn, rep)
		base := v1.ProxyBaseConfig{Name: name, Type: "tcpmux", LoadBalancer: v1.LoadBalancerConfig{Group: group, GroupKey: kname(1)},
			ProxyBackend: v1.ProxyBackend{LocalIP: sysAddr, LocalPort: e.Port()}}
		pc := &v1.TCPMuxProxyConfig{ProxyBaseConfig: base, DomainConfig: v1.DomainConfig{CustomDomains: []string{domain, "other-" + domain}}, Multiplexer: "httpconnect"}
		c, err := s.StartClient([]v1.ProxyConfigurer{pc}, nil, nil)
		if err != nil {
			return "", nil, err
		}
		ok, etxt := waitProxy(c, name, 5*time.Second)
		c.Close()
		if ok || etxt == "timeout" {
			return "", nil, fmt.Errorf("two-domain tcpmux group proxy: running=%v %s", ok, etxt)
		}
		jt := len(reqs)
		reqs = append(reqs, Req{Op: "join", M: 6, Group: gnum, Key: 1, Par: par, Mux: true, OS: true, Lis: true})
		thr = append(thr, [2]int{sLeft, 0})
		par2 := append([]int{}, par...)
		par2[0] = gnum + 100
		reqs = append(reqs, Req{Op: "join", M: 6, Group: gnum, Key: 1, Par: par2, Mux: true, OS: true, Lis: true})
		thr = append(thr, [2]int{sRefused, errCode(etxt)})
		reqs = append(reqs, Req{Op: "leave", JT: jt})
		thr = append(thr, [2]int{sDone, 0})
		dist["sys-two-domain-proxy-refused:"+kn]++
		time.Sleep(100 * time.Millisecond)
	}
	if kind == 0 {
		// a session that drops while its NewProxy is still being processed (slow plugin): the join is
		// completed and then undone by the tear-down of that session
		p, resp, err := s.Login(hx.LoginOpts{})
		if err != nil || p == nil {
			return "", nil, fmt.Errorf("scripted login: %v %v", err, resp)
		}
		_ = p.Send(&msg.NewProxy{ProxyName: fmt.Sprintf("sys-%s-%d-slow", kn, rep), ProxyType: "tcp", RemotePort: rport,
			Group: group, GroupKey: kname(1)})
		time.Sleep(100 * time.Millisecond)
		p.Close()
		time.Sleep(time.Duration(atomic.LoadInt64(&slowPlugin))*time.Millisecond + 500*time.Millisecond)
		jt := len(reqs)
		reqs = append(reqs, Req{Op: "join", M: 8, Group: gnum, Key: 1, Par: par, Port: rport, Mux: true, OS: true, Lis: true})
		thr = append(thr, [2]int{sLeft, 0})
		reqs = append(reqs, Req{Op: "leave", JT: jt})
		thr = append(thr, [2]int{sDone, 0})
		dist["sys-join-on-dropping-session:"+kn]++
	}
	for i := 0; i < 4; i++ {
		conn()
	}
	drop(1)
	conn()
	conn()
	drop(2)
	conn()                                          // nothing there any more
	if _, _, err := join(5, 7, rport); err != nil { // recreated at once, with another key
		return "", nil, err
	}
	conn()
	if mem, ok := members[5]; ok {
		mem.client.Close()
	}
	time.Sleep(300 * time.Millisecond)

	if kind != 1 {
		// two sessions announce a tcp / tcpmux group proxy with the SAME name at once: both join the group
		// (Run), the proxy manager admits only one; the other is refused and its listener must leave the
		// group again.  When the admitted one's session drops, the endpoint must be gone.
		gd := gnum + 50
		groupD := fmt.Sprintf("sys-%s-dup-g%d", kn, gnum)
		domainD := fmt.Sprintf("dup%s%d.example.com", kn, gnum)
		name := fmt.Sprintf("sys-%s-%d-dup", kn, rep)
		portD := 0
		parD := []int{1}
		if kind == 0 {
			portD = hx.FreePort(sysAddr)
		} else {
			parD = []int{gd, 0, 0, 0}
		}
		resD := resOf(kind, parD, portD)
		hold, arrived := make(chan struct{}), make(chan struct{}, 1)
		var once int32
		verifhook.Install(func(point, key string) {
			if point == "ctl.regproxy.after_run" && key == name && atomic.CompareAndSwapInt32(&once, 0, 1) {
				arrived <- struct{}{}
				<-hold
			}
		})
		mk := func(label string) (*hx.Client, error) {
			e, err := hx.StartEcho(sysAddr, label)
			if err != nil {
				return nil, err
			}
			base := v1.ProxyBaseConfig{Name: name, LoadBalancer: v1.LoadBalancerConfig{Group: groupD, GroupKey: kname(1)},
				ProxyBackend: v1.ProxyBackend{LocalIP: sysAddr, LocalPort: e.Port()}}
			var pc v1.ProxyConfigurer
			if kind == 0 {
				base.Type = "tcp"
				pc = &v1.TCPProxyConfig{ProxyBaseConfig: base, RemotePort: portD}
			} else {
				base.Type = "tcpmux"
				pc = &v1.TCPMuxProxyConfig{ProxyBaseConfig: base, DomainConfig: v1.DomainConfig{CustomDomains: []string{domainD}}, Multiplexer: "httpconnect"}
			}
			return s.StartClient([]v1.ProxyConfigurer{pc}, nil, nil)
		}
		cA, err := mk("M30;")
		if err != nil {
			verifhook.Install(nil)
			return "", nil, err
		}
		select {
		case <-arrived:
		case <-time.After(5 * time.Second):
			verifhook.Install(nil)
			close(hold)
			return "", nil, fmt.Errorf("duplicate-name scenario (%s): first registration did not reach the gate", kn)
		}
		cB, err := mk("M31;")
		if err != nil {
			verifhook.Install(nil)
			close(hold)
			return "", nil, err
		}
		okB, etB := waitProxy(cB, name, 5*time.Second)
		close(hold)
		verifhook.Install(nil)
		okA, etA := waitProxy(cA, name, 5*time.Second)
		if okA == okB || etA == "timeout" || etB == "timeout" {
			cA.Close()
			cB.Close()
			return "", nil, fmt.Errorf("duplicate-name scenario (%s): first running=%v (%s), second running=%v (%s)", kn, okA, etA, okB, etB)
		}
		winner, loser, wlabel := cB, cA, 31
		if okA {
			winner, loser, wlabel = cA, cB, 30
		}
		// model: the loser joined and was taken back, the winner joined and stays
		jl := len(reqs)
		reqs = append(reqs, Req{Op: "join", M: 30, Group: gd, Key: 1, Par: parD, Port: portD, Mux: true, OS: true, Lis: true})
		thr = append(thr, [2]int{sLeft, 0})
		jw := len(reqs)
		reqs = append(reqs, Req{Op: "join", M: 31, Group: gd, Key: 1, Par: parD, Port: portD, Mux: true, OS: true, Lis: true})
		thr = append(thr, [2]int{sLeft, 0})
		reqs = append(reqs, Req{Op: "leave", JT: jl})
		thr = append(thr, [2]int{sDone, 0})
		time.Sleep(150 * time.Millisecond)
		dial := func() (refused bool, who int) {
			who = -1
			if kind == 0 {
				c, err := net.DialTimeout("tcp", net.JoinHostPort(sysAddr, fmt.Sprint(portD)), time.Second)
				if err != nil {
					return true, -1
				}
				defer c.Close()
				_ = c.SetReadDeadline(time.Now().Add(2 * time.Second))
				return false, readLabel(bufio.NewReader(c))
			}
			c, err := net.DialTimeout("tcp", net.JoinHostPort(sysAddr, fmt.Sprint(muxPort)), time.Second)
			if err != nil {
				return false, -1
			}
			defer c.Close()
			_ = c.SetDeadline(time.Now().Add(2 * time.Second))
			_, _ = io.WriteString(c, "CONNECT "+domainD+":80 HTTP/1.1\r\nHost: "+domainD+":80\r\n\r\n")
			rd := bufio.NewReader(c)
			resp, err := http.ReadResponse(rd, nil)
			if err != nil || resp.StatusCode != 200 {
				return true, -1
			}
			return false, readLabel(rd)
		}
		record := func(refused bool, who int, expectLive bool) {
			r := Req{Op: "conn", R: resD}
			switch {
			case refused:
				thr = append(thr, [2]int{sCRefused, 0})
			case who == wlabel:
				thr = append(thr, [2]int{sCTo, jw})
				r.Who = jw
			default:
				thr = append(thr, [2]int{sCStranded, 0})
				r.Who = -1
			}
			good := (expectLive && !refused && who == wlabel) || (!expectLive && refused)
			if !good {
				fails = append(fails, map[string]any{"key": "C13:sys:" + kn + ":refused-duplicate-stays-member",
					"what": fmt.Sprintf("whole frps: two sessions announced the %s group proxy %s at once, one was refused by the proxy manager; afterwards a connection to the group (live member expected: %v) was refused=%v / answered by backend M%d", kn, name, expectLive, refused, who),
					"case": groupD})
			}
			reqs = append(reqs, r)
		}
		rf, who := dial()
		record(rf, who, true)
		winner.Close() // the admitted member's session drops: the group has no member left
		time.Sleep(600 * time.Millisecond)
		reqs = append(reqs, Req{Op: "leave", JT: jw})
		thr = append(thr, [2]int{sDone, 0})
		rf, who = dial()
		record(rf, who, false)
		loser.Close()
		dist["sys-duplicate-name-race:"+kn]++
		time.Sleep(200 * time.Millisecond)
	}

	if kind == 1 {
		// two sessions announce an http group proxy with the SAME name at once: the first has joined the
		// group (Run done, held before pxyManager.Add), the second is refused by the group ("repeated");
		// its roll-back must not touch the first one's membership: the request still reaches the first
		gd := gnum + 50
		groupD := fmt.Sprintf("sys-http-dup-g%d", gnum)
		domainD := fmt.Sprintf("dup%d.example.com", gnum)
		name := fmt.Sprintf("sys-http-%d-dup", rep)
		parD := []int{gd, 0, 0, 0, 0}
		hold, arrived := make(chan struct{}), make(chan struct{}, 1)
		var once int32
		verifhook.Install(func(point, key string) {
			if point == "ctl.regproxy.after_run" && key == name && atomic.CompareAndSwapInt32(&once, 0, 1) {
				arrived <- struct{}{}
				<-hold
			}
		})
		mk := func(label string) (*hx.Client, error) {
			b, err := startHTTPBackend(label)
			if err != nil {
				return nil, err
			}
			base := v1.ProxyBaseConfig{Name: name, Type: "http", LoadBalancer: v1.LoadBalancerConfig{Group: groupD, GroupKey: kname(1)},
				ProxyBackend: v1.ProxyBackend{LocalIP: sysAddr, LocalPort: b.l.Addr().(*net.TCPAddr).Port}}
			return s.StartClient([]v1.ProxyConfigurer{&v1.HTTPProxyConfig{ProxyBaseConfig: base,
				DomainConfig: v1.DomainConfig{CustomDomains: []string{domainD}}}}, nil, nil)
		}
		cA, err := mk("M20;")
		if err != nil {
			verifhook.Install(nil)
			return "", nil, err
		}
		select {
		case <-arrived:
		case <-time.After(5 * time.Second):
			verifhook.Install(nil)
			close(hold)
			return "", nil, fmt.Errorf("duplicate-name scenario: first registration did not reach the gate")
		}
		cB, err := mk("M21;")
		if err != nil {
			verifhook.Install(nil)
			close(hold)
			return "", nil, err
		}
		okB, etxt := waitProxy(cB, name, 5*time.Second)
		cB.Close()
		close(hold)
		verifhook.Install(nil)
		okA, _ := waitProxy(cA, name, 5*time.Second)
		if okB || etxt == "timeout" || !okA {
			cA.Close()
			return "", nil, fmt.Errorf("duplicate-name scenario: first running=%v, second running=%v (%s)", okA, okB, etxt)
		}
		reqs = append(reqs, Req{Op: "join", M: 20, Group: gd, Key: 1, Par: parD, Mux: true, OS: true, Lis: true})
		thr = append(thr, [2]int{sMember, 0})
		reqs = append(reqs, Req{Op: "join", M: 20, Group: gd, Key: 1, Par: parD, Mux: true, OS: true, Lis: true})
		thr = append(thr, [2]int{sRefused, errCode(etxt)})
		time.Sleep(100 * time.Millisecond)
		req, _ := http.NewRequest("GET", fmt.Sprintf("http://%s:%d/", sysAddr, vhostPort), nil)
		req.Host = domainD
		cl := &http.Client{Timeout: 3 * time.Second, Transport: &http.Transport{DisableKeepAlives: true}}
		out := [2]int{sCStranded, 0}
		if resp, err := cl.Do(req); err == nil {
			if resp.StatusCode == 404 {
				out = [2]int{sCRefused, 0}
			} else if m := readLabel(bufio.NewReader(resp.Body)); m >= 0 {
				out = [2]int{sCTo, m}
			}
			resp.Body.Close()
		}
		if out[0] != sCTo {
			fails = append(fails, map[string]any{"key": "C13:sys:http:refused-duplicate-removed-incumbent",
				"what": "whole frps: after a same-name duplicate of an http group proxy was refused, a request to the group is no longer answered although the first proxy is running", "case": groupD})
		}
		reqs = append(reqs, Req{Op: "conn", R: []int{gd, 0, 0}})
		thr = append(thr, out)
		dist["sys-duplicate-name-refused:"+kn]++
		cA.Close()
		time.Sleep(200 * time.Millisecond)
	}

	rs := make([]string, len(reqs))
	for i, r := range reqs {
		rs[i] = reqCoq(r)
	}
	sc := make([]string, 0, 2*len(reqs))
	for i := range reqs {
		sc = append(sc, fmt.Sprint(i), fmt.Sprint(i))
	}
	ps := make([]string, len(thr))
	for i, p := range thr {
		ps[i] = fmt.Sprintf("(%s, %s)", hx.Z(int64(p[0])), hx.Z(int64(p[1])))
	}
	txt := fmt.Sprintf("CSys %d 1 65535 %s %s%%nat %s", kind, hx.List(rs), hx.List(sc), hx.List(ps))
	return txt, fails, nil
}

// A legacy INI client configuration and the equivalent TOML one, through the real loader: everything a
// group join depends on (group, key, port / domains / locations / route user / credentials / multiplexer)
// must arrive the same.
func legacyIniGroups(dist map[string]int) []map[string]any {
	ini := `[common]
server_addr = 127.0.13.3
server_port = 7000

[t1]
type = tcp
local_port = 8001
remote_port = 21390
group = g-tcp
group_key = k-tcp

[h1]
type = http
local_port = 8002
custom_domains = a.example.com,b.example.com
locations = /x,/y
route_by_http_user = ru
http_user = hu
http_pwd = hp
group = g-http
group_key = k-http

[m1]
type = tcpmux
multiplexer = httpconnect
local_port = 8003
custom_domains = m.example.com
route_by_http_user = mu
http_user = mhu
http_pwd = mhp
group = g-mux
group_key = k-mux
`
	toml := `serverAddr = "127.0.13.3"
serverPort = 7000

[[proxies]]
name = "t1"
type = "tcp"
localPort = 8001
remotePort = 21390
loadBalancer.group = "g-tcp"
loadBalancer.groupKey = "k-tcp"

[[proxies]]
name = "h1"
type = "http"
localPort = 8002
customDomains = ["a.example.com", "b.example.com"]
locations = ["/x", "/y"]
routeByHTTPUser = "ru"
httpUser = "hu"
httpPassword = "hp"
loadBalancer.group = "g-http"
loadBalancer.groupKey = "k-http"

[[proxies]]
name = "m1"
type = "tcpmux"
multiplexer = "httpconnect"
localPort = 8003
customDomains = ["m.example.com"]
routeByHTTPUser = "mu"
httpUser = "mhu"
httpPassword = "mhp"
loadBalancer.group = "g-mux"
loadBalancer.groupKey = "k-mux"
`
	dir, err := os.MkdirTemp("", "c13ini")
	if err != nil {
		return nil
	}
	defer os.RemoveAll(dir)
	load := func(name, content string) map[string][]any {
		p := filepath.Join(dir, name)
		if os.WriteFile(p, []byte(content), 0o644) != nil {
			return nil
		}
		_, pxys, _, _, err := config.LoadClientConfig(p, false)
		if err != nil {
			return map[string][]any{"load-error": {err.Error()}}
		}
		out := map[string][]any{}
		for _, pc := range pxys {
			b := pc.GetBaseConfig()
			v := []any{b.Type, b.LoadBalancer.Group, b.LoadBalancer.GroupKey}
			switch x := pc.(type) {
			case *v1.TCPProxyConfig:
				v = append(v, x.RemotePort)
			case *v1.HTTPProxyConfig:
				v = append(v, x.CustomDomains, x.Locations, x.RouteByHTTPUser, x.HTTPUser, x.HTTPPassword)
			case *v1.TCPMuxProxyConfig:
				v = append(v, x.CustomDomains, x.RouteByHTTPUser, x.HTTPUser, x.HTTPPassword, x.Multiplexer)
			}
			out[b.Name] = v
		}
		return out
	}
	a, b := load("frpc.ini", ini), load("frpc.toml", toml)
	dist["legacy-ini-group-proxies-compared"] = len(b)
	if len(b) == 3 && reflect.DeepEqual(a, b) {
		return nil
	}
	return []map[string]any{{"key": "C13:legacy-ini:group-join-parameters-differ",
		"what": fmt.Sprintf("a legacy INI configuration and the equivalent TOML one give group proxies different join parameters: ini %v toml %v", a, b),
		"case": "legacyIniGroups"}}
}
