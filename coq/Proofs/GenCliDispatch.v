(* Definitions only (no obligations): today's client handler registration table as a function, shared by the
   correspondence (which must keep compiling when an obligation about the table breaks) and the proofs. *)
From FRP Require Import Model.CliDispatch gen.GenBackoffOpts.

(* registerMsgHandlers as read from client/control.go by translator unit t14 *)
Definition gen_cli_async (m : cmsg) : bool :=
  match m with
  | MPong _ => gen_cli_async_pong
  | MReqWorkConn => gen_cli_async_reqworkconn
  | MNewProxyResp => gen_cli_async_newproxyresp
  | MNatHoleResp => gen_cli_async_natholeresp
  end.
