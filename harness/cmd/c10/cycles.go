package main

// Driver "cycles" (C10): one frps, the same eleven proxy names (one of every kind) registered by a
// fresh session and torn down again, thirty times.  Even cycles close every proxy and then drop the
// connection, odd cycles just drop it.  The whole history is ONE model case; the observation after
// every cycle must equal the one after the first.  Besides the tables the driver samples
// runtime.NumGoroutine() and the number of open file descriptors after each cycle (runtime observation
// with a tolerance, not a model statement).  A second case does the same with server-side bandwidth
// limits on the udp and http proxies and one served work connection each per cycle, so that the
// wrapper stacks are built and torn down every time.

import (
	"fmt"
	"net"
	"os"
	"runtime"
	"strconv"
	"time"

	"github.com/fatedier/frp/pkg/config/types"

	"verifharness/hx"
)

func init() { drivers["cycles"] = runCycles }

func cycleReqs(bw bool) []preq {
	return []preq{
		{kind: "tcp", name: "c-tcp", port: basePort + 1},
		{kind: "http", name: "c-http", domains: []string{"c1.test", "c2.test"}, bw: bw},
		{kind: "https", name: "c-https", domains: []string{"c3.test"}, sub: "cs"},
		{kind: "tcpmux", name: "c-mux", domains: []string{"c4.test"}},
		{kind: "stcp", name: "c-stcp"},
		{kind: "sudp", name: "c-sudp"},
		{kind: "xtcp", name: "c-xtcp"},
		{kind: "tcp", name: "c-gtcp", port: basePort + 3, group: "cg", gkey: "k"},
		{kind: "http", name: "c-ghttp", group: "cg", gkey: "k", domains: []string{"c5.test"}, locs: []string{"/g"}},
		{kind: "tcpmux", name: "c-gmux", group: "cg", gkey: "k", domains: []string{"c6.test"}},
		// last: a udp proxy asks for a work connection 500 ms after its registration and would take a
		// pooled one; in the plain case the session is over long before that
		{kind: "udp", name: "c-udp", port: basePort + 2, bw: bw},
	}
}

func countFDs() int {
	es, err := os.ReadDir("/proc/self/fd")
	if err != nil {
		return -1
	}
	return len(es)
}

func avg(xs []int) float64 {
	if len(xs) == 0 {
		return 0
	}
	s := 0
	for _, x := range xs {
		s += x
	}
	return float64(s) / float64(len(xs))
}

// settle: the goroutines of closed udp proxies sleep up to 1.5 s before they notice (500 ms before the
// first work connection request, 1 s after a failed one): wait that long, then until the number of
// goroutines has not changed for 300 ms (at most 3 s more)
func settle() (int, int) {
	time.Sleep(1600 * time.Millisecond)
	last, since := runtime.NumGoroutine(), time.Now()
	deadline := time.Now().Add(3 * time.Second)
	for time.Now().Before(deadline) && time.Since(since) < 300*time.Millisecond {
		time.Sleep(25 * time.Millisecond)
		if n := runtime.NumGoroutine(); n != last {
			last, since = n, time.Now()
		}
	}
	runtime.GC()
	return runtime.NumGoroutine(), countFDs()
}

type cycleOut struct {
	settledG   []int
	settledF   []int
	text       string
	oks        int
	goroutines []int
	fds        []int
	steps      int
}

func runCycleCase(seed int64, tag string, addr string, cycles int, serve bool, rec *recorder) (cycleOut, error) {
	out := cycleOut{}
	ranges := []types.PortsRange{{Start: basePort, End: basePort + 5}}
	w, err := newWorld(worldOpts{addr: addr, ranges: ranges, maxp: 0, runTag: fmt.Sprintf("%d-%s", seed, tag), label: "cycles:" + tag, rec: rec})
	if err != nil {
		return out, err
	}
	defer w.shutdown()
	reqs := cycleReqs(serve)
	first := -1
	for cy := 1; cy <= cycles && !w.broken; cy++ {
		c := w.login()
		if w.broken {
			break
		}
		var served []net.Conn
		for _, q := range reqs {
			code := w.newProxy(c, q, npOpts{})
			if w.broken {
				break
			}
			if code < 0 {
				w.fail("reregister-refused:cycles:"+q.kind, fmt.Sprintf("cycle %d: registering %s again was refused (code %d)", cy, q.name, code))
			}
			if serve && q.kind == "http" && q.group == "" && code >= 0 {
				if wc, ok := w.serveHTTP(c, q.domains[0], "", q.name); ok {
					served = append(served, wc)
				} else {
					w.fail("http-request-not-served:cycles", fmt.Sprintf("cycle %d: request not forwarded", cy))
				}
			}
		}
		if w.broken {
			break
		}
		if serve {
			// the udp proxy asks for its work connection about 500 ms after the registration
			if wc, why := w.serveUDP(c, "c-udp"); wc != nil {
				served = append(served, wc)
			} else {
				w.fail("udp-workconn-not-requested:cycles", fmt.Sprintf("cycle %d: the udp proxy did not take the offered work connection: %s", cy, why))
			}
		}
		// pooled work connections nobody needs.  With a udp proxy that holds a work connection they are
		// offered only in the drop-only cycles: CloseProxy of such a proxy on a live session lets its Run
		// loop take one more connection out of the pool after the proxy is closed (driver udprace).
		if !serve || cy%2 == 1 {
			w.offerPooled(c)
			w.offerPooled(c)
		}
		if cy%2 == 0 {
			for _, q := range reqs {
				w.closeProxy(c, q.name)
			}
		}
		w.end(c, "CDrop")
		for _, wc := range served {
			if !hx.ConnClosedWithin(wc, 2*time.Second) {
				w.fail("workconn-not-closed:cycles", fmt.Sprintf("cycle %d: a served work connection is still open 2 s after its proxy terminated", cy))
			}
			wc.Close()
		}
		if first < 0 {
			first = w.last()
		} else {
			w.pair(first, w.last())
		}
		time.Sleep(50 * time.Millisecond)
		runtime.GC()
		if d := os.Getenv("C10_GDUMP"); d != "" && (cy == 3 || cy == 15) {
			buf := make([]byte, 4<<20)
			n := runtime.Stack(buf, true)
			_ = os.WriteFile(fmt.Sprintf("%s/g_%s_%d.txt", d, tag, cy), buf[:n], 0o644)
		}
		out.goroutines = append(out.goroutines, runtime.NumGoroutine())
		out.fds = append(out.fds, countFDs())
		// growth is judged on settled samples: after a third of the cycles and after the last one
		if cy == cycles/3 || cy == cycles {
			g, f := settle()
			out.settledG = append(out.settledG, g)
			out.settledF = append(out.settledF, f)
		}
	}
	out.text = w.caseText()
	out.oks = w.oks
	out.steps = len(w.steps)
	if len(out.settledG) == 2 && cycles >= 9 {
		gg := out.settledG[1] - out.settledG[0]
		fg := out.settledF[1] - out.settledF[0]
		if gg > 8 {
			w.rec.fail("cycles-goroutine-growth", fmt.Sprintf("goroutines grew by %d between cycle %d and cycle %d, both sampled after quiescence (%s; runtime observation, tolerance 8)", gg, cycles/3, cycles, tag), fmt.Sprint(out.settledG, out.goroutines))
		}
		if fg > 8 {
			w.rec.fail("cycles-fd-growth", fmt.Sprintf("open file descriptors grew by %d between cycle %d and cycle %d, both sampled after quiescence (%s; runtime observation, tolerance 8)", fg, cycles/3, cycles, tag), fmt.Sprint(out.settledF, out.fds))
		}
	}
	return out, nil
}

func runCycles(cfg *hx.RunCfg) error {
	hx.Quiet()
	rec := newRecorder()
	cycles := 30
	if n, err := strconv.Atoi(cfg.Extra); err == nil && n > 0 && n <= 36 {
		cycles = n // more would push step indices (nat literals) past 1000
	}
	plain, err := runCycleCase(cfg.Seed, "plain", loop(5), cycles, false, rec)
	if err != nil {
		return err
	}
	// the served case waits 650 ms per cycle for the udp proxy's work connection: 15 cycles in the quick tier
	servedCycles := cycles
	if cfg.Tier != "thorough" && cfg.Extra == "" {
		servedCycles = 15
	}
	served, err := runCycleCase(cfg.Seed, "served", loop(6), servedCycles, true, rec)
	if err != nil {
		return err
	}
	cf := &hx.CaseFile{Imports: coqImports, Typ: "case", Tail: caseTail(), Cases: []string{plain.text, served.text}}
	nontrivial := 0
	if plain.oks > 0 {
		nontrivial++
	}
	if served.oks > 0 && served.text != plain.text {
		nontrivial++
	}
	cfg.St["cases"] = 2
	cfg.St["distinct_nontrivial"] = nontrivial
	cfg.St["samples"] = []string{truncate(plain.text, 1500), truncate(served.text, 1500)}
	cfg.St["distribution"] = map[string]int{"cycles": cycles, "steps:plain": plain.steps, "steps:served": served.steps,
		"registrations:plain": plain.oks, "registrations:served": served.oks}
	cfg.St["goroutines"] = map[string][]int{"plain": plain.goroutines, "served": served.goroutines}
	cfg.St["fds"] = map[string][]int{"plain": plain.fds, "served": served.fds}
	cfg.St["settled"] = map[string][]int{"goroutines:plain": plain.settledG, "goroutines:served": served.settledG,
		"fds:plain": plain.settledF, "fds:served": served.settledF}
	cfg.St["note"] = "goroutines/fds: one raw sample per cycle (50 ms after the cycle; goroutines of closed udp proxies linger up to 1.5 s, so the raw series ramps up and then stays flat); growth is judged on the two settled samples (after a third of the cycles and after the last)"
	cfg.St["impl_failures"] = rec.failures
	return cf.Write(cfg.Out)
}
