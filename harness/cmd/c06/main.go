// Correspondence drivers of property C06 (virtual-host routing picks the most specific route).
package main

import (
	"verifharness/hx"

	"github.com/fatedier/frp/pkg/util/log"
)

var drivers = map[string]hx.DriverFn{}

func main() {
	log.InitLogger("/dev/null", "error", 0, true)
	hx.Main(drivers)
}
