package main

// T7F (second unit of this binary, it shares the struct tables of T3): pkg/config/flags.go -> GenFlags.v
//
// Every flag binding of RegisterProxyFlags / RegisterVisitorFlags / RegisterClientCommonConfigFlags /
// RegisterServerConfigFlags, flattened per flag set ("proxy:<Struct>" for each case of the type switch,
// "visitor", "client", "server"): flag name, short name, kind (the pflag method), the struct the path is
// rooted at, the canonical Go field path (promotion through embedded structs resolved), the default as
// written, and whether the binding sits under `if !options.sshMode`.  A statement that is not one of
// the recognised forms becomes an entry of kind "Unknown:<text>", which the reflective checker rejects.

import (
	"veriftranslator/tx"

	"bytes"
	"fmt"
	"go/ast"
	"go/parser"
	"go/token"
	"path/filepath"
	"strconv"
	"strings"
)

type binding struct {
	flag, short, kind string
	root              string
	path              []string
	def               string
	guarded           bool
}

type flagTr struct {
	t     *tr
	funcs map[string]*ast.FuncDecl
}

func lit(e ast.Expr) (string, bool) {
	if bl, ok := e.(*ast.BasicLit); ok && bl.Kind == token.STRING {
		s, err := strconv.Unquote(bl.Value)
		return s, err == nil
	}
	return "", false
}

func typeStruct(e ast.Expr) string {
	s := exprStr(e)
	s = strings.TrimPrefix(s, "*")
	s = strings.TrimPrefix(s, "v1.")
	return s
}

// resolve &x.A.B (or x.A.B) against the variable environment: root struct and canonical path
func (f *flagTr) target(e ast.Expr, vars map[string]string, locals map[string]string) (string, []string, bool) {
	if u, ok := e.(*ast.UnaryExpr); ok && u.Op == token.AND {
		e = u.X
	}
	ev := &env{vars: vars}
	if a, ok := f.t.access(e, ev); ok && len(a.path) > 0 {
		return vars[a.root], a.path, true
	}
	ev2 := &env{vars: locals}
	if a, ok := f.t.access(e, ev2); ok && len(a.path) > 0 {
		return "local:" + locals[a.root] + ":" + locals[a.root], a.path, true // named by its type: renaming the variable is harmless
	}
	return "", nil, false
}

func (f *flagTr) unknown(out *[]binding, n ast.Node, guarded bool) {
	var b bytes.Buffer
	switch x := n.(type) {
	case ast.Stmt:
		b.WriteString((&tr{}).stmtText(x))
	case ast.Expr:
		b.WriteString(exprStr(x))
	}
	*out = append(*out, binding{kind: "Unknown:" + tx.Sanitize(b.String()), guarded: guarded})
}

func isFlagSetCall(e ast.Expr) bool {
	// cmd.Flags() or cmd.PersistentFlags()
	ce, ok := e.(*ast.CallExpr)
	if !ok || len(ce.Args) != 0 {
		return false
	}
	se, ok := ce.Fun.(*ast.SelectorExpr)
	return ok && (se.Sel.Name == "Flags" || se.Sel.Name == "PersistentFlags")
}

func (f *flagTr) stmts(list []ast.Stmt, vars map[string]string, locals map[string]string, prefixRoot string, prefix []string, guarded bool, out *[]binding, sets map[string][]binding, depth int) {
	add := func(b binding) {
		if prefixRoot != "" && !strings.HasPrefix(b.root, "local:") && !strings.HasPrefix(b.kind, "Unknown:") {
			b.root = prefixRoot
			b.path = append(append([]string{}, prefix...), b.path...)
		}
		b.guarded = b.guarded || guarded
		*out = append(*out, b)
	}
	for _, s := range list {
		switch x := s.(type) {
		case *ast.ExprStmt:
			ce, ok := x.X.(*ast.CallExpr)
			if !ok {
				f.unknown(out, s, guarded)
				continue
			}
			// another register function
			if id, ok := ce.Fun.(*ast.Ident); ok {
				fd := f.funcs[id.Name]
				if fd == nil || len(ce.Args) < 2 || depth > 3 {
					f.unknown(out, s, guarded)
					continue
				}
				// the callee's second parameter
				pn := fd.Type.Params.List[1].Names[0].Name
				ps := typeStruct(fd.Type.Params.List[1].Type)
				var root string
				var path []string
				arg := ce.Args[1]
				if c2, ok := arg.(*ast.CallExpr); ok && len(c2.Args) == 0 {
					if se, ok := c2.Fun.(*ast.SelectorExpr); ok && se.Sel.Name == "GetBaseConfig" {
						// GetBaseConfig returns the embedded base struct
						root, path = "", []string{ps}
					}
				} else if r, p, ok := f.target(arg, vars, locals); ok {
					root, path = r, p
				} else if idc, ok := arg.(*ast.Ident); ok && vars[idc.Name] != "" {
					root, path = vars[idc.Name], nil
				}
				if path == nil && root == "" {
					f.unknown(out, s, guarded)
					continue
				}
				var inner []binding
				f.stmts(fd.Body.List, map[string]string{pn: ps}, map[string]string{}, "", nil, false, &inner, nil, depth+1)
				for _, b := range inner {
					if !strings.HasPrefix(b.kind, "Unknown:") && !strings.HasPrefix(b.root, "local:") {
						if root != "" {
							b.root = root
						} else {
							b.root = "" // filled by the caller's set (path starts at the embedded base)
						}
						b.path = append(append([]string{}, path...), b.path...)
					}
					add(b)
				}
				continue
			}
			se, ok := ce.Fun.(*ast.SelectorExpr)
			if !ok {
				f.unknown(out, s, guarded)
				continue
			}
			// opt(options)
			if !isFlagSetCall(se.X) {
				f.unknown(out, s, guarded)
				continue
			}
			m := se.Sel.Name
			switch {
			case strings.HasSuffix(m, "VarP") && m != "VarP" && len(ce.Args) == 5:
				name, ok1 := lit(ce.Args[1])
				short, ok2 := lit(ce.Args[2])
				root, path, ok3 := f.target(ce.Args[0], vars, locals)
				if !ok1 || !ok2 || !ok3 {
					f.unknown(out, s, guarded)
					continue
				}
				add(binding{flag: name, short: short, kind: strings.TrimSuffix(m, "VarP"), root: root, path: path, def: exprStr(ce.Args[3])})
			case m == "VarP" && len(ce.Args) == 4:
				name, ok1 := lit(ce.Args[1])
				short, ok2 := lit(ce.Args[2])
				u, ok3 := ce.Args[0].(*ast.UnaryExpr)
				if !ok1 || !ok2 || !ok3 {
					f.unknown(out, s, guarded)
					continue
				}
				cl, ok := u.X.(*ast.CompositeLit)
				if !ok {
					f.unknown(out, s, guarded)
					continue
				}
				tn := exprStr(cl.Type)
				done := false
				for _, el := range cl.Elts {
					kv, ok := el.(*ast.KeyValueExpr)
					if !ok {
						continue
					}
					switch exprStr(kv.Key) {
					case "V":
						if root, path, ok := f.target(kv.Value, vars, locals); ok {
							add(binding{flag: name, short: short, kind: "Var:" + tn, root: root, path: path})
							done = true
						}
					case "TrueFunc":
						// func() { X = &local }
						if fl, ok := kv.Value.(*ast.FuncLit); ok && len(fl.Body.List) == 1 {
							if as, ok := fl.Body.List[0].(*ast.AssignStmt); ok && len(as.Lhs) == 1 && len(as.Rhs) == 1 {
								root, path, ok1 := f.target(as.Lhs[0], vars, locals)
								if u2, ok2 := as.Rhs[0].(*ast.UnaryExpr); ok1 && ok2 && u2.Op == token.AND {
									if id, ok := u2.X.(*ast.Ident); ok && locals[id.Name] != "" {
										add(binding{flag: name, short: short, kind: "Var:" + tn + ":TrueFunc:=&local:" + locals[id.Name], root: root, path: path})
										done = true
									}
								}
							}
						}
					}
				}
				if !done {
					f.unknown(out, s, guarded)
				}
			default:
				f.unknown(out, s, guarded)
			}
		case *ast.AssignStmt:
			// options := &registerFlagOptions{}
			if x.Tok == token.DEFINE && len(x.Lhs) == 1 && len(x.Rhs) == 1 {
				if id, ok := x.Lhs[0].(*ast.Ident); ok {
					rs := exprStr(x.Rhs[0])
					if rs == "&registerFlagOptions{...}" {
						continue
					}
					if cl, ok := x.Rhs[0].(*ast.CompositeLit); ok && len(cl.Elts) == 0 {
						sn := typeStruct(cl.Type)
						if f.t.structs[sn] != nil {
							locals[id.Name] = sn
							continue
						}
					}
				}
			}
			// X = cmd.PersistentFlags().BoolP(name, short, default, usage)
			if x.Tok == token.ASSIGN && len(x.Lhs) == 1 && len(x.Rhs) == 1 {
				if ce, ok := x.Rhs[0].(*ast.CallExpr); ok && len(ce.Args) == 4 {
					if se, ok := ce.Fun.(*ast.SelectorExpr); ok && isFlagSetCall(se.X) && strings.HasSuffix(se.Sel.Name, "P") {
						name, ok1 := lit(ce.Args[0])
						short, ok2 := lit(ce.Args[1])
						root, path, ok3 := f.target(x.Lhs[0], vars, locals)
						if ok1 && ok2 && ok3 {
							add(binding{flag: name, short: short, kind: strings.TrimSuffix(se.Sel.Name, "P") + "Ptr", root: root, path: path, def: exprStr(ce.Args[2])})
							continue
						}
					}
				}
			}
			f.unknown(out, s, guarded)
		case *ast.RangeStmt:
			// for _, opt := range opts { opt(options) }
			if exprStr(x.X) == "opts" {
				continue
			}
			f.unknown(out, s, guarded)
		case *ast.IfStmt:
			c := exprStr(x.Cond)
			if x.Init == nil && x.Else == nil && c == "c == nil" && len(x.Body.List) == 1 {
				if _, ok := x.Body.List[0].(*ast.ReturnStmt); ok {
					continue
				}
			}
			if x.Init == nil && x.Else == nil && c == "!options.sshMode" {
				f.stmts(x.Body.List, vars, locals, prefixRoot, prefix, true, out, sets, depth)
				continue
			}
			f.unknown(out, s, guarded)
		case *ast.TypeSwitchStmt:
			// switch cc := c.(type) { case *v1.T: ... }
			as, ok := x.Assign.(*ast.AssignStmt)
			if !ok || sets == nil || len(as.Lhs) != 1 {
				f.unknown(out, s, guarded)
				continue
			}
			vn := as.Lhs[0].(*ast.Ident).Name
			for _, cs := range x.Body.List {
				cc := cs.(*ast.CaseClause)
				if len(cc.List) != 1 {
					f.unknown(out, s, guarded)
					continue
				}
				sn := typeStruct(cc.List[0])
				if f.t.structs[sn] == nil {
					f.unknown(out, s, guarded)
					continue
				}
				var inner []binding
				f.stmts(cc.Body, map[string]string{vn: sn}, locals, "", nil, guarded, &inner, nil, depth)
				sets[sn] = inner
			}
		default:
			f.unknown(out, s, guarded)
		}
	}
}

func genFlags() ([]byte, error) {
	t, err := loadTables()
	if err != nil {
		return nil, err
	}
	file, err := parser.ParseFile(t.fset, filepath.Join(tx.Repo, "pkg/config/flags.go"), nil, 0)
	if err != nil {
		return nil, err
	}
	f := &flagTr{t: t, funcs: map[string]*ast.FuncDecl{}}
	for _, d := range file.Decls {
		if fd, ok := d.(*ast.FuncDecl); ok && fd.Recv == nil && strings.HasPrefix(strings.ToLower(fd.Name.Name), "register") {
			f.funcs[fd.Name.Name] = fd
		}
	}
	type set struct {
		name string
		bs   []binding
	}
	var sets []set
	top := func(fn string) (*ast.FuncDecl, string, string, error) {
		fd := f.funcs[fn]
		if fd == nil || fd.Type.Params == nil || len(fd.Type.Params.List) < 2 || len(fd.Type.Params.List[1].Names) != 1 {
			return nil, "", "", fmt.Errorf("%s not found or unexpected signature", fn)
		}
		return fd, fd.Type.Params.List[1].Names[0].Name, typeStruct(fd.Type.Params.List[1].Type), nil
	}
	// proxies: common part + one set per case of the type switch
	{
		fd, pn, _, err := top("RegisterProxyFlags")
		if err != nil {
			return nil, err
		}
		var common []binding
		cases := map[string][]binding{}
		f.stmts(fd.Body.List, map[string]string{pn: ""}, map[string]string{}, "", nil, false, &common, cases, 0)
		var names []string
		for _, fl := range file.Decls {
			_ = fl
		}
		// keep the order of proxyConfigTypeMap-independent: order of the switch
		ast.Inspect(fd, func(n ast.Node) bool {
			if cc, ok := n.(*ast.CaseClause); ok && len(cc.List) == 1 {
				names = append(names, typeStruct(cc.List[0]))
			}
			return true
		})
		for _, n := range names {
			var bs []binding
			for _, b := range append(append([]binding{}, common...), cases[n]...) {
				if b.root == "" && !strings.HasPrefix(b.kind, "Unknown:") {
					b.root = n
				}
				bs = append(bs, b)
			}
			sets = append(sets, set{"proxy:" + n, bs})
		}
	}
	for _, e := range []struct{ fn, name, root string }{
		{"RegisterVisitorFlags", "visitor", "VisitorBaseConfig"},
		{"RegisterClientCommonConfigFlags", "client", ""},
		{"RegisterServerConfigFlags", "server", ""},
	} {
		fd, pn, ps, err := top(e.fn)
		if err != nil {
			return nil, err
		}
		var bs []binding
		vars := map[string]string{pn: ps}
		if e.root != "" {
			vars = map[string]string{pn: ""}
		}
		f.stmts(fd.Body.List, vars, map[string]string{}, "", nil, false, &bs, map[string][]binding{}, 0)
		for i := range bs {
			if bs[i].root == "" && !strings.HasPrefix(bs[i].kind, "Unknown:") {
				// rooted at the embedded base returned by GetBaseConfig: drop the hop, the set is about the base struct
				bs[i].root = e.root
				if len(bs[i].path) > 0 && bs[i].path[0] == e.root {
					bs[i].path = bs[i].path[1:]
				}
			}
		}
		sets = append(sets, set{e.name, bs})
	}

	var b bytes.Buffer
	b.WriteString("(* GENERATED by translator unit T7F from pkg/config/flags.go -- do not edit *)\n")
	b.WriteString("From FRP Require Import Model.Bytes.\nLocal Open Scope string_scope.\n")
	b.WriteString("Definition T7F_translated : bool := true.\n")
	b.WriteString("(* set -> [(flag, short, kind, root struct, canonical Go path, default as written, under !sshMode)] *)\n")
	b.WriteString("Definition flag_sets : list (string * list (string * string * string * string * list string * string * bool)) := [\n")
	for i, s := range sets {
		fmt.Fprintf(&b, "  (%s, [\n", tx.CoqString(s.name))
		for j, x := range s.bs {
			ps := []string{}
			for _, p := range x.path {
				ps = append(ps, tx.CoqString(p))
			}
			sep := ";"
			if j == len(s.bs)-1 {
				sep = ""
			}
			fmt.Fprintf(&b, "    (%s, %s, %s, %s, [%s], %s, %v)%s\n", tx.CoqString(x.flag), tx.CoqString(x.short), tx.CoqString(x.kind),
				tx.CoqString(x.root), strings.Join(ps, "; "), tx.CoqString(tx.Sanitize(x.def)), x.guarded, sep)
		}
		sep := ";"
		if i == len(sets)-1 {
			sep = ""
		}
		fmt.Fprintf(&b, "  ])%s\n", sep)
	}
	b.WriteString("].\n")
	return b.Bytes(), nil
}
