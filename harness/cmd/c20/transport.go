package main

// Driver "backlog" (C20): the REAL transport.NewMessageTransporter.
// (1) differential: random histories of Send / drain / end-of-dispatcher on a small queue, each observation (Send returned
//     nil, returned the dispatcher-ended error, is still parked, a drain released a parked Send ...) replayed through
//     Model/NatHoleTr.tr_step, which allows exactly what a select { sendCh <- m ; <-doneCh } without default allows;
// (2) the concrete replay: a real Controller whose two controls use real transporters over queues of capacity 100; one
//     party's queue is full of other traffic and its writer is slow; both parties must still receive their NatHoleResp
//     (and a refused visitor its error reply).

import (
	"fmt"
	"io"
	"strings"
	"sync"
	"time"

	"github.com/fatedier/frp/pkg/msg"
	"github.com/fatedier/frp/pkg/nathole"
	"github.com/fatedier/frp/pkg/transport"
	"github.com/fatedier/frp/pkg/util/log"
	"github.com/fatedier/frp/pkg/util/util"

	"verifharness/hx"
)

func init() { drivers["backlog"] = runBacklog }

func trCase(g *hx.Gen, dist map[string]int) string {
	capN := 1 + g.Intn(3)
	sendCh := make(chan msg.Message, capN)
	doneCh := make(chan struct{})
	tr := transport.NewMessageTransporter(sendCh, doneCh)
	var steps []string
	var parked chan error
	done := false
	next := 1
	n := 6 + g.Intn(8)
	for i := 0; i < n; i++ {
		switch k := g.Intn(10); {
		case k < 5 && parked == nil:
			id := next
			next++
			res := make(chan error, 1)
			go func() { res <- tr.Send(&msg.NatHoleResp{TransactionID: fmt.Sprint(id)}) }()
			select {
			case err := <-res:
				switch {
				case err == nil:
					steps = append(steps, fmt.Sprintf("(TrSend %d, TrEnqueued)", id))
					dist["send_enqueued"]++
				case err == io.EOF:
					steps = append(steps, fmt.Sprintf("(TrSend %d, TrClosed)", id))
					dist["send_refused_dispatcher_ended"]++
				default:
					steps = append(steps, fmt.Sprintf("(TrSend %d, TrOther)", id))
					dist["send_other_error:"+err.Error()]++
				}
			case <-time.After(30 * time.Millisecond):
				parked = res
				steps = append(steps, fmt.Sprintf("(TrSend %d, TrParked)", id))
				dist["send_parked"]++
			}
		case k < 8:
			select {
			case m := <-sendCh:
				id := m.(*msg.NatHoleResp).TransactionID
				unparked := false
				if parked != nil {
					select {
					case err := <-parked:
						if err == nil {
							unparked = true
						} else {
							steps = append(steps, "(TrDrain, TrOther)")
							parked = nil
							continue
						}
					case <-time.After(300 * time.Millisecond):
					}
					if unparked {
						parked = nil
						dist["drain_released_parked_send"]++
					}
				}
				steps = append(steps, fmt.Sprintf("(TrDrain, TrDrained %s %s)", id, hx.Bool(unparked)))
			default:
				steps = append(steps, "(TrDrain, TrEmpty)")
			}
		default:
			if done {
				continue
			}
			close(doneCh)
			done = true
			released := false
			if parked != nil {
				select {
				case err := <-parked:
					released = err == io.EOF
				case <-time.After(300 * time.Millisecond):
				}
				parked = nil
				dist["done_released_parked_send"]++
			}
			steps = append(steps, fmt.Sprintf("(TrDone, TrDoneObs %s)", hx.Bool(released)))
		}
	}
	return fmt.Sprintf("CTr %d %s", capN, hx.List(steps))
}

// one party's control: a real transporter over a queue of capacity 100, a writer that starts late
type realCtl struct {
	ch    chan msg.Message
	tr    transport.MessageTransporter
	mu    sync.Mutex
	resps []*msg.NatHoleResp
}

func newRealCtl(prefill int, writerDelay time.Duration) *realCtl {
	c := &realCtl{ch: make(chan msg.Message, 100)}
	c.tr = transport.NewMessageTransporter(c.ch, make(chan struct{}))
	for i := 0; i < prefill; i++ {
		c.ch <- &msg.ReqWorkConn{}
	}
	go func() {
		time.Sleep(writerDelay)
		for m := range c.ch {
			if r, ok := m.(*msg.NatHoleResp); ok {
				c.mu.Lock()
				c.resps = append(c.resps, r)
				c.mu.Unlock()
			}
			time.Sleep(200 * time.Microsecond) // a slow link
		}
	}()
	return c
}

func (c *realCtl) got() []*msg.NatHoleResp {
	c.mu.Lock()
	defer c.mu.Unlock()
	return append([]*msg.NatHoleResp(nil), c.resps...)
}

func backlogScenario(i int, dist map[string]int, mu *sync.Mutex) []map[string]string {
	var fails []map[string]string
	nc, _ := nathole.NewController(time.Hour)
	sidCh, _ := nc.ListenClient("p", "sk", []string{"*"})
	vFill, cFill := 0, 0
	switch i % 3 {
	case 0:
		vFill = 100
	case 1:
		cFill = 100
	default:
		vFill, cFill = 100, 100
	}
	v, c := newRealCtl(vFill, 400*time.Millisecond), newRealCtl(cFill, 400*time.Millisecond)
	ts := int64(1700000000)
	mapped := [][]string{{"1.2.3.4:4000", "1.2.3.4:4000"}, {"1.2.3.4:4000", "1.2.3.4:4003"}}[(i/3)%2]
	desc := fmt.Sprintf("visitor queue prefilled with %d, owner queue with %d messages, writers start after 400 ms; visitor mapped %v", vFill, cFill, mapped)
	// a refused request on the (possibly full) visitor control: the error reply must arrive too
	go nc.HandleVisitor(&msg.NatHoleVisitor{TransactionID: "tv-bad", ProxyName: "p", SignKey: "wrong", Timestamp: ts, MappedAddrs: mapped}, v.tr, "u")
	go nc.HandleVisitor(&msg.NatHoleVisitor{TransactionID: "tv", ProxyName: "p", Protocol: "quic", SignKey: util.GetAuthKey("sk", ts), Timestamp: ts, MappedAddrs: mapped}, v.tr, "u")
	var sid string
	select {
	case sid = <-sidCh:
	case <-time.After(3 * time.Second):
		return []map[string]string{{"key": "backlog-no-sid", "what": "no sid within 3 s", "case": desc}}
	}
	nc.HandleClient(&msg.NatHoleClient{TransactionID: "tc", ProxyName: "p", Sid: sid, MappedAddrs: []string{"5.6.7.8:80", "5.6.7.8:80"}}, c.tr)
	deadline := time.Now().Add(5 * time.Second)
	var vr, cr, bad *msg.NatHoleResp
	for time.Now().Before(deadline) {
		vr, cr, bad = nil, nil, nil
		for _, r := range v.got() {
			switch r.TransactionID {
			case "tv":
				vr = r
			case "tv-bad":
				bad = r
			}
		}
		for _, r := range c.got() {
			if r.TransactionID == "tc" {
				cr = r
			}
		}
		if vr != nil && cr != nil && bad != nil {
			break
		}
		time.Sleep(10 * time.Millisecond)
	}
	mu.Lock()
	dist["backlog_scenarios"]++
	mu.Unlock()
	if vr == nil || cr == nil {
		fails = append(fails, map[string]string{"key": "response-dropped-on-backlog",
			"what": fmt.Sprintf("the NatHoleResp was not delivered to both controls within 5 s: visitor got %+v, owner got %+v", vr, cr), "case": desc})
	} else if vr.Sid != sid || cr.Sid != sid || vr.DetectBehavior.Mode != cr.DetectBehavior.Mode {
		fails = append(fails, map[string]string{"key": "sid-or-mode-differs", "what": "responses disagree", "case": desc})
	}
	if bad == nil || !strings.Contains(bad.Error, "auth failed") {
		fails = append(fails, map[string]string{"key": "reply-dropped-on-backlog",
			"what": fmt.Sprintf("the error reply to a refused visitor request was not delivered within 5 s: %+v", bad), "case": desc})
	}
	return fails
}

const backlogTail = `
Definition M := Eval vm_compute in mismatches check_case cases.
Print M.
Definition NTRENQUEUED := Eval vm_compute in sum_by (tr_obs_kind 0) cases.
Print NTRENQUEUED.
Definition NTRCLOSED := Eval vm_compute in sum_by (tr_obs_kind 1) cases.
Print NTRCLOSED.
Definition NTRPARKED := Eval vm_compute in sum_by (tr_obs_kind 2) cases.
Print NTRPARKED.
Definition NTRUNPARKED := Eval vm_compute in sum_by (tr_obs_kind 3) cases.
Print NTRUNPARKED.
Definition NTRRELEASED := Eval vm_compute in sum_by (tr_obs_kind 4) cases.
Print NTRRELEASED.
`

func runBacklog(cfg *hx.RunCfg) error {
	log.InitLogger("/dev/null", "error", 0, true)
	nathole.NatHoleTimeout = 5
	dist := map[string]int{}
	var mu sync.Mutex
	var fails []map[string]string
	var wg sync.WaitGroup
	for i := 0; i < 6; i++ {
		wg.Add(1)
		go func(i int) {
			defer wg.Done()
			f := backlogScenario(i, dist, &mu)
			mu.Lock()
			fails = append(fails, f...)
			mu.Unlock()
		}(i)
	}
	cases := make([]string, cfg.N)
	var wg2 sync.WaitGroup
	dists := make([]map[string]int, cfg.N)
	for i := 0; i < cfg.N; i++ {
		wg2.Add(1)
		go func(i int) {
			defer wg2.Done()
			dists[i] = map[string]int{}
			cases[i] = trCase(hx.NewGen(cfg.Seed*104729+int64(i)), dists[i])
		}(i)
	}
	wg2.Wait()
	wg.Wait()
	for _, d := range dists {
		for k, v := range d {
			dist[k] += v
		}
	}
	cf := &hx.CaseFile{Imports: "From FRP Require Import Corr.C20.\nOpen Scope Z_scope.\n", Typ: "case", Cases: cases, Tail: backlogTail}
	if err := cf.Write(cfg.Out); err != nil {
		return err
	}
	cfg.St["cases"] = len(cases) + 6
	cfg.St["distinct_nontrivial"] = len(cases)
	cfg.St["distribution"] = dist
	cfg.St["samples"] = []map[string]string{{"case": cases[0]}}
	if fails == nil {
		fails = []map[string]string{}
	}
	cfg.St["impl_failures"] = fails
	return nil
}
