(* C09 — proofs about Model/Ports.v (ports.Manager). *)
From Coq Require Import Lia ZifyBool ZifyNat.
From FRP Require Import Model.Ports.
Open Scope Z_scope.

(* ---------- list-set lemmas ---------- *)
Lemma zmem_In : forall x l, zmem x l = true <-> In x l.
Proof.
  induction l as [|y r IH]; simpl; [split; [discriminate|tauto]|].
  destruct (Z.eqb_spec x y) as [->|N]; simpl; [tauto|].
  rewrite IH. split; [tauto|]. intros [E|H]; [congruence|exact H].
Qed.

Lemma zmem_false : forall x l, zmem x l = false <-> ~ In x l.
Proof.
  intros x l. rewrite <- zmem_In. destruct (zmem x l); split; intros H; congruence.
Qed.

Lemma zrem_In : forall x y l, In y (zrem x l) <-> In y l /\ y <> x.
Proof.
  induction l as [|z r IH]; simpl; [tauto|].
  destruct (Z.eqb_spec x z) as [->|N]; simpl; rewrite IH; [|].
  - split; [tauto|]. intros [[E|H] D]; [congruence|tauto].
  - split; [intros [E|[H D]]; [subst; split; [tauto|congruence]|tauto]|tauto].
Qed.

Lemma zrem_NoDup : forall x l, NoDup l -> NoDup (zrem x l).
Proof.
  induction l as [|z r IH]; simpl; intros H; [constructor|].
  inversion H as [|? ? Hn Hr]; subst.
  destruct (Z.eqb_spec x z); [auto|].
  constructor; [|auto]. rewrite zrem_In. tauto.
Qed.

Lemma zadd_In : forall x y l, In y (zadd x l) <-> y = x \/ In y l.
Proof.
  intros x y l. unfold zadd. destruct (zmem x l) eqn:E.
  - apply zmem_In in E. split; [tauto|]. intros [->|H]; assumption.
  - simpl. split; intros [H|H]; auto.
Qed.

Lemma zadd_NoDup : forall x l, NoDup l -> NoDup (zadd x l).
Proof.
  intros x l H. unfold zadd. destruct (zmem x l) eqn:E; [assumption|].
  apply zmem_false in E. constructor; assumption.
Qed.

Lemma dedup_In : forall y l, In y (fold_right zadd [] l) <-> In y l.
Proof.
  induction l as [|x r IH]; simpl; [tauto|]. rewrite zadd_In, IH. split; intros [H|H]; auto.
Qed.

Lemma dedup_NoDup : forall l, NoDup (fold_right zadd [] l).
Proof. induction l; simpl; [constructor|apply zadd_NoDup; assumption]. Qed.

Lemma uget_udel_eq : forall p u, uget p (udel p u) = None.
Proof.
  induction u as [|[q n] r IH]; simpl; [reflexivity|].
  destruct (Z.eqb_spec p q) as [->|N]; [exact IH|]. simpl.
  destruct (Z.eqb_spec p q); [congruence|exact IH].
Qed.

Lemma uget_udel_neq : forall p q u, q <> p -> uget q (udel p u) = uget q u.
Proof.
  induction u as [|[z n] r IH]; simpl; intros N; [reflexivity|].
  destruct (Z.eqb_spec p z) as [->|N2].
  - destruct (Z.eqb_spec q z); [congruence|auto].
  - simpl. destruct (Z.eqb_spec q z); [reflexivity|auto].
Qed.

Lemma uget_uset_eq : forall p n u, uget p (uset p n u) = Some n.
Proof. intros. unfold uset. simpl. rewrite Z.eqb_refl. reflexivity. Qed.

Lemma uget_uset_neq : forall p q n u, q <> p -> uget q (uset p n u) = uget q u.
Proof.
  intros. unfold uset. simpl. destruct (Z.eqb_spec q p); [congruence|].
  apply uget_udel_neq; assumption.
Qed.

Lemma rget_rdel_eq : forall n r, rget n (rdel n r) = None.
Proof.
  induction r as [|[m p] t IH]; simpl; [reflexivity|].
  destruct (String.eqb_spec n m) as [->|N]; [exact IH|]. simpl.
  destruct (String.eqb_spec n m); [congruence|exact IH].
Qed.

Lemma rget_rdel_neq : forall n m r, m <> n -> rget m (rdel n r) = rget m r.
Proof.
  induction r as [|[z p] t IH]; simpl; intros N; [reflexivity|].
  destruct (String.eqb_spec n z) as [->|N2].
  - destruct (String.eqb_spec m z); [congruence|auto].
  - simpl. destruct (String.eqb_spec m z); [reflexivity|auto].
Qed.

Lemma rget_rset_eq : forall n p r, rget n (rset n p r) = Some p.
Proof. intros. unfold rset. simpl. rewrite String.eqb_refl. reflexivity. Qed.

Lemma rget_rset_neq : forall n m p r, m <> n -> rget m (rset n p r) = rget m r.
Proof.
  intros. unfold rset. simpl. destruct (String.eqb_spec m n); [congruence|].
  apply rget_rdel_neq; assumption.
Qed.

Lemma rget_rdel_some : forall n m r p, rget m (rdel n r) = Some p -> rget m r = Some p.
Proof.
  intros n m r p H. destruct (String.eqb_spec m n) as [->|N].
  - rewrite rget_rdel_eq in H. discriminate.
  - rewrite rget_rdel_neq in H; assumption.
Qed.

Ltac psimpl := cbn [pm_free pm_used pm_res pm_take pm_clean].
Tactic Notation "psimpl" "in" hyp(H) := cbn [pm_free pm_used pm_res pm_take pm_clean] in H.

(* ---------- the partition invariant ---------- *)
Definition used_by (s : pm) (p : Z) : Prop := uget p (pm_used s) <> None.

Record PInv (A : list Z) (s : pm) : Prop := {
  pi_nodup : NoDup (pm_free s);
  pi_disj : forall p, In p (pm_free s) -> uget p (pm_used s) = None;
  pi_cover : forall p, In p A <-> (In p (pm_free s) \/ used_by s p);
  pi_res : forall n p, rget n (pm_res s) = Some p -> In p A
}.

Lemma pinv_new : forall ranges, PInv (pm_allowed ranges) (pm_new ranges).
Proof.
  intros ranges. unfold pm_new. constructor; simpl.
  - apply dedup_NoDup.
  - reflexivity.
  - intros p. rewrite dedup_In. unfold used_by. simpl. split; [auto|]. intros [H|H]; [assumption|congruence].
  - discriminate.
Qed.

Lemma pinv_take : forall A s n p, PInv A s -> In p A -> PInv A (pm_take s n p).
Proof.
  intros A s n p [Hn Hd Hc Hr] HA. constructor; psimpl.
  - apply zrem_NoDup; assumption.
  - intros q Hq. apply zrem_In in Hq. destruct Hq as [Hq Ne].
    rewrite uget_uset_neq by assumption. auto.
  - intros q. unfold used_by. psimpl. destruct (Z.eq_dec q p) as [->|Ne].
    + rewrite uget_uset_eq. split; [right; discriminate|auto].
    + rewrite uget_uset_neq by assumption. rewrite zrem_In. rewrite (Hc q). unfold used_by. tauto.
  - intros m q H. destruct (String.eqb_spec m n) as [->|Ne].
    + rewrite rget_rset_eq in H. congruence.
    + rewrite rget_rset_neq in H by assumption. eauto.
Qed.

Lemma pinv_release : forall A s p, PInv A s -> PInv A (pm_release s p).
Proof.
  intros A s p [Hn Hd Hc Hr]. unfold pm_release. destruct (uget p (pm_used s)) eqn:E; [|constructor; assumption].
  constructor; psimpl.
  - apply zadd_NoDup; assumption.
  - intros q Hq. apply zadd_In in Hq. destruct (Z.eq_dec q p) as [->|Ne].
    + apply uget_udel_eq.
    + rewrite uget_udel_neq by assumption. destruct Hq; [congruence|auto].
  - intros q. unfold used_by. psimpl. rewrite zadd_In. destruct (Z.eq_dec q p) as [->|Ne].
    + rewrite uget_udel_eq. split; [auto|]. intros _. apply Hc. right. unfold used_by. congruence.
    + rewrite uget_udel_neq by assumption. rewrite (Hc q). unfold used_by. tauto.
  - assumption.
Qed.

Lemma pinv_clean : forall A s n, PInv A s -> PInv A (pm_clean s n).
Proof.
  intros A s n [Hn Hd Hc Hr]. constructor; psimpl; try assumption.
  intros m q H. apply rget_rdel_some in H. eauto.
Qed.

Lemma pinv_free_allowed : forall A s p, PInv A s -> In p (pm_free s) -> In p A.
Proof. intros A s p H Hp. apply (pi_cover _ _ H). auto. Qed.

Lemma pinv_random : forall A probe ch s n s' r,
  PInv A s -> pm_random probe ch s n = Some (s', r) -> PInv A s'.
Proof.
  intros A probe ch s n s' r HI H. unfold pm_random in H. destruct ch as [k|].
  - destruct (zmem k (pm_free s) && probe k) eqn:E; [|discriminate].
    apply andb_prop in E. destruct E as [E1 E2]. apply zmem_In in E1.
    assert (In k A) by (eapply pinv_free_allowed; eauto).
    destruct (k =? 0); inversion H; subst; apply pinv_take; assumption.
  - destruct (pm_noavail_legal probe (pm_free s)); inversion H; subst; assumption.
Qed.

Lemma pinv_acquire : forall A probe ch s n port s' r,
  PInv A s -> pm_acquire probe ch s n port = Some (s', r) -> PInv A s'.
Proof.
  intros A probe ch s n port s' r HI H. unfold pm_acquire in H.
  destruct (port =? 0).
  - destruct (rget n (pm_res s)) as [rp|] eqn:ER.
    + destruct (zmem rp (pm_free s) && probe rp).
      * inversion H; subst. apply pinv_take; [assumption|]. eapply pi_res; eauto.
      * eapply pinv_random; eauto.
    + eapply pinv_random; eauto.
  - destruct (zmem port (pm_free s)) eqn:EM.
    + apply zmem_In in EM. destruct (probe port); inversion H; subst; [|assumption].
      apply pinv_take; [assumption|]. eapply pinv_free_allowed; eauto.
    + destruct (uget port (pm_used s)); inversion H; subst; assumption.
Qed.

Lemma pinv_step : forall A s o s' out, PInv A s -> pm_step s o = Some (s', out) -> PInv A s'.
Proof.
  intros A s o s' out HI H. destruct o as [n port probe ch|port|n]; simpl in H.
  - destruct (pm_acquire probe ch s n port) as [[s1 r]|] eqn:E; [|discriminate].
    inversion H; subst. eapply pinv_acquire; eauto.
  - inversion H; subst. apply pinv_release; assumption.
  - inversion H; subst. apply pinv_clean; assumption.
Qed.

Lemma pinv_run : forall A ops s s', PInv A s -> pm_run ops s = Some s' -> PInv A s'.
Proof.
  induction ops as [|o r IH]; simpl; intros s s' HI H; [inversion H; subst; assumption|].
  destruct (pm_step s o) as [[s1 out]|] eqn:E; [|discriminate].
  eapply IH; [|eassumption]. eapply pinv_step; eauto.
Qed.

(* every history, every oracle: free and used partition the allowed set *)
Theorem ports_partition_inv : forall ranges ops s,
  pm_run ops (pm_new ranges) = Some s ->
  let A := pm_allowed ranges in
  NoDup (pm_free s) /\
  (forall p, ~ (In p (pm_free s) /\ used_by s p)) /\
  (forall p, In p A <-> In p (pm_free s) \/ used_by s p) /\
  (forall n p, rget n (pm_res s) = Some p -> In p A).
Proof.
  intros ranges ops s H A.
  pose proof (pinv_run _ _ _ _ (pinv_new ranges) H) as [Hn Hd Hc Hr].
  repeat split; try assumption; try (apply Hc).
  intros p [H1 H2]. apply H2. auto.
Qed.

(* ---------- NewManager keeps only bindable ports ---------- *)
Lemma zrange_In : forall n st p, In p (zrange st n) <-> st <= p < st + Z.of_nat n.
Proof.
  induction n as [|k IH]; intros st p; simpl zrange.
  - simpl. lia.
  - simpl In. rewrite IH. lia.
Qed.

Lemma pr_expand_valid : forall r p, In p (pr_expand r) -> 1 <= p <= 65535.
Proof.
  intros [[st en] si] p H. unfold pr_expand, pm_min_port, pm_max_port in H.
  destruct (0 <? si) eqn:E1.
  - destruct (si <=? 65535) eqn:E2; [|destruct H]. destruct H as [<-|[]]. lia.
  - apply zrange_In in H. lia.
Qed.

Theorem allowed_valid : forall ranges p, In p (pm_allowed ranges) -> 1 <= p <= 65535.
Proof.
  intros ranges p H. unfold pm_allowed in H. destruct ranges as [|r0 rs].
  - apply zrange_In in H. unfold pm_min_port, pm_max_port in H. lia.
  - apply in_flat_map in H. destruct H as [r [_ H]]. eapply pr_expand_valid; eauto.
Qed.

Lemma allowed_no0 : forall ranges, ~ In 0 (pm_allowed ranges).
Proof. intros ranges H. apply allowed_valid in H. lia. Qed.

Lemma pinv_no0 : forall A s, PInv A s -> ~ In 0 A -> ~ In 0 (pm_free s).
Proof. intros A s HI H0 H. apply H0. eapply pinv_free_allowed; eauto. Qed.

(* ---------- acquire: soundness ---------- *)
(* what a successful Acquire guarantees, for EVERY value of the OS-probe and random-choice oracles:
   every granting branch (reserved, random, specified) takes the port out of the free table, so the
   partition invariant alone makes the port owner-less. *)
Theorem acquire_sound : forall A probe ch s n port s' p,
  PInv A s ->
  pm_acquire probe ch s n port = Some (s', POk p) ->
  In p A /\ In p (pm_free s) /\ ~ used_by s p /\ probe p = true /\
  (port <> 0 -> p = port) /\
  s' = pm_take s n p /\ uget p (pm_used s') = Some n /\ ~ In p (pm_free s') /\ rget n (pm_res s') = Some p.
Proof.
  intros A probe ch s n port s' p HI H.
  assert (G : forall k, In k (pm_free s) -> probe k = true -> s' = pm_take s n k -> p = k ->
              In p A /\ In p (pm_free s) /\ ~ used_by s p /\ probe p = true /\
              s' = pm_take s n p /\ uget p (pm_used s') = Some n /\ ~ In p (pm_free s') /\ rget n (pm_res s') = Some p).
  { intros k Hf Hp -> ->.
    assert (Hnu : ~ used_by s k) by (intros U; apply U; apply (pi_disj _ _ HI); assumption).
    repeat split; try assumption; psimpl.
    - eapply pinv_free_allowed; eauto.
    - apply uget_uset_eq.
    - rewrite zrem_In. tauto.
    - apply rget_rset_eq. }
  unfold pm_acquire in H. destruct (Z.eqb_spec port 0) as [E0|N0].
  - assert (R : pm_random probe ch s n = Some (s', POk p) ->
                In p A /\ In p (pm_free s) /\ ~ used_by s p /\ probe p = true /\ (port <> 0 -> p = port) /\
                s' = pm_take s n p /\ uget p (pm_used s') = Some n /\ ~ In p (pm_free s') /\ rget n (pm_res s') = Some p).
    { unfold pm_random. destruct ch as [k|].
      - destruct (zmem k (pm_free s) && probe k) eqn:E; [|discriminate].
        apply andb_prop in E. destruct E as [E1 E2]. apply zmem_In in E1.
        destruct (k =? 0); intros X; inversion X; subst.
        pose proof (G p E1 E2 eq_refl eq_refl). intuition.
      - destruct (pm_noavail_legal probe (pm_free s)); discriminate. }
    destruct (rget n (pm_res s)) as [rp|] eqn:ER; [|auto].
    destruct (zmem rp (pm_free s) && probe rp) eqn:EP; [|auto].
    apply andb_prop in EP. destruct EP as [EP1 EP2]. apply zmem_In in EP1.
    inversion H; subst.
    pose proof (G p EP1 EP2 eq_refl eq_refl). intuition.
  - destruct (zmem port (pm_free s)) eqn:EM.
    + apply zmem_In in EM. destruct (probe port) eqn:EP; inversion H; subst.
      pose proof (G p EM EP eq_refl eq_refl). intuition.
    + destruct (uget port (pm_used s)); discriminate.
Qed.

(* exclusivity over whole histories, every oracle: a granted port had no owner, every other owner keeps
   its port *)
Theorem acquire_exclusive : forall ranges ops s probe ch n port s' p,
  pm_run ops (pm_new ranges) = Some s ->
  pm_acquire probe ch s n port = Some (s', POk p) ->
  uget p (pm_used s) = None /\ (forall q, q <> p -> uget q (pm_used s') = uget q (pm_used s)).
Proof.
  intros ranges ops s probe ch n port s' p HR H.
  pose proof (pinv_run _ _ _ _ (pinv_new ranges) HR) as HI.
  destruct (acquire_sound _ _ _ _ _ _ _ _ HI H) as (_ & _ & NU & _ & _ & -> & _).
  split.
  - unfold used_by in NU. destruct (uget p (pm_used s)); [exfalso; apply NU; discriminate|reflexivity].
  - intros q Nq. psimpl. apply uget_uset_neq. assumption.
Qed.

(* the former witness of the reserved-path defect, now a regression case: "a" is NOT given b's port *)
Definition steal_ops : list pop :=
  [PAcq "a"%string 0 (fun _ => true) (Some 10); PRel 10; PAcq "b"%string 10 (fun _ => true) None].

Theorem reserved_path_no_steal :
  exists s s', pm_run steal_ops (pm_new [(10, 12, 0)]) = Some s /\
    uget 10 (pm_used s) = Some "b"%string /\
    pm_acquire (fun _ => true) (Some 11) s "a"%string 0 = Some (s', POk 11) /\
    uget 10 (pm_used s') = Some "b"%string.
Proof. eexists. eexists. vm_compute. repeat split. Qed.

(* ---------- acquire: an error leaves the manager unchanged ---------- *)
Lemma acquire_error_unchanged_no0 : forall probe ch s n port s' e,
  ~ In 0 (pm_free s) ->
  pm_acquire probe ch s n port = Some (s', PErr e) -> s' = s.
Proof.
  intros probe ch s n port s' e H0 H. unfold pm_acquire in H.
  assert (R : pm_random probe ch s n = Some (s', PErr e) -> s' = s).
  { unfold pm_random. destruct ch as [k|].
    - destruct (zmem k (pm_free s) && probe k) eqn:E; [|discriminate].
      apply andb_prop in E. destruct E as [E1 _]. apply zmem_In in E1.
      destruct (Z.eqb_spec k 0) as [->|]; [contradiction|discriminate].
    - destruct (pm_noavail_legal probe (pm_free s)); intros X; inversion X; reflexivity. }
  destruct (port =? 0).
  - destruct (rget n (pm_res s)); [|auto]. destruct (zmem z (pm_free s) && probe z); [discriminate|auto].
  - destruct (zmem port (pm_free s)).
    + destruct (probe port); inversion H; reflexivity.
    + destruct (uget port (pm_used s)); inversion H; reflexivity.
Qed.

(* for EVERY allowPorts configuration: NewManager never admits port 0, so the `realPort == 0` test after
   the random loop can only mean "nothing was taken" *)
Theorem acquire_error_unchanged : forall ranges ops s probe ch n port s' e,
  pm_run ops (pm_new ranges) = Some s ->
  pm_acquire probe ch s n port = Some (s', PErr e) -> s' = s.
Proof.
  intros ranges ops s probe ch n port s' e HR H.
  pose proof (pinv_run _ _ _ _ (pinv_new ranges) HR) as HI.
  eapply acquire_error_unchanged_no0; [|eassumption].
  eapply pinv_no0; [eassumption|apply allowed_no0].
Qed.

(* the former port-0 witness: allowPorts 0-2 now yields the free table {1,2} *)
Theorem port0_never_free :
  pm_free (pm_new [(0, 2, 0)]) = [1; 2] /\ pm_free (pm_new [(0, 0, 0); (0, 0, 70000); (65534, 70000, 0); (-5, 1, 0)]) = [65534; 65535; 1].
Proof. split; reflexivity. Qed.

(* ---------- refusals ---------- *)
Theorem out_of_range_refused : forall A probe ch s n port,
  PInv A s -> port <> 0 -> ~ In port A ->
  pm_acquire probe ch s n port = Some (s, PErr ENotAllowed).
Proof.
  intros A probe ch s n port HI N0 NA. unfold pm_acquire.
  destruct (Z.eqb_spec port 0); [contradiction|].
  destruct (zmem port (pm_free s)) eqn:EM.
  - apply zmem_In in EM. exfalso. apply NA. eapply pinv_free_allowed; eauto.
  - destruct (uget port (pm_used s)) eqn:EU; [|reflexivity].
    exfalso. apply NA. apply (pi_cover _ _ HI). right. unfold used_by. congruence.
Qed.

Theorem used_port_refused : forall A probe ch s n port,
  PInv A s -> port <> 0 -> used_by s port ->
  pm_acquire probe ch s n port = Some (s, PErr EUsed).
Proof.
  intros A probe ch s n port HI N0 U. unfold pm_acquire.
  destruct (Z.eqb_spec port 0); [contradiction|].
  destruct (zmem port (pm_free s)) eqn:EM.
  - apply zmem_In in EM. apply (pi_disj _ _ HI) in EM. contradiction.
  - unfold used_by in U. destruct (uget port (pm_used s)); [reflexivity|congruence].
Qed.

Theorem unavailable_port_refused : forall probe ch s n port,
  port <> 0 -> In port (pm_free s) -> probe port = false ->
  pm_acquire probe ch s n port = Some (s, PErr EUnavail).
Proof.
  intros probe ch s n port N0 F P. unfold pm_acquire.
  destruct (Z.eqb_spec port 0); [contradiction|].
  apply zmem_In in F. rewrite F, P. reflexivity.
Qed.

Lemma default_allowed : forall p, In p (pm_allowed []) <-> 1 <= p <= 65535.
Proof. intros p. unfold pm_allowed, pm_min_port, pm_max_port. rewrite zrange_In. lia. Qed.

(* ---------- release ---------- *)
Theorem release_frees : forall A s p,
  PInv A s -> used_by s p ->
  let s' := pm_release s p in
  In p (pm_free s') /\ ~ used_by s' p /\
  (forall q, q <> p -> (In q (pm_free s') <-> In q (pm_free s)) /\ uget q (pm_used s') = uget q (pm_used s)) /\
  pm_res s' = pm_res s.
Proof.
  intros A s p HI U. unfold pm_release. unfold used_by in U.
  destruct (uget p (pm_used s)) eqn:E; [|congruence]. simpl. unfold used_by. psimpl.
  repeat split.
  - apply zadd_In. auto.
  - rewrite uget_udel_eq. congruence.
  - rewrite zadd_In. tauto.
  - rewrite zadd_In. tauto.
  - apply uget_udel_neq. assumption.
Qed.

(* a released port can be acquired again at once, by anybody, if the OS lets it be bound *)
Theorem released_port_available_again : forall A s p probe ch n,
  PInv A s -> used_by s p -> p <> 0 -> probe p = true ->
  pm_acquire probe ch (pm_release s p) n p = Some (pm_take (pm_release s p) n p, POk p).
Proof.
  intros A s p probe ch n HI U N0 P.
  destruct (release_frees A s p HI U) as [F _].
  unfold pm_acquire. destruct (Z.eqb_spec p 0); [contradiction|].
  apply zmem_In in F. rewrite F, P. reflexivity.
Qed.

Theorem release_unused_noop : forall s p, uget p (pm_used s) = None -> pm_release s p = s.
Proof. intros s p H. unfold pm_release. rewrite H. reflexivity. Qed.

(* ---------- same port back ---------- *)
Theorem reacquire_same_port : forall probe ch s n rp,
  rget n (pm_res s) = Some rp -> In rp (pm_free s) -> probe rp = true ->
  pm_acquire probe ch s n 0 = Some (pm_take s n rp, POk rp).
Proof.
  intros probe ch s n rp R F P. unfold pm_acquire. simpl. apply zmem_In in F. rewrite R, F, P. reflexivity.
Qed.

(* the memory survives everything except the cleaner and a later acquisition under the same name *)
Definition touches_name (n : pname) (o : pop) : bool :=
  match o with
  | PAcq m _ _ _ => String.eqb m n
  | PClean m => String.eqb m n
  | PRel _ => false
  end.

Lemma reserved_step : forall s o s' out n,
  pm_step s o = Some (s', out) -> touches_name n o = false -> rget n (pm_res s') = rget n (pm_res s).
Proof.
  intros s o s' out n H T. destruct o as [m port probe ch|port|m]; simpl in H, T.
  - destruct (String.eqb_spec m n) as [|Ne]; [discriminate|].
    assert (K : forall k, rget n (pm_res (pm_take s m k)) = rget n (pm_res s))
      by (intros k; psimpl; apply rget_rset_neq; congruence).
    destruct (pm_acquire probe ch s m port) as [[s1 r]|] eqn:E; [|discriminate].
    inversion H; subst. unfold pm_acquire, pm_random in E.
    repeat match type of E with
           | context [match ?c with _ => _ end] => destruct c
           end; inversion E; subst; auto.
  - inversion H; subst. unfold pm_release. destruct (uget port (pm_used s)); reflexivity.
  - destruct (String.eqb_spec m n) as [|Ne]; [discriminate|].
    inversion H; subst. psimpl. apply rget_rdel_neq. congruence.
Qed.

Theorem reserved_persists : forall ops s s' n,
  pm_run ops s = Some s' -> forallb (fun o => negb (touches_name n o)) ops = true ->
  rget n (pm_res s') = rget n (pm_res s).
Proof.
  induction ops as [|o r IH]; simpl; intros s s' n H T; [inversion H; reflexivity|].
  apply andb_prop in T. destruct T as [T1 T2]. apply negb_true_iff in T1.
  destruct (pm_step s o) as [[s1 out]|] eqn:E; [|discriminate].
  rewrite (IH _ _ _ H T2). eapply reserved_step; eauto.
Qed.

(* history form: a name that was given p by the server, closes, and asks for "any port" again after
   arbitrary activity of other names gets p back whenever p is still free and the OS lets it be bound *)
Theorem same_port_back : forall A probe0 ch0 s0 n port0 s1 p ops s2 probe ch,
  PInv A s0 ->
  pm_acquire probe0 ch0 s0 n port0 = Some (s1, POk p) ->
  pm_run ops s1 = Some s2 -> forallb (fun o => negb (touches_name n o)) ops = true ->
  In p (pm_free s2) -> probe p = true ->
  pm_acquire probe ch s2 n 0 = Some (pm_take s2 n p, POk p).
Proof.
  intros A probe0 ch0 s0 n port0 s1 p ops s2 probe ch HI HA HR HT HF HP.
  destruct (acquire_sound _ _ _ _ _ _ _ _ HI HA) as (_ & _ & _ & _ & _ & _ & _ & _ & R1).
  apply reacquire_same_port; [|assumption|assumption].
  rewrite (reserved_persists _ _ _ _ HR HT). assumption.
Qed.

(* ---------- the no-available-port answer is justified ---------- *)
Lemma filter_length_le : forall (f : Z -> bool) l, (length (filter f l) <= length l)%nat.
Proof. induction l as [|x r IH]; simpl; [lia|]. destruct (f x); simpl; lia. Qed.

Theorem noavail_means_probe_failures : forall probe s n s',
  pm_random probe None s n = Some (s', PErr ENoAvail) ->
  (Z.of_nat (length (pm_free s)) <= 5 -> forall p, In p (pm_free s) -> probe p = false) /\
  (5 < Z.of_nat (length (pm_free s)) -> 5 <= Z.of_nat (length (filter (fun p => negb (probe p)) (pm_free s)))).
Proof.
  intros probe s n s' H. unfold pm_random in H.
  destruct (pm_noavail_legal probe (pm_free s)) eqn:E; [|discriminate].
  unfold pm_noavail_legal, max_try_times in E. apply Z.leb_le in E.
  split.
  - intros Hle p Hp.
    assert (L : length (filter (fun p => negb (probe p)) (pm_free s)) = length (pm_free s)).
    { pose proof (filter_length_le (fun p => negb (probe p)) (pm_free s)). lia. }
    clear E Hle. revert L Hp. generalize (pm_free s) as l.
    induction l as [|x r IH]; simpl; [tauto|]. intros L [->|Hp].
    + destruct (probe p); [|reflexivity]. simpl in L.
      pose proof (filter_length_le (fun p => negb (probe p)) r). lia.
    + destruct (probe x); simpl in L.
      * pose proof (filter_length_le (fun p => negb (probe p)) r). lia.
      * apply IH; [lia|assumption].
  - intros Hgt. lia.
Qed.
