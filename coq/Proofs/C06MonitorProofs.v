(* C06 — closing the loop between theorem and monitor: every observation trace that the MODEL produces
   from an arbitrary script passes the specification-only monitor C06_holds_router of Corr/C06.v.
   Hence an implementation trace that fails the monitor necessarily differs from the model's trace
   (a correspondence mismatch), and is a concrete input on which the property fails. *)
From FRP Require Import Model.Router Model.RouteSpec Corr.C06
  Proofs.RouterProofs Proofs.RouteSpecProofs Proofs.RouteClauses Proofs.RouterSchedProofs.
Open Scope Z_scope.

Inductive mq_script :=
| SAdd (d l u : bytes) (pay : Z)
| SDel (d l u : bytes)
| SGet (h p u : bytes)
| SVhost (canon : bool) (h p u : bytes).

(* the model fills in the observations *)
Fixpoint mq_trace (s : rstate Z) (script : list mq_script) : list c06_op :=
  match script with
  | [] => []
  | SAdd d l u pay :: r =>
      match rt_add s d l u pay with
      | Some s' => OAdd d l u pay true :: mq_trace s' r
      | None => OAdd d l u pay false :: mq_trace s r
      end
  | SDel d l u :: r => ODel d l u :: mq_trace (rt_del s d l u) r
  | SGet h p u :: r => OGet h p u (pay_of (rt_get s h p u)) :: mq_trace s r
  | SVhost canon h p u :: r =>
      OVhost canon h p u (pay_of (rt_get_vhost s (req_host canon h) p u)) :: mq_trace s r
  end.

Lemma mq_optZ_refl a : optZ_eqb a a = true.
Proof. destruct a; simpl; [apply Z.eqb_refl|reflexivity]. Qed.

Lemma mq_model_passes script : forall s spec, rc_sim s spec ->
  C06_holds_router spec (mq_trace s script) = true.
Proof.
  induction script as [|o script IH]; intros s spec Hsim; [reflexivity|].
  destruct o as [d l u pay|d l u|h p u|canon h p u]; simpl.
  - pose proof (rc_sim_add_none s spec d l u pay Hsim) as Hn.
    pose proof (rc_sim_step s spec (RAdd d l u pay) Hsim) as Hstep. simpl in Hstep.
    destruct (rt_add s d l u pay) as [s'|] eqn:A; destruct (rs_add spec d l u pay) as [sp|] eqn:B; simpl.
    + rewrite B. simpl. apply IH. exact Hstep.
    + exfalso. assert (Some s' = None) by (apply Hn; reflexivity). discriminate.
    + exfalso. assert (Some sp = None) by (apply Hn; reflexivity). discriminate.
    + rewrite B. simpl. apply IH. exact Hsim.
  - apply IH. exact (rc_sim_step s spec (RDel d l u) Hsim).
  - apply IH. exact Hsim.
  - rewrite <- (rc_sim_get_vhost s spec _ p u Hsim), mq_optZ_refl. simpl. apply IH. exact Hsim.
Qed.

Theorem mq_model_satisfies_monitor script : C06_holds_router [] (mq_trace rt_empty script) = true.
Proof.
  apply mq_model_passes. split; [apply rp_wf_empty|]. intro r. split; [|intros []].
  intros [ut [vrs [L _]]]. discriminate.
Qed.

(* and the model's own trace is accepted by the model comparison, so [check_case] = 0 on it *)
Lemma mq_check_router_zero w script : rt_walk_src_std w = true -> forall s spec i, rc_sim s spec ->
  check_router w s spec i (mq_trace s script) = 0.
Proof.
  intro Hw. induction script as [|o script IH]; intros s spec i Hsim; [reflexivity|].
  destruct o as [d l u pay|d l u|h p u|canon h p u]; simpl.
  - pose proof (rc_sim_add_none s spec d l u pay Hsim) as Hn.
    pose proof (rc_sim_step s spec (RAdd d l u pay) Hsim) as Hstep. simpl in Hstep.
    destruct (rt_add s d l u pay) as [s'|] eqn:A; destruct (rs_add spec d l u pay) as [sp|] eqn:B; simpl.
    + rewrite A, B. simpl. apply IH. exact Hstep.
    + exfalso. assert (Some s' = None) by (apply Hn; reflexivity). discriminate.
    + exfalso. assert (Some sp = None) by (apply Hn; reflexivity). discriminate.
    + rewrite A, B. simpl. apply IH. exact Hsim.
  - apply IH. exact (rc_sim_step s spec (RDel d l u) Hsim).
  - rewrite mq_optZ_refl. apply IH. exact Hsim.
  - rewrite (rs_walk_src_std_sound w Hw), mq_optZ_refl. simpl. rewrite <- (rc_sim_get_vhost s spec _ p u Hsim), mq_optZ_refl. simpl. apply IH. exact Hsim.
Qed.

(* ---------- the same for the HTTP layer ---------- *)
From FRP Require Import Model.HttpPool Proofs.HttpPoolProofs.

Definition mq_owner_route (r : route hp_rc) : route Z :=
  mkRoute (rt_dom r) (rt_loc r) (rt_user r) (rc_owner (rt_pay r)).

(* the monitor's route set is the table with payloads projected to the owner *)
Definition mq_hsim (s : rstate hp_rc) (spec : list (route Z)) : Prop :=
  rp_wf s /\ forall x, In x spec <-> exists r, rp_in r s /\ x = mq_owner_route r.

Fixpoint mq_trace_http (st : hp_state) (script : list hp_op) : list (hp_op * hp_out) :=
  match script with
  | [] => []
  | o :: r => match hp_step st o with
              | Some (st', out) => (o, out) :: mq_trace_http st' r
              | None => []
              end
  end.

Lemma mq_out_refl o : hp_out_eqb o o = true.
Proof. destruct o; simpl; try reflexivity. apply Z.eqb_refl. Qed.

Lemma mq_hsim_best s spec h p u : mq_hsim s spec ->
  rs_best_match spec h p u = option_map mq_owner_route (rt_get_vhost s h p u).
Proof.
  intros [Hwf Hs]. destruct (rt_get_vhost s h p u) as [r|] eqn:G; simpl.
  - apply rq_best_match_some. destruct (rq_get_vhost_best s h p u r Hwf G) as [A [B C]].
    split; [apply Hs; exists r; auto|]. split; [exact B|].
    intros x Hx Mx. apply Hs in Hx as [r0 [Hr0 ->]].
    destruct (C r0 Hr0 Mx) as [->|Hlt]; [left; reflexivity|right; exact Hlt].
  - apply rq_best_match_none. intros x Hx. apply Hs in Hx as [r0 [Hr0 ->]].
    exact (rq_get_vhost_none s h p u Hwf G r0 Hr0).
Qed.

Lemma mq_hsim_add_none s spec d l u pay : mq_hsim s spec ->
  (rt_add s d l u pay = None <-> rs_add spec d l u (rc_owner pay) = None).
Proof.
  intros [Hwf Hs]. rewrite (rp_add_none s d l u pay Hwf). unfold rs_add.
  destruct (existsb (rs_triple_is (lower d) l u) spec) eqn:E.
  - split; [reflexivity|]. intros _. apply existsb_exists in E as [x [Hin Ht]].
    apply Hs in Hin as [r [Hr ->]]. apply rc_triple_is_iff in Ht. exists r. split; [exact Hr|exact Ht].
  - split; [|discriminate]. intros [r [Hin Ht]]. exfalso.
    assert (existsb (rs_triple_is (lower d) l u) spec = true); [|congruence].
    apply existsb_exists. exists (mq_owner_route r). split; [apply Hs; exists r; auto|].
    apply rc_triple_is_iff. exact Ht.
Qed.

Lemma mq_hsim_add s spec d l u pay s' : mq_hsim s spec -> rt_add s d l u pay = Some s' ->
  mq_hsim s' (mkRoute (lower d) l u (rc_owner pay) :: spec).
Proof.
  intros [Hwf Hs] A. destruct (rp_add_ok _ _ _ _ _ _ Hwf A) as [Hwf' Hin']. split; [exact Hwf'|].
  intro x. simpl. split.
  - intros [<-|Hx].
    + exists (mkRoute (lower d) l u pay). split; [apply Hin'; left; reflexivity|reflexivity].
    + apply Hs in Hx as [r [Hr ->]]. exists r. split; [apply Hin'; right; exact Hr|reflexivity].
  - intros [r [Hr ->]]. apply Hin' in Hr as [->|Hr]; [left; reflexivity|right; apply Hs; exists r; auto].
Qed.

Lemma mq_hsim_del s spec d l u : mq_hsim s spec -> mq_hsim (rt_del s d l u) (rs_del spec d l u).
Proof.
  intros [Hwf Hs]. destruct (rp_del_ok s d l u Hwf) as [Hwf' Hin']. split; [exact Hwf'|].
  intro x. unfold rs_del. rewrite filter_In, negb_true_iff. split.
  - intros [Hx Ht]. apply Hs in Hx as [r [Hr ->]]. exists r. split; [|reflexivity].
    apply Hin'. split; [exact Hr|]. intro T. apply (rc_triple_is_iff (lower d) l u (mq_owner_route r)) in T. congruence.
  - intros [r [Hr ->]]. apply Hin' in Hr as [Hr Hn]. split; [apply Hs; exists r; auto|].
    destruct (rs_triple_is (lower d) l u (mq_owner_route r)) eqn:T; [|reflexivity].
    apply rc_triple_is_iff in T. exfalso. apply Hn. exact T.
Qed.

Definition mq_spec2 (spec : list (route Z)) (between : hp_op) : list (route Z) :=
  match between with
  | HRegister d l u owner => match rs_add spec d l u owner with Some sp => sp | None => spec end
  | HUnRegister d l u => rs_del spec d l u
  | _ => spec
  end.

Lemma mq_hsim_reg_step st spec btw : mq_hsim (hp_routes st) spec ->
  mq_hsim (hp_routes (hp_reg_step st btw)) (mq_spec2 spec btw).
Proof.
  intro Hsim. destruct btw; cbn [hp_reg_step mq_spec2]; try exact Hsim.
  - pose proof (mq_hsim_add_none _ spec d l u (mkRc d l u owner (hp_seq st + 1) []) Hsim) as Hn. simpl in Hn.
    destruct (rt_add (hp_routes st) d l u (mkRc d l u owner (hp_seq st + 1) [])) as [rs|] eqn:A.
    + pose proof (mq_hsim_add _ _ _ _ _ _ _ Hsim A) as Hsim'. simpl in Hsim'.
      unfold rs_add in *. destruct (existsb _ spec).
      * exfalso. assert (Some rs = None) by (apply Hn; reflexivity). discriminate.
      * exact Hsim'.
    + destruct (rs_add spec d l u owner) as [sp|] eqn:B; [|exact Hsim].
      exfalso. assert (Some sp = None) by (apply Hn; reflexivity). discriminate.
  - simpl. apply mq_hsim_del. exact Hsim.
Qed.

Lemma mq_roundtrip_routes st routed key rid dialed st' out :
  hp_roundtrip st routed key rid dialed = Some (st', out) -> hp_routes st' = hp_routes st.
Proof.
  unfold hp_roundtrip. destruct dialed.
  - destruct routed; intro H; inversion H; subst; reflexivity.
  - destruct (hp_take key (hp_idle st)) as [[c i]|]; intro H; inversion H; subst; reflexivity.
Qed.

Lemma mq_model_passes_http script : Forall hq_plain_op script -> forall st spec,
  hq_inv st -> mq_hsim (hp_routes st) spec ->
  C06_holds_http spec (mq_trace_http st script) = true.
Proof.
  induction 1 as [|o script Ho _ IH]; intros st spec Hinv Hsim; [reflexivity|].
  cbn [mq_trace_http]. destruct (hp_step st o) as [[st' out]|] eqn:S; [|reflexivity].
  pose proof (hq_step_inv _ _ _ _ Ho Hinv S) as Hinv'.
  destruct o as [d l u owner|d l u|rid cc proto host path user dialed|rid|name d l u owner|d l u|rid cc proto host path user dialed btw|chost cuser];
    simpl in Ho; try contradiction; cbn [C06_holds_http].
  - simpl in S.
    pose proof (mq_hsim_add_none _ spec d l u (mkRc d l u owner (hp_seq st + 1) []) Hsim) as Hn. simpl in Hn.
    destruct (rt_add (hp_routes st) d l u (mkRc d l u owner (hp_seq st + 1) [])) as [rs|] eqn:A;
      inversion S; subst; clear S.
    + pose proof (mq_hsim_add _ _ _ _ _ _ _ Hsim A) as Hsim'. simpl in Hsim'.
      unfold rs_add in *. destruct (existsb _ spec).
      * exfalso. assert (Some rs = None) by (apply Hn; reflexivity). discriminate.
      * simpl. apply IH; assumption.
    + destruct (rs_add spec d l u owner) as [sp|] eqn:B.
      * exfalso. assert (Some sp = None) by (apply Hn; reflexivity). discriminate.
      * simpl. apply IH; assumption.
  - simpl in S. inversion S; subst; clear S. apply IH; [exact Hinv'|]. simpl. apply mq_hsim_del. exact Hsim.
  - pose proof (hq_begin_spec _ _ _ _ _ _ _ _ _ _ Hinv S) as E.
    assert (Hr : hp_routes st' = hp_routes st).
    { apply (hq_traffic_routes [HBegin rid cc proto host path user dialed]); [constructor; [exact I|constructor]|].
      simpl. simpl in S. rewrite S. reflexivity. }
    assert (Eo : out = hp_spec_out (fun z : Z => z) spec host path user).
    { rewrite E. unfold hp_spec_out. destruct Hsim as [Hwf Hs].
      rewrite <- (rq_refines (hp_routes st) _ path user Hwf).
      rewrite (mq_hsim_best (hp_routes st) spec _ path user (conj Hwf Hs)).
      destruct (rt_get_vhost (hp_routes st) (rt_canon_or_empty host) path user); reflexivity. }
    rewrite <- Eo, mq_out_refl. simpl. apply IH; [exact Hinv'|]. rewrite Hr. exact Hsim.
  - assert (Hr : hp_routes st' = hp_routes st).
    { apply (hq_traffic_routes [HEnd rid]); [constructor; [exact I|constructor]|].
      simpl. simpl in S. rewrite S. reflexivity. }
    apply IH; [exact Hinv'|]. rewrite Hr. exact Hsim.
  - (* overtaken request: it reaches the owner routed in [st]; the monitor continues with the route set
       after the overtaking operation *)
    pose proof (hq_raced_spec _ _ _ _ _ _ _ _ _ _ _ Hinv S) as E.
    assert (Eo : out = hp_spec_out (fun z : Z => z) spec host path user).
    { rewrite E. unfold hp_spec_out. destruct Hsim as [Hwf Hs].
      rewrite <- (rq_refines (hp_routes st) _ path user Hwf).
      rewrite (mq_hsim_best (hp_routes st) spec _ path user (conj Hwf Hs)).
      destruct (rt_get_vhost (hp_routes st) (rt_canon_or_empty host) path user); reflexivity. }
    change (((hp_out_eqb out (hp_spec_out (fun z : Z => z) spec host path user) ||
              hp_out_eqb out (hp_spec_out (fun z : Z => z) (mq_spec2 spec btw) host path user)) &&
             C06_holds_http (mq_spec2 spec btw) (mq_trace_http st' script)) = true).
    rewrite <- Eo at 1. rewrite mq_out_refl. simpl. apply IH; [exact Hinv'|].
    assert (Hroutes : hp_routes st' = hp_routes (hp_reg_step st btw)).
    { cbn [hp_step] in S. destruct (hp_routed st host path user);
        [exact (mq_roundtrip_routes _ _ _ _ _ _ _ S)|inversion S; subst; reflexivity]. }
    rewrite Hroutes. apply mq_hsim_reg_step. exact Hsim.
  - assert (Hr : hp_routes st' = hp_routes st).
    { apply (hq_traffic_routes [HConnect chost cuser]); [constructor; [exact I|constructor]|].
      simpl. simpl in S. rewrite S. reflexivity. }
    assert (Eo : out = hp_spec_out (fun z : Z => z) spec chost [] cuser).
    { simpl in S. unfold hp_spec_out. destruct Hsim as [Hwf Hs].
      rewrite (mq_hsim_best (hp_routes st) spec _ [] cuser (conj Hwf Hs)).
      destruct (rt_get_vhost (hp_routes st) (rt_canon_or_empty chost) [] cuser); inversion S; subst; reflexivity. }
    rewrite <- Eo, mq_out_refl. simpl. apply IH; [exact Hinv'|]. rewrite Hr. exact Hsim.
Qed.

Theorem mq_model_satisfies_monitor_http script : Forall hq_plain_op script ->
  C06_holds_http [] (mq_trace_http hp_init script) = true.
Proof.
  intro H. apply (mq_model_passes_http script H); [apply hq_inv_init|].
  split; [apply rp_wf_empty|]. intro x. split; [intros []|].
  intros [r [[ut [vrs [L _]]] _]]. discriminate.
Qed.
