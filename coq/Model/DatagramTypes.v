(* C17: types of what translator unit T1 (datagram) emits (gen/GenDgram.v).  Model only. *)
From FRP Require Export Model.Bytes.

Inductive dg_stmt :=
| DAssign (lhs rhs : string)
| DErrReturn (results : string)      (* if err != nil { return results } *)
| DIf (cond : string) | DEndIf
| DReturn (results : string)
| DUnknown (what : string).
