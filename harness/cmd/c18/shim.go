package main

import "verifharness/hx"

var drivers = map[string]hx.DriverFn{}

func main() { hx.Main(drivers) }

type runCfg = hx.RunCfg

type gen struct{ *hx.Gen }

func newGen(seed int64) *gen            { return &gen{hx.NewGen(seed)} }
func (g *gen) intn(n int) int           { return g.Intn(n) }
func (g *gen) chance(p float64) bool    { return g.Chance(p) }
func (g *gen) pick(xs []string) string  { return g.Pick(xs) }
func (g *gen) pickInt(xs []int64) int64 { return xs[g.Intn(len(xs))] }
