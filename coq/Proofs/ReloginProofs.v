(* Proofs about Model/Relogin.v *)
From Coq Require Import ZArith List Bool Lia.
From FRP Require Import Model.Relogin.
Import ListNotations.
Open Scope Z_scope.

Lemma rl_lookup_app_none : forall n a b,
  rl_lookup n (a ++ b) = None <-> rl_lookup n a = None /\ rl_lookup n b = None.
Proof.
  intros n. induction a as [|[n' c'] r IH]; intros b; simpl.
  - split; [auto|intros [_ H]; exact H].
  - destruct (n' =? n); [split; [discriminate|intros [H _]; discriminate]|apply IH].
Qed.

Lemma rl_mem_false : forall n l, rl_mem n l = false <-> rl_lookup n l = None.
Proof. intros. unfold rl_mem. destruct (rl_lookup n l); split; congruence. Qed.

Lemma rl_add_spec : forall cfgs acc n c,
  In (n, c) (rl_add acc cfgs) <->
  In (n, c) acc \/ (rl_lookup n acc = None /\ rl_lookup n cfgs = Some c).
Proof.
  induction cfgs as [|[n' c'] r IH]; intros acc n c; simpl.
  - split; [auto|intros [H|[_ H]]; [exact H|discriminate]].
  - destruct (rl_mem n' acc) eqn:Em.
    + rewrite IH. split; intros [H|[H1 H2]]; auto; right; split; auto.
      * destruct (Z.eqb_spec n' n); auto. subst. unfold rl_mem in Em. rewrite H1 in Em. discriminate.
      * destruct (Z.eqb_spec n' n); auto. subst. unfold rl_mem in Em. rewrite H1 in Em. discriminate.
    + apply rl_mem_false in Em. rewrite IH. split.
      * intros [H|[H1 H2]].
        -- apply in_app_or in H. destruct H as [H|[H|[]]]; [left; exact H|].
           inversion H; subst. right. split; [exact Em|]. rewrite Z.eqb_refl. reflexivity.
        -- apply rl_lookup_app_none in H1. destruct H1 as [H1 H3]. right. split; [exact H1|].
           simpl in H3. destruct (n' =? n); [discriminate|exact H2].
      * intros [H|[H1 H2]].
        -- left. apply in_or_app. left. exact H.
        -- destruct (Z.eqb_spec n' n).
           ++ subst. inversion H2; subst. left. apply in_or_app. right. left. reflexivity.
           ++ right. split; [|exact H2]. apply rl_lookup_app_none. split; [exact H1|].
              simpl. destruct (Z.eqb_spec n' n); [contradiction|reflexivity].
Qed.

Lemma rl_fresh_spec : forall cfgs n c,
  In (n, c) (rl_fresh cfgs) <-> rl_lookup n cfgs = Some c.
Proof.
  intros. unfold rl_fresh, rl_update_all. simpl. rewrite rl_add_spec. simpl.
  split; [intros [[]|[_ H]]; exact H|intros H; right; auto].
Qed.

Lemma rl_lookup_in : forall n c l, In (n, c) l -> exists c', rl_lookup n l = Some c'.
Proof.
  intros n c. induction l as [|[n' c'] r IH]; intros H; [contradiction|].
  simpl. destruct (Z.eqb_spec n' n); [eexists; reflexivity|].
  destruct H as [H|H]; [inversion H; subst; contradiction|auto].
Qed.

Theorem rl_relogin_resends_all : forall cfg ef er evs,
  let st := rl_run (rl_init cfg ef er) evs in
  rl_phase_of st = PLogin ->
  let st' := rl_step st RLoginOk in
  rl_phase_of st' = PRunning /\
  exists m, rl_ctl st' = Some m /\ rl_history st' = m :: rl_history st /\
    (forall n c, In (n, c) m <-> rl_lookup n (rl_cfg st) = Some c) /\
    (forall n c, In (n, c) (rl_cfg st) -> exists c', In (n, c') m).
Proof.
  intros cfg ef er evs st Hp st'. unfold st', rl_step. rewrite Hp. simpl.
  split; [reflexivity|]. exists (rl_fresh (rl_cfg st)).
  repeat split; try reflexivity.
  - apply rl_fresh_spec.
  - apply rl_fresh_spec.
  - intros n c H. destruct (rl_lookup_in n c _ H) as [c' H']. exists c'. apply rl_fresh_spec. exact H'.
Qed.

Definition rl_alive (s : rl_svc) : Prop :=
  rl_phase_of s = PLogin \/ (rl_phase_of s = PRunning /\ exists m, rl_ctl s = Some m).

(* the loop that is running or will run next does not exit on a failed login, nor will any later one *)
Definition rl_safe (s : rl_svc) : Prop :=
  rl_alive s /\ rl_exit_now s = false /\ rl_exit_re s = false.

Lemma rl_safe_step : forall s e, e <> RStop -> rl_safe s -> rl_safe (rl_step s e).
Proof.
  intros s e He [[H|[H [m Hm]]] [Hn Hr]]; unfold rl_step, rl_login_failed; rewrite H; destruct e; try contradiction;
    unfold rl_safe, rl_alive; cbn [rl_phase_of rl_ctl rl_exit_now rl_exit_re]; try rewrite Hn; try rewrite Hr;
    (split; [|split; first [reflexivity|assumption]]);
    first [ left; first [reflexivity|assumption]
          | right; split; [first [reflexivity|assumption]|try rewrite Hm; eauto] ].
Qed.

Lemma rl_safe_run : forall evs s, ~ In RStop evs -> rl_safe s -> rl_safe (rl_run s evs).
Proof.
  induction evs as [|e r IH]; intros s Hn Ha; simpl; auto.
  unfold rl_run in *. simpl. apply IH.
  - intro. apply Hn. right. auto.
  - apply rl_safe_step; auto. intro. subst. apply Hn. left. reflexivity.
Qed.

(* loginFailExit off: the client never gives up, from the very first attempt *)
Theorem rl_never_gives_up : forall cfg evs,
  ~ In RStop evs ->
  let st := rl_run (rl_init cfg false false) evs in
  rl_phase_of st = PLogin \/ (rl_phase_of st = PRunning /\ exists m, rl_ctl st = Some m).
Proof.
  intros cfg evs Hn. apply (rl_safe_run evs (rl_init cfg false false) Hn).
  repeat split. left. reflexivity.
Qed.

(* whatever loginFailExit says: once one login has succeeded, no sequence of lost sessions, failed
   or REFUSED logins and reloads makes the loop halt *)
Theorem rl_never_gives_up_after_first_login : forall cfg ef pre post,
  let s0 := rl_run (rl_init cfg ef false) pre in
  rl_phase_of s0 = PLogin ->
  ~ In RStop post ->
  let st := rl_run (rl_step s0 RLoginOk) post in
  rl_phase_of st = PLogin \/ (rl_phase_of st = PRunning /\ exists m, rl_ctl st = Some m).
Proof.
  intros cfg ef pre post s0 Hp Hn.
  assert (Hre : forall evs s, rl_exit_re (rl_run s evs) = rl_exit_re s).
  { induction evs as [|e r IH]; intros s; simpl; auto. unfold rl_run in *. simpl. rewrite IH.
    unfold rl_step, rl_login_failed. destruct (rl_phase_of s); destruct e; reflexivity. }
  apply (rl_safe_run post (rl_step s0 RLoginOk) Hn).
  unfold rl_step. rewrite Hp. unfold rl_safe, rl_alive. cbn [rl_phase_of rl_ctl rl_exit_now rl_exit_re].
  assert (Hr : rl_exit_re s0 = false) by (unfold s0; rewrite Hre; reflexivity).
  rewrite Hr. repeat split. right. split; [reflexivity|eauto].
Qed.

(* by design: with loginFailExit set, a failure of the FIRST login loop stops the service *)
Theorem rl_first_login_failure_exits : forall cfg er,
  rl_phase_of (rl_step (rl_init cfg true er) RLoginFail) = PStopped /\
  rl_phase_of (rl_step (rl_init cfg true er) RLoginRefused) = PStopped.
Proof. intros. split; reflexivity. Qed.

Theorem rl_session_end_relogin : forall cfg ef er evs,
  let st := rl_run (rl_init cfg ef er) evs in
  rl_phase_of st = PRunning -> rl_phase_of (rl_step st RSessionEnd) = PLogin.
Proof. intros cfg ef er evs st H. unfold rl_step. rewrite H. reflexivity. Qed.

(* a reload that arrives while the client is retrying is what the next session registers *)
Lemma rl_stopped_absorbing : forall evs s, rl_phase_of s = PStopped -> rl_phase_of (rl_run s evs) = PStopped.
Proof.
  induction evs as [|e r IH]; intros s H; simpl; auto.
  unfold rl_run in *. simpl. apply IH. unfold rl_step. rewrite H. exact H.
Qed.

Lemma rl_fails_keep_cfg : forall fails s,
  Forall (fun e => e = RLoginFail \/ e = RLoginRefused) fails ->
  rl_cfg (rl_run s fails) = rl_cfg s.
Proof.
  induction fails as [|e r IH]; intros s Hf; simpl; auto.
  inversion Hf as [|x l He Hr]; subst. unfold rl_run in *. simpl. rewrite IH by exact Hr.
  unfold rl_step, rl_login_failed. destruct He; subst; destruct (rl_phase_of s); reflexivity.
Qed.

Lemma rl_run_app : forall a b s, rl_run s (a ++ b) = rl_run (rl_run s a) b.
Proof. intros. unfold rl_run. apply fold_left_app. Qed.

Theorem rl_reload_while_retrying : forall cfg ef er pre cfgs' fails,
  Forall (fun e => e = RLoginFail \/ e = RLoginRefused) fails ->
  let st := rl_run (rl_init cfg ef er) (pre ++ RReload cfgs' :: fails) in
  rl_phase_of st = PLogin ->
  exists m, rl_ctl (rl_step st RLoginOk) = Some m /\
            rl_history (rl_step st RLoginOk) = m :: rl_history st /\
            forall n c, In (n, c) m <-> rl_lookup n cfgs' = Some c.
Proof.
  intros cfg ef er pre cfgs' fails Hf st Hp.
  assert (Hc : rl_cfg st = cfgs').
  { unfold st. rewrite rl_run_app. change (RReload cfgs' :: fails) with ([RReload cfgs'] ++ fails).
    rewrite rl_run_app. rewrite rl_fails_keep_cfg by exact Hf.
    set (s1 := rl_run (rl_init cfg ef er) pre).
    destruct (rl_phase_of s1) eqn:E1; unfold rl_run; simpl; unfold rl_step; rewrite E1; try reflexivity.
    exfalso. unfold st in Hp. rewrite rl_run_app in Hp. fold s1 in Hp.
    rewrite (rl_stopped_absorbing _ s1 E1) in Hp. discriminate. }
  unfold rl_step. rewrite Hp. cbn [rl_ctl rl_history]. exists (rl_fresh (rl_cfg st)).
  split; [reflexivity|]. split; [reflexivity|]. rewrite Hc. intros n c. apply rl_fresh_spec.
Qed.
