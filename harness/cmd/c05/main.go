// c05: correspondence drivers for property C05 (configured encryption protects the wire;
// TLS identity rules are enforced).  Loopback addresses 127.0.5.x only.
package main

import (
	"verifharness/hx"
)

var drivers = map[string]hx.DriverFn{
	"sniff":  runSniff,
	"policy": runPolicy,
	"wire":   runWire,
	"certs":  runCerts,
}

func main() { hx.Main(drivers) }

const (
	addrServer  = "127.0.5.1"
	addrRelay   = "127.0.5.2"
	addrVisitor = "127.0.5.3"
	addrBackend = "127.0.5.4"
)

const caseImports = "From FRP Require Import Corr.C05.\nImport TlsPolicy Wire.\n"

const caseTail = "Definition M := Eval vm_compute in mismatches check_case cases.\nPrint M.\n" +
	"Definition NMONITORFAIL := Eval vm_compute in count_if (fun c => negb (C05_holds c)) cases.\nPrint NMONITORFAIL.\n"
