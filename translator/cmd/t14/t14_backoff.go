// T14: the retry/heartbeat constants C14's theorems are about, read from the source on every run.
//
//   client/service.go   loopLoginUntilSuccess, keepControllerWorking: the wait.FastBackoffOptions literal handed to
//                       wait.NewFastBackoffManager and the `sliding` argument of wait.BackoffUntil;
//                       the two call sites of loopLoginUntilSuccess (max interval, firstLoginExit argument)
//   client/control.go   heartbeatWorker: the same for the ping sender
//   pkg/config/v1/server.go, client.go   Complete(): the tcpMux dependent EmptyOr defaults of HeartbeatTimeout/-Interval
//
// -> coq/gen/GenBackoffOpts.v:
//   gen_login_opts (max_interval : Z), gen_keep_opts, gen_ping_opts (interval : Z) : fb_opts      (durations in ns)
//   gen_login_sliding, gen_keep_sliding, gen_ping_sliding : bool
//   gen_first_login_max, gen_relogin_max : Z;  gen_first_login_exit_from_cfg, gen_relogin_exit : bool
//   gen_hb_server_default, gen_hb_client_default
// Anything not recognised (unknown option field, an expression outside the small grammar below, a missing or
// duplicated literal) makes the unit fail: tx.Main then writes a marker file without these definitions and
// everything that imports them stops compiling (attributed to C14).
package main

import (
	"bytes"
	"fmt"
	"go/ast"
	"go/parser"
	"go/printer"
	"go/token"
	"path/filepath"
	"strconv"
	"strings"

	"veriftranslator/tx"
)

func main() { tx.Main(tx.Unit{Name: "T14", File: "GenBackoffOpts.v", Fn: gen}) }

func src(fset *token.FileSet, n ast.Node) string {
	var b bytes.Buffer
	_ = printer.Fprint(&b, fset, n)
	return b.String()
}

func z(n int64) string {
	if n < 0 {
		return fmt.Sprintf("(%d)", n)
	}
	return fmt.Sprint(n)
}

var unitNs = map[string]int64{"Nanosecond": 1, "Microsecond": 1000, "Millisecond": 1000000, "Second": 1000000000,
	"Minute": 60 * 1000000000, "Hour": 3600 * 1000000000}

func isSel(e ast.Expr, pkg, name string) bool {
	s, ok := e.(*ast.SelectorExpr)
	if !ok {
		return false
	}
	id, ok := s.X.(*ast.Ident)
	return ok && id.Name == pkg && (name == "" || s.Sel.Name == name)
}

// duration expression -> Coq term over Z (ns); symbolic parameters allowed
func dur(fset *token.FileSet, e ast.Expr, params map[string]string) (string, error) {
	switch x := e.(type) {
	case *ast.ParenExpr:
		return dur(fset, x.X, params)
	case *ast.SelectorExpr:
		if isSel(x, "time", "") {
			if n, ok := unitNs[x.Sel.Name]; ok {
				return z(n), nil
			}
		}
	case *ast.Ident:
		if p, ok := params[x.Name]; ok {
			return p, nil
		}
	case *ast.BasicLit:
		if x.Kind == token.INT {
			n, err := strconv.ParseInt(x.Value, 0, 64)
			if err == nil {
				return z(n), nil
			}
		}
	case *ast.BinaryExpr:
		if x.Op == token.MUL {
			a, err := dur(fset, x.X, params)
			if err != nil {
				return "", err
			}
			b, err := dur(fset, x.Y, params)
			if err != nil {
				return "", err
			}
			return "(" + a + " * " + b + ")", nil
		}
	case *ast.CallExpr:
		// time.Duration(<config field>)
		if isSel(x.Fun, "time", "Duration") && len(x.Args) == 1 {
			s := src(fset, x.Args[0])
			for suffix, p := range params {
				if strings.HasPrefix(suffix, ".") && strings.HasSuffix(s, suffix) {
					return p, nil
				}
			}
			return dur(fset, x.Args[0], params)
		}
	}
	return "", fmt.Errorf("duration expression not recognised: %s", src(fset, e))
}

func gcd(a, b int64) int64 {
	for b != 0 {
		a, b = b, a%b
	}
	if a < 0 {
		return -a
	}
	return a
}

// numeric literal -> (num, den)
func ratio(fset *token.FileSet, e ast.Expr) (string, error) {
	neg := false
	if u, ok := e.(*ast.UnaryExpr); ok && u.Op == token.SUB {
		neg = true
		e = u.X
	}
	l, ok := e.(*ast.BasicLit)
	if !ok || (l.Kind != token.INT && l.Kind != token.FLOAT) {
		return "", fmt.Errorf("numeric literal expected: %s", src(fset, e))
	}
	v := l.Value
	if strings.ContainsAny(v, "eExXpP_") {
		return "", fmt.Errorf("numeric literal form not recognised: %s", v)
	}
	ip, fp := v, ""
	if i := strings.IndexByte(v, '.'); i >= 0 {
		ip, fp = v[:i], v[i+1:]
	}
	if ip == "" {
		ip = "0"
	}
	num, err := strconv.ParseInt(ip+fp, 10, 64)
	if err != nil {
		return "", err
	}
	den := int64(1)
	for range fp {
		den *= 10
	}
	g := gcd(num, den)
	if g > 1 {
		num, den = num/g, den/g
	}
	if neg {
		num = -num
	}
	return fmt.Sprintf("(%s, %d)", z(num), den), nil
}

var durFields = map[string]string{"Duration": "fo_duration", "MaxDuration": "fo_max", "InitDurationIfFail": "fo_init_fail",
	"FastRetryDelay": "fo_fast_delay", "FastRetryWindow": "fo_fast_window"}
var ratFields = map[string]string{"Factor": "fo_factor", "Jitter": "fo_jitter", "FastRetryJitter": "fo_fast_jitter"}
var fieldOrder = []string{"fo_duration", "fo_factor", "fo_jitter", "fo_max", "fo_init_fail", "fo_fast_count", "fo_fast_delay",
	"fo_fast_jitter", "fo_fast_window"}

func optsLit(fset *token.FileSet, cl *ast.CompositeLit, params map[string]string) (string, error) {
	vals := map[string]string{"fo_duration": "0", "fo_max": "0", "fo_init_fail": "0", "fo_fast_delay": "0", "fo_fast_window": "0",
		"fo_factor": "(0, 1)", "fo_jitter": "(0, 1)", "fo_fast_jitter": "(0, 1)", "fo_fast_count": "0"}
	seen := map[string]bool{}
	for _, el := range cl.Elts {
		kv, ok := el.(*ast.KeyValueExpr)
		if !ok {
			return "", fmt.Errorf("positional FastBackoffOptions literal")
		}
		k, ok := kv.Key.(*ast.Ident)
		if !ok {
			return "", fmt.Errorf("key not recognised: %s", src(fset, kv.Key))
		}
		if seen[k.Name] {
			return "", fmt.Errorf("duplicate key %s", k.Name)
		}
		seen[k.Name] = true
		switch {
		case durFields[k.Name] != "":
			v, err := dur(fset, kv.Value, params)
			if err != nil {
				return "", err
			}
			vals[durFields[k.Name]] = v
		case ratFields[k.Name] != "":
			v, err := ratio(fset, kv.Value)
			if err != nil {
				return "", err
			}
			vals[ratFields[k.Name]] = v
		case k.Name == "FastRetryCount":
			l, ok := kv.Value.(*ast.BasicLit)
			if !ok || l.Kind != token.INT {
				return "", fmt.Errorf("FastRetryCount: integer literal expected: %s", src(fset, kv.Value))
			}
			vals["fo_fast_count"] = l.Value
		default:
			return "", fmt.Errorf("unknown FastBackoffOptions field %s", k.Name)
		}
	}
	parts := []string{}
	for _, f := range fieldOrder {
		parts = append(parts, f+" := "+vals[f])
	}
	return "{| " + strings.Join(parts, ";\n     ") + " |}", nil
}

type site struct {
	opts    *ast.CompositeLit
	sliding string
	n       int
}

// the wait.BackoffUntil(f, wait.NewFastBackoffManager(wait.FastBackoffOptions{...}), sliding, stop) calls of fn
func backoffSite(fset *token.FileSet, fn *ast.FuncDecl) (site, error) {
	var s site
	var err error
	ast.Inspect(fn.Body, func(n ast.Node) bool {
		c, ok := n.(*ast.CallExpr)
		if !ok || !isSel(c.Fun, "wait", "BackoffUntil") {
			return true
		}
		if len(c.Args) != 4 {
			err = fmt.Errorf("%s: BackoffUntil with %d arguments", fn.Name.Name, len(c.Args))
			return false
		}
		mk, ok := c.Args[1].(*ast.CallExpr)
		if !ok || !isSel(mk.Fun, "wait", "NewFastBackoffManager") || len(mk.Args) != 1 {
			return true // wait.Until style or another manager: not one of the three sites
		}
		cl, ok := mk.Args[0].(*ast.CompositeLit)
		if !ok || !isSel(cl.Type, "wait", "FastBackoffOptions") {
			err = fmt.Errorf("%s: NewFastBackoffManager argument is not a literal: %s", fn.Name.Name, src(fset, mk.Args[0]))
			return false
		}
		id, ok := c.Args[2].(*ast.Ident)
		if !ok || (id.Name != "true" && id.Name != "false") {
			err = fmt.Errorf("%s: sliding argument not a boolean literal: %s", fn.Name.Name, src(fset, c.Args[2]))
			return false
		}
		s.opts, s.sliding = cl, id.Name
		s.n++
		return true
	})
	if err == nil && s.n != 1 {
		err = fmt.Errorf("%s: %d BackoffUntil(NewFastBackoffManager(literal)) sites, expected 1", fn.Name.Name, s.n)
	}
	return s, err
}

func funcs(fset *token.FileSet, path string) (map[string]*ast.FuncDecl, error) {
	f, err := parser.ParseFile(fset, path, nil, 0)
	if err != nil {
		return nil, err
	}
	m := map[string]*ast.FuncDecl{}
	for _, d := range f.Decls {
		if fd, ok := d.(*ast.FuncDecl); ok && fd.Body != nil {
			name := fd.Name.Name
			if fd.Recv != nil && len(fd.Recv.List) == 1 {
				t := fd.Recv.List[0].Type
				if st, ok := t.(*ast.StarExpr); ok {
					t = st.X
				}
				if id, ok := t.(*ast.Ident); ok {
					name = id.Name + "." + name
				}
			}
			m[name] = fd
		}
	}
	return m, nil
}

// the call sites svr.loopLoginUntilSuccess(a, b) inside fn
func loginCall(fset *token.FileSet, fn *ast.FuncDecl) (maxd string, exit string, err error) {
	n := 0
	ast.Inspect(fn.Body, func(nd ast.Node) bool {
		c, ok := nd.(*ast.CallExpr)
		if !ok {
			return true
		}
		s, ok := c.Fun.(*ast.SelectorExpr)
		if !ok || s.Sel.Name != "loopLoginUntilSuccess" || len(c.Args) != 2 {
			return true
		}
		n++
		maxd, err = dur(fset, c.Args[0], nil)
		if err != nil {
			return false
		}
		a := src(fset, c.Args[1])
		switch {
		case a == "false" || a == "true":
			exit = a
		case a == "lo.FromPtr(svr.common.LoginFailExit)":
			exit = "cfg"
		default:
			err = fmt.Errorf("%s: firstLoginExit argument not recognised: %s", fn.Name.Name, a)
		}
		return err == nil
	})
	if err == nil && n != 1 {
		err = fmt.Errorf("%s: %d calls of loopLoginUntilSuccess, expected 1", fn.Name.Name, n)
	}
	return
}

// Complete(): if lo.FromPtr(c.TCPMux) { c.F = util.EmptyOr(c.F, A) ... } else { c.F = util.EmptyOr(c.F, B) ... }
func hbDefaults(fset *token.FileSet, fn *ast.FuncDecl, fields []string) (mux, nomux map[string]string, err error) {
	var ifs *ast.IfStmt
	for _, st := range fn.Body.List {
		if i, ok := st.(*ast.IfStmt); ok && src(fset, i.Cond) == "lo.FromPtr(c.TCPMux)" {
			if ifs != nil {
				return nil, nil, fmt.Errorf("two tcpMux branches in %s", fn.Name.Name)
			}
			ifs = i
		}
	}
	if ifs == nil {
		return nil, nil, fmt.Errorf("no `if lo.FromPtr(c.TCPMux)` in Complete")
	}
	// the heartbeat fields must not be assigned anywhere else in Complete
	for _, st := range fn.Body.List {
		if st == ast.Stmt(ifs) {
			continue
		}
		s := src(fset, st)
		for _, f := range fields {
			if strings.Contains(s, "c."+f+" ") || strings.Contains(s, "c."+f+"=") {
				return nil, nil, fmt.Errorf("%s assigned outside the tcpMux branch: %s", f, s)
			}
		}
	}
	branch := func(b *ast.BlockStmt) (map[string]string, error) {
		m := map[string]string{}
		for _, st := range b.List {
			as, ok := st.(*ast.AssignStmt)
			if !ok || len(as.Lhs) != 1 || len(as.Rhs) != 1 || as.Tok != token.ASSIGN {
				return nil, fmt.Errorf("statement not recognised in tcpMux branch: %s", src(fset, st))
			}
			lhs := src(fset, as.Lhs[0])
			c, ok := as.Rhs[0].(*ast.CallExpr)
			if !ok || !isSel(c.Fun, "util", "EmptyOr") || len(c.Args) != 2 || src(fset, c.Args[0]) != lhs {
				return nil, fmt.Errorf("assignment not of the form x = util.EmptyOr(x, lit): %s", src(fset, st))
			}
			v := c.Args[1]
			neg := false
			if u, ok := v.(*ast.UnaryExpr); ok && u.Op == token.SUB {
				neg, v = true, u.X
			}
			l, ok := v.(*ast.BasicLit)
			if !ok || l.Kind != token.INT {
				return nil, fmt.Errorf("default not an integer literal: %s", src(fset, st))
			}
			n, _ := strconv.ParseInt(l.Value, 0, 64)
			if neg {
				n = -n
			}
			m[strings.TrimPrefix(lhs, "c.")] = z(n)
		}
		for _, f := range fields {
			if _, ok := m[f]; !ok {
				return nil, fmt.Errorf("no default for %s in a tcpMux branch", f)
			}
		}
		if len(m) != len(fields) {
			return nil, fmt.Errorf("unexpected assignments in a tcpMux branch of Complete")
		}
		return m, nil
	}
	mux, err = branch(ifs.Body)
	if err != nil {
		return
	}
	eb, ok := ifs.Else.(*ast.BlockStmt)
	if !ok {
		return nil, nil, fmt.Errorf("tcpMux branch without a plain else block")
	}
	nomux, err = branch(eb)
	return
}

// where the service context is cancelled on the login path: the model has exactly one such step,
// loginFunc's `if firstLoginExit { svr.cancel(...) }`; login() and keepControllerWorking have none
func cancelSites(fset *token.FileSet, fn *ast.FuncDecl) []string {
	var guards []string
	var stack []ast.Node
	ast.Inspect(fn.Body, func(n ast.Node) bool {
		if n == nil {
			stack = stack[:len(stack)-1]
			return true
		}
		stack = append(stack, n)
		c, ok := n.(*ast.CallExpr)
		if !ok {
			return true
		}
		if s, ok := c.Fun.(*ast.SelectorExpr); ok && s.Sel.Name == "cancel" && src(fset, s.X) == "svr" {
			g := "<unguarded>"
			for i := len(stack) - 2; i >= 0; i-- {
				if is, ok := stack[i].(*ast.IfStmt); ok {
					g = src(fset, is.Cond)
					break
				}
			}
			guards = append(guards, g)
		}
		return true
	})
	return guards
}

// does fn contain the statement `ctl.<field>.Store(time.Now())` at the top level of its body?
func storesNowAtCreation(fset *token.FileSet, fn *ast.FuncDecl, field string) bool {
	for _, st := range fn.Body.List {
		if es, ok := st.(*ast.ExprStmt); ok && src(fset, es.X) == "ctl."+field+".Store(time.Now())" {
			return true
		}
	}
	return false
}

// the watchdog callback: wait.Until(func() { if time.Since(ctl.<field>.Load().(time.Time)) > time.Duration(<...>.HeartbeatTimeout)*time.Second { ...; <close>; return } }, time.Second, ctl.doneCh)
// -> "" if it has exactly that shape, else a description
func watchdogShape(fset *token.FileSet, fn *ast.FuncDecl, field, closeCall string) string {
	var found []string
	ast.Inspect(fn.Body, func(n ast.Node) bool {
		c, ok := n.(*ast.CallExpr)
		if !ok || !isSel(c.Fun, "wait", "Until") {
			return true
		}
		if len(c.Args) != 3 {
			found = append(found, "wait.Until with unexpected arguments")
			return true
		}
		fl, ok := c.Args[0].(*ast.FuncLit)
		if !ok {
			found = append(found, "callback is not a function literal")
			return true
		}
		if src(fset, c.Args[1]) != "time.Second" {
			found = append(found, "period is "+src(fset, c.Args[1]))
			return true
		}
		if len(fl.Body.List) != 1 {
			found = append(found, fmt.Sprintf("callback has %d statements, expected the single timeout test", len(fl.Body.List)))
			return true
		}
		is, ok := fl.Body.List[0].(*ast.IfStmt)
		if !ok || is.Init != nil || is.Else != nil {
			found = append(found, "callback is not a plain if")
			return true
		}
		cond := strings.Join(strings.Fields(src(fset, is.Cond)), "")
		pre := "time.Since(ctl." + field + ".Load().(time.Time))>time.Duration("
		if !strings.HasPrefix(cond, pre) || !strings.HasSuffix(cond, ".Transport.HeartbeatTimeout)*time.Second") {
			found = append(found, "timeout test is "+src(fset, is.Cond))
			return true
		}
		body := src(fset, is.Body)
		if !strings.Contains(body, closeCall) {
			found = append(found, "timeout branch does not call "+closeCall)
			return true
		}
		found = append(found, "")
		return true
	})
	if len(found) != 1 {
		return fmt.Sprintf("%d wait.Until watchdogs found", len(found))
	}
	return found[0]
}

// every read of svr.proxyCfgs / svr.visitorCfgs in fn lies inside a function literal (the retried closure)
func cfgReadInsideClosure(fset *token.FileSet, fn *ast.FuncDecl) (inside, outside int) {
	depth := 0
	var stack []ast.Node
	ast.Inspect(fn.Body, func(n ast.Node) bool {
		if n == nil {
			if _, ok := stack[len(stack)-1].(*ast.FuncLit); ok {
				depth--
			}
			stack = stack[:len(stack)-1]
			return true
		}
		stack = append(stack, n)
		if _, ok := n.(*ast.FuncLit); ok {
			depth++
		}
		if s, ok := n.(*ast.SelectorExpr); ok && (s.Sel.Name == "proxyCfgs" || s.Sel.Name == "visitorCfgs") && src(fset, s.X) == "svr" {
			if depth > 0 {
				inside++
			} else {
				outside++
			}
		}
		return true
	})
	return
}

func boolS(b bool) string {
	if b {
		return "true"
	}
	return "false"
}

func gen() ([]byte, error) {
	fset := token.NewFileSet()
	svc, err := funcs(fset, filepath.Join(tx.Repo, "client/service.go"))
	if err != nil {
		return nil, err
	}
	ctl, err := funcs(fset, filepath.Join(tx.Repo, "client/control.go"))
	if err != nil {
		return nil, err
	}
	need := func(m map[string]*ast.FuncDecl, n string) (*ast.FuncDecl, error) {
		if f, ok := m[n]; ok {
			return f, nil
		}
		return nil, fmt.Errorf("function %s not found", n)
	}
	var b bytes.Buffer
	b.WriteString("(* generated by translator unit t14 from client/service.go, client/control.go, pkg/config/v1/{client,server}.go; do not edit *)\n")
	b.WriteString("From Coq Require Import ZArith Bool.\nFrom FRP Require Import Model.Backoff Model.Heartbeat.\nOpen Scope Z_scope.\n\n")
	b.WriteString("Definition T14_translated : bool := true.\n\n")

	type spec struct {
		m      map[string]*ast.FuncDecl
		fn     string
		name   string
		params map[string]string
		sig    string
	}
	for _, sp := range []spec{
		{svc, "Service.loopLoginUntilSuccess", "login", map[string]string{"maxInterval": "max_interval"}, " (max_interval : Z)"},
		{svc, "Service.keepControllerWorking", "keep", map[string]string{}, ""},
		{ctl, "Control.heartbeatWorker", "ping", map[string]string{".Transport.HeartbeatInterval": "interval"}, " (interval : Z)"},
	} {
		fn, err := need(sp.m, sp.fn)
		if err != nil {
			return nil, err
		}
		st, err := backoffSite(fset, fn)
		if err != nil {
			return nil, err
		}
		o, err := optsLit(fset, st.opts, sp.params)
		if err != nil {
			return nil, fmt.Errorf("%s: %v", sp.fn, err)
		}
		fmt.Fprintf(&b, "(* %s *)\nDefinition gen_%s_opts%s : fb_opts :=\n  %s.\nDefinition gen_%s_sliding : bool := %s.\n\n", sp.fn, sp.name, sp.sig, o, sp.name, st.sliding)
	}
	cancelOK := "true"
	cancelNote := ""
	for _, fnName := range []string{"Service.login", "Service.keepControllerWorking", "Service.loopLoginUntilSuccess"} {
		want := map[string][]string{"Service.loopLoginUntilSuccess": {"firstLoginExit"}}[fnName]
		fn, err := need(svc, fnName)
		if err != nil {
			return nil, err
		}
		got := cancelSites(fset, fn)
		if strings.Join(got, "|") != strings.Join(want, "|") {
			// not a failure of the unit: the option sets stay available to the correspondence; the
			// obligation Properties.C14_relogin_never_cancels_in_source breaks
			cancelOK = "false"
			cancelNote += fmt.Sprintf("   %s cancels the service context under guards %s; the session-loop model has %s\n", fnName, tx.Sanitize(fmt.Sprintf("%q", got)), tx.Sanitize(fmt.Sprintf("%q", want)))
		}
	}
	b.WriteString("(* svr.cancel on the login path: only loginFunc's `if firstLoginExit`; login and keepControllerWorking never cancel\n" + cancelNote + " *)\nDefinition gen_login_cancel_only_under_first_login_exit : bool := " + cancelOK + ".\n\n")
	// watchdog initialisation and test (client and server), config read inside the retried closure
	{
		srvf, err := funcs(fset, filepath.Join(tx.Repo, "server/control.go"))
		if err != nil {
			return nil, err
		}
		note := ""
		flag := func(name string, ok bool, why string) {
			if !ok {
				note += "   " + name + ": " + tx.Sanitize(why) + "\n"
			}
			fmt.Fprintf(&b, "Definition %s : bool := %s.\n", name, boolS(ok))
		}
		cnew, err := need(ctl, "NewControl")
		if err != nil {
			return nil, err
		}
		snew, err := need(srvf, "NewControl")
		if err != nil {
			return nil, err
		}
		chb, _ := need(ctl, "Control.heartbeatWorker")
		shb, err := need(srvf, "Control.heartbeatWorker")
		if err != nil {
			return nil, err
		}
		lf, _ := need(svc, "Service.loopLoginUntilSuccess")
		b.WriteString("(* NewControl stores the creation instant in lastPong / lastPing; the 1 s watchdog callback is exactly the\n   strict timeout test against that value; svr.proxyCfgs / visitorCfgs are read inside the retried login closure *)\n")
		flag("gen_cli_lastpong_init_at_creation", storesNowAtCreation(fset, cnew, "lastPong"), "client NewControl has no ctl.lastPong.Store_time.Now__")
		flag("gen_srv_lastping_init_at_creation", storesNowAtCreation(fset, snew, "lastPing"), "server NewControl has no ctl.lastPing.Store_time.Now__")
		cs := watchdogShape(fset, chb, "lastPong", "ctl.closeSession()")
		flag("gen_cli_watchdog_is_plain_timeout_test", cs == "", cs)
		ss := watchdogShape(fset, shb, "lastPing", "ctl.conn.Close()")
		flag("gen_srv_watchdog_is_plain_timeout_test", ss == "", ss)
		in, out := cfgReadInsideClosure(fset, lf)
		flag("gen_cfg_read_inside_login_closure", in >= 2 && out == 0, fmt.Sprintf("%d reads inside the closure, %d outside", in, out))
		if note != "" {
			b.WriteString("(* deviations:\n" + note + "*)\n")
		}
		b.WriteString("\n")
	}
	// client message handlers: which are registered through msg.AsyncHandler, and whether the ones that
	// run inside the dispatcher's read loop do blocking I/O in place
	{
		reg, err := need(ctl, "Control.registerMsgHandlers")
		if err != nil {
			return nil, err
		}
		known := map[string]string{"ReqWorkConn": "reqworkconn", "NewProxyResp": "newproxyresp", "NatHoleResp": "natholeresp", "Pong": "pong"}
		seen := map[string]bool{}
		blockingNote := ""
		nonblocking := true
		var rerr error
		ast.Inspect(reg.Body, func(n ast.Node) bool {
			c, ok := n.(*ast.CallExpr)
			if !ok || rerr != nil {
				return true
			}
			sel, ok := c.Fun.(*ast.SelectorExpr)
			if !ok || sel.Sel.Name != "RegisterHandler" {
				return true
			}
			if len(c.Args) != 2 {
				rerr = fmt.Errorf("RegisterHandler with %d arguments", len(c.Args))
				return false
			}
			t := strings.TrimSuffix(strings.TrimPrefix(src(fset, c.Args[0]), "&msg."), "{}")
			name, ok := known[t]
			if !ok || seen[t] {
				rerr = fmt.Errorf("client handler for unknown or repeated message type %s", src(fset, c.Args[0]))
				return false
			}
			seen[t] = true
			h := c.Args[1]
			async := false
			if hc, ok := h.(*ast.CallExpr); ok && isSel(hc.Fun, "msg", "AsyncHandler") && len(hc.Args) == 1 {
				async = true
				h = hc.Args[0]
			}
			hs, ok := h.(*ast.SelectorExpr)
			if !ok || src(fset, hs.X) != "ctl" {
				rerr = fmt.Errorf("handler expression not recognised: %s", src(fset, c.Args[1]))
				return false
			}
			fmt.Fprintf(&b, "Definition gen_cli_async_%s : bool := %s.\n", name, boolS(async))
			if !async {
				hf, err := need(ctl, "Control."+hs.Sel.Name)
				if err != nil {
					rerr = err
					return false
				}
				body := src(fset, hf.Body)
				for _, pat := range []string{"connectServer(", ".Connect()", "net.Dial", "msg.ReadMsg", "msg.WriteMsg(", "time.Sleep(", "<-"} {
					if strings.Contains(body, pat) {
						nonblocking = false
						blockingNote += fmt.Sprintf("   %s runs in the read loop and contains %s\n", hs.Sel.Name, tx.Sanitize(pat))
					}
				}
			}
			return true
		})
		if rerr != nil {
			return nil, rerr
		}
		if len(seen) != len(known) {
			return nil, fmt.Errorf("registerMsgHandlers registers %d of the %d known client handlers", len(seen), len(known))
		}
		b.WriteString("(* handlers that run inside msg.Dispatcher.readLoop do no dial / read / write / sleep / channel receive in place\n" + blockingNote + " *)\n")
		fmt.Fprintf(&b, "Definition gen_cli_sync_handlers_nonblocking : bool := %s.\n\n", boolS(nonblocking))
	}
	// server side: which handlers run inside the dispatcher's read loop, and how the dispatcher ends
	{
		srvf, err := funcs(fset, filepath.Join(tx.Repo, "server/control.go"))
		if err != nil {
			return nil, err
		}
		reg, err := need(srvf, "Control.registerMsgHandlers")
		if err != nil {
			return nil, err
		}
		known := map[string]string{"NewProxy": "newproxy", "CloseProxy": "closeproxy", "Ping": "ping",
			"NatHoleVisitor": "natholevisitor", "NatHoleClient": "natholeclient", "NatHoleReport": "natholereport"}
		seen := map[string]bool{}
		var rerr error
		ast.Inspect(reg.Body, func(n ast.Node) bool {
			c, ok := n.(*ast.CallExpr)
			if !ok || rerr != nil {
				return true
			}
			sel, ok := c.Fun.(*ast.SelectorExpr)
			if !ok || sel.Sel.Name != "RegisterHandler" {
				return true
			}
			if len(c.Args) != 2 {
				rerr = fmt.Errorf("server RegisterHandler with %d arguments", len(c.Args))
				return false
			}
			t := strings.TrimSuffix(strings.TrimPrefix(src(fset, c.Args[0]), "&msg."), "{}")
			name, ok := known[t]
			if !ok || seen[t] {
				rerr = fmt.Errorf("server handler for unknown or repeated message type %s", src(fset, c.Args[0]))
				return false
			}
			seen[t] = true
			async := false
			if hc, ok := c.Args[1].(*ast.CallExpr); ok {
				if !isSel(hc.Fun, "msg", "AsyncHandler") {
					rerr = fmt.Errorf("server handler expression not recognised: %s", src(fset, c.Args[1]))
					return false
				}
				async = true
			}
			fmt.Fprintf(&b, "Definition gen_srv_async_%s : bool := %s.\n", name, boolS(async))
			return true
		})
		if rerr != nil {
			return nil, rerr
		}
		for t := range known {
			if !seen[t] {
				return nil, fmt.Errorf("server registerMsgHandlers has no handler for %s", t)
			}
		}
		// pkg/msg/handler.go: handlers are called in place by readLoop; doneCh is closed by readLoop only
		hf, err := funcs(fset, filepath.Join(tx.Repo, "pkg/msg/handler.go"))
		if err != nil {
			return nil, err
		}
		rl, err := need(hf, "Dispatcher.readLoop")
		if err != nil {
			return nil, err
		}
		inline := strings.Contains(src(fset, rl.Body), "\thandler(m)") && !strings.Contains(src(fset, rl.Body), "go handler(")
		goStmts := 0
		ast.Inspect(rl.Body, func(n ast.Node) bool {
			if _, ok := n.(*ast.GoStmt); ok {
				goStmts++
			}
			return true
		})
		closers := []string{}
		for name, fn := range hf {
			if strings.Contains(strings.Join(strings.Fields(src(fset, fn.Body)), ""), "close(d.doneCh)") {
				closers = append(closers, name)
			}
		}
		b.WriteString("(* pkg/msg/handler.go: readLoop calls the handler in place (no go statement in it); close(d.doneCh) occurs in: " + tx.Sanitize(strings.Join(closers, ", ")) + " *)\n")
		fmt.Fprintf(&b, "Definition gen_dispatcher_handlers_called_in_read_loop : bool := %s.\n", boolS(inline && goStmts == 0))
		fmt.Fprintf(&b, "Definition gen_dispatcher_done_closed_by_read_loop_only : bool := %s.\n\n", boolS(len(closers) == 1 && closers[0] == "Dispatcher.readLoop"))
	}
	// pkg/auth/oidc.go: the shared verifier only ever APPENDS a login's subject to subjectsFromLogin
	{
		of, err := funcs(fset, filepath.Join(tx.Repo, "pkg/auth/oidc.go"))
		if err != nil {
			return nil, err
		}
		vl, err := need(of, "OidcAuthConsumer.VerifyLogin")
		if err != nil {
			return nil, err
		}
		appends, others := 0, []string{}
		for name, fn := range of {
			ast.Inspect(fn.Body, func(n ast.Node) bool {
				as, ok := n.(*ast.AssignStmt)
				if !ok || len(as.Lhs) != 1 || !strings.HasSuffix(src(fset, as.Lhs[0]), ".subjectsFromLogin") {
					return true
				}
				rhs := strings.Join(strings.Fields(src(fset, as.Rhs[0])), "")
				if name == "OidcAuthConsumer.VerifyLogin" && rhs == "append(auth.subjectsFromLogin,token.Subject)" {
					appends++
				} else {
					others = append(others, name+": "+rhs)
				}
				return true
			})
		}
		guarded := strings.Contains(strings.Join(strings.Fields(src(fset, vl.Body)), ""), "if!slices.Contains(auth.subjectsFromLogin,token.Subject){auth.subjectsFromLogin=append(auth.subjectsFromLogin,token.Subject)}")
		b.WriteString("(* oidc verifier: VerifyLogin does `if !Contains(subjects, s) { subjects = append(subjects, s) }` and nothing else assigns the list")
		if len(others) > 0 {
			b.WriteString("; other assignments: " + tx.Sanitize(strings.Join(others, "; ")))
		}
		b.WriteString(" *)\n")
		fmt.Fprintf(&b, "Definition gen_oidc_login_only_appends_subject : bool := %s.\n\n", boolS(appends == 1 && guarded && len(others) == 0))
	}
	run, err := need(svc, "Service.Run")
	if err != nil {
		return nil, err
	}
	m1, e1, err := loginCall(fset, run)
	if err != nil {
		return nil, err
	}
	keep, _ := need(svc, "Service.keepControllerWorking")
	m2, e2, err := loginCall(fset, keep)
	if err != nil {
		return nil, err
	}
	if e1 != "cfg" {
		return nil, fmt.Errorf("Run: the first login's exit flag is %s, not the LoginFailExit setting", e1)
	}
	if e2 == "cfg" {
		return nil, fmt.Errorf("keepControllerWorking: the re-login's exit flag depends on the configuration; the model takes a constant")
	}
	fmt.Fprintf(&b, "(* Service.Run: svr.loopLoginUntilSuccess(%s ns, lo.FromPtr(svr.common.LoginFailExit)) *)\nDefinition gen_first_login_max : Z := %s.\nDefinition gen_first_login_exit_from_cfg : bool := true.\n", m1, m1)
	fmt.Fprintf(&b, "(* Service.keepControllerWorking: svr.loopLoginUntilSuccess(%s ns, %s) *)\nDefinition gen_relogin_max : Z := %s.\nDefinition gen_relogin_exit : bool := %s.\n\n", m2, e2, m2, e2)

	sfn, err := funcs(fset, filepath.Join(tx.Repo, "pkg/config/v1/server.go"))
	if err != nil {
		return nil, err
	}
	cfn, err := funcs(fset, filepath.Join(tx.Repo, "pkg/config/v1/client.go"))
	if err != nil {
		return nil, err
	}
	sc, err := need(sfn, "ServerTransportConfig.Complete")
	if err != nil {
		return nil, err
	}
	cc, err := need(cfn, "ClientTransportConfig.Complete")
	if err != nil {
		return nil, err
	}
	sm, sn, err := hbDefaults(fset, sc, []string{"HeartbeatTimeout"})
	if err != nil {
		return nil, fmt.Errorf("server.go: %v", err)
	}
	cm, cn, err := hbDefaults(fset, cc, []string{"HeartbeatInterval", "HeartbeatTimeout"})
	if err != nil {
		return nil, fmt.Errorf("client.go: %v", err)
	}
	fmt.Fprintf(&b, "(* ServerTransportConfig.Complete *)\nDefinition gen_hb_server_default (tcpmux : bool) (timeout : Z) : Z :=\n  if tcpmux then hb_empty_or timeout %s else hb_empty_or timeout %s.\n\n", sm["HeartbeatTimeout"], sn["HeartbeatTimeout"])
	fmt.Fprintf(&b, "(* ClientTransportConfig.Complete *)\nDefinition gen_hb_client_default (tcpmux : bool) (interval timeout : Z) : Z * Z :=\n  if tcpmux then (hb_empty_or interval %s, hb_empty_or timeout %s)\n  else (hb_empty_or interval %s, hb_empty_or timeout %s).\n",
		cm["HeartbeatInterval"], cm["HeartbeatTimeout"], cn["HeartbeatInterval"], cn["HeartbeatTimeout"])
	return b.Bytes(), nil
}
