package main

// Driver "slowdrain" (C01, run by hand or by the thorough tier; -extra "limit,bytes,keepalive_s,dir"):
// tcpMux on; one endpoint writes N bytes and closes at once while the receiving side drains through a
// bandwidth limit.  yamux arms StreamCloseTimeout (default 5 min, not configurable in frp) when the writer's
// side closes its stream and resets the stream when the timer fires before the peer's FIN arrives: the
// reader then sees end-of-stream after a truncated prefix.  The close-drain argument needs
//     bytes in flight at close (<= MaxStreamWindowSize = 6 MiB)  <=  drain rate x StreamCloseTimeout.
// Prints what the reader got.

import (
	"crypto/sha256"
	"fmt"
	"io"
	"net"
	"strings"
	"time"

	"github.com/fatedier/frp/pkg/config/types"
	v1 "github.com/fatedier/frp/pkg/config/v1"
	"verifharness/hx"
)

func init() { drivers["slowdrain"] = runSlowDrain }

// slowDrainOnce: dir "up": the user writes n bytes and closes, the backend reads to EOF (client-side limit);
// dir "down": the backend writes n bytes and closes, the user reads to EOF (server-side limit).
func slowDrainOnce(addr, limit string, n int, keepalive int, dir string, wait time.Duration) (got int, same bool, eof bool, took time.Duration, err error) {
	s, err := hx.StartServer(addr, func(c *v1.ServerConfig) {
		t := true
		c.Transport.TCPMux = &t
		if keepalive > 0 {
			c.Transport.TCPMuxKeepaliveInterval = int64(keepalive)
		}
	})
	if err != nil {
		return 0, false, false, 0, err
	}
	defer s.Close()
	payload := genPayload(0, int64(n), 7, n)
	type result struct {
		n    int
		sum  [32]byte
		eof  bool
		when time.Time
	}
	resCh := make(chan result, 1)
	readAll := func(c net.Conn) result {
		h := sha256.New()
		_ = c.SetReadDeadline(time.Now().Add(wait))
		m, e := io.Copy(h, c)
		var r result
		r.n, r.eof, r.when = int(m), e == nil, time.Now()
		copy(r.sum[:], h.Sum(nil))
		return r
	}
	l, err := net.Listen("tcp", net.JoinHostPort(addr, "0"))
	if err != nil {
		return 0, false, false, 0, err
	}
	defer l.Close()
	go func() {
		c, e := l.Accept()
		if e != nil {
			return
		}
		defer c.Close()
		if dir == "up" {
			resCh <- readAll(c)
		} else {
			_, _ = c.Write(payload)
		}
	}()
	pc := &v1.TCPProxyConfig{}
	pc.Name, pc.Type = "drain", "tcp"
	pc.LocalIP, pc.LocalPort = addr, l.Addr().(*net.TCPAddr).Port
	pc.RemotePort = hx.FreePort(addr)
	q, _ := types.NewBandwidthQuantity(limit)
	pc.Transport.BandwidthLimit = q
	if dir == "down" {
		pc.Transport.BandwidthLimitMode = "server"
	}
	cl, err := s.StartClient([]v1.ProxyConfigurer{pc}, nil, func(cc *v1.ClientCommonConfig) {
		if keepalive > 0 {
			cc.Transport.TCPMuxKeepaliveInterval = int64(keepalive)
		}
	})
	if err != nil {
		return 0, false, false, 0, err
	}
	defer cl.Close()
	if !cl.WaitProxyRunning("drain", 8*time.Second) {
		return 0, false, false, 0, fmt.Errorf("proxy did not start")
	}
	u, err := net.DialTimeout("tcp", net.JoinHostPort(addr, fmt.Sprint(pc.RemotePort)), 3*time.Second)
	if err != nil {
		return 0, false, false, 0, err
	}
	t0 := time.Now()
	var r result
	if dir == "up" {
		_ = u.SetWriteDeadline(time.Now().Add(wait))
		if _, err := u.Write(payload); err != nil {
			u.Close()
			return 0, false, false, 0, fmt.Errorf("user write: %v", err)
		}
		u.Close()
		select {
		case r = <-resCh:
		case <-time.After(wait):
			return 0, false, false, time.Since(t0), fmt.Errorf("backend saw no end of stream within %v", wait)
		}
	} else {
		r = readAll(u)
		u.Close()
	}
	return r.n, r.n == n && r.sum == sha256.Sum256(payload), r.eof, r.when.Sub(t0), nil
}

func runSlowDrain(cfg *hx.RunCfg) error {
	hx.Quiet()
	limit, n, keep, dir := "8KB", 4<<20, 0, "up"
	if cfg.Extra == "" {
		cfg.Extra = "8KB,4194304,0,up"
	}
	if cfg.Extra != "" {
		p := strings.Split(cfg.Extra, ",")
		if len(p) == 4 {
			limit, dir = p[0], p[3]
			fmt.Sscan(p[1], &n)
			fmt.Sscan(p[2], &keep)
		}
	}
	got, same, eof, took, err := slowDrainOnce("127.0.1.8", limit, n, keep, dir, 12*time.Minute)
	fmt.Printf("slowdrain limit=%s bytes=%d keepalive=%d dir=%s: reader got %d bytes, identical=%v, clean EOF=%v, after %v, err=%v\n", limit, n, keep, dir, got, same, eof, took.Round(time.Millisecond), err)
	cfg.St["cases"] = 1
	cfg.St["distinct_nontrivial"] = 1
	cfg.St["got"], cfg.St["sent"], cfg.St["identical"], cfg.St["seconds"] = got, n, same, int(took.Seconds())
	cfg.St["samples"] = []string{fmt.Sprintf("slowdrain limit=%s bytes=%d keepalive=%d dir=%s: reader got %d, identical=%v, clean EOF=%v after %v", limit, n, keep, dir, got, same, eof, took.Round(time.Second))}
	if err != nil {
		cfg.St["impl_failures"] = []map[string]string{{"key": "slowdrain-setup", "what": "slow-receiver replay did not run: " + err.Error(), "case": cfg.Extra}}
	} else if keep == 0 && got < n && eof {
		// the recorded finding F-C01c, replayed for real
		cfg.St["observed_findings"] = []map[string]string{{"key": "tunnel-close:yamux-stream-close-timeout-slow-receiver",
			"what": fmt.Sprintf("tcpMux on, default yamux StreamCloseTimeout: %d bytes written and closed, receiver draining at %s/s got %d bytes followed by a clean end of stream after %v", n, limit, got, took.Round(time.Second)),
			"case": "work/h_c01 slowdrain -extra " + cfg.Extra}}
	}
	return nil
}
