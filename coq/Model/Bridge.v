(* C01: the plumbing around the wrapper stacks.  Model only: no proofs here.
   1. StartWorkConn naming (server/proxy/proxy.go GetWorkConnFromPool) and client dispatch by proxy
      name (client/control.go handleReqWorkConn -> proxy.Manager.HandleWorkConn)
   2. proxy-protocol header built by the client from the StartWorkConn src/dst
      (client/proxy/proxy.go HandleTCPWorkConnection, go-proxyproto Header.Format)
   3. sniff and replay (golib net.SharedConn as used by vhost.GetHTTPSHostname and the tcpmux muxer)
   4. golib io.Join as a two-thread program closing through the wrapper stack *)
From FRP Require Export Model.Bytes Model.StackTypes.
Open Scope string_scope.
Open Scope list_scope.
Open Scope Z_scope.

(* ---------- 1. naming and dispatch ---------- *)

Record br_addr := { a_ip : list Z; a_port : Z }.        (* IPv4: four octets *)

Record br_start := { sw_name : string; sw_src : option br_addr; sw_dst : option br_addr }.

(* GetWorkConnFromPool: for i := 0; i < poolCount+1; i++ { take a connection (getWorkConnFn error ->
   return); write StartWorkConn{ProxyName: pxy.GetName(), src, dst}; on write error close it and
   try the next }.  The pool is the oracle: (connection id, does the write on it succeed).
   Result: the connection announced for [pname], the remaining pool, the connections closed. *)
Fixpoint br_get_work_conn (tries : nat) (pname : string) (src dst : option br_addr)
    (pool : list (Z * bool)) (closed : list Z) : option (Z * br_start) * list (Z * bool) * list Z :=
  match tries with
  | O => (None, pool, closed)
  | S k =>
      match pool with
      | [] => (None, [], closed)
      | (c, true) :: rest => (Some (c, {| sw_name := pname; sw_src := src; sw_dst := dst |}), rest, closed)
      | (c, false) :: rest => br_get_work_conn k pname src dst rest (c :: closed)
      end
  end.

(* the listener that accepted the user connection belongs to one server proxy (the handler closure) *)
Fixpoint br_assoc {A} (k : string) (l : list (string * A)) : option A :=
  match l with [] => None | (a, b) :: r => if String.eqb a k then Some b else br_assoc k r end.
Fixpoint br_listener (e : Z) (l : list (Z * string)) : option string :=
  match l with [] => None | (a, b) :: r => if a =? e then Some b else br_listener e r end.

(* client: pm.proxies[startMsg.ProxyName]; unknown name -> the work connection is closed *)
Definition br_client_dispatch (tbl : list (string * Z)) (m : br_start) : option Z := br_assoc (sw_name m) tbl.

(* a user connects to public endpoint [e] from [uremote] (its local end on the server is [ulocal]);
   the work connection's own addresses [wremote wlocal] are available to the code but not used *)
Definition br_bridge (listeners : list (Z * string)) (tbl : list (string * Z)) (poolcount : nat)
    (pool : list (Z * bool)) (e : Z) (uremote ulocal wremote wlocal : br_addr) : option (Z * Z * br_start) :=
  match br_listener e listeners with
  | None => None
  | Some p =>
      match br_get_work_conn (S poolcount) p (Some uremote) (Some ulocal) pool [] with
      | (Some (c, m), _, _) =>
          match br_client_dispatch tbl m with
          | Some backend => Some (c, backend, m)
          | None => None
          end
      | _ => None
      end
  end.

(* reflective tie to the source (tables of gen/GenStacks.v, canonical expressions) *)
Fixpoint br_assoc_s (k : string) (l : list (string * string)) : option string :=
  match l with [] => None | (a, b) :: r => if String.eqb a k then Some b else br_assoc_s k r end.
Definition str_is (o : option string) (s : string) : bool :=
  match o with Some x => String.eqb x s | None => false end.
Definition br_prefix (p s : string) : bool := String.eqb (substring 0 (String.length p) s) p.
Definition br_suffix (suf s : string) : bool :=
  let n := String.length s in let m := String.length suf in
  (m <=? n)%nat && String.eqb (substring (n - m) m s) suf.

Definition naming_ok (swc : list (string * string)) (gwc cda cdl : list string) : bool :=
  str_is (br_assoc_s "ProxyName" swc) "$recv.GetName()" &&
  str_is (br_assoc_s "SrcAddr" swc) "net.SplitHostPort($0.String())#0" &&
  str_is (br_assoc_s "SrcPort" swc) "uint16(strconv.ParseUint(net.SplitHostPort($0.String())#1, 10, 16)#0)" &&
  str_is (br_assoc_s "DstAddr" swc) "net.SplitHostPort($1.String())#0" &&
  str_is (br_assoc_s "DstPort" swc) "uint16(strconv.ParseUint(net.SplitHostPort($1.String())#1, 10, 16)#0)" &&
  match gwc with [a; b] => String.eqb a "$0.RemoteAddr()" && String.eqb b "$0.LocalAddr()" | _ => false end &&
  match cda with
  | [a; _; c] => br_suffix ".ProxyName" a && String.eqb c ("&" ++ substring 0 (String.length a - 10) a)
  | _ => false
  end &&
  match cdl with
  | [a; c] => String.eqb a "$recv.proxies[$0]" && String.eqb c "call $recv.proxies[$0]#0.InWorkConn($1, $2)"
  | _ => false
  end.

(* ---------- 2. proxy-protocol header ---------- *)

Definition pp2_sig : bytes := hx "0d0a0d0a000d0a515549540a".

Definition ip_bytes (a : br_addr) : bytes := map byte_of_Z (a_ip a).

(* version 2, PROXY command, TCP over IPv4: sig, 0x21, 0x11, length 12, src ip, dst ip, src port, dst port *)
Definition pp_v2 (src dst : br_addr) : bytes :=
  pp2_sig ++ [byte_of_Z 33; byte_of_Z 17] ++ be 2 12 ++ ip_bytes src ++ ip_bytes dst ++ be 2 (a_port src) ++ be 2 (a_port dst).

(* decimal rendering as strconv.Itoa for 0 <= n < 100000 *)
Definition digit (d : Z) : byte := byte_of_Z (48 + d).
Definition dec_bytes (n : Z) : bytes :=
  if n <? 10 then [digit n]
  else if n <? 100 then [digit (n / 10); digit (n mod 10)]
  else if n <? 1000 then [digit (n / 100); digit (n / 10 mod 10); digit (n mod 10)]
  else if n <? 10000 then [digit (n / 1000); digit (n / 100 mod 10); digit (n / 10 mod 10); digit (n mod 10)]
  else [digit (n / 10000); digit (n / 1000 mod 10); digit (n / 100 mod 10); digit (n / 10 mod 10); digit (n mod 10)].

Definition sp : bytes := hx "20".
Definition dot : bytes := hx "2e".
Definition ip_text (a : br_addr) : bytes :=
  match a_ip a with
  | [a1; a2; a3; a4] => dec_bytes a1 ++ dot ++ dec_bytes a2 ++ dot ++ dec_bytes a3 ++ dot ++ dec_bytes a4
  | _ => []
  end.

(* version 1: "PROXY TCP4 <src> <dst> <sport> <dport>\r\n" *)
Definition pp_v1 (src dst : br_addr) : bytes :=
  hx "50524f5859" ++ sp ++ hx "54435034" ++ sp ++ ip_text src ++ sp ++ ip_text dst ++ sp ++
  dec_bytes (a_port src) ++ sp ++ dec_bytes (a_port dst) ++ hx "0d0a".

Definition addr_ok (a : br_addr) : bool :=
  (length (a_ip a) =? 4)%nat && forallb (fun o => (0 <=? o) && (o <? 256)) (a_ip a) && (0 <=? a_port a) && (a_port a <? 65536).

Inductive pp_out := PPNone | PPHeader (h : bytes) | PPError.

Definition localhost : br_addr := {| a_ip := [127; 0; 0; 1]; a_port := 0 |}.

(* HandleTCPWorkConnection: header only if a version is configured and the message carries a source
   (SrcAddr <> "" && SrcPort <> 0); a missing destination address becomes 127.0.0.1; version "v1" -> 1,
   "v2" -> 2, anything else leaves Version 0 and Header.Format fails (the work connection is closed) *)
Definition br_client_header (ver : string) (m : br_start) : pp_out :=
  if String.eqb ver "" then PPNone
  else match sw_src m with
       | None => PPNone
       | Some src =>
           if a_port src =? 0 then PPNone
           else
             let dst := match sw_dst m with Some d => d | None => localhost end in
             if String.eqb ver "v1" then PPHeader (pp_v1 src dst)
             else if String.eqb ver "v2" then PPHeader (pp_v2 src dst)
             else PPError
       end.

(* a parser for version 2 headers, to state that the header determines the source address *)
Definition pp2_parse (s : bytes) : option (br_addr * br_addr * bytes) :=
  if bytes_eqb (firstn 12 s) pp2_sig then
    match skipn 12 s with
    | v :: f :: l1 :: l0 :: s1 :: s2 :: s3 :: s4 :: d1 :: d2 :: d3 :: d4 :: p1 :: p0 :: q1 :: q0 :: rest =>
        if (Z_of_byte v =? 33) && (Z_of_byte f =? 17) && (rdu [l1; l0] 0 =? 12) then
          Some ({| a_ip := map Z_of_byte [s1; s2; s3; s4]; a_port := rdu [p1; p0] 0 |},
                {| a_ip := map Z_of_byte [d1; d2; d3; d4]; a_port := rdu [q1; q0] 0 |}, rest)
        else None
    | _ => None
    end
  else None.

Definition pp_ok (ppf : list (string * string)) (ppa : list (string * string * string)) (ppw : list (string * string)) : bool :=
  let src_of := fun (field : string) (want : string) =>
    existsb (fun x => match x with (_, l, r) => String.eqb l field && String.eqb r want end) ppa in
  match br_assoc_s "SourceAddr" ppf, br_assoc_s "DestinationAddr" ppf with
  | Some s, Some d =>
      br_suffix ".SrcAddr" s && br_suffix ".DstAddr" d && str_is (br_assoc_s "Command" ppf) "pp.PROXY" &&
      src_of "connInfo.SrcAddr" "net.ResolveTCPAddr(""tcp"", net.JoinHostPort($1.SrcAddr, strconv.Itoa(int($1.SrcPort))))#0" &&
      src_of "connInfo.DstAddr" "net.ResolveTCPAddr(""tcp"", net.JoinHostPort($1.DstAddr, strconv.Itoa(int($1.DstPort))))#0" &&
      match ppw with
      | [(callee, arg)] => br_suffix ".ProxyProtocolHeader.WriteTo" callee && br_prefix "libnet.Dial(net.JoinHostPort($recv.baseCfg.LocalIP" arg
      | _ => false
      end
  | _, _ => false
  end.

(* ---------- 3. sniff and replay (SharedConn) ---------- *)

(* sc_buf = Some b: the tee buffer still holds b; None: buf == nil.  sc_conn: what the connection
   will still deliver (the harness decides how much of it each Read hands over: [offer]) *)
Record sc_state := { sc_buf : option bytes; sc_conn : bytes }.

Definition sc_new (incoming : bytes) : sc_state := {| sc_buf := Some []; sc_conn := incoming |}.

Definition take (n : Z) (s : bytes) : bytes := firstn (Z.to_nat n) s.
Definition drop (n : Z) (s : bytes) : bytes := skipn (Z.to_nat n) s.

(* one Read of the sniffer through io.TeeReader(conn, buf): the bytes read are appended to buf *)
Definition sc_tee_read (st : sc_state) (plen offer : Z) : bytes * sc_state :=
  let n := Z.min plen offer in
  let d := take n (sc_conn st) in
  (d, {| sc_buf := match sc_buf st with Some b => Some (b ++ d) | None => None end; sc_conn := drop n (sc_conn st) |}).

Fixpoint sc_sniff (st : sc_state) (reads : list (Z * Z)) : sc_state :=
  match reads with [] => st | (p, o) :: r => sc_sniff (snd (sc_tee_read st p o)) r end.

(* SharedConn.Read: if buf == nil -> conn.Read(p).  n, err = buf.Read(p) (bytes.Buffer: empty and
   len(p) > 0 -> 0, io.EOF; otherwise copy, nil).  On EOF: buf = nil; n2 = conn.Read(p[n:]). *)
Definition sc_read (st : sc_state) (plen offer : Z) : bytes * sc_state :=
  match sc_buf st with
  | None => let n := Z.min plen offer in (take n (sc_conn st), {| sc_buf := None; sc_conn := drop n (sc_conn st) |})
  | Some b =>
      if (blen b =? 0) && (0 <? plen) then
        let n := Z.min plen offer in (take n (sc_conn st), {| sc_buf := None; sc_conn := drop n (sc_conn st) |})
      else (take plen b, {| sc_buf := Some (drop plen b); sc_conn := sc_conn st |})
  end.

Fixpoint sc_reads (st : sc_state) (reads : list (Z * Z)) : list bytes * sc_state :=
  match reads with
  | [] => ([], st)
  | (p, o) :: r => let '(d, st') := sc_read st p o in let '(ds, st'') := sc_reads st' r in (d :: ds, st'')
  end.

(* what the muxer hands to the proxy: the SharedConn (https; tcpmux with passthrough) or the raw
   connection (tcpmux without passthrough: the CONNECT request is answered by frps and dropped) *)
Definition sc_handover (shared : bool) (st : sc_state) : sc_state :=
  if shared then st else {| sc_buf := None; sc_conn := sc_conn st |}.

Definition sc_pending (st : sc_state) : bytes := match sc_buf st with Some b => b | None => [] end.

(* ---------- 4. Join and close propagation ---------- *)

(* golib io.Join(c1, c2): two goroutines pipe(to, from) { defer wait.Done(); defer to.Close(); defer from.Close();
   io.CopyBuffer(to, from, buf) }.  Thread X copies A -> B, thread Y copies B -> A.  A is a plain connection
   (user socket / backend socket), B is the wrapper stack over the work connection.
   Atomic steps: the copy ending (possible once the Read on its source returns: peer EOF or the source's
   underlying connection closed locally), from.Close(), to.Close().
   W: close-function shapes of B's wrappers, OUTERMOST first.  golib ReadWriteCloser.Close: if closed
   { return nil }; closed = true; closeFn().  Closing the whole stack is one step here (each wrapper's
   test-and-set is under its own mutex in the Go code; the interleaving of two concurrent closers only
   decides which of them runs a given closeFn). *)
Inductive jphase := JCopy | JCloseFrom | JCloseTo | JDone.

Record jstate := {
  j_peerA : bool; j_peerB : bool;          (* the remote peer of A / of B's underlying connection has closed *)
  j_baseA : Z; j_baseB : Z;                (* Close() calls received by the underlying connections *)
  j_flags : list bool;                     (* closed flags of B's wrappers, outermost first *)
  j_calls : list Z;                        (* closeFn invocations of B's wrappers *)
  j_x : jphase; j_y : jphase }.

Inductive jev := EvPeerA | EvPeerB | EvX | EvY.

Fixpoint close_stack (W : list sk_close) (fl : list bool) (calls : list Z) : list bool * list Z * bool :=
  match W, fl, calls with
  | [], _, _ => (fl, calls, true)                          (* the underlying connection is reached *)
  | c :: W', f :: fl', n :: calls' =>
      if f then (fl, calls, false)                         (* already closed: return nil *)
      else match c with
           | CtInner => let '(a, b, r) := close_stack W' fl' calls' in (true :: a, (n + 1) :: b, r)
           | _ => (true :: fl', (n + 1) :: calls', false)   (* closeFn closes the wrapper itself (once-flag set: nil) or something else *)
           end
  | _, _, _ => (fl, calls, false)
  end.

Definition j_init (W : list sk_close) : jstate :=
  {| j_peerA := false; j_peerB := false; j_baseA := 0; j_baseB := 0;
     j_flags := repeat false (length W); j_calls := repeat 0 (length W); j_x := JCopy; j_y := JCopy |}.

Definition close_A (st : jstate) : jstate :=
  {| j_peerA := j_peerA st; j_peerB := j_peerB st; j_baseA := j_baseA st + 1; j_baseB := j_baseB st;
     j_flags := j_flags st; j_calls := j_calls st; j_x := j_x st; j_y := j_y st |}.

Definition close_B (W : list sk_close) (st : jstate) : jstate :=
  let '(fl, calls, r) := close_stack W (j_flags st) (j_calls st) in
  {| j_peerA := j_peerA st; j_peerB := j_peerB st; j_baseA := j_baseA st;
     j_baseB := j_baseB st + (if r then 1 else 0);
     j_flags := fl; j_calls := calls; j_x := j_x st; j_y := j_y st |}.

Definition set_x (p : jphase) (st : jstate) : jstate :=
  {| j_peerA := j_peerA st; j_peerB := j_peerB st; j_baseA := j_baseA st; j_baseB := j_baseB st;
     j_flags := j_flags st; j_calls := j_calls st; j_x := p; j_y := j_y st |}.
Definition set_y (p : jphase) (st : jstate) : jstate :=
  {| j_peerA := j_peerA st; j_peerB := j_peerB st; j_baseA := j_baseA st; j_baseB := j_baseB st;
     j_flags := j_flags st; j_calls := j_calls st; j_x := j_x st; j_y := p |}.

(* the Read on the source returns once its peer has closed or its underlying connection was closed here *)
Definition x_enabled (st : jstate) : bool :=
  match j_x st with JCopy => j_peerA st || (0 <? j_baseA st) | JDone => false | _ => true end.
Definition y_enabled (st : jstate) : bool :=
  match j_y st with JCopy => j_peerB st || (0 <? j_baseB st) | JDone => false | _ => true end.

Definition j_step (W : list sk_close) (st : jstate) (e : jev) : jstate :=
  match e with
  | EvPeerA => {| j_peerA := true; j_peerB := j_peerB st; j_baseA := j_baseA st; j_baseB := j_baseB st;
                  j_flags := j_flags st; j_calls := j_calls st; j_x := j_x st; j_y := j_y st |}
  | EvPeerB => {| j_peerA := j_peerA st; j_peerB := true; j_baseA := j_baseA st; j_baseB := j_baseB st;
                  j_flags := j_flags st; j_calls := j_calls st; j_x := j_x st; j_y := j_y st |}
  | EvX =>
      if x_enabled st then
        match j_x st with
        | JCopy => set_x JCloseFrom st
        | JCloseFrom => set_x JCloseTo (close_A st)       (* from.Close(): A *)
        | JCloseTo => set_x JDone (close_B W st)          (* to.Close(): B *)
        | JDone => st
        end
      else st
  | EvY =>
      if y_enabled st then
        match j_y st with
        | JCopy => set_y JCloseFrom st
        | JCloseFrom => set_y JCloseTo (close_B W st)     (* from.Close(): B *)
        | JCloseTo => set_y JDone (close_A st)            (* to.Close(): A *)
        | JDone => st
        end
      else st
  end.

Definition j_run (W : list sk_close) (sched : list jev) (st : jstate) : jstate := fold_left (j_step W) sched st.

Definition j_triggered (st : jstate) : bool :=
  j_peerA st || j_peerB st ||
  match j_x st with JCopy => false | _ => true end || match j_y st with JCopy => false | _ => true end.
Definition j_all_done (st : jstate) : bool :=
  match j_x st, j_y st with JDone, JDone => true | _, _ => false end.
Definition j_rank (p : jphase) : Z := match p with JCopy => 3 | JCloseFrom => 2 | JCloseTo => 1 | JDone => 0 end.
Definition j_remaining (st : jstate) : Z := j_rank (j_x st) + j_rank (j_y st).

(* nine thread steps are enough from any triggered state, whichever side ended first *)
Definition j_drain : list jev := [EvX; EvX; EvX; EvY; EvY; EvY; EvX; EvX; EvX].

(* close-function shapes of a site's wrappers, outermost first, for a valuation of the guards:
   cipher and compressor wrappers (golib WithEncryption / WithCompression[FromPool]) close the value
   they wrap; the limiter wrapper's shape comes from the translator's table *)
Fixpoint site_close_shapes (fe fc fl : bool) (ls : list sk_layer) : option (list sk_close) :=
  match ls with
  | [] => Some []
  | l :: r =>
      match site_close_shapes fe fc fl r with
      | None => None
      | Some up =>
          match l with
          | SkEnc _ _ true => Some (if fe then up ++ [CtInner] else up)
          | SkComp _ _ true => Some (if fc then up ++ [CtInner] else up)
          | SkLimit _ true true c => Some (if fl then up ++ [c] else up)
          | SkToConn true | SkStats true => Some (up ++ [CtInner])
          | _ => None
          end
      end
  end.

Definition all_inner (W : list sk_close) : bool := forallb (fun c => sk_close_eqb c CtInner) W.

(* the sites that carry TCP-class tunnels join exactly once, with the stack top on one side *)
Definition join_ok (s : sk_site) : bool :=
  match sk_joins s with
  | [(a, b)] => xorb a b
  | _ => false
  end.

Definition c01_join_sites : list (string * string) :=
  [ ("server/proxy/proxy.go", "handleUserTCPConnection"); ("client/proxy/proxy.go", "HandleTCPWorkConnection");
    ("client/visitor/stcp.go", "handleConn"); ("client/visitor/xtcp.go", "handleConn") ].

Fixpoint br_find_site (file fn : string) (sites : list sk_site) : option sk_site :=
  match sites with
  | [] => None
  | s :: r => if String.eqb (sk_file s) file && String.eqb (sk_func s) fn then Some s else br_find_site file fn r
  end.

(* every site that builds a wrapper stack (all ten of the table): for every valuation of the guards every
   close function closes what it wraps; the four TCP-class sites moreover join exactly once *)
Definition c01_all_sites : list (string * string) :=
  [ ("server/proxy/proxy.go", "handleUserTCPConnection"); ("server/proxy/http.go", "GetRealConn");
    ("server/proxy/udp.go", "Run"); ("server/visitor/visitor.go", "NewConn");
    ("client/proxy/proxy.go", "HandleTCPWorkConnection"); ("client/proxy/udp.go", "InWorkConn");
    ("client/proxy/sudp.go", "InWorkConn"); ("client/visitor/stcp.go", "handleConn");
    ("client/visitor/sudp.go", "getNewVisitorConn"); ("client/visitor/xtcp.go", "handleConn") ].

Definition site_shapes_ok (sites : list sk_site) (id : string * string) : bool :=
  match br_find_site (fst id) (snd id) sites with
  | Some s =>
      forallb (fun fe => forallb (fun fc => forallb (fun fl =>
        match site_close_shapes fe fc fl (sk_layers s) with Some W => all_inner W | None => false end)
        [true; false]) [true; false]) [true; false]
  | None => false
  end.

Definition site_closes_ok (sites : list sk_site) (id : string * string) : bool :=
  match br_find_site (fst id) (snd id) sites with
  | Some s => join_ok s && site_shapes_ok sites id
  | None => false
  end.

(* pooled snappy objects (WithCompressionFromPool) go back to the process-wide pool when the recycle function
   runs; that is only sound in a function that blocks in libio.Join until the stream is over.  A site that
   returns or queues the wrapped connection must use WithCompression. *)
Definition has_pooled (s : sk_site) : bool :=
  existsb (fun l => match l with SkComp _ true _ => true | _ => false end) (sk_layers s).
Definition pooled_only_with_join (sites : list sk_site) : bool :=
  forallb (fun s => if has_pooled s then match sk_joins s with [] => false | _ => true end else true) sites.

Definition closes_ok (sites : list sk_site) : bool :=
  forallb (site_closes_ok sites) c01_join_sites && forallb (site_shapes_ok sites) c01_all_sites &&
  pooled_only_with_join sites.

(* a handshake message is read directly from the connection that is afterwards wrapped and joined: no
   buffering reader in between (what it reads ahead would be swallowed, cf. unshared_drops_only_sniffed) *)
Definition handshake_readers_ok (hr : list (string * string * string)) : bool :=
  (3 <=? length hr)%nat &&
  forallb (fun x => match x with (_, _, a) =>
    String.eqb a "$recv.helper.ConnectServer()#0" || String.eqb a "$recv.connectServer()#0" end) hr.

(* ---------- 5. close propagation end to end: two Joins and the transport between them ---------- *)

(* frps joins (A = user connection, B = stack over its end of the work connection); frpc joins
   (A = backend connection, B = stack over its end of the work connection).  The transport carries a
   close of one end of the work connection to the other end ONLY IF it has close signalling: TCP FIN,
   a yamux FIN frame (tcpMux), a quic stream close, a websocket close.  A raw kcp session has none:
   [link_signals] is false exactly for protocol = kcp with tcpMux = false (finding F-C01b, observed by
   the tunnel driver on every run).  The transports themselves are not verified. *)
Definition link_signals (proto_is_kcp tcp_mux : bool) : bool := negb (proto_is_kcp && negb tcp_mux).

Record e2e := { e_srv : jstate; e_cli : jstate }.

Inductive e2ev := EUserClose | EBackendClose | ESrvX | ESrvY | ECliX | ECliY | ELink.

Definition e2e_step (sig : bool) (Ws Wc : list sk_close) (st : e2e) (e : e2ev) : e2e :=
  match e with
  | EUserClose => {| e_srv := j_step Ws (e_srv st) EvPeerA; e_cli := e_cli st |}
  | EBackendClose => {| e_srv := e_srv st; e_cli := j_step Wc (e_cli st) EvPeerA |}
  | ESrvX => {| e_srv := j_step Ws (e_srv st) EvX; e_cli := e_cli st |}
  | ESrvY => {| e_srv := j_step Ws (e_srv st) EvY; e_cli := e_cli st |}
  | ECliX => {| e_srv := e_srv st; e_cli := j_step Wc (e_cli st) EvX |}
  | ECliY => {| e_srv := e_srv st; e_cli := j_step Wc (e_cli st) EvY |}
  | ELink =>
      if sig then
        {| e_srv := if 0 <? j_baseB (e_cli st) then j_step Ws (e_srv st) EvPeerB else e_srv st;
           e_cli := if 0 <? j_baseB (e_srv st) then j_step Wc (e_cli st) EvPeerB else e_cli st |}
      else st
  end.

Definition e2e_run (sig : bool) (Ws Wc : list sk_close) (sched : list e2ev) (st : e2e) : e2e :=
  fold_left (e2e_step sig Ws Wc) sched st.

Definition e2e_init (Ws Wc : list sk_close) : e2e := {| e_srv := j_init Ws; e_cli := j_init Wc |}.

Definition srv_drain : list e2ev := [ESrvX; ESrvX; ESrvX; ESrvY; ESrvY; ESrvY; ESrvX; ESrvX; ESrvX].
Definition cli_drain : list e2ev := [ECliX; ECliX; ECliX; ECliY; ECliY; ECliY; ECliX; ECliX; ECliX].
Definition e2e_drain : list e2ev := srv_drain ++ [ELink] ++ cli_drain ++ [ELink] ++ srv_drain.

Definition not_backend_close (e : e2ev) : bool := match e with EBackendClose => false | _ => true end.
Definition not_user_close (e : e2ev) : bool := match e with EUserClose => false | _ => true end.

(* ---------- 6. the vhost muxer's handling of one connection (vhost.Muxer.handle) ---------- *)

(* The translator lists what handle does to the connection in source order (muxer_handle_events).
   Two things matter to C01:
   (a) deadlines: handle arms a read+write deadline for sniffing; whatever is still armed when the
       connection is handed to the proxy stays armed for the life of the tunnel;
   (b) order of the success hook (tcpmux without passthrough: writes the CONNECT answer to the user) and the
       hand-off (send on the listener's accept channel): after the hand-off the proxy goroutine owns the
       connection and writes the backend's bytes to it, concurrently with whatever handle still does. *)
Definition dl_step (st : bool * bool) (e : string) : bool * bool :=
  let '(r, w) := st in
  if String.eqb e "arm:SetDeadline" then (true, true)
  else if String.eqb e "arm:SetReadDeadline" then (true, w)
  else if String.eqb e "arm:SetWriteDeadline" then (r, true)
  else if String.eqb e "clear:SetDeadline" then (false, false)
  else if String.eqb e "clear:SetReadDeadline" then (false, w)
  else if String.eqb e "clear:SetWriteDeadline" then (r, false)
  else (r, w).

(* (read deadline armed, write deadline armed) at the moment of the hand-off; None: no hand-off *)
Fixpoint dl_at_handoff (st : bool * bool) (evs : list string) : option (bool * bool) :=
  match evs with
  | [] => None
  | e :: r => if String.eqb e "handoff" then Some st else dl_at_handoff (dl_step st e) r
  end.

Inductive mux_op := MResp | MHandoff | MOther.

Definition mux_op_of (e : string) : mux_op :=
  if String.eqb e "successHook" then MResp else if String.eqb e "handoff" then MHandoff else MOther.
Definition mux_prog_of (evs : list string) : list mux_op := map mux_op_of evs.

(* two goroutines writing to the user's connection: the muxer goroutine runs its program; the proxy
   goroutine writes the backend's chunks, but only once the connection was handed to it *)
Record mh_state := { mh_prog : list mux_op; mh_handed : bool; mh_chunks : list bytes; mh_out : bytes }.
Inductive mh_tid := TMux | TProxy.

Definition mh_step (R : bytes) (st : mh_state) (t : mh_tid) : mh_state :=
  match t with
  | TMux =>
      match mh_prog st with
      | [] => st
      | MResp :: r => {| mh_prog := r; mh_handed := mh_handed st; mh_chunks := mh_chunks st; mh_out := mh_out st ++ R |}
      | MHandoff :: r => {| mh_prog := r; mh_handed := true; mh_chunks := mh_chunks st; mh_out := mh_out st |}
      | MOther :: r => {| mh_prog := r; mh_handed := mh_handed st; mh_chunks := mh_chunks st; mh_out := mh_out st |}
      end
  | TProxy =>
      if mh_handed st then
        match mh_chunks st with
        | [] => st
        | c :: r => {| mh_prog := mh_prog st; mh_handed := true; mh_chunks := r; mh_out := mh_out st ++ c |}
        end
      else st
  end.

Definition mh_init (p : list mux_op) (bs : list bytes) : mh_state :=
  {| mh_prog := p; mh_handed := false; mh_chunks := bs; mh_out := [] |}.
Definition mh_run (R : bytes) (sched : list mh_tid) (st : mh_state) : mh_state := fold_left (mh_step R) sched st.

Definition is_resp (o : mux_op) : bool := match o with MResp => true | _ => false end.
Fixpoint resp_before_handoff (p : list mux_op) : bool :=
  match p with
  | [] => true
  | MHandoff :: r => negb (existsb is_resp r)
  | _ :: r => resp_before_handoff r
  end.
Fixpoint resp_bytes (R : bytes) (p : list mux_op) : bytes :=
  match p with [] => [] | MResp :: r => R ++ resp_bytes R r | _ :: r => resp_bytes R r end.

(* httppkg.OkResponse().Write: "HTTP/1.1 200 OK\r\nContent-Length: 0\r\n\r\n" *)
Definition connect_ok_response : bytes :=
  hx "485454502f312e3120323030204f4b0d0a436f6e74656e742d4c656e6774683a20300d0a0d0a".

Fixpoint last_str (l : list string) : option string :=
  match l with [] => None | [x] => Some x | _ :: r => last_str r end.

Definition mux_order_ok (evs : list string) (hooks : list (string * string)) (cresp : list string) : bool :=
  resp_before_handoff (mux_prog_of evs) &&
  (length (filter is_resp (mux_prog_of evs)) =? 1)%nat &&
  str_is (last_str evs) "handoff" &&
  negb (existsb (fun e => br_prefix "?" e) evs) &&
  match dl_at_handoff (false, false) evs with Some (false, false) => true | _ => false end &&
  match br_assoc_s "SetSuccessHookFunc" hooks with Some h => br_suffix ".sendConnectResponse" h | None => false end &&
  existsb (fun c => String.eqb c "return httppkg.OkResponse().Write($0)") cresp &&
  existsb (fun c => String.eqb c "if $recv.passthrough") cresp.

(* ---------- 7. yamux stream close: does the reader get everything the closer wrote? ---------- *)

(* tcpMux on: when the writing side closes its stream yamux sends FIN and arms StreamCloseTimeout; the
   timer is stopped only by the peer's FIN, which the peer sends after it has drained what is buffered on
   its side (at most MaxStreamWindowSize bytes) at its own pace (a bandwidth limit, a slow reader).  If the
   timer fires first the closer resets the stream and the reader's Read fails although data is still
   buffered: the reader sees the end of the stream after a truncated prefix.
   [inflight]: bytes written but not yet drained when the writer's side closed; [rate]: drain rate in
   bytes per second.  yamux itself is not verified; this is its documented close protocol. *)
Definition drain_ms (inflight rate : Z) : Z := (inflight * 1000 + rate - 1) / rate.

Definition drain_delivered (timeout_ms rate inflight : Z) : Z :=
  if drain_ms inflight rate <=? timeout_ms then inflight else rate * timeout_ms / 1000.

Definition yamux_fields_allowed : list string := ["KeepAliveInterval"; "LogOutput"; "MaxStreamWindowSize"].

Definition yamux_cfg_ok (sites : list (string * string * string * string)) (wins : list (string * string * Z)) (default_ms : Z) : bool :=
  forallb (fun x => match x with (_, _, f, v) =>
     existsb (String.eqb f) yamux_fields_allowed &&
     (if String.eqb f "KeepAliveInterval" then br_suffix ".Transport.TCPMuxKeepaliveInterval) * time.Second" v else true) end) sites &&
  (length wins =? 2)%nat && forallb (fun x => match x with (_, _, w) => w =? 6291456 end) wins &&
  (default_ms =? 300000).

(* ---------- 8. stcp visitor: the handshake deadline must be gone when the stream is joined ---------- *)

(* client/visitor/stcp.go handleConn arms a 10 s read deadline for the NewVisitorConnResp and joins the same
   connection afterwards; a deadline still armed at the join cuts every stream that is idle when it is 10 s old.
   Events inside a defer statement ("defer:...") run after the join and do not count. *)
Fixpoint dl_at (marker : string) (st : bool * bool) (evs : list string) : option (bool * bool) :=
  match evs with
  | [] => None
  | e :: r => if String.eqb e marker then Some st else dl_at marker (dl_step st e) r
  end.

Definition visitor_events_ok (evs : list string) : bool :=
  match dl_at "join" (false, false) evs with Some (false, false) => true | _ => false end &&
  negb (existsb (fun e => br_prefix "?" e) evs) &&
  (length (filter (fun e => String.eqb e "join") evs) =? 1)%nat &&
  existsb (fun e => String.eqb e "readmsg") evs.

(* ---------- 9. xtcp visitor: falling back to the stcp visitor ---------- *)

(* client/visitor/xtcp.go handleConn: when no tunnel could be opened (ANY error of openTunnel: the fallback timeout,
   its own 20 s timer, a closed visitor) the user connection is handed to the configured fallback visitor; it is
   dropped only if no fallback visitor is configured.  [err]: openTunnel failed; [fallback]: FallbackTo <> "". *)
Definition xtcp_user_conn_fate (err fallback : bool) : Z :=   (* 0 joined to the tunnel, 1 transferred to the fallback visitor, 2 closed *)
  if err then (if fallback then 1 else 2) else 0.

Definition xtcp_fallback_ok (evs : list string) : bool :=
  match evs with
  | [e; g; t] =>
      br_prefix "enclosing:" e && br_suffix "err != nil" e &&
      String.eqb g "guard:$recv.cfg.FallbackTo == """"" &&
      String.eqb t "transfer:$recv.cfg.FallbackTo,$0"
  | _ => false
  end.
