from vlib import Check

PID = "C10"

MANIFEST = dict(
    text="Machine-checked theorems (Coq 8.16.1) over an executable model of frps's resource accounting as ONE state "
         "(Model/SrvRes.v: both port managers, listening sockets, the http / https / tcpmux route tables, visitor and NAT-hole "
         "tables, the three group tables, the global name table, the session table with per-session proxies, quota counter and "
         "pool) whose steps are the handlers' sequential semantics in the code's order of acquisition and rollback (RegisterProxy's "
         "deferred quota rollback and deferred Close, HTTPProxy.Run's closeFuncs, BaseProxy.Close, CloseProxy, the worker teardown), "
         "with oracles for the random port, the outcome of net.Listen and a concurrent registration winning pxyManager.Add. Proved "
         "for every history (fold_left of the step function, every oracle value, group-free requests): no table entry and no used "
         "port without a currently registered holder; after CloseProxy, after a session end (drop / re-login / heartbeat timeout) "
         "and after a registration failing at ANY step the footprint of the proxy is empty and, for failures, every table is "
         "restored (port managers up to free-table order and reserved-port memory, quota included); when nothing is registered "
         "every resource table is empty (cycles cannot accumulate). Model/ConnWrap.v: close-propagation graphs of "
         "ContextConn, WrapReadWriteCloserConn, CloseNotifyConn, StatsConn, golib ReadWriteCloser and the stacks of the three server "
         "sites: the transport is closed exactly once for every guarded stack and any number of Close calls. Tied to the code on "
         "every run by an in-process frps with scripted clients (every proxy type incl. grouped ones x every termination path x "
         "every failure point, register -> terminate -> re-register identical, table sizes through build-tag accessors, OS port "
         "probes, work connections observed closed), 30 repeated cycles, the real wrappers around a counting net.Conn, and the "
         "schedules of F-C10d replayed on the real udp proxy. Round 2: UDPProxy.Close vs the goroutines of Run for all schedules "
         "(Model/UdpLoop.v), and the group operations (refused join changes nothing, last leave releases, join-then-leave "
         "restores, re-join succeeds) for states reachable by any history.",
    note="Trusted: Coq kernel+VM; harness transcription; the model is hand-written and compared on every run. The theorems cover "
         "histories without load-balancing groups; grouped tcp/http/tcpmux proxies have step-level theorems (join / leave / refused "
         "join / re-join in any reachable state) and are checked by the correspondence. Interleavings inside one registration are C12's "
         "(Model/CtlMgr.v); here the lost Add race is an oracle. Goroutine and descriptor counts over repeated cycles are runtime "
         "observations with a tolerance (labelled); yamux/quic session teardown is third-party and not modelled.",
    technique="Coq proof (inductive invariant over all operation histories and oracle values; algebraic close-propagation) + "
              "differential correspondence via vm_compute + runtime observation of goroutine/fd slope",
    design="4/C10")


def q(tier, quick, thorough):
    return quick if tier == "quick" else thorough


def need(c, driver, counters):
    got = c.cov.get("coq_counters", {}).get(driver)
    if got is None:
        return
    for k in counters:
        if got.get(k, 0) <= 0:
            c.broken.append(dict(kind="coverage", name="driver %s never reached branch %s" % (driver, k),
                                 detail="counter %s = %s" % (k, got.get(k))))


def recipe(c: Check):
    c.build(["Properties/C10.vo", "Corr/C10.vo"], harness=["c10"], units=["t5", "t10rel"])
    c.obligations("C10")
    c.run_driver("connwrap", q(c.tier, 60, 200), shards=1, timeout=300)
    need(c, "connwrap", ["NW_GUARDED"])
    c.run_driver("release", q(c.tier, 130, 1200), shards=q(c.tier, 8, 16), timeout=q(c.tier, 600, 3000))
    need(c, "release", ["NB_OK", "NB_QUOTA", "NB_EXISTS", "NB_ACQERR", "NB_LISTENFAIL", "NB_CONFLICT_ROLLBACK",
                        "NB_CONFLICT_FIRST", "NB_GROUP_REFUSED", "NB_ADDRACE", "NB_CLOSE",
                        "NB_END_WITH_PROXIES", "NB_GROUP_JOIN", "NB_GROUP_LAST_LEAVE", "NB_END_WITH_POOL"])
    c.run_driver("udprace", q(c.tier, 2, 20), coq=False, timeout=600)
    c.run_driver("quicend", q(c.tier, 1, 3), coq=False, timeout=300)
    c.run_driver("sshgw", q(c.tier, 1, 3), coq=False, timeout=300)
    st = c.run_driver("cycles", 30, shards=1, timeout=600)
    if st:
        c.cov["runtime_observations"] = dict(
            label="runtime observation with tolerance, not a theorem",
            goroutines=st.get("goroutines"), fds=st.get("fds"))
    return c.finish(
        rule="release driver: one fresh in-process frps (127.0.10.x, allowPorts inside 21000-21099) per scenario with scripted "
             "pkg/msg clients: proxy kind (tcp, udp, http with 2 domains / locations, https, tcpmux, stcp, sudp, xtcp, grouped "
             "tcp/http/tcpmux) x termination path (CloseProxy; drop after NewProxyResp; drop right after NewProxy; re-login with "
             "the same run id; heartbeat timeout; NewProxy failing: name taken, port used / not allowed / squatted / none "
             "available, listen failing after the acquisition, second domain or location owned by another proxy, group join "
             "refused, quota exceeded, name taken concurrently via the regproxy gate), then the identical re-registration; after "
             "every step the fifteen table sizes (accessor files), used ports, name table and an OS bind scan of the allowed range "
             "are compared with Model.SrvRes (Corr.C10.check_case) and the observed trace is run through the monitor C10_holds "
             "(state-restored claims); implementation-level checks: bystander proxy still serves, work connections of the stopped "
             "proxy are closed (with and without the server-side limiter), ports bindable again. cycles driver: 30 cycles with the "
             "same names over every kind, sizes equal after each cycle, goroutine / descriptor slope within tolerance. connwrap "
             "driver: each real wrapper and the real http/tcp/client-udp site stacks around a counting net.Conn, 1-3 Close calls. udprace "
             "driver: the three schedules of F-C10d (drop / CloseProxy right after StartWorkConn, CloseProxy with a pooled "
             "connection) replayed on the real server: no work connection may stay open or be taken by the closed proxy. "
             "distinct = distinct case text; non-trivial = at least one successful registration (connwrap: k >= 1)",
        assumptions=["the random port choice, the outcome of net.Listen and a lost pxyManager.Add race are oracles: the harness passes "
                     "the observed values (or forces them: non-local bind address, regproxy gate), the model rejects illegal ones",
                     "handlers are sequential per session (the dispatcher runs NewProxy/CloseProxy handlers in the read loop and the "
                     "teardown starts only after the read loop ended); interleavings between sessions are C12's subject",
                     "route tables are compared as sets of (domain, location, user); lower-case ASCII domains only",
                     "goroutine and descriptor counts: runtime observation with tolerance 8 over 30 cycles"])
