(* Types of the data translator unit t5 emits into gen/GenStacks.v (C01; imported by C05, C08, C10).
   Model only: no proofs here.

   A *site* is one Go function that builds a tunnel wrapper stack around a connection.  Its layers
   are listed in WRAPPING order: the first layer is applied first and therefore sits next to the wire,
   the last layer is the outermost one (the value the function finally reads from / writes to).

   All expression strings are CANONICAL: the translator replaces the receiver by $recv, the i-th
   parameter by $i, a local with exactly one definition by (the canonical form of) its defining
   expression ("#k" selects the k-th result of a tuple assignment), a local that is declared and only
   filled by reference by $v<k>, a local with several definitions by $multi:<name>, and the tracked
   stack variable by $top.  Renaming locals / parameters therefore does not change the output. *)
From FRP Require Export Model.Bytes.

(* what the close function handed to libio.WrapReadWriteCloser around the limiter closes *)
Inductive sk_close :=
| CtInner        (* a value that is the wrapped (inner) connection and is never reassigned afterwards *)
| CtSelf         (* the variable the wrapper itself is assigned to: Close() re-enters the wrapper, whose once-flag is set *)
| CtReassigned   (* a variable that held the inner connection but is reassigned later in the function (closure captures the variable) *)
| CtOther.       (* anything else *)

Inductive sk_layer :=
| SkEnc (guard key : string) (wraps_top : bool)                 (* libio.WithEncryption(top, []byte(key)) under `if guard` *)
| SkComp (guard : string) (pooled wraps_top : bool)             (* libio.WithCompression[FromPool](top) *)
| SkLimit (guard : string) (rd_top wr_top : bool) (cl : sk_close) (* WrapReadWriteCloser(limit.NewReader(top,_), limit.NewWriter(top,_), closeFn) *)
| SkToConn (wraps_top : bool)                                   (* netpkg.WrapReadWriteCloserToConn(top, under): transparent, Close = Close of top *)
| SkStats (wraps_top : bool)                                    (* netpkg.WrapStatsConn(top, fn): transparent, once-guarded Close of top *)
| SkUnknown (what : string).                                    (* a construct the translator does not recognise *)

Record sk_site := {
  sk_file : string;
  sk_func : string;
  sk_layers : list sk_layer;
  (* libio.Join(a, b) calls in the function: (a is the stack top, b is the stack top) *)
  sk_joins : list (bool * bool)
}.

Definition sk_close_eqb (a b : sk_close) : bool :=
  match a, b with
  | CtInner, CtInner | CtSelf, CtSelf | CtReassigned, CtReassigned | CtOther, CtOther => true
  | _, _ => false
  end.
